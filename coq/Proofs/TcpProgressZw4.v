(* C02 (liveness half), steps 4 + 5 composed: ROUNDS WITHOUT "THE WINDOW IS OPEN".
   Direction x -> y, both ESTABLISHED, y has written nothing; reliable runs (fair_run + once_run).
   One round, from any state of the regime with an octet of x not yet read by y's application: before
   the clock has advanced by Wz = 3 RTTE_MAX_RTO + 3 Dt + Da, SND.UNA of x advances or y's application
   reads.  Phases:
     R   y's buffer is non-empty: the application reads within Da
     F   (<= Dt) every frame that was in flight towards x at the start of the round is delivered (once);
         afterwards every frame that can still arrive was emitted by y with an empty buffer and so
         advertises an open window [wpos]
     K0  (no time) if the window y advertised last is closed, a window update is due: poll_at(y) = Now
     D0  x believes the window closed: the probe deadline (Proofs/TcpProgressZw2.v, Z1); a frame opens the
         window -> D1; at the deadline one octet from SND.UNA goes out -> S2
     D1  x believes the window open: the retransmission deadline (Proofs/TcpProgressAck.v, K1) -> S2
     S2  a segment that starts at SND.UNA is in flight: delivered within Dt; y accepts an octet (-> R) or
         it is stale and y answers at once with an ACK of RCV.NXT > SND.UNA -> S4
     S4  that ACK is in flight: delivered within Dt, SND.UNA advances
   all_written_bytes_eventually_delivered_zw: by induction over the rounds. *)
From SV Require Import Lib.Base Gen.Consts.
From SV Require Import Model.Seq32 Model.Assembler Model.TcpBuf Model.TcpTypes Model.Tcp Model.TcpNet.
From SV Require Import Proofs.TcpSendBase Proofs.TcpLiveBase Proofs.TcpLiveProofs Proofs.TcpLiveMore
  Proofs.TcpLiveProgress.
From SV Require Import Proofs.TcpNetBase.
From SV Require Proofs.TcpRecvBase Proofs.TcpRecvWindow Proofs.TcpRecvInv Proofs.TcpRecvProcess Proofs.TcpRecvDispatch.
From SV Require Import Proofs.TcpProgressBase Proofs.TcpProgressFrame Proofs.TcpProgressRecv
  Proofs.TcpProgressSend Proofs.TcpProgressNet Proofs.TcpProgressData Proofs.TcpProgressAck Proofs.TcpProgressAll
  Proofs.TcpProgressZwp Proofs.TcpProgressExample Proofs.TcpProgressWitness Proofs.TcpProgressZwDup
  Proofs.TcpProgressZw1 Proofs.TcpProgressZw1b Proofs.TcpProgressZw2.

Lemma adv_open_same s : adv_open s <-> adv_open' s.
Proof. unfold adv_open, adv_open'. tauto. Qed.

Section Zr.
Variable x : side.
Let y := side_other x.
Variables Dt Da Dack : Z.

(* further safety facts of every state of the run (derived from the regime invariant and C01's
   invariant in Proofs/TcpProgressZw5.v) *)
Record zmore (st : net) : Prop := mkZM {
  zm_zwp0 : timer_is_zero_window_probe (s_timer (net_sock st x)) = true -> s_remote_win_len (net_sock st x) = 0;
  zm_last : exists la j, s_remote_last_ack (net_sock st y) = Some la /\ 0 <= la < 4294967296 /\
                         tcp_window_start (net_sock st y) = sq (la + j) /\ 0 <= j <= 2 ^ 30;
  zm_cap : rb_cap (s_rx_buffer (net_sock st y)) <= 2 ^ 30;
  zm_delay : match s_ack_delay (net_sock st y) with Some d => 0 <= d <= Dack | None => True end;
  zm_lwb : shl (s_remote_last_win (net_sock st y)) (s_remote_win_shift (net_sock st y))
           <= rb_cap (s_rx_buffer (net_sock st y));
  zm_synfw : s_syn_unacked_in_fin_wait (net_sock st y) = false
}.

Definition zsafe2 (st : net) : Prop := zsafe x st /\ zmore st.

(* with the window open on both sides this is the regime of Proofs/TcpProgressAck.v *)
Lemma safe3_of_z st :
  zsafe2 st -> 0 < s_remote_win_len (net_sock st x) -> adv_open (net_sock st y) -> safe3 x Dack st.
Proof.
  intros (HZ & HM) Hwin Hadv. split.
  - constructor.
    + exact (zs_est x st HZ).
    + exact (zs_tuple x st HZ).
    + exact (zs_acc x st HZ).
    + exact Hwin.
    + destruct (timer_is_zero_window_probe (s_timer (net_sock st x))) eqn:E; [|reflexivity].
      pose proof (zm_zwp0 st HM E). lia.
    + exact (zs_mss x st HZ).
    + exact (zs_txb x st HZ).
    + exact (zs_ytx x st HZ).
    + destruct (zs_rcv x st HZ) as (A & _ & C & D). split; [exact A|]. split; [exact Hadv|]. split; assumption.
    + exact (zs_chan x st HZ).
    + exact (zs_cross x st HZ).
  - constructor.
    + exact (zm_last st HM).
    + exact (zm_cap st HM).
    + exact (zm_delay st HM).
    + exact (zs_xadv x st HZ).
    + exact (zs_xchan x st HZ).
Qed.

(* ---------------------------------------------------------------------------------------- *)
(* delivery deadlines are at most Dt ahead                                                   *)
(* ---------------------------------------------------------------------------------------- *)
Definition dlb (fa : fair_aux) (st : net) : Prop :=
  forall z t, In (Some t) (fa_dl fa z) -> net_now st z <= t <= net_now st z + Dt.

Lemma dlb_init st : 0 <= Dt -> dlb (fa_init Dt Da st) st.
Proof. intros HDt z t H. cbn [fa_init fa_dl] in H. apply repeat_spec in H. inversion H; subst. lia. Qed.

Lemma dlb_after fa st ev st' :
  0 <= Dt -> dlb fa st -> fair_ev fa st ev -> net_step st ev = Ok st' -> dlb (fa_after Dt Da fa ev st') st'.
Proof.
  intros HDt Hb Hfe H z t Hin. cbn [fa_after fa_dl] in Hin.
  apply pad_dl_in in Hin. destruct Hin as [Hin | ->]; [|lia].
  assert (Hold : In (Some t) (fa_dl fa z)).
  { destruct ev; try exact Hin. destruct (side_eqb to z); [exact (mark_delivered_in _ _ _ Hin) | exact Hin]. }
  specialize (Hb z t Hold). rewrite (net_step_now _ _ _ z H).
  destruct ev; try lia.
  destruct Hfe as (Hd0 & Hperm). destruct (Z.eq_dec d 0) as [-> | Hnz]; [lia|].
  destruct (Hperm ltac:(lia) z) as (_ & Hdl & _). specialize (Hdl t Hold). lia.
Qed.

(* ---------------------------------------------------------------------------------------- *)
(* the base of every phase: nothing has progressed yet, y's buffer is empty                    *)
(* ---------------------------------------------------------------------------------------- *)
Definition G (u0 d0 : Z) (st : net) : Prop :=
  u0 < una_off (net_get st x) \/ d0 < read_off (net_get st y).

Definition Fb (u0 d0 dk : Z) (fa : fair_aux) (st : net) : Prop :=
  NI st /\ opts_ok st /\ dl_sync Da fa st /\ dlb fa st /\ net_now st y - net_now st x = dk /\
  una_off (net_get st x) = u0 /\ read_off (net_get st y) = d0 /\ rcv_off (net_get st y) = d0 /\
  0 < txl x st.

(* frames towards x with index >= n0 that can still be delivered advertise an open window *)
Definition wposN (n0 : nat) (fa : fair_aux) (st : net) : Prop :=
  forall j q t, (n0 <= j)%nat -> nth_error (chan_to st x) j = Some q -> nth_error (fa_dl fa x) j = Some (Some t) ->
                0 < r_window_len (snd q) < 65536.

Lemma wposN_step n0 fa st ev st' :
  dl_sync Da fa st -> fair_ev fa st ev -> net_step st ev = Ok st' -> wposN n0 fa st ->
  (forall q, chan_to st' x = chan_to st x ++ [q] -> 0 < r_window_len (snd q) < 65536) ->
  wposN n0 (fa_after Dt Da fa ev st') st'.
Proof.
  intros (Hlen & _) Hfe H Hw Hnew j q t Hn0 Hn Hdl.
  destruct (fair_step_chan _ _ _ _ x Hfe H) as (l & Hch & Hl1).
  destruct (Nat.lt_ge_cases j (length (chan_to st x))) as [Hj | Hj].
  - rewrite Hch, nth_error_app1 in Hn by exact Hj.
    apply (Hw j q t Hn0 Hn). apply (fa_after_dl_old Dt Da fa ev st' x j t); [rewrite (Hlen x); exact Hj | exact Hdl].
  - rewrite Hch in Hn. rewrite nth_error_app2 in Hn by exact Hj.
    destruct l as [|q0 [|q1 l]]; cbn [length] in Hl1; try lia.
    + destruct (j - length (chan_to st x))%nat; discriminate.
    + destruct (j - length (chan_to st x))%nat as [|k] eqn:Ek; [|destruct k; discriminate].
      cbn in Hn. inversion Hn; subst q0. apply Hnew. exact Hch.
Qed.

Lemma wpos_of_N fa st : wposN 0 fa st <-> wpos x fa st.
Proof. unfold wposN, wpos. split; intros H j q t; [apply (H j q t); lia | intros _; apply H]. Qed.

Lemma send_slice_win s data s' n : tcp_send_slice s data = Ok (s', n) -> s_remote_win_len s' = s_remote_win_len s.
Proof.
  intros H. unfold tcp_send_slice in H. destruct (negb (tcp_may_send s)); [discriminate|].
  destruct (rb_enqueue_slice (s_tx_buffer s) data) as (tx, size).
  destruct (size >? 0); [|inversion H; subst; sproj; auto].
  inversion H; subst s' n; clear H.
  destruct (rb_len (s_tx_buffer s) =? 0); sproj;
    match goal with |- context [if ?b then _ else _] => destruct b end; sproj; auto.
Qed.

(* what an event did to the sender's view of the window and to its timer *)
Definition xkind (st : net) (ev : net_event) (s' : socket) : Prop :=
  (ev = NPoll x true /\ s_remote_win_len s' = s_remote_win_len (net_sock st x)) \/
  (s_timer s' = s_timer (net_sock st x) /\ s_remote_win_len s' = s_remote_win_len (net_sock st x)) \/
  (exists i p, ev = NDeliver x i /\ nth_error (chan_to st x) i = Some p /\
               (0 < r_window_len (snd p) < 65536 -> 0 < s_remote_win_len s')).

Lemma fb_x_event fa st ev ev0 e' :
  NI st -> opts_ok st -> zsafe x st -> zsafe x (net_set st x e') ->
  fair_ev fa st ev -> 0 < txl x st ->
  sock_event st ev x ev0 -> ep_step (net_get st x) ev0 = Ok e' ->
  una_off (net_get st x) < una_off e' \/
  (una_off e' = una_off (net_get st x) /\
   s_local_seq_no (ep_sock e') = s_local_seq_no (net_sock st x) /\
   rb_len (s_tx_buffer (net_sock st x)) <= rb_len (s_tx_buffer (ep_sock e')) /\
   xkind st ev (ep_sock e')).
Proof.
  intros HN Ho HR HR' Hfe Hlen Hse He.
  pose proof (NI_live st x HN) as Ix. destruct (HN x) as (Hcx & Hnow & _ & _).
  pose proof (zs_est x st HR x) as Hst. pose proof (zs_est x _ HR' x) as Hst'.
  pose proof (zs_txb x st HR) as Htxb.
  destruct (zs_tuple x st HR x) as (t & Htu & Hta).
  destruct (Ho x) as (Hto & _).
  unfold xkind, net_sock, txl in *. rewrite net_get_set_same in Hst'.
  destruct (ep_step_spec _ _ _ He) as (s' & out & tags & Hs & Hk & _ & Hout & _).
  destruct ev; cbn [sock_event] in Hse; try contradiction.
  - (* a segment arrives *)
    destruct Hse as (-> & p & Hn & ->).
    pose proof (ep_step_una_off _ (EvSegment (fst p) (wire_parse (snd p))) _ _ _ _ I (li_tx _ Ix) He Hs ltac:(discriminate)) as Hu.
    cbn [tcp_step] in Hs. apply obind_ok in Hs. destruct Hs as (((s1 & rp) & tg) & Hi & Hs).
    assert (E : s1 = s') by (inversion Hs; reflexivity). subst s1.
    pose proof (nth_error_In _ _ Hn) as Hin.
    rewrite (ingress_is_process _ _ _ (zs_acc x st HR x p Hin)) in Hi. unfold net_sock in Hi.
    rewrite Hk in Hst'.
    assert (Htx31 : rb_len (s_tx_buffer (ep_sock (net_get st x))) < 2 ^ 31)
      by (change (2 ^ 30) with 1073741824 in Htxb; change (2 ^ 31) with 2147483648; lia).
    destruct (process_sender_core _ _ _ _ _ _ _ Hcx (seg_ok_parse (snd p)) Ix Hst Hst' Htx31 Hi) as [Hshr | (U & T)].
    + left. rewrite Hu. lia.
    + right. rewrite Hk, Hu, T. split; [lia|]. split; [exact U|]. split; [lia|].
      destruct (process_sender_win _ _ _ _ _ _ _ Hcx (seg_ok_parse (snd p)) Ix Hst Hst' Htx31 Hi)
        as [(_ & C2 & _ & _ & _ & _ & C7 & _) | (_ & Hwn)].
      * right. left. split; assumption.
      * right. right. exists i, p. split; [reflexivity|]. split; [exact Hn|]. intros (Hwl0 & Hwl1).
        rewrite Hwn. unfold wire_parse at 1. cbn [r_window_len].
        rewrite Z.mod_small by lia. unfold shl, win_scale_of.
        pose proof (li_scale _ Ix) as Hsc.
        assert (0 < 2 ^ (match r_control (wire_parse (snd p)) with
                         | CSyn => 0
                         | _ => match s_remote_win_scale (ep_sock (net_get st x)) with Some v => v | None => 0 end
                         end)).
        { apply Z.pow_pos_nonneg; [lia|].
          destruct (r_control (wire_parse (snd p))); destruct (s_remote_win_scale (ep_sock (net_get st x))); lia. }
        nia.
  - (* poll *)
    destruct Hse as (-> & ->). cbn [fair_ev] in Hfe. subst emit_ok.
    pose proof (ep_step_una_off _ (EvDispatch true) _ _ _ _ I (li_tx _ Ix) He Hs ltac:(discriminate)) as Hu.
    cbn [tcp_step] in Hs. apply obind_ok in Hs. destruct Hs as (((s1 & rs) & tg) & Hd & Hs).
    assert (E : s1 = s') by (inversion Hs; auto). subst s1.
    destruct (dispatch_una_tx _ _ _ _ _ _ _ Ix Hst Hto Htu Hta Hd) as (D1 & D2 & _ & D4).
    right. rewrite Hk, Hu, D2, D1. split; [lia|]. split; [reflexivity|]. split; [lia|].
    left. split; [reflexivity | exact D4].
  - (* send *)
    destruct Hse as (-> & ->).
    destruct (ep_step_send_una_off _ _ _ (li_tx _ Ix) He) as (U1 & U2 & U3 & _ & U5 & _).
    right. split; [exact U1|]. split; [exact U3|]. split; [exact U2|].
    right. left. cbn [tcp_step] in Hs. rewrite Hk.
    destruct (tcp_send_slice (ep_sock (net_get st x)) data) as [(s2, n)|err|] eqn:E; [| |discriminate].
    + assert (E1 : s2 = s') by (inversion Hs; reflexivity). subst s2.
      pose proof (send_slice_win _ _ _ _ E) as Hw. split; [|exact Hw].
      destruct (Z.eq_dec (s_remote_win_len (ep_sock (net_get st x))) 0) as [Hw0 | Hwn]; [|rewrite <- Hk; exact (U5 Hwn)].
      assert (Hni : timer_is_idle (s_timer (ep_sock (net_get st x))) = false).
      { assert (L : st_live (s_state (ep_sock (net_get st x))) = true) by (rewrite Hst; reflexivity).
        destruct (li_K _ Ix L) as [Ha | (_ & Hw1)]; [destruct (s_timer (ep_sock (net_get st x))); try discriminate; reflexivity|].
        exfalso. exact (Hw1 Hlen Hw0). }
      exact (proj1 (send_slice_zw _ _ _ _ E Hni)).
    + assert (E1 : s' = ep_sock (net_get st x)) by (inversion Hs; reflexivity). rewrite E1. split; reflexivity.
  - (* recv *)
    destruct Hse as (-> & ->).
    pose proof (ep_step_una_off _ (EvRecv (Z.max 0 n)) _ _ _ _ I (li_tx _ Ix) He Hs ltac:(discriminate)) as Hu.
    cbn [tcp_step] in Hs. rewrite Hk.
    destruct (tcp_recv_slice (ep_sock (net_get st x)) (Z.max 0 n)) as [(s2, b)|err|] eqn:E; [| |discriminate].
    + assert (E1 : s2 = s') by (inversion Hs; reflexivity). subst s2.
      destruct (recv_slice_core _ _ _ _ E) as (_ & C2 & _ & C4 & C5 & _ & C7 & _).
      right. rewrite Hu, C4, C5. split; [lia|]. split; [reflexivity|]. split; [lia|].
      right. left. split; assumption.
    + assert (E1 : s' = ep_sock (net_get st x)) by (inversion Hs; reflexivity). rewrite E1 in *.
      right. rewrite Hu. split; [lia|]. split; [reflexivity|]. split; [lia|]. right. left. split; reflexivity.
  - (* close: not in this regime *)
    destruct Hse as (-> & ->). exfalso.
    cbn [tcp_step] in Hs. assert (E1 : tcp_close (ep_sock (net_get st x)) = s') by (inversion Hs; reflexivity).
    rewrite Hk, <- E1 in Hst'. unfold tcp_close in Hst'. rewrite Hst in Hst'. sproj in Hst'. discriminate.
Qed.

Definition fkeep (st : net) (ev : net_event) (st' : net) : Prop :=
  s_local_seq_no (net_sock st' x) = s_local_seq_no (net_sock st x) /\ txl x st <= txl x st' /\
  xkind st ev (net_sock st' x).

Lemma fb_step n0 u0 d0 dk fa st ev st' :
  0 <= Dt -> 0 <= Da ->
  zsafe x st -> zsafe x st' -> Fb u0 d0 dk fa st -> wposN n0 fa st -> fair_ev fa st ev -> net_step st ev = Ok st' ->
  G u0 d0 st' \/ JR x Da d0 (net_now st' y + Da) (fa_after Dt Da fa ev st') st' \/
  (Fb u0 d0 dk (fa_after Dt Da fa ev st') st' /\ wposN n0 (fa_after Dt Da fa ev st') st' /\ fkeep st ev st').
Proof.
  intros HDt HDa HR HR' (HN & Ho & Hsy & Hb & Hdk & Hu & Hrd & Hrc & Hl) Hw Hfe H.
  pose proof (NI_step _ _ _ HN H) as HN'. pose proof (opts_step _ _ _ Ho H) as Ho'.
  pose proof (fa_after_sync Dt Da _ _ _ _ Hsy Hfe H) as Hsy'.
  pose proof (dlb_after _ _ _ _ HDt Hb Hfe H) as Hb'.
  assert (Hdk' : net_now st' y - net_now st' x = dk).
  { rewrite (net_step_now _ _ _ x H), (net_step_now _ _ _ y H). lia. }
  assert (Hsame : ep_same_data (net_get st' x) (net_get st x) -> ep_same_data (net_get st' y) (net_get st y) ->
                  G u0 d0 st' \/ JR x Da d0 (net_now st' y + Da) (fa_after Dt Da fa ev st') st' \/
                  (Fb u0 d0 dk (fa_after Dt Da fa ev st') st' /\ wposN n0 (fa_after Dt Da fa ev st') st' /\ fkeep st ev st')).
  { intros (X1 & X2 & X3 & X4) (Y1 & Y2 & Y3 & Y4). right. right.
    assert (Hch : chan_to st' x = chan_to st x) by (unfold chan_to; exact Y4).
    split; [|split].
    - unfold Fb, txl, net_sock, una_off, rcv_off, read_off. rewrite X1, X2, Y1, Y3.
      split; [exact HN'|]. split; [exact Ho'|]. split; [exact Hsy'|]. split; [exact Hb'|]. split; [exact Hdk'|].
      split; [exact Hu|]. split; [exact Hrd|]. split; [exact Hrc | exact Hl].
    - apply (wposN_step n0 fa st ev st' Hsy Hfe H Hw). intros q Hq. exfalso. rewrite Hch in Hq.
      apply (f_equal (@length packet)) in Hq. rewrite app_length in Hq. cbn [length] in Hq. lia.
    - unfold fkeep, xkind, txl, net_sock. rewrite X1. split; [reflexivity|]. split; [lia|]. right. left. split; reflexivity. }
  destruct (net_step_kind _ _ _ H) as [w ev0 e' Hse He E | to i E1 _ E | d E1 E | w isn ts E1 E | to i Hd].
  - destruct (side_cases x w) as [Ew | Ew]; subst w st'.
    + (* an event of the sender *)
      destruct (fb_x_event fa st ev ev0 e' HN Ho HR HR' Hfe Hl Hse He) as [Hp | (U1 & U2 & U3 & U4)].
      * left. left. rewrite net_get_set_same, <- Hu. exact Hp.
      * right. right.
        assert (Ey : net_get (net_set st x e') y = net_get st y) by apply net_get_set_other.
        assert (Hch : chan_to (net_set st x e') x = chan_to st x) by (unfold chan_to; fold y; rewrite Ey; reflexivity).
        split; [|split].
        -- unfold Fb, txl, net_sock. rewrite net_get_set_same, Ey.
           split; [exact HN'|]. split; [exact Ho'|]. split; [exact Hsy'|]. split; [exact Hb'|]. split; [exact Hdk'|].
           split; [rewrite U1; exact Hu|]. split; [exact Hrd|]. split; [exact Hrc|].
           unfold txl, net_sock in Hl, U3. lia.
        -- apply (wposN_step n0 fa st ev _ Hsy Hfe H Hw). intros q Hq. exfalso. rewrite Hch in Hq.
           apply (f_equal (@length packet)) in Hq. rewrite app_length in Hq. cbn [length] in Hq. lia.
        -- unfold fkeep, txl, net_sock. rewrite net_get_set_same. split; [exact U2|]. split; [exact U3 | exact U4].
    + (* an event of the receiver *)
      change (side_other x) with y in He, Hse, HR', HN', Ho', Hsy', Hb', Hdk', H |- *.
      assert (Ex : net_get (net_set st y e') x = net_get st x).
      { pose proof (net_get_set_other st y e') as X. unfold y in X at 2 3. rewrite side_other_inv in X. exact X. }
      destruct (zb_y_event x st ev ev0 e' d0 HN HR HR' Hrc Hrd Hse He) as (Hr' & [Hgt | (Hrc' & Hnew)]).
      * right. left. apply (enter_R x Dt Da d0 _ fa st ev _ HN Ho Hsy Hfe H); [rewrite net_get_set_same; exact Hr' | rewrite net_get_set_same; exact Hgt | apply Z.le_refl | exact HDa].
      * right. right. split; [|split].
        -- unfold Fb, txl, net_sock. rewrite Ex, net_get_set_same.
           split; [exact HN'|]. split; [exact Ho'|]. split; [exact Hsy'|]. split; [exact Hb'|]. split; [exact Hdk'|].
           split; [exact Hu|]. split; [exact Hr'|]. split; [exact Hrc' | exact Hl].
        -- apply (wposN_step n0 fa st ev _ Hsy Hfe H Hw). intros q Hq. apply Hnew.
           unfold chan_to in Hq. fold y in Hq. rewrite net_get_set_same in Hq. exact Hq.
        -- unfold fkeep, xkind, txl, net_sock. rewrite Ex. split; [reflexivity|]. split; [lia|]. right. left. split; reflexivity.
  - subst st'. apply Hsame; repeat split.
  - subst st'. apply Hsame; apply tick_same.
  - subst st'. apply Hsame; apply rand_same.
  - exfalso. destruct Hd as [-> | ->]; exact Hfe.
Qed.

(* ---------------------------------------------------------------------------------------- *)
(* the window y advertised last stays open while y's buffer is empty                          *)
(* ---------------------------------------------------------------------------------------- *)
Lemma send_slice_adv s data s' n :
  tcp_send_slice s data = Ok (s', n) ->
  tcp_window_start s' = tcp_window_start s /\ tcp_window_end s' = tcp_window_end s.
Proof.
  intros H. destruct (send_slice_ack _ _ _ _ H) as (A1 & A2). split; [exact A2|].
  apply window_end_view; try assumption;
    unfold tcp_send_slice in H; destruct (negb (tcp_may_send s)); try discriminate;
    destruct (rb_enqueue_slice (s_tx_buffer s) data) as (tx, size);
    (destruct (size >? 0); [|inversion H; subst; sproj; reflexivity]);
    inversion H; subst s' n; clear H;
    destruct (rb_len (s_tx_buffer s) =? 0); sproj;
    match goal with |- context [if ?b then _ else _] => destruct b end; sproj; reflexivity.
Qed.

Lemma recv_slice_adv s n s' b :
  tcp_recv_slice s n = Ok (s', b) -> TcpRecvBase.rb_wf (s_rx_buffer s) -> 0 <= n ->
  tcp_window_start s' = tcp_window_start s /\ tcp_window_end s' = tcp_window_end s.
Proof.
  intros H Hwf Hn. destruct (recv_slice_ack _ _ _ _ H Hwf Hn) as (A1 & A2). split; [exact A2|].
  apply window_end_view; try assumption;
    unfold tcp_recv_slice in H; obind_inv H;
    destruct (rb_dequeue_slice (s_rx_buffer s) n) as (rx, bytes); inversion H; subst; sproj; reflexivity.
Qed.

Lemma adv_open_view s' s :
  tcp_window_start s' = tcp_window_start s -> tcp_window_end s' = tcp_window_end s -> adv_open s -> adv_open s'.
Proof. intros E1 E2 (W & HW & E). exists W. split; [exact HW|]. rewrite E1, E2. exact E. Qed.

Lemma y_adv_keep st ev ev0 e' :
  NI st -> zsafe2 st -> zsafe2 (net_set st y e') ->
  rb_len (s_rx_buffer (net_sock st y)) = 0 -> rb_len (s_rx_buffer (ep_sock e')) = 0 ->
  adv_open (net_sock st y) ->
  sock_event st ev y ev0 -> ep_step (net_get st y) ev0 = Ok e' -> adv_open (ep_sock e').
Proof.
  intros HN (HR & HM) (HR' & HM') Hrx Hrx' Hadv Hse He.
  pose proof (NI_live st y HN) as Iy. unfold net_sock in Iy.
  destruct (zs_rcv x st HR) as (Hrw & Hadvok & Hrxwf & Hsh).
  pose proof (zs_est x st HR y) as Hst. pose proof (zs_est x _ HR' y) as Hst'.
  destruct (zs_tuple x st HR y) as (t & Htu & Hta).
  unfold net_sock in *. rewrite net_get_set_same in Hst'.
  destruct (ep_step_spec _ _ _ He) as (s' & out & tags & Hs & Hk & _).
  rewrite Hk in *.
  (* a fresh advertisement of the window of the empty buffer is open *)
  assert (Hfresh : fresh_adv s' -> adv_open s').
  { intros Hf. apply adv_open_same. apply fresh_open; [exact Hf | | | |].
    - pose proof (zs_capw x _ HR') as X. unfold net_sock in X. rewrite net_get_set_same, Hk in X. apply X. exact Hrx'.
    - destruct (zs_rcv x _ HR') as (_ & _ & _ & X). unfold net_sock in X. rewrite net_get_set_same, Hk in X. exact X.
    - pose proof (zm_lwb _ HM') as X. unfold net_sock in X. rewrite net_get_set_same, Hk in X. exact X.
    - pose proof (zm_cap _ HM') as X. unfold net_sock in X. rewrite net_get_set_same, Hk in X. exact X. }
  destruct ev; cbn [sock_event] in Hse; try contradiction.
  - (* a segment arrives *)
    destruct Hse as (-> & p & Hn & ->).
    cbn [tcp_step] in Hs. apply obind_ok in Hs. destruct Hs as (((s1 & rp) & tg) & Hi & Hs).
    assert (E : s1 = s') by (inversion Hs; reflexivity). subst s1.
    pose proof (nth_error_In _ _ Hn) as Hin.
    rewrite (ingress_is_process _ _ _ (zs_acc x st HR y p Hin)) in Hi. unfold net_sock in Hi.
    destruct (zs_chan x st HR p Hin) as [(Hc & Ha) | (Hc & Ha & Hl)]; unfold net_sock in *.
    + destruct (process_syn_ignored _ _ _ _ _ _ _ Hst Hc Ha Hi) as (-> & _). exact Hadv.
    + pose proof (zs_ytx x st HR) as Hytx. unfold net_sock in Hytx. fold y in Hytx.
      assert (Hu : 0 <= s_local_seq_no (ep_sock (net_get st y)) < 4294967296) by apply (li_una _ Iy).
      assert (Hl30 : l_len (r_payload (wire_parse (snd p))) <= p30) by (unfold TcpRecvWindow.p30; lia).
      assert (Htx31 : 0 <= rb_len (s_tx_buffer (ep_sock (net_get st y))) < 2147483648) by lia.
      destruct rp as [q|].
      * destruct (process_reply_fresh _ _ _ _ _ _ _ Hi) as [X | X]; [exfalso | exact (Hfresh X)].
        pose proof (TcpProgressCtl.process_reply_shape _ _ _ _ _ _ _ Hi) as Hsh'. cbn in Hsh'.
        destruct Hsh' as (_ & [(_ & [Y | Y]) | (Y & _)]); [rewrite Hst in Y; discriminate | rewrite Hst in Y; discriminate|].
        rewrite Y in X. discriminate.
      * destruct (process_quiet_window _ _ _ _ _ _ Hst Hrw Hadvok Hl30 (wire_parse_seq (snd p)) Hc Ha Hu Htx31 Hi
                    ltac:(lia)) as (E1 & E2).
        exact (adv_open_view _ _ E1 E2 Hadv).
  - (* poll *)
    destruct Hse as (-> & ->).
    cbn [tcp_step] in Hs. apply obind_ok in Hs. destruct Hs as (((s1 & rs) & tg) & Hd & Hs).
    assert (E : s1 = s') by (inversion Hs; auto). subst s1.
    destruct (dispatch_est_adv _ _ _ _ _ _ _ Hst Hst' Htu Hta Hd) as (E1 & [E2 | Hf]);
      [exact (adv_open_view _ _ E1 E2 Hadv) | exact (Hfresh Hf)].
  - (* send *)
    destruct Hse as (-> & ->). cbn [tcp_step] in Hs.
    destruct (tcp_send_slice (ep_sock (net_get st y)) data) as [(s2, n)|err|] eqn:E; [| |discriminate].
    + assert (E1 : s2 = s') by (inversion Hs; reflexivity). subst s2.
      destruct (send_slice_adv _ _ _ _ E) as (A1 & A2). exact (adv_open_view _ _ A1 A2 Hadv).
    + assert (E1 : s' = ep_sock (net_get st y)) by (inversion Hs; reflexivity). rewrite E1. exact Hadv.
  - (* recv *)
    destruct Hse as (-> & ->). cbn [tcp_step] in Hs.
    destruct (tcp_recv_slice (ep_sock (net_get st y)) (Z.max 0 n)) as [(s2, b)|err|] eqn:E; [| |discriminate].
    + assert (E1 : s2 = s') by (inversion Hs; reflexivity). subst s2.
      destruct (recv_slice_adv _ _ _ _ E Hrxwf ltac:(lia)) as (A1 & A2). exact (adv_open_view _ _ A1 A2 Hadv).
    + assert (E1 : s' = ep_sock (net_get st y)) by (inversion Hs; reflexivity). rewrite E1. exact Hadv.
  - (* close: not in this regime *)
    destruct Hse as (-> & ->). exfalso.
    cbn [tcp_step] in Hs. assert (E1 : tcp_close (ep_sock (net_get st y)) = s') by (inversion Hs; reflexivity).
    rewrite <- E1 in Hst'. unfold tcp_close in Hst'. rewrite Hst in Hst'. sproj in Hst'. discriminate.
Qed.

(* a fair step is an event of endpoint z, or leaves z's socket alone *)
Lemma zstep_cases fa st ev st' z :
  fair_ev fa st ev -> net_step st ev = Ok st' ->
  (exists ev0 e', sock_event st ev z ev0 /\ ep_step (net_get st z) ev0 = Ok e' /\ st' = net_set st z e') \/
  net_sock st' z = net_sock st z.
Proof.
  intros Hfe H.
  destruct (net_step_kind _ _ _ H) as [w ev0 e' Hse He -> | to i -> _ -> | d -> -> | w isn0 ts -> -> | to i Hd].
  - destruct (side_cases w z) as [-> | ->]; [left; exists ev0, e'; auto|].
    right. unfold net_sock. rewrite net_get_set_other. reflexivity.
  - right. reflexivity.
  - right. destruct z; reflexivity.
  - right. unfold net_sock. destruct (side_cases w z) as [-> | ->]; [rewrite net_get_set_same | rewrite net_get_set_other]; reflexivity.
  - exfalso. destruct Hd as [-> | ->]; exact Hfe.
Qed.

Lemma rx_len_diff st : rb_len (s_rx_buffer (net_sock st y)) = rcv_off (net_get st y) - read_off (net_get st y).
Proof. unfold rcv_off, read_off, net_sock. lia. Qed.

Definition Ab (u0 d0 dk : Z) (fa : fair_aux) (st : net) : Prop :=
  Fb u0 d0 dk fa st /\ wposN 0 fa st /\ adv_open (net_sock st y).

Lemma ab_step u0 d0 dk fa st ev st' :
  0 <= Dt -> 0 <= Da ->
  zsafe2 st -> zsafe2 st' -> Ab u0 d0 dk fa st -> fair_ev fa st ev -> net_step st ev = Ok st' ->
  G u0 d0 st' \/ JR x Da d0 (net_now st' y + Da) (fa_after Dt Da fa ev st') st' \/
  (Ab u0 d0 dk (fa_after Dt Da fa ev st') st' /\ fkeep st ev st').
Proof.
  intros HDt HDa HS HS' (HB & Hw & Hadv) Hfe H.
  destruct (fb_step 0 u0 d0 dk fa st ev st' HDt HDa (proj1 HS) (proj1 HS') HB Hw Hfe H) as [HG | [HJ | (HB' & Hw' & Hk)]];
    [left; exact HG | right; left; exact HJ|].
  right. right. split; [|exact Hk]. split; [exact HB'|]. split; [exact Hw'|].
  destruct HB as (HN & _ & _ & _ & _ & _ & Hrd & Hrc & _).
  destruct HB' as (_ & _ & _ & _ & _ & _ & Hrd' & Hrc' & _).
  destruct (zstep_cases fa st ev st' y Hfe H) as [(ev0 & e' & Hse & He & ->) | E]; [|rewrite E; exact Hadv].
  unfold net_sock. rewrite net_get_set_same.
  apply (y_adv_keep st ev ev0 e' HN HS HS'); try assumption.
  - rewrite rx_len_diff. lia.
  - pose proof (rx_len_diff (net_set st y e')) as X. unfold net_sock in X. rewrite net_get_set_same in X.
    rewrite net_get_set_same in Hrd', Hrc'. lia.
Qed.

(* ---------------------------------------------------------------------------------------- *)
(* F: the frames in flight towards x at the start of the round are flushed                    *)
(* ---------------------------------------------------------------------------------------- *)
Lemma old_tracked_dec (l : list (option Z)) (n0 : nat) :
  (exists j t, (j < n0)%nat /\ nth_error l j = Some (Some t)) \/
  (forall j t, (j < n0)%nat -> nth_error l j <> Some (Some t)).
Proof.
  induction n0 as [|n IH]; [right; intros j t Hj; lia|].
  destruct IH as [(j & t & Hj & Hn) | Hnone]; [left; exists j, t; split; [lia | exact Hn]|].
  destruct (nth_error l n) as [[t|]|] eqn:En.
  - left. exists n, t. split; [lia | exact En].
  - right. intros j t Hj. destruct (Nat.eq_dec j n) as [-> | Hne]; [rewrite En; discriminate | apply Hnone; lia].
  - right. intros j t Hj. destruct (Nat.eq_dec j n) as [-> | Hne]; [rewrite En; discriminate | apply Hnone; lia].
Qed.

Definition JF (n0 : nat) (u0 d0 dk Ts : Z) (fa : fair_aux) (st : net) : Prop :=
  Fb u0 d0 dk fa st /\ wposN n0 fa st /\ (n0 <= length (fa_dl fa x))%nat /\
  (forall j t, (j < n0)%nat -> nth_error (fa_dl fa x) j = Some (Some t) -> t <= Ts) /\
  (exists j t, (j < n0)%nat /\ nth_error (fa_dl fa x) j = Some (Some t)).

Lemma JF_clock n0 u0 d0 dk Ts fa st : JF n0 u0 d0 dk Ts fa st -> net_now st x <= Ts.
Proof.
  intros ((_ & _ & _ & Hb & _) & _ & _ & Hall & j & t & Hj & Hn).
  specialize (Hall j t Hj Hn). pose proof (Hb x t (nth_error_In _ _ Hn)). lia.
Qed.

Lemma JF_step n0 u0 d0 dk Ts fa st ev st' :
  0 <= Dt -> 0 <= Da ->
  zsafe x st -> zsafe x st' -> JF n0 u0 d0 dk Ts fa st -> fair_ev fa st ev -> net_step st ev = Ok st' ->
  (G u0 d0 st' \/ JR x Da d0 (Ts + dk + Da) (fa_after Dt Da fa ev st') st' \/
   (Fb u0 d0 dk (fa_after Dt Da fa ev st') st' /\ wposN 0 (fa_after Dt Da fa ev st') st' /\ net_now st' x <= Ts)) \/
  JF n0 u0 d0 dk Ts (fa_after Dt Da fa ev st') st'.
Proof.
  intros HDt HDa HR HR' HJ Hfe H.
  pose proof (JF_clock _ _ _ _ _ _ _ HJ) as Hclk.
  destruct HJ as (HB & Hw & Hn0 & Hall & j0 & t0 & Hj0 & Ht0).
  assert (Hclk' : net_now st' x <= Ts).
  { rewrite (net_step_now _ _ _ x H). destruct ev; try lia.
    pose proof HB as (_ & _ & _ & Hb0 & _). pose proof (Hb0 x t0 (nth_error_In _ _ Ht0)) as Hb1.
    pose proof (tick_respects_dl fa st d x j0 t0 Hfe Ht0 ltac:(lia)). specialize (Hall j0 t0 Hj0 Ht0). lia. }
  pose proof HB as (_ & _ & (Hlen & _) & _ & Hdk & _).
  destruct (fb_step n0 u0 d0 dk fa st ev st' HDt HDa HR HR' HB Hw Hfe H) as [HG | [HJR | (HB' & Hw' & _)]].
  - left. left. exact HG.
  - left. right. left. apply (JR_mono x Da d0 (net_now st' y + Da)); [|exact HJR].
    pose proof HJR as (_ & _ & _ & A4 & A5 & _). fold y in A4, A5.
    rewrite (net_step_now _ _ _ y H). destruct ev; try lia.
    exfalso. rewrite (net_step_tick _ _ _ H) in A5. destruct (tick_same st d y) as (E1 & _ & E3 & _).
    destruct HB as (_ & _ & _ & _ & _ & _ & Hrd & Hrc & _).
    unfold rcv_off in *. rewrite E1, E3 in A5. unfold read_off in Hrd. lia.
  - assert (Hlen' : (n0 <= length (fa_dl (fa_after Dt Da fa ev st') x))%nat).
    { pose proof HB' as (_ & _ & (Hl' & _) & _). rewrite (Hl' x).
      destruct (fair_step_chan _ _ _ _ x Hfe H) as (l & -> & _). rewrite app_length, <- (Hlen x). lia. }
    assert (Hall' : forall j t, (j < n0)%nat -> nth_error (fa_dl (fa_after Dt Da fa ev st') x) j = Some (Some t) -> t <= Ts).
    { intros j t Hj Hn. apply (Hall j t Hj). apply (fa_after_dl_old Dt Da fa ev st' x j t); [lia | exact Hn]. }
    destruct (old_tracked_dec (fa_dl (fa_after Dt Da fa ev st') x) n0) as [Hex | Hnone].
    + right. split; [exact HB'|]. split; [exact Hw'|]. split; [exact Hlen'|]. split; [exact Hall' | exact Hex].
    + left. right. right. split; [exact HB'|]. split; [|exact Hclk'].
      intros j q t _ Hn Hd. destruct (Nat.lt_ge_cases j n0) as [Hj | Hj]; [exfalso; exact (Hnone j t Hj Hd)|].
      exact (Hw' j q t Hj Hn Hd).
Qed.

(* ---------------------------------------------------------------------------------------- *)
(* K0: the window y advertised last is closed although its buffer is empty: an update is due   *)
(* ---------------------------------------------------------------------------------------- *)
Definition JK0 (u0 d0 dk T : Z) (fa : fair_aux) (st : net) : Prop :=
  Fb u0 d0 dk fa st /\ wposN 0 fa st /\ tcp_window_end (net_sock st y) = tcp_window_start (net_sock st y) /\
  net_now st x <= T.

Lemma closed_or_open st : zsafe x st ->
  tcp_window_end (net_sock st y) = tcp_window_start (net_sock st y) \/ adv_open (net_sock st y).
Proof.
  intros HR. destruct (zs_rcv x st HR) as (_ & (W & HW & E) & _). fold y in E.
  destruct (Z.eq_dec W 0) as [-> | Hn].
  - left. rewrite E, Z.add_0_r. apply TcpRecvBase.seq_norm_small. apply window_start_range.
  - right. exists W. split; [lia | exact E].
Qed.

Lemma JK0_step u0 d0 dk T fa st ev st' :
  0 <= Dt -> 0 <= Da ->
  zsafe2 st -> zsafe2 st' -> JK0 u0 d0 dk T fa st -> fair_ev fa st ev -> net_step st ev = Ok st' ->
  (G u0 d0 st' \/ JR x Da d0 (T + dk + Da) (fa_after Dt Da fa ev st') st' \/
   (Ab u0 d0 dk (fa_after Dt Da fa ev st') st' /\ net_now st' x <= T)) \/
  JK0 u0 d0 dk T (fa_after Dt Da fa ev st') st'.
Proof.
  intros HDt HDa (HR & HM) (HR' & HM') (HB & Hw & Hcl & Hclk) Hfe H.
  pose proof HB as (HN & _ & _ & _ & Hdk & _ & Hrd & Hrc & _).
  (* the clock stands: a window update is due *)
  assert (Hclk' : net_now st' x <= T).
  { rewrite (net_step_now _ _ _ x H). destruct ev; try lia.
    destruct Hfe as (Hd0 & Hperm). destruct (Z.eq_dec d 0) as [-> | Hnz]; [lia|]. exfalso.
    destruct (Hperm ltac:(lia) y) as (Hpp & _). unfold poll_permits, net_poll_at in Hpp.
    destruct (zs_tuple x st HR y) as (t & Htu & _).
    destruct (zm_last st HM) as (la & j & Hla & _).
    assert (Hwtu : tcp_window_to_update (net_sock st y) = Ok true).
    { apply wtu_when_closed; [exact (zs_est x st HR y) | exact (zm_synfw st HM) | rewrite Hla; discriminate | exact Hcl|].
      apply (zs_capw x st HR). rewrite rx_len_diff. lia. }
    pose proof (window_update_due (ep_cx (net_get st y)) (net_sock st y) ltac:(rewrite Htu; discriminate) Hwtu) as Hpa.
    unfold net_sock in *.
    destruct (tcp_poll_at (ep_cx (net_get st y)) (ep_sock (net_get st y))) as [[|t0|]|err|]; contradiction. }
  destruct (fb_step 0 u0 d0 dk fa st ev st' HDt HDa HR HR' HB Hw Hfe H) as [HG | [HJR | (HB' & Hw' & _)]].
  - left. left. exact HG.
  - left. right. left. apply (JR_mono x Da d0 (net_now st' y + Da)); [|exact HJR].
    pose proof (net_run_skew2 [ev] st st' y x ltac:(cbn [net_run]; rewrite H; reflexivity)) as Hsk. lia.
  - destruct (closed_or_open st' HR') as [Hcl' | Hop'].
    + right. split; [exact HB'|]. split; [exact Hw'|]. split; [exact Hcl' | exact Hclk'].
    + left. right. right. split; [|exact Hclk']. split; [exact HB'|]. split; [exact Hw' | exact Hop'].
Qed.

(* ---------------------------------------------------------------------------------------- *)
(* S2 / S4: a segment that starts at SND.UNA reaches y; the ACK of RCV.NXT > SND.UNA reaches x   *)
(* ---------------------------------------------------------------------------------------- *)
(* the window y advertised is open: if RCV.NXT stays, the segment was stale (RCV.NXT > SND.UNA) and an
   ACK of RCV.NXT went out at once *)
Lemma s2_deliver st i p st' :
  NI st -> zsafe x st -> adv_open (net_sock st y) ->
  nth_error (chan_to st y) i = Some p ->
  r_seq_number (snd p) = s_local_seq_no (net_sock st x) ->
  0 < l_len (r_payload (snd p)) -> r_ack_number (snd p) <> None ->
  net_step st (NDeliver y i) = Ok st' ->
  rcv_off (net_get st' y) = rcv_off (net_get st y) ->
  0 < rcv_off (net_get st y) - una_off (net_get st x) /\
  exists q, chan_to st' x = chan_to st x ++ [q] /\ r_control (snd q) = CNone /\ r_payload (snd q) = [] /\
            r_ack_number (snd q) = Some (tcp_window_start (net_sock st' y)).
Proof.
  intros HN HR Hadv Hn Hsq Hpl Hak H Hsame.
  split; [|exact (z2_deliver x st i p st' HN HR Hn Hsq Hpl Hak H Hsame)].
  unfold net_step in H. fold (chan_to st y) in H. rewrite Hn in H.
  apply obind_ok in H. destruct H as (e' & He & H). inversion H; subst st'; clear H.
  rewrite net_get_set_same in Hsame.
  destruct (ep_step_spec _ _ _ He) as (s' & out & tags & Hs & Hk & _ & Hout & _).
  pose proof (ep_step_rcv_off _ (EvSegment (fst p) (wire_parse (snd p))) _ _ _ _ He Hs ltac:(discriminate)) as Hro.
  cbn [tcp_step] in Hs. apply obind_ok in Hs. destruct Hs as (((s1 & rp) & tg) & Hi & Hs).
  assert (E : s1 = s' /\ out = OReply rp) by (inversion Hs; auto). destruct E as (-> & ->).
  pose proof (nth_error_In _ _ Hn) as Hin.
  rewrite (ingress_is_process _ _ _ (zs_acc x st HR y p Hin)) in Hi. unfold net_sock in Hi.
  pose proof (NI_live st y HN) as Iy. pose proof (NI_live st x HN) as Ix. unfold net_sock in Iy, Ix.
  destruct (zs_rcv x st HR) as (Hrw & _ & _ & _). destruct Hadv as (W & HW & Hwe). unfold net_sock in Hrw, Hwe.
  destruct (wire_parse_same (snd p)) as (Wc & Wp & Wsq).
  destruct (zs_chan x st HR p Hin) as [(_ & Ha) | (Hc & Ha & Hl)]; unfold net_sock in *.
  { exfalso. unfold wire_parse in Ha. cbn [r_ack_number] in Ha. destruct (r_ack_number (snd p)); [discriminate | congruence]. }
  destruct (zs_cross x st HR) as (Hcr & Hk0 & Hk1). fold y in Hcr, Hk0, Hk1. unfold net_sock in Hcr, Hk1.
  set (k := rcv_off (net_get st y) - una_off (net_get st x)) in *.
  pose proof (zs_txb x st HR) as Htxb. unfold net_sock in Htxb. change (2 ^ 30) with 1073741824 in Htxb.
  assert (Hux : u32 (s_local_seq_no (ep_sock (net_get st x)))) by apply (li_una _ Ix).
  assert (Hseq : r_seq_number (wire_parse (snd p)) = seq_norm (tcp_window_start (ep_sock (net_get st y)) - k)).
  { rewrite Wsq, Hsq, Hcr. change (seq_norm (sq (s_local_seq_no (ep_sock (net_get st x)) + k) - k))
      with (seq_subn (sq (s_local_seq_no (ep_sock (net_get st x)) + k)) k).
    rewrite seq_subn_sq. replace (s_local_seq_no (ep_sock (net_get st x)) + k - k) with (s_local_seq_no (ep_sock (net_get st x))) by lia.
    reflexivity. }
  assert (Hpl' : 0 < l_len (r_payload (wire_parse (snd p))) <= p30) by (rewrite Wp in *; unfold TcpRecvWindow.p30; lia).
  assert (Huy : 0 <= s_local_seq_no (ep_sock (net_get st y)) < 4294967296) by apply (li_una _ Iy).
  pose proof (zs_ytx x st HR) as Hytx. fold y in Hytx. unfold net_sock in Hytx.
  assert (Htx31 : 0 <= rb_len (s_tx_buffer (ep_sock (net_get st y))) < 2147483648) by lia.
  pose proof (zs_est x st HR y) as Hst. unfold net_sock in Hst.
  assert (Hk30 : 0 <= k <= p30) by (unfold TcpRecvWindow.p30; lia).
  assert (HW0 : 0 <= W <= p30) by lia.
  destruct (process_data_below _ _ _ _ _ _ _ W k Hst Hrw Hwe HW0 Hseq Hk30 Hpl' Hc Ha Huy Htx31 Hi)
    as (_ & _ & _ & [(q & -> & _ & _ & Hstrict) | (-> & _ & m & Hm & L)]).
  - destruct (Z.eq_dec k 0) as [Ek | Ek]; [|lia]. exfalso.
    specialize (Hstrict ltac:(lia) Ek). rewrite Hro in Hsame. lia.
  - exfalso. rewrite Hro in Hsame. lia.
Qed.

(* the ACK of d > 0 queued octets is accepted: SND.UNA advances *)
Lemma s4_deliver u0 st j q d st' :
  NI st -> zsafe x st -> una_off (net_get st x) = u0 ->
  nth_error (chan_to st x) j = Some q ->
  r_control (snd q) = CNone -> r_payload (snd q) = [] ->
  r_ack_number (snd q) = Some (sq (s_local_seq_no (net_sock st x) + d)) -> 0 < d <= txl x st ->
  net_step st (NDeliver x j) = Ok st' ->
  u0 < una_off (net_get st' x).
Proof.
  intros HN HR Hu Hn Hc Hp Hak Hd H.
  unfold net_step in H. fold (chan_to st x) in H. rewrite Hn in H.
  apply obind_ok in H. destruct H as (e' & He & H). inversion H; subst st'; clear H.
  rewrite net_get_set_same.
  pose proof (NI_live st x HN) as Ix. destruct (HN x) as (Hcx & _). unfold net_sock in *.
  destruct (ep_step_spec _ _ _ He) as (s' & out & tags & Hs & Hk & _).
  rewrite (ep_step_una_off _ (EvSegment (fst q) (wire_parse (snd q))) _ _ _ _ I (li_tx _ Ix) He Hs ltac:(discriminate)).
  cbn [tcp_step] in Hs. apply obind_ok in Hs. destruct Hs as (((s1 & rp) & tg) & Hi & Hs).
  assert (E : s1 = s') by (inversion Hs; reflexivity). subst s1.
  pose proof (nth_error_In _ _ Hn) as Hin.
  rewrite (ingress_is_process _ _ _ (zs_acc x st HR x q Hin)) in Hi. unfold net_sock in Hi.
  destruct (wire_parse_same (snd q)) as (Wc & Wp & _).
  destruct (zs_xchan x st HR q Hin) as [Hsyn | (_ & _ & Hsq)]; [rewrite Wc, Hc in Hsyn; discriminate|].
  destruct (zs_xadv x st HR) as (W & HW & Hwe). unfold net_sock in *.
  pose proof (zs_txb x st HR) as Htxb. unfold net_sock in Htxb.
  pose proof (zs_est x st HR x) as Hst. unfold net_sock in Hst.
  assert (Hack : r_ack_number (wire_parse (snd q)) = Some (sq (s_local_seq_no (ep_sock (net_get st x)) + d))).
  { unfold wire_parse. cbn [r_ack_number]. rewrite Hak. f_equal. unfold seq_norm, sq, seq_modulus.
    apply Z.mod_mod. change (2 ^ 32) with 4294967296. lia. }
  unfold txl, net_sock in Hd.
  assert (HW' : 0 <= W <= 2 ^ 30) by (unfold TcpRecvWindow.p30 in HW; change (2 ^ 30) with 1073741824; lia).
  pose proof (process_ack_advances _ _ _ _ _ _ _ d W Hcx (seg_ok_parse (snd q)) Ix Hst
                ltac:(rewrite Wc; exact Hc) ltac:(rewrite Wp; exact Hp) Hsq Hwe HW' Hack Hd Htxb Hi) as Hshr.
  lia.
Qed.

Definition S2 (u0 d0 dk T2 : Z) (fa : fair_aux) (st : net) : Prop :=
  Ab u0 d0 dk fa st /\
  exists i p t, nth_error (chan_to st y) i = Some p /\ nth_error (fa_dl fa y) i = Some (Some t) /\
                net_now st y <= t /\ t <= T2 /\
                r_seq_number (snd p) = s_local_seq_no (net_sock st x) /\
                0 < l_len (r_payload (snd p)) /\ r_ack_number (snd p) <> None.

Definition S4 (u0 d0 dk T4 : Z) (fa : fair_aux) (st : net) : Prop :=
  Ab u0 d0 dk fa st /\
  exists j q t d, nth_error (chan_to st x) j = Some q /\ nth_error (fa_dl fa x) j = Some (Some t) /\
                  net_now st x <= t /\ t <= T4 /\
                  r_control (snd q) = CNone /\ r_payload (snd q) = [] /\
                  r_ack_number (snd q) = Some (sq (s_local_seq_no (net_sock st x) + d)) /\
                  0 < d <= txl x st.

Lemma S2_step u0 d0 dk T2 fa st ev st' :
  0 <= Dt -> 0 <= Da ->
  zsafe2 st -> zsafe2 st' -> S2 u0 d0 dk T2 fa st -> fair_ev fa st ev -> net_step st ev = Ok st' ->
  (G u0 d0 st' \/ JR x Da d0 (T2 + Da) (fa_after Dt Da fa ev st') st' \/
   S4 u0 d0 dk (T2 - dk + Dt) (fa_after Dt Da fa ev st') st') \/
  S2 u0 d0 dk T2 (fa_after Dt Da fa ev st') st'.
Proof.
  intros HDt HDa HS HS' (HA & i & p & t & Hn & Hdl & Hnow & HtT & Hsq & Hpl & Hak) Hfe H.
  pose proof HA as ((HN & Ho & Hsy & _ & Hdk & Hu & Hrd & Hrc & Hl) & _ & Hadv).
  assert (Hclky : net_now st' y <= T2).
  { rewrite (net_step_now _ _ _ y H). destruct ev; try lia.
    pose proof (tick_respects_dl fa st d y i t Hfe Hdl Hnow). lia. }
  destruct (ab_step u0 d0 dk fa st ev st' HDt HDa HS HS' HA Hfe H) as [HG | [HJ | (HA' & Hlsn & Htl & _)]].
  - left. left. exact HG.
  - left. right. left. apply (JR_mono x Da d0 (net_now st' y + Da)); [lia | exact HJ].
  - pose proof HA' as ((HN' & _ & Hsy' & _ & Hdk' & Hu' & Hrd' & Hrc' & Hl') & _).
    destruct (match ev with NDeliver to j => if side_eqb to y then Nat.eqb j i else false | _ => false end) eqn:Htr.
    + destruct ev; try discriminate. destruct (side_eqb to y) eqn:Es; [|discriminate].
      apply side_eqb_true in Es. apply Nat.eqb_eq in Htr. subst to i0.
      destruct (s2_deliver st i p st' HN (proj1 HS) Hadv Hn Hsq Hpl Hak H ltac:(lia)) as (Hkpos & q & Hch & Hc & Hp & Ha).
      left. right. right. split; [exact HA'|].
      assert (Hclkx : net_now st' x = net_now st x) by (rewrite (net_step_now _ _ _ x H); lia).
      exists (length (chan_to st x)), q, (net_now st' x + Dt), (rcv_off (net_get st' y) - una_off (net_get st' x)).
      split; [rewrite Hch, nth_error_app2 by lia; rewrite Nat.sub_diag; reflexivity|].
      split; [apply (fa_after_dl_new Dt Da fa st (NDeliver y i) st' x _ Hsy); rewrite Hch, app_length; cbn [length]; lia|].
      split; [lia|]. split; [rewrite Hclkx; lia|].
      split; [exact Hc|]. split; [exact Hp|].
      destruct (zs_cross x st' (proj1 HS')) as (Hcr & Hk0 & Hk1). fold y in Hcr, Hk0, Hk1.
      split; [rewrite Ha, Hcr; reflexivity|]. unfold txl. lia.
    + right. split; [exact HA'|].
      exists i, p, t.
      split; [apply (fair_step_nth fa st ev st' y i p Hfe H Hn)|].
      split.
      { apply fa_after_dl_keep; [exact Hdl|]. intros to E Eto. subst ev to.
        rewrite side_eqb_refl, Nat.eqb_refl in Htr. discriminate. }
      split.
      { rewrite (net_step_now _ _ _ y H). destruct ev; try lia.
        apply (tick_respects_dl fa st d y i t Hfe Hdl Hnow). }
      split; [exact HtT|]. split; [rewrite Hlsn; exact Hsq|]. split; assumption.
Qed.

Lemma S4_step u0 d0 dk T4 fa st ev st' :
  0 <= Dt -> 0 <= Da ->
  zsafe2 st -> zsafe2 st' -> S4 u0 d0 dk T4 fa st -> fair_ev fa st ev -> net_step st ev = Ok st' ->
  (G u0 d0 st' \/ JR x Da d0 (T4 + dk + Da) (fa_after Dt Da fa ev st') st') \/
  S4 u0 d0 dk T4 (fa_after Dt Da fa ev st') st'.
Proof.
  intros HDt HDa HS HS' (HA & j & q & t & d & Hn & Hdl & Hnow & HtT & Hc & Hp & Hak & Hd) Hfe H.
  pose proof HA as ((HN & Ho & Hsy & _ & Hdk & Hu & Hrd & Hrc & Hl) & _ & Hadv).
  assert (Hclkx : net_now st' x <= T4).
  { rewrite (net_step_now _ _ _ x H). destruct ev; try lia.
    pose proof (tick_respects_dl fa st d1 x j t Hfe Hdl Hnow). lia. }
  destruct (match ev with NDeliver to i => if side_eqb to x then Nat.eqb i j else false | _ => false end) eqn:Htr.
  { destruct ev; try discriminate. destruct (side_eqb to x) eqn:Es; [|discriminate].
    apply side_eqb_true in Es. apply Nat.eqb_eq in Htr. subst to i.
    left. left. left. exact (s4_deliver u0 st j q d st' HN (proj1 HS) Hu Hn Hc Hp Hak Hd H). }
  destruct (ab_step u0 d0 dk fa st ev st' HDt HDa HS HS' HA Hfe H) as [HG | [HJ | (HA' & Hlsn & Htl & _)]].
  - left. left. exact HG.
  - left. right. apply (JR_mono x Da d0 (net_now st' y + Da)); [|exact HJ].
    pose proof (net_run_skew2 [ev] st st' y x ltac:(cbn [net_run]; rewrite H; reflexivity)) as Hsk. lia.
  - right. split; [exact HA'|].
    exists j, q, t, d.
    split; [apply (fair_step_nth fa st ev st' x j q Hfe H Hn)|].
    split.
    { apply fa_after_dl_keep; [exact Hdl|]. intros to E Eto. subst ev to.
      rewrite side_eqb_refl, Nat.eqb_refl in Htr. discriminate. }
    split.
    { rewrite (net_step_now _ _ _ x H). destruct ev; try lia.
      apply (tick_respects_dl fa st d1 x j t Hfe Hdl Hnow). }
    split; [exact HtT|]. split; [exact Hc|]. split; [exact Hp|]. split; [rewrite Hlsn; exact Hak | lia].
Qed.

(* ---------------------------------------------------------------------------------------- *)
(* D1 / D0: the deadline by which x sends from SND.UNA                                        *)
(* ---------------------------------------------------------------------------------------- *)
Definition JD1 (u0 d0 dk T : Z) (fa : fair_aux) (st : net) : Prop :=
  Ab u0 d0 dk fa st /\ 0 < s_remote_win_len (net_sock st x) /\ net_now st x <= T /\
  (forall e, s_timer (net_sock st x) = TRetransmit e -> e <= T).

Definition JD0 (u0 d0 dk T : Z) (fa : fair_aux) (st : net) : Prop :=
  Ab u0 d0 dk fa st /\ s_remote_win_len (net_sock st x) = 0 /\ zdl x T st.

(* the window x has learned after a step that kept the base *)
Lemma xkind_win fa st ev st' :
  wposN 0 fa st -> once_ev fa ev -> xkind st ev (net_sock st' x) ->
  s_remote_win_len (net_sock st' x) = s_remote_win_len (net_sock st x) \/ 0 < s_remote_win_len (net_sock st' x).
Proof.
  intros Hw Hoe [(_ & E) | [(_ & E) | (i & p & -> & Hn & Hpos)]]; [left; exact E | left; exact E|].
  right. cbn [once_ev] in Hoe. destruct Hoe as (t & Hdl). apply Hpos. exact (Hw i p t ltac:(lia) Hn Hdl).
Qed.

Lemma D1_step u0 d0 dk T fa st ev st' :
  0 <= Dt -> 0 <= Da ->
  zsafe2 st -> zsafe2 st' -> JD1 u0 d0 dk T fa st -> fair_ev fa st ev -> once_ev fa ev -> net_step st ev = Ok st' ->
  (G u0 d0 st' \/ JR x Da d0 (T + dk + Da) (fa_after Dt Da fa ev st') st' \/
   S2 u0 d0 dk (T + dk + Dt) (fa_after Dt Da fa ev st') st') \/
  JD1 u0 d0 dk T (fa_after Dt Da fa ev st') st'.
Proof.
  intros HDt HDa HS HS' (HA & Hwin & Hclk & Htm) Hfe Hoe H.
  pose proof HA as ((HN & Ho & Hsy & _ & Hdk & Hu & Hrd & Hrc & Hl) & Hw & Hadv).
  destruct (ab_step u0 d0 dk fa st ev st' HDt HDa HS HS' HA Hfe H) as [HG | [HJ | (HA' & Hlsn & Htl & Hxk)]].
  - left. left. exact HG.
  - left. right. left. apply (JR_mono x Da d0 (net_now st' y + Da)); [|exact HJ].
    rewrite (net_step_now _ _ _ y H). destruct ev; try lia.
    exfalso. pose proof HJ as (_ & _ & _ & A4 & A5 & _). fold y in A4, A5.
    rewrite (net_step_tick _ _ _ H) in A5. destruct (tick_same st d y) as (E1 & _ & E3 & _).
    unfold rcv_off in *. rewrite E1, E3 in A5. unfold read_off in Hrd. lia.
  - pose proof HA' as ((HN' & Ho' & Hsy' & _ & Hdk' & Hu' & Hrd' & Hrc' & Hl') & Hw' & Hadv').
    assert (Hwin' : 0 < s_remote_win_len (net_sock st' x)).
    { destruct (xkind_win fa st ev st' Hw Hoe Hxk) as [E | E]; [rewrite E; exact Hwin | exact E]. }
    pose proof (safe3_of_z st HS Hwin Hadv) as S3. pose proof (safe3_of_z st' HS' Hwin' Hadv') as S3'.
    assert (HK1 : K1 x Da u0 dk T fa st).
    { split; [split; [exact HN|]; split; [exact Ho|]; split; [exact Hsy|]; split; [exact Hdk|]; split; [exact Hu | exact Hl]|].
      split; [exact Hclk | exact Htm]. }
    destruct (K1_step x Dt Da Dack u0 dk T fa st ev st' HDt S3 S3' HK1 Hfe H) as [[HQ | HK2] | HK1'].
    + left. left. left. exact HQ.
    + left. right. right. split; [exact HA'|]. destruct HK2 as (_ & X). exact X.
    + right. split; [exact HA'|]. split; [exact Hwin'|]. destruct HK1' as (_ & X). exact X.
Qed.

Lemma D0_step u0 d0 dk T fa st ev st' :
  0 <= Dt -> 0 <= Da ->
  zsafe2 st -> zsafe2 st' -> JD0 u0 d0 dk T fa st -> fair_ev fa st ev -> once_ev fa ev -> net_step st ev = Ok st' ->
  (G u0 d0 st' \/ JR x Da d0 (T + dk + Da) (fa_after Dt Da fa ev st') st' \/
   S2 u0 d0 dk (T + dk + Dt) (fa_after Dt Da fa ev st') st' \/
   JD1 u0 d0 dk (T + max_rto_us) (fa_after Dt Da fa ev st') st') \/
  JD0 u0 d0 dk T (fa_after Dt Da fa ev st') st'.
Proof.
  intros HDt HDa HS HS' (HA & Hwin & HD) Hfe Hoe H.
  pose proof HA as ((HN & Ho & Hsy & _ & Hdk & Hu & Hrd & Hrc & Hl) & Hw & Hadv).
  pose proof (zdl_clock x _ _ HD) as Hclk. pose proof max_rto_us_pos as Hmr.
  destruct (ab_step u0 d0 dk fa st ev st' HDt HDa HS HS' HA Hfe H) as [HG | [HJ | (HA' & Hlsn & Htl & Hxk)]].
  - left. left. exact HG.
  - left. right. left. apply (JR_mono x Da d0 (net_now st' y + Da)); [|exact HJ].
    rewrite (net_step_now _ _ _ y H). destruct ev; try lia.
    exfalso. pose proof HJ as (_ & _ & _ & A4 & A5 & _). fold y in A4, A5.
    rewrite (net_step_tick _ _ _ H) in A5. destruct (tick_same st d y) as (E1 & _ & E3 & _).
    unfold rcv_off in *. rewrite E1, E3 in A5. unfold read_off in Hrd. lia.
  - pose proof HA' as ((HN' & Ho' & Hsy' & _ & Hdk' & Hu' & Hrd' & Hrc' & Hl') & Hw' & Hadv').
    destruct Hxk as [(-> & Ew) | [(Et & Ew) | (i & p & -> & Hn & Hpos)]].
    + (* a dispatch of x *)
      unfold net_step in H. apply obind_ok in H. destruct H as (e' & He & H). inversion H; subst st'; clear H.
      unfold txl, net_sock in Ew, Hl'. rewrite net_get_set_same in Ew, Hl'.
      assert (Hwin' : s_remote_win_len (ep_sock e') = 0) by (rewrite Ew; exact Hwin).
      destruct (z1_poll x T st e' HN Ho (proj1 HS) HN' Hwin Hl Hwin' Hl' HD He) as [(p & Hout & Hsq & Hpl & Hak) | HD'].
      * left. right. right. left. split; [exact HA'|].
        set (st' := net_set st x e') in *.
        assert (Hch : chan_to st' y = chan_to st y ++ [p]).
        { rewrite !(chan_y_out x). unfold st'. rewrite net_get_set_same. exact Hout. }
        assert (Hnowy : net_now st' y = net_now st y).
        { unfold st', net_now. rewrite net_get_set_other. reflexivity. }
        exists (length (chan_to st y)), p, (net_now st' y + Dt).
        split; [rewrite Hch, nth_error_app2 by lia; rewrite Nat.sub_diag; reflexivity|].
        split; [apply (fa_after_dl_new Dt Da fa st (NPoll x true) st' y _ Hsy); rewrite Hch, app_length; cbn [length]; lia|].
        split; [lia|]. split; [rewrite Hnowy; lia|].
        split; [rewrite Hlsn; exact Hsq|]. split; [exact Hpl | exact Hak].
      * right. split; [exact HA'|]. split; [unfold net_sock; rewrite net_get_set_same; exact Hwin' | exact HD'].
    + right. split; [exact HA'|]. split; [rewrite Ew; exact Hwin|].
      exact (zdl_keep x T fa st ev st' (proj1 HS) Hfe H Et HD).
    + (* a frame that advertises an open window has arrived *)
      cbn [once_ev] in Hoe. destruct Hoe as (t & Hdl).
      specialize (Hpos (Hw i p t ltac:(lia) Hn Hdl)).
      left. right. right. right. split; [exact HA'|]. split; [exact Hpos|].
      assert (Hclk' : net_now st' x = net_now st x) by (rewrite (net_step_now _ _ _ x H); lia).
      split; [lia|].
      intros e He. destruct (HN' x) as (_ & _ & (_ & Hb) & _). unfold net_sock in He. rewrite He in Hb.
      unfold timer_bounded in Hb. unfold net_now in *. lia.
Qed.

(* ---------------------------------------------------------------------------------------- *)
(* one round                                                                                 *)
(* ---------------------------------------------------------------------------------------- *)
Lemma JD1_mono u0 d0 dk T T' fa st : T <= T' -> JD1 u0 d0 dk T fa st -> JD1 u0 d0 dk T' fa st.
Proof.
  intros HT (A & B & C & D). split; [exact A|]. split; [exact B|]. split; [lia|].
  intros e He. specialize (D e He). lia.
Qed.

Lemma S2_mono u0 d0 dk T T' fa st : T <= T' -> S2 u0 d0 dk T fa st -> S2 u0 d0 dk T' fa st.
Proof.
  intros HT (A & i & p & t & B1 & B2 & B3 & B4 & B5). split; [exact A|].
  exists i, p, t. split; [exact B1|]. split; [exact B2|]. split; [exact B3|]. split; [lia | exact B5].
Qed.

Section Round.
Variables u0 d0 dk B : Z.
Variable stf : net.   (* the last state of the run *)
Hypothesis HDt : 0 <= Dt.
Hypothesis HDa : 0 <= Da.
Hypothesis Hlate : B < net_now stf x.
Hypothesis Hskf : net_now stf y - net_now stf x = dk.

(* the run from [st] on reaches, no later than B on x's clock, a state in which something has
   progressed; the rest of the run is again reliable *)
Definition Res (st : net) (evs : list net_event) : Prop :=
  exists pre post fa1 st1,
    evs = pre ++ post /\ net_run st pre = Ok st1 /\ net_run st1 post = Ok stf /\
    run_all zsafe2 st1 post /\ fair_run Dt Da fa1 st1 post /\ once_run Dt Da fa1 st1 post /\
    NI st1 /\ opts_ok st1 /\ dl_sync Da fa1 st1 /\ dlb fa1 st1 /\
    G u0 d0 st1 /\ net_now st1 x <= B.

Definition Run (fa : fair_aux) (st : net) (evs : list net_event) : Prop :=
  run_all zsafe2 st evs /\ fair_run Dt Da fa st evs /\ once_run Dt Da fa st evs /\ net_run st evs = Ok stf.

Lemma res_shift pre0 post0 st stm :
  net_run st pre0 = Ok stm -> Res stm post0 -> Res st (pre0 ++ post0).
Proof.
  intros Hp (pre & post & fa1 & st1 & -> & A1 & A2 & Rest).
  exists (pre0 ++ pre), post, fa1, st1. split; [rewrite app_assoc; reflexivity|].
  split; [eapply net_run_app; eassumption|]. split; [exact A2 | exact Rest].
Qed.

(* the progress state was reached by a step from a state in which nothing had progressed *)
Lemma res_here fa0 st0 ev0 st1 post :
  NI st0 -> opts_ok st0 -> dl_sync Da fa0 st0 -> dlb fa0 st0 -> net_now st0 x <= B ->
  read_off (net_get st0 y) = d0 ->
  (una_off (net_get st0 x) = u0 \/ d0 < read_off (net_get st1 y)) ->
  fair_ev fa0 st0 ev0 -> net_step st0 ev0 = Ok st1 -> G u0 d0 st1 ->
  Run (fa_after Dt Da fa0 ev0 st1) st1 post -> Res st1 post.
Proof.
  intros HN Ho Hsy Hb Hclk Hrd Hwhy Hfe Hs HG (R1 & R2 & R3 & R4).
  exists [], post, (fa_after Dt Da fa0 ev0 st1), st1.
  split; [reflexivity|]. split; [reflexivity|]. split; [exact R4|]. split; [exact R1|]. split; [exact R2|].
  split; [exact R3|]. split; [exact (NI_step _ _ _ HN Hs)|]. split; [exact (opts_step _ _ _ Ho Hs)|].
  split; [exact (fa_after_sync Dt Da _ _ _ _ Hsy Hfe Hs)|]. split; [exact (dlb_after _ _ _ _ HDt Hb Hfe Hs)|].
  split; [exact HG|].
  rewrite (net_step_now _ _ _ x Hs). destruct ev0; try lia.
  exfalso. destruct (tick_offsets _ _ _ x Hs) as (E1 & _).
  rewrite (net_step_tick _ _ _ Hs) in HG, Hwhy, E1. destruct (tick_same st0 d y) as (_ & _ & E3 & _).
  unfold G, read_off in *. rewrite E3 in HG, Hwhy.
  destruct Hwhy as [X | X]; [destruct HG; lia | lia].
Qed.

Lemma Fb_res fa0 st0 ev0 st1 post :
  Fb u0 d0 dk fa0 st0 -> net_now st0 x <= B ->
  fair_ev fa0 st0 ev0 -> net_step st0 ev0 = Ok st1 -> G u0 d0 st1 ->
  Run (fa_after Dt Da fa0 ev0 st1) st1 post -> Res st1 post.
Proof.
  intros (HN & Ho & Hsy & Hb & _ & Hu & Hrd & _) Hclk Hfe Hs HG HRun.
  apply (res_here fa0 st0 ev0 st1 post HN Ho Hsy Hb Hclk Hrd (or_introl Hu) Hfe Hs HG HRun).
Qed.

(* R with the deadline bound and the clock skew *)
Definition JR' (T : Z) (fa : fair_aux) (st : net) : Prop :=
  JR x Da d0 T fa st /\ dlb fa st /\ net_now st y - net_now st x = dk.

Lemma tailR T fa st evs :
  T <= B + dk -> JR' T fa st -> Run fa st evs -> Res st evs.
Proof.
  intros HT (HJ & Hb & Hdk) (R1 & R2 & R3 & R4).
  destruct (rel_leads Dt Da zsafe2 (fun fa s => JR' (B + dk) fa s) (fun _ s => d0 < read_off (net_get s y)) y (B + dk)
              ltac:(intros fa0 st0 ((_ & _ & _ & _ & _ & A & _) & _); exact A)
              ltac:(intros fa0 st0 ev0 st0' Z0 Z0' (J0 & B0 & K0) F0 _ S0;
                    destruct (JR_step x Dt Da _ _ _ _ _ _ (proj1 Z0) (proj1 Z0') J0 F0 S0) as [X | X];
                    [left; exact X | right; split; [exact X|]; split; [exact (dlb_after _ _ _ _ HDt B0 F0 S0)|];
                     rewrite (net_step_now _ _ _ x S0), (net_step_now _ _ _ y S0); lia])
              evs fa st stf (conj (JR_mono x Da _ _ _ _ _ HT HJ) (conj Hb Hdk)) R1 R2 R3 R4 ltac:(lia))
    as (pre & post & fa1 & st1 & -> & Hp1 & Hp2 & HR1 & Hf1 & Ho1 & HQ & fa0 & st0 & ev0 & HJ0 & _ & Hfe0 & Hs0 & ->).
  apply (res_shift pre post st st1 Hp1).
  destruct HJ0 as ((HN0 & Ho0 & Hsy0 & Hrd0 & _ & Hclk0 & _) & Hb0 & Hdk0).
  fold y in Hclk0, Hrd0.
  apply (res_here fa0 st0 ev0 st1 post HN0 Ho0 Hsy0 Hb0); try assumption.
  - lia.
  - right. exact HQ.
  - right. exact HQ.
  - split; [exact HR1|]. split; [exact Hf1|]. split; [exact Ho1 | exact Hp2].
Qed.

Lemma jr_up T fa0 st0 ev0 st1 :
  Fb u0 d0 dk fa0 st0 -> fair_ev fa0 st0 ev0 -> net_step st0 ev0 = Ok st1 ->
  JR x Da d0 T (fa_after Dt Da fa0 ev0 st1) st1 -> JR' T (fa_after Dt Da fa0 ev0 st1) st1.
Proof.
  intros (_ & _ & _ & Hb & Hdk & _) Hfe Hs HJ. split; [exact HJ|]. split; [exact (dlb_after _ _ _ _ HDt Hb Hfe Hs)|].
  rewrite (net_step_now _ _ _ x Hs), (net_step_now _ _ _ y Hs). lia.
Qed.

(* a phase: left within its deadline, towards progress, the reader phase, or the next phase *)
Lemma phase_tail (J Next : fair_aux -> net -> Prop) (z : side) (T TRj : Z) :
  (forall fa st, J fa st -> net_now st z <= T) ->
  (forall fa st, J fa st -> Fb u0 d0 dk fa st /\ net_now st x <= B) ->
  (forall fa st ev st', zsafe2 st -> zsafe2 st' -> J fa st -> fair_ev fa st ev -> once_ev fa ev -> net_step st ev = Ok st' ->
     (G u0 d0 st' \/ JR x Da d0 TRj (fa_after Dt Da fa ev st') st' \/ Next (fa_after Dt Da fa ev st') st') \/
     J (fa_after Dt Da fa ev st') st') ->
  TRj <= B + dk -> T < net_now stf z ->
  (forall fa1 st1 post, Next fa1 st1 -> Run fa1 st1 post -> Res st1 post) ->
  forall fa st evs, J fa st -> Run fa st evs -> Res st evs.
Proof.
  intros Hclock Hbase Hstep HTR Hpast Hnext fa st evs HJ (R1 & R2 & R3 & R4).
  destruct (rel_leads Dt Da zsafe2 J
              (fun fa s => G u0 d0 s \/ JR x Da d0 TRj fa s \/ Next fa s) z T Hclock Hstep
              evs fa st stf HJ R1 R2 R3 R4 Hpast)
    as (pre & post & fa1 & st1 & -> & Hp1 & Hp2 & HR1 & Hf1 & Ho1 & HQ & fa0 & st0 & ev0 & HJ0 & _ & Hfe0 & Hs0 & ->).
  apply (res_shift pre post st st1 Hp1).
  assert (HRun1 : Run (fa_after Dt Da fa0 ev0 st1) st1 post) by (split; [exact HR1|]; split; [exact Hf1|]; split; [exact Ho1 | exact Hp2]).
  destruct (Hbase _ _ HJ0) as (HB0 & Hclk0).
  destruct HQ as [HG | [HJR | HN]].
  - exact (Fb_res fa0 st0 ev0 st1 post HB0 Hclk0 Hfe0 Hs0 HG HRun1).
  - exact (tailR TRj _ st1 post HTR (jr_up _ _ _ _ _ HB0 Hfe0 Hs0 HJR) HRun1).
  - exact (Hnext _ _ _ HN HRun1).
Qed.

Lemma Ab_Fb fa st : Ab u0 d0 dk fa st -> Fb u0 d0 dk fa st.
Proof. intros (A & _). exact A. Qed.

Lemma tailS4 T4 fa st evs : T4 + Da <= B -> S4 u0 d0 dk T4 fa st -> Run fa st evs -> Res st evs.
Proof.
  intros HT. apply (phase_tail (S4 u0 d0 dk T4) (fun _ _ => False) x T4 (T4 + dk + Da)).
  - intros fa0 st0 (_ & j & q & t & d & _ & _ & A1 & A2 & _). lia.
  - intros fa0 st0 (HA & j & q & t & d & _ & _ & A1 & A2 & _). split; [exact (Ab_Fb _ _ HA) | lia].
  - intros fa0 st0 ev0 st0' Z0 Z0' J0 F0 _ S0.
    destruct (S4_step _ _ _ _ _ _ _ _ HDt HDa Z0 Z0' J0 F0 S0) as [[X | X] | X]; [left; left; exact X | left; right; left; exact X | right; exact X].
  - lia.
  - lia.
  - intros fa1 st1 post [].
Qed.

Lemma tailS2 T2 fa st evs : T2 - dk + Dt + Da <= B -> S2 u0 d0 dk T2 fa st -> Run fa st evs -> Res st evs.
Proof.
  intros HT. apply (phase_tail (S2 u0 d0 dk T2) (S4 u0 d0 dk (T2 - dk + Dt)) y T2 (T2 + Da)).
  - intros fa0 st0 (_ & i & p & t & _ & _ & A1 & A2 & _). lia.
  - intros fa0 st0 (HA & i & p & t & _ & _ & A1 & A2 & _). split; [exact (Ab_Fb _ _ HA)|].
    destruct (Ab_Fb _ _ HA) as (_ & _ & _ & _ & Hdk & _). lia.
  - intros fa0 st0 ev0 st0' Z0 Z0' J0 F0 _ S0. exact (S2_step _ _ _ _ _ _ _ _ HDt HDa Z0 Z0' J0 F0 S0).
  - lia.
  - lia.
  - intros fa1 st1 post HS4 HRun. exact (tailS4 (T2 - dk + Dt) fa1 st1 post ltac:(lia) HS4 HRun).
Qed.

Lemma tailD1 T fa st evs : T + 2 * Dt + Da <= B -> JD1 u0 d0 dk T fa st -> Run fa st evs -> Res st evs.
Proof.
  intros HT. apply (phase_tail (JD1 u0 d0 dk T) (S2 u0 d0 dk (T + dk + Dt)) x T (T + dk + Da)).
  - intros fa0 st0 (_ & _ & A & _). exact A.
  - intros fa0 st0 (HA & _ & A & _). split; [exact (Ab_Fb _ _ HA) | lia].
  - intros fa0 st0 ev0 st0' Z0 Z0' J0 F0 O0 S0. exact (D1_step _ _ _ _ _ _ _ _ HDt HDa Z0 Z0' J0 F0 O0 S0).
  - lia.
  - lia.
  - intros fa1 st1 post HS2 HRun. exact (tailS2 (T + dk + Dt) fa1 st1 post ltac:(lia) HS2 HRun).
Qed.

Lemma tailD0 T fa st evs :
  T + max_rto_us + 2 * Dt + Da <= B -> JD0 u0 d0 dk T fa st -> Run fa st evs -> Res st evs.
Proof.
  intros HT. pose proof max_rto_us_pos as Hmr.
  apply (phase_tail (JD0 u0 d0 dk T)
           (fun fa s => S2 u0 d0 dk (T + dk + Dt) fa s \/ JD1 u0 d0 dk (T + max_rto_us) fa s) x T (T + dk + Da)).
  - intros fa0 st0 (_ & _ & A). exact (zdl_clock x _ _ A).
  - intros fa0 st0 (HA & _ & A). split; [exact (Ab_Fb _ _ HA)|]. pose proof (zdl_clock x _ _ A). lia.
  - intros fa0 st0 ev0 st0' Z0 Z0' J0 F0 O0 S0.
    destruct (D0_step _ _ _ _ _ _ _ _ HDt HDa Z0 Z0' J0 F0 O0 S0) as [[X | [X | [X | X]]] | X];
      [left; left; exact X | left; right; left; exact X | left; right; right; left; exact X
       | left; right; right; right; exact X | right; exact X].
  - lia.
  - lia.
  - intros fa1 st1 post [HS2 | HD1] HRun.
    + exact (tailS2 (T + dk + Dt) fa1 st1 post ltac:(lia) HS2 HRun).
    + exact (tailD1 (T + max_rto_us) fa1 st1 post ltac:(lia) HD1 HRun).
Qed.

Lemma tailA Tc fa st evs :
  Tc + 3 * max_rto_us + 2 * Dt + Da <= B ->
  Ab u0 d0 dk fa st -> net_now st x <= Tc -> Run fa st evs -> Res st evs.
Proof.
  intros HT HA Hclk HRun. pose proof max_rto_us_pos as Hmr.
  pose proof HRun as (R1 & _). pose proof (run_all_here _ _ _ R1) as (HZ & HM).
  pose proof HA as ((HN & Ho & Hsy & Hb & Hdk & Hu & Hrd & Hrc & Hl) & Hw & Hadv).
  pose proof (NI_live st x HN) as Ix. destruct (HN x) as (_ & _ & (_ & Htb) & _).
  pose proof (zs_est x st HZ x) as Hst.
  destruct (Z.eq_dec (s_remote_win_len (net_sock st x)) 0) as [Hw0 | Hwn].
  - apply (tailD0 (Tc + 2 * max_rto_us) fa st evs ltac:(lia)); [|exact HRun].
    split; [exact HA|]. split; [exact Hw0|]. split; [lia|].
    assert (L : st_live (s_state (net_sock st x)) = true) by (rewrite Hst; reflexivity).
    unfold net_sock, txl in *.
    destruct (s_timer (ep_sock (net_get st x))) as [k|e| |e d1|e] eqn:Ht.
    + destruct (li_K _ Ix L) as [Ha | (_ & Hw1)]; [rewrite Ht in Ha; discriminate|]. exact (Hw1 Hl Hw0).
    + unfold timer_bounded in Htb. unfold net_now in *. lia.
    + unfold net_now in *. lia.
    + unfold timer_bounded in Htb. unfold net_now in *. lia.
    + destruct (li_close _ Ix ltac:(rewrite Ht; reflexivity)) as [X | X]; rewrite Hst in X; discriminate.
  - apply (tailD1 (Tc + max_rto_us) fa st evs ltac:(lia)); [|exact HRun].
    split; [exact HA|]. split; [pose proof (li_win _ Ix); lia|]. split; [lia|].
    intros e He. unfold net_sock in He. rewrite He in Htb. unfold timer_bounded in Htb. unfold net_now in *. lia.
Qed.

Lemma tailK0 Tc fa st evs :
  Tc + 3 * max_rto_us + 2 * Dt + Da <= B ->
  Fb u0 d0 dk fa st -> wposN 0 fa st -> net_now st x <= Tc -> Run fa st evs -> Res st evs.
Proof.
  intros HT HB Hw Hclk HRun. pose proof max_rto_us_pos as Hmr.
  pose proof HRun as (R1 & _). pose proof (run_all_here _ _ _ R1) as (HZ & HM).
  destruct (closed_or_open st HZ) as [Hcl | Hop].
  - revert HRun. apply (phase_tail (JK0 u0 d0 dk Tc) (fun fa s => Ab u0 d0 dk fa s /\ net_now s x <= Tc) x Tc (Tc + dk + Da)).
    + intros fa0 st0 (_ & _ & _ & A). exact A.
    + intros fa0 st0 (A & _ & _ & C). split; [exact A | lia].
    + intros fa0 st0 ev0 st0' Z0 Z0' J0 F0 _ S0. exact (JK0_step _ _ _ _ _ _ _ _ HDt HDa Z0 Z0' J0 F0 S0).
    + lia.
    + lia.
    + intros fa1 st1 post (HA1 & Hc1) HRun1. exact (tailA Tc fa1 st1 post HT HA1 Hc1 HRun1).
    + split; [exact HB|]. split; [exact Hw|]. split; [exact Hcl | exact Hclk].
  - exact (tailA Tc fa st evs HT (conj HB (conj Hw Hop)) Hclk HRun).
Qed.

Lemma tailF n0 Ts fa st evs :
  Ts + 3 * max_rto_us + 2 * Dt + Da <= B ->
  JF n0 u0 d0 dk Ts fa st -> Run fa st evs -> Res st evs.
Proof.
  intros HT. pose proof max_rto_us_pos as Hmr.
  apply (phase_tail (JF n0 u0 d0 dk Ts)
           (fun fa s => Fb u0 d0 dk fa s /\ wposN 0 fa s /\ net_now s x <= Ts) x Ts (Ts + dk + Da)).
  - intros fa0 st0 J0. exact (JF_clock _ _ _ _ _ _ _ J0).
  - intros fa0 st0 J0. pose proof (JF_clock _ _ _ _ _ _ _ J0). destruct J0 as (A & _). split; [exact A | lia].
  - intros fa0 st0 ev0 st0' Z0 Z0' J0 F0 _ S0. exact (JF_step _ _ _ _ _ _ _ _ _ HDt HDa (proj1 Z0) (proj1 Z0') J0 F0 S0).
  - lia.
  - lia.
  - intros fa1 st1 post (HB1 & Hw1 & Hc1) HRun1. exact (tailK0 Ts fa1 st1 post HT HB1 Hw1 Hc1 HRun1).
Qed.

End Round.

Definition Wz : Z := 3 * max_rto_us + 3 * Dt + Da.

(* ONE ROUND.  Both ESTABLISHED, y has written nothing, and an octet of x is not yet acknowledged (or
   not yet read): on every reliable run on which the safety facts hold, before x's clock has advanced
   by more than Wz the run passes through a state in which SND.UNA of x has advanced or y's application
   has read; the state occurs no later than Wz after the start and the rest of the run is again
   reliable. *)
Theorem zround : forall evs fa st st' u0 d0,
  0 <= Dt -> 0 <= Da ->
  NI st -> opts_ok st -> dl_sync Da fa st -> dlb fa st ->
  run_all zsafe2 st evs -> fair_run Dt Da fa st evs -> once_run Dt Da fa st evs -> net_run st evs = Ok st' ->
  una_off (net_get st x) = u0 -> read_off (net_get st y) = d0 ->
  (0 < txl x st \/ d0 < rcv_off (net_get st y)) ->
  net_now st x + Wz < net_now st' x ->
  exists pre post fa1 st1,
    evs = pre ++ post /\ net_run st pre = Ok st1 /\ net_run st1 post = Ok st' /\
    run_all zsafe2 st1 post /\ fair_run Dt Da fa1 st1 post /\ once_run Dt Da fa1 st1 post /\
    NI st1 /\ opts_ok st1 /\ dl_sync Da fa1 st1 /\ dlb fa1 st1 /\
    G u0 d0 st1 /\ net_now st1 x <= net_now st x + Wz.
Proof.
  intros evs fa st st' u0 d0 HDt HDa HN Ho Hsy Hb HRun Hfair Honce Hrun Hu Hrd Hwork Hlate.
  set (dk := net_now st y - net_now st x).
  set (B := net_now st x + Wz).
  pose proof max_rto_us_pos as Hmr.
  assert (Hskf : net_now st' y - net_now st' x = dk) by (unfold dk; apply (net_run_skew2 _ _ _ y x Hrun)).
  assert (HR : Run st' fa st evs) by (split; [exact HRun|]; split; [exact Hfair|]; split; [exact Honce | exact Hrun]).
  change (Res u0 d0 B st' st evs).
  pose proof (run_all_here _ _ _ HRun) as (HZ & HM).
  destruct (Z_lt_le_dec d0 (rcv_off (net_get st y))) as [Hne | Hemp].
  { (* y's buffer is not empty: the application reads *)
    apply (tailR u0 d0 dk B st' HDt Hlate Hskf (net_now st y + Da) fa st evs); [unfold B, Wz, dk; lia | | exact HR].
    split; [|split; [exact Hb | reflexivity]].
    split; [exact HN|]. split; [exact Ho|]. split; [exact Hsy|]. split; [exact Hrd|]. split; [exact Hne|]. fold y.
    split; [lia|].
    destruct Hsy as (_ & Hr). specialize (Hr y). pose proof (zrx_is_diff x st) as Hd. fold y in Hd.
    destruct (fa_rd fa y) as [t|]; [|lia]. exists t. split; [reflexivity|]. lia. }
  assert (Hrc : rcv_off (net_get st y) = d0).
  { destruct (zs_rcv x st HZ) as (_ & _ & ((Hl0 & _) & _) & _). fold y in Hl0. pose proof (rx_len_diff st) as Hd. lia. }
  destruct Hwork as [Hl | X]; [|lia].
  assert (HB : Fb u0 d0 dk fa st).
  { split; [exact HN|]. split; [exact Ho|]. split; [exact Hsy|]. split; [exact Hb|]. split; [reflexivity|].
    split; [exact Hu|]. split; [exact Hrd|]. split; [exact Hrc | exact Hl]. }
  set (n0 := length (fa_dl fa x)).
  destruct (old_tracked_dec (fa_dl fa x) n0) as [Hex | Hnone].
  - apply (tailF u0 d0 dk B st' HDt HDa Hlate Hskf n0 (net_now st x + Dt) fa st evs); [unfold B, Wz; lia | | exact HR].
    split; [exact HB|]. split.
    { intros j q t Hj _ Hd. exfalso. unfold n0 in Hj. apply nth_error_None in Hj. congruence. }
    split; [unfold n0; lia|]. split; [|exact Hex].
    intros j t _ Hd. pose proof (Hb x t (nth_error_In _ _ Hd)). lia.
  - apply (tailK0 u0 d0 dk B st' HDt HDa Hlate Hskf (net_now st x) fa st evs); [unfold B, Wz; lia | exact HB | | lia | exact HR].
    intros j q t _ Hn Hd. exfalso.
    destruct (Nat.lt_ge_cases j n0) as [Hj | Hj]; [exact (Hnone j t Hj Hd)|].
    unfold n0 in Hj. apply nth_error_None in Hj. congruence.
Qed.

(* ---------------------------------------------------------------------------------------- *)
(* SND.UNA never moves back                                                                  *)
(* ---------------------------------------------------------------------------------------- *)
Lemma una_step_mono fa st ev st' :
  NI st -> opts_ok st -> zsafe x st -> zsafe x st' -> fair_ev fa st ev -> net_step st ev = Ok st' ->
  una_off (net_get st x) <= una_off (net_get st' x).
Proof.
  intros HN Ho HR HR' Hfe H.
  destruct (net_step_kind _ _ _ H) as [w ev0 e' Hse He E | to i E1 _ E | d E1 E | w isn ts E1 E | to i Hd].
  - destruct (side_cases x w) as [Ew | Ew]; subst w st'.
    2:{ pose proof (net_get_set_other st (side_other x) e') as X. rewrite side_other_inv in X. rewrite X. lia. }
    rewrite net_get_set_same.
    pose proof (NI_live st x HN) as Ix. destruct (HN x) as (Hcx & _).
    pose proof (zs_est x st HR x) as Hst. pose proof (zs_est x _ HR' x) as Hst'.
    pose proof (zs_txb x st HR) as Htxb.
    destruct (zs_tuple x st HR x) as (t & Htu & Hta). destruct (Ho x) as (Hto & _).
    unfold net_sock in *. rewrite net_get_set_same in Hst'.
    destruct (ep_step_spec _ _ _ He) as (s' & out & tags & Hs & Hk & _).
    destruct ev; cbn [sock_event] in Hse; try contradiction.
    + destruct Hse as (-> & p & Hn & ->).
      pose proof (ep_step_una_off _ (EvSegment (fst p) (wire_parse (snd p))) _ _ _ _ I (li_tx _ Ix) He Hs ltac:(discriminate)) as Hu.
      cbn [tcp_step] in Hs. apply obind_ok in Hs. destruct Hs as (((s1 & rp) & tg) & Hi & Hs).
      assert (E : s1 = s') by (inversion Hs; reflexivity). subst s1.
      pose proof (nth_error_In _ _ Hn) as Hin.
      rewrite (ingress_is_process _ _ _ (zs_acc x st HR x p Hin)) in Hi. unfold net_sock in Hi.
      rewrite Hk in Hst'.
      assert (Htx31 : rb_len (s_tx_buffer (ep_sock (net_get st x))) < 2 ^ 31)
        by (change (2 ^ 30) with 1073741824 in Htxb; change (2 ^ 31) with 2147483648; lia).
      destruct (process_sender_core _ _ _ _ _ _ _ Hcx (seg_ok_parse (snd p)) Ix Hst Hst' Htx31 Hi) as [Hshr | (_ & T)];
        rewrite Hu; [lia | rewrite T; lia].
    + destruct Hse as (-> & ->). cbn [fair_ev] in Hfe. subst emit_ok.
      pose proof (ep_step_una_off _ (EvDispatch true) _ _ _ _ I (li_tx _ Ix) He Hs ltac:(discriminate)) as Hu.
      cbn [tcp_step] in Hs. apply obind_ok in Hs. destruct Hs as (((s1 & rs) & tg) & Hd & Hs).
      assert (E : s1 = s') by (inversion Hs; auto). subst s1.
      destruct (dispatch_una_tx _ _ _ _ _ _ _ Ix Hst Hto Htu Hta Hd) as (_ & D2 & _). rewrite Hu, D2. lia.
    + destruct Hse as (-> & ->).
      destruct (ep_step_send_una_off _ _ _ (li_tx _ Ix) He) as (U1 & _). lia.
    + destruct Hse as (-> & ->).
      pose proof (ep_step_una_off _ (EvRecv (Z.max 0 n)) _ _ _ _ I (li_tx _ Ix) He Hs ltac:(discriminate)) as Hu.
      cbn [tcp_step] in Hs.
      destruct (tcp_recv_slice (ep_sock (net_get st x)) (Z.max 0 n)) as [(s2, b)|err|] eqn:E; [| |discriminate].
      * assert (E1 : s2 = s') by (inversion Hs; reflexivity). subst s2.
        destruct (recv_slice_core _ _ _ _ E) as (_ & _ & _ & C4 & _). rewrite Hu, C4. lia.
      * assert (E1 : s' = ep_sock (net_get st x)) by (inversion Hs; reflexivity). rewrite Hu, E1. lia.
    + destruct Hse as (-> & ->). exfalso.
      cbn [tcp_step] in Hs. assert (E1 : tcp_close (ep_sock (net_get st x)) = s') by (inversion Hs; reflexivity).
      rewrite Hk, <- E1 in Hst'. unfold tcp_close in Hst'. rewrite Hst in Hst'. sproj in Hst'. discriminate.
  - subst st'. lia.
  - subst st'. destruct (tick_same st d x) as (X1 & X2 & _). unfold una_off. rewrite X1, X2. lia.
  - subst st'. destruct (rand_same st w isn ts x) as (X1 & X2 & _). unfold una_off. rewrite X1, X2. lia.
  - exfalso. destruct Hd as [-> | ->]; exact Hfe.
Qed.

Lemma una_run_mono : forall evs fa st st',
  NI st -> opts_ok st -> run_all (zsafe x) st evs -> fair_run Dt Da fa st evs -> net_run st evs = Ok st' ->
  una_off (net_get st x) <= una_off (net_get st' x).
Proof.
  induction evs as [|ev r IH]; intros fa st st' HN Ho HR Hf Hrun; cbn [net_run] in Hrun.
  - inversion Hrun; subst. lia.
  - apply obind_ok in Hrun. destruct Hrun as (st1 & Hs & Hr).
    cbn [fair_run] in Hf. destruct Hf as (Hfe & Hf). rewrite Hs in Hf.
    cbn [run_all] in HR. destruct HR as (HR0 & HR1). rewrite Hs in HR1.
    pose proof (una_step_mono fa st ev st1 HN Ho HR0 (run_all_here _ _ _ HR1) Hfe Hs).
    specialize (IH _ st1 st' (NI_step _ _ _ HN Hs) (opts_step _ _ _ Ho Hs) HR1 Hf Hr). lia.
Qed.

Lemma una_prefix_mono : forall pre post fa st st1,
  NI st -> opts_ok st -> run_all (zsafe x) st (pre ++ post) -> fair_run Dt Da fa st (pre ++ post) ->
  net_run st pre = Ok st1 -> una_off (net_get st x) <= una_off (net_get st1 x).
Proof.
  induction pre as [|ev r IH]; intros post fa st st1 HN Ho HR Hf Hrun; cbn [net_run app] in *.
  - inversion Hrun; subst. lia.
  - apply obind_ok in Hrun. destruct Hrun as (st2 & Hs & Hr).
    cbn [fair_run] in Hf. destruct Hf as (Hfe & Hf). rewrite Hs in Hf.
    cbn [run_all] in HR. destruct HR as (HR0 & HR1). rewrite Hs in HR1.
    pose proof (una_step_mono fa st ev st2 HN Ho HR0 (run_all_here _ _ _ HR1) Hfe Hs).
    specialize (IH post _ st2 st1 (NI_step _ _ _ HN Hs) (opts_step _ _ _ Ho Hs) HR1 Hf Hr). lia.
Qed.

Lemma run_all_zs : forall evs st, run_all zsafe2 st evs -> run_all (zsafe x) st evs.
Proof.
  induction evs as [|ev r IH]; intros st H; cbn [run_all] in *.
  - destruct H as ((A & _) & _). split; [exact A | exact I].
  - destruct H as ((A & _) & H). split; [exact A|]. destruct (net_step st ev); try exact I. apply IH. exact H.
Qed.

(* the reader's round: y's buffer is not empty - the application reads within Da *)
Theorem zround_read : forall evs fa st st' d0,
  0 <= Dt -> 0 <= Da ->
  NI st -> opts_ok st -> dl_sync Da fa st -> dlb fa st ->
  run_all zsafe2 st evs -> fair_run Dt Da fa st evs -> once_run Dt Da fa st evs -> net_run st evs = Ok st' ->
  read_off (net_get st y) = d0 -> d0 < rcv_off (net_get st y) ->
  net_now st y + Da < net_now st' y ->
  exists pre post fa1 st1,
    evs = pre ++ post /\ net_run st pre = Ok st1 /\ net_run st1 post = Ok st' /\
    run_all zsafe2 st1 post /\ fair_run Dt Da fa1 st1 post /\ once_run Dt Da fa1 st1 post /\
    NI st1 /\ opts_ok st1 /\ dl_sync Da fa1 st1 /\ dlb fa1 st1 /\
    d0 < read_off (net_get st1 y) /\ net_now st1 y <= net_now st y + Da.
Proof.
  intros evs fa st st' d0 HDt HDa HN Ho Hsy Hb HRun Hfair Honce Hrun Hrd Hne Hlate.
  set (T := net_now st y + Da).
  assert (HJ : JR x Da d0 T fa st /\ dlb fa st).
  { split; [|exact Hb].
    split; [exact HN|]. split; [exact Ho|]. split; [exact Hsy|]. split; [exact Hrd|]. split; [exact Hne|]. fold y.
    split; [unfold T; lia|].
    destruct Hsy as (_ & Hr). specialize (Hr y). pose proof (zrx_is_diff x st) as Hd. fold y in Hd.
    destruct (fa_rd fa y) as [t|]; [|lia]. exists t. split; [reflexivity|]. unfold T. lia. }
  destruct (rel_leads Dt Da zsafe2 (fun fa s => JR x Da d0 T fa s /\ dlb fa s) (fun _ s => d0 < read_off (net_get s y)) y T
              ltac:(intros fa0 st0 ((_ & _ & _ & _ & _ & A & _) & _); exact A)
              ltac:(intros fa0 st0 ev0 st0' Z0 Z0' (J0 & B0) F0 _ S0;
                    destruct (JR_step x Dt Da _ _ _ _ _ _ (proj1 Z0) (proj1 Z0') J0 F0 S0) as [X | X];
                    [left; exact X | right; split; [exact X | exact (dlb_after _ _ _ _ HDt B0 F0 S0)]])
              evs fa st st' HJ HRun Hfair Honce Hrun Hlate)
    as (pre & post & fa1 & st1 & -> & Hp1 & Hp2 & HR1 & Hf1 & Ho1 & HQ & fa0 & st0 & ev0 & HJ0 & _ & Hfe0 & Hs0 & ->).
  destruct HJ0 as ((HN0 & Ho0 & Hsy0 & Hrd0 & _ & Hclk0 & _) & Hb0). fold y in Hclk0, Hrd0.
  exists pre, post, (fa_after Dt Da fa0 ev0 st1), st1.
  split; [reflexivity|]. split; [exact Hp1|]. split; [exact Hp2|]. split; [exact HR1|]. split; [exact Hf1|].
  split; [exact Ho1|]. split; [exact (NI_step _ _ _ HN0 Hs0)|]. split; [exact (opts_step _ _ _ Ho0 Hs0)|].
  split; [exact (fa_after_sync Dt Da _ _ _ _ Hsy0 Hfe0 Hs0)|]. split; [exact (dlb_after _ _ _ _ HDt Hb0 Hfe0 Hs0)|].
  split; [exact HQ|].
  rewrite (net_step_now _ _ _ y Hs0). destruct ev0; try (unfold T in *; lia).
  exfalso. rewrite (net_step_tick _ _ _ Hs0) in HQ. destruct (tick_same st0 d y) as (_ & _ & E3 & _).
  unfold read_off in *. rewrite E3 in HQ. lia.
Qed.

(* ---------------------------------------------------------------------------------------- *)
(* STEPS 4 + 5: ALL WRITTEN OCTETS ARE DELIVERED, zero windows included                        *)
(* ---------------------------------------------------------------------------------------- *)
Theorem all_written_bytes_eventually_delivered_zw : forall n evs fa st st' L0,
  0 <= Dt -> 0 <= Da ->
  NI st -> opts_ok st -> dl_sync Da fa st -> dlb fa st ->
  run_all zsafe2 st evs -> fair_run Dt Da fa st evs -> once_run Dt Da fa st evs -> net_run st evs = Ok st' ->
  L0 <= l_len (ep_written (net_get st x)) ->
  Z.max 0 (L0 - una_off (net_get st x)) + Z.max 0 (L0 - read_off (net_get st y)) <= Z.of_nat n ->
  net_now st x + Z.of_nat n * Wz < net_now st' x ->
  exists pre post st1, evs = pre ++ post /\ net_run st pre = Ok st1 /\ net_run st1 post = Ok st' /\
                       L0 <= read_off (net_get st1 y).
Proof.
  intros n. induction n as [|n IH]; intros evs fa st st' L0 HDt HDa HN Ho Hsy Hb HRun Hfair Honce Hrun HL Hn Hlate.
  - exists [], evs, st. split; [reflexivity|]. split; [reflexivity|]. split; [exact Hrun | lia].
  - destruct (Z_le_gt_dec L0 (read_off (net_get st y))) as [Hdone | Hmore].
    { exists [], evs, st. split; [reflexivity|]. split; [reflexivity|]. split; [exact Hrun | exact Hdone]. }
    pose proof max_rto_us_pos as Hmr.
    assert (HW : 0 <= Wz) by (unfold Wz; lia).
    pose proof (run_all_here _ _ _ HRun) as (HZ & HM).
    assert (Hlate1 : net_now st x + Wz < net_now st' x) by (rewrite Nat2Z.inj_succ in Hlate; nia).
    assert (Hrnd : exists pre post fa1 st1,
              evs = pre ++ post /\ net_run st pre = Ok st1 /\ net_run st1 post = Ok st' /\
              run_all zsafe2 st1 post /\ fair_run Dt Da fa1 st1 post /\ once_run Dt Da fa1 st1 post /\
              NI st1 /\ opts_ok st1 /\ dl_sync Da fa1 st1 /\ dlb fa1 st1 /\
              (read_off (net_get st y) < read_off (net_get st1 y) \/
               (una_off (net_get st x) < L0 /\ una_off (net_get st x) < una_off (net_get st1 x))) /\
              net_now st1 x <= net_now st x + Wz).
    { destruct (Z_lt_le_dec (read_off (net_get st y)) (rcv_off (net_get st y))) as [Hne | Hemp].
      - pose proof (net_run_skew2 _ _ _ y x Hrun) as Hsk.
        destruct (zround_read evs fa st st' _ HDt HDa HN Ho Hsy Hb HRun Hfair Honce Hrun eq_refl Hne
                    ltac:(unfold Wz in Hlate1; lia))
          as (pre & post & fa1 & st1 & E & Hp1 & Hp2 & HR1 & Hf1 & Ho1 & HN1 & Hoo1 & Hsy1 & Hb1 & HQ & Hclk).
        exists pre, post, fa1, st1. repeat (split; [assumption|]). split; [left; exact HQ|].
        pose proof (net_run_skew2 _ _ _ y x Hp1) as Hsk1. unfold Wz. lia.
      - assert (Hul : una_off (net_get st x) < L0).
        { destruct (zs_cross x st HZ) as (_ & Hk0 & _). fold y in Hk0. lia. }
        assert (Hl : 0 < txl x st) by (unfold txl, una_off, net_sock in *; lia).
        destruct (zround evs fa st st' _ _ HDt HDa HN Ho Hsy Hb HRun Hfair Honce Hrun eq_refl eq_refl (or_introl Hl) Hlate1)
          as (pre & post & fa1 & st1 & E & Hp1 & Hp2 & HR1 & Hf1 & Ho1 & HN1 & Hoo1 & Hsy1 & Hb1 & HG & Hclk).
        exists pre, post, fa1, st1. repeat (split; [assumption|]). split; [|exact Hclk].
        destruct HG as [X | X]; [right; split; assumption | left; exact X]. }
    destruct Hrnd as (pre & post & fa1 & st1 & -> & Hp1 & Hp2 & HR1 & Hf1 & Ho1 & HN1 & Hoo1 & Hsy1 & Hb1 & HG & Hclk).
    pose proof (una_prefix_mono pre post fa st st1 HN Ho (run_all_zs _ _ HRun) Hfair Hp1) as Hum.
    assert (Hrm : read_off (net_get st y) <= read_off (net_get st1 y)).
    { destruct (net_run_mono _ _ _ Hp1 y) as (_ & Hr & _). apply TcpNetCompose_l_len_prefix in Hr. exact Hr. }
    assert (HL1 : L0 <= l_len (ep_written (net_get st1 x))).
    { destruct (net_run_mono _ _ _ Hp1 x) as (Hw & _). apply TcpNetCompose_l_len_prefix in Hw. lia. }
    assert (Hn1 : Z.max 0 (L0 - una_off (net_get st1 x)) + Z.max 0 (L0 - read_off (net_get st1 y)) <= Z.of_nat n).
    { rewrite Nat2Z.inj_succ in Hn. destruct HG as [X | (X1 & X2)]; lia. }
    assert (Hlate2 : net_now st1 x + Z.of_nat n * Wz < net_now st' x).
    { rewrite Nat2Z.inj_succ in Hlate. nia. }
    destruct (IH post fa1 st1 st' L0 HDt HDa HN1 Hoo1 Hsy1 Hb1 HR1 Hf1 Ho1 Hp2 HL1 Hn1 Hlate2)
      as (pre2 & post2 & st2 & -> & Hq1 & Hq2 & HU).
    exists (pre ++ pre2), post2, st2. split; [rewrite app_assoc; reflexivity|].
    split; [eapply net_run_app; eassumption|]. split; assumption.
Qed.

End Zr.
