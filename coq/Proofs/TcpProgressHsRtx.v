(* C02 (liveness half), layer 11: THE HANDSHAKE AFTER LOSSES (client side).  The SYN or the SYN|ACK may
   have been lost in the fault prefix: on every fair schedule from ANY state of the handshake reached
   from net_init, the retransmission timer (bounded by RTTE_MAX_RTO) fires, the SYN / SYN|ACK is sent
   again and - the network being reliable now - A becomes ESTABLISHED within RTTE_MAX_RTO + 2 Dt.
     plain                 the timer of a SYN-SENT / SYN-RECEIVED socket is idle or a retransmission
                           timer (no fast retransmit, no zero-window probe: the transmit queue is empty)
     dispatch_plain        a dispatch keeps that
     hs_dispatch_not_due   a retransmission timer that is not due survives the dispatch
     syn_established_after_loss   the theorem *)
From SV Require Import Lib.Base Gen.Consts.
From SV Require Import Model.Seq32 Model.Assembler Model.TcpBuf Model.TcpTypes Model.Tcp Model.TcpNet.
From SV Require Import Proofs.TcpSendBase Proofs.TcpLiveBase Proofs.TcpLiveProofs Proofs.TcpLiveMore
  Proofs.TcpLiveProgress.
From SV Require Import Proofs.TcpNetBase.
From SV Require Proofs.TcpNetInv.
From SV Require Import Proofs.TcpProgressBase Proofs.TcpProgressFrame Proofs.TcpProgressCtl Proofs.TcpProgressRecv
  Proofs.TcpProgressSend Proofs.TcpProgressNet Proofs.TcpProgressData Proofs.TcpProgressAck
  Proofs.TcpProgressAll Proofs.TcpProgressSafe Proofs.TcpProgressHs Proofs.TcpProgressHsD Proofs.TcpProgressHsNet
  Proofs.TcpProgressHsInit Proofs.TcpProgressHsLive.

(* ---------------------------------------------------------------------------------------- *)
(* socket level: the timer of a socket with an empty transmit queue                           *)
(* ---------------------------------------------------------------------------------------- *)
Definition plain (t : timer) : Prop := timer_is_idle t = true \/ exists e, t = TRetransmit e.

Lemma plain_not_zwp t now : plain t -> timer_should_zero_window_probe t now = false.
Proof. intros [H | (e & ->)]; [destruct t; try discriminate|]; reflexivity. Qed.

Lemma dispatch_timers_plain cx s s1 tg :
  tcp_dispatch_timers cx s = Ok (s1, tg) -> rb_len (s_tx_buffer s) = 0 -> plain (s_timer s) ->
  plain (s_timer s1).
Proof.
  intros H Htx Hp. unfold tcp_dispatch_timers in H. fold (dt_pre cx s) in H.
  pose proof (dt_pre_core cx s) as (_ & C2 & _ & C4 & _).
  rewrite <- C2 in Hp. rewrite <- C4 in Htx. revert H Hp Htx. generalize (dt_pre cx s). intros q H Hp Htx.
  destruct (tcp_timed_out q (cx_now cx)); [inversion H; subst; sproj; exact Hp|].
  destruct (timer_should_retransmit (s_timer q) (cx_now cx)) eqn:Hsr; [|inversion H; subst; exact Hp].
  obind_inv H.
  assert (Hemp : rb_is_empty (s_tx_buffer q) = true) by (unfold rb_is_empty; rewrite Htx; reflexivity).
  destruct Hp as [Hi | (e & He)]; [destruct (s_timer q); discriminate|].
  rewrite He in H. sproj in H. rewrite Hemp in H. rewrite andb_false_r in H.
  inversion H; subst; sproj. left. reflexivity.
Qed.

Lemma rewind_ka_plain t now ka : plain t -> plain (timer_rewind_keep_alive t now ka).
Proof. intros [H | (e & ->)]; [destruct t; try discriminate; left; reflexivity | right; exists e; reflexivity]. Qed.

Lemma finish_plain cx s repr k :
  plain (s_timer s) -> plain (s_timer (fst (tcp_dispatch_finish cx s repr false k))).
Proof.
  intros Hp. unfold tcp_dispatch_finish.
  pose proof (rewind_ka_plain (s_timer s) (cx_now cx) (s_keep_alive s) Hp) as B1.
  destruct k; [cbn [fst]; sproj; exact B1|].
  sproj. destruct (repr_segment_len repr >? 0); cbn [andb]; sproj;
    [destruct (negb (timer_is_retransmit _)) eqn:En; sproj|];
    destruct (tcp_state_eqb (s_state s) Closed); cbn [fst]; sproj; try exact B1.
  all: destruct B1 as [B1 | (e & B1)];
    [destruct (timer_rewind_keep_alive (s_timer s) (cx_now cx) (s_keep_alive s)); try discriminate;
     right; eexists; reflexivity | rewrite B1 in En; discriminate].
Qed.

Theorem dispatch_plain cx s ok s' res tags :
  rb_len (s_tx_buffer s) = 0 -> plain (s_timer s) ->
  tcp_dispatch cx s ok = Ok (s', res, tags) -> plain (s_timer s').
Proof.
  intros Htx Hp H. unfold tcp_dispatch in H.
  destruct (s_tuple s) as [t|]; [|inversion H; subst; exact Hp].
  destruct (negb (tu_local_addr t =? cx_addr cx)); [inversion H; subst; rewrite reset_timer; left; reflexivity|].
  obind_inv H. destruct a as (s1, t1).
  pose proof (dispatch_timers_plain _ _ _ _ E Htx Hp) as P1.
  obind_inv H. destruct a as ((s2, go), t2).
  assert (P2 : plain (s_timer s2)).
  { destruct (decide_spec _ _ _ _ _ E0) as [(_ & ->) | [(_ & ->) | (_ & -> & _)]]; sproj; exact P1. }
  destruct (negb go); [inversion H; subst; exact P2|].
  obind_inv H. destruct a as ((((s3, o), z), k), t3).
  destruct (build_core _ _ _ _ _ _ _ _ E1) as (C3 & Hz & _).
  assert (P3 : plain (s_timer s3)) by (rewrite (core_eq_timer _ _ C3); exact P2).
  destruct o as [repr|]; [|inversion H; subst; exact P3].
  destruct (negb ok); [inversion H; subst; exact P3|].
  assert (Ez : z = false).
  { destruct z; [|reflexivity]. rewrite (plain_not_zwp _ _ P3) in Hz. specialize (Hz eq_refl). discriminate. }
  subst z. pose proof (finish_plain cx s3 repr k P3) as P4.
  destruct (tcp_dispatch_finish cx s3 repr false k) as (s4, t4). inversion H; subst. exact P4.
Qed.

(* process: with an empty transmit queue neither a fast retransmit nor a probe timer is armed *)
Definition pc (t : timer) : Prop := plain t \/ timer_is_close t = true.

Lemma pc_of_cases t t' : pc t ->
  t' = t \/ timer_is_idle t' = true \/ timer_is_close t' = true -> pc t'.
Proof. intros B [-> | [H | H]]; [exact B | left; left; exact H | right; exact H]. Qed.

Lemma dup_ack_fast cx s r al wu s5 tg :
  tcp_process_dup_ack cx s r al wu = Ok (s5, tg) -> rb_len (s_tx_buffer s) = 0 ->
  s_timer s5 = s_timer s.
Proof.
  intros H Htx. unfold tcp_process_dup_ack in H.
  assert (Hemp : rb_is_empty (s_tx_buffer s) = true) by (unfold rb_is_empty; rewrite Htx; reflexivity).
  destruct (r_ack_number r) as [a|]; [|inversion H; reflexivity].
  obind_inv H. destruct a0 as (q, tq).
  assert (Eq : s_timer q = s_timer s).
  { match type of E with (if ?b then _ else _) = _ => destruct b end.
    - sproj in E. rewrite Hemp in E. rewrite andb_false_r in E. obind_inv E. inversion E; subst q. sproj. reflexivity.
    - obind_inv E. obind_inv E. obind_inv E. inversion E; subst q. sproj.
      destruct (s_local_rx_dup_acks s >? 0); sproj; reflexivity. }
  inversion H; subst s5; clear H.
  repeat match goal with |- context [if ?b then _ else _] => destruct b end; sproj; exact Eq.
Qed.

Lemma timers_fn_pc t now ka rto al aall : pc t -> pc (timers_fn t now ka rto al aall).
Proof.
  intros [[H | (e & ->)] | H].
  - destruct t; try discriminate. left. left. reflexivity.
  - unfold timers_fn. destruct aall; [left; left; reflexivity|].
    destruct (al >? 0); [left; right; eexists; reflexivity | left; right; eexists; reflexivity].
  - destruct t; try discriminate. right. reflexivity.
Qed.

Lemma zwp_fn_pc t now ka rto al w fl : pc t -> zwp_fn t now ka rto al w 0 fl = t.
Proof.
  intros Hp. unfold zwp_fn. change (0 =? 0) with true. cbn [negb]. rewrite !andb_false_r. cbn [andb].
  rewrite orb_true_r. cbn [andb].
  destruct t as [k|e| |e d|e]; try reflexivity.
  destruct Hp as [[H | (e0 & H)] | H]; discriminate.
Qed.

Theorem process_plain : forall cx s ip r s' reply tags,
  ctx_ok cx -> seg_ok r -> tcp_live_inv s -> rb_len (s_tx_buffer s) = 0 -> pc (s_timer s) ->
  tcp_process cx s ip r = Ok (s', reply, tags) -> pc (s_timer s').
Proof.
  intros cx s ip r s' reply tags Hcx Hseg I Htx B H. unfold tcp_process in H.
  destruct (negb (tcp_accepts s ip r)); [discriminate|].
  obind_inv H. rename a into p1. rename E into H1.
  destruct p1 as [t1 []|t1 s1 rep1].
  2:{ inversion H; subst s'. rewrite (ack_check_ret_timer _ _ _ _ _ _ _ H1). exact B. }
  obind_inv H. rename a into p2. rename E into H2.
  pose proof (process_window_spec _ _ _ _ _ H2 I) as P2.
  destruct p2 as [t2 ((s2, payload), off)|t2 s2r rep2].
  2:{ inversion H; subst s'. apply (pc_of_cases (s_timer s)); [exact B|].
      destruct (window_ret_timer _ _ _ _ _ _ _ H2); auto. }
  pose proof (inv_core_eq _ _ P2 I) as I2.
  assert (B2 : pc (s_timer s2)) by (rewrite (core_eq_timer _ _ P2); exact B).
  pose proof P2 as (_ & _ & _ & C4 & _).
  obind_inv H. destruct a as ((al, aof), aall). rename E into Hal.
  obind_inv H. rename a into p3. rename E into H3.
  destruct p3 as [t3 s3|t3 s3r rep3].
  2:{ inversion H; subst s'. apply (pc_of_cases (s_timer s2)); [exact B2|].
      destruct (transition_ret_timer _ _ _ _ _ _ _ _ _ _ H3); auto. }
  destruct (transition_cont _ _ _ _ _ _ _ _ _ H3 (inv_weak _ I2) Hcx Hseg) as (W3 & X3 & _).
  pose proof (pc_of_cases _ _ B2 (transition_cont_timer _ _ _ _ _ _ _ _ _ H3)) as B3.
  obind_inv H. destruct a as (s4, wu). rename E into H4.
  destruct (update_remote_spec _ _ _ _ _ _ H4 W3 Hseg) as (W4 & _ & T4 & _ & _ & _ & L4).
  assert (Htx4 : rb_len (s_tx_buffer s4) = 0).
  { pose proof (wi_tx _ W4) as (Hn & _). rewrite X3, C4, Htx in L4. destruct (al >? 0) eqn:Eal; [|exact L4].
    apply Z.gtb_lt in Eal. lia. }
  obind_inv H. destruct a as (s5, t5). rename E into H5.
  destruct (dup_ack_spec _ _ _ _ _ _ _ H5 W4 Hseg) as (W5 & _ & X5 & _).
  pose proof (dup_ack_fast _ _ _ _ _ _ _ H5 Htx4) as T5.
  assert (B5 : pc (s_timer s5)) by (rewrite T5, T4; exact B3).
  set (q5 := match r_timestamp r with
             | Some (tsval, _) => upd_last_remote_tsval s5 tsval
             | None => s5
             end) in *.
  assert (Cq : s_timer q5 = s_timer s5 /\ s_tx_buffer q5 = s_tx_buffer s5).
  { unfold q5. destruct (r_timestamp r) as [(tv, te)|]; sproj; auto. }
  destruct Cq as (D2 & D3). clearbody q5.
  pose proof (timers_spec cx q5 al aall) as P6.
  destruct (tcp_process_timers cx q5 al aall) as (s6, t6). cbn [fst] in P6.
  destruct P6 as ((_ & _ & F3 & _) & Ft6).
  pose proof (zwp_spec cx s6 al) as P7.
  destruct (tcp_process_zwp cx s6 al) as (s7, t7). cbn [fst] in P7.
  destruct P7 as (_ & Ft7).
  obind_inv H. destruct a as ((s8, rep8), t8). rename E into H8.
  pose proof (core_eq_timer _ _ (payload_core _ _ _ _ _ _ _ _ _ H8)) as C8.
  inversion H; subst s'. rewrite C8, Ft7.
  assert (B6 : pc (s_timer s6)) by (rewrite Ft6; apply timers_fn_pc; rewrite D2; exact B5).
  rewrite F3, D3, X5, Htx4. rewrite (zwp_fn_pc _ _ _ _ _ _ _ B6). exact B6.
Qed.

(* a retransmission timer that is not due survives the dispatch (any state) *)
Theorem dispatch_not_due_any : forall cx s t ok s' res tags e,
  s_timeout s = None ->
  s_tuple s = Some t -> tu_local_addr t = cx_addr cx ->
  s_timer s = TRetransmit e -> cx_now cx < e ->
  tcp_dispatch cx s ok = Ok (s', res, tags) -> s_timer s' = TRetransmit e.
Proof.
  intros cx s t ok s' res tags e Hto Htu Haddr Ht He H. unfold tcp_dispatch in H.
  rewrite Htu, Haddr, Z.eqb_refl in H. cbn [negb] in H.
  obind_inv H. destruct a as (s1, t1). rename E into Edt.
  pose proof (dt_pre_core cx s) as (Q1 & Q2 & _).
  pose proof (not_timed_out (dt_pre cx s) (cx_now cx) ltac:(rewrite dt_pre_timeout; exact Hto)) as Hnto.
  assert (T1 : s_timer s1 = TRetransmit e).
  { destruct (dt_spec _ _ _ _ Edt) as [(X & _) | [(_ & _ & ->) | (_ & X & _)]].
    - rewrite Hnto in X. discriminate.
    - rewrite Q2. exact Ht.
    - rewrite Q2, Ht in X. cbn in X. lia. }
  obind_inv H. destruct a as ((s2, go), t2). rename E into Edd.
  assert (T2 : s_timer s2 = TRetransmit e).
  { unfold tcp_dispatch_decide in Edd.
    destruct (tcp_seq_to_transmit cx s1) as [[|]|e0|]; cbn [obind] in Edd; try discriminate; [inversion Edd; subst; exact T1|].
    destruct (tcp_ack_to_transmit s1 && tcp_delayed_ack_expired s1 (cx_now cx)); [inversion Edd; subst; exact T1|].
    destruct (tcp_window_to_update s1) as [[|]|e0|]; cbn [obind] in Edd; try discriminate; [inversion Edd; subst; exact T1|].
    destruct (tcp_state_eqb (s_state s1) Closed); [inversion Edd; subst; exact T1|].
    destruct (timer_should_keep_alive (s_timer s1) (cx_now cx)); [inversion Edd; subst; exact T1|].
    destruct (timer_should_zero_window_probe (s_timer s1) (cx_now cx)); [inversion Edd; subst; exact T1|].
    destruct (timer_should_close (s_timer s1) (cx_now cx)) eqn:Hcl; [|inversion Edd; subst; exact T1].
    rewrite T1 in Hcl. discriminate. }
  destruct (negb go); [inversion H; subst; exact T2|].
  obind_inv H. destruct a as ((((s3, o), z), k), t3). rename E into Ebd.
  destruct (build_core _ _ _ _ _ _ _ _ Ebd) as ((_ & C2 & _) & Hz & Hk).
  rewrite T2 in C2.
  destruct o as [repr|]; [|inversion H; subst; exact C2].
  destruct (negb ok); [inversion H; subst; exact C2|].
  assert (Ez : z = false) by (destruct z; [specialize (Hz eq_refl); rewrite C2 in Hz; discriminate | reflexivity]).
  assert (Ek : k = false) by (destruct k; [specialize (Hk eq_refl); rewrite C2 in Hk; discriminate | reflexivity]).
  subst z k. pose proof (finish_timer_retransmit cx s3 repr e C2) as F.
  destruct (tcp_dispatch_finish cx s3 repr false false) as (s4, t4). cbn [fst] in F.
  inversion H; subst. exact F.
Qed.

(* the retransmission timer of a SYN-SENT / SYN-RECEIVED socket is due: the SYN goes out again *)
Theorem syn_rto_emits : forall cx s t e s' res tags,
  tcp_live_inv s -> (s_state s = SynSent \/ s_state s = SynReceived) -> s_timeout s = None ->
  s_tuple s = Some t -> tu_local_addr t = cx_addr cx ->
  s_timer s = TRetransmit e -> e <= cx_now cx -> 52 < cx_ip_mtu cx ->
  tcp_dispatch cx s true = Ok (s', res, tags) -> exists p, res = DSent p.
Proof.
  intros cx s t e s' res tags I Hst Hto Htu Haddr Ht He Hm H.
  assert (Hnd : rb_len (s_tx_buffer s) = 0) by (apply (li_nodata s I); destruct Hst as [-> | ->]; reflexivity).
  unfold tcp_dispatch in H. rewrite Htu, Haddr, Z.eqb_refl in H. cbn [negb] in H.
  obind_inv H. destruct a as (s1, t1). rename E into Edt.
  destruct (dt_rto _ _ _ _ _ I Hto Ht He ltac:(lia) Edt) as (D3 & _ & D1 & _ & _ & D4 & D6 & _).
  obind_inv H. destruct a as ((s2, go), t2). rename E into Edd.
  assert (Hstt : tcp_seq_to_transmit cx s1 = Ok true).
  { apply syn_seq_to_transmit; [rewrite D4, Htu; discriminate | rewrite D3; exact Hst | rewrite D6, D1; reflexivity | exact Hm]. }
  assert (E2 : s2 = s1 /\ go = true).
  { unfold tcp_dispatch_decide in Edd. rewrite Hstt in Edd. cbn [obind] in Edd. inversion Edd; auto. }
  destruct E2 as (-> & ->). cbn [negb] in H.
  obind_inv H. destruct a as ((((s3, o), z), k), t3). rename E into Ebd.
  unfold tcp_dispatch_build in Ebd.
  assert (Ho : exists repr, o = Some repr).
  { rewrite D3 in Ebd. destruct Hst as [X | X]; rewrite X in Ebd; cbn [obind] in Ebd;
      unfold tcp_syn_repr, repr_is_empty in Ebd; cbn [r_payload r_control control_eqb andb] in Ebd;
      rewrite Bool.andb_false_r in Ebd; cbn [control_eqb] in Ebd;
      obind_inv Ebd; inversion Ebd; subst; eexists; reflexivity. }
  destruct Ho as (repr & ->). cbn [negb] in H.
  destruct (tcp_dispatch_finish cx s3 repr z k) as (s4, t4). inversion H; subst. eexists. reflexivity.
Qed.

(* any event of a run (close apart) at a socket of the handshake *)
Definition hs3 (st : tcp_state) : Prop := st = Listen \/ st = SynSent \/ st = SynReceived.

Theorem step_pc cx s ev s' out tags :
  ctx_ok cx -> tcp_live_inv s -> hs3 (s_state s) -> plain (s_timer s) ->
  run_ev ev -> ev <> EvClose ->
  match ev with EvSegment _ r => seg_ok r | _ => True end ->
  tcp_step cx s ev = Ok (s', out, tags) -> pc (s_timer s').
Proof.
  intros Hcx I Hhs Hp Hr Hnc Hseg H.
  assert (Hnd : st_nodata (s_state s) = true) by (destruct Hhs as [-> | [-> | ->]]; reflexivity).
  pose proof (li_nodata s I Hnd) as Htx.
  destruct ev; cbn [run_ev] in Hr; try contradiction; cbn [tcp_step] in H.
  - (* send: refused *)
    unfold tcp_send_slice in H.
    assert (Hms : tcp_may_send s = false) by (unfold tcp_may_send; destruct Hhs as [-> | [-> | ->]]; reflexivity).
    rewrite Hms in H. cbn [negb] in H. inversion H; subst. left. exact Hp.
  - (* recv *)
    destruct (tcp_recv_slice s n) as [(s2, b)|e|] eqn:E; [| |discriminate]; inversion H; subst; [|left; exact Hp].
    unfold tcp_recv_slice in E. obind_inv E.
    destruct (rb_dequeue_slice (s_rx_buffer s) n) as (rx, bytes). inversion E; subst. sproj. left. exact Hp.
  - (* a segment *)
    obind_inv H. destruct a as ((s1, rp), tg). inversion H; subst s1; clear H.
    unfold iface_tcp_ingress in E.
    destruct ((ip_src ip =? 0) || (ip_dst ip =? 0)); [inversion E; subst; left; exact Hp|].
    destruct ((r_src_port r =? 0) || (r_dst_port r =? 0)); [inversion E; subst; left; exact Hp|].
    destruct (tcp_accepts s ip r).
    + exact (process_plain _ _ _ _ _ _ _ Hcx Hseg I Htx (or_introl Hp) E).
    + destruct (control_eqb (r_control r) CRst); [inversion E; subst; left; exact Hp|].
      obind_inv E. inversion E; subst. left. exact Hp.
  - (* dispatch *)
    obind_inv H. destruct a as ((s1, rs), tg). inversion H; subst s1; clear H.
    left. exact (dispatch_plain _ _ _ _ _ _ Htx Hp E).
Qed.

(* ---------------------------------------------------------------------------------------- *)
(* network level: the timers of the handshake are plain in every state of a run from net_init *)
(* ---------------------------------------------------------------------------------------- *)
Section Rtx.
Variables isn Dack Dt Da : Z.

Notation sa st := (net_sock st SA).
Notation sb st := (net_sock st SB).

Definition hs_plain (st : net) : Prop :=
  s_state (sa st) = SynSent -> plain (s_timer (sa st)) /\ plain (s_timer (sb st)).

(* a step that is not an event of endpoint z leaves z's socket alone *)
Lemma step_other_sock st ev st' z :
  net_step st ev = Ok st' ->
  (forall ev0, ~ sock_event st ev z ev0) -> net_sock st' z = net_sock st z.
Proof.
  intros H Hno.
  destruct (net_step_kind _ _ _ H) as [w ev0 e' Hse He -> | to i -> _ -> | d -> -> | w isn0 ts -> -> | to i Hd].
  - destruct (side_cases w z) as [-> | ->]; [exfalso; exact (Hno _ Hse)|].
    unfold net_sock. rewrite net_get_set_other. reflexivity.
  - reflexivity.
  - destruct z; reflexivity.
  - unfold net_sock. destruct (side_cases w z) as [-> | ->]; [rewrite net_get_set_same | rewrite net_get_set_other]; reflexivity.
  - assert (Hs : forall z0, same_ctl (net_get st' z0) (net_get st z0)).
    { apply (drop_same st to i). destruct Hd as [-> | ->]; [left | right]; exact H. }
    destruct (Hs z) as (E & _). exact E.
Qed.

Lemma pc_plain s : tcp_live_inv s -> hs3 (s_state s) -> pc (s_timer s) -> plain (s_timer s).
Proof.
  intros I Hhs [Hp | Hc]; [exact Hp|]. exfalso.
  destruct (li_close s I Hc) as [X | X]; rewrite X in Hhs; destruct Hhs as [Y | [Y | Y]]; discriminate.
Qed.

Lemma sock_step_plain st ev z ev0 e' :
  NI st -> script_ev SA ev -> sock_event st ev z ev0 -> ep_step (net_get st z) ev0 = Ok e' ->
  hs3 (s_state (net_sock st z)) -> plain (s_timer (net_sock st z)) -> pc (s_timer (ep_sock e')).
Proof.
  intros HN Hsc Hse He Hhs Hp.
  destruct (ep_step_spec _ _ _ He) as (s' & out & tags & Hs & Hk & _).
  destruct (HN z) as (Hcx & _). rewrite Hk.
  apply (step_pc _ _ _ _ _ _ Hcx (NI_live st z HN) Hhs Hp (sock_event_run_ev _ _ _ _ Hse)) in Hs; [exact Hs| |].
  - destruct ev; cbn [sock_event script_ev] in *; try contradiction.
    + destruct Hse as (_ & p & _ & ->). discriminate.
    + destruct Hse as (_ & ->). discriminate.
    + destruct Hse as (_ & ->). discriminate.
    + destruct Hse as (_ & ->). discriminate.
  - destruct ev; cbn [sock_event] in Hse; try contradiction.
    + destruct Hse as (_ & p & _ & ->). apply seg_ok_parse.
    + destruct Hse as (_ & ->). exact I.
    + destruct Hse as (_ & ->). exact I.
    + destruct Hse as (_ & ->). exact I.
Qed.

(* a step is an event of endpoint z, or leaves z's socket alone *)
Lemma step_cases st ev st' z :
  net_step st ev = Ok st' ->
  (exists ev0 e', sock_event st ev z ev0 /\ ep_step (net_get st z) ev0 = Ok e' /\ st' = net_set st z e') \/
  net_sock st' z = net_sock st z.
Proof.
  intros H.
  destruct (net_step_kind _ _ _ H) as [w ev0 e' Hse He -> | to i -> _ -> | d -> -> | w isn0 ts -> -> | to i Hd].
  - destruct (side_cases w z) as [-> | ->]; [left; exists ev0, e'; auto|].
    right. unfold net_sock. rewrite net_get_set_other. reflexivity.
  - right. reflexivity.
  - right. destruct z; reflexivity.
  - right. unfold net_sock. destruct (side_cases w z) as [-> | ->]; [rewrite net_get_set_same | rewrite net_get_set_other]; reflexivity.
  - right. assert (Hs : forall z0, same_ctl (net_get st' z0) (net_get st z0)).
    { apply (drop_same st to i). destruct Hd as [-> | ->]; [left | right]; exact H. }
    destruct (Hs z) as (E & _). exact E.
Qed.

Lemma hs_plain_step st ev st' :
  HSR isn Dack st -> HSR isn Dack st' -> inv_at SA st -> inv_at SA st' ->
  script_ev SA ev -> net_step st ev = Ok st' -> hs_plain st -> hs_plain st'.
Proof.
  intros HR HR' HI HI' Hsc H Hpl Hsa'.
  pose proof HR as (Hinv & HV & HN & Ho). pose proof HR' as (Hinv' & HV' & HN' & Ho').
  (* A was SYN-SENT before the step *)
  assert (Hsa : s_state (sa st) = SynSent).
  { destruct Hinv as [HP | HG].
    - destruct (ph_phase _ _ _ HP) as [(A & _) | (A & _)]; [exact A|]. exfalso.
      destruct (step_cases st ev st' SA H) as [(ev0 & e' & Hse & He & ->) | E].
      + destruct (hs_A_est isn Dack st ev ev0 e' HN Ho HV HP A Hsc Hse He) as (_ & X).
        unfold net_sock in Hsa'. rewrite net_get_set_same in Hsa'. congruence.
      + rewrite E in Hsa'. congruence.
    - exfalso. pose proof (reg_step SA Dack st ev st' HN Ho HG HI HI' Hsc H) as HG'.
      rewrite (rg_est _ _ _ HG' SA) in Hsa'. discriminate. }
  destruct (Hpl Hsa) as (PA & PB).
  destruct Hinv as [HP | HG]; [|exfalso; exact (reg_not_synsent Dack _ HG Hsa)].
  destruct Hinv' as [HP' | HG']; [|exfalso; exact (reg_not_synsent Dack _ HG' Hsa')].
  assert (HB : hs3 (s_state (sb st))).
  { destruct (ph_phase _ _ _ HP) as [(_ & [B | B]) | (A & _)]; [left; exact B | right; right; exact B | congruence]. }
  assert (HB' : hs3 (s_state (sb st'))).
  { destruct (ph_phase _ _ _ HP') as [(_ & [B | B]) | (A & _)]; [left; exact B | right; right; exact B | congruence]. }
  split.
  - destruct (step_cases st ev st' SA H) as [(ev0 & e' & Hse & He & ->) | E]; [|rewrite E; exact PA].
    apply (pc_plain _ (NI_live _ SA HN')); [right; left; exact Hsa'|].
    unfold net_sock. rewrite net_get_set_same.
    apply (sock_step_plain st ev SA ev0 e' HN Hsc Hse He); [right; left; exact Hsa | exact PA].
  - destruct (step_cases st ev st' SB H) as [(ev0 & e' & Hse & He & ->) | E]; [|rewrite E; exact PB].
    apply (pc_plain _ (NI_live _ SB HN')); [exact HB'|].
    unfold net_sock. rewrite net_get_set_same.
    apply (sock_step_plain st ev SB ev0 e' HN Hsc Hse He); [exact HB | exact PB].
Qed.

(* ---------------------------------------------------------------------------------------- *)
(* the phases                                                                                *)
(* ---------------------------------------------------------------------------------------- *)
(* the SYN of z will be (re)transmitted before z's clock passes T *)
Definition will_tx (st : net) (z : side) (T : Z) : Prop :=
  net_now st z <= T /\
  (needs_tx (net_sock st z) \/ exists e, s_timer (net_sock st z) = TRetransmit e /\ e <= T).

Lemma will_tx_same st st' z T :
  net_sock st' z = net_sock st z -> net_now st' z = net_now st z -> will_tx st z T -> will_tx st' z T.
Proof. intros E1 E2 (A & B). unfold will_tx. rewrite E1, E2. auto. Qed.

(* send / recv at a socket of the handshake: the timer stays *)
Lemma quiet_timer cx s ev s' out tags :
  hs3 (s_state s) -> ((exists d, ev = EvSend d) \/ (exists n, ev = EvRecv n)) ->
  tcp_step cx s ev = Ok (s', out, tags) -> s_timer s' = s_timer s.
Proof.
  intros Hhs [(d & ->) | (n & ->)] H; cbn [tcp_step] in H.
  - unfold tcp_send_slice in H.
    assert (Hms : tcp_may_send s = false) by (unfold tcp_may_send; destruct Hhs as [-> | [-> | ->]]; reflexivity).
    rewrite Hms in H. cbn [negb] in H. inversion H; subst. reflexivity.
  - destruct (tcp_recv_slice s n) as [(s2, b)|e|] eqn:E; [| |discriminate]; inversion H; subst; [|reflexivity].
    unfold tcp_recv_slice in E. obind_inv E.
    destruct (rb_dequeue_slice (s_rx_buffer s) n) as (rx, bytes). inversion E; subst. sproj. reflexivity.
Qed.

Lemma will_tx_quiet st z ev0 e' T :
  (s_state (net_sock st z) = SynSent \/ s_state (net_sock st z) = SynReceived) ->
  ((exists d, ev0 = EvSend d) \/ (exists n, ev0 = EvRecv n)) ->
  ep_step (net_get st z) ev0 = Ok e' ->
  will_tx st z T -> will_tx (net_set st z e') z T.
Proof.
  intros Hst Hev He (Hc & Hw).
  destruct (quiet_eff st z ev0 e' Hev He) as ((Q1 & _ & _ & Q4 & _ & _ & _ & Q8 & _) & _).
  destruct (ep_step_spec _ _ _ He) as (s' & out & tags & Hs & Hk & Hcx & _).
  assert (Hhs : hs3 (s_state (net_sock st z))) by (destruct Hst as [X | X]; rewrite X; [right; left | right; right]; reflexivity).
  pose proof (quiet_timer _ _ _ _ _ _ Hhs Hev Hs) as Ht. rewrite <- Hk in Ht.
  unfold will_tx, net_now, net_sock, needs_tx in *. rewrite net_get_set_same, Hcx.
  split; [exact Hc|]. rewrite Q4, Q8, Ht. exact Hw.
Qed.

(* the clock cannot pass T while the SYN is to be (re)transmitted *)
Lemma will_tx_tick fa st d z t T :
  NI st -> hs_view isn st -> fair_ev fa st (NTick d) ->
  s_tuple (net_sock st z) = Some t ->
  (s_state (net_sock st z) = SynSent \/ s_state (net_sock st z) = SynReceived) ->
  will_tx st z T -> net_now st z + Z.max 0 d <= T.
Proof.
  intros HN HV Hfe Htu Hst (Hc & [Hnt | (e & Ht & He)]).
  - rewrite (tick_blocked isn fa st d z t HV Hfe Htu Hst Hnt). lia.
  - destruct Hfe as (Hd & Hperm). destruct (Z.eq_dec d 0) as [-> | Hnz]; [lia|].
    destruct (Hperm ltac:(lia) z) as (Hpp & _). unfold poll_permits, net_poll_at in Hpp.
    pose proof (NI_live st z HN) as Il.
    assert (Hneed : tcp_need (net_sock st z)) by (unfold tcp_need; destruct Hst as [-> | ->]; exact I).
    assert (Hnd : rb_len (s_tx_buffer (net_sock st z)) = 0)
      by (apply (li_nodata _ Il); destruct Hst as [-> | ->]; reflexivity).
    pose proof (poll_at_ready (ep_cx (net_get st z)) (net_sock st z) Il Hneed
                  ltac:(rewrite Ht; reflexivity) ltac:(lia)) as Hpa.
    unfold net_sock in *.
    destruct (tcp_poll_at (ep_cx (net_get st z)) (ep_sock (net_get st z))) as [[|t0|]|err|]; try contradiction.
    destruct Hpa as (e0 & He0 & Hle). rewrite Ht in He0. inversion He0; subst e0. unfold net_now in *. lia.
Qed.

(* a poll of a SYN-SENT / SYN-RECEIVED socket whose SYN is to be (re)transmitted *)
Lemma will_tx_poll st z e' t T :
  NI st -> opts_ok st -> hs_view isn st ->
  (s_state (net_sock st z) = SynSent \/ s_state (net_sock st z) = SynReceived) ->
  s_tuple (net_sock st z) = Some t -> tu_local_addr t = cx_addr (ep_cx (net_get st z)) ->
  ep_step (net_get st z) (EvDispatch true) = Ok e' ->
  will_tx st z T ->
  (exists p, ep_out e' = ep_out (net_get st z) ++ [p]) \/
  (ep_out e' = ep_out (net_get st z) /\ will_tx (net_set st z e') z T).
Proof.
  intros HN Ho HV Hst Htu Haddr He (Hc & Hw).
  destruct (ep_step_spec _ _ _ He) as (s' & out & tags & Hs & Hk & Hcx & Hout & _).
  destruct (Ho z) as (Hto & _). pose proof (NI_live st z HN) as Il. unfold net_sock in *.
  cbn [tcp_step] in Hs. apply obind_ok in Hs. destruct Hs as (((s1 & res) & tg) & Hd & Hs).
  inversion Hs; subst s1 out tags; clear Hs.
  assert (Hemit : (exists p, res = DSent p) -> exists p, ep_out e' = ep_out (net_get st z) ++ [p]).
  { intros (p & ->). exists p. exact Hout. }
  destruct (Z.eq_dec (s_remote_last_seq (ep_sock (net_get st z))) (s_local_seq_no (ep_sock (net_get st z)))) as [Hnt | Hnn].
  { left. apply Hemit. exact (syn_dispatch_emits _ _ _ _ _ _ Il Hst Hto Htu Haddr Hnt (hv_mtu _ _ HV z) Hd). }
  destruct Hw as [Hnt | (e & Ht & HeT)]; [contradiction|].
  destruct (Z_le_gt_dec e (cx_now (ep_cx (net_get st z)))) as [Hdue | Hnd].
  { left. apply Hemit. exact (syn_rto_emits _ _ _ _ _ _ _ Il Hst Hto Htu Haddr Ht Hdue (hv_mtu _ _ HV z) Hd). }
  pose proof (dispatch_not_due_any _ _ _ _ _ _ _ _ Hto Htu Haddr Ht ltac:(lia) Hd) as Ht'.
  destruct res as [|p|p].
  - right. cbn [wire_out opt_list] in Hout. rewrite app_nil_r in Hout. split; [exact Hout|].
    unfold will_tx, net_now, net_sock. rewrite net_get_set_same, Hcx, Hk. split; [exact Hc|].
    right. exists e. split; [exact Ht' | exact HeT].
  - left. exists p. exact Hout.
  - exfalso. exact (dispatch_true_not_failed _ _ _ _ _ Hd p eq_refl).
Qed.

Definition Jr (T0 dk : Z) (fa : fair_aux) (st : net) : Prop :=
  dl_sync Da fa st /\ net_now st SB - net_now st SA = dk /\ s_state (sa st) = SynSent /\
  ( (s_state (sb st) = Listen /\ will_tx st SA T0)
    \/ (s_state (sb st) = Listen /\ tracked fa st SB (T0 + dk + Dt))
    \/ (s_state (sb st) = SynReceived /\ will_tx st SB (T0 + dk + Dt))
    \/ tracked fa st SA (T0 + 2 * Dt) ).

Lemma Jr_clock T0 dk fa st : 0 <= Dt -> Jr T0 dk fa st -> net_now st SA <= T0 + 2 * Dt.
Proof.
  intros HDt (_ & Hdk & _ & [(_ & H & _) | [(_ & i & p & t & _ & _ & H1 & H2) | [(_ & H & _) | (i & p & t & _ & _ & H1 & H2)]]]); lia.
Qed.

Lemma Jr_step T0 dk fa st ev st' :
  0 <= Dt -> HSR isn Dack st -> HSR isn Dack st' -> Jr T0 dk fa st -> fair_ev fa st ev -> net_step st ev = Ok st' ->
  Qh (fa_after Dt Da fa ev st') st' \/ Jr T0 dk (fa_after Dt Da fa ev st') st'.
Proof.
  intros HDt HR HR' (Hsy & Hdk & Hsa & HPh) Hfe H.
  destruct HR as ([HP | HG] & HV & HN & Ho); [|exfalso; exact (reg_not_synsent Dack _ HG Hsa)].
  pose proof (fa_after_sync Dt Da _ _ _ _ Hsy Hfe H) as Hsy'.
  pose proof (net_step_skew _ _ _ H) as Hdk'. rewrite Hdk in Hdk'.
  destruct (ph_tup _ _ _ HP) as (tA & T1 & T2 & T3 & T4 & T5 & T6 & T7 & T8).
  assert (HlaB : tu_local_addr (mirror tA) = cx_addr (ep_cx (net_get st SB))) by (unfold mirror; cbn; exact T3).
  destruct (net_step_kind _ _ _ H) as [w ev0 e' Hse He -> | to i -> Hnone -> | d -> -> | w isn0 ts -> -> | to i Hd].
  - (* a socket event *)
    assert (Hnow : forall z, net_now (net_set st w e') z = net_now st z).
    { intros z. rewrite (net_step_now _ _ _ z H). destruct ev; try lia. destruct Hse. }
    destruct w.
    + (* at A *)
      assert (EB : net_sock (net_set st SA e') SB = sb st) by reflexivity.
      destruct ev as [to i | to i | to i | d | z i1 t1 | z ok | z data | z n | z]; cbn [sock_event] in Hse; try contradiction.
      * (* a SYN|ACK arrives: ESTABLISHED *)
        destruct Hse as (_ & q & Hn & ->). left.
        destruct (hs_A_synsent_segment isn Dack st q e' HN Ho HV HP Hsa (nth_error_In _ _ Hn) He) as (_ & X).
        unfold Qh, net_sock. cbn [net_set net_get n_a]. exact X.
      * (* poll *)
        destruct Hse as (_ & ->). pose proof Hfe as Hok. cbn [fair_ev] in Hok. subst ok. right.
        destruct (disp_eff isn st SA true e' tA HN Ho HV (or_introl Hsa) T1 T2 He) as (D1 & _ & _).
        split; [exact Hsy'|]. split; [exact Hdk'|].
        split; [unfold net_sock; cbn [net_set net_get n_a]; rewrite D1; exact Hsa|].
        destruct HPh as [(B1 & W) | [(B1 & B2) | [(B1 & W) | B1]]].
        -- destruct (will_tx_poll st SA e' tA T0 HN Ho HV (or_introl Hsa) T1 T2 He W) as [(p & Hp) | (_ & W')].
           ++ right. left. split; [exact B1|].
              apply (tracked_new Dt Da fa st _ _ SB p); [exact Hsy | unfold chan_to; cbn [side_other net_set net_get n_a]; exact Hp | | exact HDt].
              rewrite Hnow. destruct W as (Hc & _). lia.
           ++ left. split; [exact B1 | exact W'].
        -- right. left. split; [exact B1|]. apply (tracked_keep Dt Da fa st); [exact Hfe | exact H | exact I | exact B2].
        -- right. right. left. split; [exact B1|]. apply (will_tx_same st); [exact EB | apply Hnow | exact W].
        -- right. right. right. apply (tracked_keep Dt Da fa st); [exact Hfe | exact H | exact I | exact B1].
      * (* send *)
        destruct Hse as (_ & ->). right.
        destruct (quiet_eff st SA (EvSend data) e' ltac:(left; eexists; reflexivity) He) as ((Q1 & _) & Qo).
        split; [exact Hsy'|]. split; [exact Hdk'|].
        split; [unfold net_sock; cbn [net_set net_get n_a]; rewrite Q1; exact Hsa|].
        destruct HPh as [(B1 & W) | [(B1 & B2) | [(B1 & W) | B1]]].
        -- left. split; [exact B1|]. apply (will_tx_quiet st SA (EvSend data) e'); [left; exact Hsa | left; eexists; reflexivity | exact He | exact W].
        -- right. left. split; [exact B1|]. apply (tracked_keep Dt Da fa st); [exact Hfe | exact H | exact I | exact B2].
        -- right. right. left. split; [exact B1|]. apply (will_tx_same st); [exact EB | apply Hnow | exact W].
        -- right. right. right. apply (tracked_keep Dt Da fa st); [exact Hfe | exact H | exact I | exact B1].
      * (* recv *)
        destruct Hse as (_ & ->). right.
        destruct (quiet_eff st SA (EvRecv (Z.max 0 n)) e' ltac:(right; eexists; reflexivity) He) as ((Q1 & _) & Qo).
        split; [exact Hsy'|]. split; [exact Hdk'|].
        split; [unfold net_sock; cbn [net_set net_get n_a]; rewrite Q1; exact Hsa|].
        destruct HPh as [(B1 & W) | [(B1 & B2) | [(B1 & W) | B1]]].
        -- left. split; [exact B1|]. apply (will_tx_quiet st SA (EvRecv (Z.max 0 n)) e'); [left; exact Hsa | right; eexists; reflexivity | exact He | exact W].
        -- right. left. split; [exact B1|]. apply (tracked_keep Dt Da fa st); [exact Hfe | exact H | exact I | exact B2].
        -- right. right. left. split; [exact B1|]. apply (will_tx_same st); [exact EB | apply Hnow | exact W].
        -- right. right. right. apply (tracked_keep Dt Da fa st); [exact Hfe | exact H | exact I | exact B1].
      * (* close: not an event of such a run *)
        destruct Hse as (_ & ->). exfalso.
        destruct (ep_step_spec _ _ _ He) as (s' & out & tags & Hs & Hk & _).
        cbn [tcp_step] in Hs. assert (E : s' = tcp_close (ep_sock (n_a st))) by (inversion Hs; reflexivity).
        destruct (hsr_phase isn Dack _ HR') as ([X | X] & _); unfold net_sock in X; cbn [net_set net_get n_a] in X;
          rewrite Hk, E in X; unfold tcp_close in X; unfold net_sock in Hsa; cbn [net_get] in Hsa; rewrite Hsa in X;
          unfold tcp_set_state in X; revert X; sproj; discriminate.
    + (* at B *)
      assert (Hsa' : s_state (sa (net_set st SB e')) = SynSent) by exact Hsa.
      assert (EA : net_sock (net_set st SB e') SA = sa st) by reflexivity.
      destruct ev as [to i | to i | to i | d | z i1 t1 | z ok | z data | z n | z]; cbn [sock_event] in Hse; try contradiction.
      * (* a segment arrives at B *)
        destruct Hse as (-> & p & Hn & ->). pose proof (nth_error_In _ _ Hn) as Hin. right.
        split; [exact Hsy'|]. split; [exact Hdk'|]. split; [exact Hsa'|].
        destruct (ph_toB _ _ _ HP p Hin) as [(Hc & Ha) | (_ & X & _)]; [|rewrite Hsa in X; discriminate].
        assert (Hlisten : s_state (sb st) = Listen -> net_now st SB <= T0 + dk + Dt ->
                  s_state (sb (net_set st SB e')) = SynReceived /\ will_tx (net_set st SB e') SB (T0 + dk + Dt)).
        { intros B1 Hcl. destruct (hs_B_listen_segment isn Dack st p e' HN Ho HP B1 Hin He) as (_ & X1 & X2).
          split; [unfold net_sock; cbn [net_set net_get n_b]; exact X1|].
          split; [rewrite (Hnow SB); exact Hcl|]. left. unfold needs_tx, net_sock. cbn [net_set net_get n_b]. exact X2. }
        assert (Hsynrecv : s_state (sb st) = SynReceived -> net_sock (net_set st SB e') SB = sb st /\
                                                            chan_to (net_set st SB e') SA = chan_to st SA).
        { intros B1. destruct (ep_step_spec _ _ _ He) as (s' & out & tags & Hs & Hk & _ & Hout & _).
          pose proof (T6 B1) as Htb.
          destruct (accepts_of_sent_to_gen _ (mirror tA) (fst p) (wire_parse (snd p)) ltac:(rewrite B1; discriminate)
                      ltac:(rewrite B1; discriminate) Htb (mirror_nz _ T4) (sent_to_parse _ _ (T7 p Hin))) as (A1 & A2 & A3).
          unfold net_sock in *. cbn [net_get] in *.
          cbn [tcp_step] in Hs. apply obind_ok in Hs. destruct Hs as (((s1 & rep) & tg) & Hi & Hs).
          assert (E1 : s1 = s' /\ out = OReply rep) by (inversion Hs; auto). destruct E1 as (-> & ->).
          unfold iface_tcp_ingress in Hi. rewrite A1, A2, A3 in Hi.
          assert (N1 : s_state (ep_sock (n_b st)) <> Listen) by (rewrite B1; discriminate).
          assert (N2 : s_state (ep_sock (n_b st)) <> SynSent) by (rewrite B1; discriminate).
          assert (Hc' : r_control (wire_parse (snd p)) = CSyn) by (unfold wire_parse; cbn [r_control]; exact Hc).
          assert (Ha' : r_ack_number (wire_parse (snd p)) = None) by (unfold wire_parse; cbn [r_ack_number]; rewrite Ha; reflexivity).
          destruct (process_syn_dropped _ _ (fst p) (wire_parse (snd p)) _ _ _ N1 N2 Hc' Ha' Hi) as (-> & ->).
          cbn [wire_out opt_list] in Hout. rewrite app_nil_r in Hout.
          split; [cbn [net_set net_get n_b]; exact Hk | unfold chan_to; cbn [side_other net_set net_get n_b]; exact Hout]. }
        destruct HPh as [(B1 & W) | [(B1 & B2) | [(B1 & W) | B1]]].
        -- destruct W as (Hc0 & _). destruct (Hlisten B1 ltac:(lia)) as (X1 & X2). right. right. left. split; assumption.
        -- destruct B2 as (i0 & p0 & t0 & _ & _ & Y1 & Y2). destruct (Hlisten B1 ltac:(lia)) as (X1 & X2).
           right. right. left. split; assumption.
        -- destruct (Hsynrecv B1) as (X1 & _). right. right. left. rewrite X1. split; [exact B1|].
           apply (will_tx_same st); [exact X1 | apply Hnow | exact W].
        -- right. right. right. apply (tracked_keep Dt Da fa st); [exact Hfe | exact H | | exact B1]. intros X; discriminate.
      * (* poll *)
        destruct Hse as (_ & ->). pose proof Hfe as Hok. cbn [fair_ev] in Hok. subst ok. right.
        split; [exact Hsy'|]. split; [exact Hdk'|]. split; [exact Hsa'|].
        assert (Hl : s_state (sb st) = Listen -> net_sock (net_set st SB e') SB = sb st).
        { intros B1. destruct (ep_step_spec _ _ _ He) as (s' & out & tags & Hs & Hk & _).
          destruct (T5 B1) as (L1 & _). unfold net_sock in *. cbn [net_get] in *.
          cbn [tcp_step] in Hs. unfold tcp_dispatch in Hs. rewrite L1 in Hs. cbn [obind] in Hs.
          cbn [net_set net_get n_b]. rewrite Hk. inversion Hs; reflexivity. }
        destruct HPh as [(B1 & W) | [(B1 & B2) | [(B1 & W) | B1]]].
        -- left. rewrite (Hl B1). split; [exact B1|]. apply (will_tx_same st); [exact EA | apply Hnow | exact W].
        -- right. left. rewrite (Hl B1). split; [exact B1|]. apply (tracked_keep Dt Da fa st); [exact Hfe | exact H | exact I | exact B2].
        -- pose proof (T6 B1) as Htb.
           destruct (disp_eff isn st SB true e' (mirror tA) HN Ho HV (or_intror B1) Htb HlaB He) as (D1 & _ & _).
           destruct (will_tx_poll st SB e' (mirror tA) _ HN Ho HV (or_intror B1) Htb HlaB He W) as [(q & Hq) | (_ & W')].
           ++ right. right. right.
              apply (tracked_new Dt Da fa st _ _ SA q); [exact Hsy | unfold chan_to; cbn [side_other net_set net_get n_b]; exact Hq | | exact HDt].
              rewrite Hnow. destruct W as (Hc0 & _). lia.
           ++ right. right. left. split; [|exact W']. unfold net_sock. cbn [net_set net_get n_b]. rewrite D1. exact B1.
        -- right. right. right. apply (tracked_keep Dt Da fa st); [exact Hfe | exact H | exact I | exact B1].
      * (* send at B: refused in LISTEN / SYN-RECEIVED *)
        destruct Hse as (_ & ->). right.
        destruct (quiet_eff st SB (EvSend data) e' ltac:(left; eexists; reflexivity) He) as ((Q1 & _) & Qo).
        split; [exact Hsy'|]. split; [exact Hdk'|]. split; [exact Hsa'|].
        destruct HPh as [(B1 & W) | [(B1 & B2) | [(B1 & W) | B1]]].
        -- left. split; [unfold net_sock; cbn [net_set net_get n_b]; rewrite Q1; exact B1|]. apply (will_tx_same st); [exact EA | apply Hnow | exact W].
        -- right. left. split; [unfold net_sock; cbn [net_set net_get n_b]; rewrite Q1; exact B1|].
           apply (tracked_keep Dt Da fa st); [exact Hfe | exact H | exact I | exact B2].
        -- right. right. left. split; [unfold net_sock; cbn [net_set net_get n_b]; rewrite Q1; exact B1|].
           apply (will_tx_quiet st SB (EvSend data) e'); [right; exact B1 | left; eexists; reflexivity | exact He | exact W].
        -- right. right. right. apply (tracked_keep Dt Da fa st); [exact Hfe | exact H | exact I | exact B1].
      * (* recv at B *)
        destruct Hse as (_ & ->). right.
        destruct (quiet_eff st SB (EvRecv (Z.max 0 n)) e' ltac:(right; eexists; reflexivity) He) as ((Q1 & _) & Qo).
        split; [exact Hsy'|]. split; [exact Hdk'|]. split; [exact Hsa'|].
        destruct HPh as [(B1 & W) | [(B1 & B2) | [(B1 & W) | B1]]].
        -- left. split; [unfold net_sock; cbn [net_set net_get n_b]; rewrite Q1; exact B1|]. apply (will_tx_same st); [exact EA | apply Hnow | exact W].
        -- right. left. split; [unfold net_sock; cbn [net_set net_get n_b]; rewrite Q1; exact B1|].
           apply (tracked_keep Dt Da fa st); [exact Hfe | exact H | exact I | exact B2].
        -- right. right. left. split; [unfold net_sock; cbn [net_set net_get n_b]; rewrite Q1; exact B1|].
           apply (will_tx_quiet st SB (EvRecv (Z.max 0 n)) e'); [right; exact B1 | right; eexists; reflexivity | exact He | exact W].
        -- right. right. right. apply (tracked_keep Dt Da fa st); [exact Hfe | exact H | exact I | exact B1].
      * (* close at B: not an event of such a run *)
        destruct Hse as (_ & ->). exfalso.
        destruct (ep_step_spec _ _ _ He) as (s' & out & tags & Hs & Hk & _).
        cbn [tcp_step] in Hs. assert (E : s' = tcp_close (ep_sock (n_b st))) by (inversion Hs; reflexivity).
        destruct (hsr_phase isn Dack _ HR') as ([X0 | X0] & Hb'); [|unfold net_sock in X0, Hsa; cbn [net_set net_get n_a] in X0, Hsa; congruence].
        destruct HR' as ([HP' | HG'] & _); [|exact (reg_not_synsent Dack _ HG' X0)].
        destruct (ph_phase _ _ _ HP') as [(_ & Y) | (Y & _)]; [|rewrite X0 in Y; discriminate].
        unfold net_sock in Y. cbn [net_set net_get n_b] in Y. rewrite Hk, E in Y. unfold tcp_close in Y.
        destruct (ph_phase _ _ _ HP) as [(_ & [B1 | B1]) | (B0 & _)]; [| |congruence];
          unfold net_sock in B1; cbn [net_get] in B1; rewrite B1 in Y; unfold tcp_set_state in Y; revert Y; sproj; intros [Y | Y]; discriminate.
  - (* a delivery of nothing *)
    right. split; [exact Hsy'|]. split; [exact Hdk'|]. split; [exact Hsa|].
    destruct HPh as [B | [(B1 & B2) | [B | B1]]].
    + left. exact B.
    + right. left. split; [exact B1|]. apply (tracked_keep Dt Da fa st); [exact Hfe | exact H | | exact B2]. intros ->. exact Hnone.
    + right. right. left. exact B.
    + right. right. right. apply (tracked_keep Dt Da fa st); [exact Hfe | exact H | | exact B1]. intros ->. exact Hnone.
  - (* the clock *)
    right. split; [exact Hsy'|]. split; [exact Hdk'|].
    assert (Es : forall z, net_sock (tick_net st d) z = net_sock st z) by (intros z; destruct z; reflexivity).
    split; [rewrite Es; exact Hsa|].
    assert (Hn : forall z, net_now (tick_net st d) z = net_now st z + Z.max 0 d) by (intros z; destruct z; reflexivity).
    destruct HPh as [(B1 & W) | [(B1 & B2) | [(B1 & W) | B1]]].
    + left. rewrite !Es. split; [exact B1|].
      pose proof (will_tx_tick fa st d SA tA T0 HN HV Hfe T1 (or_introl Hsa) W) as Hc'.
      destruct W as (_ & Hw). unfold will_tx. rewrite Es, Hn. split; [exact Hc' | exact Hw].
    + right. left. rewrite Es. split; [exact B1|]. apply (tracked_keep Dt Da fa st); [exact Hfe | exact H | exact I | exact B2].
    + right. right. left. rewrite !Es. split; [exact B1|].
      pose proof (will_tx_tick fa st d SB (mirror tA) _ HN HV Hfe (T6 B1) (or_intror B1) W) as Hc'.
      destruct W as (_ & Hw). unfold will_tx. rewrite Es, Hn. split; [exact Hc' | exact Hw].
    + right. right. right. apply (tracked_keep Dt Da fa st); [exact Hfe | exact H | exact I | exact B1].
  - (* the random number generator *)
    right. split; [exact Hsy'|]. split; [exact Hdk'|].
    assert (Es : forall z, net_sock (net_set st w (ep_set_cx (net_get st w) (cx_rand (ep_cx (net_get st w)) isn0 ts))) z = net_sock st z).
    { intros z. unfold net_sock. destruct (side_cases w z) as [-> | ->]; [rewrite net_get_set_same | rewrite net_get_set_other]; reflexivity. }
    assert (Hn : forall z, net_now (net_set st w (ep_set_cx (net_get st w) (cx_rand (ep_cx (net_get st w)) isn0 ts))) z = net_now st z).
    { intros z. rewrite (net_step_now _ _ _ z H). lia. }
    split; [rewrite Es; exact Hsa|].
    destruct HPh as [(B1 & W) | [(B1 & B2) | [(B1 & W) | B1]]].
    + left. rewrite !Es. split; [exact B1|]. apply (will_tx_same st); [apply Es | apply Hn | exact W].
    + right. left. rewrite Es. split; [exact B1|]. apply (tracked_keep Dt Da fa st); [exact Hfe | exact H | exact I | exact B2].
    + right. right. left. rewrite !Es. split; [exact B1|]. apply (will_tx_same st); [apply Es | apply Hn | exact W].
    + right. right. right. apply (tracked_keep Dt Da fa st); [exact Hfe | exact H | exact I | exact B1].
  - (* losses are excluded by fairness *)
    destruct Hd as [-> | ->]; destruct Hfe.
Qed.

End Rtx.

(* ---------------------------------------------------------------------------------------- *)
(* runs from net_init                                                                        *)
(* ---------------------------------------------------------------------------------------- *)
Module NVR := TcpNetInv.

Lemma init_plain ca cb st0 :
  net_init ca cb = Ok st0 -> c_keep_alive ca = None -> c_keep_alive cb = None ->
  plain (s_timer (net_sock st0 SA)) /\ plain (s_timer (net_sock st0 SB)).
Proof.
  intros H Ka Kb. unfold net_init in H.
  apply obind_ok in H. destruct H as (a0 & Ha0 & H).
  apply obind_ok in H. destruct H as (b0 & Hb0 & H).
  apply obind_ok in H. destruct H as (b1 & Hb1 & H).
  apply obind_ok in H. destruct H as (a1 & Ha1 & H). inversion H; subst st0; clear H.
  pose proof (create_props _ _ Ka Ha0) as CA. pose proof (create_props _ _ Kb Hb0) as CB.
  unfold net_sock. cbn [net_get n_a n_b]. split.
  - destruct (ep_step_spec _ _ _ Ha1) as (sa' & outa & tagsa & Hsa & A1 & _). rewrite A1.
    cbn [tcp_step] in Hsa.
    destruct (tcp_connect (ep_cx a0) (ep_sock a0) (c_addr cb) (c_port cb) (mkListenEp None (c_port ca))) as [sc|err|] eqn:Ec;
      [| |discriminate].
    + assert (X : sa' = sc) by (inversion Hsa; reflexivity). rewrite X, (connect_timer _ _ _ _ _ _ Ec). left. reflexivity.
    + assert (X : sa' = ep_sock a0) by (inversion Hsa; reflexivity). rewrite X, (cr_tm _ _ CA). left. reflexivity.
  - destruct (ep_step_spec _ _ _ Hb1) as (sb' & outb & tagsb & Hsb & B1 & _). rewrite B1.
    cbn [tcp_step] in Hsb.
    destruct (tcp_listen (ep_sock b0) (mkListenEp None (c_port cb))) as [sl|err|] eqn:El; [| |discriminate].
    + assert (X : sb' = sl) by (inversion Hsb; reflexivity). rewrite X.
      destruct (listen_timer _ _ _ El) as [E | E]; rewrite E; [rewrite (cr_tm _ _ CB)|]; left; reflexivity.
    + assert (X : sb' = ep_sock b0) by (inversion Hsb; reflexivity). rewrite X, (cr_tm _ _ CB). left. reflexivity.
Qed.

Section Run.
Variables Dt Da Dack : Z.
Variables ca cb : ep_config.
Variable st0 : net.
Hypothesis Hstart : start_ok Dack ca cb st0.

Let isn := cx_isn (ep_cx (n_a st0)).

(* what is known of a state reached from net_init in which the handshake invariant holds *)
Lemma hsr_here pre st1 :
  net_run st0 pre = Ok st1 -> hs_inv isn Dack st1 -> opts_ok st1 -> NVR.small st1 ->
  HSR isn Dack st1 /\ inv_at SA st1.
Proof.
  intros Hpre Hinv Ho Hsm1. pose proof Hstart as (Hi & Hstart0 & Ga & Gb & Pa & Pb & Haddr & Hdel).
  destruct (hs_inv_closed _ _ _ Hinv) as (Hcl1 & Hbw1).
  pose proof (INVo_reach _ _ _ _ _ Ga Gb Hi Hpre Hsm1 Hcl1) as HI1.
  assert (Hre1 : reach st1) by (exists ca, cb, st0, pre; auto).
  split; [|exact (INVo_inv_at _ _ HI1)].
  split; [exact Hinv|]. split; [exact (INVo_view _ _ HI1 Hbw1)|]. split; [exact (reach_NI _ Hre1) | exact Ho].
Qed.

Lemma hs_plain_run : forall evs pre st1 st,
  net_run st0 pre = Ok st1 -> hs_inv isn Dack st1 -> opts_ok st1 -> hs_plain st1 ->
  Forall (script_ev SA) evs -> net_run st1 evs = Ok st -> NVR.small st -> hs_plain st.
Proof.
  induction evs as [|ev rest IH]; intros pre st1 st Hpre Hinv Ho Hpl Hsc Hrun Hsm.
  - cbn [net_run] in Hrun. inversion Hrun; subst st. exact Hpl.
  - cbn [net_run] in Hrun. apply obind_ok in Hrun. destruct Hrun as (st2 & Hs & Hrun).
    inversion Hsc as [|? ? Hsc1 Hsc2]; subst.
    pose proof (net_run_mono _ _ _ Hrun) as Hm2. pose proof (net_step_mono _ _ _ Hs) as Hm1.
    assert (Hsm2 : NVR.small st2) by exact (NVR.small_mono _ _ Hm2 Hsm).
    assert (Hsm1 : NVR.small st1) by exact (NVR.small_mono _ _ Hm1 Hsm2).
    assert (Hpre2 : net_run st0 (pre ++ [ev]) = Ok st2).
    { apply (net_run_app pre [ev] st0 st1 st2 Hpre). cbn [net_run]. rewrite Hs. reflexivity. }
    destruct (hs_run Dack ca cb st0 Hstart [ev] pre st1 st2 Hpre Hinv Ho ltac:(constructor; [exact Hsc1 | constructor])
                ltac:(cbn [net_run]; rewrite Hs; reflexivity) Hsm2) as (Hinv2 & Ho2).
    destruct (hsr_here pre st1 Hpre Hinv Ho Hsm1) as (HR1 & HI1).
    destruct (hsr_here (pre ++ [ev]) st2 Hpre2 Hinv2 Ho2 Hsm2) as (HR2 & HI2).
    pose proof (hs_plain_step isn Dack st1 ev st2 HR1 HR2 HI1 HI2 Hsc1 Hs Hpl) as Hpl2.
    exact (IH (pre ++ [ev]) st2 st Hpre2 Hinv2 Ho2 Hpl2 Hsc2 Hrun Hsm).
Qed.

(* SYN EVENTUALLY ESTABLISHED, AFTER LOSSES.  From net_init, after ANY prefix of the one-way workload
   (losses, duplicates, reordering), on every fair schedule A is ESTABLISHED before its clock has
   advanced by more than RTTE_MAX_RTO + 2 Dt. *)
Theorem syn_established_after_loss : forall pre st evs st',
  net_run st0 pre = Ok st -> Forall (script_ev SA) pre ->
  fair_schedule Dt Da st evs -> Forall (app_ev SA) evs -> net_run st evs = Ok st' -> NVR.small st' ->
  net_now st SA + max_rto_us + 2 * Dt < net_now st' SA ->
  exists p1 p2 st1, evs = p1 ++ p2 /\ net_run st p1 = Ok st1 /\ net_run st1 p2 = Ok st' /\
                    s_state (net_sock st1 SA) = Established.
Proof.
  intros pre st evs st' Hpre Hscp (HDt & HDa & Ho & Hfair) Happ Hrun Hsm Hlate.
  pose proof Hstart as (Hi & Hst0 & Ga & Gb & Pa & Pb & Haddr & Hdel).
  destruct (hs_init ca cb st0 isn Dack Hi Hst0 Pa Pb Haddr Hdel) as (HP0 & Ho0).
  pose proof (net_run_mono _ _ _ Hrun) as Hm.
  assert (Hsm0 : NVR.small st) by exact (NVR.small_mono _ _ Hm Hsm).
  destruct (hs_run Dack ca cb st0 Hstart pre [] st0 st eq_refl (or_introl HP0) Ho0 Hscp Hpre Hsm0) as (Hinv & _).
  assert (Hpl0 : hs_plain st0).
  { intros _. destruct Pa as (_ & Ka). destruct Pb as (_ & Kb). exact (init_plain ca cb st0 Hi Ka Kb). }
  pose proof (hs_plain_run pre [] st0 st eq_refl (or_introl HP0) Ho0 Hpl0 Hscp Hpre Hsm0) as Hpl.
  destruct (hsr_here pre st Hpre Hinv Ho Hsm0) as (HR & _).
  pose proof (script_of_fair SA Dt Da evs _ st st' Hfair Hrun Happ) as Hsce.
  pose proof (hsr_run_all Dack ca cb st0 Hstart evs pre st st' Hpre Hinv Ho Hsce Hrun Hsm) as HRall.
  destruct (hsr_phase isn Dack st HR) as ([Hsa | Hsa] & Hsbp).
  2:{ exists [], evs, st. split; [reflexivity|]. split; [reflexivity|]. split; [exact Hrun | exact Hsa]. }
  destruct HR as ([HP | HG] & HV & HN & _); [|exfalso; exact (reg_not_synsent Dack _ HG Hsa)].
  destruct (Hpl Hsa) as (PA & PB).
  set (dk := net_now st SB - net_now st SA).
  set (T0 := net_now st SA + max_rto_us).
  pose proof max_rto_us_pos as Hmr.
  (* the SYN of a SYN-SENT / SYN-RECEIVED socket with a plain timer will be (re)transmitted *)
  assert (Hwill : forall z, (s_state (net_sock st z) = SynSent \/ s_state (net_sock st z) = SynReceived) ->
                            plain (s_timer (net_sock st z)) -> forall T, net_now st z + max_rto_us <= T -> will_tx st z T).
  { intros z Hz Hp T HT. split; [lia|].
    pose proof (NI_live st z HN) as Il.
    destruct Hp as [Hidle | (e & He)].
    - left. assert (L : st_live (s_state (net_sock st z)) = true) by (destruct Hz as [-> | ->]; reflexivity).
      destruct (li_K _ Il L) as [Ha | (Hfl & _)]; [|exact Hfl].
      destruct (s_timer (net_sock st z)); discriminate.
    - right. exists e. split; [exact He|].
      destruct (HN z) as (_ & _ & (_ & Hb) & _). unfold net_sock in He. rewrite He in Hb. unfold timer_bounded in Hb. unfold net_now in HT. lia. }
  assert (HJ : Jr Dt Da T0 dk (fa_init Dt Da st) st).
  { split; [apply fa_init_sync|]. split; [reflexivity|]. split; [exact Hsa|].
    destruct (ph_phase _ _ _ HP) as [(_ & [B | B]) | (A & _)]; [| |congruence].
    - left. split; [exact B|]. apply Hwill; [left; exact Hsa | exact PA | unfold T0; lia].
    - right. right. left. split; [exact B|]. apply Hwill; [right; exact B | exact PB | unfold T0, dk; lia]. }
  destruct (fair_leads_under_last Dt Da (HSR isn Dack) (Jr Dt Da T0 dk) (Qh) SA (T0 + 2 * Dt)
              (fun fa s HJ0 => Jr_clock Dt Da _ _ fa s HDt HJ0)
              (fun fa s ev s1 HR0 HR1 HJ0 Hfe Hs => Jr_step isn Dack Dt Da _ _ fa s ev s1 HDt HR0 HR1 HJ0 Hfe Hs)
              evs _ st st' HJ HRall Hfair Hrun ltac:(unfold T0; lia))
    as (p1 & p2 & fa1 & st1 & E & Hp1 & Hp2 & _ & _ & HQ & _).
  exists p1, p2, st1. auto.
Qed.

End Run.
