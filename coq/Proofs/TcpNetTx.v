(* C01, layer 1b: the sender contract [c05_contract] (Proofs/TcpNetContract.v) assembled from C05's
   theorems, event by event:
     listen / connect / close / abort / send   TcpSendApi.v   (listen_inv, connect_inv, close_inv, abort_inv, send_inv)
     segment                                   TcpSendTrace.v (ingress_inv with proc_ghost) + TcpSendReply.v
     dispatch                                  TcpSendDisp3.v (dispatch_inv_full) + TcpSendTrace.v (dispatch_segments)
   The one thing C05 has not proved is where a keep-alive probe sits: [c05_ka_bound] below, which
   stays a premise ([c05_contract_of_ka : c05_ka_bound -> c05_contract]). *)
From SV Require Import Lib.Base Gen.Consts.
From SV Require Import Model.Seq32 Model.Assembler Model.TcpBuf Model.TcpTypes Model.Tcp Model.TcpNet.
From SV Require Import Proofs.TcpSendBase Proofs.TcpSendInv Proofs.TcpSendAck Proofs.TcpSendProc
  Proofs.TcpSendApi Proofs.TcpSendDisp Proofs.TcpSendDisp2 Proofs.TcpSendDisp3 Proofs.TcpSendTrace
  Proofs.TcpSendReply.
From SV Require Proofs.TcpLiveProofs.
From SV Require Import Proofs.TcpNetBase Proofs.TcpNetFrame Proofs.TcpNetContract.

(* A keep-alive probe (RFC 1122 4.2.3.6: one garbage octet at SND.NXT - 1) is sent only for a
   sequence number that is already acknowledged.  C05's analysis: true when the MTU leaves room for
   a segment (effective MSS > 0) and the congestion controller reports a positive window (part of
   tcp-c02's [tcp_live_inv]); the Coq proof needs an invariant linking rtte.max_seq_sent to the
   sender ghost, which does not exist yet.  C01 needs it for a real reason: a zero octet at an
   unacknowledged sequence number is inside the receiver's window. *)
Definition c05_ka_bound : Prop :=
  forall cx g s e s' p tags,
    inv g s -> ctx_ok cx -> mtu_ok cx -> TcpLiveProofs.tcp_live_inv s ->
    tcp_dispatch cx s e = Ok (s', DSent p, tags) ->
    In 245 tags ->                      (* dispatch took its keep-alive branch (is_keep_alive) *)
    g_phase g <> PSyn /\ exists u, 0 <= u < g_una g /\ r_seq_number (snd p) = sq (g_iss g + u).

(* ---------------------------------------------------------------------------------------- *)
(* helpers                                                                                   *)
(* ---------------------------------------------------------------------------------------- *)
(* the ghost does not move *)
Lemma tx_same_id g s ev out :
  (forall d n, ev = EvSend d -> out <> OSize n) -> ev <> EvClose -> tx_same g s ev g out.
Proof.
  intros Hs Hc. unfold tx_same.
  split; [reflexivity|].
  split; [unfold log_written; destruct ev; try reflexivity; destruct out; try reflexivity;
          exfalso; eapply Hs; reflexivity|].
  split; [unfold log_closed; destruct ev; try reflexivity; congruence|].
  split; [reflexivity|]. split; [tauto|]. split; [lia|]. split; [|lia].
  intros E. unfold g_una. rewrite E. lia.
Qed.

(* same iss / stream / fin / acked / phase: also a tx_same for events that are neither send nor close *)
Lemma tx_same_fields g g' s ev out :
  g_iss g' = g_iss g -> g_stream g' = g_stream g -> g_fin g' = g_fin g ->
  g_acked g' = g_acked g -> g_phase g' = g_phase g ->
  (forall d n, ev = EvSend d -> out <> OSize n) -> ev <> EvClose -> tx_same g s ev g' out.
Proof.
  intros E1 E2 E3 E4 E5 Hs Hc.
  assert (Eu : g_una g' = g_una g) by (unfold g_una; rewrite E4, E5; reflexivity).
  unfold tx_same. rewrite E1, E2, E3, E5, Eu.
  split; [reflexivity|].
  split; [unfold log_written; destruct ev; try reflexivity; destruct out; try reflexivity;
          exfalso; eapply Hs; reflexivity|].
  split; [unfold log_closed; destruct ev; try reflexivity; congruence|].
  split; [reflexivity|]. split; [tauto|]. split; [lia|]. split; [|lia].
  intros E. unfold g_una. rewrite E. lia.
Qed.

(* in LISTEN the sender ghost is blank *)
Lemma inv_listen_blank g s : inv g s -> s_state s = Listen -> tx_blank g.
Proof.
  intros ((Hwf & _ & Ha & Hlen & _ & _ & _ & _ & _ & Hph & _) & _) Hst.
  unfold phase_ok in Hph. rewrite Hst in Hph. unfold tx_blank.
  destruct (g_phase g) eqn:P; [| exfalso; exact Hph | exfalso; apply Hph].
  destruct Hph as (A0 & L0 & Hf). split; [|split; [exact Hf | reflexivity]].
  apply l_len_zero_nil. lia.
Qed.

Lemma listen_state s ep s' : tcp_listen s ep = Ok s' -> s_state s' = Listen.
Proof.
  unfold tcp_listen. destruct (le_port ep =? 0); [discriminate|].
  destruct (tcp_is_open s).
  - destruct (tcp_state_eqb (s_state s) Listen) eqn:E; cbn [andb]; [|discriminate].
    destruct (listen_endpoint_eqb _ _); [|discriminate]. intros H; inversion H; subst.
    destruct (s_state s'); try discriminate E; reflexivity.
  - intros H; inversion H; subst. reflexivity.
Qed.

Lemma tx_pkt_ok_reply g o : reply_shape o -> forall p, o = Some p -> tx_pkt_ok g p.
Proof.
  intros Hs p ->. destruct Hs as (Hp & Hc). unfold tx_pkt_ok, carries. cbv zeta. rewrite Hp. change (l_len []) with 0.
  split; [lia|]. split; [intros E; destruct Hc; congruence|]. split; [intros _; reflexivity|].
  intros [H | H]; [lia | destruct Hc; congruence].
Qed.

(* ---------------------------------------------------------------------------------------- *)
(* close                                                                                     *)
(* ---------------------------------------------------------------------------------------- *)
Lemma g_set_fin_id g : g_fin g = true -> g_set_fin g = g.
Proof. destruct g; cbn. intros ->. reflexivity. Qed.

Lemma ct_close g s :
  inv g s -> exists g', inv g' (tcp_close s) /\ tx_same g s EvClose g' OUnit.
Proof.
  intros Hinv. destruct (close_inv g s Hinv) as (g0 & Hi0 & _ & Hg0).
  assert (Hsame : forall g', g_iss g' = g_iss g -> g_stream g' = g_stream g -> g_acked g' = g_acked g ->
                  g_phase g' = g_phase g -> g_fin g' = g_fin g || closes_stream (s_state s) ->
                  tx_same g s EvClose g' OUnit).
  { intros g' E1 E2 E3 E4 E5.
    assert (Eu : g_una g' = g_una g) by (unfold g_una; rewrite E3, E4; reflexivity).
    unfold tx_same. rewrite E1, E2, E4, Eu. cbn [log_written log_closed].
    split; [reflexivity|]. split; [reflexivity|]. split; [exact E5|]. split; [reflexivity|].
    split; [tauto|]. split; [lia|]. split; [|lia]. intros E. unfold g_una. rewrite E. lia. }
  destruct (closes_stream (s_state s)) eqn:Ec.
  - exists (g_set_fin g). split.
    + destruct Hg0 as [-> | ->]; [|exact Hi0].
      assert (Hf : g_fin g = true).
      { destruct Hi0 as ((_ & _ & _ & _ & _ & _ & _ & _ & _ & Hph & _) & _).
        unfold tcp_close in Hph. unfold phase_ok in Hph.
        destruct (s_state s); try discriminate Ec; fld_in Hph;
          destruct (g_phase g); try tauto; try (destruct Hph as (_ & _ & X); tauto). }
      rewrite (g_set_fin_id g Hf). exact Hi0.
    + apply Hsame; try reflexivity. cbn. rewrite orb_true_r. reflexivity.
  - exists g. split.
    + unfold tcp_close. destruct (s_state s) eqn:Es; try discriminate Ec; try exact Hinv.
      * change (tcp_set_state s Closed) with (tcp_abort s). apply abort_inv. exact Hinv.
      * change (tcp_set_state s Closed) with (tcp_abort s). apply abort_inv. exact Hinv.
    + apply Hsame; try reflexivity. rewrite orb_false_r. reflexivity.
Qed.

(* ---------------------------------------------------------------------------------------- *)
(* send                                                                                      *)
(* ---------------------------------------------------------------------------------------- *)
Lemma ct_send g s data s' n :
  inv g s -> tcp_send_slice s data = Ok (s', n) ->
  exists g', inv g' s' /\ tx_same g s (EvSend data) g' (OSize n).
Proof.
  intros Hinv E. destruct (send_inv _ _ _ _ _ Hinv E) as (Hi & _ & _ & Hms).
  exists (g_send g (l_take n data)). split; [exact Hi|].
  unfold tx_same, g_send. cbn [g_iss g_stream g_fin g_phase log_written log_closed].
  assert (Eu : g_una (mkGhost (g_iss g) (g_stream g ++ l_take n data) (g_acked g) (g_phase g) (g_flight g)
                              (g_fin g) (g_hw g)) = g_una g) by reflexivity.
  rewrite Eu.
  split; [reflexivity|]. split; [reflexivity|]. split; [reflexivity|].
  split.
  { intros Hf. exfalso.
    destruct Hinv as ((_ & _ & _ & _ & _ & _ & _ & _ & _ & Hph & _) & _).
    unfold phase_ok in Hph. unfold tcp_may_send in Hms.
    destruct (g_phase g); destruct (s_state s); try discriminate; try tauto;
      try (destruct Hph as (X & _); congruence); congruence. }
  split; [tauto|]. split; [lia|]. split; [|lia]. intros P. unfold g_una. rewrite P. lia.
Qed.

(* ---------------------------------------------------------------------------------------- *)
(* a segment                                                                                 *)
(* ---------------------------------------------------------------------------------------- *)
Lemma ct_segment cx g s ip r s' reply tags :
  inv g s -> ctx_ok cx -> repr_ok r ->
  iface_tcp_ingress cx s ip r = Ok (s', reply, tags) ->
  exists g', inv g' s' /\
             (tx_same g s (EvSegment ip r) g' (OReply reply) \/
              tx_new cx g s (EvSegment ip r) g' s' (OReply reply)) /\
             (forall p, tx_emitted (OReply reply) = Some p -> tx_pkt_ok g' p).
Proof.
  intros Hinv Hcx Hr H.
  destruct (ingress_inv _ _ _ _ _ _ _ _ Hinv Hcx Hr H) as (g' & Hi' & _ & _ & Hpg & Hacc).
  exists g'. split; [exact Hi'|]. split.
  - destruct Hpg as [-> | [(Hl & Hsyn & P & Fn & St & I' & St' & Fn' & P' & A') |
                           [(E1 & E2 & E3 & Hm & d & Hd & Hu & Hd1 & Hack) | (Hsr & Hrst & P & Fn & St & -> & Hl')]]].
    + left. apply tx_same_id; [intros; discriminate | discriminate].
    + right. split; [split; [exact St' | split; [exact Fn' | exact P']]|]. right.
      split; [split; [exact St | split; [exact Fn | exact P]] | left; exact Hl].
    + left. unfold tx_same. cbn [log_written log_closed]. rewrite E1, E2, E3, Hu.
      split; [reflexivity|]. split; [reflexivity|]. split; [reflexivity|]. split; [reflexivity|].
      split; [exact Hm|]. split; [lia|].
      split; [intros P; specialize (Hd1 P); unfold g_una; rewrite P; lia|].
      intros Hlt. assert (Hd0 : 0 < d) by lia. destruct (Hack Hd0) as (Hn & Ha).
      exists ip, r. split; [reflexivity|]. split.
      * destruct Hacc as [-> | Ha']; [lia | exact Ha'].
      * split; [exact Hn|]. rewrite Ha. f_equal. f_equal. lia.
    + (* RST aborting the handshake of a listener: back to LISTEN, blank epoch *)
      right. split; [unfold tx_blank, g_fresh; cbn; repeat split; reflexivity|]. right.
      split; [split; [exact St | split; [exact Fn | exact P]] | right; exact Hl'].
  - intros p Hp. cbn [tx_emitted] in Hp. destruct reply as [q|]; [|discriminate]. inversion Hp; subst q.
    eapply tx_pkt_ok_reply; [|reflexivity]. eapply ingress_reply_no_data. exact H.
Qed.

(* ---------------------------------------------------------------------------------------- *)
(* dispatch                                                                                  *)
(* ---------------------------------------------------------------------------------------- *)
Lemma ts_opt_nonneg s : 0 <= ts_opt s.
Proof. unfold ts_opt. destruct (s_tsval_generator s); lia. Qed.

Section Dispatch.
  Hypothesis ka : c05_ka_bound.

  Lemma ct_dispatch cx g s e s' res tags :
    inv g s -> ctx_ok cx -> mtu_ok cx -> TcpLiveProofs.tcp_live_inv s ->
    tcp_dispatch cx s e = Ok (s', res, tags) ->
    exists g', inv g' s' /\
               (tx_same g s (EvDispatch e) g' (ODispatch res) \/
                tx_new cx g s (EvDispatch e) g' s' (ODispatch res)) /\
               (forall p, tx_emitted (ODispatch res) = Some p -> tx_pkt_ok g' p).
  Proof.
    intros Hinv Hcx Hmtu Hlive H.
    destruct (dispatch_inv_full _ _ _ _ _ _ _ Hinv Hcx H)
      as (g1 & s1 & g' & Hg1 & Hinv1 & Hfr & Hi' & _ & _ & Hcls & Hres).
    exists g'. split; [exact Hi'|].
    assert (Hg1f : g_iss g1 = g_iss g /\ g_stream g1 = g_stream g /\ g_fin g1 = g_fin g /\
                   g_acked g1 = g_acked g /\ g_phase g1 = g_phase g).
    { destruct Hg1 as [-> | ->]; repeat split; reflexivity. }
    destruct Hg1f as (G1 & G2 & G3 & G4 & G5).
    destruct Hcls as [-> | [(f & -> & _) | (-> & -> & ->)]].
    3:{ (* the address was removed: reset *)
        split; [|intros p Hp; discriminate]. right.
        split; [unfold tx_blank, ghost0; cbn; repeat split; reflexivity|]. left.
        split; [unfold tcp_reset; fld; reflexivity | reflexivity]. }
    all: match goal with
         | |- (tx_same _ _ _ ?gx _ \/ _) /\ _ =>
             assert (F1 : g_iss gx = g_iss g /\ g_stream gx = g_stream g /\ g_fin gx = g_fin g /\
                          g_acked gx = g_acked g /\ g_phase gx = g_phase g)
               by (unfold g_sent; cbn [g_iss g_stream g_fin g_acked g_phase]; repeat split; assumption)
         end.
    all: destruct F1 as (E1 & E2 & E3 & E4 & E5).
    all: (split; [left; apply tx_same_fields; try assumption; [intros; discriminate | discriminate]|]).
    all: intros p Hp.
    all: assert (Hres' : res = DSent p) by (destruct res; cbn in Hp; try discriminate; congruence).
    all: subst res.
    all: assert (Eu : forall gx, g_acked gx = g_acked g -> g_phase gx = g_phase g -> g_una gx = g_una g)
           by (intros gx A B; unfold g_una; rewrite A, B; reflexivity).
    all: unfold tx_pkt_ok, carries; cbv zeta.
    all: destruct (in_dec Z.eq_dec 245 tags) as [Hk | Hnk].
    all: try (destruct (ka _ _ _ _ _ _ _ Hinv Hcx Hmtu Hlive H Hk) as (Kph & (u & Hu & Hsq));
              destruct Hres as (zwp & kab & (Hkab & _) & _ & _ & _ & Htag);
              destruct (dispatch_sent_tags _ _ _ _ _ _ H) as (kam & Hkam);
              assert (Hkm : kam = true)
                by (destruct kam; [reflexivity|]; destruct (Hkam 245 Hk) as [X|X]; lia);
              subst kam;
              assert (Hkb : kab = true)
                by (destruct kab; [reflexivity|]; destruct (Hkam 246 Htag) as [X|X]; lia);
              destruct (Hkab Hkb) as (Kp & Kc & _);
              rewrite Kp; change (l_len [0]) with 1;
              split; [lia|]; split; [intros Ec; congruence|]; split; [intros Ec; congruence|];
              intros _; split; [congruence|]; right;
              unfold tx_ka_seg; rewrite Kp; change (l_len [0]) with 1;
              split; [reflexivity|]; split; [exact Kc|]; exists u;
              rewrite (Eu _ E4 E5), E1; split; [exact Hu | exact Hsq]).
    all: destruct (dispatch_sent_segments _ _ _ _ _ _ _ Hinv Hcx H Hnk) as ((Hd & Hsyn & Hrst) & _).
    all: pose proof (dispatch_sent_phase _ _ _ _ _ _ _ Hinv Hcx H Hnk) as Hph.
    all: assert (Hn : l_len (r_payload (snd p)) <= 65535)
           by (destruct (Z.ltb_spec 0 (l_len (r_payload (snd p)))) as [Hpos|Hnp]; [|lia];
               destruct (Hd (or_introl Hpos)) as (k & _ & _ & _ & _ & _ & Hmss & _);
               destruct (Hmss Hpos) as (_ & Hmtu');
               destruct Hres as (zwp & kab & _ & Hip & _); rewrite Hip in Hmtu';
               pose proof (repr_header_len_ge (snd p)); unfold repr_buffer_len in Hmtu';
               unfold mtu_ok, wipv4_HEADER_LEN, wtcp_HEADER_LEN in *; lia).
    all: split; [exact Hn|].
    all: split; [intros Ec; destruct (Hsyn Ec) as (N0 & Sq & _); rewrite E1; split; assumption|].
    all: split; [exact Hrst|].
    all: intros Hcar;
         split; [rewrite E5, (Hph Hcar); discriminate|]; left;
         destruct (Hd Hcar) as (k & Hsq & Hak & Hlen & Hpay & _ & _ & _ & Hfin);
         unfold tx_stream_seg; cbv zeta; exists k; rewrite E1, E2, E3;
         destruct Hinv as ((_ & _ & Ha0 & _) & _);
         split; [lia|]; split; [exact Hsq|]; split; [exact Hpay|]; split; [exact Hlen | exact Hfin].
  Qed.
End Dispatch.

(* ---------------------------------------------------------------------------------------- *)
(* every event                                                                               *)
(* ---------------------------------------------------------------------------------------- *)
Theorem c05_contract_of_ka : c05_ka_bound -> c05_contract.
Proof.
  intros ka cx g s ev s' out tags Hinv Hcx Hmtu Hlive Hev H.
  assert (Hid : forall s0 out0, txv s0 = txv s -> tx_emitted out0 = None ->
            (forall d n, ev = EvSend d -> out0 <> OSize n) -> ev <> EvClose ->
            exists g', inv g' s0 /\ (tx_same g s ev g' out0 \/ tx_new cx g s ev g' s0 out0) /\
                       (forall p, tx_emitted out0 = Some p -> tx_pkt_ok g' p)).
  { intros s0 out0 E He Hs Hc. exists g. split; [eapply inv_txv; eassumption|].
    split; [left; apply tx_same_id; assumption|]. intros p Hp. congruence. }
  destruct ev; cbn [tcp_step] in H.
  - (* listen *)
    destruct (tcp_listen s ep) as [s1|e1|] eqn:E; try discriminate; inversion H; subst; clear H.
    + destruct (listen_inv _ _ _ _ Hinv E) as (g' & Hi' & _).
      exists g'. split; [exact Hi'|]. split; [|intros p Hp; discriminate].
      right. split; [apply (inv_listen_blank g' s' Hi' (listen_state _ _ _ E)) | right; exact I].
    + apply Hid; [reflexivity | reflexivity | intros; discriminate | discriminate].
  - (* connect *)
    destruct (tcp_connect cx s remote_addr remote_port local) as [s1|e1|] eqn:E; try discriminate;
      inversion H; subst; clear H.
    + destruct (connect_inv _ _ _ _ _ _ _ Hinv Hcx E) as (Hi' & _).
      exists (g_fresh (cx_isn cx)). split; [exact Hi'|]. split; [|intros p Hp; discriminate].
      right. split; [unfold tx_blank, g_fresh; cbn; repeat split; reflexivity | right; reflexivity].
    + apply Hid; [reflexivity | reflexivity | intros; discriminate | discriminate].
  - (* close *)
    inversion H; subst; clear H. destruct (ct_close g s Hinv) as (g' & Hi' & Hs).
    exists g'. split; [exact Hi'|]. split; [left; exact Hs | intros p Hp; discriminate].
  - (* abort *)
    inversion H; subst; clear H. exists g. split; [apply abort_inv; exact Hinv|].
    split; [left; apply tx_same_id; [intros; discriminate | discriminate] | intros p Hp; discriminate].
  - (* send *)
    destruct (tcp_send_slice s data) as [[s1 n]|e1|] eqn:E; try discriminate; inversion H; subst; clear H.
    + destruct (ct_send _ _ _ _ _ Hinv E) as (g' & Hi' & Hs).
      exists g'. split; [exact Hi'|]. split; [left; exact Hs | intros p Hp; discriminate].
    + apply Hid; [reflexivity | reflexivity | intros; discriminate | discriminate].
  - (* recv *)
    destruct (tcp_recv_slice s n) as [[s1 l]|e1|] eqn:E; try discriminate; inversion H; subst; clear H.
    + apply Hid; [|reflexivity | intros; discriminate | discriminate].
      unfold tcp_recv_slice in E. destruct (tcp_recv_error_check s); cbn [obind] in E; try discriminate.
      destruct (rb_dequeue_slice (s_rx_buffer s) n). inversion E; subst. reflexivity.
    + apply Hid; [reflexivity | reflexivity | intros; discriminate | discriminate].
  - destruct (tcp_peek s n); try discriminate; inversion H; subst;
      apply Hid; [reflexivity | reflexivity | intros; discriminate | discriminate |
                  reflexivity | reflexivity | intros; discriminate | discriminate].
  - destruct (tcp_peek_slice s n); try discriminate; inversion H; subst;
      apply Hid; [reflexivity | reflexivity | intros; discriminate | discriminate |
                  reflexivity | reflexivity | intros; discriminate | discriminate].
  - inversion H; subst. apply Hid; [reflexivity | reflexivity | intros; discriminate | discriminate].
  - (* set_keep_alive: an idle timer stays idle *)
    inversion H; subst; clear H. exists g. split.
    + apply set_keep_alive_inv. exact Hinv.
    + split; [left; apply tx_same_id; [intros; discriminate | discriminate] | intros p Hp; discriminate].
  - inversion H; subst. apply Hid; [reflexivity | reflexivity | intros; discriminate | discriminate].
  - inversion H; subst. apply Hid; [reflexivity | reflexivity | intros; discriminate | discriminate].
  - (* set_hop_limit *)
    destruct (tcp_set_hop_limit s h) as [s1| |] eqn:E; cbn [obind] in H; try discriminate.
    inversion H; subst; clear H. apply Hid; [|reflexivity | intros; discriminate | discriminate].
    unfold tcp_set_hop_limit in E. destruct h as [[|?|?]|]; try discriminate; inversion E; subst; reflexivity.
  - (* segment *)
    destruct (iface_tcp_ingress cx s ip r) as [[[s1 rp] tg]| |] eqn:E; cbn [obind] in H; try discriminate.
    inversion H; subst; clear H. exact (ct_segment _ _ _ _ _ _ _ _ Hinv Hcx Hev E).
  - (* dispatch *)
    destruct (tcp_dispatch cx s emit_ok) as [[[s1 rs] tg]| |] eqn:E; cbn [obind] in H; try discriminate.
    inversion H; subst; clear H. exact (ct_dispatch ka _ _ _ _ _ _ _ Hinv Hcx Hmtu Hlive E).
Qed.
