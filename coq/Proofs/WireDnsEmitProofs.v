(* DNS Repr::emit (src/wire/dns.rs; property C06): the octets a query representation emits are a closed form
   that does not depend on the buffer's old contents; reading them back through the Packet accessors and
   Question::parse (Repr::parse exists only under cfg(test)) gives the representation's fields.
   The flags word is handled by mask algebra (this is where D3 was: stale flag / opcode bits). *)
From SV Require Import Lib.Base Gen.Consts Gen.WireFields Model.WireDns Proofs.WireDnsProofs.
From SV Require Import Model.WireBase Proofs.WireBaseProofs Model.WireSixFrag Model.WireNhc Proofs.LowpanWireProofs.

Lemma wdns_write_mid pre old post data : wdns_len old = wdns_len data ->
  wdns_write (pre ++ old ++ post) (wdns_len pre) data = Ok (pre ++ data ++ post).
Proof.
  intros H. unfold wdns_write. rewrite !wdns_len_app.
  pose proof (wdns_len_nonneg pre). pose proof (wdns_len_nonneg post). pose proof (wdns_len_nonneg old).
  replace ((0 <=? wdns_len pre) && (wdns_len pre + wdns_len data <=? wdns_len pre + (wdns_len old + wdns_len post))) with true
    by (symmetry; apply andb_true_iff; split; [apply Z.leb_le | apply Z.leb_le]; lia).
  f_equal. unfold wdns_len in *.
  rewrite firstn_app, firstn_all2 by lia. replace (Z.to_nat (Z.of_nat (length pre)) - length pre)%nat with 0%nat by lia.
  cbn [firstn]. rewrite app_nil_r. f_equal. f_equal.
  rewrite skipn_app, skipn_all2 by lia. cbn [app].
  replace (Z.to_nat (Z.of_nat (length pre) + Z.of_nat (length data)) - length pre)%nat with (length old) by lia.
  rewrite skipn_app, skipn_all, Nat.sub_diag. reflexivity.
Qed.

Lemma wdns_slice_mid pre mid post :
  wdns_slice (pre ++ mid ++ post) (wdns_len pre) (wdns_len pre + wdns_len mid) = Ok mid.
Proof.
  unfold wdns_slice. rewrite !wdns_len_app.
  pose proof (wdns_len_nonneg pre). pose proof (wdns_len_nonneg post). pose proof (wdns_len_nonneg mid).
  replace ((0 <=? wdns_len pre) && (wdns_len pre <=? wdns_len pre + wdns_len mid) &&
           (wdns_len pre + wdns_len mid <=? wdns_len pre + (wdns_len mid + wdns_len post))) with true
    by (symmetry; rewrite !andb_true_iff; repeat split; apply Z.leb_le; lia).
  f_equal. unfold wdns_len in *.
  rewrite skipn_app, skipn_all2 by lia. cbn [app].
  replace (Z.to_nat (Z.of_nat (length pre)) - length pre)%nat with 0%nat by lia. cbn [skipn].
  replace (Z.to_nat (Z.of_nat (length pre) + Z.of_nat (length mid) - Z.of_nat (length pre))) with (length mid) by lia.
  rewrite firstn_app, firstn_all, Nat.sub_diag. cbn [firstn]. apply app_nil_r.
Qed.

Lemma wdns_set_field16_mid pre a b post v lo : lo = wdns_len pre ->
  wdns_set_field16 (pre ++ [a; b] ++ post) (lo, lo + 2) v = Ok (pre ++ wdns_u16_bytes v ++ post).
Proof.
  intros ->. unfold wdns_set_field16. cbn [fst snd].
  change (wdns_len pre + 2) with (wdns_len pre + wdns_len [a; b]). rewrite wdns_slice_mid. cbn [obind].
  replace (wdns_len pre + wdns_len [a; b] - wdns_len pre <? 2) with false
    by (symmetry; apply Z.ltb_ge; unfold wdns_len; cbn [length]; lia).
  apply wdns_write_mid. reflexivity.
Qed.

Lemma wdns_field16_mid pre a b post lo : lo = wdns_len pre ->
  wdns_field16 (pre ++ [a; b] ++ post) (lo, lo + 2) = Ok (a * 256 + b).
Proof.
  intros ->. unfold wdns_field16. cbn [fst snd].
  change (wdns_len pre + 2) with (wdns_len pre + wdns_len [a; b]). rewrite wdns_slice_mid. reflexivity.
Qed.

Lemma wdns_set_field16_at buf pre a b post v lo hi :
  buf = pre ++ [a; b] ++ post -> lo = wdns_len pre -> hi = lo + 2 ->
  wdns_set_field16 buf (lo, hi) v = Ok (pre ++ wdns_u16_bytes v ++ post).
Proof. intros -> Hlo ->. apply wdns_set_field16_mid. exact Hlo. Qed.

Lemma wdns_field16_at buf pre a b post lo hi :
  buf = pre ++ [a; b] ++ post -> lo = wdns_len pre -> hi = lo + 2 ->
  wdns_field16 buf (lo, hi) = Ok (a * 256 + b).
Proof. intros -> Hlo ->. apply wdns_field16_mid. exact Hlo. Qed.

Lemma wdns_slice_tail pre mid : wdns_slice (pre ++ mid) (wdns_len pre) (wdns_len pre + wdns_len mid) = Ok mid.
Proof. pose proof (wdns_slice_mid pre mid []) as H. rewrite app_nil_r in H. exact H. Qed.

Lemma wdns_write_tail pre old data : wdns_len old = wdns_len data ->
  wdns_write (pre ++ old) (wdns_len pre) data = Ok (pre ++ data).
Proof. intros H. pose proof (wdns_write_mid pre old [] data H) as E. rewrite !app_nil_r in E. exact E. Qed.

(* the flags word Repr::emit leaves: flags, then the opcode in bits 11..14 *)
Definition wdns_flags_word (flags opcode : Z) : Z :=
  Z.lor (Z.land flags (65535 - 30720)) (Z.land (Z.shiftl opcode 11) 30720).

Definition wdns_repr_bytes (r : wdns_repr) : list Z :=
  wdns_u16_bytes (rp_transaction_id r) ++ wdns_u16_bytes (wdns_flags_word (rp_flags r) (rp_opcode r)) ++
  [0; 1; 0; 0; 0; 0; 0; 0] ++
  q_name (rp_question r) ++ wdns_u16_bytes (q_type (rp_question r)) ++ wdns_u16_bytes wdns_CLASS_IN.

Lemma wdns_u16_bytes_be v : 0 <= v < 65536 -> v / 256 mod 256 * 256 + v mod 256 = v.
Proof. intros. lia. Qed.

Lemma len_cells' {A} (l : list A) n : length l = S n -> exists x t, l = x :: t /\ length t = n.
Proof. destruct l; cbn; [discriminate|]. intros H; injection H; eauto. Qed.

Lemma wdns_split (l : list Z) (n : nat) : (n <= length l)%nat ->
  exists h t, l = h ++ t /\ length h = n.
Proof. intros H. exists (firstn n l), (skipn n l). split; [symmetry; apply firstn_skipn | apply firstn_length_le; exact H]. Qed.

Lemma wdns_repr_emit_exact r buf :
  0 <= rp_flags r < 65536 ->
  wdns_len buf = wdns_repr_buffer_len r ->
  wdns_repr_emit r buf = Ok (wdns_repr_bytes r).
Proof.
  intros Hf Hl. destruct r as [id opc fl [name ty]]. cbn [rp_transaction_id rp_opcode rp_flags rp_question q_name q_type] in *.
  unfold wdns_repr_buffer_len, wdns_question_buffer_len, wdns_f_HEADER_END in Hl. cbn [rp_question q_name] in Hl.
  pose proof (wdns_len_nonneg name) as Hn.
  destruct (wdns_split buf 12) as (h & t & -> & Hh); [unfold wdns_len in *; lia|].
  rewrite wdns_len_app in Hl. assert (Ht : wdns_len t = wdns_len name + 4) by (unfold wdns_len in *; lia).
  repeat (let x := fresh "c" in let t' := fresh "t" in let E := fresh in
          apply len_cells' in Hh; destruct Hh as (x & t' & E & Hh); subst).
  apply length_zero_iff_nil in Hh. subst.
  destruct (wdns_split t (length name)) as (tn & t4 & -> & Htn); [unfold wdns_len in *; lia|].
  rewrite wdns_len_app in Ht. assert (H4 : length t4 = 4%nat) by (unfold wdns_len in *; lia).
  repeat (let x := fresh "x" in let t' := fresh "t" in let E := fresh in
          apply len_cells' in H4; destruct H4 as (x & t' & E & H4); subst).
  apply length_zero_iff_nil in H4. subst.
  unfold wdns_repr_emit, wdns_repr_bytes. cbn [rp_transaction_id rp_opcode rp_flags rp_question q_name q_type].
  unfold wdns_f_ID, wdns_f_FLAGS, wdns_f_QDCOUNT, wdns_f_ANCOUNT, wdns_f_NSCOUNT, wdns_f_ARCOUNT, wdns_f_HEADER_END.
  cbn [app].
  erewrite (wdns_set_field16_at _ [] c c0 _ id 0 2); [ | reflexivity | reflexivity | reflexivity ].
  cbn [obind app wdns_u16_bytes].
  erewrite (wdns_set_field16_at _ [_; _] c1 c2 _ 0 2 4); [ | reflexivity | reflexivity | reflexivity ].
  cbn [obind app wdns_u16_bytes]. unfold wdns_set_flags, wdns_flags_raw, wdns_f_FLAGS.
  erewrite (wdns_field16_at _ [_; _] _ _ _ 2 4); [ | reflexivity | reflexivity | reflexivity ].
  cbn [obind]. zfold. rewrite Z.lor_0_l.
  erewrite (wdns_set_field16_at _ [_; _] _ _ _ fl 2 4); [ | reflexivity | reflexivity | reflexivity ].
  cbn [obind app wdns_u16_bytes]. unfold wdns_set_opcode, wdns_flags_raw, wdns_f_FLAGS.
  erewrite (wdns_field16_at _ [_; _] _ _ _ 2 4); [ | reflexivity | reflexivity | reflexivity ].
  cbn [obind]. rewrite (wdns_u16_bytes_be fl) by lia.
  erewrite (wdns_set_field16_at _ [_; _] _ _ _ _ 2 4); [ | reflexivity | reflexivity | reflexivity ].
  cbn [obind app wdns_u16_bytes].
  erewrite (wdns_set_field16_at _ [_; _; _; _] _ _ _ 1 4 6); [ | reflexivity | reflexivity | reflexivity ].
  cbn [obind app wdns_u16_bytes].
  erewrite (wdns_set_field16_at _ [_; _; _; _; _; _] _ _ _ 0 6 8); [ | reflexivity | reflexivity | reflexivity ].
  cbn [obind app wdns_u16_bytes].
  erewrite (wdns_set_field16_at _ [_; _; _; _; _; _; _; _] _ _ _ 0 8 10); [ | reflexivity | reflexivity | reflexivity ].
  cbn [obind app wdns_u16_bytes].
  erewrite (wdns_set_field16_at _ [_; _; _; _; _; _; _; _; _; _] _ _ _ 0 10 12); [ | reflexivity | reflexivity | reflexivity ].
  cbn [obind app wdns_u16_bytes]. zfold.
  change (Z.lor (Z.land fl 34815) (Z.land (Z.shiftl opc 11) 30720)) with (wdns_flags_word fl opc).
  remember (wdns_flags_word fl opc) as W eqn:EW.
  set (H12 := [(id / 256) mod 256; id mod 256; (W / 256) mod 256; W mod 256; 0; 1; 0; 0; 0; 0; 0; 0]).
  change ((id / 256) mod 256 :: id mod 256 :: (W / 256) mod 256 :: W mod 256 :: 0 :: 1 :: 0 :: 0 :: 0 :: 0 :: 0 :: 0 :: tn ++ [x; x0; x1; x2])
    with (H12 ++ (tn ++ [x; x0; x1; x2])).
  unfold wdns_payload, wdns_f_HEADER_END.
  replace (wdns_len (H12 ++ (tn ++ [x; x0; x1; x2]))) with (wdns_len H12 + wdns_len (tn ++ [x; x0; x1; x2]))
    by (rewrite !wdns_len_app; reflexivity).
  change 12 with (wdns_len H12) at 1. rewrite wdns_slice_tail. cbn [obind].
  unfold wdns_question_emit. cbn [q_name q_type].
  change (tn ++ [x; x0; x1; x2]) with ([] ++ tn ++ [x; x0; x1; x2]) at 1.
  change 0 with (wdns_len (@nil Z)) at 1.
  rewrite wdns_write_mid by (unfold wdns_len; lia). cbn [obind app].
  change (name ++ [x; x0; x1; x2]) with (name ++ [x; x0] ++ [x1; x2]).
  rewrite wdns_write_mid by reflexivity. cbn [obind].
  replace (wdns_len name + 2) with (wdns_len (name ++ wdns_u16_bytes ty)) by (rewrite wdns_len_app; reflexivity).
  rewrite app_assoc. rewrite wdns_write_tail by reflexivity. cbn [obind].
  change 12 with (wdns_len H12).
  rewrite wdns_write_tail.
  2:{ rewrite !wdns_len_app. unfold wdns_len in *. cbn [length wdns_u16_bytes]. lia. }
  subst H12. cbn [app]. rewrite <- !app_assoc. reflexivity.
Qed.

Lemma wdns_parse_name_part_go_app : forall fuel fuel' name rest p,
  wdns_parse_name_part_go fuel name = Ok ([], p) -> (length (name ++ rest) < fuel')%nat ->
  wdns_parse_name_part_go fuel' (name ++ rest) = Ok (rest, p).
Proof.
  induction fuel as [|fuel IH]; intros fuel' name rest p H Hf; [discriminate H|].
  destruct fuel' as [|fuel']; [lia|].
  cbn [wdns_parse_name_part_go] in *.
  destruct name as [|x n1]; [discriminate H|]. cbn [app].
  destruct (x =? 0).
  { injection H as -> <-. reflexivity. }
  destruct (Z.land x 192 =? 0).
  - destruct (wdns_get_to n1 (Z.land x 63)) as [label|] eqn:G; [|discriminate H].
    apply wdns_get_to_inv in G. destruct G as (G1 & _ & _).
    destruct (wdns_slice n1 (Z.land x 63) (wdns_len n1)) as [r1| |] eqn:E; cbn [obind] in H; try discriminate H.
    destruct (wdns_slice_to_end _ _ _ E) as (pre & Hb & Hl). subst n1.
    unfold wdns_get_to. rewrite !wdns_len_app in *.
    pose proof (wdns_len_nonneg rest). pose proof (wdns_len_nonneg r1). pose proof (wdns_len_nonneg pre).
    replace ((0 <=? Z.land x 63) && (Z.land x 63 <=? wdns_len pre + wdns_len r1 + wdns_len rest)) with true
      by (symmetry; apply andb_true_iff; split; apply Z.leb_le; lia).
    rewrite <- app_assoc. rewrite <- Hl.
    replace (wdns_len pre + wdns_len r1 + wdns_len rest) with (wdns_len pre + wdns_len (r1 ++ rest))
      by (rewrite wdns_len_app; lia).
    rewrite wdns_slice_tail. cbn [obind].
    apply (IH fuel' r1 rest p H).
    cbn [length app] in Hf. rewrite !app_length in *. lia.
  - destruct (Z.land x 192 =? 192); [|discriminate H].
    destruct n1 as [|y n2]; [discriminate H|]. injection H as -> <-. reflexivity.
Qed.

Lemma wdns_parse_name_part_app name rest p :
  wdns_parse_name_part name = Ok ([], p) -> wdns_parse_name_part (name ++ rest) = Ok (rest, p).
Proof. intros H. unfold wdns_parse_name_part in *. apply (wdns_parse_name_part_go_app _ _ _ _ _ H). lia. Qed.

(* the flags word by mask algebra (the two masks 0x87ff and 0x7800 are disjoint); the opcode part by
   evaluation over its 16 values *)
Lemma wdns_opc_bits : forall o, 0 <= o < 16 -> Z.land (Z.shiftr (Z.land (Z.shiftl o 11) 30720) 11) 15 = o.
Proof. by_range1 16%nat. Qed.

Lemma wdns_flags_word_spec f o : 0 <= o < 16 ->
  Z.land (wdns_flags_word f o) wdns_FLAGS_ALL = Z.land f wdns_FLAGS_ALL /\
  Z.land (Z.shiftr (wdns_flags_word f o) 11) 15 = o /\
  0 <= wdns_flags_word f o < 65536.
Proof.
  intros Ho. unfold wdns_flags_word, wdns_FLAGS_ALL. zfold. split; [|split].
  - rewrite Z.land_lor_distr_l, <- !Z.land_assoc. cfold. rewrite Z.land_0_r, Z.lor_0_r. reflexivity.
  - rewrite Z.shiftr_lor, Z.land_lor_distr_l. rewrite Z.shiftr_land, <- Z.land_assoc. cfold.
    rewrite Z.land_0_r, Z.lor_0_l. apply wdns_opc_bits. exact Ho.
  - set (W := Z.lor (Z.land f 34815) (Z.land (Z.shiftl o 11) 30720)).
    assert (E : Z.land W 65535 = W).
    { subst W. rewrite Z.land_lor_distr_l, <- !Z.land_assoc. cfold. reflexivity. }
    change 65535 with (Z.ones 16) in E. rewrite Z.land_ones in E by lia.
    pose proof (Z.mod_pos_bound W (2 ^ 16) ltac:(lia)) as B. rewrite E in B. change (2 ^ 16) with 65536 in B. exact B.
Qed.

(* a query representation within its field ranges; the name is a complete encoded name (labels ending in the
   root label or in a compression pointer): Question::parse reads exactly it *)
Definition wdns_repr_wf (r : wdns_repr) : Prop :=
  0 <= rp_transaction_id r < 65536 /\ 0 <= rp_flags r < 65536 /\ 0 <= rp_opcode r < 16 /\
  0 <= q_type (rp_question r) < 65536 /\
  exists p, wdns_parse_name_part (q_name (rp_question r)) = Ok ([], p).

Lemma wdns_repr_roundtrip r buf :
  wdns_repr_wf r -> wdns_len buf = wdns_repr_buffer_len r ->
  exists b,
    wdns_repr_emit r buf = Ok b /\ b = wdns_repr_bytes r /\
    wdns_check_len b = Ok tt /\
    wdns_transaction_id b = Ok (rp_transaction_id r) /\
    wdns_flags b = Ok (Z.land (rp_flags r) wdns_FLAGS_ALL) /\
    wdns_opcode b = Ok (rp_opcode r) /\
    wdns_question_count b = Ok 1 /\ wdns_answer_record_count b = Ok 0 /\
    wdns_authority_record_count b = Ok 0 /\ wdns_additional_record_count b = Ok 0 /\
    (do pl <- wdns_payload b; wdns_question_parse pl) = Ok ([], rp_question r).
Proof.
  intros (Hid & Hfl & Hop & Hty & p & Hnm) Hl.
  exists (wdns_repr_bytes r). split; [apply wdns_repr_emit_exact; assumption|]. split; [reflexivity|].
  destruct r as [id opc fl [name ty]]. cbn [rp_transaction_id rp_opcode rp_flags rp_question q_name q_type] in *.
  destruct (wdns_flags_word_spec fl opc Hop) as (W1 & W2 & W3).
  unfold wdns_repr_bytes. cbn [rp_transaction_id rp_opcode rp_flags rp_question q_name q_type].
  remember (wdns_flags_word fl opc) as W eqn:EW.
  pose proof (wdns_len_nonneg name) as Hn.
  set (rest := name ++ wdns_u16_bytes ty ++ wdns_u16_bytes wdns_CLASS_IN).
  unfold wdns_u16_bytes. cbn [app].
  unfold wdns_check_len, wdns_transaction_id, wdns_flags, wdns_opcode, wdns_flags_raw, wdns_question_count,
    wdns_answer_record_count, wdns_authority_record_count, wdns_additional_record_count,
    wdns_f_ID, wdns_f_FLAGS, wdns_f_QDCOUNT, wdns_f_ANCOUNT, wdns_f_NSCOUNT, wdns_f_ARCOUNT, wdns_f_HEADER_END.
  split.
  { replace (wdns_len _ <? 12) with false; [reflexivity|]. symmetry. apply Z.ltb_ge.
    unfold wdns_len. cbn [length]. lia. }
  split. { erewrite (wdns_field16_at _ [] _ _ _ 0 2); [ | reflexivity | reflexivity | reflexivity ]. f_equal. lia. }
  split. { erewrite (wdns_field16_at _ [_; _] _ _ _ 2 4); [ | reflexivity | reflexivity | reflexivity ].
           cbn [obind]. rewrite (wdns_u16_bytes_be W) by lia. rewrite W1. reflexivity. }
  split. { erewrite (wdns_field16_at _ [_; _] _ _ _ 2 4); [ | reflexivity | reflexivity | reflexivity ].
           cbn [obind]. rewrite (wdns_u16_bytes_be W) by lia. rewrite W2. reflexivity. }
  split. { erewrite (wdns_field16_at _ [_; _; _; _] _ _ _ 4 6); [ | reflexivity | reflexivity | reflexivity ]. reflexivity. }
  split. { erewrite (wdns_field16_at _ [_; _; _; _; _; _] _ _ _ 6 8); [ | reflexivity | reflexivity | reflexivity ]. reflexivity. }
  split. { erewrite (wdns_field16_at _ [_; _; _; _; _; _; _; _] _ _ _ 8 10); [ | reflexivity | reflexivity | reflexivity ]. reflexivity. }
  split. { erewrite (wdns_field16_at _ [_; _; _; _; _; _; _; _; _; _] _ _ _ 10 12); [ | reflexivity | reflexivity | reflexivity ]. reflexivity. }
  (* the question *)
  unfold wdns_payload, wdns_f_HEADER_END.
  set (H12 := [(id / 256) mod 256; id mod 256; (W / 256) mod 256; W mod 256; 0; 1; 0; 0; 0; 0; 0; 0]).
  change ((id / 256) mod 256 :: id mod 256 :: (W / 256) mod 256 :: W mod 256 :: 0 :: 1 :: 0 :: 0 :: 0 :: 0 :: 0 :: 0 :: rest)
    with (H12 ++ rest).
  replace (wdns_len (H12 ++ rest)) with (wdns_len H12 + wdns_len rest) by (rewrite wdns_len_app; reflexivity).
  change 12 with (wdns_len H12) at 1. rewrite wdns_slice_tail. cbn [obind].
  subst rest. unfold wdns_question_parse.
  rewrite (wdns_parse_name_part_app name _ p Hnm). cbn [obind].
  set (tl4 := wdns_u16_bytes ty ++ wdns_u16_bytes wdns_CLASS_IN).
  replace (wdns_len (name ++ tl4) - wdns_len tl4) with (wdns_len (@nil Z) + wdns_len name)
    by (rewrite wdns_len_app; unfold wdns_len at 1; cbn [length]; lia).
  change (name ++ tl4) with ([] ++ name ++ tl4) at 1. change 0 with (wdns_len (@nil Z)) at 1.
  rewrite wdns_slice_mid. cbn [obind].
  subst tl4. unfold wdns_u16_bytes, wdns_CLASS_IN. cbn [app].
  replace (wdns_len [(ty / 256) mod 256; ty mod 256; (1 / 256) mod 256; 1 mod 256] <? 4) with false by reflexivity.
  cbv [wdns_slice wdns_len length Z.of_nat Pos.of_succ_nat Pos.succ andb Z.leb Z.compare Pos.compare Pos.compare_cont Z.sub Z.opp Z.add Z.pos_sub Z.to_nat Pos.to_nat Pos.iter_op Nat.add skipn firstn Z.succ_double Z.pred_double Z.double Pos.pred_double].
  cbn [obind wdns_be16]. zfold. cbn [negb]. rewrite (wdns_u16_bytes_be ty) by lia. reflexivity.
Qed.
