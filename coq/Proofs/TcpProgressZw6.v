(* C02 (liveness half): FROM net_init TO DELIVERY on one reliable schedule, ZERO WINDOWS INCLUDED.
   handshake_completes_rel   handshake_completes (Proofs/TcpProgressHsLive2.v) again, for a schedule that is
                             fair and delivers nothing twice from net_init on: the rest of the run is again
                             reliable, with its bookkeeping
   transfer_zw_from_net_init within 3 Dt both sockets are ESTABLISHED, and every octet written by then is
                             handed to B's application within n * (3 RTTE_MAX_RTO + 3 Dt + Da) more.
   Premises about the states of the run: [zregime] = the window B advertises in SYN-RECEIVED is open (the
   handshake theorem's premise) and, once both are ESTABLISHED, [zextra].  No "window open" premise for the
   data phase. *)
From SV Require Import Lib.Base Gen.Consts.
From SV Require Import Model.Seq32 Model.Assembler Model.TcpBuf Model.TcpTypes Model.Tcp Model.TcpNet.
From SV Require Import Proofs.TcpSendBase Proofs.TcpLiveBase Proofs.TcpLiveProofs Proofs.TcpLiveMore
  Proofs.TcpLiveProgress.
From SV Require Import Proofs.TcpNetBase.
From SV Require Proofs.TcpNetInv.
From SV Require Import Proofs.TcpProgressBase Proofs.TcpProgressFrame Proofs.TcpProgressCtl Proofs.TcpProgressRecv
  Proofs.TcpProgressSend Proofs.TcpProgressNet Proofs.TcpProgressData Proofs.TcpProgressAck
  Proofs.TcpProgressAll Proofs.TcpProgressSafe Proofs.TcpProgressHs Proofs.TcpProgressHsD Proofs.TcpProgressHsNet
  Proofs.TcpProgressHsInit Proofs.TcpProgressHsLive Proofs.TcpProgressHsLive2
  Proofs.TcpProgressZwp Proofs.TcpProgressExample Proofs.TcpProgressWitness Proofs.TcpProgressZwDup
  Proofs.TcpProgressZw1 Proofs.TcpProgressZw1b Proofs.TcpProgressZw2 Proofs.TcpProgressZw3 Proofs.TcpProgressZw4
  Proofs.TcpProgressZw5.

Module NV6 := TcpNetInv.

(* the delivery theorem with the bookkeeping of a run already in progress *)
Theorem oneway_delivery_zw_fa x Dt Da Dack : forall n evs fa st st' L0,
  reach st -> reg x Dack st -> opts_ok st ->
  0 <= Dt -> 0 <= Da -> dl_sync Da fa st -> dlb Dt fa st ->
  fair_run Dt Da fa st evs -> once_run Dt Da fa st evs ->
  Forall (app_ev x) evs -> net_run st evs = Ok st' ->
  (forall z, l_len (ep_written (net_get st' z)) < 2 ^ 30) ->
  run_all (zextra x) st evs ->
  L0 <= l_len (ep_written (net_get st x)) ->
  Z.max 0 (L0 - una_off (net_get st x)) + Z.max 0 (L0 - read_off (net_get st (side_other x))) <= Z.of_nat n ->
  net_now st x + Z.of_nat n * Wz Dt Da < net_now st' x ->
  exists pre post st1, evs = pre ++ post /\ net_run st pre = Ok st1 /\ net_run st1 post = Ok st' /\
                       L0 <= read_off (net_get st1 (side_other x)).
Proof.
  intros n evs fa st st' L0 Hre HG Ho HDt HDa Hsy Hb Hfair Honce Happ Hrun Hsz Hzx HL Hn Hlate.
  pose proof (reach_NI st Hre) as HN.
  assert (Hsm : NV6.small st').
  { split; [specialize (Hsz SA) | specialize (Hsz SB)]; cbn [net_get] in Hsz;
      change (2 ^ 30) with 1073741824 in Hsz; lia. }
  pose proof (zsafe2_run x Dack evs st st' Hre HN Ho HG (script_of_fair x Dt Da _ _ _ _ Hfair Hrun Happ)
                Hrun Hsm (Hsz x) Hzx) as HR.
  exact (all_written_bytes_eventually_delivered_zw x Dt Da Dack n evs fa st st' L0 HDt HDa HN Ho
           Hsy Hb HR Hfair Honce Hrun HL Hn Hlate).
Qed.

Section CompleteRel.
Variables Dt Da Dack : Z.
Variables ca cb : ep_config.
Variable st0 : net.
Hypothesis Hstart : start_ok Dack ca cb st0.

Let isn := cx_isn (ep_cx (n_a st0)).

Theorem handshake_completes_rel : forall evs st',
  reliable_schedule Dt Da st0 evs -> Forall (app_ev SA) evs -> net_run st0 evs = Ok st' -> NV6.small st' ->
  run_all syn_win_open st0 evs ->
  net_now st0 SA + 3 * Dt < net_now st' SA ->
  exists pre post fa1 st1,
    evs = pre ++ post /\ net_run st0 pre = Ok st1 /\ net_run st1 post = Ok st' /\
    reg SA Dack st1 /\ reach st1 /\ opts_ok st1 /\
    dl_sync Da fa1 st1 /\ dlb Dt fa1 st1 /\ fair_run Dt Da fa1 st1 post /\ once_run Dt Da fa1 st1 post /\
    net_now st1 SA <= net_now st0 SA + 3 * Dt.
Proof.
  intros evs st' ((HDt & HDa & Ho & Hfair) & Honce) Happ Hrun Hsm Hwin Hlate.
  pose proof Hstart as (Hi & Hst0 & Ga & Gb & Pa & Pb & Haddr & Hdel).
  destruct (hs_init ca cb st0 isn Dack Hi Hst0 Pa Pb Haddr Hdel) as (HP0 & Ho0).
  pose proof (hsr_run_all Dack ca cb st0 Hstart evs [] st0 st' eq_refl (or_introl HP0) Ho0 Happ Hrun Hsm) as HRall.
  pose proof (run_all_and _ _ evs st0 HRall Hwin) as HR2. change (run_all (R2 isn Dack) st0 evs) in HR2.
  set (dk := net_now st0 SB - net_now st0 SA). set (T0 := net_now st0 SA).
  assert (HJ0 : J1 Dt Da T0 dk (fa_init Dt Da st0) st0).
  { unfold net_started in Hst0. apply andb_true_iff in Hst0. destruct Hst0 as (S1 & S2).
    apply state_eqb_eq in S1. apply state_eqb_eq in S2.
    split.
    - split; [apply fa_init_sync|]. split; [reflexivity|]. split; [exact S1|]. left.
      split; [exact S2|]. split; [|unfold T0; lia].
      destruct Pa as (_ & Ka). apply (init_needs_tx ca cb st0 Hi); [|exact Ka].
      unfold net_started. rewrite S1, S2. reflexivity.
    - destruct Pa as (_ & Ka). unfold ndw. rewrite (init_adt ca cb st0 Hi); [exact I | | exact Ka].
      unfold net_started. rewrite S1, S2. reflexivity. }
  destruct (Z_le_gt_dec (net_now st' SA) (T0 + 2 * Dt)) as [Hle | Hgt]; [unfold T0 in *; lia|].
  destruct (rel_leads Dt Da (R2 isn Dack) (fun fa s => J1 Dt Da T0 dk fa s /\ dlb Dt fa s)
              (fun fa s => Q1 Dt Da st0 T0 dk fa s /\ dlb Dt fa s) SA (T0 + 2 * Dt)
              (fun fa st HJ => J1_clock Dt Da _ _ fa st HDt (proj1 HJ))
              (fun fa st ev st1 HR HR' HJ Hfe _ Hs =>
                 match J1_step Dt Da Dack st0 _ _ fa st ev st1 HDt HR HR' (proj1 HJ) Hfe Hs with
                 | or_introl X => or_introl (conj X (dlb_after Dt Da _ _ _ _ HDt (proj2 HJ) Hfe Hs))
                 | or_intror X => or_intror (conj X (dlb_after Dt Da _ _ _ _ HDt (proj2 HJ) Hfe Hs))
                 end)
              evs _ st0 st' (conj HJ0 (dlb_init Dt Da st0 HDt)) HR2 Hfair Honce Hrun ltac:(lia))
    as (pre1 & post1 & fa1 & st1 & E1 & Hp1 & Hp2 & HR2' & Hf1 & Ho1 & (HQ1 & Hb1) & _).
  destruct HQ1 as ((Hea & Heb & Hnd & Hfr & Hod) & Hsy1 & Hdk1 & Hc1).
  assert (HJg : Jg isn Dt Da (T0 + 2 * Dt) dk fa1 st1).
  { split; [exact Hsy1|]. split; [exact Hdk1|]. split; [exact Hea|]. split; [exact Heb|]. left. auto. }
  destruct (rel_leads Dt Da (R2 isn Dack) (fun fa s => Jg isn Dt Da (T0 + 2 * Dt) dk fa s /\ dlb Dt fa s)
              (fun fa s => Qg Dack fa s /\ dlb Dt fa s) SA (T0 + 2 * Dt + Dt)
              (fun fa st HJ => Jg_clock isn Dt Da _ _ fa st HDt (proj1 HJ))
              (fun fa st ev st2 HR HR' HJ Hfe _ Hs =>
                 match Jg_step isn Dack Dt Da _ _ fa st ev st2 HDt HR HR' (proj1 HJ) Hfe Hs with
                 | or_introl X => or_introl (conj X (dlb_after Dt Da _ _ _ _ HDt (proj2 HJ) Hfe Hs))
                 | or_intror X => or_intror (conj X (dlb_after Dt Da _ _ _ _ HDt (proj2 HJ) Hfe Hs))
                 end)
              post1 _ st1 st' (conj HJg Hb1) HR2' Hf1 Ho1 Hp2 ltac:(unfold T0 in *; lia))
    as (pre2 & post2 & fa2 & st2 & E2 & Hq1 & Hq2 & HR2'' & Hf2 & Ho2 & (HQ2 & Hb2) & (fa0 & stp & ev0 & (HJp & _) & HRp & Hfep & Hsp & Efa)).
  exists (pre1 ++ pre2), post2, fa2, st2.
  split; [rewrite E1, E2, app_assoc; reflexivity|].
  assert (Hrun2 : net_run st0 (pre1 ++ pre2) = Ok st2) by (eapply net_run_app; eassumption).
  split; [exact Hrun2|]. split; [exact Hq2|]. split; [exact HQ2|].
  split; [exists ca, cb, st0, (pre1 ++ pre2); auto|].
  pose proof (run_all_here _ _ _ HR2'') as ((_ & _ & _ & Hoo2) & _).
  split; [exact Hoo2|].
  split.
  { subst fa2. destruct HJp as (Hsyp & _). exact (fa_after_sync Dt Da _ _ _ _ Hsyp Hfep Hsp). }
  split; [exact Hb2|]. split; [exact Hf2|]. split; [exact Ho2|].
  pose proof (Jg_clock isn Dt Da _ _ fa0 stp HDt HJp) as Hcp.
  rewrite (net_step_now _ _ _ SA Hsp). destruct ev0; try (unfold T0 in *; lia).
  exfalso. pose proof (net_step_tick _ _ _ Hsp) as E. subst st2.
  destruct HJp as (_ & _ & _ & X0 & _). pose proof (rg_est _ _ _ HQ2 SB) as X1.
  assert (Es : net_sock (tick_net stp d) SB = net_sock stp SB) by reflexivity. rewrite Es, X0 in X1. discriminate.
Qed.

End CompleteRel.

(* the premises about the states of the run: the window B advertises in SYN-RECEIVED is open (premise of
   the handshake theorem), and once both are ESTABLISHED the two facts of [zextra] *)
Definition zregime (Dack : Z) (st : net) : Prop :=
  syn_win_open st /\ (reg SA Dack st -> zextra SA st).

Theorem transfer_zw_from_net_init Dt Da Dack ca cb st0 : forall evs st',
  start_ok Dack ca cb st0 ->
  reliable_schedule Dt Da st0 evs -> Forall (app_ev SA) evs -> net_run st0 evs = Ok st' ->
  (forall z, l_len (ep_written (net_get st' z)) < 2 ^ 30) ->
  run_all (zregime Dack) st0 evs ->
  net_now st0 SA + 3 * Dt < net_now st' SA ->
  exists pre post st1,
    evs = pre ++ post /\ net_run st0 pre = Ok st1 /\ net_run st1 post = Ok st' /\
    (forall z, s_state (net_sock st1 z) = Established) /\ net_now st1 SA <= net_now st0 SA + 3 * Dt /\
    forall L0 n,
      L0 <= l_len (ep_written (net_get st1 SA)) ->
      Z.max 0 (L0 - una_off (net_get st1 SA)) + Z.max 0 (L0 - read_off (net_get st1 SB)) <= Z.of_nat n ->
      net_now st1 SA + Z.of_nat n * Wz Dt Da < net_now st' SA ->
      exists p1 p2 st2, post = p1 ++ p2 /\ net_run st1 p1 = Ok st2 /\ net_run st2 p2 = Ok st' /\
                        L0 <= read_off (net_get st2 SB).
Proof.
  intros evs st' Hstart Hrel Happ Hrun Hsz Hreg Hlate.
  assert (Hsm : NV6.small st').
  { split; [specialize (Hsz SA) | specialize (Hsz SB)]; cbn [net_get] in Hsz;
      change (2 ^ 30) with 1073741824 in Hsz; lia. }
  assert (Hsyn : run_all syn_win_open st0 evs).
  { apply (run_all_mp (zregime Dack)); [exact Hreg|].
    clear. generalize st0. induction evs as [|ev r IH]; intros st; cbn [run_all].
    - split; [intros (X & _); exact X | exact I].
    - split; [intros (X & _); exact X|]. destruct (net_step st ev); [apply IH | exact I | exact I]. }
  destruct (handshake_completes_rel Dt Da Dack ca cb st0 Hstart evs st' Hrel Happ Hrun Hsm Hsyn Hlate)
    as (pre & post & fa1 & st1 & E & Hp1 & Hp2 & HG & Hre & Ho1 & Hsy1 & Hb1 & Hf1 & Hon1 & Hc1).
  exists pre, post, st1. split; [exact E|]. split; [exact Hp1|]. split; [exact Hp2|].
  split; [exact (rg_est _ _ _ HG)|]. split; [exact Hc1|].
  intros L0 n HL Hn Hlate2.
  destruct Hrel as ((HDt & HDa & _) & _).
  assert (Happ2 : Forall (app_ev SA) post) by (rewrite E in Happ; apply Forall_app in Happ; apply Happ).
  assert (Hzx : run_all (zextra SA) st1 post).
  { rewrite E in Hreg. pose proof (run_all_app _ pre post st0 st1 Hp1 Hreg) as Hreg1.
    pose proof (reg_run_all SA Dack post st1 st' Hre (reach_NI _ Hre) Ho1 HG Happ2 Hp2 Hsm) as HGall.
    apply (run_all_mp (reg SA Dack)); [exact HGall|].
    apply (run_all_mp (zregime Dack)); [exact Hreg1|].
    clear. generalize st1. induction post as [|ev r IH]; intros st; cbn [run_all].
    - split; [intros (_ & X); exact X | exact I].
    - split; [intros (_ & X); exact X|]. destruct (net_step st ev); [apply IH | exact I | exact I]. }
  exact (oneway_delivery_zw_fa SA Dt Da Dack n post fa1 st1 st' L0 Hre HG Ho1 HDt HDa Hsy1 Hb1 Hf1 Hon1
           Happ2 Hp2 Hsz Hzx HL Hn Hlate2).
Qed.

(* ALL WRITTEN OCTETS ARE DELIVERED, from net_init, AFTER ANY FAULT PREFIX: A connects to B and is the only
   writer, nobody closes.  After any prefix (losses, duplicates, reordering, any clock) that ends with both
   sockets ESTABLISHED, on every reliable schedule every octet written is handed to B's application within
   the bound - zero windows included.  Premises: the two configurations, the applications, both ESTABLISHED
   after the prefix, and [zextra] along the reliable part. *)
Theorem oneway_delivery_zw_from_net_init Dt Da Dack ca cb st0 : forall n pre evs st st' L0,
  start_ok Dack ca cb st0 ->
  Forall (app_ev SA) pre -> net_run st0 pre = Ok st ->
  (forall z, s_state (net_sock st z) = Established) ->
  reliable_schedule Dt Da st evs ->
  Forall (app_ev SA) evs -> net_run st evs = Ok st' ->
  (forall z, l_len (ep_written (net_get st' z)) < 2 ^ 30) ->
  run_all (zextra SA) st evs ->
  L0 <= l_len (ep_written (net_get st SA)) ->
  Z.max 0 (L0 - una_off (net_get st SA)) + Z.max 0 (L0 - read_off (net_get st SB)) <= Z.of_nat n ->
  net_now st SA + Z.of_nat n * Wz Dt Da < net_now st' SA ->
  exists p1 p2 st1, evs = p1 ++ p2 /\ net_run st p1 = Ok st1 /\ net_run st1 p2 = Ok st' /\
                    L0 <= read_off (net_get st1 SB).
Proof.
  intros n pre evs st st' L0 Hstart Hpa Hpre Hest Hrel Happ Hrun Hsz Hzx HL Hn Hlate.
  assert (Hsm' : NV6.small st').
  { split; [specialize (Hsz SA) | specialize (Hsz SB)]; cbn [net_get] in Hsz;
      change (2 ^ 30) with 1073741824 in Hsz; lia. }
  assert (Hsm : NV6.small st) by exact (NV6.small_mono _ _ (net_run_mono _ _ _ Hrun) Hsm').
  destruct (reg_of_established Dack ca cb st0 pre st Hstart Hpa Hpre Hsm Hest) as (HG & _ & Hre).
  exact (oneway_delivery_zw SA Dt Da Dack n evs st st' L0 Hre HG Hrel Happ Hrun Hsz Hzx HL Hn Hlate).
Qed.
