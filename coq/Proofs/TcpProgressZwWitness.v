(* C02 (liveness half), step 4: NON-VACUITY of zero_window_reopens_from_established
   (Proofs/TcpProgressZw3.v).  From net_init: handshake, A writes 12 octets into B's 8-octet window, B
   acknowledges with window 0, B's application reads, B's WINDOW UPDATE IS LOST (and whatever else is on
   the wire is dropped): A believes the window closed, 4 octets queued, probe timer at 1 s.  On the
   reliable suffix the probe goes out at 1 s, B accepts it, and so on; every premise of the theorem
   holds (checked by sound decision procedures), and it yields the progress state. *)
From SV Require Import Lib.Base Gen.Consts.
From SV Require Import Model.Seq32 Model.Assembler Model.TcpBuf Model.TcpTypes Model.Tcp Model.TcpNet.
From SV Require Import Proofs.TcpSendBase Proofs.TcpLiveBase Proofs.TcpLiveProofs Proofs.TcpLiveMore
  Proofs.TcpLiveProgress.
From SV Require Import Proofs.TcpNetBase.
From SV Require Proofs.TcpNetInv.
From SV Require Import Proofs.TcpProgressBase Proofs.TcpProgressFrame Proofs.TcpProgressCtl Proofs.TcpProgressRecv
  Proofs.TcpProgressSend Proofs.TcpProgressNet Proofs.TcpProgressData Proofs.TcpProgressAck Proofs.TcpProgressAll
  Proofs.TcpProgressSafe Proofs.TcpProgressExample Proofs.TcpProgressWitness Proofs.TcpProgressSafeWitness
  Proofs.TcpProgressZwDup Proofs.TcpProgressZw1 Proofs.TcpProgressZw2 Proofs.TcpProgressZw3.

Lemma zcfg_good : cfg_good zcfg_a /\ cfg_good zcfg_b.
Proof.
  unfold cfg_good, TcpNetInv.cfg_ok, zcfg_a, zcfg_b. cbn [c_tx_storage c_mtu c_cc c_now cc_ok].
  split; (split; [split; [vm_compute; discriminate | split; [lia|]] | lia]); [apply reno_new_pos | exact I].
Qed.

Definition zww_prefix : list net_event :=
  [NPoll SA true; NDeliver SB 0; NPoll SB true; NDeliver SA 0; NPoll SA true; NDeliver SB 1;
   NSend SA [1;2;3;4;5;6;7;8;9;10;11;12]; NPoll SA true; NDeliver SB 2; NPoll SB true;
   NDeliver SA 1; NRecv SB 8; NPoll SB true;
   NDrop SA 2; NDrop SA 1; NDrop SA 0; NDrop SB 2; NDrop SB 1; NDrop SB 0].

Definition zww_suffix : list net_event :=
  [NTick 1000000; NPoll SA true; NDeliver SB 0; NPoll SB true; NDeliver SA 0; NPoll SA true; NDeliver SB 1;
   NPoll SB true; NDeliver SA 1; NRecv SB 8; NPoll SB true; NDeliver SA 2; NTick 200000000].

Definition zextrab (st : net) : bool :=
  (if timer_is_zero_window_probe (s_timer (net_sock st SA))
   then s_remote_last_seq (net_sock st SA) =? s_local_seq_no (net_sock st SA) else true) &&
  (if rb_len (s_rx_buffer (net_sock st SB)) =? 0 then 0 <? tcp_scaled_window (net_sock st SB) else true).

Lemma zextrab_sound st : zextrab st = true -> zextra SA st.
Proof.
  unfold zextrab, zextra. cbn [side_other]. intros H. apply andb_true_iff in H. destruct H as (H1 & H2). split.
  - intros Hz. rewrite Hz in H1. apply Z.eqb_eq. exact H1.
  - intros He. rewrite He in H2. cbn [Z.eqb] in H2. apply Z.ltb_lt. exact H2.
Qed.

Fixpoint run_zextrab (st : net) (evs : list net_event) : bool :=
  zextrab st &&
  match evs with
  | [] => true
  | ev :: rest => match net_step st ev with Ok st' => run_zextrab st' rest | _ => true end
  end.

Lemma run_zextrab_sound evs : forall st, run_zextrab st evs = true -> run_all (zextra SA) st evs.
Proof.
  induction evs as [|ev r IH]; intros st H; cbn [run_zextrab run_all] in *;
    apply andb_true_iff in H; destruct H as (H1 & H2); (split; [apply zextrab_sound; exact H1|]); [exact I|].
  destruct (net_step st ev); try exact I. apply IH. exact H2.
Qed.

Definition zww_check (ca cb : ep_config) (pre suf : list net_event) (Dt Da Dack : Z) : bool :=
  match net_init ca cb with
  | Ok st0 =>
      match net_run st0 pre with
      | Ok st =>
          regb SA Dack st && opts_okb st && fair_runb Dt Da (fa_init Dt Da st) st suf &&
          once_runb Dt Da (fa_init Dt Da st) st suf && run_zextrab st suf && forallb (app_evb SA) suf &&
          (0 <? txl SA st) && (s_remote_win_len (net_sock st SA) =? 0) &&
          Nat.eqb (length (chan_to st SA)) 0 && (0 <=? Dt) && (0 <=? Da) &&
          match net_run st suf with
          | Ok st' => (net_now st SA + 2 * max_rto_us + 2 * Dt + Da <? net_now st' SA) &&
                      (l_len (ep_written (net_get st' SA)) <? 2 ^ 30) && (l_len (ep_written (net_get st' SB)) <? 2 ^ 30)
          | _ => false
          end
      | _ => false
      end
  | _ => false
  end.

Lemma zww_package ca cb pre suf Dt Da Dack :
  cfg_good ca -> cfg_good cb ->
  zww_check ca cb pre suf Dt Da Dack = true ->
  exists st0 st st',
    net_init ca cb = Ok st0 /\ net_run st0 pre = Ok st /\ net_run st suf = Ok st' /\
    reach st /\ reg SA Dack st /\ reliable_schedule Dt Da st suf /\ Forall (app_ev SA) suf /\
    run_all (zextra SA) st suf /\
    0 < txl SA st /\ s_remote_win_len (net_sock st SA) = 0 /\
    exists p1 p2 st1, suf = p1 ++ p2 /\ net_run st p1 = Ok st1 /\ net_run st1 p2 = Ok st' /\
                      Qz SA (una_off (net_get st SA)) (read_off (net_get st SB)) st1.
Proof.
  intros Ga Gb H. unfold zww_check in H.
  destruct (net_init ca cb) as [st0|e|] eqn:Ei; try discriminate.
  destruct (net_run st0 pre) as [st|e|] eqn:Ep; try discriminate.
  apply andb_true_iff in H. destruct H as (H & Hend).
  apply andb_true_iff in H. destruct H as (H & Hd2).
  apply andb_true_iff in H. destruct H as (H & Hd1).
  apply andb_true_iff in H. destruct H as (H & Hch).
  apply andb_true_iff in H. destruct H as (H & Hwin).
  apply andb_true_iff in H. destruct H as (H & Htl).
  apply andb_true_iff in H. destruct H as (H & Happ).
  apply andb_true_iff in H. destruct H as (H & Hzx).
  apply andb_true_iff in H. destruct H as (H & Honce).
  apply andb_true_iff in H. destruct H as (H & Hf).
  apply andb_true_iff in H. destruct H as (Hreg & Ho).
  destruct (net_run st suf) as [st'|e|] eqn:Es; try discriminate.
  apply andb_true_iff in Hend. destruct Hend as (Hend & Hsb).
  apply andb_true_iff in Hend. destruct Hend as (Hclk & Hsa).
  apply Z.leb_le in Hd1, Hd2. apply Z.ltb_lt in Htl, Hclk, Hsa, Hsb. apply Z.eqb_eq in Hwin. apply Nat.eqb_eq in Hch.
  assert (Hre : reach st) by (exists ca, cb, st0, pre; auto).
  pose proof (regb_sound SA Dack st Hreg) as HG.
  pose proof (opts_okb_sound _ Ho) as Hoo. pose proof (fair_runb_sound _ _ _ _ _ Hf) as Hff.
  pose proof (proj1 (once_runb_iff _ _ _ _ _) Honce) as Hon.
  assert (Hrel : reliable_schedule Dt Da st suf).
  { split; [|exact Hon]. split; [lia|]. split; [lia|]. split; assumption. }
  pose proof (app_evb_sound SA suf Happ) as Ha.
  pose proof (run_zextrab_sound suf st Hzx) as Hz.
  assert (Hw : wpos SA (fa_init Dt Da st) st).
  { intros j q t Hn _. exfalso. destruct (chan_to st SA); [destruct j; discriminate | discriminate]. }
  exists st0, st, st'. split; [reflexivity|]. split; [exact Ep|]. split; [exact Es|].
  repeat (split; [assumption|]).
  apply (zero_window_reopens_from_established SA Dt Da Dack suf (fa_init Dt Da st) st st' Hre HG Hoo Hd1 Hd2
           (fa_init_sync Dt Da st) Hff Hon Ha Es); try assumption.
  intros z. destruct z; cbn [net_get] in *; lia.
Qed.

Lemma zww_check_ok : zww_check zcfg_a zcfg_b zww_prefix zww_suffix 5000 5000 10000 = true.
Proof. vm_compute. reflexivity. Qed.

(* the window update is lost in the prefix; on the reliable suffix the theorem applies *)
Theorem zero_window_reopens_applies :
  exists st0 st st',
    net_init zcfg_a zcfg_b = Ok st0 /\ net_run st0 zww_prefix = Ok st /\ net_run st zww_suffix = Ok st' /\
    reach st /\ reg SA 10000 st /\ reliable_schedule 5000 5000 st zww_suffix /\ Forall (app_ev SA) zww_suffix /\
    run_all (zextra SA) st zww_suffix /\
    0 < txl SA st /\ s_remote_win_len (net_sock st SA) = 0 /\
    exists p1 p2 st1, zww_suffix = p1 ++ p2 /\ net_run st p1 = Ok st1 /\ net_run st1 p2 = Ok st' /\
                      Qz SA (una_off (net_get st SA)) (read_off (net_get st SB)) st1.
Proof. destruct zcfg_good as (Ga & Gb). exact (zww_package _ _ _ _ _ _ _ Ga Gb zww_check_ok). Qed.
