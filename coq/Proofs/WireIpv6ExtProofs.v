(* Lemmas about Model/WireIpv6Ext.v (properties C06, C07). *)
From SV Require Import Lib.Base Gen.WireFields Model.WireBase Model.WireIpv6Ext
  Proofs.WireBaseProofs Proofs.Wire2Kit.

Definition v6ext_hdr (r : v6ext_repr) : list Z := [v6ext_nxt r; v6ext_length r].

(* ---------- C06 ---------- *)

Lemma v6ext_emit_spec r b : blen b = v6ext_buffer_len r -> v6ext_emit r b = Ok (v6ext_hdr r).
Proof. intros Hb. apply (blen_length _ 2) in Hb. cells Hb. reflexivity. Qed.

(* emitting into the front of a longer buffer leaves the rest untouched *)
Lemma v6ext_emit_frame r h t : blen h = v6ext_buffer_len r ->
  v6ext_emit r (h ++ t) = omap (fun x => x ++ t) (v6ext_emit r h).
Proof.
  intros Hh. unfold v6ext_buffer_len in Hh.
  unfold v6ext_emit, v6ext_set_next_header, v6ext_set_header_len. frame.
Qed.

Lemma v6ext_emit_no_panic r b : v6ext_wf r = true -> blen b = v6ext_buffer_len r -> v6ext_emit r b <> Panic.
Proof. intros; rewrite v6ext_emit_spec by assumption; discriminate. Qed.

Lemma v6ext_emit_ignores_old_bytes r b1 b2 : v6ext_wf r = true ->
  blen b1 = v6ext_buffer_len r -> blen b2 = v6ext_buffer_len r -> v6ext_emit r b1 = v6ext_emit r b2.
Proof. intros; rewrite !v6ext_emit_spec by assumption; reflexivity. Qed.

Lemma v6ext_wf_inv r : v6ext_wf r = true ->
  0 <= v6ext_nxt r < 256 /\ 0 <= v6ext_length r < 256 /\ bytes_ok (v6ext_data r) = true /\
  blen (v6ext_data r) = v6ext_length r * 8 + 6.
Proof. unfold v6ext_wf. intros H. bsplit. repeat split; try lia; assumption. Qed.

Lemma v6ext_emit_full_spec r b : v6ext_wf r = true -> blen b = v6ext_total_len r ->
  v6ext_emit_full r b = Ok (v6ext_hdr r ++ v6ext_data r).
Proof.
  intros Hwf Hb. apply v6ext_wf_inv in Hwf. destruct Hwf as (Hn & Hl & _ & Hd).
  unfold v6ext_total_len in Hb.
  destruct r as [n l d]; cbn [v6ext_nxt v6ext_length v6ext_data] in *.
  destruct (split_hdr b 2 ltac:(lia)) as (h & t & -> & Hh & Ht). zfold_in Hh.
  rewrite Hb in Ht. clear Hb.
  unfold v6ext_emit_full. rewrite v6ext_emit_frame by (unfold v6ext_buffer_len, blen; lia).
  rewrite v6ext_emit_spec by (unfold v6ext_buffer_len, blen; lia). cbn [omap obind].
  unfold v6ext_put_payload, v6ext_hdr, wb_set_field, v6ext_f_PAYLOAD; cbn [v6ext_nxt v6ext_length v6ext_data].
  zfold. cbn [fst snd].
  hstep. apply wb_set_slice_tail; autorewrite with blen; zfold; lia.
Qed.

Lemma v6ext_emit_full_no_panic r b : v6ext_wf r = true -> blen b = v6ext_total_len r ->
  v6ext_emit_full r b <> Panic.
Proof. intros; rewrite v6ext_emit_full_spec by assumption; discriminate. Qed.

Lemma v6ext_emit_full_ignores_old_bytes r b1 b2 : v6ext_wf r = true ->
  blen b1 = v6ext_total_len r -> blen b2 = v6ext_total_len r ->
  v6ext_emit_full r b1 = v6ext_emit_full r b2.
Proof. intros; rewrite !v6ext_emit_full_spec by assumption; reflexivity. Qed.

(* the header followed by its payload (and anything after it) parses back *)
Lemma v6ext_parse_bytes r rest : v6ext_wf r = true ->
  v6ext_parse (v6ext_hdr r ++ v6ext_data r ++ rest) = Ok r.
Proof.
  intros Hwf. apply v6ext_wf_inv in Hwf. destruct Hwf as (Hn & Hl & _ & Hd).
  destruct r as [n l d]; cbn [v6ext_nxt v6ext_length v6ext_data] in *.
  pose proof (blen_nonneg rest) as Hr.
  unfold v6ext_hdr; cbn [v6ext_nxt v6ext_length].
  unfold v6ext_parse, v6ext_check_len, v6ext_next_header, v6ext_header_len, v6ext_payload,
    wb_field, v6ext_f_PAYLOAD. zfold. cbn [fst snd].
  autorewrite with blen. zfold. zbool.
  hstep. zbool. cbn [obind]. hstep.
  rewrite wb_sub_app_r by (autorewrite with blen; zfold; lia).
  autorewrite with blen. zfold.
  rewrite wb_sub_app_l by lia.
  replace (2 - 2) with 0 by lia. replace (l * 8 + 8 - 2) with (blen d) by lia.
  rewrite <- (app_nil_l d) at 1. rewrite wb_sub_tail by (autorewrite with blen; lia).
  reflexivity.
Qed.

Lemma v6ext_roundtrip r b : v6ext_wf r = true -> blen b = v6ext_buffer_len r ->
  exists bs, v6ext_emit r b = Ok bs /\ blen bs = v6ext_buffer_len r /\
             forall rest, v6ext_parse (bs ++ v6ext_data r ++ rest) = Ok r.
Proof.
  intros Hwf Hb. exists (v6ext_hdr r). split; [apply v6ext_emit_spec; assumption|].
  split; [reflexivity|]. intros rest. apply v6ext_parse_bytes; assumption.
Qed.

Lemma v6ext_full_roundtrip r b : v6ext_wf r = true -> blen b = v6ext_total_len r ->
  exists bs, v6ext_emit_full r b = Ok bs /\ blen bs = v6ext_total_len r /\ v6ext_parse bs = Ok r.
Proof.
  intros Hwf Hb. exists (v6ext_hdr r ++ v6ext_data r).
  split; [apply v6ext_emit_full_spec; assumption|]. split.
  - apply v6ext_wf_inv in Hwf. destruct Hwf as (_ & _ & _ & Hd).
    rewrite blen_app, Hd. unfold v6ext_total_len, v6ext_hdr. autorewrite with blen. lia.
  - rewrite <- (app_nil_r (v6ext_data r)). apply v6ext_parse_bytes; assumption.
Qed.

(* ---------- C07 ---------- *)

Lemma v6ext_check_len_inv bs : bytes_ok bs = true -> v6ext_check_len bs = Ok tt ->
  exists l, wb_get_u8 bs wv6ext_f_LENGTH = Ok l /\ 0 <= l < 256 /\ l * 8 + 8 <= blen bs /\ 8 <= blen bs.
Proof.
  intros Hb. unfold v6ext_check_len, v6ext_f_PAYLOAD. zfold. cbn [snd].
  destruct (blen bs <? 8) eqn:E; [discriminate|]. bsplit.
  rewrite wb_get_u8_ok by lia. cbn [obind]. zfold.
  pose proof (bytes_ok_byte bs 1 Hb ltac:(lia)) as Hl. zfold_in Hl.
  case_if; [discriminate|]. bsplit. intros _. eexists; split; [reflexivity|]. lia.
Qed.

Lemma v6ext_accessors_safe bs : bytes_ok bs = true -> v6ext_check_len bs = Ok tt ->
  v6ext_next_header bs <> Panic /\ v6ext_header_len bs <> Panic /\ v6ext_payload bs <> Panic.
Proof.
  intros Hb H. destruct (v6ext_check_len_inv bs Hb H) as (l & Hl & Rl & L & L8).
  unfold v6ext_next_header, v6ext_header_len, v6ext_payload. rewrite Hl. cbn [obind]. zfold.
  repeat split; try discriminate.
  - apply wb_get_u8_nopanic; lia.
  - unfold wb_field, v6ext_f_PAYLOAD; cbn [fst snd]. apply wb_sub_nopanic; lia.
Qed.

Lemma v6ext_parse_total bs : bytes_ok bs = true -> v6ext_parse bs <> Panic.
Proof.
  intros Hb. unfold v6ext_parse.
  destruct (v6ext_check_len bs) as [[]| |] eqn:E; cbn [obind]; try discriminate.
  - destruct (v6ext_accessors_safe bs Hb E) as (A1 & A2 & A3). nopanic.
  - exfalso. revert E. unfold v6ext_check_len. zfold. destruct (blen bs <? 8) eqn:L; [discriminate|].
    bsplit. rewrite wb_get_u8_ok by (zfold; lia). cbn [obind]. case_if; discriminate.
Qed.

Lemma v6ext_parse_wf bs r : bytes_ok bs = true -> v6ext_parse bs = Ok r -> v6ext_wf r = true.
Proof.
  intros Hb H. unfold v6ext_parse in H.
  destruct (v6ext_check_len bs) as [[]| |] eqn:E; cbn [obind] in H; try discriminate.
  destruct (v6ext_check_len_inv bs Hb E) as (l & Hl & Rl & L & L8).
  unfold v6ext_next_header, v6ext_header_len, v6ext_payload in H. rewrite Hl in H. zfold_in H.
  rewrite wb_get_u8_ok in H by lia. cbn [obind] in H.
  unfold wb_field, v6ext_f_PAYLOAD in H; cbn [fst snd] in H.
  destruct (wb_sub_ok_len bs 2 (l * 8 + 8) ltac:(lia) ltac:(lia)) as (s & Hs & Ls & Bs).
  rewrite Hs in H. cbn [obind] in H. injection H as <-.
  unfold v6ext_wf, is_u8; cbn [v6ext_nxt v6ext_length v6ext_data].
  pose proof (bytes_ok_byte bs 0 Hb ltac:(lia)) as H0. rewrite (Bs Hb). zbool. reflexivity.
Qed.

Lemma v6ext_reparse bs r : bytes_ok bs = true -> v6ext_parse bs = Ok r ->
  v6ext_wf r = true /\
  forall b, blen b = v6ext_total_len r ->
    exists bs', v6ext_emit_full r b = Ok bs' /\ v6ext_parse bs' = Ok r.
Proof.
  intros Hb H. pose proof (v6ext_parse_wf bs r Hb H) as Hwf. split; [assumption|].
  intros b Hlen. destruct (v6ext_full_roundtrip r b Hwf Hlen) as (bs' & He & _ & Hp). eauto.
Qed.
