(* C02 (liveness half), quiescence, layer 2: THE VIEWS OF A QUIET PAIR, pointwise.
   In every state of the one-way regime (both ESTABLISHED, B has written nothing; C01's invariant) in which A's
   transmit queue is empty and B's application has read everything, and in which the static facts [qstatic]
   hold, both sockets have the view [qsock] of Proofs/TcpProgressCl10.v with
       SND.UNA(A) = SND.NXT(A) = RCV.NXT(B) = X      SND.UNA(B) = SND.NXT(B) = RCV.NXT(A) = Y
   and nothing beyond X / Y was ever sent.  Nothing here is about time. *)
From SV Require Import Lib.Base Gen.Consts.
From SV Require Import Model.Seq32 Model.Assembler Model.TcpBuf Model.TcpTypes Model.Tcp Model.TcpNet.
From SV Require Proofs.TcpRecvBase Proofs.TcpRecvInv Proofs.TcpRecvProcess Proofs.TcpRecvDispatch.
From SV Require Import Proofs.TcpSendBase Proofs.TcpLiveBase Proofs.TcpLiveProofs Proofs.TcpLiveMore
  Proofs.TcpLiveProgress.
From SV Require Import Proofs.TcpNetBase.
From SV Require Proofs.TcpSendInv Proofs.TcpNetCompose Proofs.TcpRecvTrace.
From SV Require Import Proofs.TcpProgressBase Proofs.TcpProgressFrame Proofs.TcpProgressCtl Proofs.TcpProgressRecv
  Proofs.TcpProgressSend Proofs.TcpProgressNet Proofs.TcpProgressData Proofs.TcpProgressAck
  Proofs.TcpProgressAll Proofs.TcpProgressSafe Proofs.TcpProgressHs Proofs.TcpProgressHsD
  Proofs.TcpProgressZwp Proofs.TcpProgressExample Proofs.TcpProgressWitness Proofs.TcpProgressZwDup Proofs.TcpProgressZw1 Proofs.TcpProgressZw2
  Proofs.TcpProgressCl1 Proofs.TcpProgressCl2 Proofs.TcpProgressCl3 Proofs.TcpProgressCl4 Proofs.TcpProgressCl5
  Proofs.TcpProgressCl10.

Module SI := TcpSendInv.
Notation sz st z := (net_sock st z).

(* the view of an ESTABLISHED socket with nothing to send and nothing in its receive buffer *)
Record qsock (cx : ctx) (s : socket) (t : tuple) (una ws : Z) : Prop := mkQsock {
  qs_k : ctl_sock cx s t;
  qs_state : s_state s = Established;
  qs_una : s_local_seq_no s = una;
  qs_nxt : s_remote_last_seq s = una;
  qs_snx : tcp_send_next_seq s = una;
  qs_ws : tcp_window_start s = ws;
  qs_rx0 : rb_len (s_rx_buffer s) = 0;
  qs_tm : s_timer s = TIdle None
}.

(* nothing owed, no delayed-ACK timer, no window update due *)
Definition clean (s : socket) : Prop :=
  s_remote_last_ack s = Some (tcp_window_start s) /\ s_ack_delay_timer s = ADIdle /\
  tcp_window_to_update s = Ok false.

Lemma qsock_gview cx s t una ws :
  qsock cx s t una ws -> clean s ->
  gview cx s t Established una una ws (TIdle None) ws (rt_max_seq_sent (s_rtte s)).
Proof.
  intros [K Q1 Q2 Q3 Q4 Q5 Q6 Q7] (C1 & C2 & C3).
  split; [constructor; assumption|]. split; [exact Q7|]. split; [rewrite C1, Q5; reflexivity | reflexivity].
Qed.

(* the facts that are taken of every state (not derived): no fast retransmit pending, FIN-WAIT-1 was not
   entered from SYN-RECEIVED, the timer is idle, the RTO is at least its minimum, the window shift is at most
   14, a delayed-ACK timer runs only while an ACK is owed (never at A, which receives no data), the last
   ACK sent is not beyond RCV.NXT, an empty receive buffer advertises a window *)
Definition qstatic (st : net) : Prop :=
  (forall z, s_pending_fast_retransmit (sz st z) = false /\ s_syn_unacked_in_fin_wait (sz st z) = false /\
             s_timer (sz st z) = TIdle None /\ tcp_RTTE_MIN_RTO <= rt_rto (s_rtte (sz st z)) /\
             s_remote_win_shift (sz st z) <= 14 /\
             (s_ack_delay_timer (sz st z) = ADIdle \/ tcp_ack_to_transmit (sz st z) = true) /\
             (tcp_ack_to_transmit (sz st z) = false ->
              s_remote_last_ack (sz st z) = Some (tcp_window_start (sz st z)))) /\
  0 < tcp_scaled_window (sz st SB) /\ s_ack_delay_timer (sz st SA) = ADIdle.

Section Views.
Variable Dack : Z.

(* the regime, state by state *)
Definition QR (st : net) : Prop :=
  NI st /\ opts_ok st /\ reg SA Dack st /\ inv_at SA st /\ wr_small SA st /\ qstatic st.

(* A's queue is empty and B's application has read everything *)
Definition drained (st : net) : Prop :=
  rb_len (s_tx_buffer (sz st SA)) = 0 /\ read_off (net_get st SB) = rcv_off (net_get st SB).

Lemma est_snx e g :
  est_view e g -> rb_len (s_tx_buffer (ep_sock e)) = 0 -> l_len (ep_written e) < 2 ^ 30 ->
  s_remote_last_seq (ep_sock e) = s_local_seq_no (ep_sock e) /\
  tcp_send_next_seq (ep_sock e) = s_local_seq_no (ep_sock e) /\
  mlim (rt_max_seq_sent (s_rtte (ep_sock e))) (s_local_seq_no (ep_sock e)).
Proof.
  intros V Htx Hsm.
  pose proof (ev_lsn _ _ V) as Hlsn. destruct (ev_rls _ _ V) as (fl & Hfl & Hrls).
  pose proof (ev_acked0 _ _ V) as Ha0. pose proof (ev_msx _ _ V) as Hm.
  assert (fl = 0) by lia. subst fl.
  assert (R : s_remote_last_seq (ep_sock e) = s_local_seq_no (ep_sock e)) by (rewrite Hrls, Hlsn; f_equal; lia).
  assert (Hu : una_off e = l_len (ep_written e)) by (unfold una_off; lia).
  split; [exact R|].
  change (2 ^ 30) with 1073741824 in Hsm.
  destruct (rt_max_seq_sent (s_rtte (ep_sock e))) as [m|] eqn:Em.
  2:{ split; [unfold tcp_send_next_seq; rewrite Em; exact R | exact I]. }
  destruct Hm as (k & Hmk & Hk).
  set (i := SI.g_iss (TcpNetCompose.eg_tx g)) in *.
  assert (Hlk : s_local_seq_no (ep_sock e) = sq (i + (1 + una_off e))) by (rewrite Hlsn; f_equal; lia).
  split.
  - unfold tcp_send_next_seq. rewrite Em, R, Hmk, Hlk.
    rewrite seq_gt_sq by (change (2 ^ 31) with 2147483648; lia).
    rewrite Z.gtb_ltb. replace (1 + una_off e <? k) with false by (symmetry; apply Z.ltb_ge; lia). reflexivity.
  - unfold mlim. right. rewrite Hmk, Hlk, seq_add_raw, sq_sq_add.
    replace (i + (1 + una_off e) + 1) with (i + (2 + una_off e)) by lia.
    rewrite seq_gt_sq by (change (2 ^ 31) with 2147483648; lia). apply Z.gtb_lt. lia.
Qed.

Lemma snx_no_gt s :
  tcp_send_next_seq s = s_local_seq_no s -> s_remote_last_seq s = s_local_seq_no s ->
  match rt_max_seq_sent (s_rtte s) with Some m => seq_gt m (s_local_seq_no s) = false | None => True end.
Proof.
  intros Hn Hr. unfold tcp_send_next_seq in Hn. destruct (rt_max_seq_sent (s_rtte s)) as [m|]; [|exact I].
  rewrite Hr in Hn. destruct (seq_gt m (s_local_seq_no s)) eqn:E; [|reflexivity].
  subst m. rewrite seq_gt_refl in E. discriminate.
Qed.

Lemma rx_len_of_rcv_off e :
  RB.rb_wf (s_rx_buffer (ep_sock e)) -> rcv_off e = read_off e -> rb_len (s_rx_buffer (ep_sock e)) = 0.
Proof.
  intros ((Hl & _) & _) H. unfold rcv_off, read_off in H.
  destruct (s_rx_fin_received (ep_sock e)); cbn [b2z] in H; lia.
Qed.

(* the views of a drained pair *)
Lemma regime_views st :
  QR st -> drained st ->
  exists tA,
    let X := s_local_seq_no (sz st SA) in let Y := s_local_seq_no (sz st SB) in
    tuple_nz tA /\ 0 <= X < 4294967296 /\ 0 <= Y < 4294967296 /\
    qsock (cxz st SA) (sz st SA) tA X Y /\ qsock (cxz st SB) (sz st SB) (mirror tA) Y X /\
    mlim (rt_max_seq_sent (s_rtte (sz st SA))) X /\ mlim (rt_max_seq_sent (s_rtte (sz st SB))) Y /\
    match rt_max_seq_sent (s_rtte (sz st SB)) with Some m => seq_gt m Y = false | None => True end.
Proof.
  intros (HN & Ho & HG & HI & Hsm & (Hq & Hcw & _)) (Htx & Hrd). cbv zeta.
  destruct (reg_pair SA Dack st HG HI) as (gx & gy & PF & Hsub).
  pose proof (pf_vx _ _ _ _ PF) as Vx. pose proof (pf_vy _ _ _ _ PF) as Vy. cbn [side_other] in *.
  destruct (rg_tup SA Dack st HG SA) as (tA & TA1 & TA2 & TA3 & TA4). cbn [side_other] in TA2.
  destruct (rg_tup SA Dack st HG SB) as (tB & TB1 & _ & TB3 & _).
  assert (EtB : tB = mirror tA) by congruence. subst tB.
  destruct (pf_ytx _ _ _ _ PF) as (HtxB & HuB).
  pose proof (rg_ywr SA Dack st HG) as Hyw. cbn [side_other] in Hyw.
  unfold wr_small in Hsm. unfold net_sock in *.
  destruct (est_snx _ _ Vx Htx Hsm) as (RA & NA & LA).
  assert (HsmB : l_len (ep_written (net_get st SB)) < 2 ^ 30) by (rewrite Hyw; reflexivity).
  destruct (est_snx _ _ Vy HtxB HsmB) as (RB' & NB & LB).
  pose proof (NI_live st SA HN) as IA. pose proof (NI_live st SB HN) as IB. unfold net_sock in IA, IB.
  destruct (pf_cross _ _ _ _ PF) as (Hc1 & Hc2 & Hc3).
  assert (Hd0 : rcv_off (net_get st SB) - una_off (net_get st SA) = 0) by lia.
  destruct (pf_yseq _ _ _ _ PF) as (Hy1 & _).
  destruct (Hq SA) as (QA1 & QA2 & QA3 & QA4 & QA5 & _). destruct (Hq SB) as (QB1 & QB2 & QB3 & QB4 & QB5 & _).
  unfold net_sock in *.
  destruct (ev_rx _ _ Vx) as (WA1 & _ & WA3). destruct (ev_rx _ _ Vy) as (WB1 & _ & WB3).
  destruct (Ho SA) as (OA1 & OA2). destruct (Ho SB) as (OB1 & OB2). unfold net_sock in *.
  exists tA. split; [exact TA4|].
  split; [apply u32_range; exact (li_una _ IA)|]. split; [apply u32_range; exact (li_una _ IB)|].
  pose proof (rg_est SA Dack st HG SA) as EstA. pose proof (rg_est SA Dack st HG SB) as EstB. unfold net_sock in EstA, EstB.
  split.
  { constructor.
    - constructor; try assumption; try lia.
      + exact (li_tx _ IA). + exact (proj1 (li_win _ IA)). + exact (ev_mtu _ _ Vx). + apply u32_range; exact (li_una _ IA).
    - exact EstA.
    - reflexivity.
    - exact RA.
    - exact NA.
    - exact Hy1.
    - pose proof (pf_xrcv _ _ _ _ PF) as E0. unfold rcv_off in E0. destruct WA1 as ((Hl0 & _) & _).
      assert (Hr0 : 0 <= l_len (ep_read (net_get st SA))) by apply l_len_nonneg.
      destruct (s_rx_fin_received (ep_sock (net_get st SA))); cbn [b2z] in E0; lia.
    - exact QA3. }
  split.
  { constructor.
    - constructor; try assumption; try lia.
      + exact (li_tx _ IB). + exact (proj1 (li_win _ IB)). + exact (ev_mtu _ _ Vy). + apply u32_range; exact (li_una _ IB).
    - exact EstB.
    - reflexivity.
    - exact RB'.
    - exact NB.
    - rewrite Hc1, Hd0. symmetry. apply u32_as_sq. apply u32_range. exact (li_una _ IA).
    - apply (rx_len_of_rcv_off _ WB1). symmetry. exact Hrd.
    - exact QB3. }
  split; [exact LA|]. split; [exact LB|]. exact (snx_no_gt _ NB RB').
Qed.

End Views.

(* ---------------------------------------------------------------------------------------- *)
(* events at a socket with the view [qsock]                                                  *)
(* ---------------------------------------------------------------------------------------- *)
Lemma veq_clean s' s : veq s' s -> clean s -> clean s'.
Proof.
  intros V (C1 & C2 & C3). pose proof (veq_wtu _ _ V) as Hw.
  destruct V as (_ & _ & _ & _ & _ & _ & _ & _ & _ & _ & _ & Ews & Ela & _ & _ & (_ & Eadt) & _).
  split; [rewrite Ela, Ews; exact C1|]. split; [rewrite Eadt; exact C2 | rewrite Hw; exact C3].
Qed.

(* a bare ACK in order that acknowledges exactly SND.UNA: nothing happens *)
Lemma step_nice_rx cx s t una ws ip r s' out tags :
  qsock cx s t una ws -> tuple_nz t -> sent_to t ip r ->
  r_control r = CNone -> r_payload r = [] -> r_seq_number r = ws -> r_ack_number r = Some una ->
  tcp_step cx s (EvSegment ip r) = Ok (s', out, tags) ->
  wire_out out = None /\ (clean s -> clean s') /\ s_ack_delay_timer s' = s_ack_delay_timer s.
Proof.
  intros [K Q1 Q2 Q3 Q4 Q5 Q6 Q7] Hnz Hto Hc Hp Hs Ha H.
  destruct (ingress_process cx s t ip r s' out tags) as (rep & -> & Hpr); try assumption.
  { rewrite Q1. discriminate. } { rewrite Q1. discriminate. } { exact (k_tuple _ _ _ K). }
  assert (Hsf : tcp_sent_fin s = false) by (unfold tcp_sent_fin; rewrite Q1; reflexivity).
  assert (Ha' : r_ack_number r = Some (seq_add (s_local_seq_no s) (b2z (tcp_sent_fin s)))).
  { rewrite Hsf. cbn [b2z]. rewrite (seq_add_0_u32 _ (k_una _ _ _ K)), Q2. exact Ha. }
  destruct (process_ctl cx s ip r s' rep tags) as (p3 & H3 & HR); try assumption.
  { rewrite Q1. exact I. } { exact (k_suf _ _ _ K). } { exact (k_tx _ _ _ K). } { exact (k_ka _ _ _ K). }
  { left. exact Hc. } { congruence. }
  rewrite Hc in H3. cbn [quash_psh] in H3. unfold tcp_process_transition in H3.
  set (s2 := upd_local_rx_last_seq s (Some (r_seq_number r))) in *.
  assert (E2 : s_state s2 = s_state s) by (unfold s2; sproj; reflexivity).
  rewrite E2, Q1 in H3. inversion H3; subst p3; clear H3.
  destruct HR as (R1 & (S1 & S2 & _ & S4) & R3 & R4 & R5 & R6 & _).
  { unfold s2. sproj. exact (k_tx _ _ _ K). } { unfold s2. sproj. exact (k_ka _ _ _ K). }
  subst rep. split; [reflexivity|].
  assert (Hadt : s_ack_delay_timer s' = s_ack_delay_timer s)
    by (destruct R5 as (_ & Eadt); revert Eadt; unfold s2; sproj; auto).
  split; [|exact Hadt].
  intros (C1 & C2 & C3).
  assert (R4' : RI.rxv_eq s' s) by (revert R4; unfold RI.rxv_eq, s2; sproj; auto).
  pose proof (RI.rxv_eq_window_start _ _ R4') as Hws.
  destruct R6 as (_ & _ & X3).
  assert (Hsuf : s_syn_unacked_in_fin_wait s' = s_syn_unacked_in_fin_wait s).
  { rewrite (k_suf _ _ _ K). apply X3. unfold s2. sproj. exact (k_suf _ _ _ K). }
  assert (Hst' : s_state s' = s_state s) by (rewrite S1; exact E2).
  split; [destruct R4' as (_ & _ & _ & _ & Ela & _); rewrite Ela, Hws; exact C1|].
  split; [rewrite Hadt; exact C2|].
  rewrite (rxv_eq_wtu s' s R4' Hsuf (or_introl Hst')). exact C3.
Qed.

(* a poll: a bare ACK goes out and the socket is clean, or nothing happens *)
Lemma step_est_poll cx s t una ws s' out tags :
  qsock cx s t una ws ->
  tcp_step cx s (EvDispatch true) = Ok (s', out, tags) ->
  (exists p, wire_out out = Some p /\ is_seg t CNone una ws p /\ clean s') \/
  (wire_out out = None /\ veq s' s /\
   tcp_ack_to_transmit s && tcp_delayed_ack_expired s (cx_now cx) = false /\ tcp_window_to_update s = Ok false).
Proof.
  intros [K Q1 Q2 Q3 Q4 Q5 Q6 Q7] H.
  destruct (dispatch_step _ _ _ _ _ _ H) as (res & -> & Hd).
  assert (Hfl : s_remote_last_seq s = s_local_seq_no s) by congruence.
  assert (Hemit : tcp_ack_to_transmit s && tcp_delayed_ack_expired s (cx_now cx) = true \/ tcp_window_to_update s = Ok true ->
                  exists p, wire_out (ODispatch res) = Some p /\ is_seg t CNone una ws p /\ clean s').
  { intros Htrig. destruct (disp_est_ack cx s t s' res tags K Q1 Hfl Q7 Htrig Hd) as (p & -> & F).
    destruct F as [as_src0 as_dst0 as_sport0 as_dport0 as_ctl0 as_pl0 as_seq0 as_ack0 as_state0 as_tuple0 as_tx0 as_una0 as_nxt0 as_timer0 as_rx0 as_la0 as_lw0 as_adt0 as_cfg0 as_pfr0 as_suf0 as_win0 as_rtte0].
    exists p. split; [reflexivity|].
    split; [unfold is_seg, sent_from; rewrite as_seq0, as_ack0, Q4, Q5; auto 10|].
    pose proof (rxv_rest_scaled _ _ as_rx0) as Hsw. pose proof (rxv_rest_ws _ _ as_rx0) as Hws.
    destruct as_rx0 as (R1 & R2 & R3 & R4 & R5).
    split; [rewrite as_la0, Hws; reflexivity|]. split; [exact as_adt0|].
    apply fresh_wtu; [rewrite as_la0, Hws; reflexivity | rewrite as_lw0, Hsw; reflexivity
                      | rewrite R5; exact (k_shift _ _ _ K) | rewrite R2; exact (k_rxwf _ _ _ K)]. }
  destruct (tcp_ack_to_transmit s && tcp_delayed_ack_expired s (cx_now cx)) eqn:Ea; [left; apply Hemit; left; reflexivity|].
  destruct (disp_est_wtu_ok cx s t true s' res tags K Q1 Hfl Q7 Ea Hd) as (b & Hb).
  destruct b; [left; apply Hemit; right; exact Hb|].
  right. destruct (disp_est_wait cx s t true s' res tags K Q1 Hfl Q7 Ea Hb Hd) as (-> & ->).
  split; [reflexivity|]. split; [apply cveq_veq, dt_pre_cveq|]. split; [reflexivity | exact Hb].
Qed.

(* a clean socket's poll is quiet *)
Lemma step_est_poll_clean cx s t una ws ok s' out tags :
  qsock cx s t una ws -> clean s ->
  tcp_step cx s (EvDispatch ok) = Ok (s', out, tags) -> wire_out out = None /\ veq s' s.
Proof.
  intros [K Q1 Q2 Q3 Q4 Q5 Q6 Q7] (C1 & C2 & C3) H.
  destruct (dispatch_step _ _ _ _ _ _ H) as (res & -> & Hd).
  assert (Hfl : s_remote_last_seq s = s_local_seq_no s) by congruence.
  assert (Ea : tcp_ack_to_transmit s && tcp_delayed_ack_expired s (cx_now cx) = false).
  { unfold tcp_ack_to_transmit. rewrite C1, seq_lt_refl. reflexivity. }
  destruct (disp_est_wait cx s t ok s' res tags K Q1 Hfl Q7 Ea C3 Hd) as (-> & ->).
  split; [reflexivity | apply cveq_veq, dt_pre_cveq].
Qed.

Definition cleanb (s : socket) : bool :=
  opt_eqb (s_remote_last_ack s) (Some (tcp_window_start s)) &&
  (match s_ack_delay_timer s with ADIdle => true | _ => false end) &&
  (match tcp_window_to_update s with Ok false => true | _ => false end).

Lemma cleanb_iff s : cleanb s = true <-> clean s.
Proof.
  unfold cleanb, clean. split.
  - intros H. apply andb_true_iff in H. destruct H as (H & H3). apply andb_true_iff in H. destruct H as (H1 & H2).
    split; [|split].
    + destruct (s_remote_last_ack s) as [a|]; cbn in H1; [|discriminate]. apply Z.eqb_eq in H1. congruence.
    + destruct (s_ack_delay_timer s); try discriminate. reflexivity.
    + destruct (tcp_window_to_update s) as [[|]|?|]; try discriminate. reflexivity.
  - intros (H1 & H2 & H3). rewrite H1, H2, H3. cbn. rewrite Z.eqb_refl. reflexivity.
Qed.

(* a socket that is not clean wants to be polled: now, or when its delayed-ACK timer expires *)
Lemma dirty_poll cx s t una ws :
  qsock cx s t una ws -> cleanb s = false ->
  (s_ack_delay_timer s = ADIdle \/ tcp_ack_to_transmit s = true) ->
  (tcp_ack_to_transmit s = false -> s_remote_last_ack s = Some (tcp_window_start s)) ->
  match tcp_poll_at cx s with
  | Ok PNow => True
  | Ok (PTime t0) => exists t1, s_ack_delay_timer s = ADWaiting t1 /\ t0 <= t1
  | Ok PIngress => False
  | _ => True
  end.
Proof.
  intros [K Q1 Q2 Q3 Q4 Q5 Q6 Q7] Hd Hadt Hla.
  assert (Htu : s_tuple s <> None) by (rewrite (k_tuple _ _ _ K); discriminate).
  destruct (tcp_window_to_update s) as [[|]|e|] eqn:Ew.
  - pose proof (window_update_due cx s Htu Ew) as Hp. destruct (tcp_poll_at cx s) as [[|t0|]|?|]; auto; contradiction.
  - assert (Hack : tcp_ack_to_transmit s = true).
    { destruct (tcp_ack_to_transmit s) eqn:Ea; [reflexivity|]. exfalso.
      assert (Hc : clean s).
      { split; [exact (Hla eq_refl)|]. split; [destruct Hadt as [X0 | X0]; [exact X0 | discriminate] | exact Ew]. }
      apply cleanb_iff in Hc. congruence. }
    exact (poll_at_owed cx s Htu Hack).
  - unfold tcp_poll_at. rewrite (k_tuple _ _ _ K). cbn [is_some negb].
    destruct (is_some (s_remote_last_ts s)); cbn [negb]; [|exact I].
    rewrite Q1. cbn [tcp_state_eqb].
    destruct (tcp_seq_to_transmit cx s) as [[|]|?|]; cbn [obind]; try exact I. rewrite Ew. exact I.
  - unfold tcp_poll_at. rewrite (k_tuple _ _ _ K). cbn [is_some negb].
    destruct (is_some (s_remote_last_ts s)); cbn [negb]; [|exact I].
    rewrite Q1. cbn [tcp_state_eqb].
    destruct (tcp_seq_to_transmit cx s) as [[|]|?|]; cbn [obind]; try exact I. rewrite Ew. exact I.
Qed.
