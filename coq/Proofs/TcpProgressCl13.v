(* C02 (liveness half): FROM net_init TO BOTH CLOSED, the joint derived.  One reliable schedule
       evsD ++ evsQ ++ NClose SA :: evs1 ++ NClose SB :: evs2
   evsD: the one-way workload (A connects and writes, B reads); evsQ: the applications neither write nor close;
   then A closes, and B closes once it is in CLOSE-WAIT.  Conclusions: the handshake completes, every octet
   written is acknowledged and handed to B's application (zero windows included), the connection becomes
   quiet (Proofs/TcpProgressCl12.v) - which is the start of the orderly close - and both sockets end CLOSED.
   Premises about the states of the run: zregime in the data part (Proofs/TcpProgressZw6.v); in evsQ zextra and,
   once A's queue is empty and everything is read, the static facts qstatic (Proofs/TcpProgressCl11.v). *)
From SV Require Import Lib.Base Gen.Consts.
From SV Require Import Model.Seq32 Model.Assembler Model.TcpBuf Model.TcpTypes Model.Tcp Model.TcpNet.
From SV Require Import Proofs.TcpSendBase Proofs.TcpLiveBase Proofs.TcpLiveProofs Proofs.TcpLiveMore
  Proofs.TcpLiveProgress.
From SV Require Import Proofs.TcpNetBase.
From SV Require Proofs.TcpNetInv.
From SV Require Import Proofs.TcpProgressBase Proofs.TcpProgressFrame Proofs.TcpProgressCtl Proofs.TcpProgressRecv
  Proofs.TcpProgressSend Proofs.TcpProgressNet Proofs.TcpProgressData Proofs.TcpProgressAck
  Proofs.TcpProgressAll Proofs.TcpProgressSafe Proofs.TcpProgressHs Proofs.TcpProgressHsD
  Proofs.TcpProgressHsNet Proofs.TcpProgressHsInit Proofs.TcpProgressHsLive Proofs.TcpProgressHsLive2
  Proofs.TcpProgressZwp Proofs.TcpProgressExample Proofs.TcpProgressWitness Proofs.TcpProgressSafeWitness Proofs.TcpProgressZwDup
  Proofs.TcpProgressZw1 Proofs.TcpProgressZw1b Proofs.TcpProgressZw2 Proofs.TcpProgressZw3 Proofs.TcpProgressZwWitness
  Proofs.TcpProgressZw4 Proofs.TcpProgressZw5 Proofs.TcpProgressZw6 Proofs.TcpProgressZw7
  Proofs.TcpProgressCl1 Proofs.TcpProgressCl2 Proofs.TcpProgressCl3 Proofs.TcpProgressCl4 Proofs.TcpProgressCl5
  Proofs.TcpProgressCl6 Proofs.TcpProgressCl7 Proofs.TcpProgressCl8 Proofs.TcpProgressCl9
  Proofs.TcpProgressCl10 Proofs.TcpProgressCl11 Proofs.TcpProgressCl12.

Module NV := TcpNetInv.
Notation sz st z := (net_sock st z).

(* close() in ESTABLISHED: FIN-WAIT-1, nothing else changes *)
Lemma step_close_est cx s t una nxt ws tm la M s' out tags :
  gview cx s t Established una nxt ws tm la M -> tcp_step cx s EvClose = Ok (s', out, tags) ->
  wire_out out = None /\ gview cx s' t FinWait1 una nxt ws tm la M.
Proof.
  intros (C & Htm & Hla & Hm) H. cbn [tcp_step] in H. inversion H; subst s' out tags; clear H.
  split; [reflexivity|]. destruct C as [K C1 C2 C3 C4 C5 C6 C7].
  unfold tcp_close. rewrite C1. unfold tcp_set_state.
  split; [|sproj; auto].
  constructor; unfold tcp_window_start in *; sproj; try assumption; try reflexivity.
  - destruct K. constructor; sproj; assumption.
  - revert C7. unfold tcp_window_to_update, tcp_last_scaled_window, tcp_scaled_window. sproj. rewrite C1. auto.
Qed.

Lemma dlb_run Dt Da : forall evs fa st st',
  0 <= Dt -> dlb Dt fa st -> fair_run Dt Da fa st evs -> net_run st evs = Ok st' -> dlb Dt (fa_run Dt Da fa st evs) st'.
Proof.
  induction evs as [|ev r IH]; intros fa st st' HDt Hb Hf Hr; cbn [net_run] in Hr.
  - inversion Hr; subst. exact Hb.
  - apply obind_ok in Hr. destruct Hr as (st1 & Hs & Hr). cbn [fair_run fa_run] in *. rewrite Hs in *.
    destruct Hf as (Hev & Hf). exact (IH _ _ _ HDt (dlb_after Dt Da _ _ _ _ HDt Hb Hev Hs) Hf Hr).
Qed.

Section Final.
Variables Dt Da Dack : Z.

(* the premise about the states of the quiet part of the run *)
Definition qregime (st : net) : Prop := zextra SA st /\ (drained st -> qstatic st).

Lemma drained_step_z fa st ev st' :
  NI st -> opts_ok st -> NI st' -> zsafe SA st -> zsafe SA st' ->
  drained st -> qev ev -> fair_ev fa st ev -> net_step st ev = Ok st' -> drained st'.
Proof.
  intros HN Ho HN' HZ HZ' (Htx & Hrd) Hev Hfe H.
  destruct (zs_cross SA st HZ) as (_ & Hk0 & Hk1). cbn [side_other] in *.
  pose proof (una_step_mono SA fa st ev st' HN Ho HZ HZ' Hfe H) as Hum.
  pose proof (written_nosend st ev st' SA H (qev_nosend _ Hev)) as Hw.
  destruct (zsafe_bounds SA st' HN' HZ') as (B1 & B2 & B3). cbn [side_other] in *.
  assert (Hrm : read_off (net_get st SB) <= read_off (net_get st' SB)).
  { destruct (net_step_mono _ _ _ H SB) as (_ & Hrp & _). apply TcpNetCompose_l_len_prefix in Hrp. exact Hrp. }
  pose proof (NI_live st' SA HN') as Il. pose proof (li_tx _ Il) as ((Hl0 & _) & _).
  unfold drained, una_off, net_sock in *. rewrite Hw in *. split; lia.
Qed.

Lemma QR_of st :
  reach st -> NV.small st -> wr_small SA st -> NI st -> opts_ok st -> reg SA Dack st -> qregime st -> drained st ->
  QR Dack st.
Proof.
  intros Hre Hsm Hws HN Ho HG (Hzx & Hqs) HD.
  split; [exact HN|]. split; [exact Ho|]. split; [exact HG|].
  split; [exact (reach_inv_at SA st Hre Hsm (rg_closed SA Dack st HG))|].
  split; [exact Hws | exact (Hqs HD)].
Qed.

Lemma wr_small_mono st st' : net_mono st st' -> wr_small SA st' -> wr_small SA st.
Proof.
  intros Hm Hw. unfold wr_small in *. destruct (Hm SA) as (Wp & _). apply TcpNetCompose_l_len_prefix in Wp. lia.
Qed.

Lemma QR_run : forall evs fa st st',
  reach st -> NI st -> opts_ok st -> reg SA Dack st -> drained st ->
  Forall qev evs -> fair_run Dt Da fa st evs -> net_run st evs = Ok st' -> NV.small st' -> wr_small SA st' ->
  run_all qregime st evs -> run_all (QR Dack) st evs.
Proof.
  induction evs as [|ev r IH]; intros fa st st' Hre HN Ho HG HD HE Hf Hr Hsm Hws HRq.
  - cbn [net_run] in Hr. inversion Hr; subst. cbn [run_all] in *. destruct HRq as (Hq & _).
    split; [exact (QR_of st' Hre Hsm Hws HN Ho HG Hq HD) | exact I].
  - cbn [net_run] in Hr. apply obind_ok in Hr. destruct Hr as (st1 & Hs & Hr).
    inversion HE as [|? ? HE0 HE1]; subst.
    cbn [fair_run] in Hf. destruct Hf as (Hfe & Hf). rewrite Hs in Hf.
    cbn [run_all] in HRq |- *. destruct HRq as (Hq & HRq). rewrite Hs in HRq |- *.
    pose proof (net_run_mono _ _ _ Hr) as Hm1. pose proof (net_step_mono _ _ _ Hs) as Hm0.
    assert (Hsm1 : NV.small st1) by exact (NV.small_mono _ _ Hm1 Hsm).
    assert (Hsm0 : NV.small st) by exact (NV.small_mono _ _ Hm0 Hsm1).
    assert (Hws1 : wr_small SA st1) by exact (wr_small_mono _ _ Hm1 Hws).
    assert (Hws0 : wr_small SA st) by exact (wr_small_mono _ _ Hm0 Hws1).
    pose proof (QR_of st Hre Hsm0 Hws0 HN Ho HG Hq HD) as HQ. split; [exact HQ|].
    pose proof (reach_step _ _ _ Hre Hs) as Hre1. pose proof (NI_step _ _ _ HN Hs) as HN1.
    pose proof (opts_step _ _ _ Ho Hs) as Ho1.
    pose proof (reach_inv_at SA st Hre Hsm0 (rg_closed SA Dack st HG)) as HI.
    pose proof (closed_step SA _ _ _ (qev_script _ HE0) Hs (rg_closed SA Dack st HG)) as Hcl1.
    pose proof (reach_inv_at SA st1 Hre1 Hsm1 Hcl1) as HI1.
    pose proof (reg_step SA Dack _ _ _ HN Ho HG HI HI1 (qev_script _ HE0) Hs) as HG1.
    pose proof (run_all_here _ _ _ HRq) as Hq1.
    pose proof (zsafe_of_reg SA Dack st1 HN1 HG1 HI1 Hws1 (proj1 Hq1)) as HZ1.
    pose proof (QR_zsafe Dack st HQ) as HZ.
    pose proof (drained_step_z fa st ev st1 HN Ho HN1 HZ HZ1 HD HE0 Hfe Hs) as HD1.
    exact (IH _ st1 st' Hre1 HN1 Ho1 HG1 HD1 HE1 Hf Hr Hsm Hws HRq).
Qed.

(* ---------------------------------------------------------------------------------------- *)
(* the quiet pair stays quiet; A's close() is the start of the orderly close                  *)
(* ---------------------------------------------------------------------------------------- *)
Variables (dk : Z) (tA : tuple) (X Y : Z).
Hypothesis HDt : 0 <= Dt.

Notation Qdq := (Qd Dt Da dk tA X Y).

Lemma Qd_step fa st ev st' :
  qev ev -> QR Dack st -> QR Dack st' -> Qdq fa st -> fair_ev fa st ev -> once_ev fa ev -> net_step st ev = Ok st' ->
  Qdq (fa_after Dt Da fa ev st') st'.
Proof.
  intros Hev HQ HQ' (HK & HcA & HcB & N1 & N2) Hfe Hoe H.
  pose proof (K_step Dt Da Dack dk tA X Y HDt fa st ev st' Hev HQ HQ' HK Hfe H) as HK'.
  destruct (side_step Dt Da Dack dk tA X Y SA fa st ev st' Hev HQ HQ' HK Hfe Hoe H) as (A1 & _ & A3).
  destruct (side_step Dt Da Dack dk tA X Y SB fa st ev st' Hev HQ HQ' HK Hfe Hoe H) as (B1 & _ & B3).
  cbn [side_other] in A3, B3.
  pose proof HK as (((_ & _ & Hsy & _) & _) & _).
  split; [exact HK'|]. split; [exact (A1 HcA)|]. split; [exact (B1 HcB)|].
  split; [exact (ntrk_keep Dt Da fa st ev st' SA Hsy Hfe H (B3 HcB) N1)
         | exact (ntrk_keep Dt Da fa st ev st' SB Hsy Hfe H (A3 HcA) N2)].
Qed.

Lemma Qd_run : forall evs fa st st',
  Qdq fa st -> Forall qev evs -> run_all (QR Dack) st evs -> fair_run Dt Da fa st evs -> once_run Dt Da fa st evs ->
  net_run st evs = Ok st' -> Qdq (fa_run Dt Da fa st evs) st'.
Proof.
  apply (rel_inv_er Dt Da qev (QR Dack) Qdq).
  intros fa st ev st' Hev HR HR' HQ Hfe Hoe H. exact (Qd_step fa st ev st' Hev HR HR' HQ Hfe Hoe H).
Qed.

Lemma Qd_close fa st st' :
  QR Dack st -> Qdq fa st -> fair_ev fa st (NClose SA) -> net_step st (NClose SA) = Ok st' ->
  let MA := rt_max_seq_sent (s_rtte (sz st SA)) in let MB := rt_max_seq_sent (s_rtte (sz st SB)) in
  close_start tA X Y MA MB Da dk (net_now st SA) (fa_after Dt Da fa (NClose SA) st') st' /\
  tuple_nz tA /\ 0 <= X < 4294967296 /\ 0 <= Y < 4294967296 /\
  match MB with Some m => seq_gt m Y = false | None => True end /\ mlim MB Y.
Proof.
  intros HQ (((HB & _ & HD & HP) & _) & HcA & HcB & N1 & N2) Hfe H. cbv zeta.
  destruct (views Dack tA X Y st HQ HD HP) as (Hnz & HX & HY & QA & QB & M1 & M2 & M3).
  pose proof (qsock_gview _ _ _ _ _ QA HcA) as GA. pose proof (qsock_gview _ _ _ _ _ QB HcB) as GB.
  pose proof (base_step SA Dt Da dk _ _ _ _ HB Hfe H) as HB'. pose proof HB as (_ & _ & Hsy & _).
  destruct (net_step_kind _ _ _ H) as [w ev0 e' Hse He -> | to i Hx _ _ | d Hx _ | w isn0 ts Hx _ | to i Hd];
    try discriminate; [|destruct Hd; discriminate].
  cbn [sock_event] in Hse. destruct Hse as (<- & ->).
  destruct (sock_step_pieces st SA _ e' He) as (s' & out & tags & Hs & E1 & E2 & E3 & E4 & E5).
  destruct (step_close_est _ _ _ _ _ _ _ _ _ _ _ _ GA Hs) as (Hw & G').
  cbn [side_other] in *.
  split; [|auto 10].
  split; [exact HB'|].
  split; [exact (ntrk_keep Dt Da fa st _ _ SA Hsy Hfe H E4 N1)|].
  split; [apply (ntrk_keep Dt Da fa st _ _ SB Hsy Hfe H); [rewrite E5, Hw; apply app_nil_r | exact N2]|].
  split; [rewrite (net_step_now _ _ _ SA H); lia|].
  split; [apply view_other; [exact E3 | exact GB]|].
  split; [exact M1|]. left. rewrite E1, E2. exact G'.
Qed.

End Final.

(* ---------------------------------------------------------------------------------------- *)
(* from net_init to both CLOSED                                                              *)
(* ---------------------------------------------------------------------------------------- *)
Lemma run_all_impl (P Q : net -> Prop) : (forall s, P s -> Q s) ->
  forall evs st, run_all P st evs -> run_all Q st evs.
Proof.
  intros HPQ. induction evs as [|ev r IH]; intros st H; cbn [run_all] in *.
  - destruct H as (H & _). split; [exact (HPQ _ H) | exact I].
  - destruct H as (H & Hr). split; [exact (HPQ _ H)|]. destruct (net_step st ev); [exact (IH _ Hr) | exact I | exact I].
Qed.

Lemma run_all_end (P : net -> Prop) : forall evs st st', run_all P st evs -> net_run st evs = Ok st' -> P st'.
Proof.
  induction evs as [|ev r IH]; intros st st' H Hr; cbn [run_all net_run] in *.
  - inversion Hr; subst. exact (proj1 H).
  - apply obind_ok in Hr. destruct Hr as (st1 & Hs & Hr). destruct H as (_ & H). rewrite Hs in H. exact (IH _ _ H Hr).
Qed.

Lemma opts_run : forall evs st st', opts_ok st -> net_run st evs = Ok st' -> opts_ok st'.
Proof.
  induction evs as [|ev r IH]; intros st st' Ho Hr; cbn [net_run] in Hr.
  - inversion Hr; subst. exact Ho.
  - apply obind_ok in Hr. destruct Hr as (st1 & Hs & Hr). exact (IH _ _ (opts_step _ _ _ Ho Hs) Hr).
Qed.

Lemma app_ev_script ev : app_ev SA ev -> script_ev SA ev.
Proof. destruct ev; cbn; auto. Qed.

Theorem transfer_quiesce_close_from_net_init Dt Da Dack ca cb st0 (n : nat) :
  forall evsD evsQ evs1 evs2 stD stQ stC st_m st',
  start_ok Dack ca cb st0 -> 2 * Dt < tcp_RTTE_MIN_RTO * 1000 -> 0 <= Dack ->
  reliable_schedule Dt Da st0 (evsD ++ evsQ ++ NClose SA :: evs1 ++ NClose SB :: evs2) ->
  (* the data part: A connects and writes, B reads *)
  Forall (app_ev SA) evsD -> net_run st0 evsD = Ok stD ->
  run_all (zregime Dack) st0 evsD -> net_now st0 SA + 3 * Dt < net_now stD SA ->
  (* the applications neither write nor close *)
  Forall qev evsQ -> net_run stD evsQ = Ok stQ ->
  (forall z, l_len (ep_written (net_get stQ z)) < 2 ^ 30) ->
  run_all qregime stD evsQ ->
  (l_len (ep_written (net_get stD SA)) - una_off (net_get stD SA)) +
  (l_len (ep_written (net_get stD SA)) - read_off (net_get stD SB)) <= Z.of_nat n ->
  net_now stD SA + Z.of_nat n * Wz Dt Da + 2 * Dt + Dack < net_now stQ SA ->
  (* A closes; B closes in CLOSE-WAIT *)
  net_step stQ (NClose SA) = Ok stC ->
  Forall (cl_ev SA false) evs1 -> net_run stC evs1 = Ok st_m -> net_now stQ SA + 2 * Dt < net_now st_m SA ->
  net_run st_m (NClose SB :: evs2) = Ok st' ->
  net_now st_m SA + 3 * Dt + tcp_CLOSE_DELAY < net_now st' SA ->
  (exists p1 p2 sta,
     evsQ = p1 ++ p2 /\ net_run stD p1 = Ok sta /\ net_run sta p2 = Ok stQ /\
     una_off (net_get sta SA) = l_len (ep_written (net_get stD SA)) /\
     read_off (net_get sta SB) = l_len (ep_written (net_get stD SA))) /\
  (exists pre post st_c,
     evs2 = pre ++ post /\ net_run st_m (NClose SB :: pre) = Ok st_c /\ net_run st_c post = Ok st' /\
     both_closed st_c).
Proof.
  intros evsD evsQ evs1 evs2 stD stQ stC st_m st' Hstart HDt2 HDack Hrel HappD HrD HzD HlD HEQ HrQ Hsz HqQ Hn HlQ
         HsC HE1 Hr1 Hp1 Hr2 Hp2.
  pose proof Hrel as ((HDt & HDa & Ho0 & _) & _).
  pose proof Hstart as (Hi & _ & Ga & Gb & _).
  set (rest := NClose SA :: evs1 ++ NClose SB :: evs2) in *.
  (* bookkeeping at stD and the rest of the run *)
  destruct (reliable_prefix Dt Da st0 evsD _ stD HrD Hrel) as (HrelD & HfD & HoD).
  set (faD := fa_run Dt Da (fa_init Dt Da st0) st0 evsD) in *.
  destruct HrelD as ((_ & _ & _ & HfairD) & HonceD).
  pose proof (dl_sync_run Dt Da evsD _ st0 stD (fa_init_sync Dt Da st0) HfairD HrD) as HsyD.
  pose proof (dlb_run Dt Da evsD _ st0 stD HDt (dlb_init Dt Da st0 HDt) HfairD HrD) as HbD.
  (* sizes *)
  assert (HsmQ : NV.small stQ).
  { split; [specialize (Hsz SA) | specialize (Hsz SB)]; cbn [net_get] in Hsz; change (2 ^ 30) with 1073741824 in Hsz; lia. }
  assert (HwsQ : wr_small SA stQ) by (unfold wr_small; exact (Hsz SA)).
  pose proof (net_run_mono _ _ _ HrQ) as HmQ.
  assert (HsmD : NV.small stD) by exact (NV.small_mono _ _ HmQ HsmQ).
  (* the handshake, and the regime at stD *)
  assert (Hsyn : run_all syn_win_open st0 evsD) by (apply (run_all_impl (zregime Dack)); [intros s (X0 & _); exact X0 | exact HzD]).
  assert (HrelD' : reliable_schedule Dt Da st0 evsD) by (split; [split; [exact HDt|]; split; [exact HDa|]; split; assumption | exact HonceD]).
  destruct (handshake_completes_rel Dt Da Dack ca cb st0 Hstart evsD stD HrelD' HappD HrD HsmD Hsyn HlD)
    as (pre & post & fa1 & st1 & E & Hp1' & Hp2' & HG1 & Hre1 & Ho1 & _).
  assert (HappP : Forall (script_ev SA) post).
  { rewrite E in HappD. apply Forall_app in HappD. destruct HappD as (_ & X0).
    apply Forall_forall. intros ev Hin. apply app_ev_script. rewrite Forall_forall in X0. exact (X0 ev Hin). }
  pose proof (reg_run_all SA Dack post st1 stD Hre1 (reach_NI _ Hre1) Ho1 HG1 HappP Hp2' HsmD) as HGall.
  pose proof (run_all_end _ _ _ _ HGall Hp2') as HGD.
  assert (HreD : reach stD) by (exists ca, cb, st0, evsD; auto).
  pose proof (reach_NI _ HreD) as HND. pose proof (opts_run _ _ _ Ho0 HrD) as HoD'.
  (* the rest of the run from stD *)
  destruct (fair_run_app Dt Da evsQ rest faD stD stQ HrQ HfD) as (HfQ & HfR).
  destruct (once_run_app Dt Da evsQ rest faD stD stQ HrQ HoD) as (HoQ & HoR).
  (* everything written is acknowledged and read *)
  assert (HscQ : Forall (script_ev SA) evsQ).
  { apply Forall_forall. intros ev Hin. apply qev_script. rewrite Forall_forall in HEQ. exact (HEQ ev Hin). }
  assert (HzxQ : run_all (zextra SA) stD evsQ) by (apply (run_all_impl qregime); [intros s (X0 & _); exact X0 | exact HqQ]).
  pose proof (zsafe2_run SA Dack evsQ stD stQ HreD HND HoD' HGD HscQ HrQ HsmQ HwsQ HzxQ) as HZ2.
  assert (HnsQ : Forall nosend evsQ).
  { apply Forall_forall. intros ev Hin. apply qev_nosend. rewrite Forall_forall in HEQ. exact (HEQ ev Hin). }
  destruct (all_written_bytes_eventually_acked_zw SA Dt Da Dack n evsQ faD stD stQ _ HDt HDa HND HoD' HsyD HbD HZ2 HfQ HoQ HrQ
              HnsQ eq_refl Hn ltac:(pose proof max_rto_us_pos; lia))
    as (p1 & p2 & sta & EQ & Ha1 & Ha2 & Hua & Hra & Hta).
  split; [exists p1, p2, sta; auto|].
  cbn [side_other] in *.
  (* the state in which everything is acknowledged and read *)
  rewrite EQ in HEQ, HscQ, HnsQ, HqQ, HfQ, HoQ, HZ2.
  apply Forall_app in HEQ. destruct HEQ as (HEp1 & HEp2).
  apply Forall_app in HscQ. destruct HscQ as (Hscp1 & _).
  apply Forall_app in HnsQ. destruct HnsQ as (Hnsp1 & _).
  destruct (fair_run_app Dt Da p1 p2 faD stD sta Ha1 HfQ) as (Hfp1 & Hfp2).
  destruct (once_run_app Dt Da p1 p2 faD stD sta Ha1 HoQ) as (_ & Hop2).
  set (faa := fa_run Dt Da faD stD p1) in *.
  pose proof (net_run_mono _ _ _ Ha2) as Hma.
  assert (Hsma : NV.small sta) by exact (NV.small_mono _ _ Hma HsmQ).
  pose proof (reg_run_all SA Dack p1 stD sta HreD HND HoD' HGD Hscp1 Ha1 Hsma) as HGall2.
  pose proof (run_all_end _ _ _ _ HGall2 Ha1) as HGa.
  assert (Hrea : reach sta) by (exists ca, cb, st0, (evsD ++ p1); repeat (split; [assumption|]); exact (net_run_app evsD p1 st0 stD sta HrD Ha1)).
  pose proof (reach_NI _ Hrea) as HNa. pose proof (opts_run _ _ _ HoD' Ha1) as Hoa.
  pose proof (run_all_app _ p1 p2 stD sta Ha1 HZ2) as HZ2a. pose proof (run_all_here _ _ _ HZ2a) as (HZa & _).
  pose proof (written_run_nosend _ _ _ SA Ha1 Hnsp1) as Hwa.
  assert (HDa' : drained sta).
  { destruct (zsafe_bounds SA sta HNa HZa) as (B1 & B2 & B3). cbn [side_other] in *.
    unfold drained, una_off, net_sock in *. rewrite Hwa in *. split; lia. }
  pose proof (run_all_app _ p1 p2 stD sta Ha1 HqQ) as Hqa.
  pose proof (QR_run Dt Da Dack p2 faa sta stQ Hrea HNa Hoa HGa HDa' HEp2 Hfp2 Ha2 HsmQ HwsQ Hqa) as HQRa.
  (* the parameters, and the quiet state *)
  destruct (rg_tup SA Dack sta HGa SA) as (tA & TA1 & _).
  set (X := s_local_seq_no (sz sta SA)). set (Y := s_local_seq_no (sz sta SB)).
  set (dk := net_now sta SB - net_now sta SA).
  assert (HK0 : K0 Dt Da dk tA X Y faa sta).
  { split; [split; [exact HNa|]; split; [exact Hoa|]; split; [exact (dl_sync_run Dt Da p1 _ stD sta HsyD Hfp1 Ha1) | reflexivity]|].
    split; [exact (dlb_run Dt Da p1 _ stD sta HDt HbD Hfp1 Ha1)|]. split; [exact HDa'|]. split; [exact TA1 | split; reflexivity]. }
  destruct (connection_becomes_quiet Dt Da Dack dk tA X Y HDt HDack p2 faa sta stQ HK0
              ltac:(repeat split; assumption) ltac:(lia))
    as (q1 & q2 & stq & Eq & Hq1 & (HEq2 & HRq2 & Hfq2 & Hoq2 & Hrq2) & HQd & _).
  (* it stays quiet up to A's close() *)
  pose proof (Qd_run Dt Da Dack dk tA X Y HDt q2 _ stq stQ HQd HEq2 HRq2 Hfq2 Hoq2 Hrq2) as HQdQ.
  rewrite <- (fa_run_app Dt Da q1 q2 faa sta stq Hq1), <- Eq in HQdQ.
  pose proof (run_all_end _ _ _ _ HQRa Ha2) as HQRQ.
  (* A closes *)
  assert (HfaQ : fa_run Dt Da faa sta p2 = fa_run Dt Da faD stD (p1 ++ p2)) by (symmetry; exact (fa_run_app Dt Da p1 p2 faD stD sta Ha1)).
  rewrite HfaQ, <- EQ in HQdQ.
  unfold rest in HfR, HoR. cbn [fair_run once_run] in HfR, HoR. rewrite HsC in HfR, HoR.
  destruct HfR as (HevC & HfR). destruct HoR as (_ & HoR).
  destruct (Qd_close Dt Da Dack dk tA X Y _ stQ stC HQRQ HQdQ HevC HsC) as (Hcs & Hnz & HX & HY & HMB & HMB2).
  exact (orderly_close_completes tA X Y _ _ Dt Da dk HDt HDt2 Hnz HX HY HMB HMB2 (net_now stQ SA) evs1 evs2 _ stC st_m st'
           Hcs HE1 HfR HoR Hr1 Hp1 Hr2 Hp2).
Qed.
