(* Property C20, liveness and composition part (Model/LowpanLive.v):

   1. the reassembler as a state machine on "events" (a fragment record arriving at a time under a
      pair of link-layer addresses, or a frame that is not a fragment), with fragments of other
      datagrams and senders interleaved and the reassembly timeout:  exact-or-nothing with mixing,
      nothing-until-complete, DELIVERY at exactly the arrival that completes the datagram (for
      every arrival order whose merged ranges fit the tracker: [gaps_fit]), timeout;
   2. the glue octets -> (fragment header, payload, decompressor): one poll on frame octets IS one
      event step;
   3. end to end: the octets the egress side writes behind the MAC header, received by the ingress
      side in any order, give back the IPv6 datagram.

   Nothing in Model/Lowpan*.v or the other Proofs/Lowpan*.v files is changed. *)
From SV Require Import Lib.Base Gen.Consts Gen.WireFields Model.WireBase Model.WireSixFrag Model.WireNhc.
From SV Require Import Model.WireIphc Model.Assembler Model.LowpanFrag Model.Lowpan Model.LowpanLive.
From SV Require Import Proofs.WireBaseProofs Proofs.AssemblerProofs Proofs.LowpanWireProofs Proofs.LowpanFragProofs.
From SV Require Import Proofs.LowpanIphcBitsProofs Proofs.LowpanIphcProofs Proofs.LowpanProofs.

(* ================================================================================
   0. small list / slot-set facts
   ================================================================================ *)

Lemma lpf_update_nth_other {A} (d : A) : forall (l : list A) i j x, i <> j -> nth j (lpf_update l i x) d = nth j l d.
Proof.
  induction l as [|a l IH]; intros [|i] [|j] x Hne; cbn; try reflexivity; try lia.
  apply IH. lia.
Qed.

Lemma lpf_update_twice {A} : forall (l : list A) i x y, lpf_update (lpf_update l i x) i y = lpf_update l i y.
Proof. induction l as [|a l IH]; intros [|i] x y; cbn; try reflexivity. f_equal. apply IH. Qed.

Lemma lpf_update_same {A} (d : A) : forall (l : list A) i, lpf_update l i (nth i l d) = l.
Proof. induction l as [|a l IH]; intros [|i]; cbn; try reflexivity. f_equal. apply IH. Qed.

Lemma nth_slot_default_key j : sl_key (nth j (@nil lpf_slot) lpf_slot_new) = None.
Proof. destruct j; reflexivity. Qed.

Lemma nth_overflow_key (ss : list lpf_slot) j : (length ss <= j)%nat -> sl_key (nth j ss lpf_slot_new) = None.
Proof. intros H. rewrite nth_overflow by exact H. reflexivity. Qed.

(* remove_expired, slot by slot *)
Definition lpf_expire1 (now : Z) (s : lpf_slot) : lpf_slot :=
  match sl_key s with
  | Some _ => if sl_expires s <? now then lpf_slot_reset s else s
  | None => s
  end.

Lemma lpf_remove_expired_map now ss : lpf_remove_expired now ss = map (lpf_expire1 now) ss.
Proof. reflexivity. Qed.

Lemma lpf_remove_expired_length now ss : length (lpf_remove_expired now ss) = length ss.
Proof. rewrite lpf_remove_expired_map. apply map_length. Qed.

Lemma lpf_remove_expired_nth now ss j :
  nth j (lpf_remove_expired now ss) lpf_slot_new = lpf_expire1 now (nth j ss lpf_slot_new).
Proof.
  rewrite lpf_remove_expired_map.
  change lpf_slot_new with (lpf_expire1 now lpf_slot_new) at 1. apply map_nth.
Qed.

(* ================================================================================
   1. the generic (any key) invariant that keeps process_sixlowpan_fragment panic-free
   ================================================================================ *)

(* `&self.buffer[..total_size]` in assemble() is in range *)
Definition gen_pa (p : lpf_pa) : Prop := forall t, pa_total p = Some t -> 0 <= t <= blen (pa_buf p).
Definition gen_slot (s : lpf_slot) : Prop := gen_pa (sl_pa s).

Lemma gen_slot_reset s : gen_slot (lpf_slot_reset s).
Proof. unfold gen_slot, gen_pa, lpf_slot_reset, lpf_pa_reset. cbn. intros t H. discriminate H. Qed.

Lemma gen_slots_new : Forall gen_slot lpf_slots_new.
Proof.
  unfold lpf_slots_new. apply Forall_forall. intros s Hin. apply repeat_spec in Hin. subst s.
  unfold gen_slot, gen_pa, lpf_slot_new, lpf_pa_new. cbn. intros t H. discriminate H.
Qed.

Lemma gen_remove_expired now ss : Forall gen_slot ss -> Forall gen_slot (lpf_remove_expired now ss).
Proof.
  intros H. rewrite lpf_remove_expired_map. apply Forall_forall. intros s Hin.
  apply in_map_iff in Hin. destruct Hin as (s0 & <- & Hin0). rewrite Forall_forall in H. specialize (H s0 Hin0).
  unfold lpf_expire1. destruct (sl_key s0); [|exact H]. destruct (sl_expires s0 <? now); [apply gen_slot_reset | exact H].
Qed.

Lemma slot_inv_reset D k s : slot_inv D k (lpf_slot_reset s).
Proof. unfold slot_inv, lpf_slot_reset, lpf_pa_reset. cbn. auto. Qed.

Lemma slot_inv_remove_expired D k now ss :
  Forall (slot_inv D k) ss -> Forall (slot_inv D k) (lpf_remove_expired now ss).
Proof.
  intros H. rewrite lpf_remove_expired_map. apply Forall_forall. intros s Hin.
  apply in_map_iff in Hin. destruct Hin as (s0 & <- & Hin0). rewrite Forall_forall in H. specialize (H s0 Hin0).
  unfold lpf_expire1. destruct (sl_key s0) eqn:Ek; [|exact H].
  destruct (sl_expires s0 <? now); [apply slot_inv_reset | exact H].
Qed.

(* ---------- PacketAssemblerSet::get ---------- *)

Lemma lpf_find_key_none k : forall ss j, lpf_find_key k ss j = None ->
  forall i, (i < length ss)%nat -> sl_key (nth i ss lpf_slot_new) <> Some k.
Proof.
  induction ss as [|s r IH]; intros j H i Hi; [cbn in Hi; lia|]. cbn [lpf_find_key] in H.
  destruct (sl_key s) as [k'|] eqn:Ek.
  - destruct (lpf_key_eqb k' k) eqn:E; [discriminate H|].
    destruct i as [|i]; cbn [nth].
    + rewrite Ek. intros Heq. injection Heq as ->. rewrite lpf_key_eqb_refl in E. discriminate E.
    + apply (IH _ H). cbn in Hi. lia.
  - destruct i as [|i]; cbn [nth].
    + rewrite Ek. discriminate.
    + apply (IH _ H). cbn in Hi. lia.
Qed.

(* the first slot carrying the key *)
Lemma lpf_find_key_first k : forall ss j i, lpf_find_key k ss j = Some i ->
  forall i', (i' < i - j)%nat -> sl_key (nth i' ss lpf_slot_new) <> Some k.
Proof.
  induction ss as [|s r IH]; intros j i H i' Hi'; [discriminate H|]. cbn [lpf_find_key] in H.
  destruct (sl_key s) as [k'|] eqn:Ek.
  - destruct (lpf_key_eqb k' k) eqn:E.
    + injection H as <-. lia.
    + destruct (lpf_find_key_spec k r (S j) i H) as (Hr & _).
      destruct i' as [|i']; cbn [nth].
      * rewrite Ek. intros Heq. injection Heq as ->. rewrite lpf_key_eqb_refl in E. discriminate E.
      * apply (IH _ _ H). lia.
  - destruct (lpf_find_key_spec k r (S j) i H) as (Hr & _).
    destruct i' as [|i']; cbn [nth].
    + rewrite Ek. discriminate.
    + apply (IH _ _ H). lia.
Qed.

Lemma lpf_find_key_some k : forall ss j i0, (i0 < length ss)%nat -> sl_key (nth i0 ss lpf_slot_new) = Some k ->
  exists i, lpf_find_key k ss j = Some i.
Proof.
  induction ss as [|s r IH]; intros j i0 Hi Hk; [cbn in Hi; lia|]. cbn [lpf_find_key].
  destruct (sl_key s) as [k'|] eqn:Ek.
  - destruct (lpf_key_eqb k' k) eqn:E; [eauto|].
    destruct i0 as [|i0]; cbn [nth] in Hk.
    + rewrite Ek in Hk. injection Hk as ->. rewrite lpf_key_eqb_refl in E. discriminate E.
    + apply (IH (S j) i0); [cbn in Hi; lia | exact Hk].
  - destruct i0 as [|i0]; cbn [nth] in Hk.
    + rewrite Ek in Hk. discriminate Hk.
    + apply (IH (S j) i0); [cbn in Hi; lia | exact Hk].
Qed.

Lemma lpf_last_free_none : forall ss j acc, lpf_last_free ss j acc = None ->
  acc = None /\ forall i, (i < length ss)%nat -> sl_key (nth i ss lpf_slot_new) <> None.
Proof.
  induction ss as [|s r IH]; intros j acc H; [split; [exact H | cbn; intros; lia]|].
  cbn [lpf_last_free] in H. destruct (IH _ _ H) as (Hacc & Hr).
  destruct (sl_key s) eqn:Ek; [|discriminate Hacc]. split; [exact Hacc|].
  intros [|i] Hi; cbn [nth]; [rewrite Ek; discriminate | apply Hr; cbn in Hi; lia].
Qed.

(* what get(key, expires_at) returns, uniformly: the set with slot [i] replaced by [s1] *)
Lemma lpf_get_spec k e ss i ss1 : lpf_get k e ss = Some (i, ss1) ->
  (i < length ss)%nat /\
  exists s1, ss1 = lpf_update ss i s1 /\ nth i ss1 lpf_slot_new = s1 /\
    sl_key s1 = Some k /\ sl_pa s1 = sl_pa (nth i ss lpf_slot_new) /\
    ((s1 = nth i ss lpf_slot_new /\ sl_key (nth i ss lpf_slot_new) = Some k /\
      forall i', (i' < i)%nat -> sl_key (nth i' ss lpf_slot_new) <> Some k) \/
     (sl_key (nth i ss lpf_slot_new) = None /\ sl_expires s1 = e /\
      forall j, (j < length ss)%nat -> sl_key (nth j ss lpf_slot_new) <> Some k)).
Proof.
  unfold lpf_get. destruct (lpf_find_key k ss 0) as [i0|] eqn:Ef.
  - intros H. injection H as <- <-. destruct (lpf_find_key_spec k ss 0 i0 Ef) as (Hi & Hk).
    rewrite Nat.sub_0_r in Hk. split; [lia|]. exists (nth i0 ss lpf_slot_new).
    split; [symmetry; apply lpf_update_same|]. split; [reflexivity|]. split; [exact Hk|]. split; [reflexivity|].
    left. split; [reflexivity|]. split; [exact Hk|].
    intros i' Hi'. apply (lpf_find_key_first k ss 0 i0 Ef). lia.
  - destruct (lpf_last_free ss 0 None) as [i0|] eqn:El; [|discriminate].
    intros H. injection H as <- <-.
    destruct (lpf_last_free_spec ss 0 None i0 El) as [Hacc|(Hi & Hk)]; [discriminate Hacc|].
    rewrite Nat.sub_0_r in Hk. split; [lia|]. eexists. split; [reflexivity|].
    split; [apply lpf_update_nth; lia|]. cbn [sl_key sl_pa sl_expires]. split; [reflexivity|]. split; [reflexivity|].
    right. split; [exact Hk|]. split; [reflexivity|]. exact (lpf_find_key_none k ss 0 Ef).
Qed.

Lemma lpf_get_none k e ss : lpf_get k e ss = None ->
  forall i, (i < length ss)%nat -> sl_key (nth i ss lpf_slot_new) <> Some k /\ sl_key (nth i ss lpf_slot_new) <> None.
Proof.
  unfold lpf_get. destruct (lpf_find_key k ss 0) eqn:Ef; [discriminate|].
  destruct (lpf_last_free ss 0 None) eqn:El; [discriminate|]. intros _ i Hi.
  split; [exact (lpf_find_key_none k ss 0 Ef i Hi) | exact (proj2 (lpf_last_free_none ss 0 None El) i Hi)].
Qed.

(* ---------- the PacketAssembler operations, structurally ---------- *)

Lemma lpf_pa_set_total_size_spec p size p1 : lpf_pa_set_total_size p size = Some p1 ->
  pa_asm p1 = pa_asm p /\ pa_total p1 = Some size /\ blen (pa_buf p1) = Z.max (blen (pa_buf p)) size.
Proof.
  unfold lpf_pa_set_total_size. destruct (pa_total p) as [old|].
  - destruct (negb (old =? size)); [discriminate|]. intros H. injection H as <-. cbn. rewrite lpf_grow_len. auto.
  - intros H. injection H as <-. cbn. rewrite lpf_grow_len. auto.
Qed.

Lemma lpf_pa_add_spec p data off p2 : lpf_pa_add p data off = Ok p2 ->
  pa_asm p2 = fst (asm_add lpf_ASM_SEGMENTS (pa_asm p) off (blen data)) /\ pa_total p2 = pa_total p /\
  blen (pa_buf p) <= blen (pa_buf p2).
Proof.
  unfold lpf_pa_add. intros H. obind_inv H. injection H as <-. cbn.
  apply wb_set_slice_len in E. rewrite lpf_grow_len in E. split; [reflexivity|]. split; [reflexivity|]. lia.
Qed.

Lemma lpf_pa_add_total p data off : 0 <= off -> exists p2, lpf_pa_add p data off = Ok p2.
Proof.
  intros Ho. unfold lpf_pa_add. pose proof (blen_nonneg data) as Hd.
  pose proof (lpf_grow_len (pa_buf p) (off + blen data)) as Hg.
  unfold wb_set_slice.
  replace ((0 <=? off) && (off <=? off + blen data) && (off + blen data <=? blen (lpf_grow (pa_buf p) (off + blen data))) &&
           (blen data =? off + blen data - off)) with true by (symmetry; zbool; reflexivity).
  cbn [obind]. eauto.
Qed.

Lemma lpf_pa_add_first_spec p d1 p2 : lpf_pa_add_first p d1 = Ok p2 ->
  exists d, d1 (blen (pa_buf p)) = Ok d /\
    pa_asm p2 = fst (asm_add lpf_ASM_SEGMENTS (pa_asm p) 0 (blen d)) /\ pa_total p2 = pa_total p /\
    blen (pa_buf p2) = blen (pa_buf p).
Proof.
  unfold lpf_pa_add_first. intros H. apply obind_ok in H. destruct H as (d & Hd & H).
  destruct (blen (pa_buf p) <? blen d); [discriminate H|]. obind_inv H. injection H as <-. cbn.
  apply wb_set_slice_len in E. exists d. auto.
Qed.

(* ================================================================================
   2. events
   ================================================================================ *)

Inductive lpl_ev :=
| EvFrag (t : Z) (src dst : list Z) (f : lpf_rx_frag)     (* a FRAG1 / FRAGN frame *)
| EvOther (t : Z) (r : option (list Z)).                  (* any other frame (result: r), or just a poll *)

Definition ev_time (e : lpl_ev) : Z := match e with EvFrag t _ _ _ => t | EvOther t _ => t end.

Definition ev_step (timeout : Z) (e : lpl_ev) (ss : list lpf_slot) : outcome (list lpf_slot * option (list Z)) :=
  match e with
  | EvFrag t src dst f => lpf_process_fragment t timeout src dst f (lpf_remove_expired t ss)
  | EvOther t r => Ok (lpf_remove_expired t ss, r)
  end.

Fixpoint ev_run (timeout : Z) (evs : list lpl_ev) (ss : list lpf_slot)
  : outcome (list lpf_slot * list (option (list Z))) :=
  match evs with
  | [] => Ok (ss, [])
  | e :: r =>
      do '(ss1, d) <- ev_step timeout e ss;
      do '(ss2, ds) <- ev_run timeout r ss1;
      Ok (ss2, d :: ds)
  end.

Definition frag_key (src dst : list Z) (f : lpf_rx_frag) : lpf_key :=
  (src, dst, lpf_hdr_size (rf_hdr f), lpf_hdr_tag (rf_hdr f)).

(* the event is a fragment travelling under key [k] *)
Definition ev_is (k : lpf_key) (e : lpl_ev) : Prop :=
  match e with EvFrag _ src dst f => frag_key src dst f = k | EvOther _ _ => False end.
Definition ev_isb (k : lpf_key) (e : lpl_ev) : bool :=
  match e with EvFrag _ src dst f => lpf_key_eqb (frag_key src dst f) k | EvOther _ _ => false end.

Lemma ev_isb_true k e : ev_isb k e = true <-> ev_is k e.
Proof.
  destruct e as [t src dst f|t r]; cbn [ev_isb ev_is]; [|split; [discriminate | tauto]].
  split; [apply lpf_key_eqb_eq | intros <-; apply lpf_key_eqb_refl].
Qed.

Lemma ev_is_dec k e : ev_is k e \/ ~ ev_is k e.
Proof. destruct (ev_isb k e) eqn:E; [left; apply ev_isb_true; exact E | right; intros H; apply ev_isb_true in H; congruence]. Qed.

(* what the receive path needs from a fragment record, whatever datagram it belongs to:
   a FRAGN offset is a u8, and the decompressor of a FRAG1 behaves like sixlowpan_to_ipv6
   (C20_decompress_no_panic): on a buffer of at least 40 octets it does not panic and what it
   writes fits the buffer *)
Definition frag_tame (f : lpf_rx_frag) : Prop :=
  match rf_hdr f with
  | SfFirst size _ => lpf_IPV6_HDR <= size ->
      forall n, lpf_IPV6_HDR <= n -> rf_first_dec f n <> Panic /\ forall d, rf_first_dec f n = Ok d -> blen d <= n
  | SfNext _ _ off => 0 <= off
  end.
Definition ev_tame (e : lpl_ev) : Prop := match e with EvFrag _ _ _ f => frag_tame f | EvOther _ _ => True end.

(* every fragment that travels under key k is a piece of D *)
Definition ev_piece (D : list Z) (k : lpf_key) (tag : Z) (e : lpl_ev) : Prop :=
  match e with EvFrag _ src dst f => frag_key src dst f = k -> piece_ok D tag f | EvOther _ _ => True end.

(* what is asked of the events of a run, relative to the datagram D travelling under key k:
   fragments under k are pieces of D, all other fragments are merely tame *)
Definition ev_ok (D : list Z) (k : lpf_key) (tag : Z) (e : lpl_ev) : Prop :=
  match e with
  | EvFrag _ src dst f => (frag_key src dst f = k -> piece_ok D tag f) /\ (frag_key src dst f <> k -> frag_tame f)
  | EvOther _ _ => True
  end.

(* ================================================================================
   3. one fragment of ANY datagram, from any state: no panic, and only the slot of its own key
      (or a free slot) is touched
   ================================================================================ *)

Definition step_shape (key : lpf_key) (ss ss' : list lpf_slot) : Prop :=
  ss' = ss \/
  exists i s', (i < length ss)%nat /\ ss' = lpf_update ss i s' /\ gen_slot s' /\
    (sl_key (nth i ss lpf_slot_new) = None \/ sl_key (nth i ss lpf_slot_new) = Some key) /\
    (sl_key s' = Some key \/ sl_key s' = None /\ pa_asm (sl_pa s') = asm_new /\ pa_total (sl_pa s') = None).

Lemma lpf_pa_add_first_cases p d1 :
  lpf_IPV6_HDR <= blen (pa_buf p) ->
  (forall n, lpf_IPV6_HDR <= n -> d1 n <> Panic /\ forall d, d1 n = Ok d -> blen d <= n) ->
  (exists p2, lpf_pa_add_first p d1 = Ok p2 /\ pa_total p2 = pa_total p /\ blen (pa_buf p2) = blen (pa_buf p)) \/
  (exists e, lpf_pa_add_first p d1 = Err e).
Proof.
  intros Hb Ht. destruct (Ht _ Hb) as (Hnp & Hfit). unfold lpf_pa_add_first.
  destruct (d1 (blen (pa_buf p))) as [d|e|] eqn:Ed; cbn [obind]; [|right; eauto|exfalso; apply Hnp; reflexivity].
  specialize (Hfit d eq_refl). pose proof (blen_nonneg d) as Hd.
  replace (blen (pa_buf p) <? blen d) with false by (symmetry; apply Z.ltb_ge; lia).
  unfold wb_set_slice.
  replace ((0 <=? 0) && (0 <=? blen d) && (blen d <=? blen (pa_buf p)) && (blen d =? blen d - 0)) with true
    by (symmetry; zbool; reflexivity).
  cbn [obind]. left. eexists. split; [reflexivity|]. cbn [pa_total pa_buf]. split; [reflexivity|].
  rewrite !blen_app. rewrite blen_firstn by lia. rewrite blen_skipn by lia. lia.
Qed.

Lemma lpf_process_fragment_struct now timeout src dst f ss :
  Forall gen_slot ss -> frag_tame f ->
  exists ss' r, lpf_process_fragment now timeout src dst f ss = Ok (ss', r) /\
                step_shape (frag_key src dst f) ss ss'.
Proof.
  intros Hg Ht. unfold lpf_process_fragment.
  destruct (lpf_hdr_size (rf_hdr f) <? lpf_IPV6_HDR) eqn:Es.
  { exists ss, None. split; [reflexivity | left; reflexivity]. }
  apply Z.ltb_ge in Es. change (src, dst, lpf_hdr_size (rf_hdr f), lpf_hdr_tag (rf_hdr f)) with (frag_key src dst f).
  set (key := frag_key src dst f) in *.
  destruct (lpf_get key (now + timeout) ss) as [(i, ss1)|] eqn:Eg.
  2: { exists ss, None. split; [reflexivity | left; reflexivity]. }
  destruct (lpf_get_spec key _ ss i ss1 Eg) as (Hi & s1 & Hss1 & Hnth & Hk1 & Hpa1 & Hold).
  rewrite Hnth.
  assert (Holdk : sl_key (nth i ss lpf_slot_new) = None \/ sl_key (nth i ss lpf_slot_new) = Some key)
    by (destruct Hold as [(_ & H & _)|(H & _)]; auto).
  assert (Hgs1 : gen_pa (sl_pa s1)).
  { rewrite Hpa1. exact (Forall_nth_default _ ss lpf_slot_new i Hg Hi). }
  (* whatever slot value ends up at index i *)
  assert (Hput : forall s', gen_slot s' ->
            (sl_key s' = Some key \/ sl_key s' = None /\ pa_asm (sl_pa s') = asm_new /\ pa_total (sl_pa s') = None) ->
            step_shape key ss (lpf_update ss1 i s')).
  { intros s' Hg' Hk'. right. exists i, s'. split; [exact Hi|]. split; [rewrite Hss1; apply lpf_update_twice|]. auto. }
  assert (Hfin : forall p, gen_pa p ->
    exists ss' r,
      (if lpf_pa_is_complete p then
         match pa_total p with
         | Some total => do d <- wb_sub (pa_buf p) 0 total;
                         Ok (lpf_update ss1 i (lpf_slot_reset (mkSlot (sl_key s1) p (sl_expires s1))), Some d)
         | None => Panic end
       else Ok (lpf_update ss1 i (mkSlot (sl_key s1) p (sl_expires s1)), None)) = Ok (ss', r) /\
      step_shape key ss ss').
  { intros p Hp. destruct (lpf_pa_is_complete p) eqn:Ec.
    - unfold lpf_pa_is_complete in Ec. destruct (pa_total p) as [t|] eqn:Et; [|discriminate Ec].
      destruct (Hp t Et) as (H0 & H1). rewrite wb_sub_ok by lia. cbn [obind].
      eexists _, _. split; [reflexivity|]. apply Hput; [apply gen_slot_reset|].
      right. cbn. auto.
    - eexists _, _. split; [reflexivity|]. apply Hput; [exact Hp|]. left. exact Hk1. }
  unfold frag_tame in Ht. destruct (rf_hdr f) as [size tag|size tag off] eqn:Eh; cbn [lpf_hdr_size] in Es; cbn [lpf_hdr_size].
  - destruct (lpf_pa_set_total_size (sl_pa s1) size) as [p|] eqn:Est.
    2: { cbn [obind]. exists ss1, None. split; [reflexivity|]. rewrite Hss1. right. exists i, s1.
         split; [exact Hi|]. split; [reflexivity|]. split; [exact Hgs1|]. auto. }
    destruct (lpf_pa_set_total_size_spec _ _ _ Est) as (_ & Htot & Hbl).
    destruct (lpf_pa_add_first_cases p (rf_first_dec f) ltac:(lia) (Ht Es)) as [(p2 & -> & Ht2 & Hb2)|(e & ->)]; cbn [obind].
    + apply Hfin. intros t Htt. rewrite Ht2, Htot in Htt. injection Htt as <-. unfold lpf_IPV6_HDR in Es. zfold_in Es. lia.
    + eexists _, _. split; [reflexivity|]. apply Hput; [|left; exact Hk1].
      intros t Htt. cbn [sl_pa] in Htt. rewrite Htot in Htt. injection Htt as <-. cbn [sl_pa].
      unfold lpf_IPV6_HDR in Es. zfold_in Es. lia.
  - destruct (lpf_pa_add_total (sl_pa s1) (rf_payload f) (off * 8) ltac:(lia)) as (p2 & Ea). rewrite Ea. cbn [obind].
    destruct (lpf_pa_add_spec _ _ _ _ Ea) as (_ & Ht2 & Hb2).
    apply Hfin. intros t Htt. rewrite Ht2 in Htt. specialize (Hgs1 t Htt). lia.
Qed.

Lemma step_shape_gen key ss ss' : Forall gen_slot ss -> step_shape key ss ss' ->
  Forall gen_slot ss' /\ length ss' = length ss.
Proof.
  intros Hg [->|(i & s' & Hi & -> & Hg' & _)]; [auto|].
  split; [apply Forall_lpf_update; assumption | apply lpf_update_length].
Qed.

(* a fragment of another key leaves every slot claimed for k alone and claims none for k *)
Lemma step_shape_frame k key ss ss' : key <> k -> step_shape key ss ss' ->
  forall j, (sl_key (nth j ss' lpf_slot_new) = Some k <-> sl_key (nth j ss lpf_slot_new) = Some k) /\
            (sl_key (nth j ss lpf_slot_new) = Some k -> nth j ss' lpf_slot_new = nth j ss lpf_slot_new).
Proof.
  intros Hne [->|(i & s' & Hi & -> & _ & Hold & Hnew)] j; [tauto|].
  destruct (Nat.eq_dec i j) as [<-|Hij].
  - rewrite lpf_update_nth by exact Hi.
    assert (H1 : sl_key s' <> Some k) by (destruct Hnew as [H|(H & _)]; rewrite H; congruence).
    assert (H2 : sl_key (nth i ss lpf_slot_new) <> Some k) by (destruct Hold as [H|H]; rewrite H; congruence).
    tauto.
  - rewrite lpf_update_nth_other by exact Hij. tauto.
Qed.

Lemma step_shape_slot_inv D k key ss ss' : key <> k -> step_shape key ss ss' ->
  Forall (slot_inv D k) ss -> Forall (slot_inv D k) ss'.
Proof.
  intros Hne [->|(i & s' & Hi & -> & _ & _ & Hnew)] Hs; [exact Hs|].
  apply Forall_lpf_update; [exact Hs|]. unfold slot_inv.
  destruct Hnew as [H|(H & Ha & Ht)]; rewrite H; [congruence | auto].
Qed.

(* ================================================================================
   4. the slot of key k as an abstract state machine
   ================================================================================ *)

Definition kslot (k : lpf_key) (ss : list lpf_slot) (i : nat) : Prop :=
  (i < length ss)%nat /\ sl_key (nth i ss lpf_slot_new) = Some k /\
  forall j, sl_key (nth j ss lpf_slot_new) = Some k -> j = i.
Definition no_kslot (k : lpf_key) (ss : list lpf_slot) : Prop :=
  forall j, sl_key (nth j ss lpf_slot_new) <> Some k.

(* abstract state of the reassembly of the datagram under key k: nothing, or
   (tracker contents, total_size, expires_at) of the slot claimed for k *)
Definition kabs : Type := option (asm * option Z * Z).

Definition kstate (D : list Z) (k : lpf_key) (ss : list lpf_slot) (st : kabs) : Prop :=
  Forall gen_slot ss /\ Forall (slot_inv D k) ss /\
  match st with
  | None => no_kslot k ss
  | Some (u, tot, texp) => exists i, kslot k ss i /\
      pa_asm (sl_pa (nth i ss lpf_slot_new)) = u /\ pa_total (sl_pa (nth i ss lpf_slot_new)) = tot /\
      sl_expires (nth i ss lpf_slot_new) = texp
  end.

(* remove_expired(t): `expires_at < timestamp` *)
Definition kexpire (t : Z) (st : kabs) : kabs :=
  match st with
  | Some (u, tot, texp) => if texp <? t then None else st
  | None => None
  end.

Lemma lpf_expire1_key t s k : sl_key (lpf_expire1 t s) = Some k -> sl_key s = Some k /\ lpf_expire1 t s = s.
Proof.
  unfold lpf_expire1. destruct (sl_key s) as [k'|] eqn:Ek; [|intros H; rewrite Ek in H; discriminate H].
  destruct (sl_expires s <? t); [cbn; discriminate|]. rewrite Ek. auto.
Qed.

Lemma kstate_expire D k ss st t : kstate D k ss st -> kstate D k (lpf_remove_expired t ss) (kexpire t st).
Proof.
  intros (Hg & Hs & Hk). split; [apply gen_remove_expired; exact Hg|]. split; [apply slot_inv_remove_expired; exact Hs|].
  destruct st as [((u, tot), texp)|]; cbn [kexpire].
  - destruct Hk as (i & (Hi & Hki & Hu) & Ha & Ht & He).
    assert (Hall : forall j, sl_key (nth j (lpf_remove_expired t ss) lpf_slot_new) = Some k -> j = i).
    { intros j Hj. rewrite lpf_remove_expired_nth in Hj. apply lpf_expire1_key in Hj. apply Hu. tauto. }
    destruct (texp <? t) eqn:E.
    + intros j Hj. pose proof (Hall j Hj) as ->. rewrite lpf_remove_expired_nth in Hj.
      unfold lpf_expire1 in Hj. rewrite Hki, He, E in Hj. cbn in Hj. discriminate Hj.
    + assert (Hsame : nth i (lpf_remove_expired t ss) lpf_slot_new = nth i ss lpf_slot_new).
      { rewrite lpf_remove_expired_nth. unfold lpf_expire1. rewrite Hki, He, E. reflexivity. }
      exists i. unfold kslot. rewrite Hsame. split; [|auto]. split; [rewrite lpf_remove_expired_length; exact Hi|].
      split; [exact Hki | exact Hall].
  - intros j Hj. rewrite lpf_remove_expired_nth in Hj. apply lpf_expire1_key in Hj. exact (Hk j (proj1 Hj)).
Qed.

(* the range a fragment record occupies in the datagram, whether it is a FRAG1, and the bookkeeping
   of process_sixlowpan_fragment on the abstract state *)
Definition frag_span (D : list Z) (f : lpf_rx_frag) : Z * Z :=
  match rf_hdr f with
  | SfFirst _ _ => (0, match rf_first_dec f (blen D) with Ok d => blen d | _ => 0 end)
  | SfNext _ _ off => (off * 8, blen (rf_payload f))
  end.
Definition frag_is_first (f : lpf_rx_frag) : bool := match rf_hdr f with SfFirst _ _ => true | _ => false end.
Definition knext_tot (D : list Z) (f : lpf_rx_frag) (tot : option Z) : option Z :=
  if frag_is_first f then Some (blen D) else tot.
(* PacketAssembler::is_complete *)
Definition kdone (u : asm) (tot : option Z) : bool :=
  match tot with Some t => t =? asm_peek_front u | None => false end.

Definition kabs_add (D : list Z) (f : lpf_rx_frag) (x : asm * option Z * Z) : kabs * option (list Z) :=
  let '(u, tot, texp) := x in
  let u' := fst (asm_add lpf_N u (fst (frag_span D f)) (snd (frag_span D f))) in
  let tot' := knext_tot D f tot in
  if kdone u' tot' then (None, Some D) else (Some (u', tot', texp), None).

(* a fragment under key k at time t; [avail]: get() finds a free slot when none is claimed for k *)
Definition kabs_frag (D : list Z) (timeout t : Z) (f : lpf_rx_frag) (avail : bool) (st : kabs) : kabs * option (list Z) :=
  match kexpire t st with
  | Some x => kabs_add D f x
  | None => if avail then kabs_add D f (asm_new, None, t + timeout) else (None, None)
  end.

Lemma pa_inv_gen D p : pa_inv D p -> gen_pa p.
Proof.
  intros (_ & Ht & Hb & _) t Htt. pose proof (blen_nonneg D).
  destruct Ht as [Ht|Ht]; rewrite Ht in Htt; [discriminate Htt|]. injection Htt as <-.
  specialize (Hb Ht). lia.
Qed.

Lemma lpf_get_kslot k e ss i : kslot k ss i -> lpf_get k e ss = Some (i, ss).
Proof.
  intros (Hi & Hk & Hu). unfold lpf_get.
  destruct (lpf_find_key_some k ss 0 i Hi Hk) as (i0 & E). rewrite E.
  destruct (lpf_find_key_spec k ss 0 i0 E) as (_ & Hk0). rewrite Nat.sub_0_r in Hk0.
  rewrite (Hu i0 Hk0). reflexivity.
Qed.

Lemma kslot_update k ss i s' : kslot k ss i -> sl_key s' = Some k -> kslot k (lpf_update ss i s') i.
Proof.
  intros (Hi & Hk & Hu) Hk'. split; [rewrite lpf_update_length; exact Hi|].
  split; [rewrite lpf_update_nth by exact Hi; exact Hk'|].
  intros j Hj. destruct (Nat.eq_dec i j) as [<-|Hne]; [reflexivity|].
  rewrite lpf_update_nth_other in Hj by exact Hne. exact (Hu j Hj).
Qed.

Lemma no_kslot_update k ss i s' : kslot k ss i -> sl_key s' <> Some k -> no_kslot k (lpf_update ss i s').
Proof.
  intros (Hi & Hk & Hu) Hk' j Hj. destruct (Nat.eq_dec i j) as [<-|Hne].
  - rewrite lpf_update_nth in Hj by exact Hi. contradiction.
  - rewrite lpf_update_nth_other in Hj by exact Hne. apply Hne. symmetry. exact (Hu j Hj).
Qed.

(* one fragment of D under key k when a slot is claimed for k *)
Lemma kstep D tag now timeout src dst f ss u tot texp :
  lpf_IPV6_HDR <= blen D ->
  frag_key src dst f = (src, dst, blen D, tag) -> piece_ok D tag f ->
  kstate D (src, dst, blen D, tag) ss (Some (u, tot, texp)) ->
  exists ss', lpf_process_fragment now timeout src dst f ss = Ok (ss', snd (kabs_add D f (u, tot, texp))) /\
              kstate D (src, dst, blen D, tag) ss' (fst (kabs_add D f (u, tot, texp))).
Proof.
  intros Hsz Hkey Hp (Hg & Hs & i & Hks & Hu & Htot & Hexp). set (k := (src, dst, blen D, tag)) in *.
  unfold lpf_process_fragment.
  change (src, dst, lpf_hdr_size (rf_hdr f), lpf_hdr_tag (rf_hdr f)) with (frag_key src dst f). rewrite Hkey.
  assert (Hhs : lpf_hdr_size (rf_hdr f) = blen D).
  { unfold frag_key in Hkey. injection Hkey as H _. exact H. }
  rewrite Hhs. replace (blen D <? lpf_IPV6_HDR) with false by (symmetry; apply Z.ltb_ge; lia).
  fold k. rewrite (lpf_get_kslot k _ ss i Hks).
  destruct Hks as (Hi & Hki & Huniq).
  set (s := nth i ss lpf_slot_new) in *.
  assert (Hpa : pa_inv D (sl_pa s)).
  { pose proof (Forall_nth_default _ ss lpf_slot_new i Hs Hi) as H. fold s in H. unfold slot_inv in H.
    rewrite Hki in H. apply H. reflexivity. }
  (* common finish *)
  assert (Hfin : forall p, pa_inv D p ->
    pa_asm p = fst (asm_add lpf_N u (fst (frag_span D f)) (snd (frag_span D f))) ->
    pa_total p = knext_tot D f tot ->
    exists ss',
      (if lpf_pa_is_complete p then
         match pa_total p with
         | Some total => do d <- wb_sub (pa_buf p) 0 total;
                         Ok (lpf_update ss i (lpf_slot_reset (mkSlot (sl_key s) p (sl_expires s))), Some d)
         | None => Panic end
       else Ok (lpf_update ss i (mkSlot (sl_key s) p (sl_expires s)), None)) =
      Ok (ss', snd (kabs_add D f (u, tot, texp))) /\
      kstate D k ss' (fst (kabs_add D f (u, tot, texp)))).
  { intros p Hp' Ha Ht. unfold kabs_add.
    assert (Ec : lpf_pa_is_complete p =
                 kdone (fst (asm_add lpf_N u (fst (frag_span D f)) (snd (frag_span D f)))) (knext_tot D f tot)).
    { unfold lpf_pa_is_complete, kdone. rewrite Ht, Ha. reflexivity. }
    rewrite <- Ec. destruct (lpf_pa_is_complete p) eqn:Ecp.
    - destruct (pa_inv_complete D p Hp' ltac:(unfold lpf_IPV6_HDR in Hsz; zfold_in Hsz; lia) Ecp) as (Ht' & Hsub).
      rewrite Ht', Hsub. cbn [obind fst snd]. eexists. split; [reflexivity|].
      split; [apply Forall_lpf_update; [exact Hg | apply gen_slot_reset]|].
      split; [apply Forall_lpf_update; [exact Hs | apply slot_inv_reset]|].
      apply (no_kslot_update k ss i); [split; [exact Hi | split; [exact Hki | exact Huniq]]|]. cbn. discriminate.
    - cbn [fst snd]. eexists. split; [reflexivity|].
      split; [apply Forall_lpf_update; [exact Hg | exact (pa_inv_gen D p Hp')]|].
      split; [apply Forall_lpf_update; [exact Hs|]; unfold slot_inv; cbn [sl_key sl_pa]; rewrite Hki; intros _; exact Hp'|].
      exists i. split; [apply kslot_update; [split; [exact Hi | split; [exact Hki | exact Huniq]] | exact Hki]|].
      rewrite lpf_update_nth by exact Hi. cbn [sl_pa sl_expires]. rewrite Ha, Ht. auto. }
  unfold piece_ok in Hp. unfold frag_span, knext_tot, frag_is_first in Hfin.
  destruct (rf_hdr f) as [sz tg|sz tg off] eqn:Eh.
  - destruct Hp as (_ & _ & d & Hdec & Hdl & Hdp).
    destruct (pa_inv_set_total D (sl_pa s) Hpa) as (p1 & E1 & Hp1 & Ht1). rewrite E1.
    destruct (lpf_pa_set_total_size_spec _ _ _ E1) as (Ha1 & _ & _).
    assert (Hbl : blen D <= blen (pa_buf p1)) by (destruct Hp1 as (_ & _ & Hb & _); auto).
    destruct (pa_inv_add_first D p1 (rf_first_dec f) d Hp1 Ht1 (Hdec _ Hbl) Hdl Hdp) as (p2 & E2 & Hp2 & Ht2 & _).
    rewrite E2. cbn [obind].
    destruct (lpf_pa_add_first_spec _ _ _ E2) as (d' & Hd' & Ha2 & _ & _).
    rewrite (Hdec _ Hbl) in Hd'. injection Hd' as <-.
    apply Hfin; [exact Hp2 | | rewrite Ht2; exact Ht1].
    rewrite Ha2, Ha1, Hu. cbn [fst snd]. rewrite (Hdec (blen D) ltac:(lia)). reflexivity.
  - destruct Hp as (_ & _ & Hoff & Hle & Hpl).
    destruct (pa_inv_add D (sl_pa s) (rf_payload f) (off * 8) Hpa ltac:(lia) Hle Hpl) as (p2 & E2 & Hp2 & Ht2 & _).
    rewrite E2. cbn [obind].
    destruct (lpf_pa_add_spec _ _ _ _ E2) as (Ha2 & _ & _).
    apply Hfin; [exact Hp2 | rewrite Ha2, Hu; reflexivity | rewrite Ht2; exact Htot].
Qed.

Definition slot_avail (t : Z) (s : lpf_slot) : Prop := sl_key s = None \/ sl_expires s < t.

Lemma lpf_last_free_avail t ss : (exists j, (j < length ss)%nat /\ slot_avail t (nth j ss lpf_slot_new)) ->
  exists i, lpf_last_free (lpf_remove_expired t ss) 0 None = Some i.
Proof.
  intros (j & Hj & Hav). destruct (lpf_last_free (lpf_remove_expired t ss) 0 None) as [i|] eqn:E; [eauto|].
  exfalso. destruct (lpf_last_free_none _ _ _ E) as (_ & Hall).
  apply (Hall j); [rewrite lpf_remove_expired_length; exact Hj|].
  rewrite lpf_remove_expired_nth. unfold lpf_expire1.
  destruct (sl_key (nth j ss lpf_slot_new)) eqn:Ek; [|exact Ek].
  destruct Hav as [Hav|Hav]; [rewrite Hav in Ek; discriminate Ek|].
  replace (sl_expires (nth j ss lpf_slot_new) <? t) with true by (symmetry; apply Z.ltb_lt; lia). reflexivity.
Qed.

(* M: one event against the abstract state of key k *)
Theorem ev_step_kabs D tag src dst timeout e ss st :
  lpf_IPV6_HDR <= blen D -> let k := (src, dst, blen D, tag) in
  kstate D k ss st -> ev_ok D k tag e ->
  match e with
  | EvFrag t src' dst' f =>
      if lpf_key_eqb (frag_key src' dst' f) k then
        exists avail ss', ev_step timeout e ss = Ok (ss', snd (kabs_frag D timeout t f avail st)) /\
                          kstate D k ss' (fst (kabs_frag D timeout t f avail st)) /\
                          ((exists j, (j < length ss)%nat /\ slot_avail t (nth j ss lpf_slot_new)) -> avail = true)
      else exists ss' r, ev_step timeout e ss = Ok (ss', r) /\ kstate D k ss' (kexpire t st)
  | EvOther t r => ev_step timeout e ss = Ok (lpf_remove_expired t ss, r) /\
                   kstate D k (lpf_remove_expired t ss) (kexpire t st)
  end.
Proof.
  intros Hsz k Hst Hok. destruct e as [t src' dst' f|t r].
  2: { split; [reflexivity | apply kstate_expire; exact Hst]. }
  cbn [ev_ok] in Hok. destruct Hok as (Hpiece & Htame).
  pose proof (kstate_expire D k ss st t Hst) as Hst_e. cbn [ev_step].
  set (ss_e := lpf_remove_expired t ss) in *.
  destruct (lpf_key_eqb (frag_key src' dst' f) k) eqn:Ek.
  - apply lpf_key_eqb_eq in Ek. specialize (Hpiece Ek).
    assert (Hsd : src' = src /\ dst' = dst) by (unfold frag_key, k in Ek; injection Ek; auto).
    destruct Hsd as (-> & ->).
    unfold kabs_frag. destruct (kexpire t st) as [((u, tot), texp)|] eqn:Eexp.
    + destruct (kstep D tag t timeout src dst f ss_e u tot texp Hsz Ek Hpiece Hst_e) as (ss' & E & Hst').
      exists true, ss'. auto.
    + (* no slot is claimed for k: get() takes the last free slot, if any *)
      destruct Hst_e as (Hg & Hs & Hno).
      destruct (lpf_get k (t + timeout) ss_e) as [(i, ss_c)|] eqn:Eg.
      * destruct (lpf_get_spec k _ ss_e i ss_c Eg) as (Hi & s1 & Hss1 & Hnth & Hk1 & Hpa1 & Hold).
        destruct Hold as [(_ & Hkk & _)|(Hfree & Hexp1 & _)]; [exfalso; exact (Hno i Hkk)|].
        assert (Hfi : slot_inv D k (nth i ss_e lpf_slot_new)) by exact (Forall_nth_default _ ss_e lpf_slot_new i Hs Hi).
        unfold slot_inv in Hfi. rewrite Hfree in Hfi. destruct Hfi as (Hfa & Hft).
        assert (Hksc : kslot k ss_c i).
        { split; [rewrite Hss1, lpf_update_length; exact Hi|]. split; [rewrite Hnth; exact Hk1|].
          intros j Hj. destruct (Nat.eq_dec i j) as [<-|Hne]; [reflexivity|].
          rewrite Hss1, lpf_update_nth_other in Hj by exact Hne. exfalso. exact (Hno j Hj). }
        assert (Hst_c : kstate D k ss_c (Some (asm_new, None, t + timeout))).
        { split; [rewrite Hss1; apply Forall_lpf_update; [exact Hg|]; unfold gen_slot; rewrite Hpa1;
                  exact (Forall_nth_default _ ss_e lpf_slot_new i Hg Hi)|].
          split; [rewrite Hss1; apply Forall_lpf_update; [exact Hs|]; unfold slot_inv; rewrite Hk1; intros _;
                  rewrite Hpa1; apply (slot_inv_free_pa D k _ (Forall_nth_default _ ss_e lpf_slot_new i Hs Hi) Hfree)|].
          exists i. split; [exact Hksc|]. rewrite Hnth, Hpa1. auto. }
        destruct (kstep D tag t timeout src dst f ss_c asm_new None (t + timeout) Hsz Ek Hpiece Hst_c) as (ss' & E & Hst').
        exists true, ss'. split; [|split; [exact Hst' | reflexivity]].
        rewrite <- E. unfold lpf_process_fragment.
        change (src, dst, lpf_hdr_size (rf_hdr f), lpf_hdr_tag (rf_hdr f)) with (frag_key src dst f). rewrite Ek.
        assert (Hhs : lpf_hdr_size (rf_hdr f) = blen D) by (unfold frag_key, k in Ek; injection Ek as H _; exact H).
        rewrite Hhs. replace (blen D <? lpf_IPV6_HDR) with false by (symmetry; apply Z.ltb_ge; lia).
        fold k. rewrite Eg, (lpf_get_kslot k _ ss_c i Hksc). reflexivity.
      * exists false, ss_e. split.
        { unfold lpf_process_fragment.
          change (src, dst, lpf_hdr_size (rf_hdr f), lpf_hdr_tag (rf_hdr f)) with (frag_key src dst f). rewrite Ek.
          fold k. rewrite Eg. destruct (_ <? _); reflexivity. }
        split; [split; [exact Hg | split; [exact Hs | exact Hno]]|].
        intros Hav. exfalso. destruct (lpf_last_free_avail t ss Hav) as (i & El). fold ss_e in El.
        unfold lpf_get in Eg. destruct (lpf_find_key k ss_e 0); [discriminate Eg|]. rewrite El in Eg. discriminate Eg.
  - assert (Hne : frag_key src' dst' f <> k).
    { intros H. rewrite H, lpf_key_eqb_refl in Ek. discriminate Ek. }
    destruct Hst_e as (Hg & Hs & Hk).
    destruct (lpf_process_fragment_struct t timeout src' dst' f ss_e Hg (Htame Hne)) as (ss' & r & E & Hshape).
    exists ss', r. split; [exact E|].
    destruct (step_shape_gen _ _ _ Hg Hshape) as (Hg' & Hlen).
    split; [exact Hg'|]. split; [exact (step_shape_slot_inv D k _ _ _ Hne Hshape Hs)|].
    pose proof (step_shape_frame k _ _ _ Hne Hshape) as Hfr.
    destruct (kexpire t st) as [((u, tot), texp)|].
    + destruct Hk as (i & (Hi & Hki & Hu) & Ha & Ht & He). exists i. unfold kslot.
      rewrite (proj2 (Hfr i) Hki). split; [|auto].
      split; [rewrite Hlen; exact Hi|]. split; [exact Hki|]. intros j Hj. apply Hu. apply (Hfr j). exact Hj.
    + intros j Hj. apply (Hk j). apply (Hfr j). exact Hj.
Qed.
