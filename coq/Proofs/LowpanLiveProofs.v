(* Property C20, liveness and composition part (Model/LowpanLive.v):

   1. the reassembler as a state machine on "events" (a fragment record arriving at a time under a
      pair of link-layer addresses, or a frame that is not a fragment), with fragments of other
      datagrams and senders interleaved and the reassembly timeout:  exact-or-nothing with mixing,
      nothing-until-complete, DELIVERY at exactly the arrival that completes the datagram (for
      every arrival order whose merged ranges fit the tracker: [gaps_fit]), timeout;
   2. the glue octets -> (fragment header, payload, decompressor): one poll on frame octets IS one
      event step;
   3. end to end: the octets the egress side writes behind the MAC header, received by the ingress
      side in any order, give back the IPv6 datagram.

   Nothing in Model/Lowpan*.v or the other Proofs/Lowpan*.v files is changed. *)
From SV Require Import Lib.Base Gen.Consts Gen.WireFields Model.WireBase Model.WireSixFrag Model.WireNhc.
From SV Require Import Model.WireIphc Model.Assembler Model.LowpanFrag Model.Lowpan Model.LowpanLive.
From SV Require Import Proofs.WireBaseProofs Proofs.AssemblerProofs Proofs.LowpanWireProofs Proofs.LowpanFragProofs.
From SV Require Import Proofs.LowpanIphcBitsProofs Proofs.LowpanIphcProofs Proofs.LowpanProofs.

(* ================================================================================
   0. small list / slot-set facts
   ================================================================================ *)

Lemma lpf_update_nth_other {A} (d : A) : forall (l : list A) i j x, i <> j -> nth j (lpf_update l i x) d = nth j l d.
Proof.
  induction l as [|a l IH]; intros [|i] [|j] x Hne; cbn; try reflexivity; try lia.
  apply IH. lia.
Qed.

Lemma lpf_update_twice {A} : forall (l : list A) i x y, lpf_update (lpf_update l i x) i y = lpf_update l i y.
Proof. induction l as [|a l IH]; intros [|i] x y; cbn; try reflexivity. f_equal. apply IH. Qed.

Lemma lpf_update_same {A} (d : A) : forall (l : list A) i, lpf_update l i (nth i l d) = l.
Proof. induction l as [|a l IH]; intros [|i]; cbn; try reflexivity. f_equal. apply IH. Qed.

Lemma nth_slot_default_key j : sl_key (nth j (@nil lpf_slot) lpf_slot_new) = None.
Proof. destruct j; reflexivity. Qed.

Lemma nth_overflow_key (ss : list lpf_slot) j : (length ss <= j)%nat -> sl_key (nth j ss lpf_slot_new) = None.
Proof. intros H. rewrite nth_overflow by exact H. reflexivity. Qed.

(* remove_expired, slot by slot *)
Definition lpf_expire1 (now : Z) (s : lpf_slot) : lpf_slot :=
  match sl_key s with
  | Some _ => if sl_expires s <? now then lpf_slot_reset s else s
  | None => s
  end.

Lemma lpf_remove_expired_map now ss : lpf_remove_expired now ss = map (lpf_expire1 now) ss.
Proof. reflexivity. Qed.

Lemma lpf_remove_expired_length now ss : length (lpf_remove_expired now ss) = length ss.
Proof. rewrite lpf_remove_expired_map. apply map_length. Qed.

Lemma lpf_remove_expired_nth now ss j :
  nth j (lpf_remove_expired now ss) lpf_slot_new = lpf_expire1 now (nth j ss lpf_slot_new).
Proof.
  rewrite lpf_remove_expired_map.
  change lpf_slot_new with (lpf_expire1 now lpf_slot_new) at 1. apply map_nth.
Qed.

(* ================================================================================
   1. the generic (any key) invariant that keeps process_sixlowpan_fragment panic-free
   ================================================================================ *)

(* `&self.buffer[..total_size]` in assemble() is in range *)
Definition gen_pa (p : lpf_pa) : Prop := forall t, pa_total p = Some t -> 0 <= t <= blen (pa_buf p).
Definition gen_slot (s : lpf_slot) : Prop := gen_pa (sl_pa s).

Lemma gen_slot_reset s : gen_slot (lpf_slot_reset s).
Proof. unfold gen_slot, gen_pa, lpf_slot_reset, lpf_pa_reset. cbn. intros t H. discriminate H. Qed.

Lemma gen_slots_new : Forall gen_slot lpf_slots_new.
Proof.
  unfold lpf_slots_new. apply Forall_forall. intros s Hin. apply repeat_spec in Hin. subst s.
  unfold gen_slot, gen_pa, lpf_slot_new, lpf_pa_new. cbn. intros t H. discriminate H.
Qed.

Lemma gen_remove_expired now ss : Forall gen_slot ss -> Forall gen_slot (lpf_remove_expired now ss).
Proof.
  intros H. rewrite lpf_remove_expired_map. apply Forall_forall. intros s Hin.
  apply in_map_iff in Hin. destruct Hin as (s0 & <- & Hin0). rewrite Forall_forall in H. specialize (H s0 Hin0).
  unfold lpf_expire1. destruct (sl_key s0); [|exact H]. destruct (sl_expires s0 <? now); [apply gen_slot_reset | exact H].
Qed.

Lemma slot_inv_reset D k s : slot_inv D k (lpf_slot_reset s).
Proof. unfold slot_inv, lpf_slot_reset, lpf_pa_reset. cbn. auto. Qed.

Lemma slot_inv_remove_expired D k now ss :
  Forall (slot_inv D k) ss -> Forall (slot_inv D k) (lpf_remove_expired now ss).
Proof.
  intros H. rewrite lpf_remove_expired_map. apply Forall_forall. intros s Hin.
  apply in_map_iff in Hin. destruct Hin as (s0 & <- & Hin0). rewrite Forall_forall in H. specialize (H s0 Hin0).
  unfold lpf_expire1. destruct (sl_key s0) eqn:Ek; [|exact H].
  destruct (sl_expires s0 <? now); [apply slot_inv_reset | exact H].
Qed.

(* ---------- PacketAssemblerSet::get ---------- *)

Lemma lpf_find_key_none k : forall ss j, lpf_find_key k ss j = None ->
  forall i, (i < length ss)%nat -> sl_key (nth i ss lpf_slot_new) <> Some k.
Proof.
  induction ss as [|s r IH]; intros j H i Hi; [cbn in Hi; lia|]. cbn [lpf_find_key] in H.
  destruct (sl_key s) as [k'|] eqn:Ek.
  - destruct (lpf_key_eqb k' k) eqn:E; [discriminate H|].
    destruct i as [|i]; cbn [nth].
    + rewrite Ek. intros Heq. injection Heq as ->. rewrite lpf_key_eqb_refl in E. discriminate E.
    + apply (IH _ H). cbn in Hi. lia.
  - destruct i as [|i]; cbn [nth].
    + rewrite Ek. discriminate.
    + apply (IH _ H). cbn in Hi. lia.
Qed.

(* the first slot carrying the key *)
Lemma lpf_find_key_first k : forall ss j i, lpf_find_key k ss j = Some i ->
  forall i', (i' < i - j)%nat -> sl_key (nth i' ss lpf_slot_new) <> Some k.
Proof.
  induction ss as [|s r IH]; intros j i H i' Hi'; [discriminate H|]. cbn [lpf_find_key] in H.
  destruct (sl_key s) as [k'|] eqn:Ek.
  - destruct (lpf_key_eqb k' k) eqn:E.
    + injection H as <-. lia.
    + destruct (lpf_find_key_spec k r (S j) i H) as (Hr & _).
      destruct i' as [|i']; cbn [nth].
      * rewrite Ek. intros Heq. injection Heq as ->. rewrite lpf_key_eqb_refl in E. discriminate E.
      * apply (IH _ _ H). lia.
  - destruct (lpf_find_key_spec k r (S j) i H) as (Hr & _).
    destruct i' as [|i']; cbn [nth].
    + rewrite Ek. discriminate.
    + apply (IH _ _ H). lia.
Qed.

Lemma lpf_find_key_some k : forall ss j i0, (i0 < length ss)%nat -> sl_key (nth i0 ss lpf_slot_new) = Some k ->
  exists i, lpf_find_key k ss j = Some i.
Proof.
  induction ss as [|s r IH]; intros j i0 Hi Hk; [cbn in Hi; lia|]. cbn [lpf_find_key].
  destruct (sl_key s) as [k'|] eqn:Ek.
  - destruct (lpf_key_eqb k' k) eqn:E; [eauto|].
    destruct i0 as [|i0]; cbn [nth] in Hk.
    + rewrite Ek in Hk. injection Hk as ->. rewrite lpf_key_eqb_refl in E. discriminate E.
    + apply (IH (S j) i0); [cbn in Hi; lia | exact Hk].
  - destruct i0 as [|i0]; cbn [nth] in Hk.
    + rewrite Ek in Hk. discriminate Hk.
    + apply (IH (S j) i0); [cbn in Hi; lia | exact Hk].
Qed.

Lemma lpf_last_free_none : forall ss j acc, lpf_last_free ss j acc = None ->
  acc = None /\ forall i, (i < length ss)%nat -> sl_key (nth i ss lpf_slot_new) <> None.
Proof.
  induction ss as [|s r IH]; intros j acc H; [split; [exact H | cbn; intros; lia]|].
  cbn [lpf_last_free] in H. destruct (IH _ _ H) as (Hacc & Hr).
  destruct (sl_key s) eqn:Ek; [|discriminate Hacc]. split; [exact Hacc|].
  intros [|i] Hi; cbn [nth]; [rewrite Ek; discriminate | apply Hr; cbn in Hi; lia].
Qed.

(* what get(key, expires_at) returns, uniformly: the set with slot [i] replaced by [s1] *)
Lemma lpf_get_spec k e ss i ss1 : lpf_get k e ss = Some (i, ss1) ->
  (i < length ss)%nat /\
  exists s1, ss1 = lpf_update ss i s1 /\ nth i ss1 lpf_slot_new = s1 /\
    sl_key s1 = Some k /\ sl_pa s1 = sl_pa (nth i ss lpf_slot_new) /\
    ((s1 = nth i ss lpf_slot_new /\ sl_key (nth i ss lpf_slot_new) = Some k /\
      forall i', (i' < i)%nat -> sl_key (nth i' ss lpf_slot_new) <> Some k) \/
     (sl_key (nth i ss lpf_slot_new) = None /\ sl_expires s1 = e /\
      forall j, (j < length ss)%nat -> sl_key (nth j ss lpf_slot_new) <> Some k)).
Proof.
  unfold lpf_get. destruct (lpf_find_key k ss 0) as [i0|] eqn:Ef.
  - intros H. injection H as <- <-. destruct (lpf_find_key_spec k ss 0 i0 Ef) as (Hi & Hk).
    rewrite Nat.sub_0_r in Hk. split; [lia|]. exists (nth i0 ss lpf_slot_new).
    split; [symmetry; apply lpf_update_same|]. split; [reflexivity|]. split; [exact Hk|]. split; [reflexivity|].
    left. split; [reflexivity|]. split; [exact Hk|].
    intros i' Hi'. apply (lpf_find_key_first k ss 0 i0 Ef). lia.
  - destruct (lpf_last_free ss 0 None) as [i0|] eqn:El; [|discriminate].
    intros H. injection H as <- <-.
    destruct (lpf_last_free_spec ss 0 None i0 El) as [Hacc|(Hi & Hk)]; [discriminate Hacc|].
    rewrite Nat.sub_0_r in Hk. split; [lia|]. eexists. split; [reflexivity|].
    split; [apply lpf_update_nth; lia|]. cbn [sl_key sl_pa sl_expires]. split; [reflexivity|]. split; [reflexivity|].
    right. split; [exact Hk|]. split; [reflexivity|]. exact (lpf_find_key_none k ss 0 Ef).
Qed.

Lemma lpf_get_none k e ss : lpf_get k e ss = None ->
  forall i, (i < length ss)%nat -> sl_key (nth i ss lpf_slot_new) <> Some k /\ sl_key (nth i ss lpf_slot_new) <> None.
Proof.
  unfold lpf_get. destruct (lpf_find_key k ss 0) eqn:Ef; [discriminate|].
  destruct (lpf_last_free ss 0 None) eqn:El; [discriminate|]. intros _ i Hi.
  split; [exact (lpf_find_key_none k ss 0 Ef i Hi) | exact (proj2 (lpf_last_free_none ss 0 None El) i Hi)].
Qed.

(* ---------- the PacketAssembler operations, structurally ---------- *)

Lemma lpf_pa_set_total_size_spec p size p1 : lpf_pa_set_total_size p size = Some p1 ->
  pa_asm p1 = pa_asm p /\ pa_total p1 = Some size /\ blen (pa_buf p1) = Z.max (blen (pa_buf p)) size.
Proof.
  unfold lpf_pa_set_total_size. destruct (pa_total p) as [old|].
  - destruct (negb (old =? size)); [discriminate|]. intros H. injection H as <-. cbn. rewrite lpf_grow_len. auto.
  - intros H. injection H as <-. cbn. rewrite lpf_grow_len. auto.
Qed.

Lemma lpf_pa_add_spec p data off p2 : lpf_pa_add p data off = Ok p2 ->
  pa_asm p2 = fst (asm_add lpf_ASM_SEGMENTS (pa_asm p) off (blen data)) /\ pa_total p2 = pa_total p /\
  blen (pa_buf p) <= blen (pa_buf p2).
Proof.
  unfold lpf_pa_add. intros H. obind_inv H. injection H as <-. cbn.
  apply wb_set_slice_len in E. rewrite lpf_grow_len in E. split; [reflexivity|]. split; [reflexivity|]. lia.
Qed.

Lemma lpf_pa_add_total p data off : 0 <= off -> exists p2, lpf_pa_add p data off = Ok p2.
Proof.
  intros Ho. unfold lpf_pa_add. pose proof (blen_nonneg data) as Hd.
  pose proof (lpf_grow_len (pa_buf p) (off + blen data)) as Hg.
  unfold wb_set_slice.
  replace ((0 <=? off) && (off <=? off + blen data) && (off + blen data <=? blen (lpf_grow (pa_buf p) (off + blen data))) &&
           (blen data =? off + blen data - off)) with true by (symmetry; zbool; reflexivity).
  cbn [obind]. eauto.
Qed.

Lemma lpf_pa_add_first_spec p d1 p2 : lpf_pa_add_first p d1 = Ok p2 ->
  exists d, d1 (blen (pa_buf p)) = Ok d /\
    pa_asm p2 = fst (asm_add lpf_ASM_SEGMENTS (pa_asm p) 0 (blen d)) /\ pa_total p2 = pa_total p /\
    blen (pa_buf p2) = blen (pa_buf p).
Proof.
  unfold lpf_pa_add_first. intros H. apply obind_ok in H. destruct H as (d & Hd & H).
  destruct (blen (pa_buf p) <? blen d); [discriminate H|]. obind_inv H. injection H as <-. cbn.
  apply wb_set_slice_len in E. exists d. auto.
Qed.

(* ================================================================================
   2. events
   ================================================================================ *)

Inductive lpl_ev :=
| EvFrag (t : Z) (src dst : list Z) (f : lpf_rx_frag)     (* a FRAG1 / FRAGN frame *)
| EvOther (t : Z) (r : option (list Z)).                  (* any other frame (result: r), or just a poll *)

Definition ev_time (e : lpl_ev) : Z := match e with EvFrag t _ _ _ => t | EvOther t _ => t end.

Definition ev_step (timeout : Z) (e : lpl_ev) (ss : list lpf_slot) : outcome (list lpf_slot * option (list Z)) :=
  match e with
  | EvFrag t src dst f => lpf_process_fragment t timeout src dst f (lpf_remove_expired t ss)
  | EvOther t r => Ok (lpf_remove_expired t ss, r)
  end.

Fixpoint ev_run (timeout : Z) (evs : list lpl_ev) (ss : list lpf_slot)
  : outcome (list lpf_slot * list (option (list Z))) :=
  match evs with
  | [] => Ok (ss, [])
  | e :: r =>
      do '(ss1, d) <- ev_step timeout e ss;
      do '(ss2, ds) <- ev_run timeout r ss1;
      Ok (ss2, d :: ds)
  end.

Definition frag_key (src dst : list Z) (f : lpf_rx_frag) : lpf_key :=
  (src, dst, lpf_hdr_size (rf_hdr f), lpf_hdr_tag (rf_hdr f)).

(* the event is a fragment travelling under key [k] *)
Definition ev_is (k : lpf_key) (e : lpl_ev) : Prop :=
  match e with EvFrag _ src dst f => frag_key src dst f = k | EvOther _ _ => False end.
Definition ev_isb (k : lpf_key) (e : lpl_ev) : bool :=
  match e with EvFrag _ src dst f => lpf_key_eqb (frag_key src dst f) k | EvOther _ _ => false end.

Lemma ev_isb_true k e : ev_isb k e = true <-> ev_is k e.
Proof.
  destruct e as [t src dst f|t r]; cbn [ev_isb ev_is]; [|split; [discriminate | tauto]].
  split; [apply lpf_key_eqb_eq | intros <-; apply lpf_key_eqb_refl].
Qed.

Lemma ev_is_dec k e : ev_is k e \/ ~ ev_is k e.
Proof. destruct (ev_isb k e) eqn:E; [left; apply ev_isb_true; exact E | right; intros H; apply ev_isb_true in H; congruence]. Qed.

(* what the receive path needs from a fragment record, whatever datagram it belongs to:
   a FRAGN offset is a u8, and the decompressor of a FRAG1 behaves like sixlowpan_to_ipv6
   (C20_decompress_no_panic): on a buffer of at least 40 octets it does not panic and what it
   writes fits the buffer *)
Definition frag_tame (f : lpf_rx_frag) : Prop :=
  match rf_hdr f with
  | SfFirst size _ => lpf_IPV6_HDR <= size ->
      forall n, lpf_IPV6_HDR <= n -> rf_first_dec f n <> Panic /\ forall d, rf_first_dec f n = Ok d -> blen d <= n
  | SfNext _ _ off => 0 <= off
  end.
Definition ev_tame (e : lpl_ev) : Prop := match e with EvFrag _ _ _ f => frag_tame f | EvOther _ _ => True end.

(* every fragment that travels under key k is a piece of D *)
Definition ev_piece (D : list Z) (k : lpf_key) (tag : Z) (e : lpl_ev) : Prop :=
  match e with EvFrag _ src dst f => frag_key src dst f = k -> piece_ok D tag f | EvOther _ _ => True end.

(* what is asked of the events of a run, relative to the datagram D travelling under key k:
   fragments under k are pieces of D, all other fragments are merely tame *)
Definition ev_ok (D : list Z) (k : lpf_key) (tag : Z) (e : lpl_ev) : Prop :=
  match e with
  | EvFrag _ src dst f => (frag_key src dst f = k -> piece_ok D tag f) /\ (frag_key src dst f <> k -> frag_tame f)
  | EvOther _ _ => True
  end.

(* ================================================================================
   3. one fragment of ANY datagram, from any state: no panic, and only the slot of its own key
      (or a free slot) is touched
   ================================================================================ *)

Definition step_shape (key : lpf_key) (ss ss' : list lpf_slot) : Prop :=
  ss' = ss \/
  exists i s', (i < length ss)%nat /\ ss' = lpf_update ss i s' /\ gen_slot s' /\
    (sl_key (nth i ss lpf_slot_new) = None \/ sl_key (nth i ss lpf_slot_new) = Some key) /\
    (sl_key s' = Some key \/ sl_key s' = None /\ pa_asm (sl_pa s') = asm_new /\ pa_total (sl_pa s') = None).

Lemma lpf_pa_add_first_cases p d1 :
  lpf_IPV6_HDR <= blen (pa_buf p) ->
  (forall n, lpf_IPV6_HDR <= n -> d1 n <> Panic /\ forall d, d1 n = Ok d -> blen d <= n) ->
  (exists p2, lpf_pa_add_first p d1 = Ok p2 /\ pa_total p2 = pa_total p /\ blen (pa_buf p2) = blen (pa_buf p)) \/
  (exists e, lpf_pa_add_first p d1 = Err e).
Proof.
  intros Hb Ht. destruct (Ht _ Hb) as (Hnp & Hfit). unfold lpf_pa_add_first.
  destruct (d1 (blen (pa_buf p))) as [d|e|] eqn:Ed; cbn [obind]; [|right; eauto|exfalso; apply Hnp; reflexivity].
  specialize (Hfit d eq_refl). pose proof (blen_nonneg d) as Hd.
  replace (blen (pa_buf p) <? blen d) with false by (symmetry; apply Z.ltb_ge; lia).
  unfold wb_set_slice.
  replace ((0 <=? 0) && (0 <=? blen d) && (blen d <=? blen (pa_buf p)) && (blen d =? blen d - 0)) with true
    by (symmetry; zbool; reflexivity).
  cbn [obind]. left. eexists. split; [reflexivity|]. cbn [pa_total pa_buf]. split; [reflexivity|].
  rewrite !blen_app. rewrite blen_firstn by lia. rewrite blen_skipn by lia. lia.
Qed.

Lemma lpf_process_fragment_struct now timeout src dst f ss :
  Forall gen_slot ss -> frag_tame f ->
  exists ss' r, lpf_process_fragment now timeout src dst f ss = Ok (ss', r) /\
                step_shape (frag_key src dst f) ss ss'.
Proof.
  intros Hg Ht. unfold lpf_process_fragment.
  destruct (lpf_hdr_size (rf_hdr f) <? lpf_IPV6_HDR) eqn:Es.
  { exists ss, None. split; [reflexivity | left; reflexivity]. }
  apply Z.ltb_ge in Es. change (src, dst, lpf_hdr_size (rf_hdr f), lpf_hdr_tag (rf_hdr f)) with (frag_key src dst f).
  set (key := frag_key src dst f) in *.
  destruct (lpf_get key (now + timeout) ss) as [(i, ss1)|] eqn:Eg.
  2: { exists ss, None. split; [reflexivity | left; reflexivity]. }
  destruct (lpf_get_spec key _ ss i ss1 Eg) as (Hi & s1 & Hss1 & Hnth & Hk1 & Hpa1 & Hold).
  rewrite Hnth.
  assert (Holdk : sl_key (nth i ss lpf_slot_new) = None \/ sl_key (nth i ss lpf_slot_new) = Some key)
    by (destruct Hold as [(_ & H & _)|(H & _)]; auto).
  assert (Hgs1 : gen_pa (sl_pa s1)).
  { rewrite Hpa1. exact (Forall_nth_default _ ss lpf_slot_new i Hg Hi). }
  (* whatever slot value ends up at index i *)
  assert (Hput : forall s', gen_slot s' ->
            (sl_key s' = Some key \/ sl_key s' = None /\ pa_asm (sl_pa s') = asm_new /\ pa_total (sl_pa s') = None) ->
            step_shape key ss (lpf_update ss1 i s')).
  { intros s' Hg' Hk'. right. exists i, s'. split; [exact Hi|]. split; [rewrite Hss1; apply lpf_update_twice|]. auto. }
  assert (Hfin : forall p, gen_pa p ->
    exists ss' r,
      (if lpf_pa_is_complete p then
         match pa_total p with
         | Some total => do d <- wb_sub (pa_buf p) 0 total;
                         Ok (lpf_update ss1 i (lpf_slot_reset (mkSlot (sl_key s1) p (sl_expires s1))), Some d)
         | None => Panic end
       else Ok (lpf_update ss1 i (mkSlot (sl_key s1) p (sl_expires s1)), None)) = Ok (ss', r) /\
      step_shape key ss ss').
  { intros p Hp. destruct (lpf_pa_is_complete p) eqn:Ec.
    - unfold lpf_pa_is_complete in Ec. destruct (pa_total p) as [t|] eqn:Et; [|discriminate Ec].
      destruct (Hp t Et) as (H0 & H1). rewrite wb_sub_ok by lia. cbn [obind].
      eexists _, _. split; [reflexivity|]. apply Hput; [apply gen_slot_reset|].
      right. cbn. auto.
    - eexists _, _. split; [reflexivity|]. apply Hput; [exact Hp|]. left. exact Hk1. }
  unfold frag_tame in Ht. destruct (rf_hdr f) as [size tag|size tag off] eqn:Eh; cbn [lpf_hdr_size] in Es; cbn [lpf_hdr_size].
  - destruct (lpf_pa_set_total_size (sl_pa s1) size) as [p|] eqn:Est.
    2: { cbn [obind]. exists ss1, None. split; [reflexivity|]. rewrite Hss1. right. exists i, s1.
         split; [exact Hi|]. split; [reflexivity|]. split; [exact Hgs1|]. auto. }
    destruct (lpf_pa_set_total_size_spec _ _ _ Est) as (_ & Htot & Hbl).
    destruct (lpf_pa_add_first_cases p (rf_first_dec f) ltac:(lia) (Ht Es)) as [(p2 & -> & Ht2 & Hb2)|(e & ->)]; cbn [obind].
    + apply Hfin. intros t Htt. rewrite Ht2, Htot in Htt. injection Htt as <-. unfold lpf_IPV6_HDR in Es. zfold_in Es. lia.
    + eexists _, _. split; [reflexivity|]. apply Hput; [|left; exact Hk1].
      intros t Htt. cbn [sl_pa] in Htt. rewrite Htot in Htt. injection Htt as <-. cbn [sl_pa].
      unfold lpf_IPV6_HDR in Es. zfold_in Es. lia.
  - destruct (lpf_pa_add_total (sl_pa s1) (rf_payload f) (off * 8) ltac:(lia)) as (p2 & Ea). rewrite Ea. cbn [obind].
    destruct (lpf_pa_add_spec _ _ _ _ Ea) as (_ & Ht2 & Hb2).
    apply Hfin. intros t Htt. rewrite Ht2 in Htt. specialize (Hgs1 t Htt). lia.
Qed.

Lemma step_shape_gen key ss ss' : Forall gen_slot ss -> step_shape key ss ss' ->
  Forall gen_slot ss' /\ length ss' = length ss.
Proof.
  intros Hg [->|(i & s' & Hi & -> & Hg' & _)]; [auto|].
  split; [apply Forall_lpf_update; assumption | apply lpf_update_length].
Qed.

(* a fragment of another key leaves every slot claimed for k alone and claims none for k *)
Lemma step_shape_frame k key ss ss' : key <> k -> step_shape key ss ss' ->
  forall j, (sl_key (nth j ss' lpf_slot_new) = Some k <-> sl_key (nth j ss lpf_slot_new) = Some k) /\
            (sl_key (nth j ss lpf_slot_new) = Some k -> nth j ss' lpf_slot_new = nth j ss lpf_slot_new).
Proof.
  intros Hne [->|(i & s' & Hi & -> & _ & Hold & Hnew)] j; [tauto|].
  destruct (Nat.eq_dec i j) as [<-|Hij].
  - rewrite lpf_update_nth by exact Hi.
    assert (H1 : sl_key s' <> Some k) by (destruct Hnew as [H|(H & _)]; rewrite H; congruence).
    assert (H2 : sl_key (nth i ss lpf_slot_new) <> Some k) by (destruct Hold as [H|H]; rewrite H; congruence).
    tauto.
  - rewrite lpf_update_nth_other by exact Hij. tauto.
Qed.

Lemma step_shape_slot_inv D k key ss ss' : key <> k -> step_shape key ss ss' ->
  Forall (slot_inv D k) ss -> Forall (slot_inv D k) ss'.
Proof.
  intros Hne [->|(i & s' & Hi & -> & _ & _ & Hnew)] Hs; [exact Hs|].
  apply Forall_lpf_update; [exact Hs|]. unfold slot_inv.
  destruct Hnew as [H|(H & Ha & Ht)]; rewrite H; [congruence | auto].
Qed.

(* ================================================================================
   4. the slot of key k as an abstract state machine
   ================================================================================ *)

Definition kslot (k : lpf_key) (ss : list lpf_slot) (i : nat) : Prop :=
  (i < length ss)%nat /\ sl_key (nth i ss lpf_slot_new) = Some k /\
  forall j, sl_key (nth j ss lpf_slot_new) = Some k -> j = i.
Definition no_kslot (k : lpf_key) (ss : list lpf_slot) : Prop :=
  forall j, sl_key (nth j ss lpf_slot_new) <> Some k.

(* abstract state of the reassembly of the datagram under key k: nothing, or
   (tracker contents, total_size, expires_at) of the slot claimed for k *)
Definition kabs : Type := option (asm * option Z * Z).

Definition kstate (D : list Z) (k : lpf_key) (ss : list lpf_slot) (st : kabs) : Prop :=
  Forall gen_slot ss /\ Forall (slot_inv D k) ss /\
  match st with
  | None => no_kslot k ss
  | Some (u, tot, texp) => exists i, kslot k ss i /\
      pa_asm (sl_pa (nth i ss lpf_slot_new)) = u /\ pa_total (sl_pa (nth i ss lpf_slot_new)) = tot /\
      sl_expires (nth i ss lpf_slot_new) = texp
  end.

(* remove_expired(t): `expires_at < timestamp` *)
Definition kexpire (t : Z) (st : kabs) : kabs :=
  match st with
  | Some (u, tot, texp) => if texp <? t then None else st
  | None => None
  end.

Lemma lpf_expire1_key t s k : sl_key (lpf_expire1 t s) = Some k -> sl_key s = Some k /\ lpf_expire1 t s = s.
Proof.
  unfold lpf_expire1. destruct (sl_key s) as [k'|] eqn:Ek; [|intros H; rewrite Ek in H; discriminate H].
  destruct (sl_expires s <? t); [cbn; discriminate|]. rewrite Ek. auto.
Qed.

Lemma kstate_expire D k ss st t : kstate D k ss st -> kstate D k (lpf_remove_expired t ss) (kexpire t st).
Proof.
  intros (Hg & Hs & Hk). split; [apply gen_remove_expired; exact Hg|]. split; [apply slot_inv_remove_expired; exact Hs|].
  destruct st as [((u, tot), texp)|]; cbn [kexpire].
  - destruct Hk as (i & (Hi & Hki & Hu) & Ha & Ht & He).
    assert (Hall : forall j, sl_key (nth j (lpf_remove_expired t ss) lpf_slot_new) = Some k -> j = i).
    { intros j Hj. rewrite lpf_remove_expired_nth in Hj. apply lpf_expire1_key in Hj. apply Hu. tauto. }
    destruct (texp <? t) eqn:E.
    + intros j Hj. pose proof (Hall j Hj) as ->. rewrite lpf_remove_expired_nth in Hj.
      unfold lpf_expire1 in Hj. rewrite Hki, He, E in Hj. cbn in Hj. discriminate Hj.
    + assert (Hsame : nth i (lpf_remove_expired t ss) lpf_slot_new = nth i ss lpf_slot_new).
      { rewrite lpf_remove_expired_nth. unfold lpf_expire1. rewrite Hki, He, E. reflexivity. }
      exists i. unfold kslot. rewrite Hsame. split; [|auto]. split; [rewrite lpf_remove_expired_length; exact Hi|].
      split; [exact Hki | exact Hall].
  - intros j Hj. rewrite lpf_remove_expired_nth in Hj. apply lpf_expire1_key in Hj. exact (Hk j (proj1 Hj)).
Qed.

(* the range a fragment record occupies in the datagram, whether it is a FRAG1, and the bookkeeping
   of process_sixlowpan_fragment on the abstract state *)
Definition frag_span (D : list Z) (f : lpf_rx_frag) : Z * Z :=
  match rf_hdr f with
  | SfFirst _ _ => (0, match rf_first_dec f (blen D) with Ok d => blen d | _ => 0 end)
  | SfNext _ _ off => (off * 8, blen (rf_payload f))
  end.
Definition frag_is_first (f : lpf_rx_frag) : bool := match rf_hdr f with SfFirst _ _ => true | _ => false end.
Definition knext_tot (D : list Z) (f : lpf_rx_frag) (tot : option Z) : option Z :=
  if frag_is_first f then Some (blen D) else tot.
(* PacketAssembler::is_complete *)
Definition kdone (u : asm) (tot : option Z) : bool :=
  match tot with Some t => t =? asm_peek_front u | None => false end.

Definition kabs_add (D : list Z) (f : lpf_rx_frag) (x : asm * option Z * Z) : kabs * option (list Z) :=
  let '(u, tot, texp) := x in
  let u' := fst (asm_add lpf_N u (fst (frag_span D f)) (snd (frag_span D f))) in
  let tot' := knext_tot D f tot in
  if kdone u' tot' then (None, Some D) else (Some (u', tot', texp), None).

(* a fragment under key k at time t; [avail]: get() finds a free slot when none is claimed for k *)
Definition kabs_frag (D : list Z) (timeout t : Z) (f : lpf_rx_frag) (avail : bool) (st : kabs) : kabs * option (list Z) :=
  match kexpire t st with
  | Some x => kabs_add D f x
  | None => if avail then kabs_add D f (asm_new, None, t + timeout) else (None, None)
  end.

Lemma pa_inv_gen D p : pa_inv D p -> gen_pa p.
Proof.
  intros (_ & Ht & Hb & _) t Htt. pose proof (blen_nonneg D).
  destruct Ht as [Ht|Ht]; rewrite Ht in Htt; [discriminate Htt|]. injection Htt as <-.
  specialize (Hb Ht). lia.
Qed.

Lemma lpf_get_kslot k e ss i : kslot k ss i -> lpf_get k e ss = Some (i, ss).
Proof.
  intros (Hi & Hk & Hu). unfold lpf_get.
  destruct (lpf_find_key_some k ss 0 i Hi Hk) as (i0 & E). rewrite E.
  destruct (lpf_find_key_spec k ss 0 i0 E) as (_ & Hk0). rewrite Nat.sub_0_r in Hk0.
  rewrite (Hu i0 Hk0). reflexivity.
Qed.

Lemma kslot_update k ss i s' : kslot k ss i -> sl_key s' = Some k -> kslot k (lpf_update ss i s') i.
Proof.
  intros (Hi & Hk & Hu) Hk'. split; [rewrite lpf_update_length; exact Hi|].
  split; [rewrite lpf_update_nth by exact Hi; exact Hk'|].
  intros j Hj. destruct (Nat.eq_dec i j) as [<-|Hne]; [reflexivity|].
  rewrite lpf_update_nth_other in Hj by exact Hne. exact (Hu j Hj).
Qed.

Lemma no_kslot_update k ss i s' : kslot k ss i -> sl_key s' <> Some k -> no_kslot k (lpf_update ss i s').
Proof.
  intros (Hi & Hk & Hu) Hk' j Hj. destruct (Nat.eq_dec i j) as [<-|Hne].
  - rewrite lpf_update_nth in Hj by exact Hi. contradiction.
  - rewrite lpf_update_nth_other in Hj by exact Hne. apply Hne. symmetry. exact (Hu j Hj).
Qed.

(* one fragment of D under key k when a slot is claimed for k *)
Lemma kstep D tag now timeout src dst f ss u tot texp :
  lpf_IPV6_HDR <= blen D ->
  frag_key src dst f = (src, dst, blen D, tag) -> piece_ok D tag f ->
  kstate D (src, dst, blen D, tag) ss (Some (u, tot, texp)) ->
  exists ss', lpf_process_fragment now timeout src dst f ss = Ok (ss', snd (kabs_add D f (u, tot, texp))) /\
              kstate D (src, dst, blen D, tag) ss' (fst (kabs_add D f (u, tot, texp))).
Proof.
  intros Hsz Hkey Hp (Hg & Hs & i & Hks & Hu & Htot & Hexp). set (k := (src, dst, blen D, tag)) in *.
  unfold lpf_process_fragment.
  change (src, dst, lpf_hdr_size (rf_hdr f), lpf_hdr_tag (rf_hdr f)) with (frag_key src dst f). rewrite Hkey.
  assert (Hhs : lpf_hdr_size (rf_hdr f) = blen D).
  { unfold frag_key in Hkey. injection Hkey as H _. exact H. }
  rewrite Hhs. replace (blen D <? lpf_IPV6_HDR) with false by (symmetry; apply Z.ltb_ge; lia).
  fold k. rewrite (lpf_get_kslot k _ ss i Hks).
  destruct Hks as (Hi & Hki & Huniq).
  set (s := nth i ss lpf_slot_new) in *.
  assert (Hpa : pa_inv D (sl_pa s)).
  { pose proof (Forall_nth_default _ ss lpf_slot_new i Hs Hi) as H. fold s in H. unfold slot_inv in H.
    rewrite Hki in H. apply H. reflexivity. }
  (* common finish *)
  assert (Hfin : forall p, pa_inv D p ->
    pa_asm p = fst (asm_add lpf_N u (fst (frag_span D f)) (snd (frag_span D f))) ->
    pa_total p = knext_tot D f tot ->
    exists ss',
      (if lpf_pa_is_complete p then
         match pa_total p with
         | Some total => do d <- wb_sub (pa_buf p) 0 total;
                         Ok (lpf_update ss i (lpf_slot_reset (mkSlot (sl_key s) p (sl_expires s))), Some d)
         | None => Panic end
       else Ok (lpf_update ss i (mkSlot (sl_key s) p (sl_expires s)), None)) =
      Ok (ss', snd (kabs_add D f (u, tot, texp))) /\
      kstate D k ss' (fst (kabs_add D f (u, tot, texp)))).
  { intros p Hp' Ha Ht. unfold kabs_add.
    assert (Ec : lpf_pa_is_complete p =
                 kdone (fst (asm_add lpf_N u (fst (frag_span D f)) (snd (frag_span D f)))) (knext_tot D f tot)).
    { unfold lpf_pa_is_complete, kdone. rewrite Ht, Ha. reflexivity. }
    rewrite <- Ec. destruct (lpf_pa_is_complete p) eqn:Ecp.
    - destruct (pa_inv_complete D p Hp' ltac:(unfold lpf_IPV6_HDR in Hsz; zfold_in Hsz; lia) Ecp) as (Ht' & Hsub).
      rewrite Ht', Hsub. cbn [obind fst snd]. eexists. split; [reflexivity|].
      split; [apply Forall_lpf_update; [exact Hg | apply gen_slot_reset]|].
      split; [apply Forall_lpf_update; [exact Hs | apply slot_inv_reset]|].
      apply (no_kslot_update k ss i); [split; [exact Hi | split; [exact Hki | exact Huniq]]|]. cbn. discriminate.
    - cbn [fst snd]. eexists. split; [reflexivity|].
      split; [apply Forall_lpf_update; [exact Hg | exact (pa_inv_gen D p Hp')]|].
      split; [apply Forall_lpf_update; [exact Hs|]; unfold slot_inv; cbn [sl_key sl_pa]; rewrite Hki; intros _; exact Hp'|].
      exists i. split; [apply kslot_update; [split; [exact Hi | split; [exact Hki | exact Huniq]] | exact Hki]|].
      rewrite lpf_update_nth by exact Hi. cbn [sl_pa sl_expires]. rewrite Ha, Ht. auto. }
  unfold piece_ok in Hp. unfold frag_span, knext_tot, frag_is_first in Hfin.
  destruct (rf_hdr f) as [sz tg|sz tg off] eqn:Eh.
  - destruct Hp as (_ & _ & d & Hdec & Hdl & Hdp).
    destruct (pa_inv_set_total D (sl_pa s) Hpa) as (p1 & E1 & Hp1 & Ht1). rewrite E1.
    destruct (lpf_pa_set_total_size_spec _ _ _ E1) as (Ha1 & _ & _).
    assert (Hbl : blen D <= blen (pa_buf p1)) by (destruct Hp1 as (_ & _ & Hb & _); auto).
    destruct (pa_inv_add_first D p1 (rf_first_dec f) d Hp1 Ht1 (Hdec _ Hbl) Hdl Hdp) as (p2 & E2 & Hp2 & Ht2 & _).
    rewrite E2. cbn [obind].
    destruct (lpf_pa_add_first_spec _ _ _ E2) as (d' & Hd' & Ha2 & _ & _).
    rewrite (Hdec _ Hbl) in Hd'. injection Hd' as <-.
    apply Hfin; [exact Hp2 | | rewrite Ht2; exact Ht1].
    rewrite Ha2, Ha1, Hu. cbn [fst snd]. rewrite (Hdec (blen D) ltac:(lia)). reflexivity.
  - destruct Hp as (_ & _ & Hoff & Hle & Hpl).
    destruct (pa_inv_add D (sl_pa s) (rf_payload f) (off * 8) Hpa ltac:(lia) Hle Hpl) as (p2 & E2 & Hp2 & Ht2 & _).
    rewrite E2. cbn [obind].
    destruct (lpf_pa_add_spec _ _ _ _ E2) as (Ha2 & _ & _).
    apply Hfin; [exact Hp2 | rewrite Ha2, Hu; reflexivity | rewrite Ht2; exact Htot].
Qed.

Definition slot_avail (t : Z) (s : lpf_slot) : Prop := sl_key s = None \/ sl_expires s < t.

Lemma lpf_last_free_avail t ss : (exists j, (j < length ss)%nat /\ slot_avail t (nth j ss lpf_slot_new)) ->
  exists i, lpf_last_free (lpf_remove_expired t ss) 0 None = Some i.
Proof.
  intros (j & Hj & Hav). destruct (lpf_last_free (lpf_remove_expired t ss) 0 None) as [i|] eqn:E; [eauto|].
  exfalso. destruct (lpf_last_free_none _ _ _ E) as (_ & Hall).
  apply (Hall j); [rewrite lpf_remove_expired_length; exact Hj|].
  rewrite lpf_remove_expired_nth. unfold lpf_expire1.
  destruct (sl_key (nth j ss lpf_slot_new)) eqn:Ek; [|exact Ek].
  destruct Hav as [Hav|Hav]; [rewrite Hav in Ek; discriminate Ek|].
  replace (sl_expires (nth j ss lpf_slot_new) <? t) with true by (symmetry; apply Z.ltb_lt; lia). reflexivity.
Qed.

(* M: one event against the abstract state of key k *)
Theorem ev_step_kabs D tag src dst timeout e ss st :
  lpf_IPV6_HDR <= blen D -> let k := (src, dst, blen D, tag) in
  kstate D k ss st -> ev_ok D k tag e ->
  match e with
  | EvFrag t src' dst' f =>
      if lpf_key_eqb (frag_key src' dst' f) k then
        exists avail ss', ev_step timeout e ss = Ok (ss', snd (kabs_frag D timeout t f avail st)) /\
                          kstate D k ss' (fst (kabs_frag D timeout t f avail st)) /\
                          ((exists j, (j < length ss)%nat /\ slot_avail t (nth j ss lpf_slot_new)) -> avail = true)
      else exists ss' r, ev_step timeout e ss = Ok (ss', r) /\ kstate D k ss' (kexpire t st)
  | EvOther t r => ev_step timeout e ss = Ok (lpf_remove_expired t ss, r) /\
                   kstate D k (lpf_remove_expired t ss) (kexpire t st)
  end.
Proof.
  intros Hsz k Hst Hok. destruct e as [t src' dst' f|t r].
  2: { split; [reflexivity | apply kstate_expire; exact Hst]. }
  cbn [ev_ok] in Hok. destruct Hok as (Hpiece & Htame).
  pose proof (kstate_expire D k ss st t Hst) as Hst_e. cbn [ev_step].
  set (ss_e := lpf_remove_expired t ss) in *.
  destruct (lpf_key_eqb (frag_key src' dst' f) k) eqn:Ek.
  - apply lpf_key_eqb_eq in Ek. specialize (Hpiece Ek).
    assert (Hsd : src' = src /\ dst' = dst) by (unfold frag_key, k in Ek; injection Ek; auto).
    destruct Hsd as (-> & ->).
    unfold kabs_frag. destruct (kexpire t st) as [((u, tot), texp)|] eqn:Eexp.
    + destruct (kstep D tag t timeout src dst f ss_e u tot texp Hsz Ek Hpiece Hst_e) as (ss' & E & Hst').
      exists true, ss'. auto.
    + (* no slot is claimed for k: get() takes the last free slot, if any *)
      destruct Hst_e as (Hg & Hs & Hno).
      destruct (lpf_get k (t + timeout) ss_e) as [(i, ss_c)|] eqn:Eg.
      * destruct (lpf_get_spec k _ ss_e i ss_c Eg) as (Hi & s1 & Hss1 & Hnth & Hk1 & Hpa1 & Hold).
        destruct Hold as [(_ & Hkk & _)|(Hfree & Hexp1 & _)]; [exfalso; exact (Hno i Hkk)|].
        assert (Hfi : slot_inv D k (nth i ss_e lpf_slot_new)) by exact (Forall_nth_default _ ss_e lpf_slot_new i Hs Hi).
        unfold slot_inv in Hfi. rewrite Hfree in Hfi. destruct Hfi as (Hfa & Hft).
        assert (Hksc : kslot k ss_c i).
        { split; [rewrite Hss1, lpf_update_length; exact Hi|]. split; [rewrite Hnth; exact Hk1|].
          intros j Hj. destruct (Nat.eq_dec i j) as [<-|Hne]; [reflexivity|].
          rewrite Hss1, lpf_update_nth_other in Hj by exact Hne. exfalso. exact (Hno j Hj). }
        assert (Hst_c : kstate D k ss_c (Some (asm_new, None, t + timeout))).
        { split; [rewrite Hss1; apply Forall_lpf_update; [exact Hg|]; unfold gen_slot; rewrite Hpa1;
                  exact (Forall_nth_default _ ss_e lpf_slot_new i Hg Hi)|].
          split; [rewrite Hss1; apply Forall_lpf_update; [exact Hs|]; unfold slot_inv; rewrite Hk1; intros _;
                  rewrite Hpa1; apply (slot_inv_free_pa D k _ (Forall_nth_default _ ss_e lpf_slot_new i Hs Hi) Hfree)|].
          exists i. split; [exact Hksc|]. rewrite Hnth, Hpa1. auto. }
        destruct (kstep D tag t timeout src dst f ss_c asm_new None (t + timeout) Hsz Ek Hpiece Hst_c) as (ss' & E & Hst').
        exists true, ss'. split; [|split; [exact Hst' | reflexivity]].
        rewrite <- E. unfold lpf_process_fragment.
        change (src, dst, lpf_hdr_size (rf_hdr f), lpf_hdr_tag (rf_hdr f)) with (frag_key src dst f). rewrite Ek.
        assert (Hhs : lpf_hdr_size (rf_hdr f) = blen D) by (unfold frag_key, k in Ek; injection Ek as H _; exact H).
        rewrite Hhs. replace (blen D <? lpf_IPV6_HDR) with false by (symmetry; apply Z.ltb_ge; lia).
        fold k. rewrite Eg, (lpf_get_kslot k _ ss_c i Hksc). reflexivity.
      * exists false, ss_e. split.
        { unfold lpf_process_fragment.
          change (src, dst, lpf_hdr_size (rf_hdr f), lpf_hdr_tag (rf_hdr f)) with (frag_key src dst f). rewrite Ek.
          fold k. rewrite Eg. destruct (_ <? _); reflexivity. }
        split; [split; [exact Hg | split; [exact Hs | exact Hno]]|].
        intros Hav. exfalso. destruct (lpf_last_free_avail t ss Hav) as (i & El). fold ss_e in El.
        unfold lpf_get in Eg. destruct (lpf_find_key k ss_e 0); [discriminate Eg|]. rewrite El in Eg. discriminate Eg.
  - assert (Hne : frag_key src' dst' f <> k).
    { intros H. rewrite H, lpf_key_eqb_refl in Ek. discriminate Ek. }
    destruct Hst_e as (Hg & Hs & Hk).
    destruct (lpf_process_fragment_struct t timeout src' dst' f ss_e Hg (Htame Hne)) as (ss' & r & E & Hshape).
    exists ss', r. split; [exact E|].
    destruct (step_shape_gen _ _ _ Hg Hshape) as (Hg' & Hlen).
    split; [exact Hg'|]. split; [exact (step_shape_slot_inv D k _ _ _ Hne Hshape Hs)|].
    pose proof (step_shape_frame k _ _ _ Hne Hshape) as Hfr.
    destruct (kexpire t st) as [((u, tot), texp)|].
    + destruct Hk as (i & (Hi & Hki & Hu) & Ha & Ht & He). exists i. unfold kslot.
      rewrite (proj2 (Hfr i) Hki). split; [|auto].
      split; [rewrite Hlen; exact Hi|]. split; [exact Hki|]. intros j Hj. apply Hu. apply (Hfr j). exact Hj.
    + intros j Hj. apply (Hk j). apply (Hfr j). exact Hj.
Qed.

(* ================================================================================
   5. runs: refinement of the slot set by the abstract state
   ================================================================================ *)

Inductive kabs_run (D : list Z) (timeout : Z) (k : lpf_key)
  : kabs -> list lpl_ev -> list (option (list Z)) -> kabs -> Prop :=
| kr_nil st : kabs_run D timeout k st [] [] st
| kr_frag st t src dst f avail evs rs st' : frag_key src dst f = k ->
    kabs_run D timeout k (fst (kabs_frag D timeout t f avail st)) evs rs st' ->
    kabs_run D timeout k st (EvFrag t src dst f :: evs) (snd (kabs_frag D timeout t f avail st) :: rs) st'
| kr_other st e r evs rs st' : ~ ev_is k e ->
    kabs_run D timeout k (kexpire (ev_time e) st) evs rs st' ->
    kabs_run D timeout k st (e :: evs) (r :: rs) st'.

(* R: every run of the model is a run of the abstract machine of key k, for ANY interleaving with
   tame fragments of other datagrams / senders and any timing; in particular it never panics *)
Theorem ev_run_refines D tag src dst timeout : forall evs ss st,
  lpf_IPV6_HDR <= blen D -> let k := (src, dst, blen D, tag) in
  kstate D k ss st -> Forall (ev_ok D k tag) evs ->
  exists ss' rs st', ev_run timeout evs ss = Ok (ss', rs) /\ kstate D k ss' st' /\ kabs_run D timeout k st evs rs st'.
Proof.
  intros evs ss st Hsz k. revert ss st. induction evs as [|e evs IH]; intros ss st Hst Hok.
  - exists ss, [], st. split; [reflexivity|]. split; [exact Hst | constructor].
  - inversion Hok as [|? ? He Hrest]; subst.
    pose proof (ev_step_kabs D tag src dst timeout e ss st Hsz Hst He) as HM. cbv zeta in HM. fold k in HM. cbn [ev_run].
    destruct e as [t src' dst' f|t r].
    + destruct (lpf_key_eqb (frag_key src' dst' f) k) eqn:Ek.
      * destruct HM as (avail & ss1 & E1 & Hst1 & _). rewrite E1. cbn [obind].
        destruct (IH ss1 _ Hst1 Hrest) as (ss2 & rs & st2 & E2 & Hst2 & Hrun). rewrite E2. cbn [obind].
        eexists _, _, _. split; [reflexivity|]. split; [exact Hst2|].
        apply kr_frag; [apply lpf_key_eqb_eq; exact Ek | exact Hrun].
      * destruct HM as (ss1 & r & E1 & Hst1). rewrite E1. cbn [obind].
        destruct (IH ss1 _ Hst1 Hrest) as (ss2 & rs & st2 & E2 & Hst2 & Hrun). rewrite E2. cbn [obind].
        eexists _, _, _. split; [reflexivity|]. split; [exact Hst2|].
        apply kr_other; [|exact Hrun]. cbn [ev_is]. intros H. rewrite H, lpf_key_eqb_refl in Ek. discriminate Ek.
    + destruct HM as (E1 & Hst1). rewrite E1. cbn [obind].
      destruct (IH _ _ Hst1 Hrest) as (ss2 & rs & st2 & E2 & Hst2 & Hrun). rewrite E2. cbn [obind].
      eexists _, _, _. split; [reflexivity|]. split; [exact Hst2|].
      apply kr_other; [cbn; tauto | exact Hrun].
Qed.

(* the same when the first event is a fragment under k that finds a free (or expired) slot and no
   slot claimed for k: from then on the run is that of a slot created at that instant *)
Theorem ev_run_refines_claim D tag src dst timeout t0 f0 rest ss :
  lpf_IPV6_HDR <= blen D -> 0 <= timeout -> let k := (src, dst, blen D, tag) in
  kstate D k ss None -> Forall (ev_ok D k tag) (EvFrag t0 src dst f0 :: rest) ->
  frag_key src dst f0 = k ->
  (exists j, (j < length ss)%nat /\ slot_avail t0 (nth j ss lpf_slot_new)) ->
  exists ss' rs st', ev_run timeout (EvFrag t0 src dst f0 :: rest) ss = Ok (ss', rs) /\ kstate D k ss' st' /\
    kabs_run D timeout k (Some (asm_new, None, t0 + timeout)) (EvFrag t0 src dst f0 :: rest) rs st'.
Proof.
  intros Hsz Hto k Hst Hok Hk0 Hav. inversion Hok as [|? ? He Hrest]; subst.
  pose proof (ev_step_kabs D tag src dst timeout _ ss None Hsz Hst He) as HM. cbn beta iota in HM.
  fold k in HM. rewrite Hk0, lpf_key_eqb_refl in HM.
  destruct HM as (avail & ss1 & E1 & Hst1 & Havail). rewrite (Havail Hav) in *. cbn [ev_run]. rewrite E1. cbn [obind].
  destruct (ev_run_refines D tag src dst timeout rest ss1 _ Hsz Hst1 Hrest) as (ss2 & rs & st2 & E2 & Hst2 & Hrun).
  rewrite E2. cbn [obind]. eexists _, _, _. split; [reflexivity|]. split; [exact Hst2|].
  assert (Heq : kabs_frag D timeout t0 f0 true None = kabs_frag D timeout t0 f0 true (Some (asm_new, None, t0 + timeout))).
  { unfold kabs_frag. cbn [kexpire]. replace (t0 + timeout <? t0) with false by (symmetry; apply Z.ltb_ge; lia). reflexivity. }
  rewrite Heq in *. apply kr_frag; [exact Hk0 | exact Hrun].
Qed.

Lemma kabs_run_app D timeout k : forall l1 l2 st rs st',
  kabs_run D timeout k st (l1 ++ l2) rs st' ->
  exists rs1 rs2 stm, rs = rs1 ++ rs2 /\ length rs1 = length l1 /\
    kabs_run D timeout k st l1 rs1 stm /\ kabs_run D timeout k stm l2 rs2 st'.
Proof.
  induction l1 as [|e l1 IH]; intros l2 st rs st' H.
  - exists [], rs, st. split; [reflexivity|]. split; [reflexivity|]. split; [constructor | exact H].
  - cbn [app] in H.
    inversion H as [|st0 t src dst f avail evs0 rs0 st0' Hk Hrun|st0 e0 r evs0 rs0 st0' Hnk Hrun]; subst.
    + destruct (IH _ _ _ _ Hrun) as (rs1 & rs2 & stm & -> & Hl & H1 & H2).
      eexists (_ :: rs1), rs2, stm. split; [reflexivity|]. split; [cbn; lia|]. split; [|exact H2].
      apply kr_frag; [reflexivity | exact H1].
    + destruct (IH _ _ _ _ Hrun) as (rs1 & rs2 & stm & -> & Hl & H1 & H2).
      eexists (_ :: rs1), rs2, stm. split; [reflexivity|]. split; [cbn; lia|]. split; [|exact H2].
      apply kr_other; assumption.
Qed.

Lemma kabs_run_length D timeout k st evs rs st' : kabs_run D timeout k st evs rs st' -> length rs = length evs.
Proof. induction 1; cbn; lia. Qed.

Lemma ev_run_app timeout : forall l1 l2 ss ss' rs,
  ev_run timeout (l1 ++ l2) ss = Ok (ss', rs) ->
  exists ssm rs1 rs2, ev_run timeout l1 ss = Ok (ssm, rs1) /\ ev_run timeout l2 ssm = Ok (ss', rs2) /\
                      rs = rs1 ++ rs2 /\ length rs1 = length l1.
Proof.
  induction l1 as [|e l1 IH]; intros l2 ss ss' rs H.
  - exists ss, [], rs. auto.
  - cbn [app ev_run] in *. destruct (ev_step timeout e ss) as [(ss1, d)| |]; try discriminate H. cbn [obind] in *.
    destruct (ev_run timeout (l1 ++ l2) ss1) as [(ss2, ds)| |] eqn:E; try discriminate H. cbn [obind] in H.
    injection H as <- <-. destruct (IH _ _ _ _ E) as (ssm & rs1 & rs2 & E1 & E2 & -> & Hl).
    rewrite E1. cbn [obind]. exists ssm, (d :: rs1), rs2. split; [reflexivity|]. split; [exact E2|].
    split; [reflexivity | cbn; lia].
Qed.

(* a fresh interface *)
Lemma kstate_new D k : kstate D k lpf_slots_new None.
Proof.
  split; [apply gen_slots_new|]. split; [apply lpf_slots_new_inv|]. intros j.
  unfold lpf_slots_new. generalize (Z.to_nat lpf_SLOTS). intros n. revert j.
  induction n as [|n IH]; intros [|j]; cbn; try discriminate. apply IH.
Qed.

(* ================================================================================
   6. what has been received under key k: spans, coverage, completeness
   ================================================================================ *)

(* the span of an event if it is a fragment under key k *)
Definition ev_kspan (D : list Z) (k : lpf_key) (e : lpl_ev) : option (Z * Z) :=
  match e with
  | EvFrag _ src dst f => if lpf_key_eqb (frag_key src dst f) k then Some (frag_span D f) else None
  | EvOther _ _ => None
  end.
Definition ev_kfirstb (k : lpf_key) (e : lpl_ev) : bool :=
  match e with
  | EvFrag _ src dst f => lpf_key_eqb (frag_key src dst f) k && frag_is_first f
  | EvOther _ _ => false
  end.

Definition kcov (D : list Z) (k : lpf_key) (evs : list lpl_ev) (x : Z) : Prop :=
  Exists (fun e => exists o s, ev_kspan D k e = Some (o, s) /\ o <= x < o + s) evs.
Definition kfirst (k : lpf_key) (evs : list lpl_ev) : Prop := existsb (ev_kfirstb k) evs = true.
(* the fragments under k among [evs] contain a FRAG1 and cover every octet of the datagram *)
Definition k_complete (D : list Z) (k : lpf_key) (evs : list lpl_ev) : Prop :=
  kfirst k evs /\ forall x, 0 <= x < blen D -> kcov D k evs x.

(* the canonical merged union (C15: asm_add_unb) of what arrived under k, and the total size *)
Fixpoint kacc (D : list Z) (k : lpf_key) (u : asm) (evs : list lpl_ev) : asm :=
  match evs with
  | [] => u
  | e :: r => kacc D k (match ev_kspan D k e with Some (o, s) => asm_add_unb u o s | None => u end) r
  end.
Definition ktot (D : list Z) (k : lpf_key) (tot : option Z) (evs : list lpl_ev) : option Z :=
  if existsb (ev_kfirstb k) evs then Some (blen D) else tot.

(* along the arrival order the merged union of the ranges received under k never needs more than
   n contiguous ranges (n = ASSEMBLER_MAX_SEGMENT_COUNT): exactly the orders the tracker can follow
   (C15_add_accepts_when_fits / C15_add_refused_only_when_too_many) *)
Fixpoint gaps_fit (n : Z) (D : list Z) (k : lpf_key) (u : asm) (evs : list lpl_ev) : Prop :=
  match evs with
  | [] => True
  | e :: r =>
      match ev_kspan D k e with
      | Some (o, s) => Z.of_nat (length (asm_add_unb u o s)) <= n /\ gaps_fit n D k (asm_add_unb u o s) r
      | None => gaps_fit n D k u r
      end
  end.

Lemma ev_kspan_is D k e o s : ev_kspan D k e = Some (o, s) -> ev_is k e.
Proof.
  destruct e as [t src dst f|t r]; cbn [ev_kspan ev_is]; [|discriminate].
  destruct (lpf_key_eqb _ _) eqn:E; [|discriminate]. intros _. apply lpf_key_eqb_eq. exact E.
Qed.

Lemma ev_kspan_not D k e : ~ ev_is k e -> ev_kspan D k e = None /\ ev_kfirstb k e = false.
Proof.
  destruct e as [t src dst f|t r]; cbn [ev_kspan ev_is ev_kfirstb]; [|auto].
  intros H. destruct (lpf_key_eqb _ _) eqn:E; [exfalso; apply H; apply lpf_key_eqb_eq; exact E | auto].
Qed.

Lemma ev_kspan_frag D k t src dst f : frag_key src dst f = k ->
  ev_kspan D k (EvFrag t src dst f) = Some (frag_span D f) /\ ev_kfirstb k (EvFrag t src dst f) = frag_is_first f.
Proof. intros H. cbn [ev_kspan ev_kfirstb]. rewrite H, lpf_key_eqb_refl. auto. Qed.

Lemma kcov_app D k a b x : kcov D k (a ++ b) x <-> kcov D k a x \/ kcov D k b x.
Proof. unfold kcov. apply Exists_app. Qed.

Lemma kfirst_app k a b : kfirst k (a ++ b) <-> kfirst k a \/ kfirst k b.
Proof. unfold kfirst. rewrite existsb_app. apply orb_true_iff. Qed.

Lemma k_complete_mono D k a b c : k_complete D k b -> k_complete D k (a ++ b ++ c).
Proof.
  intros (Hf & Hc). split.
  - apply kfirst_app. right. apply kfirst_app. left. exact Hf.
  - intros x Hx. apply kcov_app. right. apply kcov_app. left. exact (Hc x Hx).
Qed.

(* a piece of D lies inside D *)
Lemma piece_span D tag f : piece_ok D tag f ->
  0 <= fst (frag_span D f) /\ 0 <= snd (frag_span D f) /\ fst (frag_span D f) + snd (frag_span D f) <= blen D.
Proof.
  unfold piece_ok, frag_span. destruct (rf_hdr f) as [s t|s t off].
  - intros (_ & _ & d & Hd & Hl & _). rewrite (Hd (blen D) ltac:(lia)). cbn [fst snd]. pose proof (blen_nonneg d). lia.
  - intros (_ & _ & Ho & Hle & _). cbn [fst snd]. pose proof (blen_nonneg (rf_payload f)). lia.
Qed.

Lemma ev_ok_span D k tag e o s : ev_ok D k tag e -> ev_kspan D k e = Some (o, s) -> 0 <= o /\ 0 <= s /\ o + s <= blen D.
Proof.
  destruct e as [t src dst f|t r]; cbn [ev_ok ev_kspan]; [|discriminate].
  intros (Hp & _). destruct (lpf_key_eqb _ _) eqn:E; [|discriminate]. apply lpf_key_eqb_eq in E.
  intros H. injection H as H. pose proof (piece_span D tag f (Hp E)) as Hs. rewrite H in Hs. exact Hs.
Qed.

(* ---------- the tracker: fullness ---------- *)

Lemma peek_full_iff u L : asm_wf u -> 0 < L -> (forall x, tracked u x -> 0 <= x < L) ->
  (asm_peek_front u = L <-> forall x, 0 <= x < L -> tracked u x).
Proof.
  intros Hwf HL Hin. rewrite asm_peek_front_remove.
  destruct (asm_remove_front u) as (l', r) eqn:Er. cbn [snd].
  destruct (c15_remove_front _ _ _ Hwf Er) as (_ & Hr0 & Hz & Hp). split.
  - intros ->. exact (proj1 (Hp HL)).
  - intros Hfull. destruct (Z.eq_dec r 0) as [->|Hne].
    + exfalso. apply (proj2 (Hz eq_refl)). apply Hfull. lia.
    + destruct (Hp ltac:(lia)) as (Hall & Hnot & _).
      assert (~ r < L) by (intros Hlt; apply Hnot; apply Hfull; lia).
      pose proof (Hin (r - 1) (Hall (r - 1) ltac:(lia))). lia.
Qed.

Lemma add_unb_tracked u o s x : asm_wf u -> 0 <= o -> 0 <= s ->
  asm_wf (asm_add_unb u o s) /\ (tracked (asm_add_unb u o s) x <-> tracked u x \/ o <= x < o + s).
Proof.
  intros Hwf Ho Hs. destruct (add_unb_spec u o s Hwf Ho Hs) as (Hwf' & Hm). split; [exact Hwf'|].
  rewrite !tracked_amem, (Hm 0 x). replace (0 + o) with o by lia. tauto.
Qed.

(* `assembler.add` when the merged union fits: the union *)
Lemma asm_add_fits n u o s : asm_wf u -> 0 <= o -> 0 <= s ->
  Z.of_nat (length (asm_add_unb u o s)) <= n -> fst (asm_add n u o s) = asm_add_unb u o s.
Proof.
  intros Hwf Ho Hs Hfit. pose proof (add_fits_ok n u o s Hfit) as Hok.
  destruct (asm_add n u o s) as (l', ok) eqn:E. cbn [snd] in Hok. subst ok. cbn [fst].
  exact (proj1 (add_ok_spec n u o s l' Hwf Ho Hs E)).
Qed.

(* ... and when it does not: the fragment is not recorded (the octets are written, but the range
   is forgotten), C15_add_refused_only_when_too_many *)
Lemma asm_add_overflows n u o s : asm_wf u -> Z.of_nat (length u) <= n -> 0 <= o -> 0 <= s ->
  n < Z.of_nat (length (asm_add_unb u o s)) -> fst (asm_add n u o s) = u.
Proof.
  intros Hwf Hlen Ho Hs Hbig. destruct (asm_add n u o s) as (l', ok) eqn:E. cbn [fst]. destruct ok.
  - destruct (add_ok_spec n u o s l' Hwf Ho Hs E) as (-> & Hl). specialize (Hl Hlen). lia.
  - exact (proj1 (add_err_spec n u o s l' Hlen E)).
Qed.

Lemma kacc_tracked D k tag : forall evs u x, asm_wf u -> Forall (ev_ok D k tag) evs ->
  asm_wf (kacc D k u evs) /\ (tracked (kacc D k u evs) x <-> tracked u x \/ kcov D k evs x).
Proof.
  induction evs as [|e evs IH]; intros u x Hwf Hok; cbn [kacc].
  - split; [exact Hwf|]. unfold kcov. rewrite Exists_nil. tauto.
  - inversion Hok as [|? ? He Hrest]; subst. unfold kcov. rewrite Exists_cons. fold (kcov D k evs x).
    destruct (ev_kspan D k e) as [(o, s)|] eqn:Es.
    + destruct (ev_ok_span D k tag e o s He Es) as (Ho & Hs & _).
      destruct (add_unb_tracked u o s x Hwf Ho Hs) as (Hwf' & Ht).
      destruct (IH (asm_add_unb u o s) x Hwf' Hrest) as (Hw2 & Ht2). split; [exact Hw2|].
      rewrite Ht2, Ht. split.
      * intros [[H|H]|H]; auto. right. left. exists o, s. auto.
      * intros [H|[(o' & s' & E' & H)|H]]; auto. injection E' as <- <-. auto.
    + destruct (IH u x Hwf Hrest) as (Hw2 & Ht2). split; [exact Hw2|]. rewrite Ht2.
      split; [tauto|]. intros [H|[(o' & s' & E' & _)|H]]; auto. discriminate E'.
Qed.

(* ---------- invariant of the abstract state ---------- *)

Definition kabs_inv (D : list Z) (st : kabs) : Prop :=
  match st with
  | None => True
  | Some (u, tot, _) => asm_inv lpf_N u /\ (tot = None \/ tot = Some (blen D)) /\
                        forall x, tracked u x -> 0 <= x < blen D
  end.

Lemma kstate_kabs_inv D k ss st : kstate D k ss st -> kabs_inv D st.
Proof.
  intros (_ & Hs & Hk). destruct st as [((u, tot), texp)|]; [|exact I].
  destruct Hk as (i & (Hi & Hki & _) & <- & <- & _).
  pose proof (Forall_nth_default _ ss lpf_slot_new i Hs Hi) as H. unfold slot_inv in H. rewrite Hki in H.
  destruct (H eq_refl) as (Ha & Ht & _ & Hx). split; [exact Ha|]. split; [exact Ht|].
  intros x Hxx. exact (proj1 (Hx x Hxx)).
Qed.

Lemma kabs_inv_expire D t st : kabs_inv D st -> kabs_inv D (kexpire t st).
Proof. destruct st as [((u, tot), texp)|]; cbn [kexpire]; [|auto]. destruct (texp <? t); [intros _; exact I | auto]. Qed.

Lemma kabs_inv_new D t : kabs_inv D (Some (asm_new, None, t)).
Proof.
  pose proof lpf_N_pos. split; [apply asm_new_inv; lia|]. split; [auto|]. intros x Hx. exfalso. exact (tracked_new x Hx).
Qed.

Lemma knext_tot_cases D f tot : tot = None \/ tot = Some (blen D) ->
  knext_tot D f tot = None \/ knext_tot D f tot = Some (blen D).
Proof. unfold knext_tot. destruct (frag_is_first f); auto. Qed.

Lemma kabs_add_inv D tag f u tot texp : piece_ok D tag f -> kabs_inv D (Some (u, tot, texp)) ->
  kabs_inv D (fst (kabs_add D f (u, tot, texp))) /\
  (snd (kabs_add D f (u, tot, texp)) = None \/ snd (kabs_add D f (u, tot, texp)) = Some D).
Proof.
  intros Hp (Ha & Ht & Hx). destruct (piece_span D tag f Hp) as (Ho & Hs & Hle). unfold kabs_add.
  destruct (kdone _ _); cbn [fst snd]; [split; [exact I | auto]|]. split; [|auto].
  destruct (asm_add_tracked lpf_N u _ _ Ha Ho Hs) as (Ha' & Htr & _).
  split; [exact Ha'|]. split; [apply knext_tot_cases; exact Ht|].
  intros x Hxx. destruct (Htr x Hxx) as [H|H]; [exact (Hx x H) | lia].
Qed.

Lemma kabs_frag_inv D tag timeout t f avail st : piece_ok D tag f -> kabs_inv D st ->
  kabs_inv D (fst (kabs_frag D timeout t f avail st)) /\
  (snd (kabs_frag D timeout t f avail st) = None \/ snd (kabs_frag D timeout t f avail st) = Some D).
Proof.
  intros Hp Hi. unfold kabs_frag. pose proof (kabs_inv_expire D t st Hi) as He.
  destruct (kexpire t st) as [((u, tot), texp)|].
  - apply (kabs_add_inv D tag); assumption.
  - destruct avail; [apply (kabs_add_inv D tag); [assumption | apply kabs_inv_new] | cbn; auto].
Qed.

(* ================================================================================
   7. theorems about abstract runs
   ================================================================================ *)

Section AbstractRuns.
  Variables (D : list Z) (tag timeout : Z) (k : lpf_key).

  (* S: whatever is delivered at an arrival under k is D *)
  Lemma kabs_run_exact_or_nothing : forall st evs rs st',
    kabs_run D timeout k st evs rs st' -> Forall (ev_ok D k tag) evs -> kabs_inv D st ->
    kabs_inv D st' /\ Forall2 (fun e r => ev_is k e -> r = None \/ r = Some D) evs rs.
  Proof.
    induction 1 as [st|st t src dst f avail evs rs st' Hk Hrun IH|st e r evs rs st' Hnk Hrun IH]; intros Hok Hinv.
    - split; [exact Hinv | constructor].
    - inversion Hok as [|? ? He Hrest]; subst. cbn [ev_ok] in He. destruct He as (Hp & _). specialize (Hp eq_refl).
      destruct (kabs_frag_inv D tag timeout t f avail st Hp Hinv) as (Hi' & Hr).
      destruct (IH Hrest Hi') as (H1 & H2). split; [exact H1|]. constructor; [intros _; exact Hr | exact H2].
    - inversion Hok as [|? ? He Hrest]; subst.
      destruct (IH Hrest (kabs_inv_expire D _ st Hinv)) as (H1 & H2). split; [exact H1|].
      constructor; [intros Hc; contradiction | exact H2].
  Qed.

  (* A'': nothing is delivered under k unless the fragments under k received since the previous
     delivery contain a FRAG1 and cover the datagram (no hypothesis on order, gaps or timing) *)
  Definition kabs_sub (done : list lpl_ev) (st : kabs) : Prop :=
    match st with
    | None => True
    | Some (u, tot, _) => (forall x, tracked u x -> kcov D k done x) /\ (tot <> None -> kfirst k done)
    end.

  Fixpoint delivered_only_when_complete (done evs : list lpl_ev) (rs : list (option (list Z))) : Prop :=
    match evs, rs with
    | [], [] => True
    | e :: evs', r :: rs' =>
        (ev_is k e -> r <> None -> k_complete D k (done ++ [e])) /\
        delivered_only_when_complete (match r with Some _ => if ev_isb k e then [] else done ++ [e] | None => done ++ [e] end)
                                     evs' rs'
    | _, _ => False
    end.

  Lemma kabs_sub_mono done e st : kabs_sub done st -> kabs_sub (done ++ [e]) st.
  Proof.
    destruct st as [((u, tot), texp)|]; [|auto]. intros (H1 & H2). split.
    - intros x Hx. apply kcov_app. left. exact (H1 x Hx).
    - intros Ht. apply kfirst_app. left. exact (H2 Ht).
  Qed.

  Lemma kabs_sub_expire done t st : kabs_sub done st -> kabs_sub done (kexpire t st).
  Proof. destruct st as [((u, tot), texp)|]; cbn [kexpire]; [|auto]. destruct (texp <? t); [intros _; exact I | auto]. Qed.

  Lemma kabs_add_sub done t src dst f u tot texp : frag_key src dst f = k -> piece_ok D tag f ->
    0 < blen D -> kabs_inv D (Some (u, tot, texp)) -> kabs_sub done (Some (u, tot, texp)) ->
    kabs_sub (done ++ [EvFrag t src dst f]) (fst (kabs_add D f (u, tot, texp))) /\
    (snd (kabs_add D f (u, tot, texp)) <> None -> k_complete D k (done ++ [EvFrag t src dst f])).
  Proof.
    intros Hk Hp HD (Ha & Ht & Hx) (Hs1 & Hs2). destruct (piece_span D tag f Hp) as (Ho & Hs & Hle).
    destruct (ev_kspan_frag D k t src dst f Hk) as (Esp & Efi).
    destruct (asm_add_tracked lpf_N u _ _ Ha Ho Hs) as (Ha' & Htr & _).
    set (u' := fst (asm_add lpf_N u (fst (frag_span D f)) (snd (frag_span D f)))) in *.
    assert (Hcov : forall x, tracked u' x -> kcov D k (done ++ [EvFrag t src dst f]) x).
    { intros x Hxx. apply kcov_app. destruct (Htr x Hxx) as [H|H]; [left; exact (Hs1 x H)|].
      right. constructor. exists (fst (frag_span D f)), (snd (frag_span D f)). split; [|exact H].
      rewrite Esp. destruct (frag_span D f); reflexivity. }
    assert (Hfst : knext_tot D f tot <> None -> kfirst k (done ++ [EvFrag t src dst f])).
    { unfold knext_tot. intros H. apply kfirst_app. destruct (frag_is_first f) eqn:Ef.
      - right. unfold kfirst. cbn [existsb]. rewrite Efi. reflexivity.
      - left. exact (Hs2 H). }
    unfold kabs_add. fold u'. destruct (kdone u' (knext_tot D f tot)) eqn:Ed; cbn [fst snd].
    - split; [exact I|]. intros _. unfold kdone in Ed.
      destruct (knext_tot D f tot) as [tt|] eqn:Et; [|discriminate Ed]. apply Z.eqb_eq in Ed.
      assert (Htt : tt = blen D) by (destruct (knext_tot_cases D f tot Ht) as [Hc|Hc]; rewrite Et in Hc; congruence).
      split; [apply Hfst; discriminate|]. intros x Hxr. apply Hcov.
      assert (Hin : forall y, tracked u' y -> 0 <= y < blen D).
      { intros y Hy. destruct (Htr y Hy) as [Hq|Hq]; [exact (Hx y Hq) | lia]. }
      exact (proj1 (peek_full_iff u' (blen D) (proj1 Ha') HD Hin) (eq_trans (eq_sym Ed) Htt) x Hxr).
    - split; [split; [exact Hcov | exact Hfst]|]. intros H. contradiction H. reflexivity.
  Qed.

  Lemma kabs_run_delivered_only_when_complete : forall st evs rs st',
    kabs_run D timeout k st evs rs st' -> forall done, Forall (ev_ok D k tag) evs -> 0 < blen D ->
    kabs_inv D st -> kabs_sub done st -> delivered_only_when_complete done evs rs.
  Proof.
    induction 1 as [st|st t src dst f avail evs rs st' Hk Hrun IH|st e r evs rs st' Hnk Hrun IH]; intros done Hok HD Hinv Hsub.
    - exact I.
    - inversion Hok as [|? ? He Hrest]; subst. cbn [ev_ok] in He. destruct He as (Hp & _). specialize (Hp Hk).
      destruct (kabs_frag_inv D tag timeout t f avail st Hp Hinv) as (Hi' & Hr).
      set (e := EvFrag t src dst f) in *.
      assert (Hstep : kabs_sub (done ++ [e]) (fst (kabs_frag D timeout t f avail st)) /\
                      (snd (kabs_frag D timeout t f avail st) <> None -> k_complete D k (done ++ [e]))).
      { unfold kabs_frag. pose proof (kabs_inv_expire D t st Hinv) as Hie. pose proof (kabs_sub_expire done t st Hsub) as Hse.
        destruct (kexpire t st) as [((u, tot), texp)|].
        - apply kabs_add_sub; auto.
        - destruct avail.
          + apply kabs_add_sub; auto; [apply kabs_inv_new|].
            split; [intros x Hx; exfalso; exact (tracked_new x Hx) | intros H; contradiction H; reflexivity].
          + cbn [fst snd]. split; [exact I | intros H; contradiction H; reflexivity]. }
      destruct Hstep as (Hsub' & Hcomp). cbn [delivered_only_when_complete]. split; [intros _; exact Hcomp|].
      assert (Eb : ev_isb k e = true) by (apply ev_isb_true; exact Hk). rewrite Eb.
      destruct (snd (kabs_frag D timeout t f avail st)) as [d|] eqn:Er.
      + (* delivered: the state is None afterwards *)
        assert (Hnone : fst (kabs_frag D timeout t f avail st) = None).
        { revert Er. unfold kabs_frag, kabs_add.
          destruct (kexpire t st) as [((u, tot), texp)|]; [|destruct avail];
            repeat match goal with |- context [if ?c then _ else _] => destruct c end; cbn [fst snd]; congruence. }
        apply IH; auto. rewrite Hnone. exact I.
      + apply IH; auto.
    - inversion Hok as [|? ? He Hrest]; subst. cbn [delivered_only_when_complete]. split; [intros Hc; contradiction|].
      assert (Eb : ev_isb k e = false) by (destruct (ev_isb k e) eqn:E; [apply ev_isb_true in E; contradiction | reflexivity]).
      rewrite Eb. assert (Hd : (match r with Some _ => done ++ [e] | None => done ++ [e] end) = done ++ [e]) by (destruct r; reflexivity).
      rewrite Hd. apply IH; auto; [apply kabs_inv_expire; exact Hinv | apply kabs_sub_mono, kabs_sub_expire; exact Hsub].
  Qed.

  (* an incomplete set of fragments delivers nothing *)
  Lemma dowc_incomplete : forall evs rs done, delivered_only_when_complete done evs rs ->
    ~ k_complete D k (done ++ evs) -> Forall2 (fun e r => ev_is k e -> r = None) evs rs.
  Proof.
    induction evs as [|e evs IH]; intros [|r rs] done H Hn; cbn [delivered_only_when_complete] in H; try contradiction; [constructor|].
    destruct H as (H1 & H2).
    assert (Hr : ev_is k e -> r = None).
    { intros He. destruct r as [d|]; [|reflexivity]. exfalso. apply Hn.
      pose proof (k_complete_mono D k [] (done ++ [e]) evs (H1 He ltac:(discriminate))) as Hm. cbn [app] in Hm.
      rewrite <- app_assoc in Hm. exact Hm. }
    constructor; [exact Hr|].
    destruct (ev_is_dec k e) as [He|He].
    - rewrite (Hr He) in H2. apply (IH rs (done ++ [e])); [exact H2|]. rewrite <- app_assoc. exact Hn.
    - assert (Eb : ev_isb k e = false) by (destruct (ev_isb k e) eqn:E; [apply ev_isb_true in E; contradiction | reflexivity]).
      rewrite Eb in H2. assert (Hd : (match r with Some _ => done ++ [e] | None => done ++ [e] end) = done ++ [e]) by (destruct r; reflexivity).
      rewrite Hd in H2. apply (IH rs (done ++ [e])); [exact H2|]. rewrite <- app_assoc. exact Hn.
  Qed.
End AbstractRuns.

(* ================================================================================
   8. liveness on abstract runs
   ================================================================================ *)

Section AbstractLiveness.
  Variables (D : list Z) (tag timeout : Z).
  Hypothesis HD : 0 < blen D.

  Definition full (u : asm) : Prop := forall x, 0 <= x < blen D -> tracked u x.

  Lemma ktot_cons k e tot evs : ktot D k tot (e :: evs) = ktot D k (if ev_kfirstb k e then Some (blen D) else tot) evs.
  Proof. unfold ktot. cbn [existsb]. destruct (ev_kfirstb k e); cbn [orb]; [destruct (existsb _ evs)|]; reflexivity. Qed.

  Lemma ktot_mono k tot evs : tot = Some (blen D) -> ktot D k tot evs = Some (blen D).
  Proof. intros ->. unfold ktot. destruct (existsb _ evs); reflexivity. Qed.

  Lemma full_kacc_mono k : forall evs u, asm_wf u -> Forall (ev_ok D k tag) evs -> full u -> full (kacc D k u evs).
  Proof.
    intros evs u Hwf Hok Hf x Hx. apply (proj2 (kacc_tracked D k tag evs u x Hwf Hok)). left. exact (Hf x Hx).
  Qed.

  (* the abstract state after a fragment with span (o, s), first-flag b, when the union fits *)
  Lemma kabs_add_fits f u tot texp : piece_ok D tag f -> kabs_inv D (Some (u, tot, texp)) ->
    Z.of_nat (length (asm_add_unb u (fst (frag_span D f)) (snd (frag_span D f)))) <= lpf_N ->
    let u' := asm_add_unb u (fst (frag_span D f)) (snd (frag_span D f)) in
    let tot' := knext_tot D f tot in
    asm_wf u' /\
    ((tot' = Some (blen D) /\ full u') /\ kabs_add D f (u, tot, texp) = (None, Some D) \/
     ~ (tot' = Some (blen D) /\ full u') /\ kabs_add D f (u, tot, texp) = (Some (u', tot', texp), None)).
  Proof.
    intros Hp (Ha & Ht & Hx) Hfit u' tot'. destruct (piece_span D tag f Hp) as (Ho & Hs & Hle).
    destruct Ha as (Hwf & Hlen).
    pose proof (asm_add_fits lpf_N u _ _ Hwf Ho Hs Hfit) as Eadd. fold u' in Eadd.
    assert (Hwf' : asm_wf u') by (apply add_unb_spec; assumption). split; [exact Hwf'|].
    assert (Hin : forall y, tracked u' y -> 0 <= y < blen D).
    { intros y Hy. apply (add_unb_tracked u _ _ y Hwf Ho Hs) in Hy. destruct Hy as [H|H]; [exact (Hx y H) | lia]. }
    unfold kabs_add. rewrite Eadd. fold tot'. unfold kdone.
    destruct (knext_tot_cases D f tot Ht) as [Hc|Hc]; fold tot' in Hc; rewrite Hc.
    - right. split; [intros (H & _); discriminate H | reflexivity].
    - destruct (blen D =? asm_peek_front u') eqn:E.
      + left. apply Z.eqb_eq in E. split; [|reflexivity]. split; [reflexivity|].
        exact (proj1 (peek_full_iff u' (blen D) Hwf' HD Hin) (eq_sym E)).
      + right. apply Z.eqb_neq in E. split; [|reflexivity]. intros (_ & Hf). apply E. symmetry.
        exact (proj2 (peek_full_iff u' (blen D) Hwf' HD Hin) Hf).
  Qed.

  (* L1: as long as the fragments received under k (on top of u, tot) do not complete the datagram,
     they are all recorded -- provided they arrive before the slot expires and the merged ranges fit
     the tracker -- and nothing is delivered *)
  Lemma kabs_run_incomplete k : forall evs st rs st', kabs_run D timeout k st evs rs st' ->
    forall u tot texp, st = Some (u, tot, texp) ->
    Forall (ev_ok D k tag) evs -> kabs_inv D st ->
    Forall (fun e => ev_time e <= texp) evs -> gaps_fit lpf_N D k u evs ->
    ~ (ktot D k tot evs = Some (blen D) /\ full (kacc D k u evs)) ->
    st' = Some (kacc D k u evs, ktot D k tot evs, texp) /\ kabs_inv D st' /\
    Forall2 (fun e r => ev_is k e -> r = None) evs rs.
  Proof.
    induction 1 as [st|st t src dst f avail evs rs st' Hk Hrun IH|st e r evs rs st' Hnk Hrun IH];
      intros u tot texp -> Hok Hinv Htime Hgaps Hinc.
    - split; [reflexivity|]. split; [exact Hinv | constructor].
    - inversion Hok as [|? ? He Hrest]; subst. inversion Htime as [|? ? Ht0 Htr]; subst. cbn [ev_time] in Ht0.
      cbn [ev_ok] in He. destruct He as (Hp & _). specialize (Hp eq_refl).
      destruct (ev_kspan_frag D _ t src dst f eq_refl) as (Esp & Efi).
      cbn [gaps_fit] in Hgaps. rewrite Esp in Hgaps. destruct (frag_span D f) as (o, s) eqn:Efs.
      destruct Hgaps as (Hfit & Hgaps').
      cbn [kacc] in Hinc |- *. rewrite Esp in Hinc |- *. rewrite ktot_cons, Efi in Hinc |- *.
      assert (Hexp : kabs_frag D timeout t f avail (Some (u, tot, texp)) = kabs_add D f (u, tot, texp)).
      { unfold kabs_frag. cbn [kexpire]. replace (texp <? t) with false by (symmetry; apply Z.ltb_ge; lia). reflexivity. }
      rewrite Hexp in *.
      pose proof (kabs_add_fits f u tot texp Hp Hinv) as Hadd. rewrite Efs in Hadd. cbn [fst snd] in Hadd.
      destruct (Hadd Hfit) as (Hwf' & [(Hcomp & _)|(Hnc & Eadd)]).
      + exfalso. apply Hinc. destruct Hcomp as (Ht' & Hf'). unfold knext_tot in Ht'. split.
        * apply ktot_mono. exact Ht'.
        * apply (full_kacc_mono _ evs _ Hwf' Hrest Hf').
      + rewrite Eadd in *. cbn [fst snd] in *.
        assert (Hinv' : kabs_inv D (Some (asm_add_unb u o s, knext_tot D f tot, texp))).
        { pose proof (kabs_add_inv D tag f u tot texp Hp Hinv) as (Hi' & _). rewrite Eadd in Hi'. exact Hi'. }
        destruct (IH _ _ _ eq_refl Hrest Hinv' Htr Hgaps' Hinc) as (-> & Hi2 & HF).
        split; [reflexivity|]. split; [exact Hi2|]. constructor; [intros _; reflexivity | exact HF].
    - inversion Hok as [|? ? He Hrest]; subst. inversion Htime as [|? ? Ht0 Htr]; subst.
      destruct (ev_kspan_not D k e Hnk) as (Esp & Efi).
      cbn [gaps_fit] in Hgaps. rewrite Esp in Hgaps. cbn [kacc] in Hinc |- *. rewrite Esp in Hinc |- *.
      rewrite ktot_cons, Efi in Hinc |- *.
      assert (Hexp : kexpire (ev_time e) (Some (u, tot, texp)) = Some (u, tot, texp)).
      { cbn [kexpire]. replace (texp <? ev_time e) with false by (symmetry; apply Z.ltb_ge; lia). reflexivity. }
      rewrite Hexp in *.
      destruct (IH _ _ _ eq_refl Hrest Hinv Htr Hgaps Hinc) as (-> & Hi2 & HF).
      split; [reflexivity|]. split; [exact Hi2|]. constructor; [intros Hc; contradiction | exact HF].
  Qed.

  (* L2: the fragment that completes the datagram delivers it, and the slot is released *)
  Lemma kabs_frag_completes t f avail u tot texp : piece_ok D tag f -> kabs_inv D (Some (u, tot, texp)) ->
    t <= texp ->
    Z.of_nat (length (asm_add_unb u (fst (frag_span D f)) (snd (frag_span D f)))) <= lpf_N ->
    knext_tot D f tot = Some (blen D) -> full (asm_add_unb u (fst (frag_span D f)) (snd (frag_span D f))) ->
    kabs_frag D timeout t f avail (Some (u, tot, texp)) = (None, Some D).
  Proof.
    intros Hp Hinv Ht Hfit Htot Hfull. unfold kabs_frag. cbn [kexpire].
    replace (texp <? t) with false by (symmetry; apply Z.ltb_ge; lia).
    destruct (kabs_add_fits f u tot texp Hp Hinv Hfit) as (_ & [(_ & E)|(Hn & _)]); [exact E|].
    exfalso. apply Hn. auto.
  Qed.

  Lemma kacc_app k : forall a b u, kacc D k u (a ++ b) = kacc D k (kacc D k u a) b.
  Proof. induction a as [|e a IH]; intros b u; cbn [app kacc]; [reflexivity | apply IH]. Qed.

  Lemma ktot_app k tot a b : ktot D k tot (a ++ b) = ktot D k (ktot D k tot a) b.
  Proof. unfold ktot. rewrite existsb_app. destruct (existsb _ a), (existsb _ b); reflexivity. Qed.

  Lemma gaps_fit_app k n : forall a b u, gaps_fit n D k u (a ++ b) <-> gaps_fit n D k u a /\ gaps_fit n D k (kacc D k u a) b.
  Proof.
    induction a as [|e a IH]; intros b u; cbn [app gaps_fit kacc]; [tauto|].
    destruct (ev_kspan D k e) as [(o, s)|]; rewrite IH; tauto.
  Qed.

  (* completeness in terms of the accumulated tracker *)
  Lemma k_complete_kacc k evs : Forall (ev_ok D k tag) evs ->
    (k_complete D k evs <-> ktot D k None evs = Some (blen D) /\ full (kacc D k asm_new evs)).
  Proof.
    intros Hok. unfold k_complete, kfirst, ktot, full.
    assert (Hc : forall x, tracked (kacc D k asm_new evs) x <-> kcov D k evs x).
    { intros x. rewrite (proj2 (kacc_tracked D k tag evs asm_new x I Hok)). split; [|auto].
      intros [H|H]; [exfalso; exact (tracked_new x H) | exact H]. }
    split.
    - intros (Hf & Hcov). rewrite Hf. split; [reflexivity|]. intros x Hx. apply Hc. exact (Hcov x Hx).
    - intros (Hf & Hfull). destruct (existsb _ evs); [|discriminate Hf]. split; [reflexivity|].
      intros x Hx. apply Hc. exact (Hfull x Hx).
  Qed.

  (* T: from a slot created at t0 (u = {}, no total size yet): if pre ++ [a] is the shortest prefix
     of the arrivals whose fragments under k complete the datagram, all before the expiry, in an
     order whose merged ranges fit the tracker, then nothing is delivered during pre, D is delivered
     at a, and the rest runs from the released state *)
  Theorem kabs_run_delivers k : forall pre a post rs st' texp,
    kabs_run D timeout k (Some (asm_new, None, texp)) (pre ++ a :: post) rs st' ->
    Forall (ev_ok D k tag) (pre ++ [a]) ->
    Forall (fun e => ev_time e <= texp) (pre ++ [a]) -> gaps_fit lpf_N D k asm_new (pre ++ [a]) ->
    ev_is k a -> k_complete D k (pre ++ [a]) -> ~ k_complete D k pre ->
    exists rs_pre rs_post, rs = rs_pre ++ Some D :: rs_post /\ length rs_pre = length pre /\
      Forall2 (fun e r => ev_is k e -> r = None) pre rs_pre /\
      kabs_run D timeout k None post rs_post st'.
  Proof.
    intros pre a post rs st' texp Hrun Hok Htime Hgaps Hka Hcomp Hninc.
    apply Forall_app in Hok. destruct Hok as (Hokp & Hoka). apply Forall_app in Htime. destruct Htime as (Htp & Hta).
    apply gaps_fit_app in Hgaps. destruct Hgaps as (Hgp & Hga).
    destruct (kabs_run_app D timeout k pre (a :: post) _ _ _ Hrun) as (rs1 & rs2 & stm & -> & Hl1 & Hr1 & Hr2).
    assert (Hinv0 : kabs_inv D (Some (asm_new, None, texp))) by apply kabs_inv_new.
    assert (Hinc : ~ (ktot D k None pre = Some (blen D) /\ full (kacc D k asm_new pre))).
    { intros H. apply Hninc. apply (k_complete_kacc k pre Hokp). exact H. }
    destruct (kabs_run_incomplete k pre _ _ _ Hr1 asm_new None texp eq_refl Hokp Hinv0 Htp Hgp Hinc) as (-> & Hinvm & HF).
    apply (k_complete_kacc k (pre ++ [a])) in Hcomp; [|apply Forall_app; auto].
    rewrite kacc_app, ktot_app in Hcomp. destruct Hcomp as (Htot & Hfull).
    inversion Hr2 as [|st0 t src dst f avail evs0 rs0 st0' Hk Hrun'|st0 e0 r evs0 rs0 st0' Hnk Hrun']; subst; [|contradiction].
    inversion Hoka as [|? ? Hea _]; subst. cbn [ev_ok] in Hea. destruct Hea as (Hp & _). specialize (Hp eq_refl).
    inversion Hta as [|? ? Hta' _]; subst. cbn [ev_time] in Hta'.
    destruct (ev_kspan_frag D _ t src dst f eq_refl) as (Esp & Efi).
    cbn [gaps_fit] in Hga. rewrite Esp in Hga. cbn [kacc] in Hfull. rewrite Esp in Hfull.
    destruct (frag_span D f) as (o, s) eqn:Efs. destruct Hga as (Hfit & _).
    assert (Htot' : knext_tot D f (ktot D (frag_key src dst f) None pre) = Some (blen D)).
    { unfold ktot in Htot. cbn [existsb] in Htot. rewrite Efi in Htot. unfold knext_tot.
      destruct (frag_is_first f); [reflexivity|]. cbn [orb] in Htot.
      destruct (ktot D (frag_key src dst f) None pre) eqn:E; unfold ktot in E; rewrite E in Htot; exact Htot. }
    pose proof (kabs_frag_completes t f avail _ _ texp Hp Hinvm Hta') as Hc. rewrite Efs in Hc. cbn [fst snd] in Hc.
    specialize (Hc Hfit Htot' Hfull). rewrite Hc in *. cbn [fst snd] in *.
    exists rs1, rs0. split; [reflexivity|]. split; [exact Hl1|]. split; [exact HF | exact Hrun'].
  Qed.

  (* timeout: once the slot has expired, what was collected in it no longer counts *)
  Lemma kabs_run_expired k : forall e evs st rs st',
    kabs_run D timeout k st (e :: evs) rs st' -> kexpire (ev_time e) st = None ->
    kabs_run D timeout k None (e :: evs) rs st'.
  Proof.
    intros e evs st rs st' H Hexp.
    inversion H as [|st0 t src dst f avail evs0 rs0 st0' Hk Hrun'|st0 e0 r evs0 rs0 st0' Hnk Hrun']; subst.
    - cbn [ev_time] in Hexp.
      assert (E : kabs_frag D timeout t f avail st = kabs_frag D timeout t f avail None).
      { unfold kabs_frag. rewrite Hexp. reflexivity. }
      rewrite E in *. apply kr_frag; [reflexivity | exact Hrun'].
    - apply kr_other; [exact Hnk|]. rewrite Hexp in Hrun'. exact Hrun'.
  Qed.
End AbstractLiveness.

(* ================================================================================
   9. event-level theorems on real slot sets
   ================================================================================ *)

Lemma lpf_hdr_40 D : lpf_IPV6_HDR <= blen D -> 0 < blen D.
Proof. unfold lpf_IPV6_HDR. zfold. lia. Qed.

(* S + A'': any interleaving of pieces of D under key k with tame fragments of other keys and
   other frames, any order, duplication, omission and timing, from any state in which at most one
   slot is claimed for k: the run never panics, whatever is delivered under k is D, and (from a
   state with no slot claimed for k) only at an arrival that completes a FRAG1 + full cover
   received since the previous delivery *)
Theorem ev_run_safe D tag src dst timeout evs ss st :
  lpf_IPV6_HDR <= blen D -> let k := (src, dst, blen D, tag) in
  kstate D k ss st -> Forall (ev_ok D k tag) evs ->
  exists ss' rs st', ev_run timeout evs ss = Ok (ss', rs) /\ kstate D k ss' st' /\
    Forall2 (fun e r => ev_is k e -> r = None \/ r = Some D) evs rs /\
    (st = None -> delivered_only_when_complete D k [] evs rs).
Proof.
  intros Hsz k Hst Hok.
  destruct (ev_run_refines D tag src dst timeout evs ss st Hsz Hst Hok) as (ss' & rs & st' & E & Hst' & Hrun).
  exists ss', rs, st'. split; [exact E|]. split; [exact Hst'|].
  pose proof (kstate_kabs_inv D k ss st Hst) as Hinv.
  split; [exact (proj2 (kabs_run_exact_or_nothing D tag timeout k st evs rs st' Hrun Hok Hinv))|].
  intros ->. apply (kabs_run_delivered_only_when_complete D tag timeout k None evs rs st' Hrun [] Hok (lpf_hdr_40 D Hsz) I I).
Qed.

(* never mixed: two datagrams under different keys (different sender, destination, size or tag),
   their fragments interleaved arbitrarily with each other and with anything tame: each key
   delivers its own datagram or nothing *)
Theorem ev_run_two_datagrams_not_mixed D1 tag1 src1 dst1 D2 tag2 src2 dst2 timeout evs ss st1 st2 :
  lpf_IPV6_HDR <= blen D1 -> lpf_IPV6_HDR <= blen D2 ->
  let k1 := (src1, dst1, blen D1, tag1) in let k2 := (src2, dst2, blen D2, tag2) in
  kstate D1 k1 ss st1 -> kstate D2 k2 ss st2 ->
  Forall (ev_ok D1 k1 tag1) evs -> Forall (ev_ok D2 k2 tag2) evs ->
  exists ss' rs, ev_run timeout evs ss = Ok (ss', rs) /\
    Forall2 (fun e r => (ev_is k1 e -> r = None \/ r = Some D1) /\ (ev_is k2 e -> r = None \/ r = Some D2)) evs rs.
Proof.
  intros H1 H2 k1 k2 Hs1 Hs2 Ho1 Ho2.
  destruct (ev_run_safe D1 tag1 src1 dst1 timeout evs ss st1 H1 Hs1 Ho1) as (ss' & rs & _ & E & _ & F1 & _).
  destruct (ev_run_safe D2 tag2 src2 dst2 timeout evs ss st2 H2 Hs2 Ho2) as (ss'' & rs' & _ & E' & _ & F2 & _).
  rewrite E in E'. injection E' as <- <-. exists ss', rs. split; [exact E|].
  clear E. revert rs F1 F2. induction evs as [|e evs IH]; intros rs F1 F2; inversion F1; subst; [constructor|].
  inversion F2; subst. inversion Ho1; subst. inversion Ho2; subst. constructor; [split; assumption | apply IH; assumption].
Qed.

(* an incomplete set of fragments delivers nothing *)
Theorem ev_run_incomplete_delivers_nothing D tag src dst timeout evs ss :
  lpf_IPV6_HDR <= blen D -> let k := (src, dst, blen D, tag) in
  kstate D k ss None -> Forall (ev_ok D k tag) evs -> ~ k_complete D k evs ->
  exists ss' rs st', ev_run timeout evs ss = Ok (ss', rs) /\ kstate D k ss' st' /\
    Forall2 (fun e r => ev_is k e -> r = None) evs rs.
Proof.
  intros Hsz k Hst Hok Hinc.
  destruct (ev_run_safe D tag src dst timeout evs ss None Hsz Hst Hok) as (ss' & rs & st' & E & Hst' & _ & Hd).
  exists ss', rs, st'. split; [exact E|]. split; [exact Hst'|].
  apply (dowc_incomplete D k evs rs [] (Hd eq_refl)). exact Hinc.
Qed.

(* timeout: a partial reassembly whose slot has expired when the next frame is polled contributes
   nothing: unless the later fragments are complete by themselves, nothing is delivered *)
Theorem ev_run_timeout_delivers_nothing D tag src dst timeout e rest ss u tot texp :
  lpf_IPV6_HDR <= blen D -> let k := (src, dst, blen D, tag) in
  kstate D k ss (Some (u, tot, texp)) -> Forall (ev_ok D k tag) (e :: rest) ->
  texp < ev_time e -> ~ k_complete D k (e :: rest) ->
  exists ss' rs st', ev_run timeout (e :: rest) ss = Ok (ss', rs) /\ kstate D k ss' st' /\
    Forall2 (fun e r => ev_is k e -> r = None) (e :: rest) rs.
Proof.
  intros Hsz k Hst Hok Hexp Hinc.
  destruct (ev_run_refines D tag src dst timeout (e :: rest) ss _ Hsz Hst Hok) as (ss' & rs & st' & E & Hst' & Hrun).
  exists ss', rs, st'. split; [exact E|]. split; [exact Hst'|].
  assert (Hx : kexpire (ev_time e) (Some (u, tot, texp)) = None).
  { cbn [kexpire]. replace (texp <? ev_time e) with true by (symmetry; apply Z.ltb_lt; lia). reflexivity. }
  pose proof (kabs_run_expired D timeout k e rest _ rs st' Hrun Hx) as Hrun0.
  pose proof (kabs_run_delivered_only_when_complete D tag timeout k None _ rs st' Hrun0 [] Hok (lpf_hdr_40 D Hsz) I I) as Hd.
  apply (dowc_incomplete D k _ rs [] Hd). exact Hinc.
Qed.

(* T: DELIVERY.  No slot is claimed for k; the first arrival is a fragment under k and finds a free
   or expired slot; pre ++ [a] is the shortest prefix of the arrivals whose fragments under k
   contain a FRAG1 and cover the datagram; these arrive no later than the expiry of the slot
   (first arrival + reassembly timeout), in an order whose merged ranges fit the tracker; fragments
   of other datagrams, other frames, duplicates are interleaved at will.  Then nothing is delivered
   under k before a, exactly D is delivered at a, the slot is released, and afterwards D (nothing
   else) is delivered again only by a further complete set of fragments. *)
Theorem ev_run_delivers D tag src dst timeout pre a post ss :
  lpf_IPV6_HDR <= blen D -> 0 <= timeout -> let k := (src, dst, blen D, tag) in
  kstate D k ss None -> Forall (ev_ok D k tag) (pre ++ a :: post) ->
  let e0 := hd a pre in
  ev_is k e0 -> (exists j, (j < length ss)%nat /\ slot_avail (ev_time e0) (nth j ss lpf_slot_new)) ->
  Forall (fun e => ev_time e <= ev_time e0 + timeout) (pre ++ [a]) ->
  gaps_fit lpf_N D k asm_new (pre ++ [a]) ->
  ev_is k a -> k_complete D k (pre ++ [a]) -> ~ k_complete D k pre ->
  exists ss' rs_pre rs_post st',
    ev_run timeout (pre ++ a :: post) ss = Ok (ss', rs_pre ++ Some D :: rs_post) /\
    kstate D k ss' st' /\ length rs_pre = length pre /\
    Forall2 (fun e r => ev_is k e -> r = None) pre rs_pre /\
    Forall2 (fun e r => ev_is k e -> r = None \/ r = Some D) post rs_post /\
    delivered_only_when_complete D k [] post rs_post.
Proof.
  intros Hsz Hto k Hst Hok e0 Hk0 Hav Htime Hgaps Hka Hcomp Hninc.
  assert (Hsplit : exists rest, pre ++ a :: post = e0 :: rest).
  { subst e0. destruct pre as [|p pre']; cbn [hd app]; eauto. }
  destruct Hsplit as (rest & Esplit).
  destruct e0 as [t0 src' dst' f0|t0 r0] eqn:Ee0; [|contradiction]. cbn [ev_is] in Hk0.
  assert (Hsd : src' = src /\ dst' = dst) by (unfold frag_key, k in Hk0; injection Hk0; auto).
  destruct Hsd as (-> & ->). cbn [ev_time] in Hav, Htime.
  rewrite Esplit in Hok |- *.
  destruct (ev_run_refines_claim D tag src dst timeout t0 f0 rest ss Hsz Hto Hst Hok Hk0 Hav)
    as (ss' & rs & st' & E & Hst' & Hrun).
  rewrite <- Esplit in Hrun, Hok.
  assert (Hok1 : Forall (ev_ok D k tag) (pre ++ [a]) /\ Forall (ev_ok D k tag) post).
  { apply Forall_app in Hok. destruct Hok as (H1 & H2). inversion H2; subst. split; [apply Forall_app; auto | assumption]. }
  destruct Hok1 as (Hok1 & Hokp).
  destruct (kabs_run_delivers D tag timeout (lpf_hdr_40 D Hsz) k pre a post rs st' (t0 + timeout) Hrun Hok1 Htime Hgaps Hka Hcomp Hninc)
    as (rs_pre & rs_post & -> & Hl & HF & Hrunp).
  exists ss', rs_pre, rs_post, st'. split; [exact E|]. split; [exact Hst'|]. split; [exact Hl|]. split; [exact HF|].
  split; [exact (proj2 (kabs_run_exact_or_nothing D tag timeout k None post rs_post st' Hrunp Hokp I))|].
  exact (kabs_run_delivered_only_when_complete D tag timeout k None post rs_post st' Hrunp [] Hokp (lpf_hdr_40 D Hsz) I I).
Qed.

(* ---------- which arrival orders fit the tracker ---------- *)

(* (a) every fragment starts inside what has been received contiguously from offset 0 (in-order
   arrival, with duplicates of earlier fragments anywhere): one range suffices, for any capacity *)
Fixpoint prefix_order (D : list Z) (k : lpf_key) (e : Z) (evs : list lpl_ev) : Prop :=
  match evs with
  | [] => True
  | ev :: r =>
      match ev_kspan D k ev with
      | Some (o, s) => 0 <= o <= e /\ 0 <= s /\ prefix_order D k (Z.max e (o + s)) r
      | None => prefix_order D k e r
      end
  end.

Definition prefix_asm (e : Z) : asm := if e =? 0 then [] else [mkContig 0 e].

Lemma asm_add_unb_prefix e o s : 0 <= e -> 0 <= o <= e -> 0 <= s ->
  asm_add_unb (prefix_asm e) o s = prefix_asm (Z.max e (o + s)).
Proof.
  intros He Ho Hs. unfold asm_add_unb. destruct (s =? 0) eqn:Es.
  - apply Z.eqb_eq in Es. f_equal. lia.
  - apply Z.eqb_neq in Es. unfold prefix_asm. destruct (e =? 0) eqn:Ee.
    + apply Z.eqb_eq in Ee. subst e. assert (o = 0) by lia. subst o. cbn [asm_add_go].
      replace (Z.max 0 (0 + s) =? 0) with false by (symmetry; apply Z.eqb_neq; lia). f_equal. f_equal. lia.
    + apply Z.eqb_neq in Ee. cbn [asm_add_go]. unfold c_total. cbn [c_hole c_data].
      replace (o <=? 0 + e) with true by (symmetry; apply Z.leb_le; lia).
      replace (o <? 0) with false by (symmetry; apply Z.ltb_ge; lia).
      cbn [asm_coalesce]. unfold asm_finish, c_total. cbn [c_hole c_data].
      replace (Z.max e (o + s) =? 0) with false by (symmetry; apply Z.eqb_neq; lia).
      destruct (o + s >? 0 + e) eqn:Eg; rewrite Z.gtb_ltb in Eg.
      * apply Z.ltb_lt in Eg. f_equal. f_equal. lia.
      * apply Z.ltb_ge in Eg. f_equal. f_equal. lia.
Qed.

Lemma gaps_fit_prefix_order n D k : 1 <= n -> forall evs e, 0 <= e -> prefix_order D k e evs ->
  gaps_fit n D k (prefix_asm e) evs.
Proof.
  intros Hn. induction evs as [|ev evs IH]; intros e He Hp; cbn [gaps_fit prefix_order] in *; [exact I|].
  destruct (ev_kspan D k ev) as [(o, s)|]; [|apply IH; assumption].
  destruct Hp as (Ho & Hs & Hp). rewrite asm_add_unb_prefix by assumption. split; [|apply IH; [lia | exact Hp]].
  unfold prefix_asm. destruct (_ =? 0); cbn [length]; lia.
Qed.

(* (b) no more fragments under k than the tracker has ranges: any order *)
Lemma add_unb_length u o s : asm_wf u -> 0 <= o -> 0 <= s -> (length (asm_add_unb u o s) <= S (length u))%nat.
Proof.
  intros Hwf Ho Hs. unfold asm_add_unb. destruct (s =? 0) eqn:Es; [lia|]. apply Z.eqb_neq in Es.
  destruct (add_go_room u o s) as (l' & E). rewrite E.
  exact (proj1 (proj2 (add_go_spec false u true o s l' Hwf Ho ltac:(lia) E))).
Qed.

Fixpoint kcount (D : list Z) (k : lpf_key) (evs : list lpl_ev) : nat :=
  match evs with
  | [] => O
  | e :: r => match ev_kspan D k e with Some _ => S (kcount D k r) | None => kcount D k r end
  end.

Lemma gaps_fit_few n D k tag : forall evs u, asm_wf u -> Forall (ev_ok D k tag) evs ->
  Z.of_nat (length u + kcount D k evs) <= n -> gaps_fit n D k u evs.
Proof.
  induction evs as [|e evs IH]; intros u Hwf Hok Hc; cbn [gaps_fit kcount] in *; [exact I|].
  inversion Hok as [|? ? He Hrest]; subst.
  destruct (ev_kspan D k e) as [(o, s)|] eqn:Es; [|apply IH; assumption].
  destruct (ev_ok_span D k tag e o s He Es) as (Ho & Hs & _).
  pose proof (add_unb_length u o s Hwf Ho Hs) as Hl.
  split; [lia|]. apply IH; [apply add_unb_spec; assumption | exact Hrest | lia].
Qed.

(* the hypothesis cannot be dropped: when the merged union needs more ranges than the tracker has,
   the fragment's range is not recorded (its octets are written into the buffer but forgotten), so
   the datagram cannot complete unless that fragment arrives again later
   (C15_add_refused_only_when_too_many) *)
Lemma kabs_add_overflow D tag f u tot texp : piece_ok D tag f -> kabs_inv D (Some (u, tot, texp)) ->
  lpf_N < Z.of_nat (length (asm_add_unb u (fst (frag_span D f)) (snd (frag_span D f)))) ->
  fst (asm_add lpf_N u (fst (frag_span D f)) (snd (frag_span D f))) = u.
Proof.
  intros Hp ((Hwf & Hlen) & _) Hbig. destruct (piece_span D tag f Hp) as (Ho & Hs & _).
  apply asm_add_overflows; assumption.
Qed.

(* ================================================================================
   10. composition, ingress side: one poll on frame octets IS one event step
   ================================================================================ *)

(* what process_sixlowpan makes of the octets behind the MAC header: the fragment header, the
   fragment payload and (for a FRAG1) the decompressor sixlowpan_to_ipv6 on that payload with the
   announced datagram size -- or, for any other frame, the result it returns at once *)
Definition lpl_ev_of (ctx : list (list Z)) (a : lpl_arrival) : lpl_ev :=
  let t := ar_time a in
  match sixlowpan_dispatch (ar_payload a) with
  | Ok d =>
      if d =? 0 then
        match sixfrag_new_checked (ar_payload a), sixfrag_parse (ar_payload a), sixfrag_payload (ar_payload a) with
        | Ok _, Ok h, Ok pl =>
            EvFrag t (lpl_ll_bytes (ar_lls a)) (lpl_ll_bytes (ar_lld a))
              (mkRxFrag h pl (fun buflen =>
                 lp_sixlowpan_to_ipv6 ctx (ar_lls a) (ar_lld a) pl (Some (lpf_hdr_size h)) buflen))
        | _, _, _ => EvOther t None
        end
      else
        match lp_sixlowpan_to_ipv6 ctx (ar_lls a) (ar_lld a) (ar_payload a) None lp_MAX_DECOMPRESSED_LEN with
        | Ok x => EvOther t (Some x)
        | _ => EvOther t None
        end
  | _ => EvOther t None
  end.

(* Rust type invariants of a received frame: octets, at most 65527 of them (an 802.15.4 frame has
   127), link-layer addresses of 2 or 8 octets *)
Definition arrival_wf (a : lpl_arrival) : Prop :=
  bytes_ok (ar_payload a) = true /\ blen (ar_payload a) < 65528 /\
  iphc_ll_wf (ar_lls a) = true /\ iphc_ll_wf (ar_lld a) = true.

Lemma wb_set_slice_noerr l lo hi v e : wb_set_slice l lo hi v <> Err e.
Proof. unfold wb_set_slice. destruct (_ && _); discriminate. Qed.

Lemma wb_sub_noerr l lo hi e : wb_sub l lo hi <> Err e.
Proof. unfold wb_sub. destruct (_ && _); discriminate. Qed.

(* process_sixlowpan_fragment has no error return of its own: every failure is "drop" (None) *)
Lemma lpf_process_fragment_noerr now timeout src dst f ss e :
  lpf_process_fragment now timeout src dst f ss <> Err e.
Proof.
  unfold lpf_process_fragment. destruct (_ <? _); [discriminate|].
  destruct (lpf_get _ _ ss) as [(i, ss1)|]; [|discriminate].
  assert (Hfin : forall p,
    (if lpf_pa_is_complete p then
       match pa_total p with
       | Some total => do d <- wb_sub (pa_buf p) 0 total;
                       Ok (lpf_update ss1 i (lpf_slot_reset (mkSlot (sl_key (nth i ss1 lpf_slot_new)) p (sl_expires (nth i ss1 lpf_slot_new)))), Some d)
       | None => Panic end
     else Ok (lpf_update ss1 i (mkSlot (sl_key (nth i ss1 lpf_slot_new)) p (sl_expires (nth i ss1 lpf_slot_new))), None)) <> Err e).
  { intros p. destruct (lpf_pa_is_complete p); [|discriminate]. destruct (pa_total p); [|discriminate].
    pose proof (wb_sub_noerr (pa_buf p) 0 z) as Hs. destruct (wb_sub (pa_buf p) 0 z); cbn [obind];
      [discriminate | exfalso; exact (Hs _ eq_refl) | discriminate]. }
  destruct (rf_hdr f) as [sz tg|sz tg off].
  - destruct (lpf_pa_set_total_size _ _) as [p|]; [|cbn; discriminate].
    destruct (lpf_pa_add_first p (rf_first_dec f)) as [p'|e'|]; cbn [obind]; [apply Hfin | discriminate | discriminate].
  - unfold lpf_pa_add.
    match goal with |- context [wb_set_slice ?l ?lo ?hi ?v] =>
      pose proof (wb_set_slice_noerr l lo hi v) as Hs; destruct (wb_set_slice l lo hi v) as [b'|e'|] end;
      cbn [obind]; [apply Hfin | exfalso; exact (Hs _ eq_refl) | discriminate].
Qed.

Lemma sixfrag_payload_inv b pl : sixfrag_payload b = Ok pl -> exists lo, wb_from b lo = Ok pl.
Proof.
  unfold sixfrag_payload. intros H. apply obind_ok in H. destruct H as (d & _ & H).
  destruct (d =? sixfrag_FIRST); [eauto|]. destruct (d =? sixfrag_NEXT); [eauto | discriminate H].
Qed.

Lemma sixfrag_parse_next_off b s t off : bytes_ok b = true -> sixfrag_parse b = Ok (SfNext s t off) -> 0 <= off < 256.
Proof.
  intros Hb H. unfold sixfrag_parse in H. obind_inv H.
  destruct (v2 =? sixfrag_FIRST); [discriminate H|]. destruct (v2 =? sixfrag_NEXT); [|discriminate H].
  obind_inv H. injection H as _ _ <-. unfold sixfrag_datagram_offset in E3. obind_inv E3.
  destruct (v4 =? sixfrag_FIRST); [injection E3 as <-; lia|]. destruct (v4 =? sixfrag_NEXT); [|discriminate E3].
  exact (wb_get_u8_byte b _ v3 Hb E3).
Qed.

(* GLUE: Interface::poll_ingress_single on the octets of one received frame is one step of the
   event machine on what process_sixlowpan parses out of them; every such event is tame *)
Theorem lpl_poll_is_event_step ctx timeout a ss : lp_ctx_wf ctx -> arrival_wf a ->
  lpl_poll ctx timeout a ss = ev_step timeout (lpl_ev_of ctx a) ss /\
  ev_tame (lpl_ev_of ctx a) /\ ev_time (lpl_ev_of ctx a) = ar_time a.
Proof.
  intros Hctx (Hb & Hl & Hls & Hld). unfold lpl_poll, lp_process_sixlowpan, lpl_ev_of. cbv zeta.
  pose proof (sixlowpan_dispatch_total (ar_payload a)) as Hd.
  destruct (sixlowpan_dispatch (ar_payload a)) as [d|e|]; [|cbn; auto|contradiction Hd; reflexivity].
  destruct (d =? 0).
  - pose proof (sixfrag_new_checked_total (ar_payload a)) as Hn.
    destruct (sixfrag_new_checked (ar_payload a)) as [[]|e|] eqn:En; [|cbn; auto|contradiction Hn; reflexivity].
    pose proof (sixfrag_parse_total (ar_payload a)) as Hp.
    destruct (sixfrag_accessors_safe _ En) as (_ & _ & _ & _ & Hpl).
    destruct (sixfrag_parse (ar_payload a)) as [h|e|] eqn:Eh; [|cbn; auto|contradiction Hp; reflexivity].
    destruct (sixfrag_payload (ar_payload a)) as [pl|e|] eqn:Epl; [|cbn; auto|contradiction Hpl; reflexivity].
    cbn [obind ev_step ev_time]. split; [|split; [|reflexivity]].
    + match goal with |- match ?x with _ => _ end = _ =>
        pose proof (lpf_process_fragment_noerr (ar_time a) timeout (lpl_ll_bytes (ar_lls a)) (lpl_ll_bytes (ar_lld a))
                      (mkRxFrag h pl (fun buflen => lp_sixlowpan_to_ipv6 ctx (ar_lls a) (ar_lld a) pl (Some (lpf_hdr_size h)) buflen))
                      (lpf_remove_expired (ar_time a) ss)) as Hne;
        destruct x as [r|e|] eqn:Ex end; [reflexivity | exfalso; exact (Hne e eq_refl) | reflexivity].
    + cbn [ev_tame]. unfold frag_tame. cbn [rf_hdr rf_first_dec].
      destruct (sixfrag_payload_inv _ _ Epl) as (lo & Hfrom).
      pose proof (wb_from_bytes _ _ _ Hb Hfrom) as Hbpl.
      destruct (wb_from_len _ _ _ Hfrom) as (Hlo & Hlpl). pose proof (blen_nonneg (ar_payload a)).
      destruct h as [size tag|size tag off].
      * intros Hsz n Hn'. cbn [lpf_hdr_size].
        apply lp_sixlowpan_to_ipv6_total; try assumption; [lia|].
        intros t Ht. injection Ht as <-. exact Hsz.
      * exact (proj1 (sixfrag_parse_next_off _ _ _ _ Hb Eh)).
  - assert (H40 : lp_IPV6_HDR <= lp_MAX_DECOMPRESSED_LEN) by (unfold lp_IPV6_HDR, lp_MAX_DECOMPRESSED_LEN; zfold; lia).
    destruct (lp_sixlowpan_to_ipv6_total ctx (ar_lls a) (ar_lld a) (ar_payload a) None lp_MAX_DECOMPRESSED_LEN
                Hb Hl Hls Hld Hctx H40 ltac:(intros t Ht; discriminate Ht)) as (Hnp & _).
    destruct (lp_sixlowpan_to_ipv6 ctx (ar_lls a) (ar_lld a) (ar_payload a) None lp_MAX_DECOMPRESSED_LEN) as [x|e|];
      [cbn; auto | cbn; auto | contradiction Hnp; reflexivity].
Qed.

(* ... and for a frame that carries a fragment header the equation needs no hypothesis at all *)
Lemma lpl_poll_is_event_step_frag ctx timeout a ss : sixlowpan_dispatch (ar_payload a) = Ok 0 ->
  lpl_poll ctx timeout a ss = ev_step timeout (lpl_ev_of ctx a) ss.
Proof.
  intros Hd. unfold lpl_poll, lp_process_sixlowpan, lpl_ev_of. cbv zeta. rewrite Hd. rewrite !Z.eqb_refl.
  pose proof (sixfrag_new_checked_total (ar_payload a)) as Hn.
  destruct (sixfrag_new_checked (ar_payload a)) as [[]|e|] eqn:En; [|cbn; auto|contradiction Hn; reflexivity].
  pose proof (sixfrag_parse_total (ar_payload a)) as Hp.
  destruct (sixfrag_accessors_safe _ En) as (_ & _ & _ & _ & Hpl).
  destruct (sixfrag_parse (ar_payload a)) as [h|e|] eqn:Eh; [|cbn; auto|contradiction Hp; reflexivity].
  destruct (sixfrag_payload (ar_payload a)) as [pl|e|] eqn:Epl; [|cbn; auto|contradiction Hpl; reflexivity].
  cbn [obind ev_step].
  match goal with |- match ?x with _ => _ end = _ =>
    pose proof (lpf_process_fragment_noerr (ar_time a) timeout (lpl_ll_bytes (ar_lls a)) (lpl_ll_bytes (ar_lld a))
                  (mkRxFrag h pl (fun buflen => lp_sixlowpan_to_ipv6 ctx (ar_lls a) (ar_lld a) pl (Some (lpf_hdr_size h)) buflen))
                  (lpf_remove_expired (ar_time a) ss)) as Hne;
    destruct x as [r|e|] eqn:Ex end; [reflexivity | exfalso; exact (Hne e eq_refl) | reflexivity].
Qed.

Definition arrival_frag_or_wf (a : lpl_arrival) : Prop :=
  sixlowpan_dispatch (ar_payload a) = Ok 0 \/ arrival_wf a.

Theorem lpl_run_is_event_run ctx timeout : lp_ctx_wf ctx -> forall arr ss, Forall arrival_frag_or_wf arr ->
  lpl_run ctx timeout arr ss = ev_run timeout (map (lpl_ev_of ctx) arr) ss.
Proof.
  intros Hctx. induction arr as [|a arr IH]; intros ss Hwf; [reflexivity|].
  inversion Hwf as [|? ? Ha Hrest]; subst. cbn [lpl_run map ev_run].
  assert (E : lpl_poll ctx timeout a ss = ev_step timeout (lpl_ev_of ctx a) ss).
  { destruct Ha as [Ha|Ha]; [apply lpl_poll_is_event_step_frag; exact Ha | exact (proj1 (lpl_poll_is_event_step ctx timeout a ss Hctx Ha))]. }
  rewrite E. destruct (ev_step timeout (lpl_ev_of ctx a) ss) as [(ss1, d)|e|]; cbn [obind]; [|reflexivity|reflexivity].
  rewrite IH by exact Hrest. reflexivity.
Qed.

(* ---------- the octets of a fragment frame parse back to the record ---------- *)

Lemma sixlowpan_dispatch_cons x r : sixlowpan_dispatch (x :: r) =
  if (Z.shiftr x 3 =? sixfrag_FIRST) || (Z.shiftr x 3 =? sixfrag_NEXT) then Ok 0
  else if Z.shiftr x 5 =? wsix_DISPATCH_IPHC_HEADER then Ok 1 else Err 0.
Proof.
  unfold sixlowpan_dispatch. pose proof (blen_nonneg r). rewrite blen_cons.
  replace (1 + blen r =? 0) with false by (symmetry; apply Z.eqb_neq; lia).
  rewrite wb_get_u8_ok by (rewrite blen_cons; lia). reflexivity.
Qed.

Lemma sixlowpan_dispatch_frag h pl : sixfrag_wf h = true -> sixlowpan_dispatch (sixfrag_bytes h ++ pl) = Ok 0.
Proof.
  intros Hwf. apply sixfrag_wf_inv in Hwf.
  destruct h as [size tag|size tag off]; unfold sixfrag_bytes; cbn [app]; rewrite sixlowpan_dispatch_cons.
  - destruct Hwf as (Hs & _). rewrite sf_shiftr_first by lia. unfold sixfrag_FIRST. zfold. reflexivity.
  - destruct Hwf as (Hs & _). rewrite sf_shiftr_next by lia. unfold sixfrag_FIRST, sixfrag_NEXT. zfold. reflexivity.
Qed.

Theorem lpl_ev_of_fragment_octets ctx t lls lld h pl : sixfrag_wf h = true ->
  lpl_ev_of ctx (mkArrival t lls lld (sixfrag_bytes h ++ pl)) =
  EvFrag t (lpl_ll_bytes lls) (lpl_ll_bytes lld)
    (mkRxFrag h pl (fun buflen => lp_sixlowpan_to_ipv6 ctx lls lld pl (Some (lpf_hdr_size h)) buflen)).
Proof.
  intros Hwf. unfold lpl_ev_of. cbn [ar_time ar_lls ar_lld ar_payload].
  rewrite (sixlowpan_dispatch_frag h pl Hwf). cbn [Z.eqb].
  destruct (sixfrag_parse_bytes h pl Hwf) as (-> & -> & ->). reflexivity.
Qed.

(* ================================================================================
   11. composition, egress side: the octets written behind the MAC header
   ================================================================================ *)

Lemma sixfrag_buffer_len_pos h : 0 <= sixfrag_buffer_len h.
Proof. destruct h; cbn; zfold; lia. Qed.

(* for ANY previous content of the transmit buffer: the fragment header octets followed by the
   fragment payload *)
Theorem lpl_frame_octets_spec f h txbuf : fr_hdr f = Some h -> sixfrag_wf h = true ->
  bytes_ok txbuf = true -> blen txbuf = lpl_txbuf_len f ->
  lpl_frame_octets f txbuf = Ok (sixfrag_bytes h ++ fr_payload f).
Proof.
  intros Hh Hwf Hb Hl. unfold lpl_txbuf_len in Hl. rewrite Hh in Hl. unfold lpl_frame_octets. rewrite Hh.
  pose proof (sixfrag_buffer_len_pos h) as Hn. pose proof (blen_nonneg (fr_payload f)) as Hp.
  pose proof (sixfrag_bytes_len h) as Hbl.
  assert (Hrest : blen (skipn (Z.to_nat (sixfrag_buffer_len h)) txbuf) = blen (fr_payload f)) by (rewrite blen_skipn by lia; lia).
  assert (Hset : wb_set_slice (skipn (Z.to_nat (sixfrag_buffer_len h)) txbuf) 0 (blen (fr_payload f)) (fr_payload f) = Ok (fr_payload f)).
  { unfold wb_set_slice. rewrite Hrest.
    replace ((0 <=? 0) && (0 <=? blen (fr_payload f)) && (blen (fr_payload f) <=? blen (fr_payload f)) &&
             (blen (fr_payload f) =? blen (fr_payload f) - 0)) with true by (symmetry; zbool; reflexivity).
    change (Z.to_nat 0) with 0%nat. cbn [firstn app]. rewrite skipn_all2 by (unfold blen in *; lia).
    rewrite app_nil_r. reflexivity. }
  destruct h as [size tag|size tag off].
  - rewrite sixfrag_emit_spec by (try assumption; lia). cbn [obind].
    rewrite wb_upto_app_l by lia. rewrite wb_upto_all' by (symmetry; exact Hbl). cbn [obind].
    rewrite (wb_from_tail (sixfrag_bytes (SfFirst size tag))) by (symmetry; exact Hbl). cbn [obind].
    rewrite Hset. reflexivity.
  - rewrite wb_upto_ok by lia. cbn [obind].
    rewrite sixfrag_emit_exact; [|assumption | apply bytes_ok_firstn; assumption | apply blen_firstn; lia].
    cbn [obind]. rewrite wb_from_ok by lia. cbn [obind]. rewrite Hset. reflexivity.
Qed.

Definition frame_bytes (f : lpf_frame) : list Z :=
  match fr_hdr f with Some h => sixfrag_bytes h ++ fr_payload f | None => fr_payload f end.
Definition frame_hdr_ok (f : lpf_frame) : Prop :=
  match fr_hdr f with Some h => sixfrag_wf h = true | None => True end.

Lemma bytes_ok_repeat x n : 0 <= x < 256 -> bytes_ok (repeat x n) = true.
Proof.
  intros Hx. unfold bytes_ok. apply forallb_forall. intros y Hy. apply repeat_spec in Hy. subst y.
  unfold is_u8. apply andb_true_intro. split; [apply Z.leb_le | apply Z.ltb_lt]; lia.
Qed.

Theorem lpl_frames_octets_spec txfill : 0 <= txfill < 256 -> forall fs, Forall frame_hdr_ok fs ->
  lpl_frames_octets fs txfill = Ok (map frame_bytes fs).
Proof.
  intros Hf. induction fs as [|f fs IH]; intros Hok; [reflexivity|].
  inversion Hok as [|? ? Hh Hrest]; subst. cbn [lpl_frames_octets map].
  assert (E : lpl_frame_octets f (repeat txfill (Z.to_nat (lpl_txbuf_len f))) = Ok (frame_bytes f)).
  { unfold frame_hdr_ok in Hh. unfold frame_bytes. destruct (fr_hdr f) as [h|] eqn:Eh.
    - apply lpl_frame_octets_spec; [exact Eh | exact Hh | apply bytes_ok_repeat; exact Hf|].
      rewrite blen_repeat. unfold lpl_txbuf_len. rewrite Eh.
      pose proof (sixfrag_buffer_len_pos h). pose proof (blen_nonneg (fr_payload f)). lia.
    - unfold lpl_frame_octets. rewrite Eh. reflexivity. }
  rewrite E. cbn [obind]. rewrite (IH Hrest). reflexivity.
Qed.

(* ================================================================================
   12. end to end: datagram -> compressed -> frames -> octets -> polls -> datagram
   ================================================================================ *)

Lemma piece_ok_ext D tag f g : rf_hdr f = rf_hdr g -> rf_payload f = rf_payload g ->
  (match rf_hdr f with SfFirst _ _ => forall n, rf_first_dec f n = rf_first_dec g n | SfNext _ _ _ => True end) ->
  piece_ok D tag f -> piece_ok D tag g.
Proof.
  intros Hh Hp Hd. unfold piece_ok. rewrite <- Hh, <- Hp. destruct (rf_hdr f); [|tauto].
  intros (H1 & H2 & x & H3 & H4). split; [exact H1|]. split; [exact H2|]. exists x. split; [|exact H4].
  intros n Hn. rewrite <- Hd. exact (H3 n Hn).
Qed.

Lemma lpl_ll_bytes_len l : iphc_ll_wf l = true ->
  blen (lpl_ll_bytes l) = 0 \/ blen (lpl_ll_bytes l) = 2 \/ blen (lpl_ll_bytes l) = 8.
Proof.
  destruct l as [[|a|a]|]; cbn [lpl_ll_bytes iphc_ll_wf]; intros H; try (left; reflexivity); bsplit; auto.
Qed.

(* the frames from position lo to position lo' of the compressed packet, contiguous *)
Inductive nexts_seg (c : list Z) (size tag hdiff : Z) : Z -> list lpf_frame -> Z -> Prop :=
| ns_nil lo : nexts_seg c size tag hdiff lo [] lo
| ns_cons lo n fs lo' : 0 < n -> lo + n <= blen c -> (lo + hdiff) mod 8 = 0 -> 0 <= (lo + hdiff) / 8 < 256 ->
    nexts_seg c size tag hdiff (lo + n) fs lo' ->
    nexts_seg c size tag hdiff lo
      (mkFrame (Some (SfNext size tag ((lo + hdiff) / 8))) (firstn (Z.to_nat n) (skipn (Z.to_nat lo) c)) :: fs) lo'.

Lemma lpf_nexts_seg c size tag hdiff fn lo fs : lpf_nexts c size tag hdiff fn lo fs ->
  nexts_seg c size tag hdiff lo fs (blen c).
Proof.
  induction 1 as [lo E|lo n fs Hn Hle Hlast Hm Hoff Hnx IH]; [subst; constructor|].
  apply ns_cons; try assumption; lia.
Qed.

Lemma nexts_seg_le c size tag hdiff lo fs lo' : nexts_seg c size tag hdiff lo fs lo' -> lo <= lo' <= Z.max lo (blen c).
Proof. induction 1; lia. Qed.

Lemma nexts_seg_snoc c size tag hdiff : forall fs lo l lo', nexts_seg c size tag hdiff lo (fs ++ [l]) lo' ->
  exists mid, nexts_seg c size tag hdiff lo fs mid /\ nexts_seg c size tag hdiff mid [l] lo' /\ mid < lo'.
Proof.
  induction fs as [|f fs IH]; intros lo l lo' H; cbn [app] in H.
  - exists lo. split; [constructor|]. split; [exact H|].
    inversion H as [|? n ? ? Hn ? ? ? Hr]; subst. inversion Hr; subst. lia.
  - inversion H as [|? n ? ? Hn Hle Hm Ho Hr]; subst. destruct (IH _ _ _ Hr) as (mid & H1 & H2 & H3).
    exists mid. split; [apply ns_cons; assumption | auto].
Qed.

(* the range a frame of the sender occupies in the uncompressed datagram *)
Definition fr_span (hdiff : Z) (fr : lpf_frame) : Z * Z :=
  match fr_hdr fr with
  | Some (SfFirst _ _) => (0, blen (fr_payload fr) + hdiff)
  | Some (SfNext _ _ off) => (off * 8, blen (fr_payload fr))
  | None => (0, 0)
  end.
Definition in_fr_span (hdiff x : Z) (fr : lpf_frame) : Prop :=
  fst (fr_span hdiff fr) <= x < fst (fr_span hdiff fr) + snd (fr_span hdiff fr).

(* the FRAGN frames of a segment tile [lo + hdiff, lo' + hdiff): every octet in exactly one frame *)
Lemma nexts_seg_tiles c size tag hdiff : forall lo fs lo', nexts_seg c size tag hdiff lo fs lo' -> 0 <= lo ->
  (forall fr, In fr fs -> lo + hdiff <= fst (fr_span hdiff fr) /\ 0 < snd (fr_span hdiff fr) /\
                          fst (fr_span hdiff fr) + snd (fr_span hdiff fr) <= lo' + hdiff) /\
  (forall x, lo + hdiff <= x < lo' + hdiff -> exists fr, In fr fs /\ in_fr_span hdiff x fr) /\
  (forall fr1 fr2 x, In fr1 fs -> In fr2 fs -> in_fr_span hdiff x fr1 -> in_fr_span hdiff x fr2 -> fr1 = fr2).
Proof.
  intros lo fs lo' H. induction H as [lo|lo n fs lo' Hn Hle Hm Ho Hseg IH]; intros Hlo.
  - split; [intros fr []|]. split; [intros x Hx; lia | intros fr1 fr2 x []].
  - destruct (IH ltac:(lia)) as (I1 & I2 & I3). pose proof (nexts_seg_le _ _ _ _ _ _ _ Hseg) as Hle'.
    set (fr0 := mkFrame (Some (SfNext size tag ((lo + hdiff) / 8))) (firstn (Z.to_nat n) (skipn (Z.to_nat lo) c))).
    assert (Hbl : blen (firstn (Z.to_nat n) (skipn (Z.to_nat lo) c)) = n).
    { rewrite blen_firstn; [reflexivity|]. rewrite blen_skipn by lia. lia. }
    assert (Hs0 : fr_span hdiff fr0 = (lo + hdiff, n)).
    { unfold fr_span, fr0. cbn [fr_hdr fr_payload]. rewrite Hbl. f_equal. lia. }
    split; [|split].
    + intros fr [<-|Hin]; [rewrite Hs0; cbn [fst snd]; lia|]. destruct (I1 fr Hin) as (A & B & C). lia.
    + intros x Hx. destruct (Z.lt_ge_cases x (lo + n + hdiff)).
      * exists fr0. split; [left; reflexivity|]. unfold in_fr_span. rewrite Hs0. cbn [fst snd]. lia.
      * destruct (I2 x ltac:(lia)) as (fr & Hin & Hsp). exists fr. split; [right; exact Hin | exact Hsp].
    + intros fr1 fr2 x [<-|H1] [<-|H2] S1 S2; try reflexivity.
      * exfalso. unfold in_fr_span in S1, S2. rewrite Hs0 in S1. cbn [fst snd] in S1. destruct (I1 fr2 H2) as (A & _). lia.
      * exfalso. unfold in_fr_span in S1, S2. rewrite Hs0 in S2. cbn [fst snd] in S2. destruct (I1 fr1 H1) as (A & _). lia.
      * exact (I3 fr1 fr2 x H1 H2 S1 S2).
Qed.

Lemma Forall2_cons_inv' {A B} (R : A -> B -> Prop) a l b l' : Forall2 R (a :: l) (b :: l') -> R a b /\ Forall2 R l l'.
Proof. intros H. inversion H; subst. auto. Qed.
Lemma Forall2_nil_inv' {A B} (R : A -> B -> Prop) l' : Forall2 R [] l' -> l' = [].
Proof. intros H. inversion H. reflexivity. Qed.

Lemma Forall2_all_none {A} (P : A -> Prop) : forall (l : list A) (rs : list (option (list Z))),
  Forall2 (fun x r => P x -> r = None) l rs -> (forall x, In x l -> P x) -> rs = repeat None (length l).
Proof.
  induction l as [|x l IH]; intros rs HF Hall; inversion HF as [|? r ? rs' Hr HF']; subst; [reflexivity|].
  cbn [length repeat]. f_equal; [apply Hr; apply Hall; left; reflexivity|].
  apply IH; [exact HF' | intros z Hz; apply Hall; right; exact Hz].
Qed.

Section EndToEnd.
  Variables (d : lp_dgram) (lls lld : option iphc_ll) (ctx : list (list Z)) (c D : list Z) (tag : Z).
  Hypothesis Hwf : lp_dgram_wf d lls lld.
  Hypothesis Hc : lp_compressed d lls lld = Ok c.
  Hypothesis HD : lp_ipv6_bytes d = Ok D.
  Hypothesis Hctx : lp_ctx_wf ctx.
  Hypothesis Htag : 0 <= tag < 65536.

  Let src := lpl_ll_bytes lls.
  Let dst := lpl_ll_bytes lld.
  Let ieee_len := lpf_ieee_len dst src.
  Let k : lpf_key := (src, dst, blen D, tag).

  Hypothesis Hneed : lpf_needs_frag (blen c) ieee_len = true.
  Hypothesis Hbuf : blen c <= lpf_BUFFER.

  Lemma e2e_ll_wf : iphc_ll_wf lls = true /\ iphc_ll_wf lld = true.
  Proof.
    destruct Hwf as (Hr & _). unfold iphc_repr_wf, lp_iphc_repr in Hr.
    cbn [ir_src ir_dst ir_ll_src ir_ll_dst ir_nh ir_hl ir_ecn ir_dscp ir_flow] in Hr.
    rewrite !andb_true_iff in Hr. tauto.
  Qed.

  Lemma e2e_ieee_len : 5 <= ieee_len <= 21.
  Proof.
    destruct e2e_ll_wf as (H1 & H2). subst ieee_len src dst.
    apply lpf_ieee_len_range; apply lpl_ll_bytes_len; assumption.
  Qed.

  (* the facts lp_roundtrip_fragmented derives, once *)
  Lemma e2e_setup : exists chdr uhdr fs,
    lp_compressed_packet_size d lls lld = Ok (blen c, chdr, uhdr) /\
    0 <= chdr <= uhdr /\ blen D = blen c + (uhdr - chdr) /\ blen D < 2048 /\ lpf_IPV6_HDR <= blen D /\
    chdr <= lpf_f1 ieee_len (uhdr - chdr) /\ 0 < lpf_f1 ieee_len (uhdr - chdr) < blen c /\
    (forall p n, chdr <= p -> 0 <= n ->
       firstn (Z.to_nat n) (skipn (Z.to_nat p) c) = firstn (Z.to_nat n) (skipn (Z.to_nat (p + (uhdr - chdr))) D)) /\
    (forall n, blen D <= n ->
       lp_sixlowpan_to_ipv6 ctx lls lld (firstn (Z.to_nat (lpf_f1 ieee_len (uhdr - chdr))) c) (Some (blen D)) n =
       Ok (firstn (Z.to_nat (lpf_f1 ieee_len (uhdr - chdr) + (uhdr - chdr))) D)) /\
    lpf_send ieee_len c chdr uhdr (lp_payload_len (ld_pl d)) tag =
      Ok (mkFrame (Some (SfFirst (blen D) tag)) (firstn (Z.to_nat (lpf_f1 ieee_len (uhdr - chdr))) c) :: fs) /\
    lpf_nexts c (blen D) tag (uhdr - chdr) (lpf_fn ieee_len) (lpf_f1 ieee_len (uhdr - chdr)) fs.
  Proof.
    pose proof e2e_ieee_len as Hie.
    destruct (lp_compressed_packet_size_spec d lls lld c Hwf Hc) as (chdr & uhdr & Hsz & Hh & Hcc & Hc45 & Hu48 & Hdiff).
    pose proof (lp_ipv6_bytes_len d lls lld D Hwf HD) as HDl.
    assert (Hfit : blen c + (uhdr - chdr) < 2048) by (destruct lpf_config_fits as (Hcf & _); lia).
    destruct (lpf_f1_facts ieee_len c chdr uhdr 0 Hie Hneed) as (Hf1 & Hm & Hfit1 & Hlow).
    assert (Hchdr : chdr <= lpf_f1 ieee_len (uhdr - chdr)).
    { unfold lpf_MAX_FRAME, lpf_FRAG1_HDR in Hlow. zfold_in Hlow. lia. }
    assert (Hrest : skipn (Z.to_nat chdr) c = skipn (Z.to_nat uhdr) D /\ uhdr <= blen D).
    { destruct (lp_tails d lls lld c D chdr uhdr Hwf Hc HD Hsz) as (Pc & Pd & tail & -> & -> & Lc & Ld).
      rewrite !skipn_app_exact by (unfold blen in *; lia). split; [reflexivity|].
      rewrite blen_app. pose proof (blen_nonneg tail). lia. }
    destruct Hrest as (Hrest & Hu).
    assert (HlD : blen D = blen c + (uhdr - chdr)).
    { assert (H : blen (skipn (Z.to_nat chdr) c) = blen (skipn (Z.to_nat uhdr) D)) by (rewrite Hrest; reflexivity).
      rewrite !blen_skipn in H by lia. lia. }
    assert (Hdec : forall n, blen D <= n ->
       lp_sixlowpan_to_ipv6 ctx lls lld (firstn (Z.to_nat (lpf_f1 ieee_len (uhdr - chdr))) c) (Some (blen D)) n =
       Ok (firstn (Z.to_nat (lpf_f1 ieee_len (uhdr - chdr) + (uhdr - chdr))) D)).
    { intros n Hn.
      pose proof (lp_decompress_prefix d lls lld ctx Hwf c D (lpf_f1 ieee_len (uhdr - chdr)) (Some (blen D)) n Hc HD
                    ltac:(right; reflexivity) Hn ltac:(lia)) as H.
      replace (blen D - blen c) with (uhdr - chdr) in H by lia. apply H.
      unfold lp_compressed_packet_size in Hsz. destruct Hwf as (Hr & _).
      rewrite (iphc_buffer_len_spec _ Hr) in Hsz. cbn [obind] in Hsz.
      destruct (ld_pl d); injection Hsz as _ <- _; assumption. }
    destruct (lpf_send_spec ieee_len c chdr uhdr (lp_payload_len (ld_pl d)) tag Hie Hh Hneed Hbuf Hfit) as (fs & Es & Hnx).
    assert (Hds : (lp_payload_len (ld_pl d) + lpf_IPV6_HDR) mod 65536 = blen D).
    { change lpf_IPV6_HDR with lp_IPV6_HDR. rewrite <- HDl. apply Z.mod_small. pose proof (blen_nonneg D). lia. }
    rewrite Hds in Es, Hnx.
    exists chdr, uhdr, fs. split; [exact Hsz|]. split; [exact Hh|]. split; [exact HlD|]. split; [lia|].
    split.
    { change lpf_IPV6_HDR with lp_IPV6_HDR. rewrite HDl. unfold lp_IPV6_HDR. pose proof (blen_nonneg c).
      destruct (ld_pl d) as [pp data|pr bytes]; cbn [lp_payload_len];
        [pose proof (blen_nonneg data) | pose proof (blen_nonneg bytes)]; unfold lp_UDP_HDR; zfold; lia. }
    split; [exact Hchdr|]. split; [exact Hf1|]. split; [|split; [exact Hdec | split; [exact Es | exact Hnx]]].
    intros p n Hp Hn. f_equal.
    replace (Z.to_nat p) with (Z.to_nat (p - chdr) + Z.to_nat chdr)%nat by lia.
    rewrite <- skipn_add, Hrest, skipn_add. f_equal. lia.
  Qed.

  (* what dispatch_sixlowpan does for this datagram: the fragmentation branch, on c *)
  Lemma e2e_dispatch fill chdr uhdr : 0 <= fill < 256 ->
    lp_compressed_packet_size d lls lld = Ok (blen c, chdr, uhdr) ->
    lp_dispatch d src dst lls lld tag fill = lpf_send ieee_len c chdr uhdr (lp_payload_len (ld_pl d)) tag.
  Proof.
    intros Hf Hsz. unfold lp_dispatch. rewrite Hsz. cbn [obind]. fold ieee_len. rewrite Hneed.
    replace (lpf_BUFFER <? blen c) with false by (symmetry; apply Z.ltb_ge; lia).
    assert (Hbl : blen (repeat fill (Z.to_nat lpf_BUFFER)) = lpf_BUFFER).
    { rewrite blen_repeat. unfold lpf_BUFFER. zfold. reflexivity. }
    rewrite (lp_ipv6_to_sixlowpan_spec d lls lld c _ Hwf Hc (bytes_ok_repeat fill _ Hf)) by lia. cbn [obind].
    pose proof (blen_nonneg c). rewrite wb_upto_app_l by lia. rewrite wb_upto_all. cbn [obind]. reflexivity.
  Qed.

  (* every frame of the egress model, as octets behind the MAC header, received in a poll at any
     time from the same link-layer addresses: a fragment event under key k that is a piece of D *)
  Lemma e2e_frame_event chdr uhdr frames :
    lp_compressed_packet_size d lls lld = Ok (blen c, chdr, uhdr) ->
    lpf_send ieee_len c chdr uhdr (lp_payload_len (ld_pl d)) tag = Ok frames ->
    forall fr, In fr frames -> frame_hdr_ok fr /\
      forall t, exists f, lpl_ev_of ctx (mkArrival t lls lld (frame_bytes fr)) = EvFrag t src dst f /\
                          frag_key src dst f = k /\ piece_ok D tag f /\
                          Some (rf_hdr f) = fr_hdr fr /\ rf_payload f = fr_payload fr.
  Proof.
    intros Hsz Hs fr Hin.
    destruct e2e_setup as (chdr' & uhdr' & fs & Hsz' & Hh & HlD & HD2k & H40 & Hchdr & Hf1 & Hshift & Hdec & Es & Hnx).
    rewrite Hsz in Hsz'. injection Hsz' as <- <-.
    pose proof e2e_ieee_len as Hie.
    assert (Hfit : blen c + (uhdr - chdr) < 2048) by lia.
    set (dec1 := fun buflen => lp_sixlowpan_to_ipv6 ctx lls lld (firstn (Z.to_nat (lpf_f1 ieee_len (uhdr - chdr))) c) (Some (blen D)) buflen).
    assert (Hrest : skipn (Z.to_nat chdr) c = skipn (Z.to_nat uhdr) D).
    { pose proof (Hshift chdr (blen c - chdr) ltac:(lia) ltac:(lia)) as H.
      rewrite !firstn_all2 in H; [|rewrite skipn_length; unfold blen in *; lia|rewrite skipn_length; unfold blen in *; lia].
      replace (chdr + (uhdr - chdr)) with uhdr in H by lia. exact H. }
    pose proof (lp_ipv6_bytes_len d lls lld D Hwf HD) as HDl.
    destruct (lpf_sender_pieces_ok ieee_len c D chdr uhdr (lp_payload_len (ld_pl d)) tag dec1 Hie Hh Hneed Hbuf Hfit
                Hrest ltac:(lia) ltac:(lia) (eq_sym HDl) Hchdr Hdec frames Hs fr Hin) as (rf & Erf & Hok).
    unfold lpf_rx_of_frame in Erf. destruct (fr_hdr fr) as [h|] eqn:Eh; [|discriminate Erf]. injection Erf as <-.
    (* the header is well-formed for the wire *)
    assert (Hhw : sixfrag_wf h = true /\ lpf_hdr_size h = blen D /\ lpf_hdr_tag h = tag /\
                  (match h with SfFirst _ _ => fr_payload fr = firstn (Z.to_nat (lpf_f1 ieee_len (uhdr - chdr))) c | _ => True end)).
    { rewrite Es in Hs. injection Hs as <-. pose proof (blen_nonneg D). destruct Hin as [<-|Hin].
      - cbn [fr_hdr] in Eh. injection Eh as <-. cbn [fr_payload]. split; [|auto]. unfold sixfrag_wf, sixfrag_SIZE_MASK, is_u16.
        apply andb_true_intro. split; [apply andb_true_intro; split; [apply Z.leb_le | apply Z.leb_le]; lia|].
        apply andb_true_intro. split; [apply Z.leb_le | apply Z.ltb_lt]; lia.
      - destruct (lpf_nexts_offsets _ _ _ _ _ _ _ Hnx fr Hin) as (p & n & Hh' & Hal & Hoff & _).
        rewrite Eh in Hh'. injection Hh' as ->. split; [|auto]. unfold sixfrag_wf, sixfrag_SIZE_MASK, is_u16, is_u8.
        repeat (apply andb_true_intro; split); try apply Z.leb_le; try apply Z.ltb_lt; lia. }
    destruct Hhw as (Hhwf & Hhs & Hht & Hf1p).
    split; [unfold frame_hdr_ok; rewrite Eh; exact Hhwf|]. intros t.
    unfold frame_bytes. rewrite Eh. rewrite (lpl_ev_of_fragment_octets ctx t lls lld h (fr_payload fr) Hhwf).
    eexists. split; [reflexivity|]. split; [unfold frag_key, k; cbn [rf_hdr]; rewrite Hhs, Hht; reflexivity|].
    split; [|cbn [rf_hdr rf_payload]; auto].
    apply (piece_ok_ext D tag (mkRxFrag h (fr_payload fr) dec1)); [reflexivity | reflexivity | | exact Hok].
    cbn [rf_hdr rf_first_dec]. destruct h as [s0 t0|s0 t0 o0]; [|exact I].
    intros n. subst dec1. cbv beta. rewrite Hf1p. cbn [lpf_hdr_size] in Hhs. rewrite Hhs. reflexivity.
  Qed.

  (* the spans of the frames of a segment, as events in order: they tile [lo + hdiff, lo' + hdiff) *)
  Lemma e2e_seg_events hdiff chdr : chdr <= blen c -> blen D = blen c + hdiff -> 0 <= hdiff -> forall lo fs lo',
    nexts_seg c (blen D) tag hdiff lo fs lo' -> 0 <= lo -> forall evs,
    Forall2 (fun fr e => exists t f, e = EvFrag t src dst f /\ frag_key src dst f = k /\
                                     Some (rf_hdr f) = fr_hdr fr /\ rf_payload f = fr_payload fr) fs evs ->
    prefix_order D k (lo + hdiff) evs /\
    existsb (ev_kfirstb k) evs = false /\
    (forall x, kcov D k evs x <-> lo + hdiff <= x < lo' + hdiff).
  Proof.
    intros Hcl HlD Hh0 lo fs lo' Hseg. induction Hseg as [lo|lo n fs lo' Hn Hle Hm Ho Hseg IH]; intros Hlo evs HF.
    - inversion HF; subst. cbn. split; [exact I|]. split; [reflexivity|]. intros x. unfold kcov. rewrite Exists_nil. lia.
    - inversion HF as [|? e ? evs' (t & f & -> & Hk & Hhd & Hpl) HF']; subst. cbn [fr_hdr fr_payload] in Hhd, Hpl.
      injection Hhd as Hhd.
      assert (Hbl : blen (firstn (Z.to_nat n) (skipn (Z.to_nat lo) c)) = n).
      { rewrite blen_firstn; [reflexivity|]. rewrite blen_skipn by lia. lia. }
      assert (Esp : frag_span D f = (lo + hdiff, n)).
      { unfold frag_span. rewrite Hhd, Hpl, Hbl. f_equal. lia. }
      destruct (ev_kspan_frag D k t src dst f Hk) as (Es & Ef). rewrite Esp in Es.
      assert (Efi : frag_is_first f = false) by (unfold frag_is_first; rewrite Hhd; reflexivity).
      destruct (IH ltac:(lia) evs' HF') as (Hp & Hfi & Hcov).
      cbn [prefix_order existsb]. rewrite Es, Ef, Efi, Hfi. split.
      { split; [lia|]. split; [lia|]. replace (Z.max (lo + hdiff) (lo + hdiff + n)) with (lo + n + hdiff) by lia. exact Hp. }
      split; [reflexivity|]. intros x. unfold kcov. rewrite Exists_cons. fold (kcov D k evs' x). rewrite Hcov.
      pose proof (nexts_seg_le _ _ _ _ _ _ _ Hseg). split.
      + intros [(o & s & E & Hx)|Hx]; [rewrite Es in E; injection E as <- <-; lia | lia].
      + intros Hx. destruct (Z.lt_ge_cases x (lo + hdiff + n)); [left; exists (lo + hdiff), n; split; [exact Es | lia] | right; lia].
  Qed.

  (* ---------- the theorems ---------- *)
  Variables (fill txfill timeout : Z).
  Hypothesis Hfill : 0 <= fill < 256.
  Hypothesis Htxfill : 0 <= txfill < 256.

  Variable octs : list (list Z).
  Hypothesis Hocts : lpl_tx_octets d lls lld tag fill txfill = Ok octs.

  (* the octets on the wire are the header octets + payload of the frames of the egress model *)
  Lemma e2e_octs : exists chdr uhdr fs,
    lp_compressed_packet_size d lls lld = Ok (blen c, chdr, uhdr) /\
    let F1 := mkFrame (Some (SfFirst (blen D) tag)) (firstn (Z.to_nat (lpf_f1 ieee_len (uhdr - chdr))) c) in
    lpf_send ieee_len c chdr uhdr (lp_payload_len (ld_pl d)) tag = Ok (F1 :: fs) /\
    octs = map frame_bytes (F1 :: fs) /\
    lpf_nexts c (blen D) tag (uhdr - chdr) (lpf_fn ieee_len) (lpf_f1 ieee_len (uhdr - chdr)) fs.
  Proof.
    destruct e2e_setup
      as (chdr & uhdr & fs & Hsz & Hh & HlD & HD2k & H40 & Hchdr & Hf1 & Hshift & Hdec & Es & Hnx).
    exists chdr, uhdr, fs. split; [exact Hsz|]. cbv zeta. split; [exact Es|]. split; [|exact Hnx].
    unfold lpl_tx_octets in Hocts. fold src dst in Hocts.
    rewrite (e2e_dispatch fill chdr uhdr Hfill Hsz) in Hocts.
    fold src dst ieee_len in Hocts. rewrite Es in Hocts. cbn [obind] in Hocts.
    rewrite lpl_frames_octets_spec in Hocts; [injection Hocts as <-; reflexivity | exact Htxfill|].
    apply Forall_forall. intros fr Hin.
    exact (proj1 (e2e_frame_event chdr uhdr _ Hsz Es fr Hin)).
  Qed.

  (* arrivals: each is either one of the frames the sender emitted (same link-layer addresses), or
     any well-formed frame that is not a fragment under key k *)
  Definition e2e_arrival_ok (a : lpl_arrival) : Prop :=
    (ar_lls a = lls /\ ar_lld a = lld /\ In (ar_payload a) octs) \/
    (arrival_wf a /\ ~ ev_is k (lpl_ev_of ctx a)).

  Lemma e2e_sender_arrival a : ar_lls a = lls /\ ar_lld a = lld /\ In (ar_payload a) octs ->
    sixlowpan_dispatch (ar_payload a) = Ok 0 /\
    exists f, lpl_ev_of ctx a = EvFrag (ar_time a) src dst f /\ frag_key src dst f = k /\ piece_ok D tag f.
  Proof.
    intros (Hl1 & Hl2 & Hino).
    destruct e2e_octs as (chdr & uhdr & fs & Hsz & Es & Eo & _). cbv zeta in Es. rewrite Eo in Hino.
    apply in_map_iff in Hino. destruct Hino as (fr & Hfb & Hfr).
    destruct (e2e_frame_event chdr uhdr _ Hsz Es fr Hfr) as (Hho & Hev).
    destruct (Hev (ar_time a)) as (f' & Ef' & Hk' & Hp & Hhd' & _).
    assert (Ea : a = mkArrival (ar_time a) lls lld (frame_bytes fr)) by (destruct a; cbn in *; subst; reflexivity).
    rewrite <- Ea in Ef'. split; [|exists f'; auto].
    rewrite <- Hfb. unfold frame_bytes. unfold frame_hdr_ok in Hho. destruct (fr_hdr fr) as [h|]; [|discriminate Hhd'].
    apply sixlowpan_dispatch_frag. exact Hho.
  Qed.

  Lemma e2e_arrivals_frag_or_wf arr : Forall e2e_arrival_ok arr -> Forall arrival_frag_or_wf arr.
  Proof.
    intros H. apply Forall_forall. intros a Ha. rewrite Forall_forall in H.
    destruct (H a Ha) as [Hs|(Hw & _)]; [left; exact (proj1 (e2e_sender_arrival a Hs)) | right; exact Hw].
  Qed.

  Lemma e2e_events_ok arr : Forall e2e_arrival_ok arr -> Forall (ev_ok D k tag) (map (lpl_ev_of ctx) arr).
  Proof.
    intros H. apply Forall_forall. intros e He. apply in_map_iff in He. destruct He as (a & <- & Hin).
    rewrite Forall_forall in H. destruct (H a Hin) as [Hs|(Hawf & Hnk)].
    - destruct (e2e_sender_arrival a Hs) as (_ & f & -> & Hkf & Hp). cbn [ev_ok]. split; [intros _; exact Hp | intros Hcc; contradiction].
    - destruct (lpl_poll_is_event_step ctx timeout a [] Hctx Hawf) as (_ & Htame & _).
      destruct (lpl_ev_of ctx a) as [t s' d' f|t r] eqn:Eev; [|exact I]. cbn [ev_ok]. cbn [ev_tame] in Htame. cbn [ev_is] in Hnk.
      split; [intros Hcc; contradiction | intros _; exact Htame].
  Qed.

  (* E2E, safety: whatever arrives, in any order, with any other traffic in between: under key k
     the receiver hands exactly D to process_ipv6, or nothing *)
  Theorem lpl_e2e_exact_or_nothing arr ss st :
    kstate D k ss st -> Forall e2e_arrival_ok arr ->
    exists ss' rs st', lpl_run ctx timeout arr ss = Ok (ss', rs) /\ kstate D k ss' st' /\
      Forall2 (fun a r => ev_is k (lpl_ev_of ctx a) -> r = None \/ r = Some D) arr rs.
  Proof.
    intros Hst Harr.
    destruct e2e_setup as (_ & _ & _ & _ & _ & _ & _ & H40 & _).
    pose proof (e2e_arrivals_frag_or_wf arr Harr) as Hawf.
    rewrite (lpl_run_is_event_run ctx timeout Hctx arr ss Hawf).
    destruct (ev_run_safe D tag src dst timeout _ ss st H40 Hst (e2e_events_ok arr Harr)) as (ss' & rs & st' & E & Hst' & HF & _).
    exists ss', rs, st'. split; [exact E|]. split; [exact Hst'|].
    clear E. revert rs HF. induction arr as [|a arr IH]; intros rs HF; inversion HF; subst; constructor; [assumption|].
    apply IH; [inversion Harr; assumption | inversion Hawf; assumption | assumption].
  Qed.

  (* E2E, liveness, any order the tracker can follow *)
  Theorem lpl_e2e_delivers pre a post ss :
    0 <= timeout -> kstate D k ss None -> Forall e2e_arrival_ok (pre ++ a :: post) ->
    let ev := lpl_ev_of ctx in
    let a0 := hd a pre in
    ev_is k (ev a0) -> (exists j, (j < length ss)%nat /\ slot_avail (ar_time a0) (nth j ss lpf_slot_new)) ->
    Forall (fun x => ar_time x <= ar_time a0 + timeout) (pre ++ [a]) ->
    gaps_fit lpf_N D k asm_new (map ev (pre ++ [a])) ->
    ev_is k (ev a) -> k_complete D k (map ev (pre ++ [a])) -> ~ k_complete D k (map ev pre) ->
    exists ss' rs_pre rs_post st',
      lpl_run ctx timeout (pre ++ a :: post) ss = Ok (ss', rs_pre ++ Some D :: rs_post) /\
      kstate D k ss' st' /\ length rs_pre = length pre /\
      Forall2 (fun x r => ev_is k (ev x) -> r = None) pre rs_pre /\
      Forall2 (fun x r => ev_is k (ev x) -> r = None \/ r = Some D) post rs_post.
  Proof.
    intros Hto Hst Harr ev a0 Hk0 Hav Htime Hgaps Hka Hcomp Hninc.
    destruct e2e_setup as (_ & _ & _ & _ & _ & _ & _ & H40 & _).
    pose proof (e2e_arrivals_frag_or_wf _ Harr) as Hawf.
    assert (Htm : forall x, ev_time (ev x) = ar_time x).
    { intros x. unfold ev, lpl_ev_of. cbv zeta. repeat match goal with |- context [match ?y with _ => _ end] => destruct y end; reflexivity. }
    rewrite (lpl_run_is_event_run ctx timeout Hctx _ ss Hawf). rewrite map_app. cbn [map].
    pose proof (e2e_events_ok _ Harr) as Hok. rewrite map_app in Hok. cbn [map] in Hok.
    assert (Hhd : hd (ev a) (map ev pre) = ev a0) by (subst a0; destruct pre; reflexivity).
    rewrite map_app in Hgaps, Hcomp. cbn [map] in Hgaps, Hcomp.
    destruct (ev_run_delivers D tag src dst timeout (map ev pre) (ev a) (map ev post) ss H40 Hto Hst Hok)
      as (ss' & rs_pre & rs_post & st' & E & Hst' & Hl & HF1 & HF2 & _); try assumption.
    - rewrite Hhd. exact Hk0.
    - rewrite Hhd, Htm. exact Hav.
    - rewrite Hhd, Htm. change [ev a] with (map ev [a]). rewrite <- (map_app ev pre [a]). apply Forall_forall. intros e He.
      apply in_map_iff in He. destruct He as (x & <- & Hx). rewrite Htm. rewrite Forall_forall in Htime. exact (Htime x Hx).
    - exists ss', rs_pre, rs_post, st'. split; [exact E|]. split; [exact Hst'|]. split; [rewrite Hl; apply map_length|].
      split.
      + clear - HF1. revert rs_pre HF1. induction pre as [|x pre IH]; intros rs HF; inversion HF; subst; constructor; auto.
      + clear - HF2. revert rs_post HF2. induction post as [|x post IH]; intros rs HF; inversion HF; subst; constructor; auto.
  Qed.

  (* an arrival that is one of the sender's frames, from the sender's addresses *)
  Definition e2e_sender (a : lpl_arrival) : Prop := ar_lls a = lls /\ ar_lld a = lld /\ In (ar_payload a) octs.

  (* the frames of the sender as events: key k, span, first flag -- and they tile the datagram *)
  Lemma e2e_frames_tile : exists hdiff frames,
    octs = map frame_bytes frames /\
    (forall fr t, In fr frames ->
       ev_kspan D k (lpl_ev_of ctx (mkArrival t lls lld (frame_bytes fr))) = Some (fr_span hdiff fr) /\
       ev_kfirstb k (lpl_ev_of ctx (mkArrival t lls lld (frame_bytes fr))) =
         match fr_hdr fr with Some (SfFirst _ _) => true | _ => false end) /\
    (exists F1, In F1 frames /\ exists s t, fr_hdr F1 = Some (SfFirst s t)) /\
    (forall fr, In fr frames -> 0 <= fst (fr_span hdiff fr) /\ 0 < snd (fr_span hdiff fr) /\
                                fst (fr_span hdiff fr) + snd (fr_span hdiff fr) <= blen D) /\
    (forall x, 0 <= x < blen D -> exists fr, In fr frames /\ in_fr_span hdiff x fr) /\
    (forall fr1 fr2 x, In fr1 frames -> In fr2 frames -> in_fr_span hdiff x fr1 -> in_fr_span hdiff x fr2 -> fr1 = fr2).
  Proof.
    destruct e2e_setup as (chdr0 & uhdr0 & fs0 & Hsz0 & Hh & HlD & HD2k & H40 & Hchdr & Hf1 & Hshift & Hdec & Es0 & Hnx0).
    destruct e2e_octs as (chdr & uhdr & fs & Hsz & Es & Eocts & Hnx). cbv zeta in Es.
    rewrite Hsz0 in Hsz. injection Hsz as <- <-. clear Es0 Hnx0 fs0.
    set (hdiff := uhdr0 - chdr0) in *. set (f1 := lpf_f1 ieee_len hdiff) in *.
    set (F1 := mkFrame (Some (SfFirst (blen D) tag)) (firstn (Z.to_nat f1) c)) in *.
    assert (Hhd0 : 0 <= hdiff) by (subst hdiff; lia).
    pose proof (lpf_nexts_seg _ _ _ _ _ _ _ Hnx) as Hseg.
    destruct (nexts_seg_tiles _ _ _ _ _ _ _ Hseg ltac:(lia)) as (T1 & T2 & T3).
    assert (Hbl1 : blen (firstn (Z.to_nat f1) c) = f1) by (apply blen_firstn; lia).
    assert (Hs1 : fr_span hdiff F1 = (0, f1 + hdiff)) by (unfold fr_span, F1; cbn [fr_hdr fr_payload]; rewrite Hbl1; reflexivity).
    exists hdiff, (F1 :: fs). split; [exact Eocts|]. split; [|split; [|split; [|split]]].
    - intros fr t Hin.
      destruct (e2e_frame_event chdr0 uhdr0 _ Hsz0 Es fr Hin) as (Hho & Hev).
      destruct (Hev t) as (f & Ef & Hkf & Hp & Hhf & Hplf). rewrite Ef.
      destruct (ev_kspan_frag D k t src dst f Hkf) as (-> & ->).
      destruct Hin as [<-|Hin].
      + (* the first fragment: the decompressor's output length *)
        assert (Hg : sixfrag_wf (SfFirst (blen D) tag) = true) by exact Hho.
        pose proof (lpl_ev_of_fragment_octets ctx t lls lld (SfFirst (blen D) tag) (fr_payload F1) Hg) as Ex.
        change (sixfrag_bytes (SfFirst (blen D) tag) ++ fr_payload F1) with (frame_bytes F1) in Ex.
        rewrite Ef in Ex. injection Ex as ->. unfold frag_span, frag_is_first. cbn [rf_hdr rf_first_dec fr_payload fr_hdr F1 lpf_hdr_size].
        rewrite (Hdec (blen D) ltac:(lia)). rewrite Hs1. split; [|reflexivity]. f_equal. f_equal. apply blen_firstn. lia.
      + destruct (lpf_nexts_offsets _ _ _ _ _ _ _ Hnx fr Hin) as (p & n & Hh' & _).
        rewrite Hh' in Hhf. injection Hhf as Hhf. unfold frag_span, frag_is_first, fr_span. rewrite Hhf, Hh', Hplf. auto.
    - exists F1. split; [left; reflexivity | exists (blen D), tag; reflexivity].
    - intros fr [<-|Hin]; [rewrite Hs1; cbn [fst snd]; lia|]. destruct (T1 fr Hin) as (A & B & C). lia.
    - intros x Hx. destruct (Z.lt_ge_cases x (f1 + hdiff)).
      + exists F1. split; [left; reflexivity|]. unfold in_fr_span. rewrite Hs1. cbn [fst snd]. lia.
      + destruct (T2 x ltac:(lia)) as (fr & Hin & Hsp). exists fr. split; [right; exact Hin | exact Hsp].
    - intros fr1 fr2 x [<-|H1] [<-|H2] S1 S2; try reflexivity.
      + exfalso. unfold in_fr_span in S1, S2. rewrite Hs1 in S1. cbn [fst snd] in S1. destruct (T1 fr2 H2) as (A & _). lia.
      + exfalso. unfold in_fr_span in S1, S2. rewrite Hs1 in S2. cbn [fst snd] in S2. destruct (T1 fr1 H1) as (A & _). lia.
      + exact (T3 fr1 fr2 x H1 H2 S1 S2).
  Qed.

  (* E2E, liveness in terms of the frames themselves: every frame of the sender has arrived (from the
     sender's addresses) by the time of a, and a's own frame had not arrived before -- a is "the last
     missing fragment".  Any order the tracker can follow, any duplicates, any other traffic. *)
  Theorem lpl_e2e_delivers_all_frames pre a post ss :
    0 <= timeout -> kstate D k ss None -> Forall e2e_arrival_ok (pre ++ a :: post) ->
    let a0 := hd a pre in
    e2e_sender a0 -> (exists j, (j < length ss)%nat /\ slot_avail (ar_time a0) (nth j ss lpf_slot_new)) ->
    Forall (fun x => ar_time x <= ar_time a0 + timeout) (pre ++ [a]) ->
    gaps_fit lpf_N D k asm_new (map (lpl_ev_of ctx) (pre ++ [a])) ->
    e2e_sender a ->
    (forall o, In o octs -> exists x, In x (pre ++ [a]) /\ e2e_sender x /\ ar_payload x = o) ->
    (forall x, In x pre -> e2e_sender x -> ar_payload x <> ar_payload a) ->
    exists ss' rs_pre rs_post st',
      lpl_run ctx timeout (pre ++ a :: post) ss = Ok (ss', rs_pre ++ Some D :: rs_post) /\
      kstate D k ss' st' /\ length rs_pre = length pre /\
      Forall2 (fun x r => ev_is k (lpl_ev_of ctx x) -> r = None) pre rs_pre /\
      Forall2 (fun x r => ev_is k (lpl_ev_of ctx x) -> r = None \/ r = Some D) post rs_post.
  Proof.
    intros Hto Hst Harr a0 Hs0 Hav Htime Hgaps Hsa Hall Hnew.
    destruct e2e_frames_tile as (hdiff & frames & Eo & Hev & (F1 & HF1 & s1 & t1 & HhF1) & Hpos & Hcover & Hdisj).
    assert (Hmk : forall x, e2e_sender x -> exists fr, In fr frames /\ x = mkArrival (ar_time x) lls lld (frame_bytes fr)).
    { intros [t xl xd xp] (H1 & H2 & H3). cbn in *. subst. rewrite Eo in H3. apply in_map_iff in H3.
      destruct H3 as (fr & <- & Hfr). exists fr. auto. }
    assert (Hkev : forall x, e2e_sender x -> ev_is k (lpl_ev_of ctx x)).
    { intros x Hx. destruct (e2e_sender_arrival x Hx) as (_ & f & -> & Hk & _). exact Hk. }
    apply lpl_e2e_delivers; try assumption; try (apply Hkev; assumption).
    - (* complete *)
      split.
      + destruct (Hall (frame_bytes F1) ltac:(rewrite Eo; apply in_map; exact HF1)) as (x & Hx & Hsx & Hpx).
        destruct (Hmk x Hsx) as (fr & Hfr & Ex).
        assert (fr = F1 \/ frame_bytes fr = frame_bytes F1) by (right; rewrite Ex in Hpx; exact Hpx).
        unfold kfirst. apply existsb_exists. exists (lpl_ev_of ctx x). split; [apply in_map; exact Hx|].
        assert (Ex' : x = mkArrival (ar_time x) lls lld (frame_bytes F1)) by (rewrite Ex; cbn [ar_time]; rewrite Ex in Hpx; cbn [ar_payload] in Hpx; rewrite Hpx; reflexivity).
        rewrite Ex'. rewrite (proj2 (Hev F1 _ HF1)), HhF1. reflexivity.
      + intros y Hy. destruct (Hcover y Hy) as (fr & Hfr & Hsp).
        destruct (Hall (frame_bytes fr) ltac:(rewrite Eo; apply in_map; exact Hfr)) as (x & Hx & Hsx & Hpx).
        destruct Hsx as (Hl1 & Hl2 & _).
        assert (Ex : x = mkArrival (ar_time x) lls lld (frame_bytes fr)) by (destruct x; cbn in *; subst; reflexivity).
        unfold kcov. apply Exists_exists. exists (lpl_ev_of ctx x). split; [apply in_map; exact Hx|].
        exists (fst (fr_span hdiff fr)), (snd (fr_span hdiff fr)). split; [|exact Hsp].
        rewrite Ex, (proj1 (Hev fr _ Hfr)). destruct (fr_span hdiff fr); reflexivity.
    - (* not complete before: the first octet of a's frame is missing *)
      destruct (Hmk a Hsa) as (fra & Hfra & Ea).
      intros (_ & Hcov). destruct (Hpos fra Hfra) as (Hp0 & Hp1 & Hp2).
      specialize (Hcov (fst (fr_span hdiff fra)) ltac:(lia)). unfold kcov in Hcov.
      apply Exists_exists in Hcov. destruct Hcov as (e & He & o & sz & Esp & Hin).
      apply in_map_iff in He. destruct He as (y & <- & Hy).
      pose proof (ev_kspan_is D k _ o sz Esp) as Hky.
      assert (Hoky : e2e_arrival_ok y).
      { rewrite Forall_forall in Harr. apply Harr. apply in_or_app. left. exact Hy. }
      destruct Hoky as [Hsy|(_ & Hnk)]; [|contradiction].
      destruct (Hmk y Hsy) as (fry & Hfry & Ey).
      rewrite Ey, (proj1 (Hev fry _ Hfry)) in Esp. injection Esp as Eo1.
      assert (fry = fra).
      { apply (Hdisj fry fra (fst (fr_span hdiff fra)) Hfry Hfra); unfold in_fr_span; [rewrite Eo1; exact Hin | lia]. }
      subst fry. apply (Hnew y Hy Hsy). rewrite Ey, Ea. reflexivity.
  Qed.

  (* E2E, the arrival order of the wire: every frame the sender emitted, in order, each polled no
     later than reassembly_timeout after the first, at a receiver with no slot claimed for k and a
     free or expired slot: nothing until the last frame, exactly D at the last frame -- for EVERY
     tracker capacity (the merged range is always one) *)
  Theorem lpl_e2e_in_order arr ss :
    0 <= timeout -> kstate D k ss None ->
    map ar_payload arr = octs -> Forall (fun a => ar_lls a = lls /\ ar_lld a = lld) arr ->
    let t0 := match arr with a :: _ => ar_time a | [] => 0 end in
    (exists j, (j < length ss)%nat /\ slot_avail t0 (nth j ss lpf_slot_new)) ->
    Forall (fun a => ar_time a <= t0 + timeout) arr ->
    exists ss' st', lpl_run ctx timeout arr ss = Ok (ss', repeat None (length arr - 1) ++ [Some D]) /\
                    kstate D k ss' st'.
  Proof.
    intros Hto Hst Hpay Hll t0 Hav Htime.
    destruct e2e_setup as (chdr0 & uhdr0 & fs0 & Hsz0 & Hh & HlD & HD2k & H40 & Hchdr & Hf1 & Hshift & Hdec & Es0 & Hnx0).
    destruct e2e_octs as (chdr & uhdr & fs & Hsz & Es & Eocts & Hnx). cbv zeta in Es.
    rewrite Hsz0 in Hsz. injection Hsz as <- <-. clear Es0 Hnx0 fs0.
    set (hdiff := uhdr0 - chdr0) in *. set (f1 := lpf_f1 ieee_len hdiff) in *.
    set (F1 := mkFrame (Some (SfFirst (blen D) tag)) (firstn (Z.to_nat f1) c)) in *.
    assert (Hhd0 : 0 <= hdiff) by (subst hdiff; lia).
    (* the frame list is F1 :: fs' ++ [l] *)
    pose proof (lpf_nexts_seg _ _ _ _ _ _ _ Hnx) as Hseg.
    assert (Hfs : fs <> []) by (intros ->; inversion Hseg; lia).
    destruct (exists_last Hfs) as (fs' & l & ->).
    destruct (nexts_seg_snoc _ _ _ _ _ _ _ _ Hseg) as (mid & Hseg1 & Hsegl & Hmid).
    pose proof (nexts_seg_le _ _ _ _ _ _ _ Hseg1) as Hmidle.
    set (frames := F1 :: fs' ++ [l]) in *.
    assert (Hfev : forall fr t, In fr frames ->
              exists f, lpl_ev_of ctx (mkArrival t lls lld (frame_bytes fr)) = EvFrag t src dst f /\
                        frag_key src dst f = k /\ piece_ok D tag f /\ Some (rf_hdr f) = fr_hdr fr /\ rf_payload f = fr_payload fr).
    { intros fr t Hin. exact (proj2 (e2e_frame_event chdr0 uhdr0 _ Hsz0 Es fr Hin) t). }
    (* the arrivals, split like the frames *)
    rewrite Eocts in Hpay. subst frames. cbn [map] in Hpay.
    destruct (map_eq_cons _ _ Hpay) as (a1 & arr2 & -> & Hp1 & Hpay2).
    rewrite map_app in Hpay2. destruct (map_eq_app _ _ _ _ Hpay2) as (arr' & arrl & -> & Hpay' & Hpayl).
    cbn [map] in Hpayl. destruct (map_eq_cons _ _ Hpayl) as (al & nil' & -> & Hpl & Hnil).
    apply map_eq_nil in Hnil. subst nil'. cbn [hd] in t0. subst t0.
    set (frames := F1 :: fs' ++ [l]) in *.
    assert (Hmk : forall a fr, ar_lls a = lls /\ ar_lld a = lld -> ar_payload a = frame_bytes fr ->
                    a = mkArrival (ar_time a) lls lld (frame_bytes fr)).
    { intros [t x y z] fr (H1 & H2) H3. cbn in *. subst. reflexivity. }
    pose proof (Forall_inv Hll) as Hll1. pose proof (Forall_inv_tail Hll) as Hll2.
    apply Forall_app in Hll2. destruct Hll2 as (Hll' & Hlll). pose proof (Forall_inv Hlll) as Hlll1.
    assert (Hone : forall t fr, In fr frames -> e2e_arrival_ok (mkArrival t lls lld (frame_bytes fr))).
    { intros t fr Hin. left. cbn [ar_lls ar_lld ar_payload]. split; [reflexivity|]. split; [reflexivity|].
      rewrite Eocts. apply in_map. exact Hin. }
    assert (Harr_of : forall frs arrs, (forall fr, In fr frs -> In fr frames) ->
              map ar_payload arrs = map frame_bytes frs -> Forall (fun a => ar_lls a = lls /\ ar_lld a = lld) arrs ->
              Forall e2e_arrival_ok arrs /\
              Forall2 (fun fr e => exists t f, e = EvFrag t src dst f /\ frag_key src dst f = k /\
                                               Some (rf_hdr f) = fr_hdr fr /\ rf_payload f = fr_payload fr)
                      frs (map (lpl_ev_of ctx) arrs)).
    { induction frs as [|fr frs IHf]; intros [|a arrs] Hsub Hm HllA; cbn [map] in Hm; try discriminate Hm.
      - split; constructor.
      - injection Hm as Hm1 Hm2. pose proof (Forall_inv HllA) as Ha. pose proof (Forall_inv_tail HllA) as HllB.
        destruct (IHf arrs ltac:(intros x Hx; apply Hsub; right; exact Hx) Hm2 HllB) as (I1 & I2).
        pose proof (Hmk a fr Ha Hm1) as Ea.
        split.
        + constructor; [rewrite Ea; apply Hone; apply Hsub; left; reflexivity | exact I1].
        + cbn [map]. constructor; [|exact I2].
          destruct (Hfev fr (ar_time a) (Hsub fr ltac:(left; reflexivity))) as (f & Ef & Hkf & _ & Hhf & Hplf).
          exists (ar_time a), f. rewrite Ea. auto. }
    set (ev := lpl_ev_of ctx) in *.
    destruct (Harr_of [F1] [a1] ltac:(intros x [<-|[]]; left; reflexivity) ltac:(cbn; f_equal; exact Hp1) ltac:(constructor; auto))
      as (Ho1 & HR1).
    destruct (Harr_of fs' arr' ltac:(intros x Hx; right; apply in_or_app; left; exact Hx) Hpay' Hll') as (Ho' & HR').
    destruct (Harr_of [l] [al] ltac:(intros x [<-|[]]; right; apply in_or_app; right; left; reflexivity) ltac:(cbn; f_equal; exact Hpl)
                ltac:(constructor; auto)) as (Hol & HRl).
    cbn [map] in HR1, HRl.
    destruct (Forall2_cons_inv' _ _ _ _ _ HR1) as ((t1 & g1 & Eg1 & Hk1 & Hh1 & Hpl1) & _).
    destruct (Forall2_cons_inv' _ _ _ _ _ HRl) as ((tl & gl & Egl & Hkl & Hhl & Hpll) & _).
    (* the span of the first fragment *)
    assert (Hsp1 : frag_span D g1 = (0, f1 + hdiff) /\ frag_is_first g1 = true).
    { pose proof (Hmk a1 F1 Hll1 Hp1) as Ea1.
      assert (Hg : sixfrag_wf (SfFirst (blen D) tag) = true)
        by exact (proj1 (e2e_frame_event chdr0 uhdr0 _ Hsz0 Es F1 ltac:(left; reflexivity))).
      pose proof (lpl_ev_of_fragment_octets ctx (ar_time a1) lls lld (SfFirst (blen D) tag) (fr_payload F1) Hg) as Ex.
      fold ev in Ex. change (sixfrag_bytes (SfFirst (blen D) tag) ++ fr_payload F1) with (frame_bytes F1) in Ex.
      rewrite <- Ea1, Eg1 in Ex. injection Ex as _ ->. unfold frag_span, frag_is_first. cbn [rf_hdr rf_first_dec fr_payload F1 lpf_hdr_size].
      split; [|reflexivity]. rewrite (Hdec (blen D) ltac:(lia)). f_equal. apply blen_firstn. lia. }
    destruct Hsp1 as (Hsp1 & Hfi1).
    destruct (ev_kspan_frag D k t1 src dst g1 Hk1) as (Es1 & Ef1). rewrite Hsp1 in Es1. rewrite Hfi1 in Ef1.
    (* the FRAGN events tile [f1 + hdiff, |D|) *)
    assert (Hf1lo : 0 <= f1) by lia.
    destruct (e2e_seg_events hdiff chdr0 ltac:(lia) HlD Hhd0 f1 fs' mid Hseg1 Hf1lo _ HR') as (_ & _ & Hcov1).
    pose proof (Forall2_app HR' HRl) as HRall.
    change [ev al] with (map ev [al]) in HRall. rewrite <- map_app in HRall.
    destruct (e2e_seg_events hdiff chdr0 ltac:(lia) HlD Hhd0 f1 (fs' ++ [l]) (blen c) Hseg Hf1lo _ HRall) as (Hpoall & Hnfall & Hcovall).
    (* apply the liveness theorem *)
    destruct (lpl_e2e_delivers (a1 :: arr') al [] ss Hto Hst) as (ss' & rs_pre & rs_post & st' & E & Hst' & Hlp & HFp & HFq).
    - cbn [app]. constructor; [exact (Forall_inv Ho1)|]. apply Forall_app. split; [exact Ho' | exact Hol].
    - cbn [hd]. fold ev. rewrite Eg1. exact Hk1.
    - cbn [hd]. exact Hav.
    - cbn [hd app]. exact Htime.
    - change asm_new with (prefix_asm 0). apply gaps_fit_prefix_order; [apply lpf_N_pos | lia|].
      cbn [map app]. fold ev. rewrite Eg1. cbn [prefix_order]. rewrite Es1.
      split; [lia|]. split; [lia|]. replace (Z.max 0 (0 + (f1 + hdiff))) with (f1 + hdiff) by lia. exact Hpoall.
    - fold ev. rewrite Egl. exact Hkl.
    - cbn [map app]. fold ev. rewrite Eg1. split.
      + unfold kfirst. cbn [existsb]. rewrite Ef1. reflexivity.
      + intros x Hx. unfold kcov. rewrite Exists_cons. destruct (Z.lt_ge_cases x (f1 + hdiff)).
        * left. exists 0, (f1 + hdiff). split; [exact Es1 | lia].
        * right. apply Hcovall. lia.
    - cbn [map]. fold ev. rewrite Eg1. intros (_ & Hcov).
      specialize (Hcov (mid + hdiff) ltac:(lia)). unfold kcov in Hcov. rewrite Exists_cons in Hcov.
      destruct Hcov as [(o & s & E' & Hx)|Hx]; [rewrite Es1 in E'; injection E' as <- <-; lia|].
      apply Hcov1 in Hx. lia.
    - exists ss', st'. split; [|exact Hst'].
      change (a1 :: arr' ++ [al]) with ((a1 :: arr') ++ [al]). rewrite E.
      rewrite (Forall2_nil_inv' _ _ HFq).
      assert (Hallk : forall x, In x (a1 :: arr') -> ev_is k (ev x)).
      { intros x [<-|Hx]; [rewrite Eg1; exact Hk1|].
        assert (Hin : In (ev x) (map ev arr')) by (apply in_map; exact Hx).
        clear - HR' Hin. induction HR' as [|fr e frs es (t & f & -> & Hk & _) _ IH]; [destruct Hin|].
        destruct Hin as [<-|Hin]; [exact Hk | exact (IH Hin)]. }
      rewrite (Forall2_all_none (fun x => ev_is k (ev x)) _ _ HFp Hallk).
      rewrite app_length. cbn [length]. replace (S (length arr') + 1 - 1)%nat with (S (length arr')) by lia. reflexivity.
  Qed.
End EndToEnd.

(* ================================================================================
   13. every tiling, and the unfragmented frame
   ================================================================================ *)

(* EVERY cut of the compressed datagram into a FRAG1 that contains the compressed headers and FRAGN
   pieces at 8-octet-aligned positions of the uncompressed datagram (not only the cut the own
   fragmenter makes: any sender's) consists of pieces of D in the sense of the theorems above *)
Theorem lp_tiles_are_pieces d lls lld ctx c D chdr uhdr tag :
  lp_dgram_wf d lls lld -> lp_compressed d lls lld = Ok c -> lp_ipv6_bytes d = Ok D ->
  lp_compressed_packet_size d lls lld = Ok (blen c, chdr, uhdr) ->
  (forall k1, chdr <= k1 <= blen c ->
     piece_ok D tag (mkRxFrag (SfFirst (blen D) tag) (firstn (Z.to_nat k1) c)
                              (fun n => lp_sixlowpan_to_ipv6 ctx lls lld (firstn (Z.to_nat k1) c) (Some (blen D)) n))) /\
  (forall p n dec, chdr <= p -> 0 <= n -> p + n <= blen c -> (p + (uhdr - chdr)) mod 8 = 0 ->
     piece_ok D tag (mkRxFrag (SfNext (blen D) tag ((p + (uhdr - chdr)) / 8))
                              (firstn (Z.to_nat n) (skipn (Z.to_nat p) c)) dec)).
Proof.
  intros Hwf Hc HD Hsz.
  destruct (lp_compressed_packet_size_spec d lls lld c Hwf Hc) as (chdr' & uhdr' & Hsz' & Hh & Hcc & _ & _ & Hdiff).
  rewrite Hsz in Hsz'. injection Hsz' as <- <-.
  pose proof (lp_ipv6_bytes_len d lls lld D Hwf HD) as HDl.
  destruct (lp_tails d lls lld c D chdr uhdr Hwf Hc HD Hsz) as (Pc & Pd & tail & Ec & ED & Lc & Ld).
  assert (HlD : blen D = blen c + (uhdr - chdr)) by (rewrite Ec, ED, !blen_app; lia).
  split.
  - intros k1 Hk1. unfold piece_ok. cbn [rf_hdr rf_first_dec]. split; [reflexivity|]. split; [reflexivity|].
    exists (firstn (Z.to_nat (k1 + (uhdr - chdr))) D).
    assert (Hbl : blen (firstn (Z.to_nat (k1 + (uhdr - chdr))) D) = k1 + (uhdr - chdr)) by (apply blen_firstn; lia).
    split; [|rewrite Hbl; split; [lia | reflexivity]].
    intros n Hn.
    pose proof (lp_decompress_prefix d lls lld ctx Hwf c D k1 (Some (blen D)) n Hc HD ltac:(right; reflexivity) Hn ltac:(lia)) as H.
    replace (blen D - blen c) with (uhdr - chdr) in H by lia. apply H.
    unfold lp_compressed_packet_size in Hsz. destruct Hwf as (Hr & _).
    rewrite (iphc_buffer_len_spec _ Hr) in Hsz. cbn [obind] in Hsz.
    destruct (ld_pl d); injection Hsz as _ <- _; lia.
  - intros p n dec Hp Hn Hle Hal. unfold piece_ok. cbn [rf_hdr rf_payload].
    assert (Hbl : blen (firstn (Z.to_nat n) (skipn (Z.to_nat p) c)) = n).
    { rewrite blen_firstn; [reflexivity|]. rewrite blen_skipn by lia. lia. }
    rewrite Hbl. replace ((p + (uhdr - chdr)) / 8 * 8) with (p + (uhdr - chdr)) by lia.
    split; [reflexivity|]. split; [reflexivity|]. split; [lia|]. split; [lia|].
    f_equal. rewrite Ec, ED.
    replace (Z.to_nat p) with (Z.to_nat (p - chdr) + length Pc)%nat by (unfold blen in Lc; lia).
    replace (Z.to_nat (p + (uhdr - chdr))) with (Z.to_nat (p - chdr) + length Pd)%nat by (unfold blen in Ld; lia).
    rewrite <- !skipn_add. rewrite !skipn_app_exact by reflexivity. reflexivity.
Qed.

Lemma iphc_bytes_dispatch r rest : sixlowpan_dispatch (iphc_bytes r ++ rest) = Ok 1.
Proof.
  unfold iphc_bytes. destruct (iphc_src_mode _ _) as ((sac, sam), sb). destruct (iphc_dst_mode _ _) as ((m, dam), db).
  cbn [app]. rewrite sixlowpan_dispatch_cons. unfold iphc_hdr0, iphc_nh_bit, iphc_hl_code.
  destruct (ir_nh r); destruct (ir_hl r =? 255); destruct (ir_hl r =? 64); destruct (ir_hl r =? 1); vm_compute; reflexivity.
Qed.

(* E2E, unfragmented: a datagram whose compressed form fits one frame goes out as exactly that
   frame, and the poll that receives it hands D to process_ipv6 *)
Theorem lpl_e2e_unfragmented d lls lld ctx c D tag fill txfill timeout t ss :
  lp_dgram_wf d lls lld -> lp_compressed d lls lld = Ok c -> lp_ipv6_bytes d = Ok D ->
  0 <= fill < 256 ->
  lpf_needs_frag (blen c) (lpf_ieee_len (lpl_ll_bytes lld) (lpl_ll_bytes lls)) = false ->
  lpl_tx_octets d lls lld tag fill txfill = Ok [c] /\
  lpl_poll ctx timeout (mkArrival t lls lld c) ss = Ok (lpf_remove_expired t ss, Some D).
Proof.
  intros Hwf Hc HD Hf Hneed.
  destruct (lp_compressed_packet_size_spec d lls lld c Hwf Hc) as (chdr & uhdr & Hsz & Hh & Hcc & _ & Hu48 & Hdiff).
  pose proof (lp_ipv6_bytes_len d lls lld D Hwf HD) as HDl. pose proof (blen_nonneg c) as Hcn.
  assert (Hsmall : blen D <= lp_MAX_DECOMPRESSED_LEN).
  { unfold lpf_needs_frag in Hneed. rewrite Z.gtb_ltb in Hneed. apply Z.ltb_ge in Hneed.
    unfold lpf_ieee_len in Hneed. pose proof (blen_nonneg (lpl_ll_bytes lld)). pose proof (blen_nonneg (lpl_ll_bytes lls)).
    unfold lpf_MAX_FRAME in Hneed. zfold_in Hneed. unfold lp_MAX_DECOMPRESSED_LEN. zfold. unfold lp_IPV6_HDR in *. lia. }
  split.
  - unfold lpl_tx_octets, lp_dispatch. rewrite Hsz. cbn [obind]. rewrite Hneed.
    rewrite (lp_ipv6_to_sixlowpan_spec d lls lld c _ Hwf Hc (bytes_ok_repeat fill _ Hf)) by (rewrite blen_repeat; lia).
    cbn [obind]. rewrite skipn_all2 by (rewrite repeat_length; unfold blen; lia). rewrite app_nil_r.
    cbn [lpl_frames_octets lpl_frame_octets fr_hdr fr_payload obind]. reflexivity.
  - unfold lpl_poll, lp_process_sixlowpan. cbn [ar_time ar_lls ar_lld ar_payload].
    assert (Hd : sixlowpan_dispatch c = Ok 1).
    { unfold lp_compressed in Hc. destruct (ld_pl d).
      - obind_inv Hc. injection Hc as <-. apply iphc_bytes_dispatch.
      - injection Hc as <-. apply iphc_bytes_dispatch. }
    rewrite Hd. replace (1 =? 0) with false by reflexivity.
    assert (Hrb : blen c <= blen (repeat 0 (Z.to_nat (blen c)))) by (rewrite blen_repeat; lia).
    rewrite (proj2 (lp_roundtrip d lls lld ctx c D (repeat 0 (Z.to_nat (blen c))) lp_MAX_DECOMPRESSED_LEN Hwf Hc HD
                      (bytes_ok_repeat 0 _ ltac:(lia)) Hrb Hsmall)).
    reflexivity.
Qed.

(* ================================================================================
   14. non-vacuity: a concrete out-of-order arrival with a duplicate and foreign traffic
   ================================================================================ *)

Definition lpl_ex_D : list Z := map Z.of_nat (seq 0 56).
Definition lpl_ex_src : list Z := [1; 2].
Definition lpl_ex_dst : list Z := [3; 4].
Definition lpl_ex_f1 : lpf_rx_frag := mkRxFrag (SfFirst 56 7) [] (fun _ => Ok (firstn 24 lpl_ex_D)).
Definition lpl_ex_f2 : lpf_rx_frag := mkRxFrag (SfNext 56 7 3) (firstn 16 (skipn 24 lpl_ex_D)) (fun _ => Err 0).
Definition lpl_ex_f3 : lpf_rx_frag := mkRxFrag (SfNext 56 7 5) (skipn 40 lpl_ex_D) (fun _ => Err 0).
(* a fragment of another datagram (other tag) *)
Definition lpl_ex_g : lpf_rx_frag := mkRxFrag (SfNext 64 9 1) [0; 0; 0; 0; 0; 0; 0; 0] (fun _ => Err 0).
Definition lpl_ex_pre : list lpl_ev :=
  [EvFrag 0 lpl_ex_src lpl_ex_dst lpl_ex_f3; EvOther 5 None; EvFrag 10 lpl_ex_src lpl_ex_dst lpl_ex_f1;
   EvFrag 12 lpl_ex_src lpl_ex_dst lpl_ex_g; EvFrag 15 lpl_ex_src lpl_ex_dst lpl_ex_f3].
Definition lpl_ex_a : lpl_ev := EvFrag 20 lpl_ex_src lpl_ex_dst lpl_ex_f2.
Definition lpl_ex_k : lpf_key := (lpl_ex_src, lpl_ex_dst, blen lpl_ex_D, 7).

(* the model run: nothing, nothing, nothing, nothing (no free slot for the foreign fragment), nothing
   (duplicate), then exactly D *)
Lemma lpl_example_run :
  omap snd (ev_run 60000 (lpl_ex_pre ++ [lpl_ex_a]) lpf_slots_new) = Ok [None; None; None; None; None; Some lpl_ex_D].
Proof. vm_compute. reflexivity. Qed.

(* ... and it is an instance of the delivery theorem: all its hypotheses hold *)
Lemma lpl_example_hyps :
  lpf_IPV6_HDR <= blen lpl_ex_D /\
  kstate lpl_ex_D lpl_ex_k lpf_slots_new None /\
  Forall (ev_ok lpl_ex_D lpl_ex_k 7) (lpl_ex_pre ++ [lpl_ex_a]) /\
  ev_is lpl_ex_k (hd lpl_ex_a lpl_ex_pre) /\
  (exists j, (j < length lpf_slots_new)%nat /\ slot_avail (ev_time (hd lpl_ex_a lpl_ex_pre)) (nth j lpf_slots_new lpf_slot_new)) /\
  Forall (fun e => ev_time e <= ev_time (hd lpl_ex_a lpl_ex_pre) + 60000) (lpl_ex_pre ++ [lpl_ex_a]) /\
  gaps_fit lpf_N lpl_ex_D lpl_ex_k asm_new (lpl_ex_pre ++ [lpl_ex_a]) /\
  ev_is lpl_ex_k lpl_ex_a /\ k_complete lpl_ex_D lpl_ex_k (lpl_ex_pre ++ [lpl_ex_a]) /\
  ~ k_complete lpl_ex_D lpl_ex_k lpl_ex_pre.
Proof.
  assert (Hok : Forall (ev_ok lpl_ex_D lpl_ex_k 7) (lpl_ex_pre ++ [lpl_ex_a])).
  { assert (P3 : piece_ok lpl_ex_D 7 lpl_ex_f3).
    { unfold piece_ok. cbn [rf_hdr lpl_ex_f3 rf_payload]. repeat split; try (vm_compute; congruence). }
    assert (P2 : piece_ok lpl_ex_D 7 lpl_ex_f2).
    { unfold piece_ok. cbn [rf_hdr lpl_ex_f2 rf_payload]. repeat split; try (vm_compute; congruence). }
    assert (P1 : piece_ok lpl_ex_D 7 lpl_ex_f1).
    { unfold piece_ok. cbn [rf_hdr lpl_ex_f1 rf_first_dec]. split; [reflexivity|]. split; [reflexivity|].
      exists (firstn 24 lpl_ex_D). split; [intros; reflexivity|]. split; [vm_compute; congruence | reflexivity]. }
    assert (K : forall t f, frag_key lpl_ex_src lpl_ex_dst f = lpl_ex_k -> piece_ok lpl_ex_D 7 f ->
                ev_ok lpl_ex_D lpl_ex_k 7 (EvFrag t lpl_ex_src lpl_ex_dst f)).
    { intros t f Hk Hp. split; [intros _; exact Hp | intros Hne; contradiction]. }
    unfold lpl_ex_pre, lpl_ex_a. cbn [app]. repeat (apply Forall_cons); try apply Forall_nil.
    - apply K; [vm_compute; reflexivity | exact P3].
    - exact I.
    - apply K; [vm_compute; reflexivity | exact P1].
    - split; [intros Hk; vm_compute in Hk; discriminate Hk|]. intros _. unfold frag_tame. cbn [rf_hdr lpl_ex_g]. lia.
    - apply K; [vm_compute; reflexivity | exact P3].
    - apply K; [vm_compute; reflexivity | exact P2]. }
  split; [vm_compute; congruence|]. split; [apply kstate_new|]. split; [exact Hok|].
  split; [reflexivity|].
  split; [exists 0%nat; split; [vm_compute; lia | left; reflexivity]|].
  split; [unfold lpl_ex_pre, lpl_ex_a; cbn [app hd ev_time]; repeat (apply Forall_cons; [cbn [ev_time]; lia|]); apply Forall_nil|].
  split; [vm_compute; repeat split; congruence|].
  split; [reflexivity|].
  split.
  - apply (k_complete_kacc lpl_ex_D 7 lpl_ex_k _ Hok).
    split; [vm_compute; reflexivity|].
    assert (E : kacc lpl_ex_D lpl_ex_k asm_new (lpl_ex_pre ++ [lpl_ex_a]) = [mkContig 0 56]) by (vm_compute; reflexivity).
    rewrite E. intros x Hx. apply tracked_amem. cbn [amem c_hole c_data]. unfold c_total. cbn [c_hole c_data].
    change (blen lpl_ex_D) with 56 in Hx. lia.
  - intros Hc.
    assert (Hokp : Forall (ev_ok lpl_ex_D lpl_ex_k 7) lpl_ex_pre) by (apply Forall_app in Hok; tauto).
    apply (k_complete_kacc lpl_ex_D 7 lpl_ex_k _ Hokp) in Hc. destruct Hc as (_ & Hf).
    assert (E : kacc lpl_ex_D lpl_ex_k asm_new lpl_ex_pre = [mkContig 0 24; mkContig 16 16]) by (vm_compute; reflexivity).
    rewrite E in Hf. specialize (Hf 30 ltac:(change (blen lpl_ex_D) with 56; lia)).
    apply tracked_amem in Hf. cbn [amem c_hole c_data] in Hf. unfold c_total in Hf. cbn [c_hole c_data] in Hf. lia.
Qed.

(* a freshly created interface: no slot is claimed, one is free *)
Lemma lpf_slots_new_avail t : exists j, (j < length lpf_slots_new)%nat /\ slot_avail t (nth j lpf_slots_new lpf_slot_new).
Proof. exists 0%nat. split; [vm_compute; lia | left; reflexivity]. Qed.

Theorem lpl_e2e_in_order_fresh d lls lld ctx c D tag fill txfill timeout octs arr :
  lp_dgram_wf d lls lld -> lp_compressed d lls lld = Ok c -> lp_ipv6_bytes d = Ok D -> lp_ctx_wf ctx ->
  0 <= tag < 65536 -> 0 <= fill < 256 -> 0 <= txfill < 256 -> 0 <= timeout ->
  lpf_needs_frag (blen c) (lpf_ieee_len (lpl_ll_bytes lld) (lpl_ll_bytes lls)) = true -> blen c <= lpf_BUFFER ->
  lpl_tx_octets d lls lld tag fill txfill = Ok octs ->
  map ar_payload arr = octs -> Forall (fun a => ar_lls a = lls /\ ar_lld a = lld) arr ->
  Forall (fun a => ar_time a <= match arr with a0 :: _ => ar_time a0 | [] => 0 end + timeout) arr ->
  exists ss', lpl_run ctx timeout arr lpf_slots_new = Ok (ss', repeat None (length arr - 1) ++ [Some D]).
Proof.
  intros Hwf Hc HD Hctx Htag Hfill Htx Hto Hneed Hbuf Hocts Hpay Hll Htime.
  destruct (lpl_e2e_in_order d lls lld ctx c D tag Hwf Hc HD Hctx Htag Hneed Hbuf fill txfill timeout Hfill Htx octs Hocts
              arr lpf_slots_new Hto (kstate_new _ _) Hpay Hll (lpf_slots_new_avail _) Htime) as (ss' & _ & E & _).
  exists ss'. exact E.
Qed.
