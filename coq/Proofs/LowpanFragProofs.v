(* Lemmas about Model/LowpanFrag.v (property C20, step 2): the fragmentation arithmetic of
   dispatch_sixlowpan / dispatch_sixlowpan_frag and the reassembly of process_sixlowpan_fragment
   over the tracker of property C15. *)
From SV Require Import Lib.Base Gen.Consts Gen.WireFields Model.WireBase Model.WireSixFrag Model.Assembler.
From SV Require Import Model.LowpanFrag Proofs.WireBaseProofs Proofs.AssemblerProofs.

(* ================================================================================
   Sender
   ================================================================================ *)

Definition lpf_f1 (ieee_len hd : Z) : Z := (lpf_MAX_FRAME - ieee_len - lpf_FRAG1_HDR + hd) / 8 * 8 - hd.
Definition lpf_fn (ieee_len : Z) : Z := (lpf_MAX_FRAME - ieee_len - lpf_FRAGN_HDR) / 8 * 8.

(* the MAC header dispatch_ieee802154 builds is 5..21 octets long *)
Lemma lpf_ieee_len_range dst src :
  (blen dst = 0 \/ blen dst = 2 \/ blen dst = 8) -> (blen src = 0 \/ blen src = 2 \/ blen src = 8) ->
  5 <= lpf_ieee_len dst src <= 21.
Proof. unfold lpf_ieee_len. zfold. lia. Qed.

(* the FRAGN frames that follow the first fragment, as a relation on the position [lo] in the
   compressed packet [c]: sizes, offsets and payloads *)
Inductive lpf_nexts (c : list Z) (size tag hd fn : Z) : Z -> list lpf_frame -> Prop :=
| nx_nil lo : lo = blen c -> lpf_nexts c size tag hd fn lo []
| nx_cons lo n fs :
    0 < n <= fn -> lo + n <= blen c ->
    (lo + n < blen c -> n = fn) ->                       (* only the last one may be shorter *)
    (lo + hd) mod 8 = 0 -> 0 <= (lo + hd) / 8 < 256 ->
    lpf_nexts c size tag hd fn (lo + n) fs ->
    lpf_nexts c size tag hd fn lo
      (mkFrame (Some (SfNext size tag ((lo + hd) / 8))) (firstn (Z.to_nat n) (skipn (Z.to_nat lo) c)) :: fs).

Section Sender.
  Variables (ieee_len : Z) (c : list Z) (chdr uhdr payload_length tag : Z).
  Hypothesis Hie : 5 <= ieee_len <= 21.
  Hypothesis Hh : 0 <= chdr <= uhdr.
  Hypothesis Hneed : lpf_needs_frag (blen c) ieee_len = true.
  Hypothesis Hbuf : blen c <= lpf_BUFFER.
  Hypothesis Hfit : blen c + (uhdr - chdr) < 2048.

  Let hd := uhdr - chdr.
  Let f1 := lpf_f1 ieee_len hd.
  Let fn := lpf_fn ieee_len.
  Let dsz := (payload_length + lpf_IPV6_HDR) mod 65536.

  Lemma lpf_f1_facts :
    0 < f1 < blen c /\ (f1 + hd) mod 8 = 0 /\ ieee_len + lpf_FRAG1_HDR + f1 <= lpf_MAX_FRAME /\
    lpf_MAX_FRAME - ieee_len - lpf_FRAG1_HDR - 7 <= f1.
  Proof.
    unfold lpf_needs_frag in Hneed. rewrite Z.gtb_ltb in Hneed. apply Z.ltb_lt in Hneed.
    subst f1 hd. unfold lpf_f1, lpf_MAX_FRAME, lpf_FRAG1_HDR in *. zfold. zfold_in Hneed. lia.
  Qed.

  Lemma lpf_fn_facts :
    96 <= fn /\ fn mod 8 = 0 /\ ieee_len + lpf_FRAGN_HDR + fn <= lpf_MAX_FRAME.
  Proof. subst fn. unfold lpf_fn, lpf_MAX_FRAME, lpf_FRAGN_HDR. zfold. lia. Qed.

  Lemma lpf_dispatch_first_spec :
    lpf_dispatch_first ieee_len c chdr uhdr payload_length tag =
    Ok (Some (mkTx (blen c) f1 dsz tag (f1 + hd) fn,
              mkFrame (Some (SfFirst dsz tag)) (firstn (Z.to_nat f1) c))).
  Proof.
    destruct lpf_f1_facts as (Hf1 & Hm & Hfit1 & Hlow).
    unfold lpf_dispatch_first. replace (lpf_BUFFER <? blen c) with false by (symmetry; apply Z.ltb_ge; lia).
    unfold lpf_usub.
    replace (uhdr <? chdr) with false by (symmetry; apply Z.ltb_ge; lia). cbn [obind].
    unfold lpf_MAX_FRAME, lpf_FRAG1_HDR, lpf_FRAGN_HDR in *. zfold. zfold_in Hfit1. zfold_in Hlow.
    replace (125 <? ieee_len) with false by (symmetry; apply Z.ltb_ge; lia). cbn [obind].
    replace (125 - ieee_len <? 4) with false by (symmetry; apply Z.ltb_ge; lia). cbn [obind].
    fold hd.
    assert (E1 : (125 - ieee_len - 4 + hd) / 8 * 8 - hd = f1).
    { subst f1. unfold lpf_f1, lpf_MAX_FRAME, lpf_FRAG1_HDR. zfold. reflexivity. }
    replace ((125 - ieee_len - 4 + hd) / 8 * 8 <? hd) with false by (symmetry; apply Z.ltb_ge; lia).
    cbn [obind]. rewrite E1.
    replace (125 - ieee_len <? 5) with false by (symmetry; apply Z.ltb_ge; lia). cbn [obind].
    rewrite wb_sub_ok by lia. cbn [obind]. replace (f1 - 0) with f1 by lia. cbn [skipn Z.to_nat].
    change (Z.to_nat 0) with 0%nat. cbn [skipn].
    subst fn dsz. unfold lpf_fn, lpf_MAX_FRAME, lpf_FRAGN_HDR. zfold. reflexivity.
  Qed.

  Lemma lpf_drain_spec : forall fuel t,
    tx_packet_len t = blen c -> 0 <= tx_sent_bytes t <= blen c -> tx_fragn_size t = fn ->
    tx_datagram_offset t = tx_sent_bytes t + hd ->
    (tx_sent_bytes t < blen c -> (tx_sent_bytes t + hd) mod 8 = 0) ->
    (Z.to_nat (blen c - tx_sent_bytes t) <= fuel)%nat ->
    exists fs, lpf_drain fuel c t = Ok fs /\
               lpf_nexts c (tx_datagram_size t) (tx_datagram_tag t) hd fn (tx_sent_bytes t) fs.
  Proof.
    destruct lpf_fn_facts as (Hfn & Hfm & _).
    induction fuel as [|fuel IH]; intros t Hpl Hs Hf Ho Hm Hfu.
    - exists []. split; [reflexivity|]. apply nx_nil. lia.
    - cbn [lpf_drain]. rewrite Hpl.
      destruct (tx_sent_bytes t <? blen c) eqn:E.
      + apply Z.ltb_lt in E. unfold lpf_dispatch_next, lpf_usub. rewrite Hpl, Hf, Ho.
        replace (blen c <? tx_sent_bytes t) with false by (symmetry; apply Z.ltb_ge; lia). cbn [obind].
        set (n := Z.min (blen c - tx_sent_bytes t) fn).
        assert (Hn : 0 < n <= fn /\ tx_sent_bytes t + n <= blen c /\
                     (tx_sent_bytes t + n < blen c -> n = fn)) by (subst n; lia).
        rewrite wb_sub_ok by lia. cbn [obind].
        replace (tx_sent_bytes t + n - tx_sent_bytes t) with n by lia.
        set (t' := mkTx (blen c) (tx_sent_bytes t + n) (tx_datagram_size t) (tx_datagram_tag t)
                        (tx_sent_bytes t + hd + n) fn).
        assert (Hn' := Hn). destruct Hn' as ((Hn0 & Hle) & Hle2 & Hlast).
        destruct (IH t') as (fs & Hd & Hnx).
        { reflexivity. }
        { subst t'. cbn [tx_sent_bytes]. lia. }
        { reflexivity. }
        { subst t'. cbn [tx_sent_bytes tx_datagram_offset]. lia. }
        { subst t'. cbn [tx_sent_bytes]. intros Hlt. rewrite (Hlast Hlt). specialize (Hm E). lia. }
        { subst t'. cbn [tx_sent_bytes]. lia. }
        subst t'. cbn [tx_packet_len tx_sent_bytes tx_fragn_size tx_datagram_offset tx_datagram_size
                        tx_datagram_tag] in *.
        rewrite Hd. cbn [obind]. eexists. split; [reflexivity|].
        assert (Hoff : 0 <= (tx_sent_bytes t + hd) / 8 < 256) by (subst hd; lia).
        rewrite (Z.mod_small ((tx_sent_bytes t + hd) / 8) 256) by lia.
        specialize (Hm E). apply nx_cons; try lia. exact Hnx.
      + apply Z.ltb_ge in E. exists []. split; [reflexivity|]. apply nx_nil. lia.
  Qed.

  (* the whole transmission: FRAG1 carrying c[0, f1) and the FRAGN frames from position f1 on *)
  Lemma lpf_send_spec :
    exists fs,
      lpf_send ieee_len c chdr uhdr payload_length tag =
        Ok (mkFrame (Some (SfFirst dsz tag)) (firstn (Z.to_nat f1) c) :: fs) /\
      lpf_nexts c dsz tag hd fn f1 fs.
  Proof.
    destruct lpf_f1_facts as (Hf1 & Hm & _).
    unfold lpf_send. rewrite Hneed, lpf_dispatch_first_spec. cbn [obind].
    destruct (lpf_drain_spec (Z.to_nat (blen c)) (mkTx (blen c) f1 dsz tag (f1 + hd) fn)) as (fs & Hd & Hnx).
    { reflexivity. }
    { cbn [tx_sent_bytes]. lia. }
    { reflexivity. }
    { reflexivity. }
    { cbn [tx_sent_bytes]. intros _. exact Hm. }
    { cbn [tx_sent_bytes]. lia. }
    rewrite Hd. cbn [obind]. exists fs. split; [reflexivity|]. exact Hnx.
  Qed.
End Sender.

(* ---------- consequences of [lpf_nexts] ---------- *)

Lemma skipn_add {A} (a b : nat) : forall l : list A, skipn a (skipn b l) = skipn (a + b) l.
Proof.
  induction b as [|b IH]; intros l.
  - rewrite Nat.add_0_r. reflexivity.
  - rewrite Nat.add_succ_r. destruct l; [rewrite !skipn_nil; reflexivity|]. cbn [skipn]. apply IH.
Qed.

(* the fragment payloads, concatenated, are the rest of the compressed packet *)
Lemma lpf_nexts_cover c size tag hd fn : forall lo fs, 0 <= lo <= blen c ->
  lpf_nexts c size tag hd fn lo fs -> concat (map fr_payload fs) = skipn (Z.to_nat lo) c.
Proof.
  intros lo fs Hlo H. induction H as [lo E | lo n fs Hn Hle Hlast Hm Hoff Hnx IH].
  - cbn. subst lo. symmetry. apply skipn_all2. unfold blen. lia.
  - cbn [map concat fr_payload]. rewrite IH by lia.
    replace (Z.to_nat (lo + n)) with (Z.to_nat n + Z.to_nat lo)%nat by lia.
    rewrite <- skipn_add. apply firstn_skipn.
Qed.

(* every FRAGN frame fits the 802.15.4 budget when fn does *)
Lemma lpf_nexts_fit c size tag hd fn ieee_len : forall lo fs,
  ieee_len + lpf_FRAGN_HDR + fn <= lpf_MAX_FRAME -> 0 <= lo ->
  lpf_nexts c size tag hd fn lo fs ->
  Forall (fun f => lpf_frame_len ieee_len f <= lpf_MAX_FRAME) fs.
Proof.
  intros lo fs Hfn Hlo H. induction H as [lo E | lo n fs Hn Hle Hlast Hm Hoff Hnx IH]; constructor.
  - unfold lpf_frame_len. cbn [fr_hdr fr_payload sixfrag_buffer_len].
    assert (blen (firstn (Z.to_nat n) (skipn (Z.to_nat lo) c)) = n).
    { rewrite blen_firstn; [reflexivity|]. rewrite blen_skipn by lia. lia. }
    unfold lpf_FRAGN_HDR in *. lia.
  - apply IH. lia.
Qed.

(* sizes: every FRAGN payload except the last is exactly fn octets (a multiple of 8), and the
   header offset of each, in 8-octet units, is its position in the UNCOMPRESSED datagram *)
Lemma lpf_nexts_offsets c size tag hd fn : forall lo fs,
  lpf_nexts c size tag hd fn lo fs ->
  forall f, In f fs ->
    exists p n, fr_hdr f = Some (SfNext size tag ((p + hd) / 8)) /\ (p + hd) / 8 * 8 = p + hd /\
                0 <= (p + hd) / 8 < 256 /\
                lo <= p /\ 0 < n <= fn /\ p + n <= blen c /\ (p + n < blen c -> n = fn) /\
                fr_payload f = firstn (Z.to_nat n) (skipn (Z.to_nat p) c).
Proof.
  intros lo fs H. induction H as [lo E | lo n fs Hn Hle Hlast Hm Hoff Hnx IH]; intros f Hin.
  - destruct Hin.
  - destruct Hin as [<-|Hin].
    + exists lo, n. cbn [fr_hdr fr_payload]. repeat split; try lia; try exact Hlast.
    + destruct (IH f Hin) as (p & m & H1 & H2 & H3 & H4 & H5). exists p, m.
      repeat split; try tauto; lia.
Qed.

(* ================================================================================
   Receiver
   ================================================================================ *)

(* ---------- list facts ---------- *)

Lemma lpf_grow_len b n : blen (lpf_grow b n) = Z.max (blen b) n.
Proof.
  unfold lpf_grow. destruct (blen b <? n) eqn:E; bsplit.
  - rewrite blen_app, blen_repeat. lia.
  - lia.
Qed.

Lemma lpf_grow_nth b n x : 0 <= x < blen b -> nth (Z.to_nat x) (lpf_grow b n) 0 = nth (Z.to_nat x) b 0.
Proof.
  intros Hx. unfold lpf_grow. destruct (blen b <? n); [|reflexivity].
  apply app_nth1. unfold blen in *. lia.
Qed.

Lemma nth_firstn_lt {A} (d : A) : forall n i (l : list A), (i < n)%nat -> nth i (firstn n l) d = nth i l d.
Proof.
  induction n as [|n IH]; intros i l Hi; [lia|].
  destruct l as [|a l]; [destruct i; reflexivity|]. destruct i as [|i]; [reflexivity|].
  cbn [firstn nth]. apply IH. lia.
Qed.

Lemma nth_skipn' {A} (d : A) : forall n i (l : list A), nth i (skipn n l) d = nth (n + i) l d.
Proof.
  induction n as [|n IH]; intros i l; [reflexivity|].
  destruct l as [|a l]; [destruct i; reflexivity|]. cbn [skipn]. rewrite IH. reflexivity.
Qed.

Lemma wb_set_slice_nth b lo hi v b' x : wb_set_slice b lo hi v = Ok b' -> 0 <= x ->
  blen b' = blen b /\
  nth (Z.to_nat x) b' 0 = if (lo <=? x) && (x <? hi) then nth (Z.to_nat (x - lo)) v 0 else nth (Z.to_nat x) b 0.
Proof.
  intros H Hx. split; [eapply wb_set_slice_len; eassumption|].
  unfold wb_set_slice in H.
  destruct ((0 <=? lo) && (lo <=? hi) && (hi <=? blen b) && (blen v =? hi - lo)) eqn:E; [|discriminate H].
  injection H as <-. bsplit.
  assert (Hl1 : length (firstn (Z.to_nat lo) b) = Z.to_nat lo) by (rewrite firstn_length; unfold blen in *; lia).
  destruct ((lo <=? x) && (x <? hi)) eqn:Ein; bsplit.
  - rewrite app_nth2 by lia. rewrite Hl1. rewrite app_nth1 by (unfold blen in *; lia).
    f_equal. lia.
  - destruct (Z.lt_ge_cases x lo) as [Hlt|Hge].
    + rewrite app_nth1 by lia. apply nth_firstn_lt. lia.
    + assert (hi <= x) by (destruct (Z.lt_ge_cases x hi); [exfalso|lia];
                           match goal with H : (_ && _) = false |- _ => apply andb_false_iff in H; destruct H; bsplit; lia end).
      rewrite app_nth2 by lia. rewrite Hl1. rewrite app_nth2 by (unfold blen in *; lia).
      rewrite nth_skipn'. f_equal. unfold blen in *. lia.
Qed.

(* ---------- the tracker ---------- *)

Lemma asm_peek_front_remove l : asm_peek_front l = snd (asm_remove_front l).
Proof. destruct l as [|c r]; [reflexivity|]. cbn. destruct (c_hole c =? 0); reflexivity. Qed.

Lemma asm_new_inv n : 0 <= n -> asm_inv n asm_new.
Proof. intros Hn. split; [|cbn; lia]. unfold asm_new, asm_wf. cbn. exact I. Qed.

Lemma tracked_new x : ~ tracked asm_new x.
Proof. exact (proj2 (c15_clear asm_new) x). Qed.

(* `assembler.add(offset, len)` with the result ignored *)
Lemma asm_add_tracked n l o s : asm_inv n l -> 0 <= o -> 0 <= s ->
  asm_inv n (fst (asm_add n l o s)) /\
  (forall x, tracked (fst (asm_add n l o s)) x -> tracked l x \/ o <= x < o + s) /\
  (snd (asm_add n l o s) = true ->
   forall x, tracked (fst (asm_add n l o s)) x <-> tracked l x \/ o <= x < o + s).
Proof.
  intros Hinv Ho Hs. split; [apply add_inv; assumption|]. destruct Hinv as (Hwf & Hlen).
  destruct (asm_add n l o s) as (l', ok) eqn:E. cbn [fst snd]. destruct ok.
  - destruct (c15_add_union n l o s l' Hwf Ho Hs E) as (_ & Hu). split; [|intros _; exact Hu].
    intros x Hx. apply Hu. exact Hx.
  - destruct (c15_add_refused n l o s l' Hwf Hlen Ho Hs E) as (-> & _). split; [auto|discriminate].
Qed.

(* ---------- the reassembly invariant: every tracked octet is the datagram's octet ---------- *)

Definition lpf_N : Z := lpf_ASM_SEGMENTS.

Definition pa_inv (D : list Z) (p : lpf_pa) : Prop :=
  asm_inv lpf_N (pa_asm p) /\
  (pa_total p = None \/ pa_total p = Some (blen D)) /\
  (pa_total p = Some (blen D) -> blen D <= blen (pa_buf p)) /\
  forall x, tracked (pa_asm p) x ->
    0 <= x < blen D /\ x < blen (pa_buf p) /\ nth (Z.to_nat x) (pa_buf p) 0 = nth (Z.to_nat x) D 0.

Lemma lpf_N_pos : 1 <= lpf_N.
Proof. unfold lpf_N, lpf_ASM_SEGMENTS. zfold. lia. Qed.

Lemma pa_inv_reset D p : pa_inv D (lpf_pa_reset p).
Proof.
  unfold pa_inv, lpf_pa_reset. cbn [pa_asm pa_total pa_buf]. pose proof lpf_N_pos.
  split; [apply asm_new_inv; lia|]. split; [auto|]. split; [discriminate|].
  intros x Hx. exfalso. exact (tracked_new x Hx).
Qed.

(* set_total_size(blen D) *)
Lemma pa_inv_set_total D p : pa_inv D p ->
  exists p', lpf_pa_set_total_size p (blen D) = Some p' /\ pa_inv D p' /\ pa_total p' = Some (blen D).
Proof.
  intros (Ha & Ht & Hb & Hx). unfold lpf_pa_set_total_size.
  assert (Hp : pa_inv D (mkPa (lpf_grow (pa_buf p) (blen D)) (pa_asm p) (Some (blen D)))).
  { unfold pa_inv. cbn [pa_asm pa_total pa_buf]. split; [assumption|]. split; [auto|].
    split; [intros _; rewrite lpf_grow_len; lia|].
    intros x Hxx. destruct (Hx x Hxx) as (H1 & H2 & H3). rewrite lpf_grow_len.
    split; [assumption|]. split; [lia|]. rewrite lpf_grow_nth by lia. assumption. }
  destruct Ht as [Ht|Ht]; rewrite Ht.
  - eexists. split; [reflexivity|]. split; [exact Hp | reflexivity].
  - rewrite Z.eqb_refl. cbn [negb]. eexists. split; [reflexivity|]. split; [exact Hp | reflexivity].
Qed.

(* add(data, offset) with data = D[offset, offset+|data|) *)
Lemma pa_inv_add D p data offset : pa_inv D p -> 0 <= offset -> offset + blen data <= blen D ->
  data = firstn (Z.to_nat (blen data)) (skipn (Z.to_nat offset) D) ->
  exists p', lpf_pa_add p data offset = Ok p' /\ pa_inv D p' /\ pa_total p' = pa_total p /\
    (forall x, tracked (pa_asm p') x -> tracked (pa_asm p) x \/ offset <= x < offset + blen data) /\
    (snd (asm_add lpf_N (pa_asm p) offset (blen data)) = true ->
     forall x, tracked (pa_asm p') x <-> tracked (pa_asm p) x \/ offset <= x < offset + blen data).
Proof.
  intros (Ha & Ht & Hb & Hx) Ho Hle Hd. unfold lpf_pa_add. pose proof (blen_nonneg data) as Hdn.
  set (b := lpf_grow (pa_buf p) (offset + blen data)).
  assert (Hbl : blen b = Z.max (blen (pa_buf p)) (offset + blen data)) by apply lpf_grow_len.
  destruct (wb_set_slice b offset (offset + blen data) data) as [b'| |] eqn:E.
  2,3: exfalso; unfold wb_set_slice in E;
       replace ((0 <=? offset) && (offset <=? offset + blen data) && (offset + blen data <=? blen b) &&
                (blen data =? offset + blen data - offset)) with true in E
         by (symmetry; zbool; reflexivity); discriminate E.
  cbn [obind]. eexists. split; [reflexivity|].
  destruct (asm_add_tracked lpf_N (pa_asm p) offset (blen data) Ha Ho Hdn) as (Ha' & Htr & Htr2).
  fold lpf_N.
  split; [|split; [reflexivity|split; [exact Htr | exact Htr2]]].
  unfold pa_inv. cbn [pa_asm pa_total pa_buf].
  split; [exact Ha'|]. split; [exact Ht|].
  split.
  - intros HH. specialize (Hb HH). destruct (wb_set_slice_nth _ _ _ _ _ 0 E ltac:(lia)) as (Hl & _). lia.
  - intros x Hxx. destruct (Htr x Hxx) as [Hold|Hnew].
    + destruct (Hx x Hold) as (H1 & H2 & H3).
      destruct (wb_set_slice_nth _ _ _ _ _ x E ltac:(lia)) as (Hl & Hn).
      split; [assumption|]. split; [lia|]. rewrite Hn.
      destruct ((offset <=? x) && (x <? offset + blen data)) eqn:Ein; bsplit.
      * rewrite Hd. rewrite nth_firstn_lt by lia. rewrite nth_skipn'. f_equal. lia.
      * subst b. rewrite lpf_grow_nth by lia. assumption.
    + destruct (wb_set_slice_nth _ _ _ _ _ x E ltac:(lia)) as (Hl & Hn).
      split; [lia|]. split; [lia|]. rewrite Hn.
      replace ((offset <=? x) && (x <? offset + blen data)) with true by (symmetry; zbool; reflexivity).
      rewrite Hd. rewrite nth_firstn_lt by lia. rewrite nth_skipn'. f_equal. lia.
Qed.

(* add_with(0, ..) where the closure writes a prefix of D *)
Lemma pa_inv_add_first D p d1 d : pa_inv D p -> pa_total p = Some (blen D) ->
  d1 (blen (pa_buf p)) = Ok d -> blen d <= blen D -> d = firstn (Z.to_nat (blen d)) D ->
  exists p', lpf_pa_add_first p d1 = Ok p' /\ pa_inv D p' /\ pa_total p' = pa_total p /\
    (forall x, tracked (pa_asm p') x -> tracked (pa_asm p) x \/ 0 <= x < blen d) /\
    (snd (asm_add lpf_N (pa_asm p) 0 (blen d)) = true ->
     forall x, tracked (pa_asm p') x <-> tracked (pa_asm p) x \/ 0 <= x < 0 + blen d).
Proof.
  intros (Ha & Ht & Hb & Hx) Htot Hd1 Hle Hd. unfold lpf_pa_add_first. rewrite Hd1. cbn [obind].
  specialize (Hb Htot). pose proof (blen_nonneg d) as Hdn.
  replace (blen (pa_buf p) <? blen d) with false by (symmetry; apply Z.ltb_ge; lia).
  destruct (wb_set_slice (pa_buf p) 0 (blen d) d) as [b'| |] eqn:E.
  2,3: exfalso; unfold wb_set_slice in E;
       replace ((0 <=? 0) && (0 <=? blen d) && (blen d <=? blen (pa_buf p)) && (blen d =? blen d - 0)) with true in E
         by (symmetry; zbool; reflexivity); discriminate E.
  cbn [obind]. eexists. split; [reflexivity|].
  destruct (asm_add_tracked lpf_N (pa_asm p) 0 (blen d) Ha ltac:(lia) Hdn) as (Ha' & Htr & Htr2).
  fold lpf_N.
  split; [|split; [reflexivity|split; [|exact Htr2]]].
  2: { intros x Hxx. destruct (Htr x Hxx); [auto|right; lia]. }
  unfold pa_inv. cbn [pa_asm pa_total pa_buf].
  split; [exact Ha'|]. split; [exact Ht|].
  split.
  - intros _. destruct (wb_set_slice_nth _ _ _ _ _ 0 E ltac:(lia)) as (Hl & _). lia.
  - intros x Hxx. destruct (Htr x Hxx) as [Hold|Hnew].
    + destruct (Hx x Hold) as (H1 & H2 & H3).
      destruct (wb_set_slice_nth _ _ _ _ _ x E ltac:(lia)) as (Hl & Hn).
      split; [assumption|]. split; [lia|]. rewrite Hn.
      destruct ((0 <=? x) && (x <? blen d)) eqn:Ein; bsplit.
      * rewrite Hd. rewrite nth_firstn_lt by lia. f_equal. lia.
      * assumption.
    + destruct (wb_set_slice_nth _ _ _ _ _ x E ltac:(lia)) as (Hl & Hn).
      split; [lia|]. split; [lia|]. rewrite Hn.
      replace ((0 <=? x) && (x <? blen d)) with true by (symmetry; zbool; reflexivity).
      rewrite Hd. rewrite nth_firstn_lt by lia. f_equal. lia.
Qed.

(* completion: the delivered buffer is the datagram *)
Lemma pa_inv_complete D p : pa_inv D p -> 0 < blen D -> lpf_pa_is_complete p = true ->
  pa_total p = Some (blen D) /\ wb_sub (pa_buf p) 0 (blen D) = Ok D.
Proof.
  intros (Ha & Ht & Hb & Hx) Hpos Hc. unfold lpf_pa_is_complete in Hc.
  destruct Ht as [Ht|Ht]; rewrite Ht in Hc; [discriminate Hc|]. apply Z.eqb_eq in Hc.
  split; [assumption|]. specialize (Hb Ht).
  rewrite wb_sub_ok by lia. f_equal. replace (blen D - 0) with (blen D) by lia.
  change (Z.to_nat 0) with 0%nat. cbn [skipn].
  rewrite asm_peek_front_remove in Hc.
  destruct (asm_remove_front (pa_asm p)) as (l', r) eqn:Er. cbn [snd] in Hc. subst r.
  destruct Ha as (Hwf & _).
  destruct (c15_remove_front _ _ _ Hwf Er) as (_ & _ & _ & Hr). destruct (Hr Hpos) as (Hall & _).
  apply (nth_ext _ _ 0 0).
  - rewrite firstn_length. unfold blen in *. lia.
  - intros i Hi. rewrite firstn_length in Hi. rewrite nth_firstn_lt by (unfold blen in *; lia).
    destruct (Hx (Z.of_nat i) (Hall (Z.of_nat i) ltac:(unfold blen in *; lia))) as (_ & _ & Hn).
    rewrite Nat2Z.id in Hn. exact Hn.
Qed.

(* ---------- the slot set ---------- *)

Lemma lpf_list_eqb_eq a b : lpf_list_eqb a b = true -> a = b.
Proof.
  unfold lpf_list_eqb. intros H. apply andb_prop in H. destruct H as (Hl & Hf). apply Z.eqb_eq in Hl.
  assert (Hlen : length a = length b) by (unfold blen in Hl; lia). clear Hl.
  revert b Hlen Hf. induction a as [|x a IH]; intros [|y b] Hlen Hf; try discriminate; [reflexivity|].
  cbn in Hf. apply andb_prop in Hf. destruct Hf as (Hxy & Hf). apply Z.eqb_eq in Hxy. subst.
  f_equal. apply IH; [cbn in Hlen; lia | assumption].
Qed.

Lemma lpf_list_eqb_refl a : lpf_list_eqb a a = true.
Proof.
  unfold lpf_list_eqb. rewrite Z.eqb_refl. cbn [andb]. induction a as [|x a IH]; [reflexivity|].
  cbn. rewrite Z.eqb_refl. exact IH.
Qed.

Lemma lpf_key_eqb_eq a b : lpf_key_eqb a b = true -> a = b.
Proof.
  destruct a as (((s1, d1), z1), t1). destruct b as (((s2, d2), z2), t2). unfold lpf_key_eqb.
  intros H. apply andb_prop in H. destruct H as (H & Ht). apply andb_prop in H. destruct H as (H & Hz).
  apply andb_prop in H. destruct H as (Hs & Hd).
  apply lpf_list_eqb_eq in Hs. apply lpf_list_eqb_eq in Hd. apply Z.eqb_eq in Ht. apply Z.eqb_eq in Hz.
  subst. reflexivity.
Qed.

Lemma lpf_key_eqb_refl a : lpf_key_eqb a a = true.
Proof.
  destruct a as (((s1, d1), z1), t1). unfold lpf_key_eqb. rewrite !lpf_list_eqb_refl, !Z.eqb_refl. reflexivity.
Qed.

Lemma lpf_find_key_spec k : forall ss j i, lpf_find_key k ss j = Some i ->
  (j <= i < j + length ss)%nat /\ sl_key (nth (i - j) ss lpf_slot_new) = Some k.
Proof.
  induction ss as [|s r IH]; intros j i H; [discriminate H|]. cbn [lpf_find_key] in H.
  destruct (sl_key s) as [k'|] eqn:Ek.
  - destruct (lpf_key_eqb k' k) eqn:E.
    + injection H as <-. rewrite Nat.sub_diag. cbn [nth length]. split; [lia|].
      rewrite Ek. f_equal. apply lpf_key_eqb_eq. assumption.
    + destruct (IH _ _ H) as (H1 & H2). cbn [length]. split; [lia|].
      replace (i - j)%nat with (S (i - S j)) by lia. exact H2.
  - destruct (IH _ _ H) as (H1 & H2). cbn [length]. split; [lia|].
    replace (i - j)%nat with (S (i - S j)) by lia. exact H2.
Qed.

Lemma lpf_last_free_spec : forall ss j acc i, lpf_last_free ss j acc = Some i ->
  acc = Some i \/ ((j <= i < j + length ss)%nat /\ sl_key (nth (i - j) ss lpf_slot_new) = None).
Proof.
  induction ss as [|s r IH]; intros j acc i H; [left; exact H|]. cbn [lpf_last_free] in H.
  destruct (IH _ _ _ H) as [Hacc|(H1 & H2)].
  - destruct (sl_key s) eqn:Ek; [left; assumption|]. injection Hacc as <-. right.
    rewrite Nat.sub_diag. cbn [nth length]. split; [lia | assumption].
  - right. cbn [length]. split; [lia|]. replace (i - j)%nat with (S (i - S j)) by lia. exact H2.
Qed.

Lemma Forall_nth_default {A} (P : A -> Prop) (l : list A) (d : A) i :
  Forall P l -> (i < length l)%nat -> P (nth i l d).
Proof. intros H Hi. rewrite Forall_forall in H. apply H. apply nth_In. exact Hi. Qed.

Lemma Forall_lpf_update {A} (P : A -> Prop) : forall (l : list A) i x,
  Forall P l -> P x -> Forall P (lpf_update l i x).
Proof.
  induction l as [|a l IH]; intros i x Hl Hx; [constructor|].
  inversion Hl; subst. destruct i; cbn [lpf_update]; constructor; auto.
Qed.

Lemma lpf_update_length {A} : forall (l : list A) i x, length (lpf_update l i x) = length l.
Proof. induction l as [|a l IH]; intros [|i] x; cbn; auto. Qed.

Lemma lpf_update_nth {A} (d : A) : forall (l : list A) i x, (i < length l)%nat -> nth i (lpf_update l i x) d = x.
Proof.
  induction l as [|a l IH]; intros [|i] x Hi; cbn in *; try lia; [reflexivity|]. apply IH. lia.
Qed.

(* ---------- one fragment ---------- *)

(* slot invariant relative to the datagram D travelling under key k:
   a free slot is in the reset state; a slot holding k satisfies the reassembly invariant *)
Definition slot_inv (D : list Z) (k : lpf_key) (s : lpf_slot) : Prop :=
  match sl_key s with
  | None => pa_asm (sl_pa s) = asm_new /\ pa_total (sl_pa s) = None
  | Some k' => k' = k -> pa_inv D (sl_pa s)
  end.

(* a fragment of D as the receiver sees it: it agrees with D at the place its header names *)
Definition piece_ok (D : list Z) (tag : Z) (f : lpf_rx_frag) : Prop :=
  match rf_hdr f with
  | SfFirst s t => s = blen D /\ t = tag /\
      exists d, (forall n, blen D <= n -> rf_first_dec f n = Ok d) /\ blen d <= blen D /\
                d = firstn (Z.to_nat (blen d)) D
  | SfNext s t off => s = blen D /\ t = tag /\ 0 <= off /\
      off * 8 + blen (rf_payload f) <= blen D /\
      rf_payload f = firstn (Z.to_nat (blen (rf_payload f))) (skipn (Z.to_nat (off * 8)) D)
  end.

Lemma slot_inv_free_pa D k s : slot_inv D k s -> sl_key s = None -> pa_inv D (sl_pa s).
Proof.
  unfold slot_inv. intros H Hk. rewrite Hk in H. destruct H as (Ha & Ht).
  unfold pa_inv. rewrite Ha, Ht. pose proof lpf_N_pos.
  split; [apply asm_new_inv; lia|]. split; [auto|]. split; [discriminate|].
  intros x Hx. exfalso. exact (tracked_new x Hx).
Qed.

Theorem lpf_process_fragment_safe D tag now timeout ll_src ll_dst f ss :
  lpf_IPV6_HDR <= blen D ->
  Forall (slot_inv D (ll_src, ll_dst, blen D, tag)) ss -> piece_ok D tag f ->
  exists ss' d, lpf_process_fragment now timeout ll_src ll_dst f ss = Ok (ss', d) /\
                Forall (slot_inv D (ll_src, ll_dst, blen D, tag)) ss' /\
                length ss' = length ss /\ (d = None \/ d = Some D).
Proof.
  intros Hsz Hss Hp. set (k := (ll_src, ll_dst, blen D, tag)) in *.
  unfold lpf_process_fragment.
  assert (Hhs : lpf_hdr_size (rf_hdr f) = blen D /\ lpf_hdr_tag (rf_hdr f) = tag).
  { unfold piece_ok in Hp. destruct (rf_hdr f); cbn; intuition. }
  destruct Hhs as (-> & ->).
  replace (blen D <? lpf_IPV6_HDR) with false by (symmetry; apply Z.ltb_ge; lia).
  fold k.
  (* the slot the fragment goes to, with the reassembly invariant *)
  assert (Hget : match lpf_get k (now + timeout) ss with
                 | None => True
                 | Some (i, ss1) => (i < length ss1)%nat /\ length ss1 = length ss /\
                                    Forall (slot_inv D k) ss1 /\
                                    sl_key (nth i ss1 lpf_slot_new) = Some k /\
                                    pa_inv D (sl_pa (nth i ss1 lpf_slot_new))
                 end).
  { unfold lpf_get. destruct (lpf_find_key k ss 0) as [i|] eqn:Ef.
    - destruct (lpf_find_key_spec k ss 0 i Ef) as (Hi & Hk). rewrite Nat.sub_0_r in Hk.
      split; [lia|]. split; [reflexivity|]. split; [assumption|]. split; [assumption|].
      pose proof (Forall_nth_default _ ss lpf_slot_new i Hss ltac:(lia)) as Hs.
      unfold slot_inv in Hs. rewrite Hk in Hs. apply Hs. reflexivity.
    - destruct (lpf_last_free ss 0 None) as [i|] eqn:El; [|exact I].
      destruct (lpf_last_free_spec ss 0 None i El) as [Hacc|(Hi & Hk)]; [discriminate Hacc|].
      rewrite Nat.sub_0_r in Hk.
      pose proof (Forall_nth_default _ ss lpf_slot_new i Hss ltac:(lia)) as Hs.
      pose proof (slot_inv_free_pa D k _ Hs Hk) as Hpa.
      rewrite lpf_update_length. split; [lia|]. split; [reflexivity|].
      rewrite lpf_update_nth by lia. cbn [sl_key sl_pa].
      split; [|split; [reflexivity | exact Hpa]].
      apply Forall_lpf_update; [assumption|]. unfold slot_inv. cbn [sl_key sl_pa]. intros _. exact Hpa. }
  destruct (lpf_get k (now + timeout) ss) as [(i, ss1)|].
  2: { exists ss, None. split; [reflexivity|]. split; [assumption|]. split; [reflexivity|]. left; reflexivity. }
  destruct Hget as (Hi & Hlen & Hss1 & Hk & Hpa).
  set (s := nth i ss1 lpf_slot_new) in *.
  (* common finish, given the updated assembler *)
  assert (Hfin : forall p, pa_inv D p ->
    exists ss' d,
      (if lpf_pa_is_complete p then
         match pa_total p with
         | Some total => do d <- wb_sub (pa_buf p) 0 total;
                         Ok (lpf_update ss1 i (lpf_slot_reset (mkSlot (sl_key s) p (sl_expires s))), Some d)
         | None => Panic end
       else Ok (lpf_update ss1 i (mkSlot (sl_key s) p (sl_expires s)), None)) = Ok (ss', d) /\
      Forall (slot_inv D k) ss' /\ length ss' = length ss /\ (d = None \/ d = Some D)).
  { intros p Hp'. destruct (lpf_pa_is_complete p) eqn:Ec.
    - destruct (pa_inv_complete D p Hp' ltac:(unfold lpf_IPV6_HDR in Hsz; zfold_in Hsz; lia) Ec) as (Ht & Hsub).
      rewrite Ht, Hsub. cbn [obind]. eexists _, _. split; [reflexivity|].
      split; [|split; [rewrite lpf_update_length; assumption | auto]].
      apply Forall_lpf_update; [assumption|]. unfold slot_inv, lpf_slot_reset. cbn [sl_key sl_pa].
      unfold lpf_pa_reset. cbn [pa_asm pa_total]. auto.
    - eexists _, _. split; [reflexivity|].
      split; [|split; [rewrite lpf_update_length; assumption | auto]].
      apply Forall_lpf_update; [assumption|]. unfold slot_inv. cbn [sl_key sl_pa]. rewrite Hk. intros _. exact Hp'. }
  unfold piece_ok in Hp. destruct (rf_hdr f) as [sz tg|sz tg off] eqn:Eh.
  - destruct Hp as (_ & _ & d & Hdec & Hdl & Hdp).
    destruct (pa_inv_set_total D (sl_pa s) Hpa) as (p1 & -> & Hp1 & Ht1).
    assert (Hbl : blen D <= blen (pa_buf p1)) by (destruct Hp1 as (_ & _ & Hb & _); auto).
    destruct (pa_inv_add_first D p1 (rf_first_dec f) d Hp1 Ht1 (Hdec _ Hbl) Hdl Hdp) as (p2 & -> & Hp2 & _).
    cbn [obind]. destruct (Hfin p2 Hp2) as (ss' & dd & E & H1 & H2 & H3). rewrite E. eauto 6.
  - destruct Hp as (_ & _ & Hoff & Hle & Hpl).
    destruct (pa_inv_add D (sl_pa s) (rf_payload f) (off * 8) Hpa ltac:(lia) Hle Hpl) as (p2 & -> & Hp2 & _).
    cbn [obind]. destruct (Hfin p2 Hp2) as (ss' & dd & E & H1 & H2 & H3). rewrite E. eauto 6.
Qed.

(* any arrival sequence of pieces of D (any order, duplicates, omissions): every delivery is D *)
Theorem lpf_process_all_safe D tag now timeout ll_src ll_dst : forall fs ss,
  lpf_IPV6_HDR <= blen D ->
  Forall (slot_inv D (ll_src, ll_dst, blen D, tag)) ss -> Forall (piece_ok D tag) fs ->
  exists ss' ds, lpf_process_all now timeout ll_src ll_dst fs ss = Ok (ss', ds) /\
                 Forall (slot_inv D (ll_src, ll_dst, blen D, tag)) ss' /\ Forall (fun d => d = D) ds.
Proof.
  induction fs as [|f r IH]; intros ss Hsz Hss Hfs.
  - exists ss, []. cbn. auto.
  - inversion Hfs; subst. cbn [lpf_process_all].
    destruct (lpf_process_fragment_safe D tag now timeout ll_src ll_dst f ss Hsz Hss H1) as (ss1 & d & E & Hss1 & _ & Hd).
    rewrite E. cbn [obind].
    destruct (IH ss1 Hsz Hss1 H2) as (ss2 & ds & E2 & Hss2 & Hds). rewrite E2. cbn [obind].
    eexists _, _. split; [reflexivity|]. split; [assumption|].
    destruct Hd as [->| ->]; [assumption | constructor; auto].
Qed.

(* a fresh slot set satisfies the invariant for every datagram and key *)
Lemma lpf_slots_new_inv D k : Forall (slot_inv D k) lpf_slots_new.
Proof.
  unfold lpf_slots_new. apply Forall_forall. intros s Hin. apply repeat_spec in Hin. subst s.
  unfold slot_inv, lpf_slot_new, lpf_pa_new. cbn. auto.
Qed.

(* ================================================================================
   Sender and receiver together
   ================================================================================ *)

(* what the receiver extracts from a frame of the sender; [dec1] is the decompression of the first
   fragment (sixlowpan_to_ipv6 on its payload, as a function of the buffer length) *)
Definition lpf_rx_of_frame (dec1 : Z -> outcome (list Z)) (f : lpf_frame) : option lpf_rx_frag :=
  match fr_hdr f with
  | Some h => Some (mkRxFrag h (fr_payload f) dec1)
  | None => None
  end.

Section EndToEnd.
  Variables (ieee_len : Z) (c D : list Z) (chdr uhdr payload_length tag : Z).
  Variable dec1 : Z -> outcome (list Z).
  Hypothesis Hie : 5 <= ieee_len <= 21.
  Hypothesis Hh : 0 <= chdr <= uhdr.
  Hypothesis Hneed : lpf_needs_frag (blen c) ieee_len = true.
  Hypothesis Hbuf : blen c <= lpf_BUFFER.
  Hypothesis Hfit : blen c + (uhdr - chdr) < 2048.
  (* the compressed packet is the compressed headers followed by the same octets that follow the
     uncompressed headers in the datagram; datagram_size is the datagram's length *)
  Hypothesis Hrest : skipn (Z.to_nat chdr) c = skipn (Z.to_nat uhdr) D.
  Hypothesis Hc : chdr <= blen c.
  Hypothesis Hu : uhdr <= blen D.
  Hypothesis Hdsz : payload_length + lpf_IPV6_HDR = blen D.
  Hypothesis Hchdr : chdr <= lpf_f1 ieee_len (uhdr - chdr).
  (* decompressing the first fragment yields the first f1 + header_diff octets of the datagram *)
  Hypothesis Hdec : forall n, blen D <= n ->
    dec1 n = Ok (firstn (Z.to_nat (lpf_f1 ieee_len (uhdr - chdr) + (uhdr - chdr))) D).

  Let hd := uhdr - chdr.
  Let f1 := lpf_f1 ieee_len hd.

  Lemma lpf_len_D : blen D = blen c + hd.
  Proof.
    assert (H : blen (skipn (Z.to_nat chdr) c) = blen (skipn (Z.to_nat uhdr) D)) by (rewrite Hrest; reflexivity).
    rewrite !blen_skipn in H by lia. subst hd. lia.
  Qed.

  (* an octet range of c behind the compressed headers is the same range of D, shifted by header_diff *)
  Lemma lpf_shift p n : chdr <= p -> 0 <= n ->
    firstn (Z.to_nat n) (skipn (Z.to_nat p) c) = firstn (Z.to_nat n) (skipn (Z.to_nat (p + hd)) D).
  Proof.
    intros Hp Hn. f_equal.
    replace (Z.to_nat p) with (Z.to_nat (p - chdr) + Z.to_nat chdr)%nat by lia.
    rewrite <- skipn_add, Hrest, skipn_add. f_equal. subst hd. lia.
  Qed.

  (* frag_offsets_consistent: every frame the sender emits is, at the receiver, a piece of the
     uncompressed datagram D at exactly the position its header announces *)
  Lemma lpf_sender_pieces_ok : forall frames,
    lpf_send ieee_len c chdr uhdr payload_length tag = Ok frames ->
    forall fr, In fr frames -> exists rf, lpf_rx_of_frame dec1 fr = Some rf /\ piece_ok D tag rf.
  Proof.
    intros frames Hs fr Hin. pose proof lpf_len_D as HlD.
    destruct (lpf_send_spec ieee_len c chdr uhdr payload_length tag Hie Hh Hneed Hbuf Hfit) as (fs & E & Hnx).
    rewrite E in Hs. injection Hs as <-.
    destruct (lpf_f1_facts ieee_len c chdr uhdr 0 Hie Hneed) as (Hf1 & Hm & _).
    fold hd in Hm, Hnx. fold f1 in Hm, Hnx, Hf1.
    assert (Hds : (payload_length + lpf_IPV6_HDR) mod 65536 = blen D).
    { rewrite Hdsz. apply Z.mod_small. pose proof (blen_nonneg D) as Hnn. subst hd. clear - HlD Hfit Hnn. lia. }
    rewrite Hds in *.
    destruct Hin as [<-|Hin].
    - eexists. split; [reflexivity|]. unfold piece_ok. cbn [rf_hdr rf_first_dec].
      split; [reflexivity|]. split; [reflexivity|].
      exists (firstn (Z.to_nat (f1 + hd)) D). split; [exact Hdec|].
      subst f1 hd. rewrite blen_firstn by lia. split; [lia | reflexivity].
    - destruct (lpf_nexts_offsets _ _ _ _ _ _ _ Hnx fr Hin) as (p & n & Hh' & Hal & Hoff & Hlo & Hn & Hle & _ & Hpl).
      unfold lpf_rx_of_frame. rewrite Hh'. eexists. split; [reflexivity|].
      unfold piece_ok. cbn [rf_hdr rf_payload].
      unfold f1, hd in *.
      assert (Hbl : blen (fr_payload fr) = n).
      { rewrite Hpl. rewrite blen_firstn; [reflexivity|]. rewrite blen_skipn by lia. lia. }
      split; [reflexivity|]. split; [reflexivity|]. split; [lia|]. rewrite Hbl, Hal.
      split; [lia|]. rewrite Hpl. apply lpf_shift; lia.
  Qed.

  (* lowpan_fragments_reassemble: whatever subset of the sender's frames arrives, in whatever order
     and however often, every datagram the receiver delivers is D (and otherwise nothing) *)
  Theorem lpf_fragments_reassemble : forall frames arrivals rfs now timeout ll_src ll_dst ss,
    lpf_send ieee_len c chdr uhdr payload_length tag = Ok frames ->
    incl arrivals frames ->
    map (lpf_rx_of_frame dec1) arrivals = map Some rfs ->
    lpf_IPV6_HDR <= blen D ->
    Forall (slot_inv D (ll_src, ll_dst, blen D, tag)) ss ->
    exists ss' ds, lpf_process_all now timeout ll_src ll_dst rfs ss = Ok (ss', ds) /\
                   Forall (slot_inv D (ll_src, ll_dst, blen D, tag)) ss' /\ Forall (fun d => d = D) ds.
  Proof.
    intros frames arrivals rfs now timeout ll_src ll_dst ss Hs Hincl Hmap Hsz Hss.
    apply lpf_process_all_safe; try assumption.
    apply Forall_forall. intros rf Hrf.
    assert (Hin : In (Some rf) (map (lpf_rx_of_frame dec1) arrivals)) by (rewrite Hmap; apply in_map; exact Hrf).
    apply in_map_iff in Hin. destruct Hin as (fr & Hfr & Hinfr).
    destruct (lpf_sender_pieces_ok frames Hs fr (Hincl fr Hinfr)) as (rf' & E & Hok). congruence.
  Qed.
End EndToEnd.

(* ================================================================================
   Statements used by Props/C20.v
   ================================================================================ *)

(* frag_sizes_multiple_of_8_uncompressed + every frame fits + the payloads are the packet:
   the structure of everything dispatch_sixlowpan / dispatch_sixlowpan_frag put on the wire
   for one packet that needs fragmentation *)
Theorem lpf_send_structure ieee_len c chdr uhdr payload_length tag frames :
  5 <= ieee_len <= 21 -> 0 <= chdr <= uhdr -> lpf_needs_frag (blen c) ieee_len = true ->
  blen c <= lpf_BUFFER -> blen c + (uhdr - chdr) < 2048 ->
  lpf_send ieee_len c chdr uhdr payload_length tag = Ok frames ->
  let hd := uhdr - chdr in
  exists f1 fs, frames = f1 :: fs /\
    (* first fragment: its size in the UNCOMPRESSED datagram is a multiple of 8 *)
    fr_hdr f1 = Some (SfFirst ((payload_length + lpf_IPV6_HDR) mod 65536) tag) /\
    fr_payload f1 = firstn (Z.to_nat (blen (fr_payload f1))) c /\
    0 < blen (fr_payload f1) < blen c /\ (blen (fr_payload f1) + hd) mod 8 = 0 /\
    (* following fragments: offset = position in the uncompressed datagram / 8 (exact), all but
       the last carry the same multiple of 8 octets *)
    (forall f, In f fs -> exists p n,
        fr_hdr f = Some (SfNext ((payload_length + lpf_IPV6_HDR) mod 65536) tag ((p + hd) / 8)) /\
        (p + hd) / 8 * 8 = p + hd /\ 0 <= (p + hd) / 8 < 256 /\ blen (fr_payload f1) <= p /\
        0 < n <= lpf_fn ieee_len /\ p + n <= blen c /\ (p + n < blen c -> n = lpf_fn ieee_len) /\
        fr_payload f = firstn (Z.to_nat n) (skipn (Z.to_nat p) c)) /\
    lpf_fn ieee_len mod 8 = 0 /\
    (* nothing lost, nothing duplicated, in order *)
    concat (map fr_payload frames) = c /\
    (* every frame fits the 802.15.4 payload budget *)
    Forall (fun f => lpf_frame_len ieee_len f <= lpf_MAX_FRAME) frames.
Proof.
  intros Hie Hh Hneed Hbuf Hfit Hs. cbv zeta.
  destruct (lpf_send_spec ieee_len c chdr uhdr payload_length tag Hie Hh Hneed Hbuf Hfit) as (fs & E & Hnx).
  rewrite E in Hs. injection Hs as <-.
  destruct (lpf_f1_facts ieee_len c chdr uhdr 0 Hie Hneed) as (Hf1 & Hm & Hfit1 & _).
  destruct (lpf_fn_facts ieee_len c 0 0 0 Hie) as (Hfn & Hfm & Hfitn).
  remember (lpf_f1 ieee_len (uhdr - chdr)) as f1 eqn:Ef1.
  assert (X0 : 0 <= f1 <= blen c) by lia.
  assert (Hbl : blen (firstn (Z.to_nat f1) c) = f1) by (apply blen_firstn; exact X0).
  eexists _, fs. split; [reflexivity|]. cbn [fr_hdr fr_payload]. rewrite Hbl.
  split; [reflexivity|]. split; [reflexivity|]. split; [lia|]. split; [exact Hm|].
  split; [intros f Hin; exact (lpf_nexts_offsets _ _ _ _ _ _ _ Hnx f Hin)|].
  split; [exact Hfm|]. split.
  - cbn [map concat fr_payload]. rewrite (lpf_nexts_cover _ _ _ _ _ f1 fs X0 Hnx). apply firstn_skipn.
  - constructor.
    + unfold lpf_frame_len. cbn [fr_hdr fr_payload sixfrag_buffer_len]. rewrite Hbl.
      unfold lpf_FRAG1_HDR in Hfit1. lia.
    + apply (lpf_nexts_fit c _ tag (uhdr - chdr) (lpf_fn ieee_len) ieee_len f1 fs Hfitn (proj1 X0) Hnx).
Qed.

(* a packet that does not need fragmentation goes out as one frame that fits *)
Lemma lpf_send_small ieee_len c chdr uhdr payload_length tag :
  lpf_needs_frag (blen c) ieee_len = false ->
  lpf_send ieee_len c chdr uhdr payload_length tag = Ok [mkFrame None c] /\
  lpf_frame_len ieee_len (mkFrame None c) <= lpf_MAX_FRAME.
Proof.
  intros H. unfold lpf_send. rewrite H. split; [reflexivity|].
  unfold lpf_needs_frag in H. rewrite Z.gtb_ltb in H. apply Z.ltb_ge in H.
  unfold lpf_frame_len. cbn [fr_hdr fr_payload]. lia.
Qed.

(* configuration tie: with the configured fragmentation buffer every datagram the fragmenter can
   hold has a size that fits the 11-bit datagram_size field and offsets that fit one octet
   (header_diff <= 48: 40 + 8 uncompressed header octets) *)
Lemma lpf_config_fits : lpf_BUFFER + 48 < 2048 /\ 1 <= lpf_N /\ 1 <= lpf_SLOTS.
Proof. unfold lpf_BUFFER, lpf_N, lpf_ASM_SEGMENTS, lpf_SLOTS. zfold. lia. Qed.
