(* C02 (liveness half): THE COMPOSITIONS WITH REDUCED PREMISES.  The theorems of Proofs/TcpProgressCl13.v and Cl15.v
   again, with
     - zextra replaced by its half zx_zwp (a zero-window-probe timer runs at A only with nothing in flight); the other
       half, zx_capw (an empty receive buffer of B advertises a non-zero window), is DERIVED from the configuration
       premise cfg_rx (Proofs/TcpProgressCap.v, CapNet.v: the shift is 0 or the value Socket::new computes from the
       capacity, in every state of every run from net_init);
     - qstatic replaced by qstatic' : the facts "window shift <= 14" and "B's empty buffer advertises a window" are
       derived from cfg_rx too.
   The old theorems stay; their witnesses satisfy the new premises (qregime_weaken, cfg_rx by computation). *)
From SV Require Import Lib.Base Gen.Consts.
From SV Require Import Model.Seq32 Model.Assembler Model.TcpBuf Model.TcpTypes Model.Tcp Model.TcpNet.
From SV Require Import Proofs.TcpSendBase Proofs.TcpLiveBase Proofs.TcpLiveProofs Proofs.TcpLiveMore
  Proofs.TcpLiveProgress.
From SV Require Import Proofs.TcpNetBase.
From SV Require Proofs.TcpNetInv.
From SV Require Import Proofs.TcpProgressBase Proofs.TcpProgressFrame Proofs.TcpProgressCtl Proofs.TcpProgressRecv
  Proofs.TcpProgressSend Proofs.TcpProgressNet Proofs.TcpProgressData Proofs.TcpProgressAck
  Proofs.TcpProgressAll Proofs.TcpProgressSafe Proofs.TcpProgressHs Proofs.TcpProgressHsD
  Proofs.TcpProgressHsNet Proofs.TcpProgressHsInit Proofs.TcpProgressHsLive Proofs.TcpProgressHsLive2
  Proofs.TcpProgressZwp Proofs.TcpProgressExample Proofs.TcpProgressWitness Proofs.TcpProgressSafeWitness Proofs.TcpProgressZwDup
  Proofs.TcpProgressZw1 Proofs.TcpProgressZw1b Proofs.TcpProgressZw2 Proofs.TcpProgressZw3 Proofs.TcpProgressZwWitness
  Proofs.TcpProgressZw4 Proofs.TcpProgressZw5 Proofs.TcpProgressZw6 Proofs.TcpProgressZw7
  Proofs.TcpProgressCl1 Proofs.TcpProgressCl2 Proofs.TcpProgressCl3 Proofs.TcpProgressCl4 Proofs.TcpProgressCl5
  Proofs.TcpProgressCl6 Proofs.TcpProgressCl7 Proofs.TcpProgressCl8 Proofs.TcpProgressCl9
  Proofs.TcpProgressCl10 Proofs.TcpProgressCl11 Proofs.TcpProgressCl12 Proofs.TcpProgressCl13
  Proofs.TcpProgressHsRtx Proofs.TcpProgressHsAll Proofs.TcpProgressHsSrv1 Proofs.TcpProgressHsSrv2
  Proofs.TcpProgressCl15 Proofs.TcpProgressCap Proofs.TcpProgressCapNet.

Module NV := TcpNetInv.
Notation sz st z := (net_sock st z).

(* ---------------------------------------------------------------------------------------- *)
(* the reduced premises                                                                      *)
(* ---------------------------------------------------------------------------------------- *)
(* zextra without zx_capw: a zero-window-probe timer runs at A only with nothing in flight *)
Definition zx_zwp (st : net) : Prop :=
  timer_is_zero_window_probe (s_timer (sz st SA)) = true ->
  s_remote_last_seq (sz st SA) = s_local_seq_no (sz st SA).

(* qstatic without the two facts that follow from the configuration (shift <= 14, an empty buffer of B advertises a
   window) *)
Definition qstatic' (st : net) : Prop :=
  (forall z, s_pending_fast_retransmit (sz st z) = false /\ s_syn_unacked_in_fin_wait (sz st z) = false /\
             s_timer (sz st z) = TIdle None /\ tcp_RTTE_MIN_RTO <= rt_rto (s_rtte (sz st z)) /\
             (s_ack_delay_timer (sz st z) = ADIdle \/ tcp_ack_to_transmit (sz st z) = true) /\
             (tcp_ack_to_transmit (sz st z) = false ->
              s_remote_last_ack (sz st z) = Some (tcp_window_start (sz st z)))) /\
  s_ack_delay_timer (sz st SA) = ADIdle.

Definition qregime' (st : net) : Prop := zx_zwp st /\ (drained st -> qstatic' st).

Lemma zextra_of st : capst st -> zx_zwp st -> zextra SA st.
Proof. intros Hc Hz. split; [exact Hz | cbn [side_other]; exact (capst_window st Hc)]. Qed.

Lemma qregime_weaken st : qregime st -> qregime' st.
Proof.
  intros ((Hz & _) & Hq). split; [exact Hz|]. intros HD. destruct (Hq HD) as (H1 & _ & H3).
  split; [|exact H3]. intros z. destruct (H1 z) as (A & B & C & D & _ & F & G). auto 10.
Qed.

Lemma run_all_cap (P Q : net -> Prop) : (forall s, capst s -> P s -> Q s) ->
  forall evs st, capst st -> run_all P st evs -> run_all Q st evs.
Proof.
  intros HPQ. induction evs as [|ev r IH]; intros st Hc H; cbn [run_all] in *.
  - destruct H as (H & _). auto.
  - destruct H as (H & H1). split; [auto|]. destruct (net_step st ev) as [st1|e|] eqn:Es; try exact I.
    exact (IH st1 (capst_step _ _ _ Es Hc) H1).
Qed.

Section Final'.
Variables Dt Da Dack : Z.

Lemma QR_of' st :
  reach st -> NV.small st -> wr_small SA st -> NI st -> opts_ok st -> reg SA Dack st -> capst st ->
  qregime' st -> drained st -> QR Dack st.
Proof.
  intros Hre Hsm Hws HN Ho HG Hc (Hzx & Hqs) HD.
  pose proof (reach_inv_at SA st Hre Hsm (rg_closed SA Dack st HG)) as HI.
  split; [exact HN|]. split; [exact Ho|]. split; [exact HG|]. split; [exact HI|]. split; [exact Hws|].
  destruct (Hqs HD) as (H1 & H3).
  destruct (reg_pair SA Dack st HG HI) as (gx & gy & PF & Hsub).
  pose proof (pf_vy _ _ _ _ PF) as Vy. cbn [side_other] in Vy.
  destruct (ev_rx _ _ Vy) as (WB1 & _).
  destruct HD as (_ & Hrd).
  assert (Hl : rb_len (s_rx_buffer (sz st SB)) = 0) by (apply (rx_len_of_rcv_off (net_get st SB) WB1); symmetry; exact Hrd).
  split; [|split; [exact (capst_window st Hc Hl) | exact H3]].
  intros z. destruct (H1 z) as (A & B & C & D & F & G).
  split; [exact A|]. split; [exact B|]. split; [exact C|]. split; [exact D|].
  split; [exact (capst_shift st z Hc)|]. split; assumption.
Qed.

Lemma QR_run' : forall evs fa st st',
  reach st -> NI st -> opts_ok st -> reg SA Dack st -> capst st -> drained st ->
  Forall qev evs -> fair_run Dt Da fa st evs -> net_run st evs = Ok st' -> NV.small st' -> wr_small SA st' ->
  run_all qregime' st evs -> run_all (QR Dack) st evs.
Proof.
  induction evs as [|ev r IH]; intros fa st st' Hre HN Ho HG Hc HD HE Hf Hr Hsm Hws HRq.
  - cbn [net_run] in Hr. inversion Hr; subst. cbn [run_all] in *. destruct HRq as (Hq & _).
    split; [exact (QR_of' st' Hre Hsm Hws HN Ho HG Hc Hq HD) | exact I].
  - cbn [net_run] in Hr. apply obind_ok in Hr. destruct Hr as (st1 & Hs & Hr).
    inversion HE as [|? ? HE0 HE1]; subst.
    cbn [fair_run] in Hf. destruct Hf as (Hfe & Hf). rewrite Hs in Hf.
    cbn [run_all] in HRq |- *. destruct HRq as (Hq & HRq). rewrite Hs in HRq |- *.
    pose proof (net_run_mono _ _ _ Hr) as Hm1. pose proof (net_step_mono _ _ _ Hs) as Hm0.
    assert (Hsm1 : NV.small st1) by exact (NV.small_mono _ _ Hm1 Hsm).
    assert (Hsm0 : NV.small st) by exact (NV.small_mono _ _ Hm0 Hsm1).
    assert (Hws1 : wr_small SA st1) by exact (wr_small_mono _ _ Hm1 Hws).
    assert (Hws0 : wr_small SA st) by exact (wr_small_mono _ _ Hm0 Hws1).
    pose proof (QR_of' st Hre Hsm0 Hws0 HN Ho HG Hc Hq HD) as HQ. split; [exact HQ|].
    pose proof (reach_step _ _ _ Hre Hs) as Hre1. pose proof (NI_step _ _ _ HN Hs) as HN1.
    pose proof (opts_step _ _ _ Ho Hs) as Ho1. pose proof (capst_step _ _ _ Hs Hc) as Hc1.
    pose proof (reach_inv_at SA st Hre Hsm0 (rg_closed SA Dack st HG)) as HI.
    pose proof (closed_step SA _ _ _ (qev_script _ HE0) Hs (rg_closed SA Dack st HG)) as Hcl1.
    pose proof (reach_inv_at SA st1 Hre1 Hsm1 Hcl1) as HI1.
    pose proof (reg_step SA Dack _ _ _ HN Ho HG HI HI1 (qev_script _ HE0) Hs) as HG1.
    pose proof (run_all_here _ _ _ HRq) as Hq1.
    pose proof (zsafe_of_reg SA Dack st1 HN1 HG1 HI1 Hws1 (zextra_of st1 Hc1 (proj1 Hq1))) as HZ1.
    pose proof (QR_zsafe Dack st HQ) as HZ.
    pose proof (drained_step_z fa st ev st1 HN Ho HN1 HZ HZ1 HD HE0 Hfe Hs) as HD1.
    exact (IH _ st1 st' Hre1 HN1 Ho1 HG1 Hc1 HD1 HE1 Hf Hr Hsm Hws HRq).
Qed.

End Final'.

(* the core, with the reduced premises *)
Theorem quiesce_close_from_reg' Dt Da Dack (n : nat) :
  forall fa st evsD evsQ evs1 evs2 stD stQ stC st_m st',
  0 <= Dt -> 0 <= Da -> 2 * Dt < tcp_RTTE_MIN_RTO * 1000 -> 0 <= Dack ->
  reach st -> reg SA Dack st -> opts_ok st -> capst st -> dl_sync Da fa st -> dlb Dt fa st ->
  fair_run Dt Da fa st (evsD ++ evsQ ++ NClose SA :: evs1 ++ NClose SB :: evs2) ->
  once_run Dt Da fa st (evsD ++ evsQ ++ NClose SA :: evs1 ++ NClose SB :: evs2) ->
  Forall (app_ev SA) evsD -> net_run st evsD = Ok stD ->
  Forall qev evsQ -> net_run stD evsQ = Ok stQ ->
  (forall z, l_len (ep_written (net_get stQ z)) < 2 ^ 30) ->
  run_all qregime' stD evsQ ->
  (l_len (ep_written (net_get stD SA)) - una_off (net_get stD SA)) +
  (l_len (ep_written (net_get stD SA)) - read_off (net_get stD SB)) <= Z.of_nat n ->
  net_now stD SA + Z.of_nat n * Wz Dt Da + 2 * Dt + Dack < net_now stQ SA ->
  net_step stQ (NClose SA) = Ok stC ->
  Forall (cl_ev SA false) evs1 -> net_run stC evs1 = Ok st_m -> net_now stQ SA + 2 * Dt < net_now st_m SA ->
  net_run st_m (NClose SB :: evs2) = Ok st' ->
  net_now st_m SA + 3 * Dt + tcp_CLOSE_DELAY < net_now st' SA ->
  (exists p1 p2 sta,
     evsQ = p1 ++ p2 /\ net_run stD p1 = Ok sta /\ net_run sta p2 = Ok stQ /\
     una_off (net_get sta SA) = l_len (ep_written (net_get stD SA)) /\
     read_off (net_get sta SB) = l_len (ep_written (net_get stD SA))) /\
  (exists pre2 post st_c,
     evs2 = pre2 ++ post /\ net_run st_m (NClose SB :: pre2) = Ok st_c /\ net_run st_c post = Ok st' /\
     both_closed st_c).
Proof.
  intros fa st evsD evsQ evs1 evs2 stD stQ stC st_m st' HDt HDa HDt2 HDack Hre HG Ho0 Hcap Hsy Hb Hfall Hoall HappD HrD HEQ HrQ Hsz HqQ Hn HlQ
         HsC HE1 Hr1 Hp1 Hr2 Hp2.
  set (rest := NClose SA :: evs1 ++ NClose SB :: evs2) in *.
  (* bookkeeping at stD and the rest of the run *)
  destruct (fair_run_app Dt Da evsD (evsQ ++ rest) fa st stD HrD Hfall) as (HfairD & HfD).
  destruct (once_run_app Dt Da evsD (evsQ ++ rest) fa st stD HrD Hoall) as (HonceD & HoD).
  set (faD := fa_run Dt Da fa st evsD) in *.
  pose proof (dl_sync_run Dt Da evsD _ st stD Hsy HfairD HrD) as HsyD.
  pose proof (dlb_run Dt Da evsD _ st stD HDt Hb HfairD HrD) as HbD.
  (* sizes *)
  assert (HsmQ : NV.small stQ).
  { split; [specialize (Hsz SA) | specialize (Hsz SB)]; cbn [net_get] in Hsz; change (2 ^ 30) with 1073741824 in Hsz; lia. }
  assert (HwsQ : wr_small SA stQ) by (unfold wr_small; exact (Hsz SA)).
  pose proof (net_run_mono _ _ _ HrQ) as HmQ.
  assert (HsmD : NV.small stD) by exact (NV.small_mono _ _ HmQ HsmQ).
  assert (HappS : Forall (script_ev SA) evsD).
  { apply Forall_forall. intros ev Hin. apply app_ev_script. rewrite Forall_forall in HappD. exact (HappD ev Hin). }
  pose proof (reg_run_all SA Dack evsD st stD Hre (reach_NI _ Hre) Ho0 HG HappS HrD HsmD) as HGall.
  pose proof (run_all_end _ _ _ _ HGall HrD) as HGD.
  assert (HreD : reach stD).
  { destruct Hre as (ca' & cb' & st0' & pre0 & R1 & R2 & R3 & R4).
    exists ca', cb', st0', (pre0 ++ evsD). repeat (split; [assumption|]). exact (net_run_app pre0 evsD st0' st stD R4 HrD). }
  pose proof (reach_NI _ HreD) as HND. pose proof (opts_run _ _ _ Ho0 HrD) as HoD'.
  (* the rest of the run from stD *)
  destruct (fair_run_app Dt Da evsQ rest faD stD stQ HrQ HfD) as (HfQ & HfR).
  destruct (once_run_app Dt Da evsQ rest faD stD stQ HrQ HoD) as (HoQ & HoR).
  (* everything written is acknowledged and read *)
  assert (HscQ : Forall (script_ev SA) evsQ).
  { apply Forall_forall. intros ev Hin. apply qev_script. rewrite Forall_forall in HEQ. exact (HEQ ev Hin). }
  pose proof (capst_run _ _ _ HrD Hcap) as HcapD.
  assert (HzxQ : run_all (zextra SA) stD evsQ) by (apply (run_all_cap qregime'); [intros s Hc (X0 & _); exact (zextra_of s Hc X0) | exact HcapD | exact HqQ]).
  pose proof (zsafe2_run SA Dack evsQ stD stQ HreD HND HoD' HGD HscQ HrQ HsmQ HwsQ HzxQ) as HZ2.
  assert (HnsQ : Forall nosend evsQ).
  { apply Forall_forall. intros ev Hin. apply qev_nosend. rewrite Forall_forall in HEQ. exact (HEQ ev Hin). }
  destruct (all_written_bytes_eventually_acked_zw SA Dt Da Dack n evsQ faD stD stQ _ HDt HDa HND HoD' HsyD HbD HZ2 HfQ HoQ HrQ
              HnsQ eq_refl Hn ltac:(pose proof max_rto_us_pos; lia))
    as (p1 & p2 & sta & EQ & Ha1 & Ha2 & Hua & Hra & Hta).
  split; [exists p1, p2, sta; auto|].
  cbn [side_other] in *.
  (* the state in which everything is acknowledged and read *)
  rewrite EQ in HEQ, HscQ, HnsQ, HqQ, HfQ, HoQ, HZ2.
  apply Forall_app in HEQ. destruct HEQ as (HEp1 & HEp2).
  apply Forall_app in HscQ. destruct HscQ as (Hscp1 & _).
  apply Forall_app in HnsQ. destruct HnsQ as (Hnsp1 & _).
  destruct (fair_run_app Dt Da p1 p2 faD stD sta Ha1 HfQ) as (Hfp1 & Hfp2).
  destruct (once_run_app Dt Da p1 p2 faD stD sta Ha1 HoQ) as (_ & Hop2).
  set (faa := fa_run Dt Da faD stD p1) in *.
  pose proof (net_run_mono _ _ _ Ha2) as Hma.
  assert (Hsma : NV.small sta) by exact (NV.small_mono _ _ Hma HsmQ).
  pose proof (reg_run_all SA Dack p1 stD sta HreD HND HoD' HGD Hscp1 Ha1 Hsma) as HGall2.
  pose proof (run_all_end _ _ _ _ HGall2 Ha1) as HGa.
  assert (Hrea : reach sta).
  { destruct HreD as (ca' & cb' & st0' & preD & R1 & R2 & R3 & R4).
    exists ca', cb', st0', (preD ++ p1). repeat (split; [assumption|]). exact (net_run_app preD p1 st0' stD sta R4 Ha1). }
  pose proof (reach_NI _ Hrea) as HNa. pose proof (opts_run _ _ _ HoD' Ha1) as Hoa.
  pose proof (run_all_app _ p1 p2 stD sta Ha1 HZ2) as HZ2a. pose proof (run_all_here _ _ _ HZ2a) as (HZa & _).
  pose proof (written_run_nosend _ _ _ SA Ha1 Hnsp1) as Hwa.
  assert (HDa' : drained sta).
  { destruct (zsafe_bounds SA sta HNa HZa) as (B1 & B2 & B3). cbn [side_other] in *.
    unfold drained, una_off, net_sock in *. rewrite Hwa in *. split; lia. }
  pose proof (run_all_app _ p1 p2 stD sta Ha1 HqQ) as Hqa.
  pose proof (QR_run' Dt Da Dack p2 faa sta stQ Hrea HNa Hoa HGa (capst_run _ _ _ Ha1 HcapD) HDa' HEp2 Hfp2 Ha2 HsmQ HwsQ Hqa) as HQRa.
  (* the parameters, and the quiet state *)
  destruct (rg_tup SA Dack sta HGa SA) as (tA & TA1 & _).
  set (X := s_local_seq_no (sz sta SA)). set (Y := s_local_seq_no (sz sta SB)).
  set (dk := net_now sta SB - net_now sta SA).
  assert (HK0 : K0 Dt Da dk tA X Y faa sta).
  { split; [split; [exact HNa|]; split; [exact Hoa|]; split; [exact (dl_sync_run Dt Da p1 _ stD sta HsyD Hfp1 Ha1) | reflexivity]|].
    split; [exact (dlb_run Dt Da p1 _ stD sta HDt HbD Hfp1 Ha1)|]. split; [exact HDa'|]. split; [exact TA1 | split; reflexivity]. }
  destruct (connection_becomes_quiet Dt Da Dack dk tA X Y HDt HDack p2 faa sta stQ HK0
              ltac:(repeat split; assumption) ltac:(lia))
    as (q1 & q2 & stq & Eq & Hq1 & (HEq2 & HRq2 & Hfq2 & Hoq2 & Hrq2) & HQd & _).
  (* it stays quiet up to A's close() *)
  pose proof (Qd_run Dt Da Dack dk tA X Y HDt q2 _ stq stQ HQd HEq2 HRq2 Hfq2 Hoq2 Hrq2) as HQdQ.
  rewrite <- (fa_run_app Dt Da q1 q2 faa sta stq Hq1), <- Eq in HQdQ.
  pose proof (run_all_end _ _ _ _ HQRa Ha2) as HQRQ.
  (* A closes *)
  assert (HfaQ : fa_run Dt Da faa sta p2 = fa_run Dt Da faD stD (p1 ++ p2)) by (symmetry; exact (fa_run_app Dt Da p1 p2 faD stD sta Ha1)).
  rewrite HfaQ, <- EQ in HQdQ.
  unfold rest in HfR, HoR. cbn [fair_run once_run] in HfR, HoR. rewrite HsC in HfR, HoR.
  destruct HfR as (HevC & HfR). destruct HoR as (_ & HoR).
  destruct (Qd_close Dt Da Dack dk tA X Y _ stQ stC HQRQ HQdQ HevC HsC) as (Hcs & Hnz & HX & HY & HMB & HMB2).
  exact (orderly_close_completes tA X Y _ _ Dt Da dk HDt HDt2 Hnz HX HY HMB HMB2 (net_now stQ SA) evs1 evs2 _ stC st_m st'
           Hcs HE1 HfR HoR Hr1 Hp1 Hr2 Hp2).
Qed.

Theorem quiesce_close_after_fault_prefix' Dt Da Dack ca cb st0 (n : nat) :
  forall pre st evsD evsQ evs1 evs2 stD stQ stC st_m st',
  start_ok Dack ca cb st0 -> cfg_rx ca cb -> 2 * Dt < tcp_RTTE_MIN_RTO * 1000 -> 0 <= Dack ->
  (* the fault prefix: any run of the one-way workload - drops, duplicates, reordering, any clock - that ends
     with both sockets ESTABLISHED *)
  net_run st0 pre = Ok st -> Forall (script_ev SA) pre ->
  (forall z, s_state (net_sock st z) = Established) ->
  (* from there on delivery is reliable *)
  reliable_schedule Dt Da st (evsD ++ evsQ ++ NClose SA :: evs1 ++ NClose SB :: evs2) ->
  (* A may go on writing, B reads *)
  Forall (app_ev SA) evsD -> net_run st evsD = Ok stD ->
  (* the applications neither write nor close *)
  Forall qev evsQ -> net_run stD evsQ = Ok stQ ->
  (forall z, l_len (ep_written (net_get stQ z)) < 2 ^ 30) ->
  run_all qregime' stD evsQ ->
  (l_len (ep_written (net_get stD SA)) - una_off (net_get stD SA)) +
  (l_len (ep_written (net_get stD SA)) - read_off (net_get stD SB)) <= Z.of_nat n ->
  net_now stD SA + Z.of_nat n * Wz Dt Da + 2 * Dt + Dack < net_now stQ SA ->
  (* A closes; B closes in CLOSE-WAIT *)
  net_step stQ (NClose SA) = Ok stC ->
  Forall (cl_ev SA false) evs1 -> net_run stC evs1 = Ok st_m -> net_now stQ SA + 2 * Dt < net_now st_m SA ->
  net_run st_m (NClose SB :: evs2) = Ok st' ->
  net_now st_m SA + 3 * Dt + tcp_CLOSE_DELAY < net_now st' SA ->
  (exists p1 p2 sta,
     evsQ = p1 ++ p2 /\ net_run stD p1 = Ok sta /\ net_run sta p2 = Ok stQ /\
     una_off (net_get sta SA) = l_len (ep_written (net_get stD SA)) /\
     read_off (net_get sta SB) = l_len (ep_written (net_get stD SA))) /\
  (exists pre2 post st_c,
     evs2 = pre2 ++ post /\ net_run st_m (NClose SB :: pre2) = Ok st_c /\ net_run st_c post = Ok st' /\
     both_closed st_c).
Proof.
  intros pre st evsD evsQ evs1 evs2 stD stQ stC st_m st' Hstart Hcfg HDt2 HDack Hpre Hscp Hest Hrel HappD HrD HEQ HrQ Hsz HqQ Hn HlQ
         HsC HE1 Hr1 Hp1 Hr2 Hp2.
  pose proof Hrel as ((HDt & HDa & Ho0 & Hfall) & Hoall).
  pose proof Hstart as (Hi & Hst0 & Ga & Gb & Pa & Pb & Haddr & Hdel).
  (* sizes *)
  assert (HsmQ : NV.small stQ).
  { split; [specialize (Hsz SA) | specialize (Hsz SB)]; cbn [net_get] in Hsz; change (2 ^ 30) with 1073741824 in Hsz; lia. }
  pose proof (net_run_mono _ _ _ HrQ) as HmQ. pose proof (net_run_mono _ _ _ HrD) as HmD.
  assert (Hsm : NV.small st) by exact (NV.small_mono _ _ HmD (NV.small_mono _ _ HmQ HsmQ)).
  (* the regime invariant at the end of the fault prefix *)
  destruct (hs_init ca cb st0 (cx_isn (ep_cx (n_a st0))) Dack Hi Hst0 Pa Pb Haddr Hdel) as (HP0 & Ho00).
  destruct (hs_run Dack ca cb st0 Hstart pre [] st0 st eq_refl (or_introl HP0) Ho00 Hscp Hpre Hsm) as (Hinv & _).
  assert (HG : reg SA Dack st).
  { destruct Hinv as [HP | HG]; [|exact HG]. exfalso.
    destruct (ph_phase _ _ _ HP) as [(_ & [B | B]) | (_ & B)]; rewrite (Hest SB) in B; discriminate. }
  assert (Hre : reach st) by (exists ca, cb, st0, pre; auto).
  exact (quiesce_close_from_reg' Dt Da Dack n (fa_init Dt Da st) st evsD evsQ evs1 evs2 stD stQ stC st_m st' HDt HDa HDt2 HDack
           Hre HG Ho0 (capst_run _ _ _ Hpre (capst_init ca cb st0 Hi Hcfg)) (fa_init_sync Dt Da st) (dlb_init Dt Da st HDt) Hfall Hoall HappD HrD HEQ HrQ Hsz HqQ Hn HlQ HsC HE1 Hr1 Hp1 Hr2 Hp2).
Qed.

Theorem handshake_quiesce_close_after_fault_prefix' Dt Da Dack ca cb st0 (n : nat) :
  forall pre st evsH evsQ evs1 evs2 stD stQ stC st_m st',
  start_ok Dack ca cb st0 -> cfg_rx ca cb -> 2 * Dt < tcp_RTTE_MIN_RTO * 1000 -> 0 <= Dack ->
  (* the fault prefix: the SYN or the SYN|ACK lost, duplicated, late - A is still in SYN-SENT *)
  net_run st0 pre = Ok st -> Forall (script_ev SA) pre ->
  s_state (net_sock st SA) = SynSent ->
  reliable_schedule Dt Da st (evsH ++ evsQ ++ NClose SA :: evs1 ++ NClose SB :: evs2) ->
  (* the handshake completes; A writes, B reads *)
  Forall (app_ev SA) evsH -> net_run st evsH = Ok stD ->
  run_all syn_win_open st evsH -> net_now st SA + max_rto_us + 3 * Dt < net_now stD SA ->
  (* the applications neither write nor close *)
  Forall qev evsQ -> net_run stD evsQ = Ok stQ ->
  (forall z, l_len (ep_written (net_get stQ z)) < 2 ^ 30) ->
  run_all qregime' stD evsQ ->
  (l_len (ep_written (net_get stD SA)) - una_off (net_get stD SA)) +
  (l_len (ep_written (net_get stD SA)) - read_off (net_get stD SB)) <= Z.of_nat n ->
  net_now stD SA + Z.of_nat n * Wz Dt Da + 2 * Dt + Dack < net_now stQ SA ->
  (* A closes; B closes in CLOSE-WAIT *)
  net_step stQ (NClose SA) = Ok stC ->
  Forall (cl_ev SA false) evs1 -> net_run stC evs1 = Ok st_m -> net_now stQ SA + 2 * Dt < net_now st_m SA ->
  net_run st_m (NClose SB :: evs2) = Ok st' ->
  net_now st_m SA + 3 * Dt + tcp_CLOSE_DELAY < net_now st' SA ->
  (exists h1 h2 sth,
     evsH = h1 ++ h2 /\ net_run st h1 = Ok sth /\ net_run sth h2 = Ok stD /\
     (forall z, s_state (net_sock sth z) = Established) /\
     net_now sth SA <= net_now st SA + max_rto_us + 3 * Dt) /\
  (exists p1 p2 sta,
     evsQ = p1 ++ p2 /\ net_run stD p1 = Ok sta /\ net_run sta p2 = Ok stQ /\
     una_off (net_get sta SA) = l_len (ep_written (net_get stD SA)) /\
     read_off (net_get sta SB) = l_len (ep_written (net_get stD SA))) /\
  (exists pre2 post st_c,
     evs2 = pre2 ++ post /\ net_run st_m (NClose SB :: pre2) = Ok st_c /\ net_run st_c post = Ok st' /\
     both_closed st_c).
Proof.
  intros pre st evsH evsQ evs1 evs2 stD stQ stC st_m st' Hstart Hcfg HDt2 HDack Hpre Hscp Hsa Hrel HappH HrH HwinH HlH HEQ HrQ Hsz HqQ Hn HlQ
         HsC HE1 Hr1 Hp1 Hr2 Hp2.
  pose proof Hrel as ((HDt & HDa & Ho0 & Hfall) & Hoall).
  set (rest := evsQ ++ NClose SA :: evs1 ++ NClose SB :: evs2) in *.
  assert (HsmQ : NV.small stQ).
  { split; [specialize (Hsz SA) | specialize (Hsz SB)]; cbn [net_get] in Hsz; change (2 ^ 30) with 1073741824 in Hsz; lia. }
  pose proof (net_run_mono _ _ _ HrQ) as HmQ.
  assert (HsmD : NV.small stD) by exact (NV.small_mono _ _ HmQ HsmQ).
  destruct (fair_run_app Dt Da evsH rest _ st stD HrH Hfall) as (HfH & _).
  assert (HfsH : fair_schedule Dt Da st evsH) by (split; [exact HDt|]; split; [exact HDa|]; split; assumption).
  destruct (handshake_completes_after_loss Dt Da Dack ca cb st0 Hstart pre st evsH stD Hpre Hscp Hsa HfsH HappH HrH HsmD HwinH HlH)
    as (h1 & h2 & fa1 & sth & EH & Hh1 & Hh2 & HG & Hre & Hoh & _ & _ & Hch).
  split; [exists h1, h2, sth; split; [exact EH|]; split; [exact Hh1|]; split; [exact Hh2|]; split; [exact (rg_est _ _ _ HG) | exact Hch]|].
  (* the bookkeeping of the run so far, at the state in which both are ESTABLISHED *)
  rewrite EH, <- app_assoc in Hfall, Hoall.
  destruct (fair_run_app Dt Da h1 (h2 ++ rest) _ st sth Hh1 Hfall) as (Hf1 & Hf2).
  destruct (once_run_app Dt Da h1 (h2 ++ rest) _ st sth Hh1 Hoall) as (_ & Ho2).
  rewrite EH in HappH. apply Forall_app in HappH. destruct HappH as (_ & Happ2).
  exact (quiesce_close_from_reg' Dt Da Dack n _ sth h2 evsQ evs1 evs2 stD stQ stC st_m st' HDt HDa HDt2 HDack
           Hre HG Hoh (capst_run _ _ _ Hh1 (capst_run _ _ _ Hpre (capst_init ca cb st0 (proj1 Hstart) Hcfg))) (dl_sync_run Dt Da h1 _ st sth (fa_init_sync Dt Da st) Hf1 Hh1)
           (dlb_run Dt Da h1 _ st sth HDt (dlb_init Dt Da st HDt) Hf1 Hh1) Hf2 Ho2 Happ2 Hh2 HEQ HrQ Hsz HqQ Hn HlQ HsC HE1 Hr1 Hp1 Hr2 Hp2).
Qed.

Theorem server_quiesce_close_after_fault_prefix' Dt Da Dack ca cb st0 (n : nat) :
  forall pre st evsH evsQ evs1 evs2 stD stQ stC st_m st',
  start_ok Dack ca cb st0 -> cfg_rx ca cb -> 2 * Dt < tcp_RTTE_MIN_RTO * 1000 -> 0 <= Dack ->
  (* the fault prefix: everything A transmitted since its SYN is lost *)
  net_run st0 pre = Ok st -> Forall (script_ev SA) pre ->
  s_state (net_sock st SA) = Established -> s_state (net_sock st SB) = SynReceived ->
  fresh (cx_isn (ep_cx (n_a st0))) st ->
  reliable_schedule Dt Da st (evsH ++ evsQ ++ NClose SA :: evs1 ++ NClose SB :: evs2) ->
  (* the handshake completes; A writes, B reads *)
  Forall (app_ev SA) evsH -> net_run st evsH = Ok stD ->
  run_all syn_win_open st evsH -> Z.max (net_now st SA) (cA st) + max_rto_us + 2 * Dt < net_now stD SA ->
  (* the applications neither write nor close *)
  Forall qev evsQ -> net_run stD evsQ = Ok stQ ->
  (forall z, l_len (ep_written (net_get stQ z)) < 2 ^ 30) ->
  run_all qregime' stD evsQ ->
  (l_len (ep_written (net_get stD SA)) - una_off (net_get stD SA)) +
  (l_len (ep_written (net_get stD SA)) - read_off (net_get stD SB)) <= Z.of_nat n ->
  net_now stD SA + Z.of_nat n * Wz Dt Da + 2 * Dt + Dack < net_now stQ SA ->
  (* A closes; B closes in CLOSE-WAIT *)
  net_step stQ (NClose SA) = Ok stC ->
  Forall (cl_ev SA false) evs1 -> net_run stC evs1 = Ok st_m -> net_now stQ SA + 2 * Dt < net_now st_m SA ->
  net_run st_m (NClose SB :: evs2) = Ok st' ->
  net_now st_m SA + 3 * Dt + tcp_CLOSE_DELAY < net_now st' SA ->
  (exists h1 h2 sth,
     evsH = h1 ++ h2 /\ net_run st h1 = Ok sth /\ net_run sth h2 = Ok stD /\
     (forall z, s_state (net_sock sth z) = Established) /\
     net_now sth SA <= Z.max (net_now st SA) (cA st) + max_rto_us + 2 * Dt) /\
  (exists p1 p2 sta,
     evsQ = p1 ++ p2 /\ net_run stD p1 = Ok sta /\ net_run sta p2 = Ok stQ /\
     una_off (net_get sta SA) = l_len (ep_written (net_get stD SA)) /\
     read_off (net_get sta SB) = l_len (ep_written (net_get stD SA))) /\
  (exists pre2 post st_c,
     evs2 = pre2 ++ post /\ net_run st_m (NClose SB :: pre2) = Ok st_c /\ net_run st_c post = Ok st' /\
     both_closed st_c).
Proof.
  intros pre st evsH evsQ evs1 evs2 stD stQ stC st_m st' Hstart Hcfg HDt2 HDack Hpre Hscp Hsa Hsb Hfr Hrel HappH HrH HwinH HlH HEQ HrQ Hsz HqQ Hn HlQ
         HsC HE1 Hr1 Hp1 Hr2 Hp2.
  pose proof Hrel as ((HDt & HDa & Ho0 & Hfall) & Hoall).
  set (rest := evsQ ++ NClose SA :: evs1 ++ NClose SB :: evs2) in *.
  assert (HsmQ : NV.small stQ).
  { split; [specialize (Hsz SA) | specialize (Hsz SB)]; cbn [net_get] in Hsz; change (2 ^ 30) with 1073741824 in Hsz; lia. }
  pose proof (net_run_mono _ _ _ HrQ) as HmQ.
  assert (HsmD : NV.small stD) by exact (NV.small_mono _ _ HmQ HsmQ).
  destruct (fair_run_app Dt Da evsH rest _ st stD HrH Hfall) as (HfH & _).
  assert (HfsH : fair_schedule Dt Da st evsH) by (split; [exact HDt|]; split; [exact HDa|]; split; assumption).
  destruct (server_established_after_ack_loss Dt Da Dack ca cb st0 Hstart pre st evsH stD Hpre Hscp Hsa Hsb Hfr HfsH HappH HrH HsmD HwinH HlH)
    as (h1 & h2 & fa1 & sth & EH & Hh1 & Hh2 & HG & Hre & Hoh & _ & _ & Hch).
  split; [exists h1, h2, sth; split; [exact EH|]; split; [exact Hh1|]; split; [exact Hh2|]; split; [exact (rg_est _ _ _ HG) | exact Hch]|].
  rewrite EH, <- app_assoc in Hfall, Hoall.
  destruct (fair_run_app Dt Da h1 (h2 ++ rest) _ st sth Hh1 Hfall) as (Hf1 & Hf2).
  destruct (once_run_app Dt Da h1 (h2 ++ rest) _ st sth Hh1 Hoall) as (_ & Ho2).
  rewrite EH in HappH. apply Forall_app in HappH. destruct HappH as (_ & Happ2).
  exact (quiesce_close_from_reg' Dt Da Dack n _ sth h2 evsQ evs1 evs2 stD stQ stC st_m st' HDt HDa HDt2 HDack
           Hre HG Hoh (capst_run _ _ _ Hh1 (capst_run _ _ _ Hpre (capst_init ca cb st0 (proj1 Hstart) Hcfg))) (dl_sync_run Dt Da h1 _ st sth (fa_init_sync Dt Da st) Hf1 Hh1)
           (dlb_run Dt Da h1 _ st sth HDt (dlb_init Dt Da st HDt) Hf1 Hh1) Hf2 Ho2 Happ2 Hh2 HEQ HrQ Hsz HqQ Hn HlQ HsC HE1 Hr1 Hp1 Hr2 Hp2).
Qed.

(* FROM net_init: the theorem of Proofs/TcpProgressCl13.v with the reduced premises; in the data part only the
   handshake premise syn_win_open is left *)
Theorem transfer_quiesce_close_from_net_init' Dt Da Dack ca cb st0 (n : nat) :
  forall evsD evsQ evs1 evs2 stD stQ stC st_m st',
  start_ok Dack ca cb st0 -> cfg_rx ca cb -> 2 * Dt < tcp_RTTE_MIN_RTO * 1000 -> 0 <= Dack ->
  reliable_schedule Dt Da st0 (evsD ++ evsQ ++ NClose SA :: evs1 ++ NClose SB :: evs2) ->
  Forall (app_ev SA) evsD -> net_run st0 evsD = Ok stD ->
  run_all syn_win_open st0 evsD -> net_now st0 SA + 3 * Dt < net_now stD SA ->
  Forall qev evsQ -> net_run stD evsQ = Ok stQ ->
  (forall z, l_len (ep_written (net_get stQ z)) < 2 ^ 30) ->
  run_all qregime' stD evsQ ->
  (l_len (ep_written (net_get stD SA)) - una_off (net_get stD SA)) +
  (l_len (ep_written (net_get stD SA)) - read_off (net_get stD SB)) <= Z.of_nat n ->
  net_now stD SA + Z.of_nat n * Wz Dt Da + 2 * Dt + Dack < net_now stQ SA ->
  net_step stQ (NClose SA) = Ok stC ->
  Forall (cl_ev SA false) evs1 -> net_run stC evs1 = Ok st_m -> net_now stQ SA + 2 * Dt < net_now st_m SA ->
  net_run st_m (NClose SB :: evs2) = Ok st' ->
  net_now st_m SA + 3 * Dt + tcp_CLOSE_DELAY < net_now st' SA ->
  (exists p1 p2 sta,
     evsQ = p1 ++ p2 /\ net_run stD p1 = Ok sta /\ net_run sta p2 = Ok stQ /\
     una_off (net_get sta SA) = l_len (ep_written (net_get stD SA)) /\
     read_off (net_get sta SB) = l_len (ep_written (net_get stD SA))) /\
  (exists pre post st_c,
     evs2 = pre ++ post /\ net_run st_m (NClose SB :: pre) = Ok st_c /\ net_run st_c post = Ok st' /\
     both_closed st_c).
Proof.
  intros evsD evsQ evs1 evs2 stD stQ stC st_m st' Hstart Hcfg HDt2 HDack Hrel HappD HrD Hsyn HlD HEQ HrQ Hsz HqQ Hn HlQ
         HsC HE1 Hr1 Hp1 Hr2 Hp2.
  pose proof Hrel as ((HDt & HDa & Ho0 & Hfall) & Hoall).
  set (rest := evsQ ++ NClose SA :: evs1 ++ NClose SB :: evs2) in *.
  assert (HsmQ : NV.small stQ).
  { split; [specialize (Hsz SA) | specialize (Hsz SB)]; cbn [net_get] in Hsz; change (2 ^ 30) with 1073741824 in Hsz; lia. }
  pose proof (net_run_mono _ _ _ HrQ) as HmQ.
  assert (HsmD : NV.small stD) by exact (NV.small_mono _ _ HmQ HsmQ).
  destruct (reliable_prefix Dt Da st0 evsD rest stD HrD Hrel) as (HrelD & _ & _).
  destruct (handshake_completes_rel Dt Da Dack ca cb st0 Hstart evsD stD HrelD HappD HrD HsmD Hsyn HlD)
    as (h1 & h2 & fa1 & sth & EH & Hh1 & Hh2 & HG & Hre & Hoh & _).
  rewrite EH, <- app_assoc in Hfall, Hoall.
  destruct (fair_run_app Dt Da h1 (h2 ++ rest) _ st0 sth Hh1 Hfall) as (Hf1 & Hf2).
  destruct (once_run_app Dt Da h1 (h2 ++ rest) _ st0 sth Hh1 Hoall) as (_ & Ho2).
  rewrite EH in HappD. apply Forall_app in HappD. destruct HappD as (_ & Happ2).
  exact (quiesce_close_from_reg' Dt Da Dack n _ sth h2 evsQ evs1 evs2 stD stQ stC st_m st' HDt HDa HDt2 HDack
           Hre HG Hoh (capst_run _ _ _ Hh1 (capst_init ca cb st0 (proj1 Hstart) Hcfg))
           (dl_sync_run Dt Da h1 _ st0 sth (fa_init_sync Dt Da st0) Hf1 Hh1)
           (dlb_run Dt Da h1 _ st0 sth HDt (dlb_init Dt Da st0 HDt) Hf1 Hh1) Hf2 Ho2 Happ2 Hh2 HEQ HrQ Hsz HqQ Hn HlQ HsC HE1 Hr1 Hp1 Hr2 Hp2).
Qed.
