(* C04, layer 4: `dispatch` on the receive view: every segment it builds carries
   ACK = RCV.NXT (or no ACK in SYN-SENT) and a window that fits the free space of the receive
   ring; after a successful emit remote_last_ack / remote_last_win record exactly that. *)
From SV Require Import Lib.Base Gen.Consts.
From SV Require Import Model.Seq32 Model.Assembler Model.TcpBuf Model.TcpTypes Model.Tcp.
From SV Require Import Proofs.AssemblerProofs Proofs.TcpRecvBase Proofs.TcpRecvWindow
  Proofs.TcpRecvPayload Proofs.TcpRecvInv Proofs.TcpRecvProcess Proofs.TcpRecvStep.

(* same view, state unchanged or CLOSED *)
Definition frame_c (s' s : socket) : Prop :=
  rxv_eq s' s /\ (s_state s' = s_state s \/ s_state s' = Closed).

Lemma frame_c_of_frame s' s : frame s' s -> frame_c s' s.
Proof. intros (H1 & H2). split; [exact H1 | left; exact H2]. Qed.

Lemma frame_c_trans a b c : frame_c a b -> frame_c b c -> frame_c a c.
Proof.
  intros (H1 & H2) (H3 & H4). split; [eapply rxv_eq_trans; eassumption|].
  destruct H2 as [H2|H2]; [|right; exact H2]. destruct H4 as [H4|H4]; [left | right]; congruence.
Qed.

Ltac frame_c_solve :=
  unfold frame_c, rxv_eq; rproj; split; [repeat split; reflexivity | first [left; reflexivity | right; reflexivity]].

Lemma dispatch_timers_frame cx s s1 t :
  tcp_dispatch_timers cx s = Ok (s1, t) -> frame_c s1 s.
Proof.
  unfold tcp_dispatch_timers. intros H.
  set (s0 := if is_some (s_remote_last_ts s) then s else upd_remote_last_ts s (Some (cx_now cx))) in *.
  assert (H0 : frame s0 s) by (unfold s0; destruct (is_some (s_remote_last_ts s)); frame_solve).
  apply (frame_c_trans _ s0); [|apply frame_c_of_frame; exact H0]. clear H0. clearbody s0.
  destruct (tcp_timed_out s0 (cx_now cx)); [inversion H; subst; frame_c_solve|].
  destruct (timer_should_retransmit (s_timer s0) (cx_now cx)); [|inversion H; subst; frame_c_solve].
  apply obind_ok_inv in H. destruct H as (fl & _ & H).
  destruct (s_timer s0); cbv beta iota zeta in H; rproj; des_all H; inversion H; subst; frame_c_solve.
Qed.

Lemma dispatch_decide_frame cx s s2 go t :
  tcp_dispatch_decide cx s = Ok (s2, go, t) -> frame_c s2 s.
Proof.
  unfold tcp_dispatch_decide. intros H.
  apply obind_ok_inv in H. destruct H as (stt & _ & H).
  destruct stt; [inversion H; subst; frame_c_solve|].
  destruct (tcp_ack_to_transmit s && tcp_delayed_ack_expired s (cx_now cx)); [inversion H; subst; frame_c_solve|].
  apply obind_ok_inv in H. destruct H as (wtu & _ & H).
  des_all H; inversion H; subst; frame_c_solve.
Qed.

(* what dispatch puts into the ACK and window fields *)
Definition repr_rx_ok (s : socket) (repr : tcp_repr) : Prop :=
  (r_control repr = CSyn /\ r_window_len repr = u16_try (rb_window (s_rx_buffer s)) /\
   ((r_ack_number repr = None /\ s_state s = SynSent) \/
    (r_ack_number repr = Some (tcp_window_start s) /\ (s_state s = SynReceived \/ s_state s = FinWait1)))) \/
  (r_control repr <> CSyn /\ r_ack_number repr = Some (tcp_window_start s) /\
   r_window_len repr = tcp_scaled_window s /\
   (r_control repr = CRst \/ (s_state s <> Closed /\ s_state s <> SynSent /\ s_state s <> Listen))).

Lemma build_data_spec cx s repr s' orepr zwp tg :
  tcp_dispatch_build_data cx s repr = Ok (s', orepr, zwp, tg) ->
  r_control repr = CNone ->
  frame s' s /\ exists repr', orepr = Some repr' /\ r_control repr' <> CSyn /\ r_control repr' <> CRst /\
                              r_ack_number repr' = r_ack_number repr /\
                              r_window_len repr' = r_window_len repr.
Proof.
  unfold tcp_dispatch_build_data. intros H Hc.
  apply obind_ok_inv in H. destruct H as (ol & _ & H).
  apply obind_ok_inv in H. destruct H as (lm & _ & H).
  apply obind_ok_inv in H. destruct H as (((((s1 & r1) & off) & zw) & tg1) & H1 & H).
  assert (Hr1 : frame s1 s /\ r_control r1 = CNone /\ r_ack_number r1 = r_ack_number repr /\
                r_window_len r1 = r_window_len repr).
  { destruct (s_pending_fast_retransmit s && (s_remote_win_len s >? 0)).
    - inversion H1; subst. split; [frame_solve|].
      cbn [r_control r_ack_number r_window_len repr_set_payload repr_set_seq]. tauto.
    - apply obind_ok_inv in H1. destruct H1 as (wl & _ & H1).
      apply obind_ok_inv in H1. destruct H1 as (sz & _ & H1).
      apply obind_ok_inv in H1. destruct H1 as (fo & _ & H1).
      inversion H1; subst. split; [apply frame_refl|].
      cbn [r_control r_ack_number r_window_len repr_set_payload repr_set_seq]. tauto. }
  destruct Hr1 as (Hf & Hc1 & Ha1 & Hw1).
  inversion H; subst s' orepr zwp tg; clear H. split; [exact Hf|].
  eexists. split; [reflexivity|].
  destruct (off + l_len (r_payload r1) =? rb_len (s_tx_buffer s1));
    [destruct (s_state s1); try destruct (match r_payload r1 with [] => false | _ => true end)|];
    cbn [r_control r_ack_number r_window_len repr_set_control]; rewrite ?Hc1;
    (split; [discriminate|]); (split; [discriminate|]); split; assumption.
Qed.

Lemma dispatch_build_spec cx s t s' orepr zwp ka tg :
  tcp_dispatch_build cx s t = Ok (s', orepr, zwp, ka, tg) ->
  frame s' s /\ match orepr with Some repr => repr_rx_ok s repr | None => True end.
Proof.
  unfold tcp_dispatch_build. intros H.
  apply obind_ok_inv in H. destruct H as ((((s1 & or1) & zw1) & tg1) & H1 & H).
  set (ts := if s_tsval_generator s then Some (cx_tsval cx, s_last_remote_tsval s) else None) in *.
  set (repr0 := mkRepr (tu_local_port t) (tu_remote_port t) CNone (s_remote_last_seq s)
                       (Some (tcp_window_start s)) (tcp_scaled_window s) None None false no_sack ts []) in *.
  assert (Hb : frame s1 s /\ match or1 with Some repr => repr_rx_ok s repr | None => True end).
  { unfold repr_rx_ok.
    destruct (s_state s) eqn:Est.
    all: try (inversion H1; subst; split; [apply frame_refl|]; try exact I;
              cbn [tcp_syn_repr repr_set_control r_control r_ack_number r_window_len repr0]).
    all: try (right; split; [discriminate|]; split; [reflexivity|]; split; [reflexivity|];
              first [left; reflexivity | right; repeat split; discriminate]).
    all: try (left; split; [reflexivity|]; split; [reflexivity|];
              first [left; split; reflexivity | right; split; [reflexivity|]; first [left; reflexivity | right; reflexivity]]).
    all: try (destruct (s_syn_unacked_in_fin_wait s);
              [inversion H1; subst; split; [apply frame_refl|];
               cbn [tcp_syn_repr r_control r_ack_number r_window_len repr0];
               left; split; [reflexivity|]; split; [reflexivity|];
               right; split; [reflexivity|]; right; reflexivity|]).
    all: destruct (build_data_spec _ _ _ _ _ _ _ H1 eq_refl) as (Hf & repr' & -> & Hn1 & Hn2 & Ha & Hw);
         split; [exact Hf|]; right; split; [exact Hn1|]; split; [exact Ha|]; split; [exact Hw|];
         right; repeat split; discriminate. }
  destruct Hb as (Hf1 & Hr1).
  destruct or1 as [repr1|]; [|inversion H; subst; split; [exact Hf1 | exact I]].
  match type of H with
  | context [if ?c then repr_set_seq ?a ?b else _] => set (repr2 := if c then repr_set_seq a b else repr1) in *
  end.
  assert (H2 : r_control repr2 = r_control repr1 /\ r_ack_number repr2 = r_ack_number repr1 /\
               r_window_len repr2 = r_window_len repr1).
  { unfold repr2. match goal with |- context [if ?c then _ else _] => destruct c end;
      cbn [r_control r_ack_number r_window_len repr_set_seq]; tauto. }
  clearbody repr2.
  match type of H with
  | context [if ?c then repr_set_payload ?a ?b else _] =>
      set (ka0 := c) in *; set (repr3 := if ka0 then repr_set_payload a b else repr2) in *
  end.
  assert (H3 : r_control repr3 = r_control repr2 /\ r_ack_number repr3 = r_ack_number repr2 /\
               r_window_len repr3 = r_window_len repr2).
  { unfold repr3. destruct ka0; cbn [r_control r_ack_number r_window_len repr_set_seq repr_set_payload]; tauto. }
  clearbody repr3.
  apply obind_ok_inv in H. destruct H as (repr4 & H4 & H).
  assert (H4' : r_control repr4 = r_control repr3 /\ r_ack_number repr4 = r_ack_number repr3 /\
                r_window_len repr4 = r_window_len repr3).
  { destruct (control_eqb (r_control repr3) CSyn).
    - apply obind_ok_inv in H4. destruct H4 as (m & _ & H4). inversion H4; subst.
      cbn [r_control r_ack_number r_window_len]. tauto.
    - inversion H4; subst. tauto. }
  inversion H; subst s' orepr zwp ka tg; clear H. split; [exact Hf1|].
  destruct H2 as (A1 & A2 & A3). destruct H3 as (B1 & B2 & B3). destruct H4' as (C1 & C2 & C3).
  unfold repr_rx_ok in *. rewrite C1, C2, C3, B1, B2, B3, A1, A2, A3. exact Hr1.
Qed.

(* the effect of a successful emit on remote_last_ack / remote_last_win *)
Definition rxv_rest (s' s : socket) : Prop :=
  s_assembler s' = s_assembler s /\ s_rx_buffer s' = s_rx_buffer s /\
  s_rx_fin_received s' = s_rx_fin_received s /\ s_remote_seq_no s' = s_remote_seq_no s /\
  s_remote_win_shift s' = s_remote_win_shift s.

Lemma dispatch_finish_spec cx s repr zwp ka s' tg :
  tcp_dispatch_finish cx s repr zwp ka = (s', tg) ->
  rxv_rest s' s /\ s_state s' = s_state s /\
  (rxv_eq s' s \/
   (s_remote_last_ack s' = r_ack_number repr /\
    s_remote_last_win s' = if control_eqb (r_control repr) CSyn
                           then shr (r_window_len repr) (s_remote_win_shift s)
                           else r_window_len repr)).
Proof.
  unfold tcp_dispatch_finish. intros H.
  destruct zwp; [inversion H; subst; unfold rxv_rest, rxv_eq; rproj; repeat split; try reflexivity; left; repeat split; reflexivity|].
  destruct ka; [inversion H; subst; unfold rxv_rest, rxv_eq; rproj; repeat split; try reflexivity; left; repeat split; reflexivity|].
  des_all H; inversion H; subst; unfold rxv_rest; rproj;
    (split; [repeat split; reflexivity|]); (split; [reflexivity|]); right; split; reflexivity.
Qed.

(* --- dispatch as a whole --- *)
Definition packet_rx_ok (s : socket) (p : packet) : Prop :=
  r_control (snd p) = CRst \/ r_ack_number (snd p) = None \/
  (r_ack_number (snd p) = Some (tcp_window_start s) /\
   s_state s <> Closed /\ s_state s <> SynSent /\ s_state s <> Listen).

(* dispatch resets the socket when the interface no longer has the socket's local address *)
Definition dispatch_resets (cx : ctx) (s : socket) : bool :=
  match s_tuple s with
  | Some t => negb (tu_local_addr t =? cx_addr cx)
  | None => false
  end.

Lemma dispatch_spec cx s emit_ok s' res tags :
  rb_wf (s_rx_buffer s) -> 0 <= s_remote_win_shift s ->
  tcp_dispatch cx s emit_ok = Ok (s', res, tags) ->
  (dispatch_resets cx s = true /\ s' = tcp_reset s /\ res = DNothing) \/
  (dispatch_resets cx s = false /\ rxv_rest s' s /\ (s_state s' = s_state s \/ s_state s' = Closed) /\
   ((s_remote_last_ack s' = s_remote_last_ack s /\ s_remote_last_win s' = s_remote_last_win s) \/
    ((exists p, res = DSent p) /\
     ((s_remote_last_ack s' = None /\ s_state s = SynSent) \/
      s_remote_last_ack s' = Some (tcp_window_start s)) /\
     0 <= s_remote_last_win s' /\
     shl (s_remote_last_win s') (s_remote_win_shift s) <= rb_window (s_rx_buffer s))) /\
   match res with
   | DSent p | DEmitFailed p => packet_rx_ok s p
   | DNothing => True
   end).
Proof.
  intros Hwf Hsh H. unfold tcp_dispatch in H. unfold dispatch_resets.
  destruct (s_tuple s) as [t|].
  2:{ inversion H; subst. right. split; [reflexivity|]. split; [unfold rxv_rest; repeat split; reflexivity|].
      split; [left; reflexivity|]. split; [left; split; reflexivity | exact I]. }
  destruct (negb (tu_local_addr t =? cx_addr cx)); [inversion H; subst; left; repeat split; reflexivity|].
  right. split; [reflexivity|].
  apply obind_ok_inv in H. destruct H as ((s1 & t1) & H1 & H).
  apply obind_ok_inv in H. destruct H as (((s2 & go) & t2) & H2 & H).
  pose proof (dispatch_timers_frame _ _ _ _ H1) as F1.
  pose proof (dispatch_decide_frame _ _ _ _ _ H2) as F2.
  pose proof (frame_c_trans _ _ _ F2 F1) as F12. clear F1 F2 H1 H2.
  assert (Hno : forall s3, frame s3 s2 ->
            rxv_rest s3 s /\ (s_state s3 = s_state s \/ s_state s3 = Closed) /\
            (s_remote_last_ack s3 = s_remote_last_ack s /\ s_remote_last_win s3 = s_remote_last_win s)).
  { intros s3 F3. pose proof (frame_c_trans _ _ _ (frame_c_of_frame _ _ F3) F12) as ((E1 & E2 & E3 & E4 & E5 & E6 & E7) & Est).
    split; [unfold rxv_rest; tauto|]. split; [exact Est|]. split; assumption. }
  destruct (negb go).
  { inversion H; subst. destruct (Hno s' (frame_refl _)) as (A & B & C).
    split; [exact A|]. split; [exact B|]. split; [left; exact C | exact I]. }
  apply obind_ok_inv in H. destruct H as (((((s3 & orepr) & zwp) & ka) & t3) & H3 & H).
  destruct (dispatch_build_spec _ _ _ _ _ _ _ _ H3) as (F3 & Hrepr).
  destruct orepr as [repr|].
  2:{ inversion H; subst. destruct (Hno s' F3) as (A & B & C).
      split; [exact A|]. split; [exact B|]. split; [left; exact C | exact I]. }
  (* facts about the segment, transported to s *)
  destruct F12 as ((G1 & G2 & G3 & G4 & G5 & G6 & G7) & Gst).
  assert (Hws2 : tcp_window_start s2 = tcp_window_start s)
    by (unfold tcp_window_start; rewrite G2, G4; reflexivity).
  assert (Hst2 : forall st, s_state s2 = st -> st <> Closed -> s_state s = st).
  { intros st E Hn. destruct Gst as [Gst|Gst]; congruence. }
  assert (Hpk : forall ipr, packet_rx_ok s (with_payload_len ipr repr)).
  { intros ipr. unfold packet_rx_ok, with_payload_len. cbn [snd].
    destruct Hrepr as [(Hc & _ & [(Ha & _) | (Ha & Hk)]) | (Hc & Ha & _ & Hk)].
    - right. left. exact Ha.
    - right. right. rewrite Ha, Hws2. split; [reflexivity|].
      destruct Hk as [Hk|Hk]; rewrite (Hst2 _ Hk ltac:(discriminate)); repeat split; discriminate.
    - destruct Hk as [Hk | (K1 & K2 & K3)]; [left; exact Hk|].
      right. right. rewrite Ha, Hws2. split; [reflexivity|].
      destruct Gst as [Gst|Gst]; [rewrite <- Gst; repeat split; assumption | congruence]. }
  set (p := with_payload_len _ repr) in *.
  destruct (negb emit_ok).
  { inversion H; subst. destruct (Hno s' F3) as (A & B & C).
    split; [exact A|]. split; [exact B|]. split; [left; exact C | apply Hpk]. }
  destruct (tcp_dispatch_finish cx s3 repr zwp ka) as (s4, t4) eqn:H4.
  inversion H; subst s' res tags; clear H.
  destruct (dispatch_finish_spec _ _ _ _ _ _ _ H4) as ((R1 & R2 & R3 & R4 & R5) & Rst & Rla).
  destruct (Hno s3 F3) as ((N1 & N2 & N3 & N4 & N5) & Nst & (N6 & N7)).
  split; [unfold rxv_rest; repeat split; congruence|].
  split; [rewrite Rst; exact Nst|]. split; [|apply Hpk].
  destruct Rla as [(_ & _ & _ & _ & Q5 & Q6 & _) | (Q1 & Q2)]; [left; split; congruence|].
  right. split; [exists p; reflexivity|].
  destruct F3 as ((T1 & T2 & T3 & T4 & T5 & T6 & T7) & Tst).
  assert (Hwin : 0 <= rb_window (s_rx_buffer s)) by (destruct Hwf as (? & _); unfold rb_window; lia).
  assert (Hrx2 : s_rx_buffer s2 = s_rx_buffer s) by exact G2.
  assert (Hshift3 : s_remote_win_shift s3 = s_remote_win_shift s) by congruence.
  destruct Hrepr as [(Hc & Hw & Hak) | (Hc & Ha & Hw & Hk)].
  - rewrite Hc in Q2. cbn [control_eqb] in Q2. rewrite Hw, Hrx2, Hshift3 in Q2.
    pose proof (u16_try_bounds _ Hwin) as Hu.
    split; [|split].
    + destruct Hak as [(Ha & Hs) | (Ha & _)]; rewrite Q1, Ha.
      * left. split; [reflexivity|]. apply Hst2; [exact Hs | discriminate].
      * right. rewrite Hws2. reflexivity.
    + rewrite Q2. apply shr_nonneg; lia.
    + rewrite Q2. eapply Z.le_trans; [apply shl_shr_le; lia | lia].
  - assert (Hcs : control_eqb (r_control repr) CSyn = false) by (destruct (r_control repr); try reflexivity; congruence).
    rewrite Hcs, Hw in Q2.
    assert (Hsw : tcp_scaled_window s2 = tcp_scaled_window s) by (unfold tcp_scaled_window; rewrite G2, G7; reflexivity).
    destruct (scaled_window_ok s Hwf Hsh) as (Hs0 & Hs1).
    split; [right; rewrite Q1, Ha, Hws2; reflexivity|]. rewrite Q2, Hsw. split; assumption.
Qed.
