(* Lemmas about the DNS wire model (Model/WireDns.v): checked slices, termination of the
   compression-pointer chase (the measure is explicit), absence of panics. *)
From SV Require Import Lib.Base Gen.Consts Gen.WireFields Model.WireDns.

Local Ltac inv H := inversion H; subst; clear H.

(* ---------- slices ---------- *)
Lemma wdns_len_nonneg : forall b, 0 <= wdns_len b.
Proof. intros; unfold wdns_len; lia. Qed.

Lemma wdns_len_app : forall a b, wdns_len (a ++ b) = wdns_len a + wdns_len b.
Proof. intros; unfold wdns_len; rewrite app_length; lia. Qed.

Lemma wdns_len_cons : forall x b, wdns_len (x :: b) = 1 + wdns_len b.
Proof. intros; unfold wdns_len; simpl length; lia. Qed.

Lemma wdns_slice_inv : forall b lo hi s,
  wdns_slice b lo hi = Ok s ->
  0 <= lo /\ lo <= hi /\ hi <= wdns_len b /\
  s = firstn (Z.to_nat (hi - lo)) (skipn (Z.to_nat lo) b) /\ wdns_len s = hi - lo.
Proof.
  unfold wdns_slice; intros b lo hi s H.
  destruct ((0 <=? lo) && (lo <=? hi) && (hi <=? wdns_len b)) eqn:E; [|discriminate].
  inv H. apply andb_true_iff in E; destruct E as [E E3]. apply andb_true_iff in E; destruct E as [E1 E2].
  repeat split; try lia.
  unfold wdns_len in *. rewrite firstn_length, skipn_length. lia.
Qed.

Lemma wdns_slice_ok : forall b lo hi,
  0 <= lo -> lo <= hi -> hi <= wdns_len b -> exists s, wdns_slice b lo hi = Ok s.
Proof.
  intros; unfold wdns_slice.
  replace ((0 <=? lo) && (lo <=? hi) && (hi <=? wdns_len b)) with true; eauto.
  symmetry; repeat (apply andb_true_iff; split); lia.
Qed.

Lemma wdns_slice_not_err : forall b lo hi e, wdns_slice b lo hi <> Err e.
Proof. unfold wdns_slice; intros; case_if; discriminate. Qed.

Lemma wdns_slice_cases : forall b lo hi,
  (exists s, wdns_slice b lo hi = Ok s) \/ wdns_slice b lo hi = Panic.
Proof. unfold wdns_slice; intros; case_if; eauto. Qed.

(* a slice is a piece of the original: b = pre ++ s ++ post *)
Lemma wdns_slice_split : forall b lo hi s,
  wdns_slice b lo hi = Ok s ->
  exists pre post, b = pre ++ s ++ post /\ wdns_len pre = lo /\ wdns_len post = wdns_len b - hi.
Proof.
  intros b lo hi s H. apply wdns_slice_inv in H. destruct H as (H0 & H1 & H2 & Hs & Hl).
  exists (firstn (Z.to_nat lo) b), (skipn (Z.to_nat (hi - lo)) (skipn (Z.to_nat lo) b)).
  split; [|split].
  - subst s. rewrite firstn_skipn. rewrite firstn_skipn. reflexivity.
  - unfold wdns_len in *. rewrite firstn_length. lia.
  - unfold wdns_len in *. rewrite !skipn_length. lia.
Qed.

Lemma wdns_slice_to_end : forall b lo s,
  wdns_slice b lo (wdns_len b) = Ok s -> exists pre, b = pre ++ s /\ wdns_len pre = lo.
Proof.
  intros b lo s H. destruct (wdns_slice_split _ _ _ _ H) as (pre & post & Hb & Hp & Hq).
  assert (post = []) by (destruct post; [reflexivity | rewrite wdns_len_cons in Hq; pose proof (wdns_len_nonneg post); lia]).
  subst post. rewrite app_nil_r in Hb. eauto.
Qed.

Lemma wdns_slice_from_0 : forall b hi s,
  wdns_slice b 0 hi = Ok s -> exists post, b = s ++ post.
Proof.
  intros b hi s H. destruct (wdns_slice_split _ _ _ _ H) as (pre & post & Hb & Hp & Hq).
  assert (pre = []) by (destruct pre; [reflexivity | rewrite wdns_len_cons in Hp; pose proof (wdns_len_nonneg pre); lia]).
  subst pre. eauto.
Qed.

Lemma Forall_slice : forall (P : Z -> Prop) b lo hi s,
  Forall P b -> wdns_slice b lo hi = Ok s -> Forall P s.
Proof.
  intros P b lo hi s Hb H. destruct (wdns_slice_split _ _ _ _ H) as (pre & post & E & _).
  subst b. apply Forall_app in Hb. destruct Hb as [_ Hb]. apply Forall_app in Hb. tauto.
Qed.

Lemma wdns_get_to_inv : forall b n s,
  wdns_get_to b n = Some s -> 0 <= n <= wdns_len b /\ s = firstn (Z.to_nat n) b /\ wdns_len s = n.
Proof.
  unfold wdns_get_to; intros b n s H. case_if_in H; [|discriminate]. inv H.
  apply andb_true_iff in Heqb0. destruct Heqb0. repeat split; try lia.
  unfold wdns_len in *. rewrite firstn_length. lia.
Qed.

Lemma Forall_get_to : forall (P : Z -> Prop) b n s,
  Forall P b -> wdns_get_to b n = Some s -> Forall P s.
Proof.
  intros P b n s Hb H. apply wdns_get_to_inv in H. destruct H as (_ & -> & _).
  rewrite <- (firstn_skipn (Z.to_nat n) b) in Hb. apply Forall_app in Hb. tauto.
Qed.

(* ---------- Packet::parse_name: termination and absence of panics ---------- *)
Fixpoint nm_no_fuel (n : wdns_names) : Prop :=
  match n with
  | NmLabel _ r => nm_no_fuel r
  | NmFuel => False
  | _ => True
  end.

Fixpoint nm_no_panic (n : wdns_names) : Prop :=
  match n with
  | NmLabel _ r => nm_no_panic r
  | NmPanic => False
  | _ => True
  end.

(* labels are byte strings of at most 63 octets *)
Fixpoint nm_labels_ok (n : wdns_names) : Prop :=
  match n with
  | NmLabel l r => Forall wdns_is_byte l /\ 1 <= wdns_len l <= 63 /\ nm_labels_ok r
  | _ => True
  end.

(* The measure: 2 * |packet| + |bytes|.  It strictly decreases at every iteration of the loop:
   a label consumes at least one byte of [bytes]; a pointer jump replaces [packet] by its
   prefix of length ptr < |packet| and [bytes] by packet[ptr..], so the new measure is
   |packet| + ptr <= 2 * |packet| - 1.  A change that keeps [packet] unchanged at a jump
   (allowing self / forward-again pointers) breaks the second inequality. *)
Lemma wdns_parse_name_go_no_fuel : forall fuel packet bytes,
  (2 * length packet + length bytes < fuel)%nat ->
  nm_no_fuel (wdns_parse_name_go fuel packet bytes).
Proof.
  induction fuel as [|fuel IH]; intros packet bytes Hm; [lia|].
  cbn [wdns_parse_name_go].
  destruct bytes as [|x bytes1]; [exact I|].
  destruct (x =? 0); [exact I|].
  destruct (Z.land x 192 =? 0).
  - (* label *)
    destruct (wdns_len (x :: bytes1) <? 1 + Z.land x 63) eqn:El; [exact I|].
    destruct (wdns_slice (x :: bytes1) 1 (1 + Z.land x 63)) as [label| |] eqn:E1; try exact I.
    destruct (wdns_slice (x :: bytes1) (1 + Z.land x 63) (wdns_len (x :: bytes1))) as [rest| |] eqn:E2; try exact I.
    cbn [nm_no_fuel]. apply IH.
    apply wdns_slice_inv in E1. apply wdns_slice_inv in E2.
    destruct E1 as (_ & A1 & _). destruct E2 as (_ & _ & _ & _ & L2).
    unfold wdns_len in *. simpl length in *. lia.
  - destruct (Z.land x 192 =? 192); [|exact I].
    destruct (wdns_len (x :: bytes1) <? 2); [exact I|].
    destruct bytes1 as [|y bytes2]; [exact I|].
    set (ptr := Z.lor (Z.shiftl (Z.land x 63) 8) y).
    destruct (wdns_len packet <=? ptr) eqn:Ep; [exact I|].
    destruct (wdns_slice packet ptr (wdns_len packet)) as [bytes'| |] eqn:E1; try exact I.
    destruct (wdns_slice packet 0 ptr) as [packet'| |] eqn:E2; try exact I.
    apply IH.
    apply wdns_slice_inv in E1. apply wdns_slice_inv in E2.
    destruct E1 as (P0 & _ & _ & _ & L1). destruct E2 as (_ & _ & _ & _ & L2).
    unfold wdns_len in *. simpl length in *. lia.
Qed.

Lemma wdns_parse_name_terminates : forall packet bytes, nm_no_fuel (wdns_parse_name packet bytes).
Proof.
  intros. unfold wdns_parse_name, wdns_parse_name_fuel. apply wdns_parse_name_go_no_fuel. lia.
Qed.

(* finite-domain facts about the label-length octet, checked by computation over 0..255 *)
Lemma forall_range_lift : forall (P : Z -> bool) n,
  forallb P (map Z.of_nat (seq 0 n)) = true -> forall x, 0 <= x < Z.of_nat n -> P x = true.
Proof.
  intros P n H x Hx. rewrite forallb_forall in H. apply H.
  apply in_map_iff. exists (Z.to_nat x). split; [lia|]. apply in_seq. lia.
Qed.

Lemma byte_label_octet : forall x, 0 <= x < 256 -> Z.land x 192 = 0 -> Z.land x 63 = x.
Proof.
  intros x Hx H.
  pose proof (forall_range_lift (fun x => negb (Z.land x 192 =? 0) || (Z.land x 63 =? x)) 256) as L.
  specialize (L eq_refl x Hx). apply orb_true_iff in L. destruct L as [L|L].
  - rewrite H in L. discriminate.
  - apply Z.eqb_eq in L. exact L.
Qed.

(* a length octet 1..63 is read back as a label of that length *)
Lemma label_octet_1_63 : forall n, 1 <= n <= 63 -> (n =? 0) = false /\ Z.land n 192 = 0 /\ Z.land n 63 = n.
Proof.
  intros n Hn.
  pose proof (forall_range_lift (fun n => (n =? 0) || ((Z.land n 192 =? 0) && (Z.land n 63 =? n))) 64) as L.
  specialize (L eq_refl n ltac:(lia)). apply orb_true_iff in L. destruct L as [L|L].
  - apply Z.eqb_eq in L. lia.
  - apply andb_true_iff in L. destruct L as [L1 L2]. apply Z.eqb_eq in L1. apply Z.eqb_eq in L2.
    repeat split; auto. apply Z.eqb_neq. lia.
Qed.

Lemma land63_range : forall x, 0 <= Z.land x 63 <= 63.
Proof.
  intros. split.
  - apply Z.land_nonneg. right. lia.
  - assert (Z.land x 63 = x mod 64) by (change 63 with (Z.ones 6); rewrite Z.land_ones by lia; reflexivity).
    rewrite H. assert (0 <= x mod 64 < 64) by (apply Z.mod_pos_bound; lia). lia.
Qed.

Lemma wdns_ptr_nonneg : forall x y, 0 <= y -> 0 <= Z.lor (Z.shiftl (Z.land x 63) 8) y.
Proof.
  intros. apply Z.lor_nonneg. split; [|assumption].
  apply Z.shiftl_nonneg. apply (land63_range x).
Qed.

Lemma wdns_parse_name_go_ok : forall fuel packet bytes,
  Forall wdns_is_byte packet -> Forall wdns_is_byte bytes ->
  nm_no_panic (wdns_parse_name_go fuel packet bytes) /\
  nm_labels_ok (wdns_parse_name_go fuel packet bytes).
Proof.
  induction fuel as [|fuel IH]; intros packet bytes Hp Hb; [split; exact I|].
  cbn [wdns_parse_name_go].
  destruct bytes as [|x bytes1]; [split; exact I|].
  destruct (x =? 0) eqn:Ex0; [split; exact I|].
  pose proof (land63_range x) as R.
  destruct (Z.land x 192 =? 0) eqn:Ex192.
  - destruct (wdns_len (x :: bytes1) <? 1 + Z.land x 63) eqn:El; [split; exact I|].
    assert (Hx63 : Z.land x 63 = x).
    { apply byte_label_octet; [inv Hb; assumption | apply Z.eqb_eq; assumption]. }
    apply Z.eqb_neq in Ex0.
    destruct (wdns_slice_ok (x :: bytes1) 1 (1 + Z.land x 63)) as [label E1]; try lia.
    destruct (wdns_slice_ok (x :: bytes1) (1 + Z.land x 63) (wdns_len (x :: bytes1))) as [rest E2]; try lia.
    rewrite E1, E2. cbn [nm_no_panic nm_labels_ok].
    pose proof (Forall_slice _ _ _ _ _ Hb E1). pose proof (Forall_slice _ _ _ _ _ Hb E2).
    destruct (IH packet rest Hp H0) as [A B].
    apply wdns_slice_inv in E1. destruct E1 as (_ & _ & _ & _ & L1).
    repeat split; auto; lia.
  - destruct (Z.land x 192 =? 192); [|split; exact I].
    destruct (wdns_len (x :: bytes1) <? 2) eqn:E2b; [split; exact I|].
    destruct bytes1 as [|y bytes2]; [vm_compute in E2b; discriminate|].
    set (ptr := Z.lor (Z.shiftl (Z.land x 63) 8) y).
    destruct (wdns_len packet <=? ptr) eqn:Ep; [split; exact I|].
    assert (0 <= ptr).
    { apply wdns_ptr_nonneg. inv Hb. inv H2. unfold wdns_is_byte in *. lia. }
    destruct (wdns_slice_ok packet ptr (wdns_len packet)) as [bytes' E1]; try lia.
    destruct (wdns_slice_ok packet 0 ptr) as [packet' E2]; try lia.
    rewrite E1, E2.
    apply IH; [exact (Forall_slice _ _ _ _ _ Hp E2) | exact (Forall_slice _ _ _ _ _ Hp E1)].
Qed.

Lemma wdns_parse_name_no_panic : forall packet bytes,
  Forall wdns_is_byte packet -> Forall wdns_is_byte bytes ->
  nm_no_panic (wdns_parse_name packet bytes).
Proof. intros. apply wdns_parse_name_go_ok; assumption. Qed.

Lemma wdns_parse_name_labels_ok : forall packet bytes,
  Forall wdns_is_byte packet -> Forall wdns_is_byte bytes ->
  nm_labels_ok (wdns_parse_name packet bytes).
Proof. intros. apply wdns_parse_name_go_ok; assumption. Qed.

(* ---------- parse_name_part ---------- *)
Lemma wdns_parse_name_part_go_spec : forall fuel bytes,
  (length bytes < fuel)%nat ->
  match wdns_parse_name_part_go fuel bytes with
  | Ok (rest, _) => exists pre, bytes = pre ++ rest /\ pre <> []
  | Err e => e = wdns_E
  | Panic => False
  end.
Proof.
  induction fuel as [|fuel IH]; intros bytes Hm; [lia|].
  cbn [wdns_parse_name_part_go].
  destruct bytes as [|x bytes1]; [reflexivity|].
  destruct (x =? 0).
  { exists [x]. split; [reflexivity|discriminate]. }
  pose proof (land63_range x) as R.
  destruct (Z.land x 192 =? 0).
  - destruct (wdns_get_to bytes1 (Z.land x 63)) as [label|] eqn:G; [|reflexivity].
    apply wdns_get_to_inv in G. destruct G as (G1 & _ & _).
    destruct (wdns_slice_ok bytes1 (Z.land x 63) (wdns_len bytes1)) as [rest E]; try lia.
    rewrite E. cbn [obind].
    destruct (wdns_slice_to_end _ _ _ E) as (pre & Hb & Hl).
    assert (Hlen : (length rest < fuel)%nat).
    { subst bytes1. simpl in Hm. rewrite app_length in Hm. lia. }
    specialize (IH rest Hlen).
    destruct (wdns_parse_name_part_go fuel rest) as [[rest' o]| |]; auto.
    destruct IH as (pre2 & -> & _). exists (x :: pre ++ pre2). split; [|discriminate].
    subst bytes1. simpl. rewrite <- app_assoc. reflexivity.
  - destruct (Z.land x 192 =? 192); [|reflexivity].
    destruct bytes1 as [|y bytes2]; [reflexivity|].
    exists [x; y]. split; [reflexivity|discriminate].
Qed.

Lemma wdns_parse_name_part_spec : forall bytes,
  match wdns_parse_name_part bytes with
  | Ok (rest, _) => exists pre, bytes = pre ++ rest /\ pre <> []
  | Err e => e = wdns_E
  | Panic => False
  end.
Proof. intros. apply wdns_parse_name_part_go_spec. lia. Qed.

(* ---------- Question::parse / Record::parse ---------- *)
Lemma wdns_be16_ok : forall s, 2 <= wdns_len s -> exists v, wdns_be16 s = Ok v.
Proof.
  intros [|a [|b s]] H; unfold wdns_len in H; simpl in H; try lia. simpl. eauto.
Qed.

Lemma wdns_be32_ok : forall s, 4 <= wdns_len s -> exists v, wdns_be32 s = Ok v.
Proof.
  intros [|a [|b [|c [|d s]]]] H; unfold wdns_len in H; simpl in H; try lia. simpl. eauto.
Qed.

Ltac slice_ok b lo hi s E :=
  let H := fresh in
  destruct (wdns_slice_ok b lo hi) as [s E]; [try lia; try (pose proof (wdns_len_nonneg b); lia)..|];
  rewrite E; cbn [obind].

Ltac be16_ok s v E :=
  let L := fresh "L" in
  match goal with
  | Es : wdns_slice _ _ _ = Ok s |- _ =>
    pose proof (wdns_slice_inv _ _ _ _ Es) as L; destruct L as (_ & _ & _ & _ & L)
  end;
  destruct (wdns_be16_ok s) as [v E]; [lia|]; rewrite E; cbn [obind].

(* Question::parse: no panic, no out-of-fuel; on success the name is a non-empty prefix of the
   buffer and the rest a suffix *)
Lemma wdns_question_parse_spec : forall buffer,
  match wdns_question_parse buffer with
  | Ok (rest, q) => exists mid, buffer = q_name q ++ mid ++ rest /\ q_name q <> [] /\ wdns_len mid = 4
  | Err e => e = wdns_E
  | Panic => False
  end.
Proof.
  intros. unfold wdns_question_parse.
  pose proof (wdns_parse_name_part_spec buffer) as P.
  destruct (wdns_parse_name_part buffer) as [[rest o]| |]; cbn [obind]; auto.
  destruct P as (pre & Hb & Hne).
  assert (Hl : wdns_len buffer = wdns_len pre + wdns_len rest) by (subst; apply wdns_len_app).
  pose proof (wdns_len_nonneg pre). pose proof (wdns_len_nonneg rest).
  slice_ok buffer 0 (wdns_len buffer - wdns_len rest) name En.
  destruct (wdns_len rest <? 4) eqn:E4; [reflexivity|].
  slice_ok rest 0 2 s0 E0. be16_ok s0 ty Et.
  slice_ok rest 2 4 s1 E1. be16_ok s1 cl Ec.
  slice_ok rest 4 (wdns_len rest) rest' Er.
  destruct (negb (cl =? wdns_CLASS_IN)); [reflexivity|].
  cbn [q_name].
  destruct (wdns_slice_to_end _ _ _ Er) as (mid & Hm & Hml).
  exists mid. split; [|split]; auto.
  - apply wdns_slice_inv in En. destruct En as (_ & _ & _ & -> & _).
    subst buffer rest. replace (wdns_len (pre ++ mid ++ rest') - wdns_len (mid ++ rest') - 0) with (wdns_len pre)
      by (rewrite !wdns_len_app; lia).
    simpl skipn. unfold wdns_len. rewrite Nat2Z.id. rewrite firstn_app, firstn_all, Nat.sub_diag. simpl.
    rewrite app_nil_r. reflexivity.
  - apply wdns_slice_inv in En. destruct En as (_ & _ & _ & _ & Ln).
    intro; subst name. unfold wdns_len in Ln at 1. simpl in Ln.
    destruct pre; [congruence|]. rewrite wdns_len_cons in Hl. pose proof (wdns_len_nonneg pre). lia.
Qed.

Lemma wdns_rdata_parse_not_panic : forall t d, wdns_rdata_parse t d <> Panic.
Proof. unfold wdns_rdata_parse; intros; repeat case_if; discriminate. Qed.

Lemma wdns_rdata_parse_err : forall t d e, wdns_rdata_parse t d = Err e -> e = wdns_E.
Proof. unfold wdns_rdata_parse; intros t d e; repeat case_if; congruence. Qed.

(* Record::parse *)
Lemma wdns_record_parse_spec : forall buffer,
  match wdns_record_parse buffer with
  | Ok (rest, r) => exists mid, buffer = r_name r ++ mid ++ rest /\ r_name r <> []
  | Err e => e = wdns_E
  | Panic => False
  end.
Proof.
  intros. unfold wdns_record_parse.
  pose proof (wdns_parse_name_part_spec buffer) as P.
  destruct (wdns_parse_name_part buffer) as [[rest o]| |]; cbn [obind]; auto.
  destruct P as (pre & Hb & Hne).
  assert (Hl : wdns_len buffer = wdns_len pre + wdns_len rest) by (subst; apply wdns_len_app).
  pose proof (wdns_len_nonneg pre). pose proof (wdns_len_nonneg rest).
  slice_ok buffer 0 (wdns_len buffer - wdns_len rest) name En.
  destruct (wdns_len rest <? 10) eqn:E4; [reflexivity|].
  slice_ok rest 0 2 s0 E0. be16_ok s0 ty Et.
  slice_ok rest 2 4 s1 E1. be16_ok s1 cl Ec.
  slice_ok rest 4 8 s2 E2.
  pose proof (wdns_slice_inv _ _ _ _ E2) as L2. destruct L2 as (_ & _ & _ & _ & L2).
  destruct (wdns_be32_ok s2) as [ttl Ettl]; [lia|]. rewrite Ettl. cbn [obind].
  slice_ok rest 8 10 s3 E3. be16_ok s3 len El.
  slice_ok rest 10 (wdns_len rest) rest1 Er.
  destruct (negb (cl =? wdns_CLASS_IN)); [reflexivity|].
  destruct (wdns_get_to rest1 len) as [data|] eqn:G; [|reflexivity].
  pose proof (wdns_get_to_inv _ _ _ G) as (G1 & Gd & Gl).
  slice_ok rest1 len (wdns_len rest1) rest2 Er2.
  destruct (wdns_rdata_parse ty data) as [d|e|] eqn:Ed; cbn [obind].
  - cbn [r_name].
    destruct (wdns_slice_to_end _ _ _ Er) as (mid1 & Hm1 & _).
    destruct (wdns_slice_to_end _ _ _ Er2) as (mid2 & Hm2 & _).
    exists (mid1 ++ mid2). split.
    + apply wdns_slice_inv in En. destruct En as (_ & _ & _ & -> & _).
      subst buffer rest rest1.
      replace (wdns_len (pre ++ mid1 ++ mid2 ++ rest2) - wdns_len (mid1 ++ mid2 ++ rest2) - 0) with (wdns_len pre)
        by (rewrite !wdns_len_app; lia).
      simpl skipn. unfold wdns_len. rewrite Nat2Z.id. rewrite firstn_app, firstn_all, Nat.sub_diag. simpl.
      rewrite app_nil_r. rewrite <- app_assoc. reflexivity.
    + apply wdns_slice_inv in En. destruct En as (_ & _ & _ & _ & Ln).
      intro; subst name. unfold wdns_len in Ln at 1. simpl in Ln.
      destruct pre; [congruence|]. rewrite wdns_len_cons in Hl. pose proof (wdns_len_nonneg pre). lia.
  - eapply wdns_rdata_parse_err; eauto.
  - exfalso. eapply wdns_rdata_parse_not_panic; eauto.
Qed.

(* rdata of a parsed record is a piece of the buffer *)
Lemma wdns_record_parse_bytes : forall buffer rest r,
  Forall wdns_is_byte buffer -> wdns_record_parse buffer = Ok (rest, r) ->
  Forall wdns_is_byte rest /\ Forall wdns_is_byte (r_name r) /\
  match r_data r with
  | RdA a => Forall wdns_is_byte a /\ wdns_len a = 4
  | RdAaaa a => Forall wdns_is_byte a /\ wdns_len a = 16
  | RdCname n => Forall wdns_is_byte n
  | RdOther _ d => Forall wdns_is_byte d
  end.
Proof.
  intros buffer rest r Hb H.
  pose proof (wdns_record_parse_spec buffer) as S. rewrite H in S. destruct S as (mid & E & _).
  assert (Hr : Forall wdns_is_byte rest /\ Forall wdns_is_byte (r_name r)).
  { rewrite E in Hb. apply Forall_app in Hb. destruct Hb as [A Hb]. apply Forall_app in Hb. tauto. }
  destruct Hr as [Hr Hn]. split; [|split]; auto.
  unfold wdns_record_parse in H.
  destruct (wdns_parse_name_part buffer) as [[rest0 o]| |] eqn:P; cbn [obind] in H; try discriminate.
  pose proof (wdns_parse_name_part_spec buffer) as S. rewrite P in S. destruct S as (pre & Eb & _).
  assert (Hr0 : Forall wdns_is_byte rest0) by (rewrite Eb in Hb; apply Forall_app in Hb; tauto).
  destruct (wdns_slice buffer 0 (wdns_len buffer - wdns_len rest0)) as [name| |]; cbn [obind] in H; try discriminate.
  destruct (wdns_len rest0 <? 10); try discriminate.
  destruct (wdns_slice rest0 0 2) as [s0| |]; cbn [obind] in H; try discriminate.
  destruct (wdns_be16 s0) as [ty| |]; cbn [obind] in H; try discriminate.
  destruct (wdns_slice rest0 2 4) as [s1| |]; cbn [obind] in H; try discriminate.
  destruct (wdns_be16 s1) as [cl| |]; cbn [obind] in H; try discriminate.
  destruct (wdns_slice rest0 4 8) as [s2| |]; cbn [obind] in H; try discriminate.
  destruct (wdns_be32 s2) as [ttl| |]; cbn [obind] in H; try discriminate.
  destruct (wdns_slice rest0 8 10) as [s3| |]; cbn [obind] in H; try discriminate.
  destruct (wdns_be16 s3) as [len| |]; cbn [obind] in H; try discriminate.
  destruct (wdns_slice rest0 10 (wdns_len rest0)) as [rest1| |] eqn:Er1; cbn [obind] in H; try discriminate.
  destruct (negb (cl =? wdns_CLASS_IN)); try discriminate.
  destruct (wdns_get_to rest1 len) as [data|] eqn:G; try discriminate.
  destruct (wdns_slice rest1 len (wdns_len rest1)) as [rest2| |]; cbn [obind] in H; try discriminate.
  destruct (wdns_rdata_parse ty data) as [d| |] eqn:Ed; cbn [obind] in H; try discriminate.
  inv H. cbn [r_data].
  assert (Hd : Forall wdns_is_byte data).
  { eapply Forall_get_to; [|eassumption]. eapply Forall_slice; [|eassumption]. assumption. }
  unfold wdns_rdata_parse in Ed.
  repeat case_if_in Ed; inv Ed; auto; split; auto; lia.
Qed.

Lemma wdns_question_parse_bytes : forall buffer rest q,
  Forall wdns_is_byte buffer -> wdns_question_parse buffer = Ok (rest, q) ->
  Forall wdns_is_byte rest /\ Forall wdns_is_byte (q_name q).
Proof.
  intros buffer rest q Hb H.
  pose proof (wdns_question_parse_spec buffer) as S. rewrite H in S. destruct S as (mid & E & _).
  rewrite E in Hb. apply Forall_app in Hb. destruct Hb as [A Hb]. apply Forall_app in Hb. tauto.
Qed.

(* ---------- header accessors after check_len ---------- *)
Lemma wdns_check_len_ok : forall buf, wdns_check_len buf = Ok tt -> wdns_f_HEADER_END <= wdns_len buf.
Proof. unfold wdns_check_len; intros buf H; case_if_in H; [discriminate|lia]. Qed.

Lemma wdns_check_len_not_panic : forall buf, wdns_check_len buf <> Panic.
Proof. unfold wdns_check_len; intros; case_if; discriminate. Qed.

Lemma wdns_field16_ok : forall buf lo hi,
  0 <= lo -> lo + 2 <= hi -> hi <= wdns_len buf -> exists v, wdns_field16 buf (lo, hi) = Ok v.
Proof.
  intros. unfold wdns_field16. cbn [fst snd].
  destruct (wdns_slice_ok buf lo hi) as [s E]; try lia. rewrite E. cbn [obind].
  apply wdns_slice_inv in E. destruct E as (_ & _ & _ & _ & L).
  apply wdns_be16_ok. lia.
Qed.

Lemma wdns_header_accessors_ok : forall buf,
  wdns_f_HEADER_END <= wdns_len buf ->
  (exists v, wdns_transaction_id buf = Ok v) /\ (exists v, wdns_flags buf = Ok v) /\
  (exists v, wdns_opcode buf = Ok v) /\ (exists v, wdns_rcode buf = Ok v) /\
  (exists v, wdns_question_count buf = Ok v) /\ (exists v, wdns_answer_record_count buf = Ok v) /\
  (exists v, wdns_authority_record_count buf = Ok v) /\ (exists v, wdns_additional_record_count buf = Ok v) /\
  (exists p, wdns_payload buf = Ok p).
Proof.
  intros buf H. unfold wdns_f_HEADER_END in H.
  assert (F : forall lo hi, 0 <= lo -> lo + 2 <= hi -> hi <= 12 -> exists v, wdns_field16 buf (lo, hi) = Ok v)
    by (intros; apply wdns_field16_ok; lia).
  unfold wdns_transaction_id, wdns_flags, wdns_opcode, wdns_rcode, wdns_flags_raw, wdns_question_count,
    wdns_answer_record_count, wdns_authority_record_count, wdns_additional_record_count, wdns_payload,
    wdns_f_ID, wdns_f_FLAGS, wdns_f_QDCOUNT, wdns_f_ANCOUNT, wdns_f_NSCOUNT, wdns_f_ARCOUNT, wdns_f_HEADER_END.
  destruct (F 2 4) as [fl Efl]; try lia. rewrite Efl. cbn [obind].
  repeat split; eauto; try (apply F; lia).
  apply wdns_slice_ok; lia.
Qed.

(* ---------- Repr::emit: no panic into a buffer of buffer_len bytes ---------- *)
Lemma wdns_write_ok : forall buf off data,
  0 <= off -> off + wdns_len data <= wdns_len buf ->
  exists b', wdns_write buf off data = Ok b' /\ wdns_len b' = wdns_len buf.
Proof.
  intros. unfold wdns_write.
  replace ((0 <=? off) && (off + wdns_len data <=? wdns_len buf)) with true
    by (symmetry; apply andb_true_iff; split; lia).
  eexists; split; [reflexivity|].
  pose proof (wdns_len_nonneg data).
  unfold wdns_len in *. rewrite !app_length, firstn_length, skipn_length. lia.
Qed.

Lemma wdns_set_field16_ok : forall buf lo hi v,
  0 <= lo -> lo + 2 = hi -> hi <= wdns_len buf ->
  exists b', wdns_set_field16 buf (lo, hi) v = Ok b' /\ wdns_len b' = wdns_len buf.
Proof.
  intros. unfold wdns_set_field16. cbn [fst snd].
  destruct (wdns_slice_ok buf lo hi) as [s E]; try lia. rewrite E. cbn [obind].
  replace (hi - lo <? 2) with false by (symmetry; apply Z.ltb_ge; lia).
  apply wdns_write_ok; [lia|]. unfold wdns_u16_bytes, wdns_len in *. simpl length. lia.
Qed.

Lemma wdns_repr_emit_ok : forall r buf,
  wdns_len buf = wdns_repr_buffer_len r -> exists b, wdns_repr_emit r buf = Ok b.
Proof.
  intros r buf Hl. unfold wdns_repr_buffer_len, wdns_question_buffer_len, wdns_f_HEADER_END in Hl.
  pose proof (wdns_len_nonneg (q_name (rp_question r))) as Hn.
  unfold wdns_repr_emit, wdns_set_flags, wdns_set_opcode, wdns_flags_raw,
    wdns_f_ID, wdns_f_FLAGS, wdns_f_QDCOUNT, wdns_f_ANCOUNT, wdns_f_NSCOUNT, wdns_f_ARCOUNT.
  destruct (wdns_set_field16_ok buf 0 2 (rp_transaction_id r)) as (b1 & E1 & L1); try lia.
  rewrite E1. cbn [obind].
  destruct (wdns_set_field16_ok b1 2 4 0) as (b1' & E1' & L1'); try lia. rewrite E1'. cbn [obind].
  clear E1. rename b1 into b0. rename b1' into b1. assert (L1'' : wdns_len b1 = wdns_len buf) by lia. clear L1 L1'. rename L1'' into L1.
  destruct (wdns_field16_ok b1 2 4) as [o1 Eo1]; try lia. rewrite Eo1. cbn [obind].
  match goal with |- context [wdns_set_field16 b1 (2, 4) ?v] =>
    destruct (wdns_set_field16_ok b1 2 4 v) as (b2 & E2 & L2); try lia; rewrite E2; cbn [obind] end.
  destruct (wdns_field16_ok b2 2 4) as [o2 Eo2]; try lia. rewrite Eo2. cbn [obind].
  match goal with |- context [wdns_set_field16 b2 (2, 4) ?v] =>
    destruct (wdns_set_field16_ok b2 2 4 v) as (b3 & E3 & L3); try lia; rewrite E3; cbn [obind] end.
  destruct (wdns_set_field16_ok b3 4 6 1) as (b4 & E4 & L4); try lia. rewrite E4. cbn [obind].
  destruct (wdns_set_field16_ok b4 6 8 0) as (b5 & E5 & L5); try lia. rewrite E5. cbn [obind].
  destruct (wdns_set_field16_ok b5 8 10 0) as (b6 & E6 & L6); try lia. rewrite E6. cbn [obind].
  destruct (wdns_set_field16_ok b6 10 12 0) as (b7 & E7 & L7); try lia. rewrite E7. cbn [obind].
  unfold wdns_payload, wdns_f_HEADER_END.
  destruct (wdns_slice_ok b7 12 (wdns_len b7)) as [pl Ep]; try lia. rewrite Ep. cbn [obind].
  pose proof (wdns_slice_inv _ _ _ _ Ep) as (_ & _ & _ & _ & Lp).
  unfold wdns_question_emit.
  destruct (wdns_write_ok pl 0 (q_name (rp_question r))) as (p1 & Ep1 & Lp1); try lia. rewrite Ep1. cbn [obind].
  destruct (wdns_write_ok p1 (wdns_len (q_name (rp_question r))) (wdns_u16_bytes (q_type (rp_question r))))
    as (p2 & Ep2 & Lp2); try lia.
  { unfold wdns_u16_bytes, wdns_len at 2. simpl. lia. }
  rewrite Ep2. cbn [obind].
  destruct (wdns_write_ok p2 (wdns_len (q_name (rp_question r)) + 2) (wdns_u16_bytes wdns_CLASS_IN))
    as (p3 & Ep3 & Lp3); try lia.
  { unfold wdns_u16_bytes, wdns_len at 2. simpl. lia. }
  rewrite Ep3. cbn [obind].
  destruct (wdns_write_ok b7 12 p3) as (b8 & E8 & _); try lia.
  eauto.
Qed.

(* ---------- non-vacuity: a compressed response with a CNAME chain ---------- *)
(* header id=0x1234 flags=0x8180 qd=1 an=3; question "a.b" A;
   answers: a.b CNAME c.b (owner = pointer to 12, target = "c" + pointer to 14),
            c.b A 1.2.3.4 (owner = pointer to the CNAME target at 27),
            x.b A 9.9.9.9 (other name) *)
Definition wdns_example_response : list Z :=
  [18; 52; 129; 128; 0; 1; 0; 3; 0; 0; 0; 0;
   1; 97; 1; 98; 0; 0; 1; 0; 1;
   192; 12; 0; 5; 0; 1; 0; 0; 0; 60; 0; 4; 1; 99; 192; 14;
   192; 33; 0; 1; 0; 1; 0; 0; 0; 60; 0; 4; 1; 2; 3; 4;
   1; 120; 192; 14; 0; 1; 0; 1; 0; 0; 0; 60; 0; 4; 9; 9; 9; 9].

Lemma wdns_example_names :
  wdns_parse_name wdns_example_response [192; 33] = NmLabel [99] (NmLabel [98] NmEnd) /\
  wdns_parse_name wdns_example_response [192; 12] = NmLabel [97] (NmLabel [98] NmEnd) /\
  (* a self pointer and a two-pointer loop are errors, not loops *)
  wdns_parse_name [192; 0] [192; 0] = NmErr /\
  wdns_parse_name [192; 2; 192; 0] [192; 2; 192; 0] = NmErr /\
  (* a forward pointer is followed once *)
  wdns_parse_name [192; 2; 1; 97; 0] [192; 2; 1; 97; 0] = NmLabel [97] NmEnd.
Proof. vm_compute. repeat split; reflexivity. Qed.
