(* Lemmas about Model/WireUdp.v (properties C06, C07). *)
From SV Require Import Lib.Base Gen.WireFields Model.WireBase Model.WireUdp Proofs.WireBaseProofs.

Section Checksum.
Variable sum_ok : list Z -> bool.
Variable sum_fill : list Z -> Z.
Variable is_v4 : bool.

Definition udp_hdr (r : udp_repr) (payload : list Z) (ck : Z) : list Z :=
  be_enc2 (udp_sport r) ++ be_enc2 (udp_dport r) ++ be_enc2 (udp_HEADER_LEN + blen payload) ++ be_enc2 ck.

(* the value stored in the checksum field *)
Definition udp_ck (tx : bool) (r : udp_repr) (payload : list Z) : Z :=
  if tx then
    let c := sum_fill (udp_hdr r payload 0 ++ payload) in if c =? 0 then 65535 else c
  else 0.

Definition udp_bytes (tx : bool) (r : udp_repr) (payload : list Z) : list Z :=
  udp_hdr r payload (udp_ck tx r payload) ++ payload.

(* link to C08: a filled-in checksum verifies, and is a u16 *)
Definition udp_cksum_link : Prop :=
  (forall d, 0 <= sum_fill d < 65536) /\
  (forall r payload, udp_wf r payload = true -> sum_ok (udp_bytes true r payload) = true).

Lemma udp_hdr_len r p ck : blen (udp_hdr r p ck) = 8.
Proof. reflexivity. Qed.

Lemma udp_bytes_len tx r p : blen (udp_bytes tx r p) = udp_buffer_len r p.
Proof. unfold udp_bytes. rewrite blen_app, udp_hdr_len. reflexivity. Qed.

Lemma udp_emit_spec tx r payload b : udp_wf r payload = true -> blen b = udp_buffer_len r payload ->
  udp_emit sum_fill tx r payload b = Ok (udp_bytes tx r payload).
Proof.
  intros Hwf Hb. unfold udp_wf in Hwf. bsplit. unfold udp_buffer_len in Hb.
  unfold udp_HEADER_LEN in *. zfold_in Hb. zfold_in H0.
  destruct r as [sp dp]; cbn [udp_sport udp_dport] in *.
  pose proof (blen_nonneg payload) as Hp.
  destruct (split_hdr b 8 ltac:(lia)) as (h & tl & -> & Hh & Htl).
  rewrite Hb in Htl. clear Hb. zfold_in Hh. cells Hh.
  unfold udp_emit, udp_set_src_port, udp_set_dst_port, udp_set_len, udp_len, udp_set_checksum,
    wb_put_u16, wb_get_u16, udp_HEADER_LEN. cbn [udp_sport udp_dport]. zfold.
  rewrite (Z.mod_small (8 + blen payload)) by lia.
  remember (8 + blen payload) as L eqn:HL.
  hstep. hstep. hstep. hstep.
  rewrite be_dec_cells2 by lia.
  rewrite wb_set_slice_tail by (autorewrite with blen; zfold; lia). cbn [obind].
  unfold udp_bytes, udp_hdr, udp_ck, udp_HEADER_LEN. cbn [udp_sport udp_dport]. zfold. rewrite <- HL.
  destruct tx.
  - unfold udp_fill_checksum, udp_set_checksum, udp_len, wb_put_u16, wb_get_u16. zfold.
    hstep. hstep.
    rewrite be_dec_cells2 by lia.
    rewrite wb_upto_app_all by (autorewrite with blen; zfold; lia). cbn [obind].
    hstep. subst L. reflexivity.
  - hstep. subst L. reflexivity.
Qed.

Lemma udp_emit_no_panic tx r payload b : udp_wf r payload = true ->
  blen b = udp_buffer_len r payload -> udp_emit sum_fill tx r payload b <> Panic.
Proof. intros; rewrite udp_emit_spec by assumption; discriminate. Qed.

Lemma udp_emit_ignores_old_bytes tx r payload b1 b2 : udp_wf r payload = true ->
  blen b1 = udp_buffer_len r payload -> blen b2 = udp_buffer_len r payload ->
  udp_emit sum_fill tx r payload b1 = udp_emit sum_fill tx r payload b2.
Proof. intros; rewrite !udp_emit_spec by assumption; reflexivity. Qed.

Lemma udp_ck_range tx r p : (forall d, 0 <= sum_fill d < 65536) -> 0 <= udp_ck tx r p < 65536.
Proof.
  intros Hr. unfold udp_ck. destruct tx; [|lia]. cbv zeta.
  specialize (Hr (udp_hdr r p 0 ++ p)). case_if; lia.
Qed.

(* reading back the emitted packet *)
Lemma udp_parse_bytes tx rx r payload : udp_cksum_link -> udp_wf r payload = true ->
  (rx = true -> tx = true \/ is_v4 = true) ->
  udp_parse sum_ok is_v4 rx (udp_bytes tx r payload) = Ok r /\
  udp_payload (udp_bytes tx r payload) = Ok payload.
Proof.
  intros (Hrange & Hlink) Hwf Hmode.
  assert (Hok : udp_ck tx r payload <> 0 -> sum_ok (udp_bytes tx r payload) = true).
  { destruct tx; [intros _; apply Hlink; assumption | unfold udp_ck; congruence]. }
  assert (Hz : rx = true -> udp_ck tx r payload = 0 -> is_v4 = true).
  { intros Hrx H0. destruct (Hmode Hrx) as [-> | ?]; [|assumption]. exfalso. revert H0. unfold udp_ck.
    cbv zeta. specialize (Hrange (udp_hdr r payload 0 ++ payload)). case_if; lia. }
  clear Hlink Hmode.
  pose proof (udp_ck_range tx r payload Hrange) as Hck.
  unfold udp_wf in Hwf. bsplit. unfold udp_HEADER_LEN in *. zfold_in H0.
  pose proof (blen_nonneg payload) as Hp.
  destruct r as [sp dp]; cbn [udp_sport udp_dport] in *.
  revert Hok Hck Hz. unfold udp_bytes, udp_hdr, udp_HEADER_LEN; cbn [udp_sport udp_dport]. zfold.
  generalize (udp_ck tx {| udp_sport := sp; udp_dport := dp |} payload). intros ck.
  remember (8 + blen payload) as L eqn:HL.
  unfold be_enc2. cbn [app].
  match goal with |- context [?a :: ?b :: ?c :: ?d :: ?e :: ?f :: ?g :: ?h :: payload] =>
    change (a :: b :: c :: d :: e :: f :: g :: h :: payload) with ([a; b; c; d; e; f; g; h] ++ payload) end.
  intros Hok Hck Hz.
  split.
  - unfold udp_parse, udp_check_len, udp_len, udp_dst_port, udp_src_port, udp_verify_checksum,
      udp_checksum, udp_len, wb_get_u16, udp_HEADER_LEN. zfold.
    autorewrite with blen. zfold. zbool.
    hstep. hstep. hstep. hstep.
    rewrite (be_dec_cells2 L), (be_dec_cells2 dp), (be_dec_cells2 sp), (be_dec_cells2 ck) by lia.
    rewrite <- HL. zbool. cbn [wb_guard obind].
    destruct rx; [|reflexivity].
    destruct (ck =? 0) eqn:Eck; cbn [obind].
    { bsplit. rewrite (Hz eq_refl Eck). reflexivity. }
    rewrite wb_upto_app_all by (autorewrite with blen; zfold; lia). cbn [obind].
    bsplit. rewrite (Hok Eck). reflexivity.
  - unfold udp_payload, udp_len, wb_get_u16. zfold.
    hstep. rewrite (be_dec_cells2 L) by lia.
    apply wb_sub_tail; autorewrite with blen; zfold; lia.
Qed.

Lemma udp_roundtrip tx rx r payload b : udp_cksum_link -> udp_wf r payload = true ->
  (rx = true -> tx = true \/ is_v4 = true) ->
  blen b = udp_buffer_len r payload ->
  exists bs, udp_emit sum_fill tx r payload b = Ok bs /\ blen bs = udp_buffer_len r payload /\
             udp_parse sum_ok is_v4 rx bs = Ok r /\ udp_payload bs = Ok payload.
Proof.
  intros Hl Hwf Hmode Hb. exists (udp_bytes tx r payload).
  split; [apply udp_emit_spec; assumption|]. split; [apply udp_bytes_len|].
  apply udp_parse_bytes; assumption.
Qed.

(* ---------- C07 ---------- *)

Lemma udp_get_u16_ok bs f : 0 <= fst f -> fst f + 2 <= snd f -> snd f <= blen bs ->
  bytes_ok bs = true -> exists v, wb_get_u16 bs f = Ok v /\ 0 <= v < 65536.
Proof.
  intros H1 H2 H3 Hb. unfold wb_get_u16, wb_get_be. rewrite wb_sub_ok by lia. cbn [obind].
  set (s := firstn _ _).
  assert (Hs : blen s = snd f - fst f) by (unfold s; rewrite blen_firstn; [lia | rewrite blen_skipn; lia]).
  assert (Hbs : bytes_ok s = true) by (apply bytes_ok_firstn, bytes_ok_skipn, Hb).
  rewrite Hs. zbool. eexists; split; [reflexivity|]. zfold.
  destruct s as [|a [|b' s']]; [unfold blen in Hs; cbn in Hs; lia | unfold blen in Hs; cbn in Hs; lia |].
  cbn [firstn]. cbn [bytes_ok forallb] in Hbs. bsplit. rewrite be_dec2. lia.
Qed.

Lemma udp_check_len_inv bs : bytes_ok bs = true -> udp_check_len bs = Ok tt ->
  exists l, udp_len bs = Ok l /\ 8 <= l <= blen bs /\ l < 65536.
Proof.
  intros Hb. unfold udp_check_len, udp_HEADER_LEN. zfold.
  destruct (blen bs <? 8) eqn:E; [discriminate|]. bsplit.
  destruct (udp_get_u16_ok bs wudp_f_LENGTH) as (l & Hl & Hr); try (zfold; lia); try assumption.
  unfold udp_len. rewrite Hl. cbn [obind].
  destruct ((blen bs <? l) || (l <? 8)) eqn:E2; [discriminate|].
  apply orb_false_elim in E2. destruct E2. bsplit. intros _. exists l. split; [reflexivity | lia].
Qed.

Lemma udp_accessors_safe bs : bytes_ok bs = true -> udp_check_len bs = Ok tt ->
  udp_src_port bs <> Panic /\ udp_dst_port bs <> Panic /\ udp_len bs <> Panic /\
  udp_checksum bs <> Panic /\ udp_payload bs <> Panic /\ udp_verify_checksum sum_ok is_v4 bs <> Panic.
Proof.
  intros Hb H. destruct (udp_check_len_inv bs Hb H) as (l & Hl & Hr & _).
  assert (G : forall f, 0 <= fst f -> fst f + 2 <= snd f -> snd f <= 8 -> wb_get_u16 bs f <> Panic).
  { intros f ? ? ?. destruct (udp_get_u16_ok bs f) as (v & -> & _); try lia; try assumption. discriminate. }
  unfold udp_src_port, udp_dst_port, udp_checksum, udp_payload, udp_verify_checksum, udp_checksum.
  rewrite Hl. cbn [obind].
  repeat split; try (apply G; zfold; lia); try discriminate.
  - apply wb_sub_nopanic; zfold; lia.
  - destruct (udp_get_u16_ok bs wudp_f_CHECKSUM) as (v & -> & _); try (zfold; lia); try assumption.
    cbn [obind]. case_if; [discriminate|]. unfold wb_upto. zbool. cbn [obind]. discriminate.
Qed.

Lemma udp_parse_total rx bs : bytes_ok bs = true -> udp_parse sum_ok is_v4 rx bs <> Panic.
Proof.
  intros Hb. unfold udp_parse.
  destruct (udp_check_len bs) as [[]| |] eqn:E; cbn [obind]; try discriminate.
  - destruct (udp_accessors_safe bs Hb E) as (A1 & A2 & A3 & A4 & A5 & A6). nopanic.
  - exfalso. revert E. unfold udp_check_len, udp_HEADER_LEN. zfold.
    destruct (blen bs <? 8) eqn:L; [discriminate|]. bsplit.
    destruct (udp_get_u16_ok bs wudp_f_LENGTH) as (l & Hl & _); try (zfold; lia); try assumption.
    unfold udp_len. rewrite Hl. cbn [obind]. case_if; discriminate.
Qed.

(* a parsed representation (together with the packet's payload) is well-formed *)
Lemma udp_parse_wf rx bs r p : bytes_ok bs = true -> udp_parse sum_ok is_v4 rx bs = Ok r ->
  udp_payload bs = Ok p -> udp_wf r p = true.
Proof.
  intros Hb H Hp. unfold udp_parse in H.
  destruct (udp_check_len bs) as [[]| |] eqn:E; cbn [obind] in H; try discriminate.
  destruct (udp_check_len_inv bs Hb E) as (l & Hl & Hr & Hr').
  destruct (udp_get_u16_ok bs wudp_f_DST_PORT) as (dp & Hdp & Rdp); try (zfold; lia); try assumption.
  destruct (udp_get_u16_ok bs wudp_f_SRC_PORT) as (sp & Hsp & Rsp); try (zfold; lia); try assumption.
  unfold udp_dst_port, udp_src_port in H. rewrite Hdp, Hsp in H. cbn [obind] in H.
  destruct (negb (dp =? 0)) eqn:Ndp; cbn [wb_guard obind] in H; [|discriminate].
  assert (H' : Ok (mkUdp sp dp) = Ok r).
  { destruct rx; cbn [obind] in H; [|exact H].
    destruct (udp_verify_checksum sum_ok is_v4 bs) as [[]| |]; cbn [obind] in H; try discriminate; [exact H|].
    destruct (udp_checksum bs); cbn [obind] in H; try discriminate.
    case_if_in H; cbn [obind] in H; [exact H | discriminate]. }
  injection H' as <-.
  unfold udp_payload in Hp. rewrite Hl in Hp. cbn [obind] in Hp.
  pose proof (wb_sub_bytes _ _ _ _ Hb Hp) as Hpb. apply wb_sub_inv in Hp.
  destruct Hp as (_ & _ & _ & Lp). zfold_in Lp.
  unfold udp_wf, udp_HEADER_LEN, is_u16; cbn [udp_sport udp_dport]. zfold.
  rewrite Ndp, Hpb. zbool. reflexivity.
Qed.

Lemma udp_reparse tx rx bs r p : udp_cksum_link -> bytes_ok bs = true ->
  (rx = true -> tx = true \/ is_v4 = true) ->
  udp_parse sum_ok is_v4 rx bs = Ok r -> udp_payload bs = Ok p ->
  udp_wf r p = true /\
  forall b, blen b = udp_buffer_len r p ->
    exists bs', udp_emit sum_fill tx r p b = Ok bs' /\
                udp_parse sum_ok is_v4 rx bs' = Ok r /\ udp_payload bs' = Ok p.
Proof.
  intros Hl Hb Hmode H Hp. pose proof (udp_parse_wf _ _ _ _ Hb H Hp) as Hwf. split; [assumption|].
  intros b Hlen. destruct (udp_roundtrip tx rx r p b Hl Hwf Hmode Hlen) as (bs' & He & _ & Hpr & Hpl). eauto.
Qed.

End Checksum.
