(* Lemmas about Model/WireIcmpv6.v (properties C06, C07). *)
From SV Require Import Lib.Base Gen.WireFields Gen.Consts Model.WireBase Model.WireIpv6 Model.WireIcmpv6.
From SV Require Import Proofs.WireBaseProofs Proofs.WireIpv6Proofs.

Section Checksum.
Variable sum_ok : list Z -> bool.
Variable sum_fill : list Z -> Z.

Definition icmpv6_type_code (r : icmpv6_repr) : Z * Z :=
  match r with
  | Icmp6DstUnreachable reason _ _ => (icmpv6_DST_UNREACHABLE, reason)
  | Icmp6PktTooBig _ _ _ => (icmpv6_PKT_TOO_BIG, 0)
  | Icmp6TimeExceeded reason _ _ => (icmpv6_TIME_EXCEEDED, reason)
  | Icmp6ParamProblem reason _ _ _ => (icmpv6_PARAM_PROBLEM, reason)
  | Icmp6EchoRequest _ _ _ => (icmpv6_ECHO_REQUEST, 0)
  | Icmp6EchoReply _ _ _ => (icmpv6_ECHO_REPLY, 0)
  end.

(* octets 4..8 and the rest of the message *)
Definition icmpv6_word (r : icmpv6_repr) : list Z :=
  match r with
  | Icmp6DstUnreachable _ _ _ | Icmp6TimeExceeded _ _ _ => be_enc4 0
  | Icmp6PktTooBig mtu _ _ => be_enc4 mtu
  | Icmp6ParamProblem _ ptr _ _ => be_enc4 ptr
  | Icmp6EchoRequest i s _ | Icmp6EchoReply i s _ => be_enc2 i ++ be_enc2 s
  end.
Definition icmpv6_rest (r : icmpv6_repr) : list Z :=
  match r with
  | Icmp6DstUnreachable _ h d | Icmp6PktTooBig _ h d | Icmp6TimeExceeded _ h d
  | Icmp6ParamProblem _ _ h d => ipv6_bytes h ++ d
  | Icmp6EchoRequest _ _ d | Icmp6EchoReply _ _ d => d
  end.

Definition icmpv6_with_ck (r : icmpv6_repr) (ck : Z) : list Z :=
  [fst (icmpv6_type_code r); snd (icmpv6_type_code r)] ++ be_enc2 ck ++ icmpv6_word r ++ icmpv6_rest r.

Definition icmpv6_ck (tx : bool) (r : icmpv6_repr) : Z :=
  if tx then sum_fill (icmpv6_with_ck r 0) else 0.

Definition icmpv6_bytes (tx : bool) (r : icmpv6_repr) : list Z := icmpv6_with_ck r (icmpv6_ck tx r).

Definition icmpv6_cksum_link : Prop :=
  (forall d, 0 <= sum_fill d < 65536) /\
  (forall r, icmpv6_wf r = true -> sum_ok (icmpv6_bytes true r) = true).

Lemma icmpv6_word_len r : blen (icmpv6_word r) = 4.
Proof. destruct r; reflexivity. Qed.

Lemma icmpv6_rest_len r : icmpv6_wf r = true -> 8 + blen (icmpv6_rest r) = icmpv6_buffer_len r.
Proof.
  intros Hwf. unfold icmpv6_wf, icmpv6_MAX_ERROR_DATA, icmpv6_MAX_ERROR_PACKET_LEN in Hwf.
  destruct r; cbn [icmpv6_rest icmpv6_buffer_len] in *; bsplit;
    try (rewrite blen_app, ipv6_bytes_len by assumption);
    unfold ipv6_buffer_len, icmpv6_MAX_ERROR_PACKET_LEN in *;
    repeat match goal with X : blen _ <= _ |- _ => zfold_in X end; zfold;
    pose proof (blen_nonneg data); lia.
Qed.

Lemma icmpv6_bytes_len tx r : icmpv6_wf r = true -> blen (icmpv6_bytes tx r) = icmpv6_buffer_len r.
Proof.
  intros Hwf. unfold icmpv6_bytes, icmpv6_with_ck. rewrite <- (icmpv6_rest_len r Hwf).
  rewrite !blen_app, icmpv6_word_len. unfold be_enc2. autorewrite with blen. lia.
Qed.

Lemma icmpv6_finish (tx : bool) (a b c0 c1 e0 e1 e2 e3 : Z) (rest : list Z) :
  (if tx then icmpv6_fill_checksum sum_fill ([a; b; c0; c1; e0; e1; e2; e3] ++ rest)
   else icmpv6_set_checksum ([a; b; c0; c1; e0; e1; e2; e3] ++ rest) 0) =
  Ok ([a; b] ++ be_enc2 (if tx then sum_fill ([a; b] ++ be_enc2 0 ++ [e0; e1; e2; e3] ++ rest) else 0) ++
      [e0; e1; e2; e3] ++ rest).
Proof.
  destruct tx.
  - unfold icmpv6_fill_checksum, icmpv6_set_checksum, wb_put_u16. zfold.
    hstep. zfold. hstep. reflexivity.
  - unfold icmpv6_set_checksum, wb_put_u16. zfold. hstep. reflexivity.
Qed.

(* emit_contained_packet on a buffer whose first 8 octets are a finished ICMPv6 error header *)
Lemma icmpv6_contained_spec ty b1 c0 c1 e0 e1 e2 e3 h d tl :
  (ty = 1 \/ ty = 2 \/ ty = 3 \/ ty = 4) -> ipv6_wf h = true ->
  blen d <= 1192 -> blen tl = 40 + blen d ->
  icmpv6_emit_contained h d ([ty; b1; c0; c1; e0; e1; e2; e3] ++ tl) =
  Ok ([ty; b1; c0; c1; e0; e1; e2; e3] ++ ipv6_bytes h ++ d).
Proof.
  intros Hty Hwf Hd Htl. pose proof (blen_nonneg d).
  unfold icmpv6_emit_contained, icmpv6_header_len, icmpv6_msg_type. zfold. hstep.
  assert (Hhl : icmpv6_header_len_of ty = 8) by (destruct Hty as [-> | [-> | [-> | ->]]]; reflexivity).
  rewrite Hhl.
  rewrite wb_on_from_tail by (autorewrite with blen; zfold; lia).
  destruct (split_hdr tl 40) as (h40 & t2 & -> & Hh40 & Ht2); [lia|].
  rewrite ipv6_emit_tail by (try assumption; unfold ipv6_buffer_len; zfold; unfold blen; lia).
  cbn [obind]. unfold icmpv6_MAX_ERROR_PACKET_LEN, wb_assert, ipv6_buffer_len. zfold. cbn [obind].
  rewrite Z.min_l by lia. rewrite wb_upto_all. cbn [obind].
  assert (Hd2 : blen d = blen t2) by lia.
  assert (Hb6 : blen (ipv6_bytes h) = 40) by (rewrite ipv6_bytes_len by assumption; reflexivity).
  rewrite wb_sub_tail by (rewrite ?Hb6; lia). cbn [obind].
  rewrite wb_set_slice_tail by (rewrite ?Hb6; lia). reflexivity.
Qed.

Lemma icmpv6_emit_spec tx r b : icmpv6_wf r = true -> blen b = icmpv6_buffer_len r ->
  icmpv6_emit sum_fill tx r b = Ok (icmpv6_bytes tx r).
Proof.
  intros Hwf Hb. pose proof (icmpv6_rest_len r Hwf) as Hrest. rewrite <- Hb in Hrest.
  pose proof (blen_nonneg (icmpv6_rest r)).
  destruct (split_hdr b 8) as (h & tl & -> & Hh & Htl); [lia|].
  zfold_in Hh. cells Hh.
  assert (Htl' : blen tl = blen (icmpv6_rest r)) by lia. clear Htl Hrest Hb.
  unfold icmpv6_bytes, icmpv6_ck, icmpv6_with_ck.
  unfold icmpv6_wf, icmpv6_MAX_ERROR_DATA, icmpv6_MAX_ERROR_PACKET_LEN in Hwf.
  destruct r as [reason hd d|mtu hd d|reason hd d|reason ptr hd d|i s d|i s d];
    cbn [icmpv6_word icmpv6_rest icmpv6_type_code fst snd] in *; bsplit;
    unfold icmpv6_emit, icmpv6_emit_echo, icmpv6_set_msg_code, icmpv6_set_msg_type,
      icmpv6_set_echo_ident, icmpv6_set_echo_seq_no, icmpv6_clear_reserved, icmpv6_set_pkt_too_big_mtu,
      icmpv6_set_param_problem_ptr, icmpv6_header_len, icmpv6_msg_type, wb_put_u16, wb_put_u32,
      icmpv6_DST_UNREACHABLE, icmpv6_PKT_TOO_BIG, icmpv6_TIME_EXCEEDED, icmpv6_PARAM_PROBLEM,
      icmpv6_ECHO_REQUEST, icmpv6_ECHO_REPLY, icmpv6_ROUTER_SOLICIT, icmpv6_NEIGHBOR_SOLICIT,
      icmpv6_NEIGHBOR_ADVERT, icmpv6_REDIRECT; zfold.
  1,3: (repeat hstep; zfold; cbn [orb obind];
        repeat match goal with X : blen _ <= _ |- _ => zfold_in X end;
        rewrite blen_app, ipv6_bytes_len in Htl' by assumption; unfold ipv6_buffer_len in Htl'; zfold_in Htl';
        rewrite icmpv6_contained_spec by (try assumption; try lia; tauto);
        cbn [obind]; rewrite icmpv6_finish; reflexivity).
  1,2: (repeat hstep; zfold; cbn [orb obind];
        repeat match goal with X : blen _ <= _ |- _ => zfold_in X end;
        rewrite blen_app, ipv6_bytes_len in Htl' by assumption; unfold ipv6_buffer_len in Htl'; zfold_in Htl';
        rewrite icmpv6_contained_spec by (try assumption; try lia; tauto);
        cbn [obind]; rewrite icmpv6_finish; reflexivity).
  all: (hstep; hstep; hstep; hstep; hstep; zfold; unfold icmpv6_header_len_of;
        unfold icmpv6_DST_UNREACHABLE, icmpv6_PKT_TOO_BIG, icmpv6_TIME_EXCEEDED, icmpv6_PARAM_PROBLEM,
          icmpv6_ECHO_REQUEST, icmpv6_ECHO_REPLY; zfold;
        rewrite wb_from_tail by (autorewrite with blen; zfold; lia); cbn [obind];
        rewrite Htl', Z.min_id; rewrite wb_upto_all; cbn [obind];
        rewrite wb_set_slice_tail by (autorewrite with blen; zfold; lia); cbn [obind];
        rewrite icmpv6_finish; reflexivity).
Qed.

Lemma icmpv6_emit_no_panic tx r b : icmpv6_wf r = true -> blen b = icmpv6_buffer_len r ->
  icmpv6_emit sum_fill tx r b <> Panic.
Proof. intros; rewrite icmpv6_emit_spec by assumption; discriminate. Qed.

Lemma icmpv6_emit_ignores_old_bytes tx r b1 b2 : icmpv6_wf r = true ->
  blen b1 = icmpv6_buffer_len r -> blen b2 = icmpv6_buffer_len r ->
  icmpv6_emit sum_fill tx r b1 = icmpv6_emit sum_fill tx r b2.
Proof. intros; rewrite !icmpv6_emit_spec by assumption; reflexivity. Qed.

Lemma icmpv6_ck_range tx r : (forall d, 0 <= sum_fill d < 65536) -> 0 <= icmpv6_ck tx r < 65536.
Proof. intros Hr. unfold icmpv6_ck. destruct tx; [apply Hr | lia]. Qed.

Lemma icmpv6_parse_bytes tx rx r : icmpv6_cksum_link -> icmpv6_wf r = true ->
  (rx = true -> tx = true) -> icmpv6_parse sum_ok rx (icmpv6_bytes tx r) = Ok r.
Proof.
  intros (Hrange & Hlink) Hwf Hmode.
  assert (Hok : rx = true -> sum_ok (icmpv6_bytes tx r) = true).
  { intros Hrx. rewrite (Hmode Hrx). apply Hlink; assumption. }
  pose proof (icmpv6_ck_range tx r Hrange) as Hck.
  pose proof (icmpv6_bytes_len tx r Hwf) as Hlen.
  pose proof (icmpv6_rest_len r Hwf) as Hrest. pose proof (blen_nonneg (icmpv6_rest r)).
  assert (Hg : wb_guard (negb (rx && negb (sum_ok (icmpv6_bytes tx r)))) = Ok tt).
  { destruct rx; [rewrite (Hok eq_refl)|]; reflexivity. }
  unfold icmpv6_parse, icmpv6_verify_checksum. rewrite Hg. clear Hg Hok Hlink Hmode.
  unfold icmpv6_check_len. rewrite Hlen, <- Hrest. clear Hlen Hrest.
  revert Hck. unfold icmpv6_bytes, icmpv6_with_ck. generalize (icmpv6_ck tx r). intros ck Hck.
  unfold icmpv6_wf in Hwf.
  destruct r as [reason hd d|mtu hd d|reason hd d|reason ptr hd d|i s d|i s d];
    cbn [icmpv6_word icmpv6_rest icmpv6_type_code fst snd] in *; bsplit;
    unfold icmpv6_packet_from_payload, icmpv6_payload, icmpv6_header_len, icmpv6_msg_type, icmpv6_msg_code,
      icmpv6_echo_ident, icmpv6_echo_seq_no, icmpv6_pkt_too_big_mtu, icmpv6_param_problem_ptr,
      wb_get_u16, wb_get_u32,
      icmpv6_DST_UNREACHABLE, icmpv6_PKT_TOO_BIG, icmpv6_TIME_EXCEEDED, icmpv6_PARAM_PROBLEM,
      icmpv6_ECHO_REQUEST, icmpv6_ECHO_REPLY;
    unfold be_enc2, be_enc4; cbn [app]; zfold.
  5,6: (refold_tail d; repeat hstep; zfold; zbool; cbn [andb orb obind];
        unfold icmpv6_is_known, icmpv6_header_len_of, icmpv6_DST_UNREACHABLE, icmpv6_PKT_TOO_BIG,
          icmpv6_TIME_EXCEEDED, icmpv6_PARAM_PROBLEM, icmpv6_ECHO_REQUEST, icmpv6_ECHO_REPLY; zfold;
        cbn [andb orb obind]; zbool; cbn [obind wb_guard];
        rewrite (be_dec_cells2 i), (be_dec_cells2 s) by lia;
        rewrite wb_from_tail by (autorewrite with blen; zfold; lia); reflexivity).
  all: match goal with |- context [ipv6_bytes ?hd ++ ?d] =>
    set (inner := ipv6_bytes hd ++ d);
    refold_tail inner; repeat hstep; zfold; zbool; cbn [andb orb obind];
    unfold icmpv6_is_known, icmpv6_header_len_of, icmpv6_DST_UNREACHABLE, icmpv6_PKT_TOO_BIG,
      icmpv6_TIME_EXCEEDED, icmpv6_PARAM_PROBLEM, icmpv6_ECHO_REQUEST, icmpv6_ECHO_REPLY; zfold;
    cbn [andb orb obind]; zbool; cbn [obind wb_guard];
    rewrite ?wb_from_tail by (autorewrite with blen; zfold; lia); cbn [obind];
    destruct (ipv6_bytes_accessors hd d) as (A1 & A2 & A3 & A4 & A5); [assumption|];
    fold inner in A1, A2, A3, A4, A5; rewrite A1, A2, A3, A4, A5;
    assert (Hi : blen inner = 40 + blen d)
      by (unfold inner; rewrite blen_app, ipv6_bytes_len by assumption; reflexivity);
    pose proof (blen_nonneg d);
    unfold wipv6_HEADER_LEN, ipv6_header_len; zfold; rewrite Hi; zbool; cbn [wb_guard obind];
    unfold inner; rewrite wb_from_tail by (rewrite ipv6_bytes_len by assumption; reflexivity);
    cbn [obind fst snd];
    rewrite ?be_dec_cells4 by lia;
    destruct hd as [hs hdst hn hpl hh]; cbn [ipv6_src ipv6_dst ipv6_nxt ipv6_payload_len ipv6_hop_limit] in *;
    reflexivity end.
Qed.

Lemma icmpv6_roundtrip tx rx r b : icmpv6_cksum_link -> icmpv6_wf r = true ->
  (rx = true -> tx = true) -> blen b = icmpv6_buffer_len r ->
  exists bs, icmpv6_emit sum_fill tx r b = Ok bs /\ blen bs = icmpv6_buffer_len r /\
             icmpv6_parse sum_ok rx bs = Ok r.
Proof.
  intros Hl Hwf Hmode Hb. exists (icmpv6_bytes tx r).
  split; [apply icmpv6_emit_spec; assumption|]. split; [apply icmpv6_bytes_len; assumption|].
  apply icmpv6_parse_bytes; assumption.
Qed.

(* ---------- C07 ---------- *)

Lemma icmpv6_header_len_of_range t : 4 <= icmpv6_header_len_of t <= 40.
Proof. unfold icmpv6_header_len_of. repeat case_if; zfold; lia. Qed.

Lemma icmpv6_check_len_inv bs : icmpv6_check_len bs = Ok tt ->
  exists t, icmpv6_msg_type bs = Ok t /\ icmpv6_is_known t = true /\
            8 <= blen bs /\ icmpv6_header_len_of t <= blen bs.
Proof.
  unfold icmpv6_check_len. destruct (blen bs <? 4) eqn:E; [discriminate|]. bsplit.
  unfold icmpv6_header_len, icmpv6_msg_type. zfold. rewrite wb_get_u8_ok by lia. cbn [obind]. zfold.
  set (t := nth 0%nat bs 0). destruct (icmpv6_is_known t) eqn:K; [|discriminate].
  case_if; [discriminate|]. apply orb_false_elim in Heqb. destruct Heqb. bsplit.
  intros _. exists t. repeat split; try reflexivity; try assumption; lia.
Qed.

(* every accessor of the RFC 4443 messages; [icmpv6_payload] for every message type *)
Lemma icmpv6_accessors_safe bs : icmpv6_check_len bs = Ok tt ->
  icmpv6_msg_type bs <> Panic /\ icmpv6_msg_code bs <> Panic /\ icmpv6_checksum bs <> Panic /\
  icmpv6_echo_ident bs <> Panic /\ icmpv6_echo_seq_no bs <> Panic /\
  icmpv6_pkt_too_big_mtu bs <> Panic /\ icmpv6_param_problem_ptr bs <> Panic /\
  icmpv6_header_len bs <> Panic /\ icmpv6_payload bs <> Panic.
Proof.
  intros H. destruct (icmpv6_check_len_inv bs H) as (t & Ht & _ & H8 & Hhl).
  pose proof (icmpv6_header_len_of_range t).
  unfold icmpv6_payload, icmpv6_header_len. rewrite Ht. cbn [obind].
  unfold icmpv6_msg_code, icmpv6_checksum, icmpv6_echo_ident, icmpv6_echo_seq_no, icmpv6_pkt_too_big_mtu,
    icmpv6_param_problem_ptr, wb_get_u16, wb_get_u32.
  repeat split; try discriminate;
    first [ apply wb_get_u8_nopanic; zfold; lia | apply wb_get_be_nopanic; zfold; lia
          | apply wb_from_nopanic; lia ].
Qed.

Lemma icmpv6_from_payload_total bs t : bytes_ok bs = true -> icmpv6_msg_type bs = Ok t ->
  icmpv6_header_len_of t <= blen bs -> icmpv6_packet_from_payload bs <> Panic.
Proof.
  intros Hb Ht Hhl. pose proof (icmpv6_header_len_of_range t).
  unfold icmpv6_packet_from_payload, icmpv6_payload, icmpv6_header_len. rewrite Ht. cbn [obind].
  rewrite wb_from_ok by lia. cbn [obind].
  set (p := skipn _ bs).
  assert (Hp : bytes_ok p = true) by (apply bytes_ok_skipn, Hb).
  unfold wipv6_HEADER_LEN. destruct (blen p >=? 40) eqn:E; cbn [wb_guard obind]; [|discriminate].
  bsplit.
  unfold ipv6_header_len. zfold. rewrite wb_from_ok by lia. cbn [obind].
  assert (GA : forall f, 0 <= fst f -> fst f + 16 = snd f -> snd f <= 40 ->
                         (do s <- wb_field p f; wb_arr 16 s) <> Panic).
  { intros f ? ? ?. unfold wb_field. rewrite wb_sub_ok by lia. cbn [obind]. unfold wb_arr.
    rewrite blen_firstn by (rewrite blen_skipn; lia). zbool. discriminate. }
  unfold ipv6_src_addr, ipv6_dst_addr, ipv6_next_header, ipv6_payload_len_, ipv6_hop_limit_, wb_get_u16.
  apply obind_nopanic; [apply GA; zfold; lia|]. intros ? _.
  apply obind_nopanic; [apply GA; zfold; lia|]. intros ? _.
  apply obind_nopanic; [apply wb_get_u8_nopanic; zfold; lia|]. intros ? _.
  apply obind_nopanic; [apply wb_get_be_nopanic; zfold; lia|]. intros ? _.
  apply obind_nopanic; [apply wb_get_u8_nopanic; zfold; lia|]. intros ? _. discriminate.
Qed.

Lemma icmpv6_parse_total rx bs : bytes_ok bs = true -> icmpv6_parse sum_ok rx bs <> Panic.
Proof.
  intros Hb. unfold icmpv6_parse.
  destruct (icmpv6_check_len bs) as [[]| |] eqn:E; cbn [obind]; try discriminate.
  - destruct (icmpv6_accessors_safe bs E) as (A1 & A2 & A3 & A4 & A5 & A6 & A7 & A8 & A9).
    destruct (icmpv6_check_len_inv bs E) as (t & Ht & _ & _ & Hhl).
    pose proof (icmpv6_from_payload_total bs t Hb Ht Hhl). nopanic.
  - exfalso. revert E. unfold icmpv6_check_len. destruct (blen bs <? 4) eqn:L; [discriminate|]. bsplit.
    unfold icmpv6_header_len, icmpv6_msg_type. zfold. rewrite wb_get_u8_ok by lia. cbn [obind].
    repeat case_if; discriminate.
Qed.

Definition icmpv6_repr_is_error (r : icmpv6_repr) : bool :=
  match r with Icmp6EchoRequest _ _ _ | Icmp6EchoReply _ _ _ => false | _ => true end.

Lemma icmpv6_from_payload_wf bs p h : bytes_ok bs = true -> blen bs <= 1240 -> 8 <= blen bs ->
  (forall t, icmpv6_msg_type bs = Ok t -> icmpv6_header_len_of t = 8) ->
  icmpv6_packet_from_payload bs = Ok (p, h) ->
  ipv6_wf h = true /\ bytes_ok p = true /\ blen p <= 1192.
Proof.
  intros Hb Hlen H8 Hhl H. unfold icmpv6_packet_from_payload in H. obind_inv H. injection H as <- <-.
  match goal with X : icmpv6_payload bs = Ok ?d |- _ => rename d into pp; rename X into Ep end.
  unfold icmpv6_payload, icmpv6_header_len in Ep. obind_inv Ep.
  match goal with X : obind (icmpv6_msg_type bs) _ = Ok _ |- _ => obind_inv X end.
  match goal with X : Ok (icmpv6_header_len_of ?t) = Ok _ |- _ =>
    rewrite (Hhl t) in X by assumption; injection X as <- end.
  assert (Hpp : bytes_ok pp = true) by (eapply wb_from_bytes; eassumption).
  apply wb_from_inv in Ep. destruct Ep as (_ & _ & Ep3).
  match goal with X : wb_guard _ = Ok _ |- _ => unfold wb_guard in X; case_if_in X; [|discriminate] end.
  unfold wipv6_HEADER_LEN in *. bsplit.
  match goal with X : wb_from pp _ = Ok ?q |- _ =>
    pose proof (wb_from_bytes _ _ _ Hpp X) as Hq; apply wb_from_inv in X; destruct X as (_ & _ & X3) end.
  unfold ipv6_header_len in *. zfold_in X3.
  assert (HA : forall f s, (do x <- wb_field pp f; wb_arr 16 x) = Ok s -> is_arr 16 s = true).
  { intros f s X. obind_inv X. unfold wb_arr in X.
    match type of X with (if blen ?x =? 16 then _ else _) = _ => destruct (blen x =? 16) eqn:L4; [|discriminate] end.
    injection X as <-. unfold is_arr. rewrite L4. cbn [andb]. unfold wb_field in *.
    eapply wb_sub_bytes; [exact Hpp | eassumption]. }
  unfold ipv6_src_addr, ipv6_dst_addr, ipv6_next_header, ipv6_hop_limit_, ipv6_payload_len_ in *.
  destruct (wb_get_u8_byte pp wipv6_f_NXT_HDR) as (n' & Hn & Rn); try (zfold; lia); try assumption.
  destruct (wb_get_u8_byte pp wipv6_f_HOP_LIMIT) as (h' & Hh & Rh); try (zfold; lia); try assumption.
  destruct (wb_get_u16_word pp wipv6_f_LENGTH) as (l' & Hl & Rl); try (zfold; lia); try assumption.
  repeat match goal with
  | X : wb_get_u8 pp wipv6_f_NXT_HDR = Ok _ |- _ => rewrite Hn in X; injection X as <-
  | X : wb_get_u8 pp wipv6_f_HOP_LIMIT = Ok _ |- _ => rewrite Hh in X; injection X as <-
  | X : wb_get_u16 pp wipv6_f_LENGTH = Ok _ |- _ => rewrite Hl in X; injection X as <-
  end.
  unfold ipv6_wf; cbn [ipv6_src ipv6_dst ipv6_nxt ipv6_payload_len ipv6_hop_limit].
  repeat match goal with
  | X : (do s <- wb_field pp _; wb_arr 16 s) = Ok _ |- _ => apply HA in X; rewrite X
  end.
  unfold is_u8, is_u16. split; [zbool; reflexivity|]. repeat split; try assumption; lia.
Qed.

Lemma icmpv6_parse_wf rx bs r : bytes_ok bs = true ->
  (icmpv6_repr_is_error r = true -> blen bs <= icmpv6_MAX_ERROR_PACKET_LEN) ->
  icmpv6_parse sum_ok rx bs = Ok r -> icmpv6_wf r = true.
Proof.
  intros Hb Hlen H. unfold icmpv6_parse in H.
  destruct (icmpv6_check_len bs) as [[]| |] eqn:E; cbn [obind] in H; try discriminate.
  destruct (icmpv6_check_len_inv bs E) as (t & Ht & _ & H8 & _).
  obind_inv H.
  match goal with X : icmpv6_msg_type bs = Ok ?v |- _ => rewrite Ht in X; injection X as <- end.
  assert (G16 : forall f w, 0 <= fst f -> fst f + 2 <= snd f -> snd f <= 8 -> wb_get_u16 bs f = Ok w -> is_u16 w = true).
  { intros f w ? ? ? X. destruct (wb_get_u16_word bs f) as (v' & Hv & Rv); try lia; try assumption.
    rewrite Hv in X. injection X as <-. unfold is_u16. zbool. reflexivity. }
  assert (G32 : forall f w, 0 <= fst f -> fst f + 4 = snd f -> snd f <= 8 -> wb_get_u32 bs f = Ok w -> is_u32 w = true).
  { intros f w ? ? ? X. unfold wb_get_u32, wb_get_be in X. obind_inv X.
    match goal with Y : wb_sub bs _ _ = Ok ?s |- _ =>
      pose proof (wb_sub_bytes _ _ _ _ Hb Y) as Hs; apply wb_sub_inv in Y; destruct Y as (_ & _ & _ & L) end.
    replace (snd f - fst f) with 4 in L by lia. apply (blen_length _ 4) in L.
    match goal with Y : (if _ then _ else _) = Ok w |- _ => rename Y into Y0 end.
    cells L. revert Y0. unfold blen; cbn [length]. zfold. cbn [firstn]. intros Y0. injection Y0 as <-.
    cbn [bytes_ok forallb] in Hs. bsplit. unfold is_u32. rewrite be_dec4. zbool. reflexivity. }
  assert (GD : forall d, icmpv6_payload bs = Ok d -> bytes_ok d = true).
  { intros d X. unfold icmpv6_payload in X. obind_inv X. eapply wb_from_bytes; eassumption. }
  assert (GC : forall c, icmpv6_msg_code bs = Ok c -> is_u8 c = true).
  { intros c X. unfold icmpv6_msg_code in X.
    destruct (wb_get_u8_byte bs wicmpv6_f_CODE) as (c' & Hc & Rc); [zfold; lia | assumption |].
    rewrite Hc in X. injection X as <-. unfold is_u8. zbool. reflexivity. }
  assert (GE : forall p h, (forall t', icmpv6_msg_type bs = Ok t' -> icmpv6_header_len_of t' = 8) ->
             blen bs <= 1240 -> icmpv6_packet_from_payload bs = Ok (p, h) ->
             ipv6_wf h = true /\ bytes_ok p = true /\ (blen p <=? icmpv6_MAX_ERROR_DATA) = true).
  { intros p h Hhl L X. destruct (icmpv6_from_payload_wf bs p h Hb L H8 Hhl X) as (W1 & W2 & W3).
    repeat split; try assumption. unfold icmpv6_MAX_ERROR_DATA, icmpv6_MAX_ERROR_PACKET_LEN. zfold. zbool. reflexivity. }
  unfold icmpv6_MAX_ERROR_PACKET_LEN in Hlen. zfold_in Hlen.
  repeat case_if_in H; try discriminate; obind_inv H; injection H as <-; cbn [icmpv6_wf icmpv6_repr_is_error] in *;
    try match goal with X : icmpv6_packet_from_payload bs = Ok ?pr |- _ => destruct pr as [p h];
      destruct (GE p h) as (W1 & W2 & W3);
        [ intros t' Ht'; rewrite Ht in Ht'; injection Ht' as <-; bsplit; subst t; reflexivity
        | apply Hlen; reflexivity | exact X | ]; cbn [fst snd]; rewrite W1, W2, W3 end;
    unfold icmpv6_echo_ident, icmpv6_echo_seq_no, icmpv6_pkt_too_big_mtu, icmpv6_param_problem_ptr in *;
    repeat match goal with
    | X : wb_get_u16 bs _ = Ok _ |- _ => apply G16 in X; [rewrite X | zfold; lia ..]
    | X : wb_get_u32 bs _ = Ok _ |- _ => apply G32 in X; [rewrite X | zfold; lia ..]
    | X : icmpv6_payload bs = Ok _ |- _ => apply GD in X; rewrite X
    | X : icmpv6_msg_code bs = Ok _ |- _ => apply GC in X; rewrite ?X
    end; reflexivity.
Qed.

Lemma icmpv6_reparse tx rx bs r : icmpv6_cksum_link -> bytes_ok bs = true ->
  (icmpv6_repr_is_error r = true -> blen bs <= icmpv6_MAX_ERROR_PACKET_LEN) ->
  (rx = true -> tx = true) -> icmpv6_parse sum_ok rx bs = Ok r ->
  icmpv6_wf r = true /\
  forall b, blen b = icmpv6_buffer_len r ->
    exists bs', icmpv6_emit sum_fill tx r b = Ok bs' /\ icmpv6_parse sum_ok rx bs' = Ok r.
Proof.
  intros Hl Hb Hlen Hmode H. pose proof (icmpv6_parse_wf _ _ _ Hb Hlen H) as Hwf. split; [assumption|].
  intros b Hbl. destruct (icmpv6_roundtrip tx rx r b Hl Hwf Hmode Hbl) as (bs' & He & _ & Hp). eauto.
Qed.

End Checksum.
