(* C02 (liveness half): THE THEOREMS WITHOUT THE PREMISE syn_win_open.  With the configuration premise cfg_rx the window
   B advertises in SYN-RECEIVED is open in every state of every run of the one-way workload from net_init
   (Proofs/TcpProgressSynWinNet.v); the handshake theorems and the compositions of Proofs/TcpProgressCl19.v are
   stated again without that premise.  In the compositions the only premise about states that is left is qregime'
   in the quiet part. *)
From SV Require Import Lib.Base Gen.Consts.
From SV Require Import Model.Seq32 Model.Assembler Model.TcpBuf Model.TcpTypes Model.Tcp Model.TcpNet.
From SV Require Import Proofs.TcpSendBase Proofs.TcpLiveBase Proofs.TcpLiveProofs Proofs.TcpLiveMore
  Proofs.TcpLiveProgress.
From SV Require Import Proofs.TcpNetBase.
From SV Require Proofs.TcpNetInv.
From SV Require Import Proofs.TcpProgressBase Proofs.TcpProgressFrame Proofs.TcpProgressCtl Proofs.TcpProgressRecv
  Proofs.TcpProgressSend Proofs.TcpProgressNet Proofs.TcpProgressData Proofs.TcpProgressAck
  Proofs.TcpProgressAll Proofs.TcpProgressSafe Proofs.TcpProgressHs Proofs.TcpProgressHsD
  Proofs.TcpProgressHsNet Proofs.TcpProgressHsInit Proofs.TcpProgressHsLive Proofs.TcpProgressHsLive2
  Proofs.TcpProgressZwp Proofs.TcpProgressExample Proofs.TcpProgressWitness Proofs.TcpProgressSafeWitness Proofs.TcpProgressZwDup
  Proofs.TcpProgressZw1 Proofs.TcpProgressZw1b Proofs.TcpProgressZw2 Proofs.TcpProgressZw3 Proofs.TcpProgressZwWitness
  Proofs.TcpProgressZw4 Proofs.TcpProgressZw5 Proofs.TcpProgressZw6 Proofs.TcpProgressZw7
  Proofs.TcpProgressCl1 Proofs.TcpProgressCl2 Proofs.TcpProgressCl3 Proofs.TcpProgressCl4 Proofs.TcpProgressCl5
  Proofs.TcpProgressCl6 Proofs.TcpProgressCl7 Proofs.TcpProgressCl8 Proofs.TcpProgressCl9
  Proofs.TcpProgressCl10 Proofs.TcpProgressCl11 Proofs.TcpProgressCl12 Proofs.TcpProgressCl13
  Proofs.TcpProgressHsRtx Proofs.TcpProgressHsAll Proofs.TcpProgressHsSrv1 Proofs.TcpProgressHsSrv2
  Proofs.TcpProgressCl15 Proofs.TcpProgressCap Proofs.TcpProgressCapNet
  Proofs.TcpProgressCl19 Proofs.TcpProgressSynWin Proofs.TcpProgressSynWinNet.

Module NV := TcpNetInv.

(* the handshake theorems without the premise syn_win_open *)
Theorem handshake_completes_cfg Dt Da Dack ca cb st0 : start_ok Dack ca cb st0 -> cfg_rx ca cb ->
  forall evs st',
  fair_schedule Dt Da st0 evs -> Forall (app_ev SA) evs -> net_run st0 evs = Ok st' -> NV.small st' ->
  net_now st0 SA + 3 * Dt < net_now st' SA ->
  exists pre post fa1 st1,
    evs = pre ++ post /\ net_run st0 pre = Ok st1 /\ net_run st1 post = Ok st' /\
    reg SA Dack st1 /\ reach st1 /\ opts_ok st1 /\
    dl_sync Da fa1 st1 /\ fair_run Dt Da fa1 st1 post /\
    net_now st1 SA <= net_now st0 SA + 3 * Dt.
Proof.
  intros Hstart Hcfg evs st' Hfs Happ Hrun Hsm Hlate.
  assert (Hsc : Forall (script_ev SA) evs).
  { apply Forall_forall. intros ev Hin. apply app_ev_script. rewrite Forall_forall in Happ. exact (Happ ev Hin). }
  exact (handshake_completes Dt Da Dack ca cb st0 Hstart evs st' Hfs Happ Hrun Hsm
           (syn_win_open_from_net_init Dack ca cb st0 Hstart Hcfg [] st0 evs st' eq_refl (Forall_nil _) Hsc Hrun Hsm) Hlate).
Qed.

Theorem handshake_completes_after_loss_cfg Dt Da Dack ca cb st0 : start_ok Dack ca cb st0 -> cfg_rx ca cb ->
  forall pre st evs st',
  net_run st0 pre = Ok st -> Forall (script_ev SA) pre ->
  s_state (net_sock st SA) = SynSent ->
  fair_schedule Dt Da st evs -> Forall (app_ev SA) evs -> net_run st evs = Ok st' -> NV.small st' ->
  net_now st SA + max_rto_us + 3 * Dt < net_now st' SA ->
  exists p1 p2 fa1 st1,
    evs = p1 ++ p2 /\ net_run st p1 = Ok st1 /\ net_run st1 p2 = Ok st' /\
    reg SA Dack st1 /\ reach st1 /\ opts_ok st1 /\
    dl_sync Da fa1 st1 /\ fair_run Dt Da fa1 st1 p2 /\
    net_now st1 SA <= net_now st SA + max_rto_us + 3 * Dt.
Proof.
  intros Hstart Hcfg pre st evs st' Hpre Hscp Hsa Hfs Happ Hrun Hsm Hlate.
  assert (Hsc : Forall (script_ev SA) evs).
  { apply Forall_forall. intros ev Hin. apply app_ev_script. rewrite Forall_forall in Happ. exact (Happ ev Hin). }
  exact (handshake_completes_after_loss Dt Da Dack ca cb st0 Hstart pre st evs st' Hpre Hscp Hsa Hfs Happ Hrun Hsm
           (syn_win_open_from_net_init Dack ca cb st0 Hstart Hcfg pre st evs st' Hpre Hscp Hsc Hrun Hsm) Hlate).
Qed.

Theorem server_established_after_ack_loss_cfg Dt Da Dack ca cb st0 : start_ok Dack ca cb st0 -> cfg_rx ca cb ->
  forall pre st evs st',
  net_run st0 pre = Ok st -> Forall (script_ev SA) pre ->
  s_state (net_sock st SA) = Established -> s_state (net_sock st SB) = SynReceived ->
  fresh (cx_isn (ep_cx (n_a st0))) st ->
  fair_schedule Dt Da st evs -> Forall (app_ev SA) evs -> net_run st evs = Ok st' -> NV.small st' ->
  Z.max (net_now st SA) (cA st) + max_rto_us + 2 * Dt < net_now st' SA ->
  exists p1 p2 fa1 st1,
    evs = p1 ++ p2 /\ net_run st p1 = Ok st1 /\ net_run st1 p2 = Ok st' /\
    reg SA Dack st1 /\ reach st1 /\ opts_ok st1 /\
    dl_sync Da fa1 st1 /\ fair_run Dt Da fa1 st1 p2 /\
    net_now st1 SA <= Z.max (net_now st SA) (cA st) + max_rto_us + 2 * Dt.
Proof.
  intros Hstart Hcfg pre st evs st' Hpre Hscp Hsa Hsb Hfr Hfs Happ Hrun Hsm Hlate.
  assert (Hsc : Forall (script_ev SA) evs).
  { apply Forall_forall. intros ev Hin. apply app_ev_script. rewrite Forall_forall in Happ. exact (Happ ev Hin). }
  exact (server_established_after_ack_loss Dt Da Dack ca cb st0 Hstart pre st evs st' Hpre Hscp Hsa Hsb Hfr Hfs Happ Hrun Hsm
           (syn_win_open_from_net_init Dack ca cb st0 Hstart Hcfg pre st evs st' Hpre Hscp Hsc Hrun Hsm) Hlate).
Qed.

Theorem transfer_quiesce_close_from_net_init_cfg Dt Da Dack ca cb st0 (n : nat) :
  forall evsD evsQ evs1 evs2 stD stQ stC st_m st',
  start_ok Dack ca cb st0 -> cfg_rx ca cb -> 2 * Dt < tcp_RTTE_MIN_RTO * 1000 -> 0 <= Dack ->
  reliable_schedule Dt Da st0 (evsD ++ evsQ ++ NClose SA :: evs1 ++ NClose SB :: evs2) ->
  Forall (app_ev SA) evsD -> net_run st0 evsD = Ok stD ->
  net_now st0 SA + 3 * Dt < net_now stD SA ->
  Forall qev evsQ -> net_run stD evsQ = Ok stQ ->
  (forall z, l_len (ep_written (net_get stQ z)) < 2 ^ 30) ->
  run_all qregime' stD evsQ ->
  (l_len (ep_written (net_get stD SA)) - una_off (net_get stD SA)) +
  (l_len (ep_written (net_get stD SA)) - read_off (net_get stD SB)) <= Z.of_nat n ->
  net_now stD SA + Z.of_nat n * Wz Dt Da + 2 * Dt + Dack < net_now stQ SA ->
  net_step stQ (NClose SA) = Ok stC ->
  Forall (cl_ev SA false) evs1 -> net_run stC evs1 = Ok st_m -> net_now stQ SA + 2 * Dt < net_now st_m SA ->
  net_run st_m (NClose SB :: evs2) = Ok st' ->
  net_now st_m SA + 3 * Dt + tcp_CLOSE_DELAY < net_now st' SA ->
  (exists p1 p2 sta,
     evsQ = p1 ++ p2 /\ net_run stD p1 = Ok sta /\ net_run sta p2 = Ok stQ /\
     una_off (net_get sta SA) = l_len (ep_written (net_get stD SA)) /\
     read_off (net_get sta SB) = l_len (ep_written (net_get stD SA))) /\
  (exists pre post st_c,
     evs2 = pre ++ post /\ net_run st_m (NClose SB :: pre) = Ok st_c /\ net_run st_c post = Ok st' /\
     both_closed st_c).
Proof.
  intros evsD evsQ evs1 evs2 stD stQ stC st_m st' Hstart Hcfg HDt2 HDack Hrel HappD HrD HlD HEQ HrQ Hsz HqQ Hn HlQ
         HsC HE1 Hr1 Hp1 Hr2 Hp2.
  assert (HsmQ : NV.small stQ).
  { split; [specialize (Hsz SA) | specialize (Hsz SB)]; cbn [net_get] in Hsz; change (2 ^ 30) with 1073741824 in Hsz; lia. }
  assert (HsmD : NV.small stD) by exact (NV.small_mono _ _ (net_run_mono _ _ _ HrQ) HsmQ).
  assert (HscD : Forall (script_ev SA) evsD).
  { apply Forall_forall. intros ev Hin. apply app_ev_script. rewrite Forall_forall in HappD. exact (HappD ev Hin). }
  pose proof (syn_win_open_from_net_init Dack ca cb st0 Hstart Hcfg [] st0 evsD stD eq_refl (Forall_nil _) HscD HrD HsmD) as Hsyn.
  exact (transfer_quiesce_close_from_net_init' Dt Da Dack ca cb st0 n evsD evsQ evs1 evs2 stD stQ stC st_m st' Hstart Hcfg HDt2 HDack
           Hrel HappD HrD Hsyn HlD HEQ HrQ Hsz HqQ Hn HlQ HsC HE1 Hr1 Hp1 Hr2 Hp2).
Qed.

Theorem handshake_quiesce_close_after_fault_prefix_cfg Dt Da Dack ca cb st0 (n : nat) :
  forall pre st evsH evsQ evs1 evs2 stD stQ stC st_m st',
  start_ok Dack ca cb st0 -> cfg_rx ca cb -> 2 * Dt < tcp_RTTE_MIN_RTO * 1000 -> 0 <= Dack ->
  (* the fault prefix: the SYN or the SYN|ACK lost, duplicated, late - A is still in SYN-SENT *)
  net_run st0 pre = Ok st -> Forall (script_ev SA) pre ->
  s_state (net_sock st SA) = SynSent ->
  reliable_schedule Dt Da st (evsH ++ evsQ ++ NClose SA :: evs1 ++ NClose SB :: evs2) ->
  (* the handshake completes; A writes, B reads *)
  Forall (app_ev SA) evsH -> net_run st evsH = Ok stD ->
  net_now st SA + max_rto_us + 3 * Dt < net_now stD SA ->
  (* the applications neither write nor close *)
  Forall qev evsQ -> net_run stD evsQ = Ok stQ ->
  (forall z, l_len (ep_written (net_get stQ z)) < 2 ^ 30) ->
  run_all qregime' stD evsQ ->
  (l_len (ep_written (net_get stD SA)) - una_off (net_get stD SA)) +
  (l_len (ep_written (net_get stD SA)) - read_off (net_get stD SB)) <= Z.of_nat n ->
  net_now stD SA + Z.of_nat n * Wz Dt Da + 2 * Dt + Dack < net_now stQ SA ->
  (* A closes; B closes in CLOSE-WAIT *)
  net_step stQ (NClose SA) = Ok stC ->
  Forall (cl_ev SA false) evs1 -> net_run stC evs1 = Ok st_m -> net_now stQ SA + 2 * Dt < net_now st_m SA ->
  net_run st_m (NClose SB :: evs2) = Ok st' ->
  net_now st_m SA + 3 * Dt + tcp_CLOSE_DELAY < net_now st' SA ->
  (exists h1 h2 sth,
     evsH = h1 ++ h2 /\ net_run st h1 = Ok sth /\ net_run sth h2 = Ok stD /\
     (forall z, s_state (net_sock sth z) = Established) /\
     net_now sth SA <= net_now st SA + max_rto_us + 3 * Dt) /\
  (exists p1 p2 sta,
     evsQ = p1 ++ p2 /\ net_run stD p1 = Ok sta /\ net_run sta p2 = Ok stQ /\
     una_off (net_get sta SA) = l_len (ep_written (net_get stD SA)) /\
     read_off (net_get sta SB) = l_len (ep_written (net_get stD SA))) /\
  (exists pre2 post st_c,
     evs2 = pre2 ++ post /\ net_run st_m (NClose SB :: pre2) = Ok st_c /\ net_run st_c post = Ok st' /\
     both_closed st_c).
Proof.
  intros pre st evsH evsQ evs1 evs2 stD stQ stC st_m st' Hstart Hcfg HDt2 HDack Hpre Hscp Hsa Hrel HappH HrH HlH HEQ HrQ Hsz HqQ Hn HlQ
         HsC HE1 Hr1 Hp1 Hr2 Hp2.
  assert (HsmQ : NV.small stQ).
  { split; [specialize (Hsz SA) | specialize (Hsz SB)]; cbn [net_get] in Hsz; change (2 ^ 30) with 1073741824 in Hsz; lia. }
  assert (HsmD : NV.small stD) by exact (NV.small_mono _ _ (net_run_mono _ _ _ HrQ) HsmQ).
  assert (HscH : Forall (script_ev SA) evsH).
  { apply Forall_forall. intros ev Hin. apply app_ev_script. rewrite Forall_forall in HappH. exact (HappH ev Hin). }
  pose proof (syn_win_open_from_net_init Dack ca cb st0 Hstart Hcfg pre st evsH stD Hpre Hscp HscH HrH HsmD) as Hsyn.
  exact (handshake_quiesce_close_after_fault_prefix' Dt Da Dack ca cb st0 n pre st evsH evsQ evs1 evs2 stD stQ stC st_m st' Hstart Hcfg
           HDt2 HDack Hpre Hscp Hsa Hrel HappH HrH Hsyn HlH HEQ HrQ Hsz HqQ Hn HlQ HsC HE1 Hr1 Hp1 Hr2 Hp2).
Qed.

Theorem server_quiesce_close_after_fault_prefix_cfg Dt Da Dack ca cb st0 (n : nat) :
  forall pre st evsH evsQ evs1 evs2 stD stQ stC st_m st',
  start_ok Dack ca cb st0 -> cfg_rx ca cb -> 2 * Dt < tcp_RTTE_MIN_RTO * 1000 -> 0 <= Dack ->
  (* the fault prefix: everything A transmitted since its SYN is lost *)
  net_run st0 pre = Ok st -> Forall (script_ev SA) pre ->
  s_state (net_sock st SA) = Established -> s_state (net_sock st SB) = SynReceived ->
  fresh (cx_isn (ep_cx (n_a st0))) st ->
  reliable_schedule Dt Da st (evsH ++ evsQ ++ NClose SA :: evs1 ++ NClose SB :: evs2) ->
  (* the handshake completes; A writes, B reads *)
  Forall (app_ev SA) evsH -> net_run st evsH = Ok stD ->
  Z.max (net_now st SA) (cA st) + max_rto_us + 2 * Dt < net_now stD SA ->
  (* the applications neither write nor close *)
  Forall qev evsQ -> net_run stD evsQ = Ok stQ ->
  (forall z, l_len (ep_written (net_get stQ z)) < 2 ^ 30) ->
  run_all qregime' stD evsQ ->
  (l_len (ep_written (net_get stD SA)) - una_off (net_get stD SA)) +
  (l_len (ep_written (net_get stD SA)) - read_off (net_get stD SB)) <= Z.of_nat n ->
  net_now stD SA + Z.of_nat n * Wz Dt Da + 2 * Dt + Dack < net_now stQ SA ->
  (* A closes; B closes in CLOSE-WAIT *)
  net_step stQ (NClose SA) = Ok stC ->
  Forall (cl_ev SA false) evs1 -> net_run stC evs1 = Ok st_m -> net_now stQ SA + 2 * Dt < net_now st_m SA ->
  net_run st_m (NClose SB :: evs2) = Ok st' ->
  net_now st_m SA + 3 * Dt + tcp_CLOSE_DELAY < net_now st' SA ->
  (exists h1 h2 sth,
     evsH = h1 ++ h2 /\ net_run st h1 = Ok sth /\ net_run sth h2 = Ok stD /\
     (forall z, s_state (net_sock sth z) = Established) /\
     net_now sth SA <= Z.max (net_now st SA) (cA st) + max_rto_us + 2 * Dt) /\
  (exists p1 p2 sta,
     evsQ = p1 ++ p2 /\ net_run stD p1 = Ok sta /\ net_run sta p2 = Ok stQ /\
     una_off (net_get sta SA) = l_len (ep_written (net_get stD SA)) /\
     read_off (net_get sta SB) = l_len (ep_written (net_get stD SA))) /\
  (exists pre2 post st_c,
     evs2 = pre2 ++ post /\ net_run st_m (NClose SB :: pre2) = Ok st_c /\ net_run st_c post = Ok st' /\
     both_closed st_c).
Proof.
  intros pre st evsH evsQ evs1 evs2 stD stQ stC st_m st' Hstart Hcfg HDt2 HDack Hpre Hscp Hsa Hsb Hfr Hrel HappH HrH HlH HEQ HrQ Hsz HqQ Hn HlQ
         HsC HE1 Hr1 Hp1 Hr2 Hp2.
  assert (HsmQ : NV.small stQ).
  { split; [specialize (Hsz SA) | specialize (Hsz SB)]; cbn [net_get] in Hsz; change (2 ^ 30) with 1073741824 in Hsz; lia. }
  assert (HsmD : NV.small stD) by exact (NV.small_mono _ _ (net_run_mono _ _ _ HrQ) HsmQ).
  assert (HscH : Forall (script_ev SA) evsH).
  { apply Forall_forall. intros ev Hin. apply app_ev_script. rewrite Forall_forall in HappH. exact (HappH ev Hin). }
  pose proof (syn_win_open_from_net_init Dack ca cb st0 Hstart Hcfg pre st evsH stD Hpre Hscp HscH HrH HsmD) as Hsyn.
  exact (server_quiesce_close_after_fault_prefix' Dt Da Dack ca cb st0 n pre st evsH evsQ evs1 evs2 stD stQ stC st_m st' Hstart Hcfg
           HDt2 HDack Hpre Hscp Hsa Hsb Hfr Hrel HappH HrH Hsyn HlH HEQ HrQ Hsz HqQ Hn HlQ HsC HE1 Hr1 Hp1 Hr2 Hp2).
Qed.
