(* C03, "fail to return" clause for the TCP socket: the receive-side hypothesis [rx_ok] of the
   burst theorems (window shift >= 0, free receive space < 2^31) is part of C04's receiver
   invariant, synchronised or not. *)
From SV Require Import Lib.Base Gen.Consts.
From SV Require Import Model.Seq32 Model.Assembler Model.TcpBuf Model.TcpTypes Model.Tcp.
From SV Require Import Proofs.AssemblerProofs Proofs.TcpRecvBase Proofs.TcpRecvWindow
                       Proofs.TcpRecvPayload Proofs.TcpRecvInv.
From SV Require Import Proofs.TcpBurstBase.

Lemma rx_ok_of_synced : forall S F have irs c s, rx_synced S F have irs c s -> rx_ok s.
Proof.
  intros S F have irs c s ((Hwf & Hcap & _) & _ & (_ & Hsh & _) & _).
  destruct Hwf as (Hl & _). unfold rx_ok, rb_window, p30 in *. lia.
Qed.

Lemma rx_ok_of_unsynced : forall s, rx_unsynced s -> rx_ok s.
Proof.
  intros s (Hwf & Hcap & _ & _ & _ & (_ & Hsh & _) & _).
  destruct Hwf as (Hl & _). unfold rx_ok, rb_window, p30 in *. lia.
Qed.
