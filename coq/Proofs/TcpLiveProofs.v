(* C02 (and the TCP instance of C13): liveness invariant of the TCP socket model (Model/Tcp.v).

   [tcp_live_inv] is an inductive invariant of the socket: it holds for [tcp_new] and is preserved by
   every API call, by [tcp_process] of every (well-formed) segment and by [tcp_dispatch] at every
   time, with or without a device that accepts the frame.  Its core is [live_K]:

     in every state in which the socket may still have to (re)transmit something
     (SYN-SENT, SYN-RECEIVED, ESTABLISHED, CLOSE-WAIT, FIN-WAIT-1, CLOSING, LAST-ACK)
       the timer is Retransmit / FastRetransmit / ZeroWindowProbe
       or  nothing is in flight (remote_last_seq = local_seq_no) and it is not the case that
           octets are queued while the learned remote window is 0.

   From it: [deadline_from_inv] (unacknowledged data / SYN / FIN => poll_at <> Ingress),
   and, for all sockets, [tcp_early_poll_silent] / [tcp_no_spin] (C13 clauses for TCP). *)
From SV Require Import Lib.Base Gen.Consts.
From SV Require Import Model.Seq32 Model.Assembler Model.TcpBuf Model.TcpTypes Model.Tcp.
From SV Require Import Proofs.TcpSendBase Proofs.TcpLiveBase.

(* ------------------------------------------------------------------------------------------ *)
(* definitions                                                                                  *)
(* ------------------------------------------------------------------------------------------ *)
(* states in which something of ours may be unacknowledged *)
Definition st_live (st : tcp_state) : bool :=
  match st with
  | SynSent | SynReceived | Established | CloseWait | FinWait1 | Closing | LastAck => true
  | Closed | Listen | FinWait2 | TimeWait => false
  end.
(* states with a connection (a 4-tuple) *)
Definition st_conn (st : tcp_state) : bool :=
  match st with Closed | Listen => false | _ => true end.
(* states in which the transmit buffer is necessarily empty *)
Definition st_nodata (st : tcp_state) : bool :=
  match st with Listen | SynSent | SynReceived | FinWait2 | TimeWait => true | _ => false end.

(* "the socket has unacknowledged outgoing data, or an unacknowledged SYN or FIN": the transmit
   buffer holds exactly the octets accepted by send and not yet acknowledged; the SYN is
   unacknowledged in SYN-SENT / SYN-RECEIVED, the FIN in FIN-WAIT-1 / CLOSING / LAST-ACK.  A CLOSED
   or LISTEN socket has no connection: octets left in its buffer (after an RST or abort) are not
   outgoing data any more. *)
Definition tcp_need (s : socket) : Prop :=
  match s_state s with
  | SynSent | SynReceived | FinWait1 | Closing | LastAck => True
  | Established | CloseWait | FinWait2 | TimeWait => 0 < rb_len (s_tx_buffer s)
  | Closed | Listen => False
  end.

Definition live_K (s : socket) : Prop :=
  st_live (s_state s) = true ->
  timer_armed (s_timer s) = true \/
  (s_remote_last_seq s = s_local_seq_no s /\
   (0 < rb_len (s_tx_buffer s) -> s_remote_win_len s <> 0)).

Record tcp_live_inv (s : socket) : Prop := mkLiveInv {
  li_listen : s_state s = Listen -> s_tuple s = None;
  li_tuple : st_conn (s_state s) = true -> s_tuple s <> None;
  li_close : timer_is_close (s_timer s) = true -> s_state s = TimeWait \/ s_state s = Closed;
  li_nodata : st_nodata (s_state s) = true -> rb_len (s_tx_buffer s) = 0;
  li_una : u32 (s_local_seq_no s);
  li_nxt : u32 (s_remote_last_seq s);
  li_win : 0 <= s_remote_win_len s < 2 ^ 30;
  li_scale : match s_remote_win_scale s with Some x => 0 <= x <= 14 | None => True end;
  li_tx : rb_wf (s_tx_buffer s);
  li_cc : cc_ok (s_congestion_controller s);
  li_rtte : rtte_ok (s_rtte s);
  li_K : live_K s;
  li_mss : 0 < s_remote_mss s
}.

(* inputs: the interface hands out 32-bit ISNs; a parsed segment has a 16-bit window, a 32-bit
   acknowledgement number and a window-scale option clamped to 14 by the parser *)
Definition ctx_ok (cx : ctx) : Prop := u32 (cx_isn cx).
Definition seg_ok (r : tcp_repr) : Prop :=
  0 <= r_window_len r <= 65535 /\
  match r_ack_number r with Some a => u32 a | None => True end /\
  match r_window_scale r with Some x => 0 <= x <= 14 | None => True end.

(* ------------------------------------------------------------------------------------------ *)
(* small facts                                                                                  *)
(* ------------------------------------------------------------------------------------------ *)
Lemma need_live : forall s, tcp_live_inv s -> tcp_need s -> st_live (s_state s) = true.
Proof.
  intros s I N. unfold tcp_need in N. pose proof (li_nodata s I) as Hn.
  destruct (s_state s); cbn [st_live st_nodata] in *; try reflexivity; try contradiction;
    specialize (Hn eq_refl); lia.
Qed.

Lemma live_conn : forall st, st_live st = true -> st_conn st = true.
Proof. intros []; cbn; congruence. Qed.

Lemma live_not_close : forall s, tcp_live_inv s -> st_live (s_state s) = true ->
  timer_is_close (s_timer s) = false.
Proof.
  intros s I L. destruct (timer_is_close (s_timer s)) eqn:E; [|reflexivity].
  destruct (li_close s I E) as [H|H]; rewrite H in L; discriminate.
Qed.

Lemma is_some_true : forall A (o : option A), o <> None -> is_some o = true.
Proof. intros A [a|] H; [reflexivity | congruence]. Qed.

Lemma rb_is_empty_false : forall r, 0 < rb_len r -> rb_is_empty r = false.
Proof. intros. unfold rb_is_empty. lia. Qed.

Lemma rb_is_empty_true : forall r, rb_len r = 0 -> rb_is_empty r = true.
Proof. intros. unfold rb_is_empty. lia. Qed.

(* ------------------------------------------------------------------------------------------ *)
(* seq_to_transmit when nothing is in flight                                                    *)
(* ------------------------------------------------------------------------------------------ *)
(* With nothing in flight, a non-closed remote window and a positive congestion window, a socket
   that has something unacknowledged wants to transmit (or the computation panics: MTU below the
   header sizes) - it never answers "nothing to send". *)
Lemma stt_when_idle : forall cx s,
  tcp_live_inv s -> tcp_need s ->
  s_remote_last_seq s = s_local_seq_no s ->
  (0 < rb_len (s_tx_buffer s) -> s_remote_win_len s <> 0) ->
  tcp_seq_to_transmit cx s <> Ok false.
Proof.
  intros cx s I N Hfl Hw. unfold tcp_seq_to_transmit.
  destruct (s_pending_fast_retransmit s && negb (rb_is_empty (s_tx_buffer s))
            && (s_remote_win_len s >? 0)); [discriminate|].
  pose proof (need_live s I N) as L.
  pose proof (li_tuple s I (live_conn _ L)) as Ht.
  destruct (s_tuple s) as [t|]; [|congruence].
  destruct (tcp_local_mss cx) as [mss|e|]; cbn [obind]; try discriminate.
  rewrite Hfl, Z.eqb_refl. cbn [negb]. rewrite andb_true_r.
  destruct ((match s_state s with SynSent | SynReceived => true | _ => false end)
            || s_syn_unacked_in_fin_wait s) eqn:Hsyn; [discriminate|].
  pose proof (li_tx s I) as (Hlen & _).
  pose proof (li_win s I) as HW.
  pose proof (li_una s I) as Hu.
  pose proof (cc_window_pos _ (li_cc s I)) as Hcw.
  unfold tcp_cwnd_remaining, tcp_flight_size. rewrite Hfl, seq_sub_self. cbn [obind].
  unfold sat_sub. rewrite Z.sub_0_r.
  rewrite !andb_false_r. cbn [andb].
  destruct (Z.eq_dec (rb_len (s_tx_buffer s)) 0) as [Hz|Hz].
  - (* empty buffer: only the FIN states are in need, and the FIN goes out *)
    rewrite Hz, (seq_add_zero _ Hu), Z.eqb_refl.
    assert (Hwf : match s_state s with FinWait1 | Closing | LastAck => true | _ => false end = true).
    { unfold tcp_need in N. rewrite Hz in N.
      destruct (s_state s); cbn in Hsyn; try discriminate; try reflexivity; try lia; contradiction. }
    rewrite Hwf. cbn [andb].
    destruct (seq_ge _ _); cbn [obind];
      [destruct (seq_sub _ _); cbn [obind]; try discriminate|]; rewrite orb_true_r; discriminate.
  - (* data queued: the window is open, at least one octet can be sent *)
    change (2 ^ 30) with 1073741824 in HW.
    assert (Hk : 0 < Z.min (s_remote_win_len s) (rb_len (s_tx_buffer s)) < 2147483648)
      by (specialize (Hw ltac:(lia)); lia).
    rewrite seq_ge_add_small by (change (2 ^ 31) with 2147483648; lia).
    rewrite seq_sub_add_small by (change (2 ^ 31) with 2147483648; lia). cbn [obind].
    match goal with |- Ok (?a || ?b) <> Ok false =>
      assert (Ha : a = true) by (apply negb_true_iff; lia); rewrite Ha; discriminate end.
Qed.

(* ------------------------------------------------------------------------------------------ *)
(* the deadline invariant follows from [tcp_live_inv]                                           *)
(* ------------------------------------------------------------------------------------------ *)
Lemma deadline_from_inv : forall cx s,
  tcp_live_inv s -> tcp_need s -> tcp_poll_at cx s <> Ok PIngress.
Proof.
  intros cx s I N. unfold tcp_poll_at.
  pose proof (need_live s I N) as L.
  rewrite (is_some_true _ _ (li_tuple s I (live_conn _ L))). cbn [negb].
  destruct (is_some (s_remote_last_ts s)); cbn [negb]; [|discriminate].
  destruct (tcp_state_eqb (s_state s) Closed); [discriminate|].
  destruct (tcp_seq_to_transmit cx s) as [[|]|e|] eqn:Hstt; cbn [obind]; try discriminate.
  destruct (li_K s I L) as [Ha | (Hfl & Hw)].
  - destruct (tcp_window_to_update s) as [[|]|e|]; cbn [obind]; try discriminate.
    intros E. inversion E as [E'].
    apply poll_at_min_ingress in E'. destruct E' as (E1 & _).
    apply poll_at_min_ingress in E1. destruct E1 as (E1 & _).
    exact (armed_poll_at _ Ha E1).
  - exfalso. exact (stt_when_idle cx s I N Hfl Hw Hstt).
Qed.

(* ------------------------------------------------------------------------------------------ *)
(* C13 clause 1 for TCP: polling before the reported deadline transmits nothing                 *)
(* ------------------------------------------------------------------------------------------ *)
(* [pa_future now p]: the reported deadline is absent or strictly after [now] *)
Lemma timer_quiet_before : forall t now,
  pa_future now (timer_poll_at t) ->
  timer_should_retransmit t now = false /\ timer_should_keep_alive t now = false /\
  timer_should_zero_window_probe t now = false /\ timer_should_close t now = false.
Proof.
  intros [[k|]| e | | e d | e] now H; cbn in *; repeat split; try reflexivity; try lia; contradiction.
Qed.

Lemma tcp_early_poll_silent_lemma : forall cx s emit_ok p s' res tags,
  tcp_poll_at cx s = Ok p -> pa_future (cx_now cx) p ->
  tcp_dispatch cx s emit_ok = Ok (s', res, tags) ->
  res = DNothing /\ (s' = s \/ s' = tcp_reset s).
Proof.
  intros cx s emit_ok p s' res tags Hp Hf Hd.
  unfold tcp_poll_at in Hp. unfold tcp_dispatch in Hd.
  destruct (s_tuple s) as [t|] eqn:Ht; cbn [is_some negb] in Hp;
    [|inversion Hd; subst; auto].
  destruct (negb (tu_local_addr t =? cx_addr cx)); [inversion Hd; subst; auto|].
  destruct (s_remote_last_ts s) as [lts|] eqn:Hlts; cbn [is_some negb] in Hp;
    [|inversion Hp; subst p; contradiction].
  destruct (tcp_state_eqb (s_state s) Closed) eqn:Hcl; [inversion Hp; subst p; contradiction|].
  destruct (tcp_seq_to_transmit cx s) as [[|]|e|] eqn:Hstt; cbn [obind] in Hp; try discriminate;
    [inversion Hp; subst p; contradiction|].
  destruct (tcp_window_to_update s) as [[|]|e|] eqn:Hwtu; cbn [obind] in Hp; try discriminate;
    [inversion Hp; subst p; contradiction|].
  inversion Hp as [Hp']; clear Hp. rewrite <- Hp' in Hf.
  apply poll_at_min_future in Hf. destruct Hf as (Hf & Hack).
  apply poll_at_min_future in Hf. destruct Hf as (Htm & Hto).
  destruct (timer_quiet_before _ _ Htm) as (Q1 & Q2 & Q3 & Q4).
  (* dispatch_timers does nothing *)
  assert (Hdt : tcp_dispatch_timers cx s = Ok (s, 200)).
  { unfold tcp_dispatch_timers. rewrite Hlts. cbn [is_some].
    assert (Hnto : tcp_timed_out s (cx_now cx) = false).
    { unfold tcp_timed_out. rewrite Hlts. destruct (s_timeout s); [cbn in Hto; lia | reflexivity]. }
    rewrite Hnto, Q1. reflexivity. }
  rewrite Hdt in Hd. cbn [obind] in Hd.
  (* dispatch_decide finds no reason *)
  assert (Hdd : tcp_dispatch_decide cx s = Ok (s, false, 217)).
  { unfold tcp_dispatch_decide. rewrite Hstt. cbn [obind].
    assert (Hna : tcp_ack_to_transmit s && tcp_delayed_ack_expired s (cx_now cx) = false).
    { destruct (tcp_ack_to_transmit s); [|reflexivity]. cbn [negb andb] in *.
      unfold tcp_delayed_ack_expired. destruct (s_ack_delay_timer s); cbn in Hack; try contradiction. lia. }
    rewrite Hna, Hwtu. cbn [obind]. rewrite Hcl, Q2, Q3, Q4. reflexivity. }
  rewrite Hdd in Hd. cbn [obind negb] in Hd. inversion Hd; subst. auto.
Qed.

(* ------------------------------------------------------------------------------------------ *)
(* C13 clause 2 for TCP: after a dispatch that emitted nothing the deadline is in the future   *)
(* ------------------------------------------------------------------------------------------ *)
Lemma tcp_reset_tuple : forall s, s_tuple (tcp_reset s) = None.
Proof. intros. unfold tcp_reset. sproj. reflexivity. Qed.

Lemma poll_at_no_tuple : forall cx s, s_tuple s = None -> tcp_poll_at cx s = Ok PIngress.
Proof. intros cx s H. unfold tcp_poll_at. rewrite H. reflexivity. Qed.

(* ---------- dispatch_timers ---------- *)
Definition dt_pre (cx : ctx) (s : socket) : socket :=
  if is_some (s_remote_last_ts s) then s else upd_remote_last_ts s (Some (cx_now cx)).

(* fields the liveness invariant reads; [core_eq s s'] = they all agree *)
Definition core_eq (s s' : socket) : Prop :=
  s_state s' = s_state s /\ s_timer s' = s_timer s /\ s_tuple s' = s_tuple s /\
  s_tx_buffer s' = s_tx_buffer s /\ s_local_seq_no s' = s_local_seq_no s /\
  s_remote_last_seq s' = s_remote_last_seq s /\ s_remote_win_len s' = s_remote_win_len s /\
  s_remote_win_scale s' = s_remote_win_scale s /\
  s_congestion_controller s' = s_congestion_controller s /\ s_rtte s' = s_rtte s /\
  s_remote_mss s' = s_remote_mss s.

Lemma core_eq_refl : forall s, core_eq s s.
Proof. intros. repeat split. Qed.

Lemma core_eq_trans : forall a b c, core_eq a b -> core_eq b c -> core_eq a c.
Proof.
  intros a b c (A1&A2&A3&A4&A5&A6&A7&A8&A9&A10&A11) (B1&B2&B3&B4&B5&B6&B7&B8&B9&B10&B11).
  unfold core_eq. rewrite B1,B2,B3,B4,B5,B6,B7,B8,B9,B10,B11. auto 13.
Qed.

Lemma inv_core_eq : forall s s', core_eq s s' -> tcp_live_inv s -> tcp_live_inv s'.
Proof.
  intros s s' (E1&E2&E3&E4&E5&E6&E7&E8&E9&E10&E11) I.
  destruct I. constructor; unfold live_K in *; rewrite ?E1, ?E2, ?E3, ?E4, ?E5, ?E6, ?E7, ?E8, ?E9, ?E10, ?E11;
    assumption.
Qed.

Ltac conj_split := repeat match goal with |- _ /\ _ => split end.
Ltac core_triv := unfold core_eq; sproj; repeat split; reflexivity.

Lemma dt_pre_core : forall cx s, core_eq s (dt_pre cx s).
Proof. intros. unfold dt_pre. destruct (is_some (s_remote_last_ts s)); core_triv. Qed.

Lemma dt_pre_lts : forall cx s, is_some (s_remote_last_ts (dt_pre cx s)) = true.
Proof.
  intros. unfold dt_pre. destruct (is_some (s_remote_last_ts s)) eqn:E; [exact E|]. reflexivity.
Qed.

Lemma dt_pre_misc : forall cx s,
  s_timeout (dt_pre cx s) = s_timeout s /\ s_keep_alive (dt_pre cx s) = s_keep_alive s /\
  s_pending_fast_retransmit (dt_pre cx s) = s_pending_fast_retransmit s.
Proof. intros. unfold dt_pre. destruct (is_some (s_remote_last_ts s)); sproj; auto. Qed.

(* what [tcp_dispatch_timers] does, by branch.  [q] is the socket after the remote_last_ts
   initialisation. *)
Lemma dt_spec : forall cx s s1 tg,
  tcp_dispatch_timers cx s = Ok (s1, tg) ->
  let q := dt_pre cx s in
  let now := cx_now cx in
  (* timeout: CLOSED *)
  (tcp_timed_out q now = true /\ s1 = tcp_set_state q Closed) \/
  (* nothing due *)
  (tcp_timed_out q now = false /\ timer_should_retransmit (s_timer q) now = false /\ s1 = q) \/
  (* retransmission timer / fast retransmit fired *)
  (tcp_timed_out q now = false /\ timer_should_retransmit (s_timer q) now = true /\
   s_state s1 = s_state q /\ s_tuple s1 = s_tuple q /\ s_tx_buffer s1 = s_tx_buffer q /\
   s_local_seq_no s1 = s_local_seq_no q /\ s_remote_win_len s1 = s_remote_win_len q /\
   s_remote_win_scale s1 = s_remote_win_scale q /\ s_remote_last_ts s1 = s_remote_last_ts q /\
   s_timeout s1 = s_timeout q /\
   (cc_ok (s_congestion_controller q) -> cc_ok (s_congestion_controller s1)) /\
   (rtte_ok (s_rtte q) -> rtte_ok (s_rtte s1)) /\
   (s_remote_last_seq s1 = s_remote_last_seq q \/ s_remote_last_seq s1 = s_local_seq_no q) /\
   (rtte_ok (s_rtte q) -> timer_should_retransmit (s_timer s1) now = false) /\
   (timer_is_close (s_timer q) = false ->
    timer_armed (s_timer s1) = true \/
    (timer_is_idle (s_timer s1) = true /\ s_remote_last_seq s1 = s_local_seq_no s1 /\
     (0 < rb_len (s_tx_buffer s1) -> s_remote_win_len s1 <> 0))) /\
   s_remote_mss s1 = s_remote_mss q).
Proof.
  intros cx s s1 tg H q now. unfold tcp_dispatch_timers in H. fold (dt_pre cx s) in H. fold q in H.
  fold now in H.
  destruct (tcp_timed_out q now) eqn:Hto; [left; inversion H; auto|].
  destruct (timer_should_retransmit (s_timer q) now) eqn:Hsr;
    [|right; left; inversion H; auto].
  right; right. split; [reflexivity|]. split; [reflexivity|].
  obind_inv H.
  destruct (s_timer q) as [k|e| |e d|e] eqn:Ht; cbn in Hsr; try discriminate.
  - (* RTO *)
    (* since /repo 883b7a7 the RTO clears pending_fast_retransmit: only the probe question is left *)
    sproj in H. cbn [andb negb] in H.
    destruct ((s_remote_win_len q =? 0) && negb (rb_is_empty (s_tx_buffer q))) eqn:Hz;
      inversion H; subst s1 tg; clear H; sproj; conj_split; try reflexivity; auto;
      try apply cc_on_rto_ok; try apply rtte_on_rto_ok.
    intros _. right. split; [reflexivity|]. split; [reflexivity|].
    intros HL HW. rewrite HW, (rb_is_empty_false _ HL) in Hz. discriminate.
  - (* fast retransmit *)
    sproj in H. inversion H; subst s1 tg; clear H. sproj. conj_split; try reflexivity; auto.
    + apply cc_on_loss_ok.
    + intros Hr. cbn. apply rtte_timeout_bounds in Hr. lia.
Qed.

(* ---------- dispatch_decide ---------- *)
Lemma decide_spec : forall cx s s2 go tg,
  tcp_dispatch_decide cx s = Ok (s2, go, tg) ->
  (go = true /\ s2 = s) \/
  (go = false /\ s2 = upd_tuple (tcp_set_state s Closed) None) \/
  (go = false /\ s2 = s /\
   tcp_seq_to_transmit cx s = Ok false /\
   tcp_ack_to_transmit s && tcp_delayed_ack_expired s (cx_now cx) = false /\
   tcp_window_to_update s = Ok false /\
   tcp_state_eqb (s_state s) Closed = false /\
   timer_should_keep_alive (s_timer s) (cx_now cx) = false /\
   timer_should_zero_window_probe (s_timer s) (cx_now cx) = false /\
   timer_should_close (s_timer s) (cx_now cx) = false).
Proof.
  intros cx s s2 go tg H. unfold tcp_dispatch_decide in H.
  destruct (tcp_seq_to_transmit cx s) as [[|]|e|]; cbn [obind] in H; try discriminate;
    [inversion H; auto|].
  destruct (tcp_ack_to_transmit s && tcp_delayed_ack_expired s (cx_now cx)); [inversion H; auto|].
  destruct (tcp_window_to_update s) as [[|]|e|]; cbn [obind] in H; try discriminate;
    [inversion H; auto|].
  destruct (tcp_state_eqb (s_state s) Closed); [inversion H; auto|].
  destruct (timer_should_keep_alive (s_timer s) (cx_now cx)); [inversion H; auto|].
  destruct (timer_should_zero_window_probe (s_timer s) (cx_now cx)); [inversion H; auto|].
  destruct (timer_should_close (s_timer s) (cx_now cx)); inversion H; subst; [right; left; auto|].
  right; right. repeat split; reflexivity.
Qed.

(* ---------- dispatch_build: nothing is built only in LISTEN ---------- *)
Lemma build_data_some : forall cx s repr s3 o z tg,
  tcp_dispatch_build_data cx s repr = Ok (s3, o, z, tg) -> o <> None.
Proof.
  intros cx s repr s3 o z tg H. unfold tcp_dispatch_build_data in H.
  obind_inv H. obind_inv H. obind_inv H. destruct a1 as ((((s', r'), off), zw), tg').
  inversion H; subst. discriminate.
Qed.

Lemma build_none_listen : forall cx s t s3 z k tg,
  tcp_dispatch_build cx s t = Ok (s3, None, z, k, tg) -> s_state s = Listen.
Proof.
  intros cx s t s3 z k tg H. unfold tcp_dispatch_build in H.
  obind_inv H. destruct a as (((sb, ob), zb), tb).
  destruct ob as [rb|].
  - obind_inv H. inversion H.
  - destruct (s_state s); try reflexivity; try (inversion E; fail);
      try (apply build_data_some in E; congruence).
    destruct (s_syn_unacked_in_fin_wait s); [inversion E | apply build_data_some in E; congruence].
Qed.

Lemma tcp_state_eqb_false : forall a b, tcp_state_eqb a b = false -> a <> b.
Proof. intros [] []; cbn; congruence. Qed.

Lemma tcp_state_eqb_true : forall a b, tcp_state_eqb a b = true -> a = b.
Proof. intros [] []; cbn; congruence. Qed.

Lemma timer_future_after : forall t now,
  timer_should_retransmit t now = false -> timer_should_keep_alive t now = false ->
  timer_should_zero_window_probe t now = false -> timer_should_close t now = false ->
  pa_future now (timer_poll_at t).
Proof.
  intros [[k|]| e | | e d | e] now H1 H2 H3 H4; cbn in *; try lia; try exact I; discriminate.
Qed.

Lemma tcp_no_spin_lemma : forall cx s emit_ok s' tags p,
  rtte_ok (s_rtte s) -> (s_state s = Listen -> s_tuple s = None) ->
  tcp_dispatch cx s emit_ok = Ok (s', DNothing, tags) ->
  tcp_poll_at cx s' = Ok p -> pa_future (cx_now cx) p.
Proof.
  intros cx s emit_ok s' tags p Hr Hl Hd Hp. unfold tcp_dispatch in Hd.
  destruct (s_tuple s) as [t|] eqn:Ht.
  2:{ inversion Hd; subst s'. rewrite (poll_at_no_tuple _ _ Ht) in Hp. inversion Hp. exact I. }
  destruct (negb (tu_local_addr t =? cx_addr cx)).
  { inversion Hd; subst s'. rewrite (poll_at_no_tuple _ _ (tcp_reset_tuple s)) in Hp.
    inversion Hp. exact I. }
  obind_inv Hd. destruct a as (s1, t1). obind_inv Hd. destruct a as ((s2, go), t2).
  pose proof (dt_pre_core cx s) as (Q1 & Q2 & Q3 & Q4 & Q5 & Q6 & Q7 & Q8 & Q9 & Q10 & Q11).
  pose proof (dt_pre_lts cx s) as Qlts. pose proof (dt_pre_misc cx s) as (Qto & _).
  destruct (decide_spec _ _ _ _ _ E0) as [(-> & ->) | [(-> & ->) | (-> & -> & D1 & D2 & D3 & D4 & D5 & D6 & D7)]].
  - (* a reason to send: something is built unless LISTEN, which has no tuple *)
    cbn [negb] in Hd. obind_inv Hd. destruct a as ((((s3, o), z), k), t3).
    destruct o as [repr|].
    + destruct (negb emit_ok); [inversion Hd|].
      destruct (tcp_dispatch_finish cx s3 repr z k). inversion Hd.
    + exfalso. apply build_none_listen in E1.
      destruct (dt_spec _ _ _ _ E) as [(_ & ->) | [(_ & _ & ->) | (_ & _ & Hs & _)]].
      * sproj in E1. discriminate E1.
      * rewrite Q1 in E1. discriminate (Hl E1).
      * rewrite Hs, Q1 in E1. discriminate (Hl E1).
  - (* TIME-WAIT expired *)
    cbn [negb] in Hd. inversion Hd; subst s'.
    rewrite poll_at_no_tuple in Hp by (sproj; reflexivity). inversion Hp. exact I.
  - (* nothing to do: every guard of dispatch is false, and poll_at reads the same guards *)
    cbn [negb] in Hd. inversion Hd; subst s'. clear Hd.
    unfold tcp_poll_at in Hp. rewrite D1, D3, D4 in Hp. cbn [obind] in Hp.
    assert (Hfacts : is_some (s_tuple s1) = true /\ is_some (s_remote_last_ts s1) = true /\
                     tcp_timed_out s1 (cx_now cx) = false /\
                     timer_should_retransmit (s_timer s1) (cx_now cx) = false).
    { destruct (dt_spec _ _ _ _ E) as [(_ & ->) | [(Hto & Hsr & ->) | (Hto & _ & Hs & Htu & _ & _ & _ & _ & Hlts & Htmo & _ & _ & _ & Hsr & _)]].
      - sproj in D4. discriminate D4.
      - rewrite Q3, Ht. auto.
      - rewrite Htu, Q3, Ht, Hlts. split; [reflexivity|]. split; [exact Qlts|]. split.
        + unfold tcp_timed_out in *. rewrite Hlts, Htmo. exact Hto.
        + apply Hsr. rewrite Q10. exact Hr. }
    destruct Hfacts as (F1 & F2 & F3 & F4). rewrite F1, F2 in Hp. cbn [negb] in Hp.
    inversion Hp as [Hp']; clear Hp.
    apply poll_at_min_future. split; [apply poll_at_min_future; split|].
    + apply timer_future_after; assumption.
    + unfold tcp_timed_out in F3.
      destruct (s_remote_last_ts s1); [|exact I]. destruct (s_timeout s1); [cbn; lia | exact I].
    + destruct (tcp_ack_to_transmit s1); [|exact I]. cbn [negb andb] in *.
      unfold tcp_delayed_ack_expired in D2. destruct (s_ack_delay_timer s1); try discriminate.
      cbn. lia.
Qed.

(* ------------------------------------------------------------------------------------------ *)
(* preservation: API calls                                                                      *)
(* ------------------------------------------------------------------------------------------ *)
Ltac inv_destruct I := destruct I as [Il It Ic In Iu Ix Iw Is Ib Icc Ir IK Im].

Lemma rb_clear_len : forall r, rb_len (rb_clear r) = 0.
Proof. reflexivity. Qed.

Lemma u32_0 : u32 0.
Proof. unfold u32. lia. Qed.

Lemma default_mss_pos : 0 < tcp_DEFAULT_MSS.
Proof. reflexivity. Qed.

Lemma reset_inv : forall s, tcp_live_inv s -> tcp_live_inv (tcp_reset s).
Proof.
  intros s I. inv_destruct I. unfold tcp_reset.
  constructor; unfold live_K; sproj; cbn [timer_new timer_is_close st_conn st_nodata st_live];
    try discriminate; try congruence; auto using u32_0, rb_clear_wf, rtte_default_ok, default_mss_pos.
  change (2 ^ 30) with 1073741824. lia.
Qed.

Lemma new_inv : forall rx tx cc ts s,
  cc_ok cc -> tcp_new rx tx cc ts = Ok s -> tcp_live_inv s.
Proof.
  intros rx tx cc ts s Hcc H. unfold tcp_new in H.
  destruct (rb_cap (rb_new rx) >? 2 ^ 30); [discriminate|]. inversion H; subst s; clear H.
  constructor; unfold live_K; sproj; cbn [timer_new timer_is_close st_conn st_nodata st_live];
    try discriminate; try congruence; auto using u32_0, rb_new_wf, rtte_default_ok, default_mss_pos.
  change (2 ^ 30) with 1073741824. lia.
Qed.

Lemma reset_tx_len : forall s, rb_len (s_tx_buffer (tcp_reset s)) = 0.
Proof. intros. unfold tcp_reset. sproj. reflexivity. Qed.

Lemma reset_state : forall s, s_state (tcp_reset s) = Closed.
Proof. intros. unfold tcp_reset. sproj. reflexivity. Qed.

Lemma reset_timer : forall s, s_timer (tcp_reset s) = timer_new.
Proof. intros. unfold tcp_reset. sproj. reflexivity. Qed.

(* NOTE (proof engineering): [sproj] must only be used on sockets of the form
   upd_a (upd_b (... x ...)) with [x] a VARIABLE: the kernel re-checks the reduction by
   conversion, and comparing two different large socket terms under the same projection is
   exponential.  Large sub-terms ([tcp_reset s], results of phases) are abstracted first. *)
Lemma listen_inv : forall s ep s', tcp_live_inv s -> tcp_listen s ep = Ok s' -> tcp_live_inv s'.
Proof.
  intros s ep s' I H. unfold tcp_listen in H.
  destruct (le_port ep =? 0); [discriminate|].
  destruct (tcp_is_open s).
  - destruct (tcp_state_eqb (s_state s) Listen && listen_endpoint_eqb (s_listen_endpoint s) ep);
      inversion H; subst; exact I.
  - inversion H; subst s'; clear H. pose proof (reset_inv s I) as J.
    pose proof (reset_tx_len s) as HL. pose proof (reset_timer s) as HT.
    revert J HL HT. generalize (tcp_reset s). intros R J HL HT. inv_destruct J.
    constructor; unfold live_K; sproj; cbn [st_conn st_nodata st_live]; try discriminate; auto.
    rewrite HT. discriminate.
Qed.

Lemma connect_inv : forall cx s ra rp le s',
  ctx_ok cx -> tcp_live_inv s -> tcp_connect cx s ra rp le = Ok s' -> tcp_live_inv s'.
Proof.
  intros cx s ra rp le s' Hcx I H. unfold tcp_connect in H.
  destruct (tcp_is_open s); [discriminate|].
  destruct ((rp =? 0) || (ra =? 0)); [discriminate|].
  destruct (le_port le =? 0); [discriminate|].
  obind_inv H. inversion H; subst s'; clear H.
  pose proof (reset_inv s I) as J.
  pose proof (reset_tx_len s) as HL. pose proof (reset_timer s) as HT.
  revert J HL HT. generalize (tcp_reset s). intros R J HL HT. inv_destruct J.
  constructor; unfold live_K; sproj; cbn [st_conn st_nodata st_live]; try discriminate; auto.
  - rewrite HT. discriminate.
  - intros _. right. split; [reflexivity|]. lia.
Qed.

Lemma close_inv : forall s, tcp_live_inv s -> tcp_live_inv (tcp_close s).
Proof.
  intros s I. inv_destruct I. unfold tcp_close, live_K in *.
  destruct (s_state s) eqn:Hst; try (constructor; unfold live_K; rewrite ?Hst; assumption);
    constructor; unfold live_K; sproj; cbn [st_conn st_nodata st_live] in *;
    try discriminate; auto; try (intros _; apply IK; reflexivity).
  all: try (intros Hc; destruct (Ic Hc); discriminate).
Qed.

Lemma abort_inv : forall s, tcp_live_inv s -> tcp_live_inv (tcp_abort s).
Proof.
  intros s I. inv_destruct I. unfold tcp_abort.
  constructor; unfold live_K; sproj; cbn [st_conn st_nodata st_live]; try discriminate; auto.
Qed.

Lemma send_slice_inv : forall s data s' n,
  tcp_live_inv s -> tcp_send_slice s data = Ok (s', n) -> tcp_live_inv s'.
Proof.
  intros s data s' n I H. unfold tcp_send_slice in H.
  destruct (tcp_may_send s) eqn:Hms; cbn [negb] in H; [|discriminate].
  destruct (rb_enqueue_slice (s_tx_buffer s) data) as (tx, size) eqn:Henq.
  inv_destruct I.
  destruct (rb_enqueue_slice_spec _ _ _ _ Ib Henq) as (Wtx & _ & Ltx & Hsz & _).
  assert (Hlive : st_live (s_state s) = true /\ st_nodata (s_state s) = false)
    by (unfold tcp_may_send in Hms; destruct (s_state s); try discriminate; auto).
  destruct Hlive as (Hlive & Hnd).
  assert (Hnc : timer_is_close (s_timer s) = false).
  { destruct (timer_is_close (s_timer s)) eqn:E; [|reflexivity].
    destruct (Ic eq_refl) as [X|X]; rewrite X in Hlive; discriminate. }
  destruct (size >? 0) eqn:Hpos.
  2:{ inversion H; subst s' n; clear H. assert (size = 0) by lia. subst size.
      constructor; unfold live_K in *; sproj; auto.
      - rewrite Hnd. discriminate.
      - rewrite Ltx, Z.add_0_r. exact IK. }
  inversion H; subst s' n; clear H.
  set (s1 := if rb_len (s_tx_buffer s) =? 0
             then upd_remote_last_ts (upd_tx_buffer s tx) None else upd_tx_buffer s tx).
  assert (C1 : s_state s1 = s_state s /\ s_timer s1 = s_timer s /\ s_tuple s1 = s_tuple s /\
               s_tx_buffer s1 = tx /\ s_local_seq_no s1 = s_local_seq_no s /\
               s_remote_last_seq s1 = s_remote_last_seq s /\ s_remote_win_len s1 = s_remote_win_len s /\
               s_remote_win_scale s1 = s_remote_win_scale s /\
               s_congestion_controller s1 = s_congestion_controller s /\ s_rtte s1 = s_rtte s /\
               s_remote_mss s1 = s_remote_mss s).
  { unfold s1. destruct (rb_len (s_tx_buffer s) =? 0); sproj; repeat split; reflexivity. }
  destruct C1 as (C1 & C2 & C3 & C4 & C5 & C6 & C7 & C8 & C9 & C10 & C11).
  destruct ((s_remote_win_len s1 =? 0) && timer_is_idle (s_timer s1)) eqn:Hz.
  - (* window closed and timer idle: the probe timer is armed *)
    constructor; unfold live_K; sproj; rewrite ?C1, ?C3, ?C4, ?C5, ?C6, ?C7, ?C8, ?C9, ?C10, ?C11; auto.
    + cbn. discriminate.
    + rewrite Hnd. discriminate.
  - constructor; unfold live_K in *; rewrite ?C1, ?C2, ?C3, ?C4, ?C5, ?C6, ?C7, ?C8, ?C9, ?C10, ?C11; auto.
    + rewrite Hnd. discriminate.
    + intros _. destruct (IK Hlive) as [Ha | (Hfl & Hw)]; [left; exact Ha|].
      destruct (timer_cases (s_timer s)) as [Hi | [Ha | Hc]]; [|left; exact Ha|congruence].
      right. split; [exact Hfl|]. intros _ HW. rewrite C7, C2, HW, Hi in Hz. discriminate.
Qed.

Lemma recv_slice_core : forall s n s' l, tcp_recv_slice s n = Ok (s', l) -> core_eq s s'.
Proof.
  intros s n s' l H. unfold tcp_recv_slice in H. obind_inv H.
  destruct (rb_dequeue_slice (s_rx_buffer s) n) as (rx, bytes). inversion H; subst. core_triv.
Qed.

Lemma set_keep_alive_inv : forall s d, tcp_live_inv s -> tcp_live_inv (tcp_set_keep_alive s d).
Proof.
  intros s d I. inv_destruct I. unfold tcp_set_keep_alive.
  destruct (is_some d); constructor; unfold live_K in *; sproj; auto;
    rewrite ?set_keep_alive_close, ?set_keep_alive_armed; auto.
Qed.

Lemma set_hop_limit_core : forall s h s', tcp_set_hop_limit s h = Ok s' -> core_eq s s'.
Proof.
  intros s h s' H. unfold tcp_set_hop_limit in H.
  destruct h as [[|?|?]|]; inversion H; subst; core_triv.
Qed.

(* ------------------------------------------------------------------------------------------ *)
(* preservation: tcp_process, phase by phase                                                    *)
(* ------------------------------------------------------------------------------------------ *)
Lemma ack_reply_core : forall cx s ip r, core_eq s (fst (tcp_ack_reply cx s ip r)).
Proof.
  intros. unfold tcp_ack_reply. destruct (tcp_reply ip r) as (ip', reply). cbn [fst]. core_triv.
Qed.

Lemma challenge_ack_core : forall cx s ip r, core_eq s (fst (tcp_challenge_ack_reply cx s ip r)).
Proof.
  intros. unfold tcp_challenge_ack_reply.
  destruct (cx_now cx <? s_challenge_ack_timer s); [apply core_eq_refl|].
  pose proof (ack_reply_core cx (upd_challenge_ack_timer s (cx_now cx + 1000000)) ip r) as H.
  destruct (tcp_ack_reply cx (upd_challenge_ack_timer s (cx_now cx + 1000000)) ip r) as (s1, p).
  cbn [fst] in *. eapply core_eq_trans; [|exact H]. core_triv.
Qed.

(* the acknowledgement of a segment that passed the ACK check is not behind SND.UNA *)
Lemma ack_not_behind : forall a una b, u32 a -> u32 una -> 0 <= b <= 1 ->
  seq_lt a (seq_add una b) = false -> a = una \/ seq_lt una a = true.
Proof.
  intros a una b Ha Hu Hb. sequ.
  destruct (Z.ltb_spec ((a - (una + b) mod 4294967296) mod 4294967296) 2147483648);
  destruct (Z.ltb_spec ((una - a) mod 4294967296) 2147483648); lia.
Qed.

Lemma b2z_range : forall b, 0 <= b2z b <= 1.
Proof. intros []; cbn; lia. Qed.

Lemma ack_check_fresh : forall cx s ip r tg,
  tcp_process_ack_check cx s ip r = Ok (Cont tg tt) ->
  u32 (s_local_seq_no s) -> seg_ok r -> r_control r <> CRst ->
  (s_state s = Listen -> r_ack_number r = None) /\
  (s_state s = SynSent -> r_control r = CSyn /\
     forall a, r_ack_number r = Some a -> a = seq_add (s_local_seq_no s) 1) /\
  (forall a, r_ack_number r = Some a -> a = s_local_seq_no s \/ seq_lt (s_local_seq_no s) a = true) /\
  (s_state s <> Listen -> s_state s <> SynSent -> r_ack_number r <> None).
Proof.
  intros cx s ip r tg H Hu (_ & Hack & _) Hc. unfold tcp_process_ack_check in H.
  assert (Hsucc : seq_add (s_local_seq_no s) 1 = s_local_seq_no s \/
                  seq_lt (s_local_seq_no s) (seq_add (s_local_seq_no s) 1) = true)
    by (right; apply seq_lt_succ).
  destruct (s_state s) eqn:Hst; destruct (r_control r) eqn:Hctl; try congruence;
    destruct (r_ack_number r) as [a|] eqn:Ha; try discriminate;
    repeat match type of H with
           | context [if ?b then _ else _] => destruct b eqn:?
           | (do _ <- ?m; _) = _ => destruct m; cbn [obind] in H
           | (let '(_, _) := ?m in _) = _ => destruct m
           end; try discriminate;
    (split; [congruence|]);
    (split; [first [congruence |
                    intros _; split; [reflexivity|]; intros a' Ea; first [discriminate Ea |
                      inversion Ea; subst a';
                      match goal with E : negb (_ =? _) = false |- _ =>
                        apply negb_false_iff, Z.eqb_eq in E; exact E end]]|]);
    (split; [|congruence]);
    intros a' Ea; inversion Ea; subst a'; clear Ea;
    try (match goal with E : (_ =? _) = true |- _ => apply Z.eqb_eq in E; subst a end; exact Hsucc);
    try (match goal with E : negb (_ =? _) = false |- _ =>
           apply negb_false_iff, Z.eqb_eq in E; subst a end; exact Hsucc);
    try (eapply ack_not_behind; [exact Hack | exact Hu | apply b2z_range | eassumption]).
Qed.

(* window phase: the continuing socket differs only in local_rx_last_seq; a returning one is the
   same connection (the TIME-WAIT timer may be restarted, ACK bookkeeping updated) *)
Lemma upd_close_timer_inv : forall s now,
  s_state s = TimeWait -> tcp_live_inv s -> tcp_live_inv (upd_timer s (timer_set_for_close now)).
Proof.
  intros s now Hst I. inv_destruct I.
  constructor; unfold live_K in *; sproj; auto. rewrite Hst. cbn. discriminate.
Qed.

Lemma process_window_spec : forall cx s ip r p2,
  tcp_process_window cx s ip r = Ok p2 -> tcp_live_inv s ->
  match p2 with
  | Cont _ (s2, _, _) => core_eq s s2
  | Ret _ s' _ => tcp_live_inv s'
  end.
Proof.
  intros cx s ip r p2 H I. unfold tcp_process_window in H.
  assert (Hmain :
    (let '(in_window, tg) := tcp_segment_in_window (tcp_window_start s) (tcp_window_end s)
                               (r_seq_number r) (seq_add (r_seq_number r) (l_len (r_payload r))) in
      if in_window then
        let overlap_start := seq_max (tcp_window_start s) (r_seq_number r) in
        let overlap_end := seq_min (tcp_window_end s) (seq_add (r_seq_number r) (l_len (r_payload r))) in
        if negb (seq_le overlap_start overlap_end) then Panic else
        let s := upd_local_rx_last_seq s (Some (r_seq_number r)) in
        do a <- seq_sub overlap_start (r_seq_number r);
        do b <- seq_sub overlap_end (r_seq_number r);
        do payload <- slice_range (r_payload r) a b;
        do off <- seq_sub overlap_start (tcp_window_start s);
        Ok (Cont tg (s, payload, off))
      else if control_eqb (r_control r) CRst then Ok (Ret (tg + 1000) s None)
      else
        let s := if tcp_state_eqb (s_state s) TimeWait
                 then upd_timer s (timer_set_for_close (cx_now cx)) else s in
        if (match r_payload r with [] => false | _ => true end)
           && (match r_control r with CNone | CPsh | CFin => true | _ => false end)
        then let '(s', p) := tcp_ack_reply cx s ip r in Ok (Ret (tg + 2000) s' (Some p))
        else let '(s', p) := tcp_challenge_ack_reply cx s ip r in Ok (Ret (tg + 3000) s' p)) = Ok p2 ->
    match p2 with
    | Cont _ (s2, _, _) => core_eq s s2
    | Ret _ s' _ => tcp_live_inv s'
    end).
  { clear H. intros H. cbv zeta in H.
    destruct (tcp_segment_in_window _ _ _ _) as (inw, tg).
    destruct inw.
    - destruct (negb (seq_le _ _)); [discriminate|].
      obind_inv H. obind_inv H. obind_inv H. obind_inv H. inversion H; subst p2. core_triv.
    - destruct (control_eqb (r_control r) CRst); [inversion H; subst p2; exact I|].
      set (q := if tcp_state_eqb (s_state s) TimeWait
                then upd_timer s (timer_set_for_close (cx_now cx)) else s) in *.
      assert (Iq : tcp_live_inv q).
      { unfold q. destruct (tcp_state_eqb (s_state s) TimeWait) eqn:E; [|exact I].
        apply upd_close_timer_inv; [apply tcp_state_eqb_true; exact E | exact I]. }
      clearbody q.
      destruct ((match r_payload r with [] => false | _ => true end)
                && (match r_control r with CNone | CPsh | CFin => true | _ => false end)).
      + pose proof (ack_reply_core cx q ip r) as C. destruct (tcp_ack_reply cx q ip r) as (s', p).
        inversion H; subst p2. exact (inv_core_eq _ _ C Iq).
      + pose proof (challenge_ack_core cx q ip r) as C.
        destruct (tcp_challenge_ack_reply cx q ip r) as (s', p).
        inversion H; subst p2. exact (inv_core_eq _ _ C Iq). }
  destruct (s_state s); try exact (Hmain H); inversion H; subst p2; apply core_eq_refl.
Qed.

(* ---------- the invariant without its two history-dependent clauses ---------- *)
Record tcp_weak_inv (s : socket) : Prop := mkWeakInv {
  wi_listen : s_state s = Listen -> s_tuple s = None;
  wi_tuple : st_conn (s_state s) = true -> s_tuple s <> None;
  wi_close : timer_is_close (s_timer s) = true -> s_state s = TimeWait \/ s_state s = Closed;
  wi_una : u32 (s_local_seq_no s);
  wi_nxt : u32 (s_remote_last_seq s);
  wi_win : 0 <= s_remote_win_len s < 2 ^ 30;
  wi_scale : match s_remote_win_scale s with Some x => 0 <= x <= 14 | None => True end;
  wi_tx : rb_wf (s_tx_buffer s);
  wi_cc : cc_ok (s_congestion_controller s);
  wi_rtte : rtte_ok (s_rtte s);
  wi_mss : 0 < s_remote_mss s
}.

Lemma inv_weak : forall s, tcp_live_inv s -> tcp_weak_inv s.
Proof. intros s I. inv_destruct I. constructor; assumption. Qed.

Lemma weak_inv_full : forall s, tcp_weak_inv s ->
  (st_nodata (s_state s) = true -> rb_len (s_tx_buffer s) = 0) -> live_K s -> tcp_live_inv s.
Proof. intros s [] Hn HK. constructor; assumption. Qed.

Ltac weak_destruct W := destruct W as [Wl Wt Wc Wu Wx Ww Ws Wb Wcc Wr Wm].

(* same fields, controller possibly different but still sane *)
Definition core_sim (s s' : socket) : Prop :=
  s_state s' = s_state s /\ s_timer s' = s_timer s /\ s_tuple s' = s_tuple s /\
  s_tx_buffer s' = s_tx_buffer s /\ s_local_seq_no s' = s_local_seq_no s /\
  s_remote_last_seq s' = s_remote_last_seq s /\ s_remote_win_len s' = s_remote_win_len s /\
  s_remote_win_scale s' = s_remote_win_scale s /\
  (cc_ok (s_congestion_controller s) -> cc_ok (s_congestion_controller s')) /\
  s_rtte s' = s_rtte s /\ 0 < s_remote_mss s'.

Lemma min_remote_mss_pos : 0 < tcp_MIN_REMOTE_MSS.
Proof. reflexivity. Qed.

Lemma apply_mss_sim : forall s r, 0 < s_remote_mss s ->
  core_sim s (tcp_apply_mss s r) /\
  s_listen_endpoint (tcp_apply_mss s r) = s_listen_endpoint s /\
  s_keep_alive (tcp_apply_mss s r) = s_keep_alive s.
Proof.
  intros s r Hm. unfold tcp_apply_mss, core_sim. pose proof min_remote_mss_pos.
  destruct (r_max_seg_size r) as [m|]; [destruct (m =? 0)|]; sproj;
    (repeat split; try reflexivity; try lia; try (apply cc_set_mss_ok; lia)).
Qed.

Lemma quash_spec : forall s r,
  (tcp_process_quash s r = CRst <-> r_control r = CRst) /\
  (tcp_process_quash s r = CSyn <-> r_control r = CSyn) /\
  tcp_process_quash s r <> CPsh.
Proof.
  intros. unfold tcp_process_quash.
  destruct (r_control r); cbn [quash_psh control_eqb andb];
    try (repeat split; congruence).
  destruct (seq_lt _ _ || seq_lt _ _); repeat split; congruence.
Qed.

Lemma ack_len_spec : forall s r al aof aall,
  tcp_process_ack_len s r = Ok (al, aof, aall) ->
  (aof = true -> al = rb_len (s_tx_buffer s)) /\
  (aall = true -> exists a, r_ack_number r = Some a /\ seq_le (s_remote_last_seq s) a = true).
Proof.
  intros s r al aof aall H. unfold tcp_process_ack_len in H.
  destruct (r_ack_number r) as [a|]; [|inversion H; subst; split; discriminate].
  destruct (control_eqb (r_control r) CRst); [inversion H; subst; split; discriminate|].
  destruct (seq_ge a _); [|inversion H; subst; split; discriminate].
  obind_inv H.
  destruct (tcp_sent_fin s && (rb_len (s_tx_buffer s) + 1 =? a0)) eqn:Hf;
    inversion H; subst al aof aall; clear H.
  - split; [intros _; apply andb_true_iff in Hf; lia|]. intros Ha. exists a. auto.
  - split; [discriminate|]. intros Ha. exists a. auto.
Qed.

(* ---------- the transition table ---------- *)
Definition trans_link (s s3 : socket) (c : control) (r : tcp_repr) : Prop :=
  (s_state s = Listen /\ s_local_seq_no s3 = s_remote_last_seq s3 /\
   timer_is_idle (s_timer s3) = true) \/
  (s_state s = SynSent /\ c = CSyn /\ s_local_seq_no s3 = s_local_seq_no s /\
   s_timer s3 = s_timer s /\
   s_remote_last_seq s3 = (if is_some (r_ack_number r) then seq_add (s_local_seq_no s) 1
                           else s_remote_last_seq s)) \/
  (s_state s <> Listen /\ s_state s <> SynSent /\ s_local_seq_no s3 = s_local_seq_no s /\
   s_remote_last_seq s3 = s_remote_last_seq s /\
   (st_live (s_state s3) = true -> st_live (s_state s) = true /\ s_timer s3 = s_timer s)).

Ltac close_contra :=
  let X := fresh in intros X;
  match goal with Hc : timer_is_close _ = true -> _ |- _ => destruct (Hc X); discriminate end.

Ltac weak_close W Hst :=
  weak_destruct W; constructor; sproj; rewrite ?Hst in *;
  cbn [st_conn st_live st_nodata timer_is_close timer_set_for_close timer_set_for_idle] in *;
  try discriminate; try assumption; auto; try close_contra.

(* RST in SYN-RECEIVED of a listener (/repo 4d1240b): back to a pristine LISTEN through reset() *)
Lemma relisten_inv : forall s ep, tcp_live_inv s ->
  tcp_live_inv (tcp_set_state (upd_listen_endpoint (tcp_reset s) ep) Listen).
Proof.
  intros s ep I. pose proof (reset_inv s I) as J.
  pose proof (reset_tx_len s) as HL. pose proof (reset_timer s) as HT.
  assert (HU : s_tuple (tcp_reset s) = None) by apply tcp_reset_tuple.
  revert J HL HT HU. generalize (tcp_reset s). intros R J HL HT HU. inv_destruct J.
  constructor; unfold live_K; sproj; cbn [st_conn st_nodata st_live]; try discriminate; auto.
  rewrite HT. discriminate.
Qed.

Lemma transition_ret : forall cx s ip r c al aof tg s' reply,
  tcp_process_transition cx s ip r c al aof = Ok (Ret tg s' reply) ->
  tcp_live_inv s -> tcp_live_inv s'.
Proof.
  intros cx s ip r c al aof tg s' reply H I. unfold tcp_process_transition in H.
  destruct (s_state s) eqn:Hst; destruct c;
    repeat match type of H with
           | context [if ?b then _ else _] => destruct b eqn:?
           end;
    try discriminate; try (inversion H; subst s'; exact I);
    try (cbv zeta in H; inversion H; subst s'; apply relisten_inv; exact I);
    try (inv_destruct I; inversion H; subst s'; constructor; unfold live_K in *; sproj;
         rewrite ?Hst in *; cbn [st_conn st_live st_nodata] in *; try discriminate; auto;
         match goal with Hc : timer_is_close _ = true -> _ |- timer_is_close _ = true -> _ =>
           let X := fresh in intros X; destruct (Hc X); discriminate end).
  (* LAST-ACK: challenge ACK *)
  pose proof (challenge_ack_core cx s ip r) as C.
  destruct (tcp_challenge_ack_reply cx s ip r) as (s1, p). inversion H; subst s'.
  exact (inv_core_eq _ _ C I).
Qed.

Lemma seg_scale_ok : forall r, seg_ok r ->
  match r_window_scale r with Some x => 0 <= x <= 14 | None => True end.
Proof. intros r (_ & _ & H). exact H. Qed.

Lemma transition_cont : forall cx s ip r c al aof tg s3,
  tcp_process_transition cx s ip r c al aof = Ok (Cont tg s3) ->
  tcp_weak_inv s -> ctx_ok cx -> seg_ok r ->
  tcp_weak_inv s3 /\ s_tx_buffer s3 = s_tx_buffer s /\
  (st_nodata (s_state s3) = true -> st_nodata (s_state s) = true \/ aof = true) /\
  trans_link s s3 c r.
Proof.
  intros cx s ip r c al aof tg s3 H W Hcx Hseg. unfold tcp_process_transition in H.
  pose proof (seg_scale_ok r Hseg) as Hsc.
  destruct (s_state s) eqn:Hst; destruct c;
    repeat match type of H with
           | context [if negb (le_port _ =? 0) then _ else _] => destruct (negb (le_port (s_listen_endpoint s) =? 0))
           | context [if aof then _ else _] => destruct aof
           | context [if (al =? 0) && _ then _ else _] => destruct ((al =? 0) && rb_is_empty (s_tx_buffer s))
           | (let '(_, _) := ?m in _) = _ => destruct m
           end;
    try discriminate.
  (* Listen, SYN *)
  { destruct (apply_mss_sim s r (wi_mss s W)) as ((A1&A2&A3&A4&A5&A6&A7&A8&A9&A10&Am) & A11 & A12).
    revert H A1 A2 A3 A4 A5 A6 A7 A8 A9 A10 A11 A12 Am. generalize (tcp_apply_mss s r).
    intros q H A1 A2 A3 A4 A5 A6 A7 A8 A9 A10 A11 A12 Am.
    destruct (is_some (r_timestamp r));
      destruct (is_some (s_remote_win_scale
                   (upd_remote_win_scale (upd_remote_has_sack (upd_remote_last_win (upd_remote_last_ack
                      (upd_remote_last_seq (upd_remote_seq_no (upd_local_seq_no (upd_tuple q
                         (Some (mkTuple (ip_dst ip) (r_dst_port r) (ip_src ip) (r_src_port r))))
                         (cx_isn cx)) (seq_add (r_seq_number r) 1))
                         (s_local_seq_no (upd_remote_seq_no (upd_local_seq_no (upd_tuple q
                         (Some (mkTuple (ip_dst ip) (r_dst_port r) (ip_src ip) (r_src_port r))))
                         (cx_isn cx)) (seq_add (r_seq_number r) 1)))) None) 0) (r_sack_permitted r))
                      (r_window_scale r))));
      inversion H; subst s3; clear H;
      (split; [weak_destruct W; constructor; sproj; cbn [st_conn timer_is_close timer_set_for_idle];
               try discriminate; try congruence; auto|]);
      (split; [sproj; congruence|]); (split; [sproj; rewrite ?Hst; cbn [st_nodata]; auto|]);
      left; sproj; repeat split; auto. }
  (* SynSent, SYN *)
  { destruct (apply_mss_sim s r (wi_mss s W)) as ((A1&A2&A3&A4&A5&A6&A7&A8&A9&A10&Am) & A11 & A12).
    revert H A1 A2 A3 A4 A5 A6 A7 A8 A9 A10 A11 A12 Am. generalize (tcp_apply_mss s r).
    intros q H A1 A2 A3 A4 A5 A6 A7 A8 A9 A10 A11 A12 Am.
    destruct (is_some (r_ack_number r)) eqn:Hack; destruct (is_some (r_timestamp r));
      match type of H with context [if is_some (s_remote_win_scale ?x) then _ else _] =>
        destruct (is_some (s_remote_win_scale x)) end;
      inversion H; subst s3; clear H;
      (split; [weak_destruct W; constructor; sproj; rewrite ?A1, ?A2, ?A3, ?A4, ?A5, ?A6, ?A7, ?A8, ?A10;
               rewrite ?Hst in *; cbn [st_conn] in *;
               try discriminate; try congruence; auto using seq_add_u32; try close_contra|]);
      (split; [sproj; congruence|]); (split; [sproj; rewrite ?Hst; cbn [st_nodata]; auto|]);
      right; left; sproj; rewrite ?A1, ?A2, ?A5, ?A6, ?Hack; repeat split; auto. }
  (* the remaining arms change only state / timer / tuple / rx bookkeeping *)
  all: unfold tcp_enter_time_wait, tcp_fin_received in H; inversion H; subst s3; clear H.
  all: split; [weak_close W Hst|].
  all: split; [sproj; reflexivity|].
  all: split; [sproj; rewrite ?Hst; cbn [st_nodata]; auto; try discriminate|].
  all: right; right; sproj; rewrite ?Hst; cbn [st_live];
       (split; [discriminate|]); (split; [discriminate|]);
       (split; [reflexivity|]); (split; [reflexivity|]);
       try discriminate; auto.
Qed.

(* ---------- update_remote ---------- *)
Lemma shl_window_bound : forall w x, 0 <= w <= 65535 -> 0 <= x <= 14 -> 0 <= shl w x < 2 ^ 30.
Proof.
  intros w x Hw Hx. unfold shl. change (2 ^ 30) with (2 ^ 16 * 2 ^ 14).
  assert (0 < 2 ^ x <= 2 ^ 14).
  { split; [apply Z.pow_pos_nonneg; lia|]. apply Z.pow_le_mono_r; lia. }
  change (2 ^ 16) with 65536. nia.
Qed.

Lemma update_remote_spec : forall cx s r al s4 wu,
  tcp_process_update_remote cx s r al = Ok (s4, wu) ->
  tcp_weak_inv s -> seg_ok r ->
  tcp_weak_inv s4 /\ s_state s4 = s_state s /\ s_timer s4 = s_timer s /\
  s_local_seq_no s4 = s_local_seq_no s /\ s_remote_last_seq s4 = s_remote_last_seq s /\
  s_keep_alive s4 = s_keep_alive s /\
  rb_len (s_tx_buffer s4) = (if al >? 0 then rb_len (s_tx_buffer s) - al else rb_len (s_tx_buffer s)).
Proof.
  intros cx s r al s4 wu H W (Hwin & _ & _). unfold tcp_process_update_remote in H. sproj in H.
  set (scale := match r_control r with
                | CSyn => 0
                | _ => match s_remote_win_scale s with Some x => x | None => 0 end
                end) in *.
  assert (Hscale : 0 <= scale <= 14).
  { unfold scale. pose proof (wi_scale s W) as Hs.
    destruct (r_control r); destruct (s_remote_win_scale s); lia. }
  pose proof (shl_window_bound _ _ Hwin Hscale) as Hb.
  destruct (al >? 0) eqn:Hal.
  - destruct (negb (rb_len (s_tx_buffer s) >=? al)) eqn:Hge; [discriminate|].
    obind_inv H. inversion H; subst s4 wu; clear H.
    assert (Hal0 : 0 <= al) by lia.
    destruct (rb_dequeue_allocated_spec _ _ _ (wi_tx s W) Hal0 E) as (_ & Wtx & _ & Ltx & _).
    weak_destruct W. sproj.
    split; [constructor; sproj; auto using cc_set_remote_window_ok|]. auto 10.
  - inversion H; subst s4 wu; clear H. weak_destruct W. sproj.
    split; [constructor; sproj; auto using cc_set_remote_window_ok|]. auto 10.
Qed.

(* ---------- duplicate-ACK phase ---------- *)
Lemma flight_size_ok_irrelevant : True. Proof. exact I. Qed.

Lemma dup_ack_spec : forall cx s r al wu s5 tg,
  tcp_process_dup_ack cx s r al wu = Ok (s5, tg) ->
  tcp_weak_inv s -> seg_ok r ->
  tcp_weak_inv s5 /\ s_state s5 = s_state s /\ s_tx_buffer s5 = s_tx_buffer s /\
  s_remote_win_len s5 = s_remote_win_len s /\ s_keep_alive s5 = s_keep_alive s /\
  (s_timer s5 = s_timer s \/ s_timer s5 = TFastRetransmit) /\
  match r_ack_number r with
  | None => s_local_seq_no s5 = s_local_seq_no s /\ s_remote_last_seq s5 = s_remote_last_seq s
  | Some a => s_local_seq_no s5 = a /\
              s_remote_last_seq s5 = (if seq_lt (s_remote_last_seq s) a then a else s_remote_last_seq s)
  end.
Proof.
  intros cx s r al wu s5 tg H W (_ & Hack & _). unfold tcp_process_dup_ack in H.
  destruct (r_ack_number r) as [a|].
  2:{ inversion H; subst s5. auto 10. }
  obind_inv H. destruct a0 as (q, tq).
  (* the socket after the counting / estimator step *)
  assert (Hq : tcp_weak_inv q /\ s_state q = s_state s /\ s_tx_buffer q = s_tx_buffer s /\
               s_remote_win_len q = s_remote_win_len s /\ s_keep_alive q = s_keep_alive s /\
               (s_timer q = s_timer s \/ s_timer q = TFastRetransmit) /\
               s_remote_last_seq q = s_remote_last_seq s /\ s_tuple q = s_tuple s).
  { clear H. weak_destruct W.
    match type of E with (if ?b then _ else _) = _ => destruct b end.
    - obind_inv E. inversion E; subst q tq; clear E.
      match goal with |- context [if ?b then upd_timer _ TFastRetransmit else _] => destruct b end;
        sproj; (split; [constructor; sproj; auto using cc_on_dup_ack_ok; cbn; discriminate|]); auto 10.
    - obind_inv E. obind_inv E. obind_inv E. inversion E; subst q tq; clear E.
      destruct (s_local_rx_dup_acks s >? 0); sproj in E0; sproj in E2; sproj;
        (split; [constructor; sproj; eauto using cc_on_ack_ok, rtte_on_ack_ok|]); auto 10. }
  destruct Hq as (Wq & Q1 & Q2 & Q3 & Q4 & Q5 & Q6 & Q7). clear E.
  sproj in H.
  destruct (seq_lt (s_remote_last_seq q) a) eqn:Hlt; inversion H; subst s5 tg; clear H;
    weak_destruct Wq; sproj; rewrite <- ?Q6, ?Hlt;
    (split; [constructor; sproj; auto|]); auto 10.
Qed.

(* ---------- timer phases: only the timer changes ---------- *)
Definition core_but_timer (s s' : socket) : Prop :=
  s_state s' = s_state s /\ s_tuple s' = s_tuple s /\
  s_tx_buffer s' = s_tx_buffer s /\ s_local_seq_no s' = s_local_seq_no s /\
  s_remote_last_seq s' = s_remote_last_seq s /\ s_remote_win_len s' = s_remote_win_len s /\
  s_remote_win_scale s' = s_remote_win_scale s /\
  s_congestion_controller s' = s_congestion_controller s /\ s_rtte s' = s_rtte s /\
  s_keep_alive s' = s_keep_alive s /\ s_remote_mss s' = s_remote_mss s.

Lemma weak_inv_timer : forall s s', tcp_weak_inv s -> core_but_timer s s' ->
  (timer_is_close (s_timer s') = true -> timer_is_close (s_timer s) = true) ->
  tcp_weak_inv s'.
Proof.
  intros s s' W (E1&E2&E3&E4&E5&E6&E7&E8&E9&E10&E11) Hc. weak_destruct W.
  constructor; rewrite ?E1, ?E2, ?E3, ?E4, ?E5, ?E6, ?E7, ?E8, ?E9, ?E11; auto.
Qed.

Definition timers_fn (t : timer) (now : Z) (ka : option Z) (rto al : Z) (aall : bool) : timer :=
  match t with
  | TRetransmit _ | TFastRetransmit =>
      if aall then timer_set_for_idle now ka
      else if al >? 0 then timer_set_for_retransmit t now rto else t
  | TIdle _ => timer_set_for_idle now ka
  | _ => t
  end.

Lemma timers_spec : forall cx s al aall,
  let s6 := fst (tcp_process_timers cx s al aall) in
  core_but_timer s s6 /\
  s_timer s6 = timers_fn (s_timer s) (cx_now cx) (s_keep_alive s)
                         (rtte_retransmission_timeout (s_rtte s)) al aall.
Proof.
  intros. unfold s6, tcp_process_timers, timers_fn, core_but_timer.
  destruct (s_timer s) eqn:Ht; try destruct aall; try destruct (al >? 0); cbn [fst]; sproj;
    conj_split; try reflexivity; exact Ht.
Qed.

Definition zwp_fn (t : timer) (now : Z) (ka : option Z) (rto al w len : Z) (flight : bool) : timer :=
  let t1 := if (w =? 0) && negb (len =? 0) && (timer_is_idle t || (al >? 0))
            then timer_set_for_zero_window_probe now rto else t in
  if (negb (w =? 0) || (len =? 0)) && timer_is_zero_window_probe t1
  then if flight then timer_set_for_retransmit (timer_set_for_idle now ka) now rto
       else timer_set_for_idle now ka
  else t1.

Lemma zwp_spec : forall cx s al,
  let s7 := fst (tcp_process_zwp cx s al) in
  core_but_timer s s7 /\
  s_timer s7 = zwp_fn (s_timer s) (cx_now cx) (s_keep_alive s)
                      (rtte_retransmission_timeout (s_rtte s)) al (s_remote_win_len s)
                      (rb_len (s_tx_buffer s))
                      (negb (s_remote_last_seq s =? s_local_seq_no s)).
Proof.
  intros. unfold s7, tcp_process_zwp, zwp_fn, core_but_timer, rb_is_empty.
  destruct ((s_remote_win_len s =? 0) && negb (rb_len (s_tx_buffer s) =? 0)
            && (timer_is_idle (s_timer s) || (al >? 0))); sproj;
  match goal with |- context [if ?b && ?c then _ else _] => destruct (b && c) end; sproj;
  try destruct (negb (s_remote_last_seq s =? s_local_seq_no s)); cbn [fst]; sproj;
  conj_split; reflexivity.
Qed.

(* the timer arithmetic at the heart of the invariant: whatever the timer was after the
   acknowledgement bookkeeping, after the two timer phases it is armed, or nothing is in flight and
   no octets wait behind a closed window *)
Lemma K_after_timer_phases : forall t5 now ka rto al aall una nxt w len,
  0 <= len ->
  timer_is_close t5 = false ->
  (timer_armed t5 = true \/ nxt = una) ->
  (aall = true -> nxt = una) ->
  let t6 := timers_fn t5 now ka rto al aall in
  let t7 := zwp_fn t6 now ka rto al w len (negb (nxt =? una)) in
  timer_is_close t7 = false /\
  (timer_armed t7 = true \/ (nxt = una /\ (0 < len -> w <> 0))).
Proof.
  intros t5 now ka rto al aall una nxt w len Hlen Hc HA HB t6 t7.
  unfold t7, t6, zwp_fn, timers_fn.
  destruct (Z.eqb_spec nxt una) as [Hfl|Hfl]; cbn [negb];
  destruct (Z.eqb_spec w 0) as [Hw|Hw]; destruct (Z.eqb_spec len 0) as [Hl|Hl];
  destruct (al >? 0); destruct aall;
  destruct t5 as [k|e| |e d|e]; cbn in *; try discriminate;
    try (destruct HA as [HA|HA]; [discriminate HA | contradiction]);
    try (exfalso; apply Hfl; apply HB; reflexivity);
    (split; [reflexivity|]); auto; right; (split; [assumption|]); intros; lia.
Qed.

(* ---------- payload phase: receive side only ---------- *)
Lemma payload_core : forall cx s ip r payload off s8 reply tg,
  tcp_process_payload cx s ip r payload off = Ok (s8, reply, tg) -> core_eq s s8.
Proof.
  intros cx s ip r payload off s8 reply tg H. unfold tcp_process_payload in H.
  destruct (l_len payload =? 0); [inversion H; subst; apply core_eq_refl|].
  destruct (asm_atrf _ _ _ _) as (asm', res).
  destruct res as [contig|]; [|inversion H; subst; apply core_eq_refl].
  destruct (rb_write_unallocated _ _ _) as (rx, lw).
  destruct (negb (lw =? l_len payload)); [discriminate|].
  obind_inv H.
  set (q := upd_rx_buffer (upd_assembler s asm') a) in *.
  assert (Cq : core_eq s q) by (unfold q; core_triv). clearbody q.
  match type of H with (let '(_, _) := ?m in _) = _ =>
    assert (Cm : core_eq q (fst m)); [|destruct m as (q1, t1)] end.
  { destruct (s_ack_delay q); [|apply core_eq_refl].
    destruct (tcp_ack_to_transmit q); [|apply core_eq_refl].
    destruct (s_ack_delay_timer q); try apply core_eq_refl; cbn [fst]; try core_triv.
    destruct (tcp_immediate_ack_to_transmit q); cbn [fst]; [core_triv | apply core_eq_refl]. }
  cbn [fst] in Cm.
  destruct (negb (asm_is_empty (s_assembler q1)) || negb (asm_is_empty (s_assembler s))).
  - pose proof (ack_reply_core cx q1 ip r) as Ca. destruct (tcp_ack_reply cx q1 ip r) as (q2, p).
    inversion H; subst s8. cbn [fst] in Ca.
    eapply core_eq_trans; [exact Cq|]. eapply core_eq_trans; [exact Cm | exact Ca].
  - inversion H; subst s8. eapply core_eq_trans; [exact Cq | exact Cm].
Qed.

(* ---------- tcp_process ---------- *)
Lemma ack_check_ret : forall cx s ip r tg s1 reply,
  tcp_process_ack_check cx s ip r = Ok (Ret tg s1 reply) -> tcp_live_inv s -> tcp_live_inv s1.
Proof.
  intros cx s ip r tg s1 reply H I. unfold tcp_process_ack_check in H.
  pose proof (challenge_ack_core cx s ip r) as C.
  destruct (s_state s); destruct (r_control r); destruct (r_ack_number r);
    repeat match type of H with
           | context [if ?b then _ else _] => destruct b
           | (do _ <- ?m; _) = _ => destruct m; cbn [obind] in H
           | (let '(_, _) := ?m in _) = _ => destruct m
           end; try discriminate; inversion H; subst; try exact I;
    exact (inv_core_eq _ _ C I).
Qed.

Lemma transition_cont_not_rst : forall cx s ip r c al aof tg s3,
  tcp_process_transition cx s ip r c al aof = Ok (Cont tg s3) -> c <> CRst.
Proof.
  intros cx s ip r c al aof tg s3 H. unfold tcp_process_transition in H.
  destruct (s_state s); destruct c; try discriminate;
    repeat match type of H with context [if ?b then _ else _] => destruct b end; discriminate.
Qed.

Lemma seq_lt_irrefl_if : forall (a b : Z), (if seq_lt a a then b else a) = a.
Proof. intros. rewrite seq_lt_irrefl. reflexivity. Qed.

(* facts (A) and (B) of the design: after the acknowledgement bookkeeping, a socket that may still
   have something unacknowledged has an armed timer or nothing in flight; and an acknowledgement
   that covers everything sent leaves nothing in flight *)
Lemma process_mid_K : forall s2 s3 s5 c r aall,
  tcp_live_inv s2 -> seg_ok r ->
  trans_link s2 s3 c r ->
  (c = CSyn <-> r_control r = CSyn) -> r_control r <> CRst ->
  (s_state s2 = Listen -> r_ack_number r = None) ->
  (s_state s2 = SynSent -> forall a, r_ack_number r = Some a -> a = seq_add (s_local_seq_no s2) 1) ->
  (forall a, r_ack_number r = Some a ->
     a = s_local_seq_no s2 \/ seq_lt (s_local_seq_no s2) a = true) ->
  (s_state s2 <> Listen -> s_state s2 <> SynSent -> r_ack_number r <> None) ->
  (aall = true -> exists a, r_ack_number r = Some a /\ seq_le (s_remote_last_seq s2) a = true) ->
  (* s5: state of s3, timer of s3 or FastRetransmit, SND.UNA / SND.NXT updated by the ACK *)
  s_state s5 = s_state s3 ->
  (s_timer s5 = s_timer s3 \/ s_timer s5 = TFastRetransmit) ->
  match r_ack_number r with
  | None => s_local_seq_no s5 = s_local_seq_no s3 /\ s_remote_last_seq s5 = s_remote_last_seq s3
  | Some a => s_local_seq_no s5 = a /\
              s_remote_last_seq s5 = (if seq_lt (s_remote_last_seq s3) a then a else s_remote_last_seq s3)
  end ->
  (st_live (s_state s5) = true -> timer_armed (s_timer s5) = true \/ s_remote_last_seq s5 = s_local_seq_no s5) /\
  (aall = true -> s_remote_last_seq s5 = s_local_seq_no s5).
Proof.
  intros s2 s3 s5 c r aall I (_ & Hack & _) L Hsyn Hrst Hl Hss Hfresh Hsome Hall E1 Et Eseq.
  pose proof (li_una s2 I) as Hu. pose proof (li_nxt s2 I) as Hx.
  destruct L as [(Lst & Leq & Lidle) | [(Lst & Lc & Lu & Lt & Ln) | (Ln1 & Ln2 & Lu & Lx & Llive)]].
  - (* LISTEN + SYN *)
    rewrite (Hl Lst) in *. destruct Eseq as (Eu & Ex). split.
    + intros _. right. congruence.
    + intros Ha. destruct (Hall Ha) as (a & Ea & _). discriminate.
  - (* SYN-SENT + SYN *)
    destruct (r_ack_number r) as [a|] eqn:Ea.
    + pose proof (Hss Lst a eq_refl) as Haa. destruct Eseq as (Eu & Ex).
      cbn [is_some] in Ln. rewrite Ln, <- Haa, seq_lt_irrefl in Ex.
      split; intros; [right|]; congruence.
    + destruct Eseq as (Eu & Ex). cbn [is_some] in Ln. split.
      * intros _. assert (Hlive : st_live (s_state s2) = true) by (rewrite Lst; reflexivity).
        destruct (li_K s2 I Hlive) as [Ha | (Hfl & _)].
        -- left. destruct Et as [Et|Et]; rewrite Et; [rewrite Lt; exact Ha | reflexivity].
        -- right. congruence.
      * intros Ha. destruct (Hall Ha) as (a & Ea' & _). discriminate.
  - (* every other arm: SND.UNA, SND.NXT untouched by the table *)
    destruct (r_ack_number r) as [a|] eqn:Ea; [|exfalso; exact (Hsome Ln1 Ln2 eq_refl)].
    destruct Eseq as (Eu & Ex). rewrite Lx in Ex. split.
    + intros Hlive5. rewrite E1 in Hlive5. destruct (Llive Hlive5) as (Hlive2 & Lt).
      destruct (li_K s2 I Hlive2) as [Ha | (Hfl & _)].
      * left. destruct Et as [Et|Et]; rewrite Et; [rewrite Lt; exact Ha | reflexivity].
      * right. rewrite Ex, Eu, Hfl. destruct (Hfresh a eq_refl) as [Hf|Hf].
        -- rewrite Hf. apply seq_lt_irrefl_if.
        -- rewrite Hf. reflexivity.
    + intros Ha. destruct (Hall Ha) as (a' & Ea' & Hle). inversion Ea'; subst a'.
      rewrite Ex, Eu. destruct (seq_lt (s_remote_last_seq s2) a) eqn:Hlt; [reflexivity|].
      apply seq_le_not_lt_eq; assumption.
Qed.

Theorem process_inv : forall cx s ip r s' reply tags,
  ctx_ok cx -> seg_ok r -> tcp_live_inv s ->
  tcp_process cx s ip r = Ok (s', reply, tags) -> tcp_live_inv s'.
Proof.
  intros cx s ip r s' reply tags Hcx Hseg I H. unfold tcp_process in H.
  destruct (negb (tcp_accepts s ip r)); [discriminate|].
  obind_inv H. rename a into p1. rename E into H1.
  destruct p1 as [t1 []|t1 s1 rep1].
  2:{ inversion H; subst s'. exact (ack_check_ret _ _ _ _ _ _ _ H1 I). }
  obind_inv H. rename a into p2. rename E into H2.
  pose proof (process_window_spec _ _ _ _ _ H2 I) as P2.
  destruct p2 as [t2 ((s2, payload), off)|t2 s2r rep2].
  2:{ inversion H; subst s'. exact P2. }
  pose proof (inv_core_eq _ _ P2 I) as I2.
  destruct P2 as (C1 & C2 & C3 & C4 & C5 & C6 & C7 & C8 & C9 & C10 & C11).
  obind_inv H. destruct a as ((al, aof), aall). rename E into Hal.
  destruct (ack_len_spec _ _ _ _ _ Hal) as (Hof & Hall).
  obind_inv H. rename a into p3. rename E into H3.
  destruct p3 as [t3 s3|t3 s3r rep3].
  2:{ inversion H; subst s'. exact (transition_ret _ _ _ _ _ _ _ _ _ _ H3 I2). }
  pose proof (transition_cont_not_rst _ _ _ _ _ _ _ _ _ H3) as Hnr.
  destruct (quash_spec s2 r) as (Qr & Qs & _).
  assert (Hrst : r_control r <> CRst) by (intros X; apply Hnr; apply Qr; exact X).
  destruct (transition_cont _ _ _ _ _ _ _ _ _ H3 (inv_weak _ I2) Hcx Hseg) as (W3 & Tx3 & Nd3 & L3).
  obind_inv H. destruct a as (s4, wu). rename E into H4.
  destruct (update_remote_spec _ _ _ _ _ _ H4 W3 Hseg) as (W4 & S4 & T4 & U4 & X4 & K4 & Len4).
  obind_inv H. destruct a as (s5, t5). rename E into H5.
  destruct (dup_ack_spec _ _ _ _ _ _ _ H5 W4 Hseg) as (W5 & S5 & B5 & Wn5 & K5 & T5 & Seq5).
  (* the TSval bookkeeping touches nothing we read *)
  set (q5 := match r_timestamp r with
             | Some (tsval, _) => upd_last_remote_tsval s5 tsval
             | None => s5
             end) in *.
  assert (Cq : core_eq s5 q5 /\ s_keep_alive q5 = s_keep_alive s5).
  { unfold q5. destruct (r_timestamp r) as [(tv, te)|]; [split; [core_triv | reflexivity]|].
    split; [apply core_eq_refl | reflexivity]. }
  destruct Cq as ((D1 & D2 & D3 & D4 & D5 & D6 & D7 & D8 & D9 & D10 & Dm) & D11). clearbody q5.
  pose proof (timers_spec cx q5 al aall) as P6.
  destruct (tcp_process_timers cx q5 al aall) as (s6, t6). cbn [fst] in P6.
  destruct P6 as ((F1 & F2 & F3 & F4 & F5 & F6 & F7 & F8 & F9 & F10 & F11) & Ft6).
  pose proof (zwp_spec cx s6 al) as P7.
  destruct (tcp_process_zwp cx s6 al) as (s7, t7). cbn [fst] in P7.
  destruct P7 as ((G1 & G2 & G3 & G4 & G5 & G6 & G7 & G8 & G9 & G10 & G11) & Ft7).
  obind_inv H. destruct a as ((s8, rep8), t8). rename E into H8.
  pose proof (payload_core _ _ _ _ _ _ _ _ _ H8) as C8'.
  inversion H; subst s'. clear H.
  apply (inv_core_eq _ _ C8').
  (* ack-check facts, transported from s to s2 *)
  destruct (ack_check_fresh _ _ _ _ _ H1 (li_una s I) Hseg Hrst) as (Al & Ass & Afr & Aso).
  rewrite <- C1 in Al, Ass, Aso. rewrite <- C5 in Ass, Afr.
  (* mid-point facts *)
  assert (Hmid := process_mid_K s2 s3 s5 _ r aall I2 Hseg L3 Qs Hrst Al
                    (fun X => proj2 (Ass X)) Afr Aso Hall).
  rewrite S5, S4 in Hmid. specialize (Hmid eq_refl).
  rewrite T4 in T5. specialize (Hmid T5).
  rewrite U4, X4 in Seq5. specialize (Hmid Seq5). destruct Hmid as (HA & HB).
  (* weak invariant of s7 *)
  assert (W5q : tcp_weak_inv q5).
  { weak_destruct W5. constructor; rewrite ?D1, ?D2, ?D3, ?D4, ?D5, ?D6, ?D7, ?D8, ?D9, ?D10, ?Dm; assumption. }
  assert (Hlive_nc : st_live (s_state s5) = true -> timer_is_close (s_timer s5) = false).
  { intros Hl. destruct (timer_is_close (s_timer s5)) eqn:Ec; [|reflexivity].
    destruct (wi_close s5 W5 Ec) as [X|X]; rewrite X in Hl; discriminate. }
  assert (Hclose6 : timer_is_close (s_timer s6) = true -> timer_is_close (s_timer q5) = true).
  { rewrite Ft6. unfold timers_fn.
    destruct (s_timer q5); try destruct aall; try destruct (al >? 0); cbn; auto. }
  assert (W6 : tcp_weak_inv s6).
  { apply (weak_inv_timer q5 s6 W5q); [repeat split; assumption | exact Hclose6]. }
  assert (Hclose7 : timer_is_close (s_timer s7) = true -> timer_is_close (s_timer s6) = true).
  { rewrite Ft7. unfold zwp_fn.
    repeat match goal with |- context [if ?b then _ else _] => destruct b end;
      destruct (s_timer s6); cbn; auto. }
  assert (W7 : tcp_weak_inv s7).
  { apply (weak_inv_timer s6 s7 W6); [repeat split; assumption | exact Hclose7]. }
  apply (weak_inv_full s7 W7).
  - (* no data in the states that cannot have any *)
    rewrite G1, F1, D1, S5, S4, G3, F3, D4, B5. intros Hn.
    pose proof (wi_tx s4 W4) as (Hl4 & _).
    destruct (Nd3 Hn) as [Hn2 | Hf].
    + pose proof (li_nodata s2 I2 Hn2) as Hz. rewrite Len4, Tx3, Hz in *.
      destruct (al >? 0) eqn:Hp; lia.
    + specialize (Hof Hf). rewrite Len4, Tx3, <- Hof in *. destruct (al >? 0) eqn:Hp; lia.
  - (* the core clause *)
    unfold live_K. rewrite G1, F1, D1, S5, S4. intros Hlive. rewrite S5, S4 in Hlive_nc.
    pose proof (wi_tx s5 W5) as (Hl5 & _).
    destruct (K_after_timer_phases (s_timer s5) (cx_now cx) (s_keep_alive s5)
                (rtte_retransmission_timeout (s_rtte s5)) al aall
                (s_local_seq_no s5) (s_remote_last_seq s5) (s_remote_win_len s5)
                (rb_len (s_tx_buffer s5)) ltac:(lia) (Hlive_nc Hlive) (HA Hlive) HB) as (_ & HK).
    rewrite Ft7. rewrite ?G3, ?G4, ?G5, ?G6. rewrite Ft6. rewrite ?F3, ?F4, ?F5, ?F6, ?F9, ?F10.
    rewrite ?D2, ?D4, ?D5, ?D6, ?D7, ?D10, ?D11. exact HK.
Qed.

(* ------------------------------------------------------------------------------------------ *)
(* preservation: tcp_dispatch                                                                   *)
(* ------------------------------------------------------------------------------------------ *)
Lemma set_closed_inv : forall s, tcp_live_inv s -> tcp_live_inv (tcp_set_state s Closed).
Proof. exact abort_inv. Qed.

Lemma dispatch_timers_inv : forall cx s s1 tg,
  tcp_live_inv s -> tcp_dispatch_timers cx s = Ok (s1, tg) -> tcp_live_inv s1.
Proof.
  intros cx s s1 tg I H.
  pose proof (inv_core_eq _ _ (dt_pre_core cx s) I) as Iq.
  destruct (dt_spec _ _ _ _ H) as [(_ & ->) | [(_ & _ & ->) | (_ & Hsr & E1 & E2 & E3 & E4 & E5 & E6 & _ & _ & Hcc & Hrt & Hnx & _ & HK & Hm)]].
  - apply set_closed_inv. exact Iq.
  - exact Iq.
  - revert Iq E1 E2 E3 E4 E5 E6 Hcc Hrt Hnx HK Hsr Hm. generalize (dt_pre cx s). intros q Iq.
    intros E1 E2 E3 E4 E5 E6 Hcc Hrt Hnx HK Hsr Hm. inv_destruct Iq.
    assert (Hnc : timer_is_close (s_timer q) = false).
    { destruct (s_timer q); try reflexivity. cbn in Hsr. discriminate. }
    specialize (HK Hnc).
    constructor; unfold live_K; rewrite ?E1, ?E2, ?E3, ?E4, ?E5, ?E6, ?Hm; auto.
    + intros Hc. destruct HK as [Ha | (Hi & _)].
      * rewrite (armed_not_close _ Ha) in Hc. discriminate.
      * destruct (s_timer s1); discriminate.
    + destruct Hnx as [-> | ->]; assumption.
    + intros _. destruct HK as [Ha | (_ & Hfl & Hw)]; [left; exact Ha|].
      right. rewrite E3, E4, E5 in *. auto.
Qed.

Lemma dispatch_decide_inv : forall cx s s2 go tg,
  tcp_live_inv s -> tcp_dispatch_decide cx s = Ok (s2, go, tg) -> tcp_live_inv s2.
Proof.
  intros cx s s2 go tg I H.
  destruct (decide_spec _ _ _ _ _ H) as [(_ & ->) | [(_ & ->) | (_ & -> & _)]]; try exact I.
  inv_destruct I. constructor; unfold live_K; sproj; cbn [st_conn st_nodata st_live];
    try discriminate; auto.
Qed.

(* what the builder decides besides the segment: the socket changes at most in
   pending_fast_retransmit; a zero-window probe is only announced when the probe timer is due,
   a keep-alive only when the idle timer is due *)
Lemma build_data_core : forall cx s repr s3 o z tg,
  tcp_dispatch_build_data cx s repr = Ok (s3, o, z, tg) ->
  core_eq s s3 /\ (z = true -> timer_should_zero_window_probe (s_timer s) (cx_now cx) = true).
Proof.
  intros cx s repr s3 o z tg H. unfold tcp_dispatch_build_data in H.
  obind_inv H. obind_inv H. obind_inv H. destruct a1 as ((((q, r1), off), zw), tq).
  inversion H; subst s3 o z tg; clear H.
  destruct (s_pending_fast_retransmit s && (s_remote_win_len s >? 0)).
  - inversion E1; subst. split; [core_triv | discriminate].
  - obind_inv E1. obind_inv E1. obind_inv E1. inversion E1; subst. split; [apply core_eq_refl|].
    intros Hz. apply andb_true_iff in Hz. apply Hz.
Qed.

Lemma build_core : forall cx s t s3 o z k tg,
  tcp_dispatch_build cx s t = Ok (s3, o, z, k, tg) ->
  core_eq s s3 /\
  (z = true -> timer_should_zero_window_probe (s_timer s3) (cx_now cx) = true) /\
  (k = true -> timer_should_keep_alive (s_timer s3) (cx_now cx) = true).
Proof.
  intros cx s t s3 o z k tg H. unfold tcp_dispatch_build in H.
  obind_inv H. destruct a as (((sb, ob), zb), tb).
  assert (Hb : core_eq s sb /\ (zb = true -> timer_should_zero_window_probe (s_timer s) (cx_now cx) = true)).
  { destruct (s_state s); try (inversion E; subst; split; [apply core_eq_refl | discriminate]);
      try (eapply build_data_core; exact E).
    destruct (s_syn_unacked_in_fin_wait s);
      [inversion E; subst; split; [apply core_eq_refl | discriminate] | eapply build_data_core; exact E]. }
  destruct Hb as (Cb & Hz). clear E.
  assert (Et : s_timer sb = s_timer s) by apply Cb.
  destruct ob as [repr|].
  - obind_inv H. inversion H; subst s3 o z k tg; clear H. rewrite Et.
    split; [exact Cb|]. split; [exact Hz|]. intros Hk. apply andb_true_iff in Hk. apply Hk.
  - inversion H; subst. split; [exact Cb|]. split; discriminate.
Qed.

Lemma dispatch_finish_inv : forall cx s repr z k,
  tcp_live_inv s ->
  (z = true -> timer_should_zero_window_probe (s_timer s) (cx_now cx) = true) ->
  tcp_live_inv (fst (tcp_dispatch_finish cx s repr z k)).
Proof.
  intros cx s repr z k I Hz. inv_destruct I. unfold tcp_dispatch_finish.
  set (t1 := timer_rewind_keep_alive (s_timer s) (cx_now cx) (s_keep_alive s)).
  assert (Hc1 : timer_is_close t1 = timer_is_close (s_timer s)) by apply rewind_keep_alive_close.
  assert (Ha1 : timer_armed t1 = timer_armed (s_timer s)) by apply rewind_keep_alive_armed.
  destruct z.
  { (* zero-window probe: only the probe timer is rewound *)
    cbn [fst]. constructor; unfold live_K in *; sproj; auto;
      rewrite ?rewind_zwp_close, ?rewind_zwp_armed, ?Hc1, ?Ha1; auto. }
  destruct k.
  { cbn [fst]. constructor; unfold live_K in *; sproj; auto; rewrite ?Hc1, ?Ha1; auto. }
  sproj.
  destruct (repr_segment_len repr >? 0) eqn:Hlen; cbn [andb]; sproj.
  - (* a segment that occupies sequence space: the retransmission timer runs afterwards *)
    destruct (negb (timer_is_retransmit t1)) eqn:Hre; sproj;
      destruct (tcp_state_eqb (s_state s) Closed) eqn:Hcl; cbn [fst];
      constructor; unfold live_K in *; sproj; auto;
      try (apply tcp_state_eqb_true in Hcl; rewrite Hcl; cbn; discriminate);
      try (apply seq_max_u32; [assumption | apply seq_add_u32]);
      try (unfold rtte_ok in *; rewrite rtte_on_send_rto; assumption).
    all: try (intros Hc; apply Ic;
              destruct (timer_is_close t1) eqn:Hc'; [rewrite <- Hc1; reflexivity|];
              rewrite (set_for_retransmit_armed _ _ _ Hc') in Hc; discriminate Hc).
    all: try (intros Hc; apply Ic; rewrite <- Hc1; exact Hc).
    all: try (intros Hl; left;
              assert (Hnc : timer_is_close t1 = false)
                by (rewrite Hc1; destruct (timer_is_close (s_timer s)) eqn:X; [|reflexivity];
                    destruct (Ic eq_refl) as [Y|Y]; rewrite Y in Hl; discriminate);
              first [rewrite (set_for_retransmit_armed _ _ _ Hnc); reflexivity
                    | apply negb_false_iff in Hre; destruct t1; try discriminate; reflexivity]).
  - (* nothing that needs an acknowledgement was sent: the sender state is unchanged *)
    destruct (tcp_state_eqb (s_state s) Closed) eqn:Hcl; cbn [fst];
      constructor; unfold live_K in *; sproj; auto; rewrite ?Hc1, ?Ha1; auto;
      try (apply tcp_state_eqb_true in Hcl; rewrite Hcl; cbn; discriminate).
Qed.

Theorem dispatch_inv : forall cx s emit_ok s' res tags,
  tcp_live_inv s -> tcp_dispatch cx s emit_ok = Ok (s', res, tags) -> tcp_live_inv s'.
Proof.
  intros cx s emit_ok s' res tags I H. unfold tcp_dispatch in H.
  destruct (s_tuple s) as [t|]; [|inversion H; subst; exact I].
  destruct (negb (tu_local_addr t =? cx_addr cx)); [inversion H; subst; apply reset_inv; exact I|].
  obind_inv H. destruct a as (s1, t1). pose proof (dispatch_timers_inv _ _ _ _ I E) as I1.
  obind_inv H. destruct a as ((s2, go), t2). pose proof (dispatch_decide_inv _ _ _ _ _ I1 E0) as I2.
  destruct (negb go); [inversion H; subst; exact I2|].
  obind_inv H. destruct a as ((((s3, o), z), k), t3).
  destruct (build_core _ _ _ _ _ _ _ _ E1) as (C3 & Hz & _).
  pose proof (inv_core_eq _ _ C3 I2) as I3.
  destruct o as [repr|]; [|inversion H; subst; exact I3].
  destruct (negb emit_ok); [inversion H; subst; exact I3|].
  pose proof (dispatch_finish_inv cx s3 repr z k I3 Hz) as I4.
  destruct (tcp_dispatch_finish cx s3 repr z k) as (s4, t4). inversion H; subst. exact I4.
Qed.

(* ------------------------------------------------------------------------------------------ *)
(* every event of the socket's life                                                             *)
(* ------------------------------------------------------------------------------------------ *)
Definition ev_ok (ev : event) : Prop :=
  match ev with EvSegment _ r => seg_ok r | _ => True end.

Lemma ingress_inv : forall cx s ip r s' reply tags,
  ctx_ok cx -> seg_ok r -> tcp_live_inv s ->
  iface_tcp_ingress cx s ip r = Ok (s', reply, tags) -> tcp_live_inv s'.
Proof.
  intros cx s ip r s' reply tags Hcx Hseg I H. unfold iface_tcp_ingress in H.
  destruct ((ip_src ip =? 0) || (ip_dst ip =? 0)); [inversion H; subst; exact I|].
  destruct ((r_src_port r =? 0) || (r_dst_port r =? 0)); [inversion H; subst; exact I|].
  destruct (tcp_accepts s ip r); [exact (process_inv _ _ _ _ _ _ _ Hcx Hseg I H)|].
  destruct (control_eqb (r_control r) CRst); [inversion H; subst; exact I|].
  obind_inv H. inversion H; subst; exact I.
Qed.

Theorem step_inv : forall cx s ev s' out tags,
  ctx_ok cx -> ev_ok ev -> tcp_live_inv s ->
  tcp_step cx s ev = Ok (s', out, tags) -> tcp_live_inv s'.
Proof.
  intros cx s ev s' out tags Hcx Hev I H. destruct ev; cbn [tcp_step ev_ok] in *.
  - destruct (tcp_listen s ep) eqn:E; inversion H; subst; eauto using listen_inv.
  - destruct (tcp_connect cx s remote_addr remote_port local) eqn:E; inversion H; subst;
      eauto using connect_inv.
  - inversion H; subst. apply close_inv; exact I.
  - inversion H; subst. apply abort_inv; exact I.
  - destruct (tcp_send_slice s data) as [(s1, n)|e|] eqn:E; inversion H; subst;
      eauto using send_slice_inv.
  - destruct (tcp_recv_slice s n) as [(s1, l)|e|] eqn:E; inversion H; subst; try exact I.
    exact (inv_core_eq _ _ (recv_slice_core _ _ _ _ E) I).
  - destruct (tcp_peek s n); inversion H; subst; exact I.
  - destruct (tcp_peek_slice s n); inversion H; subst; exact I.
  - inversion H; subst. apply (inv_core_eq s); [core_triv | exact I].
  - inversion H; subst. apply set_keep_alive_inv; exact I.
  - inversion H; subst. apply (inv_core_eq s); [core_triv | exact I].
  - inversion H; subst. apply (inv_core_eq s); [core_triv | exact I].
  - obind_inv H. inversion H; subst. exact (inv_core_eq _ _ (set_hop_limit_core _ _ _ E) I).
  - obind_inv H. destruct a as ((s1, reply), tg). inversion H; subst.
    exact (ingress_inv _ _ _ _ _ _ _ Hcx Hev I E).
  - obind_inv H. destruct a as ((s1, res), tg). inversion H; subst.
    exact (dispatch_inv _ _ _ _ _ _ I E).
Qed.

(* the reachable sockets: created by [tcp_new] (with a sane congestion controller, e.g. [CcNone]
   or [CcReno reno_new]) and then driven by ANY sequence of API calls, received segments and
   dispatches, at any times, with or without a device that accepts the frames *)
Inductive tcp_reachable : socket -> Prop :=
| reach_new : forall rx tx cc ts s,
    cc_ok cc -> tcp_new rx tx cc ts = Ok s -> tcp_reachable s
| reach_step : forall cx s ev s' out tags,
    tcp_reachable s -> ctx_ok cx -> ev_ok ev ->
    tcp_step cx s ev = Ok (s', out, tags) -> tcp_reachable s'.

Theorem reachable_inv : forall s, tcp_reachable s -> tcp_live_inv s.
Proof.
  induction 1; [eapply new_inv; eassumption | eapply step_inv; eassumption].
Qed.

(* C02, safety half, full strength *)
Theorem deadline_invariant : forall cx s,
  tcp_reachable s -> tcp_need s -> tcp_poll_at cx s <> Ok PIngress.
Proof. intros cx s R N. apply deadline_from_inv; [apply reachable_inv; exact R | exact N]. Qed.
