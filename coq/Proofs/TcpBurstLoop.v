(* C03, "fail to return" clause for the TCP socket, layer 6: several TCP sockets sharing one poll.

     burst_silent_step             a dispatch that does NOT emit (nothing to send, or the emit closure
                                   refused the frame: device exhausted, neighbor missing, fragmenter
                                   busy) never increases the measure [mu] and keeps the hypotheses.
                                   The real dispatch runs its timer-driven part (RTO rewind, rtte / cc
                                   on_retransmit, timeout -> CLOSED) BEFORE the emit closure and keeps
                                   those changes when the emit fails; [mu] is evaluated AFTER that part,
                                   which is why a refused emit cannot raise it.
     tcp_socket_set_egress_returns the egress loop of Interface::poll over ANY list of TCP sockets
                                   (Model/EgressLoop.v [poll_loop2], shared environment deciding
                                   per dispatch whether the emit succeeds) returns within
                                   sum (burst_bound) emitting passes.

   Instance of Proofs/EgressLoopProofs.v [poll_loop2_returns]. *)
From SV Require Import Lib.Base Gen.Consts.
From SV Require Import Model.Seq32 Model.Assembler Model.TcpBuf Model.TcpTypes Model.Tcp Model.EgressLoop.
From SV Require Import Proofs.TcpSendBase Proofs.TcpSendInv Proofs.TcpSendDisp Proofs.TcpSendDisp2
                       Proofs.TcpSendDisp3.
From SV Require Import Proofs.TcpLiveBase Proofs.TcpLiveProofs Proofs.EgressLoopProofs.
From SV Require Import Proofs.TcpBurstBase Proofs.TcpBurstStep Proofs.TcpBurstEmit Proofs.TcpBurstProofs.

(* ------------------------------------------------------------------------------------------ *)
(* the measure of a socket the timer-driven part leaves alone                                   *)
(* ------------------------------------------------------------------------------------------ *)
Lemma nu_closed_idem : forall cx s, s_state s = Closed -> nu cx (tcp_set_state s Closed) = nu cx s.
Proof.
  intros cx s H.
  unfold nu, m_D, m_B, m_P, m_Phi, wtu_on, tcp_ack_to_transmit, tcp_window_to_update,
         tcp_last_scaled_window, tcp_scaled_window, tcp_window_start, tcp_sent_syn, fl,
         tcp_flight_size, cwnd, emss, ts_opt.
  sproj. rewrite H. reflexivity.
Qed.

Lemma mu_settled : forall cx s t,
  s_tuple s = Some t -> negb (tu_local_addr t =? cx_addr cx) = false ->
  is_some (s_remote_last_ts s) = true -> tcp_timed_out s (cx_now cx) = false ->
  timer_should_retransmit (s_timer s) (cx_now cx) = false ->
  mu cx s = nu cx s.
Proof.
  intros cx s t Ht Ha H1 H2 H3. unfold mu. rewrite Ht, Ha, (timers_settled cx s H1 H2 H3). reflexivity.
Qed.

Lemma mu_timed_out : forall cx s t,
  s_tuple s = Some t -> negb (tu_local_addr t =? cx_addr cx) = false ->
  s_state s = Closed -> tcp_timed_out s (cx_now cx) = true ->
  mu cx s = nu cx s.
Proof.
  intros cx s t Ht Ha Hc Hto. unfold mu. rewrite Ht, Ha. unfold tcp_dispatch_timers.
  assert (Hl : is_some (s_remote_last_ts s) = true).
  { unfold tcp_timed_out in Hto. destruct (s_remote_last_ts s); [reflexivity|discriminate]. }
  rewrite Hl, Hto. apply nu_closed_idem. exact Hc.
Qed.

Lemma nu_unpend : forall cx s, nu cx (upd_pending_fast_retransmit s false) <= nu cx s.
Proof.
  intros cx s. destruct (unpend_frame s) as (_ & _ & _ & U4 & U5 & U6 & U7 & U8 & _). cbv zeta in *.
  unfold nu. rewrite !m_Phi_of, U4, U5, U6, U7, U8. pose proof (P_01 s). lia.
Qed.

(* ------------------------------------------------------------------------------------------ *)
(* a dispatch that does not emit                                                                *)
(* ------------------------------------------------------------------------------------------ *)
Theorem burst_silent_step : forall cx s e s' out tags,
  binv cx s -> tcp_dispatch cx s e = Ok (s', out, tags) -> (forall p, out <> DSent p) ->
  mu cx s' <= mu cx s /\ (s_tuple s' = None \/ binv cx s').
Proof.
  intros cx s e s' out tags Hb H Hout.
  pose proof Hb as (Hcx & Hmtu & Hlive & (g & Hinv) & Hsinv & Hrx & Hka).
  pose proof (mu_bounds cx s Hb) as (Hmu0 & _).
  pose proof (TcpLiveProofs.dispatch_inv _ _ _ _ _ _ Hlive H) as Hlive'.
  destruct (TcpSendDisp3.dispatch_inv _ _ _ _ _ _ _ Hinv Hcx H) as (_ & _ & g' & _ & _ & _ & Hinv' & _).
  unfold tcp_dispatch in H.
  destruct (s_tuple s) as [t|] eqn:Htup.
  2:{ inversion H; subst. split; [lia|right; exact Hb]. }
  destruct (negb (tu_local_addr t =? cx_addr cx)) eqn:Haddr.
  { inversion H; subst. pose proof (tcp_reset_tuple s) as Hn.
    split; [unfold mu at 1; rewrite Hn; exact Hmu0|left; exact Hn]. }
  assert (Emu : forall s1 t1, tcp_dispatch_timers cx s = Ok (s1, t1) -> mu cx s = nu cx s1).
  { intros s1 t1 E. unfold mu. rewrite Htup, Haddr, E. reflexivity. }
  obind_inv H. destruct a as (s1, t1). rename E into E1. rewrite (Emu s1 t1 E1).
  destruct (timers_post cx s t s1 t1 Hb Htup E1)
    as (g1 & Hinv1 & Hlive1 & Hsinv1 & Hrx1 & Hka1 & Htup1 & _ & Hcase).
  assert (Hm1 : 0 < emss cx s1) by (destruct Hsinv1 as (_ & X & _); apply emss_pos; assumption).
  pose proof (nu_pos cx s1 Hm1) as Hnu1.
  (* the result is the socket after the timer-driven part, possibly with the pending fast
     retransmission cleared *)
  assert (Hfinal : forall s3, (s3 = s1 \/ s3 = upd_pending_fast_retransmit s1 false) ->
            tcp_live_inv s3 -> (exists g3, inv g3 s3) ->
            (s_state s1 = Closed -> s3 = s1) ->
            mu cx s3 <= nu cx s1 /\ (s_tuple s3 = None \/ binv cx s3)).
  { intros s3 Hs3 L3 G3 Hc3. split.
    - destruct Hcase as [(Hcl & Hto)|(Hnr & Hlts & Hto)].
      + rewrite (Hc3 Hcl). rewrite (mu_timed_out cx s1 t Htup1 Haddr Hcl Hto). lia.
      + destruct Hs3 as [->| ->].
        * rewrite (mu_settled cx s1 t Htup1 Haddr Hlts Hto Hnr). lia.
        * rewrite (mu_settled cx _ t); [apply nu_unpend|exact Htup1|exact Haddr|exact Hlts|exact Hto|exact Hnr].
    - right. unfold binv. split; [exact Hcx|]. split; [exact Hmtu|]. split; [exact L3|].
      split; [exact G3|].
      destruct Hs3 as [->| ->]; [auto|].
      split; [exact Hsinv1|]. split; [exact Hrx1|exact Hka1]. }
  obind_inv H. destruct a as ((s2, go), t2). rename E into E2.
  destruct (decide_spec _ _ _ _ _ E2) as [(-> & ->) | [(-> & ->) | (-> & -> & _ & _ & _ & Hncl & _)]];
    cbn [negb] in H.
  - (* a reason to send *)
    obind_inv H. destruct a as ((((s3, o), zwp), ka), t3). rename E into E3.
    destruct o as [repr|].
    + destruct e; cbn [negb] in H.
      * destruct (tcp_dispatch_finish cx s3 repr zwp ka). inversion H; subst. exfalso.
        eapply Hout. reflexivity.
      * inversion H; subst s' out tags.
        destruct (build_spec _ _ _ _ _ _ _ _ _ Hinv1 Hcx E3) as (Hs3 & _).
        apply Hfinal; [exact Hs3|exact Hlive'|exists g'; exact Hinv'|].
        intros Hcl. destruct (build_closed _ _ _ _ _ _ _ _ Hcx Hcl E3) as (X & _). exact X.
    + exfalso. apply build_none_listen in E3.
      rewrite (li_listen s1 Hlive1 E3) in Htup1. discriminate.
  - (* TIME-WAIT expired: CLOSED, tuple forgotten *)
    inversion H; subst s' out tags.
    split; [unfold mu at 1; sproj; lia|left; sproj; reflexivity].
  - (* nothing to do *)
    inversion H; subst s' out tags.
    apply Hfinal; [left; reflexivity|exact Hlive'|exists g'; exact Hinv'|auto].
Qed.

(* ------------------------------------------------------------------------------------------ *)
(* the egress loop of Interface::poll over a set of TCP sockets                                 *)
(* ------------------------------------------------------------------------------------------ *)
Section SocketSet.
  (* what the sockets share: device transmit budget, neighbor cache, fragmenter ...  For every
     dispatch the environment decides whether the emit closure succeeds ([can_emit], which also
     updates the environment) and, when it refuses, whether that was an exhausted device (the pass
     over the sockets breaks) or a refusal that lets the pass go on (neighbor missing, fragmenter
     busy).  Both oracles are arbitrary. *)
  Variable E : Type.
  Variable can_emit : E -> socket -> bool * E.
  Variable exhausted : E -> socket -> bool.
  Variable pre : E -> E.
  Variable cx : ctx.            (* one poll: one instant *)

  (* one socket's turn in socket_egress.  A dispatch that panics or errs in the model (excluded under
     [binv] by C05's dispatch_no_panic for the sender side and C04's invariant for the receiver side)
     is mapped to "nothing emitted, socket unchanged": it cannot contribute an emitting pass. *)
  Definition tcp_dispatch2 (e : E) (s : socket) : E * socket * dres :=
    let '(ok, e') := can_emit e s in
    match tcp_dispatch cx s ok with
    | Ok (s', DSent _, _) => (e', s', RSent)
    | Ok (s', DNothing, _) => (e, s', RSilent)            (* the emit closure was not called *)
    | Ok (s', DEmitFailed _, _) => (e', s', if exhausted e s then RExhausted else RSilent)
    | _ => (e, s, RSilent)
    end.

  (* a socket without a connection (CLOSED / LISTEN: mu = 0, silent for ever) or one that
     satisfies the hypotheses of the burst theorems *)
  Definition sock_inv (s : socket) : Prop := s_tuple s = None \/ binv cx s.
  Definition mu_nat (s : socket) : nat := Z.to_nat (mu cx s).
  Definition bound_nat (s : socket) : nat := Z.to_nat (burst_bound cx s).

  Lemma mu_nonneg_inv : forall s, sock_inv s -> 0 <= mu cx s.
  Proof.
    intros s [Hn|Hb]; [unfold mu; rewrite Hn; lia|apply mu_bounds; exact Hb].
  Qed.

  Lemma no_tuple_dispatch : forall s e s' out tags,
    s_tuple s = None -> tcp_dispatch cx s e = Ok (s', out, tags) -> s' = s /\ out = DNothing.
  Proof. intros s e s' out tags Ht H. unfold tcp_dispatch in H. rewrite Ht in H. inversion H; auto. Qed.

  Lemma dispatch2_cases : forall e s e' s' r,
    tcp_dispatch2 e s = (e', s', r) ->
    (s' = s /\ r = RSilent) \/
    exists ok out tags, tcp_dispatch cx s ok = Ok (s', out, tags) /\
                        (r = RSent <-> exists p, out = DSent p).
  Proof.
    intros e s e' s' r H. unfold tcp_dispatch2 in H. destruct (can_emit e s) as (ok, e1).
    destruct (tcp_dispatch cx s ok) as [((s1, out), tags)|err|] eqn:Ed.
    - right. exists ok, out, tags.
      destruct out as [|p|p]; [| |destruct (exhausted e s)]; inversion H; subst; (split; [exact Ed|]);
        split; intros X; try discriminate; try (destruct X as (q & X); discriminate); eauto.
    - inversion H; subst. auto.
    - inversion H; subst. auto.
  Qed.

  Lemma sock_inv_step : forall e s e' s' r,
    sock_inv s -> tcp_dispatch2 e s = (e', s', r) -> sock_inv s'.
  Proof.
    intros e s e' s' r Hi H.
    destruct (dispatch2_cases _ _ _ _ _ H) as [(-> & _)|(ok & out & tags & Hd & Hr)]; [exact Hi|].
    destruct Hi as [Hn|Hb].
    - destruct (no_tuple_dispatch _ _ _ _ _ Hn Hd) as (-> & _). left. exact Hn.
    - destruct out as [|p|p].
      + apply (burst_silent_step cx s ok s' _ tags Hb Hd). discriminate.
      + assert (ok = true).
        { destruct ok; [reflexivity|]. exfalso. exact (refused_not_sent _ _ _ _ _ Hd). }
        subst ok. apply (burst_step cx s s' p tags Hb Hd).
      + apply (burst_silent_step cx s ok s' _ tags Hb Hd). discriminate.
  Qed.

  Lemma mu_nat_sent : forall e s e' s',
    sock_inv s -> tcp_dispatch2 e s = (e', s', RSent) -> (mu_nat s' < mu_nat s)%nat.
  Proof.
    intros e s e' s' Hi H. pose proof (sock_inv_step _ _ _ _ _ Hi H) as Hi'.
    pose proof (mu_nonneg_inv s' Hi').
    destruct (dispatch2_cases _ _ _ _ _ H) as [(_ & X)|(ok & out & tags & Hd & Hr)]; [discriminate|].
    destruct (proj1 Hr eq_refl) as (p & ->).
    assert (ok = true).
    { destruct ok; [reflexivity|]. exfalso. exact (refused_not_sent _ _ _ _ _ Hd). }
    subst ok.
    destruct Hi as [Hn|Hb]; [exfalso; exact (no_tuple_silent _ _ _ _ _ _ Hn Hd)|].
    destruct (burst_step cx s s' p tags Hb Hd) as (Hlt & _). unfold mu_nat. lia.
  Qed.

  Lemma mu_nat_else : forall e s e' s' r,
    sock_inv s -> tcp_dispatch2 e s = (e', s', r) -> r <> RSent -> (mu_nat s' <= mu_nat s)%nat.
  Proof.
    intros e s e' s' r Hi H Hr.
    destruct (dispatch2_cases _ _ _ _ _ H) as [(-> & _)|(ok & out & tags & Hd & Hiff)]; [lia|].
    destruct Hi as [Hn|Hb].
    - destruct (no_tuple_dispatch _ _ _ _ _ Hn Hd) as (-> & _). lia.
    - assert (Hout : forall p, out <> DSent p).
      { intros p X. apply Hr. apply Hiff. exists p. exact X. }
      destruct (burst_silent_step cx s ok s' out tags Hb Hd Hout) as (Hle & _).
      unfold mu_nat. lia.
  Qed.

  Lemma mu_nat_le_bound : forall s, sock_inv s -> (mu_nat s <= bound_nat s)%nat.
  Proof.
    intros s [Hn|Hb]; unfold mu_nat, bound_nat.
    - unfold mu. rewrite Hn. cbn. lia.
    - pose proof (mu_bounds cx s Hb). lia.
  Qed.

  Definition sum_bound (ss : list socket) : nat := fold_right (fun s a => (bound_nat s + a)%nat) O ss.

  Lemma total_le_sum_bound : forall ss, Forall sock_inv ss -> (total2 socket mu_nat ss <= sum_bound ss)%nat.
  Proof.
    induction 1 as [|s ss Hs _ IH]; [cbn; lia|].
    cbn [total2 sum_bound fold_right]. fold (total2 socket mu_nat ss). fold (sum_bound ss).
    pose proof (mu_nat_le_bound s Hs). lia.
  Qed.

  (* Interface::poll's egress loop over any list of TCP sockets returns: for every behaviour of the
     shared environment, with more fuel than the sum of the sockets' burst bounds, the loop ends by
     itself after at most that many emitting passes, every socket again satisfying its invariant. *)
  Theorem tcp_socket_set_egress_returns : forall fuel e ss,
    Forall sock_inv ss -> (sum_bound ss < fuel)%nat ->
    exists e' r n,
      poll_loop2 E socket tcp_dispatch2 pre fuel e ss = Some (e', r, n) /\
      (n <= sum_bound ss)%nat /\ length r = length ss /\ Forall sock_inv r.
  Proof.
    intros fuel e ss Hall Hfuel.
    pose proof (total_le_sum_bound ss Hall) as Hle.
    destruct (poll_loop2_returns E socket tcp_dispatch2 pre sock_inv mu_nat
                sock_inv_step mu_nat_sent mu_nat_else fuel e ss Hall ltac:(lia))
      as (e' & r & n & Hr & Hn & Hlen & Hinvr).
    exists e', r, n. split; [exact Hr|]. split; [lia|]. split; assumption.
  Qed.
End SocketSet.
