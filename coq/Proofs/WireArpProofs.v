(* Lemmas about Model/WireArp.v (properties C06, C07). *)
From SV Require Import Lib.Base Gen.WireFields Model.WireBase Model.WireArp Proofs.WireBaseProofs.

Definition arp_bytes (r : arp_repr) : list Z :=
  be_enc2 arp_HTYPE_ETHERNET ++ be_enc2 arp_PTYPE_IPV4 ++ [6; 4] ++ be_enc2 (arp_oper r) ++
  arp_sha r ++ arp_spa r ++ arp_tha r ++ arp_tpa r.

Lemma arp_wf_inv r : arp_wf r = true ->
  0 <= arp_oper r < 65536 /\
  length (arp_sha r) = 6%nat /\ length (arp_spa r) = 4%nat /\
  length (arp_tha r) = 6%nat /\ length (arp_tpa r) = 4%nat.
Proof.
  unfold arp_wf. intros H. bsplit. repeat split; try lia; apply blen_length; assumption.
Qed.

Lemma arp_emit_spec r b : arp_wf r = true -> blen b = arp_buffer_len r ->
  arp_emit r b = Ok (arp_bytes r).
Proof.
  intros Hwf Hb. apply arp_wf_inv in Hwf. destruct Hwf as (_ & H1 & H2 & H3 & H4).
  destruct r as [op sha spa tha tpa]; cbn [arp_oper arp_sha arp_spa arp_tha arp_tpa] in *.
  apply (blen_length _ 28) in Hb.
  cells H1. cells H2. cells H3. cells H4. cells Hb. reflexivity.
Qed.

Lemma arp_bytes_len r : arp_wf r = true -> blen (arp_bytes r) = arp_buffer_len r.
Proof.
  intros Hwf. apply arp_wf_inv in Hwf. destruct Hwf as (_ & H1 & H2 & H3 & H4).
  unfold arp_bytes, blen. rewrite !app_length, H1, H2, H3, H4. reflexivity.
Qed.

Lemma arp_emit_no_panic r b : arp_wf r = true -> blen b = arp_buffer_len r -> arp_emit r b <> Panic.
Proof. intros; rewrite arp_emit_spec by assumption; discriminate. Qed.

Lemma arp_emit_ignores_old_bytes r b1 b2 : arp_wf r = true ->
  blen b1 = arp_buffer_len r -> blen b2 = arp_buffer_len r -> arp_emit r b1 = arp_emit r b2.
Proof. intros; rewrite !arp_emit_spec by assumption; reflexivity. Qed.

Lemma arp_parse_bytes r : arp_wf r = true -> arp_parse (arp_bytes r) = Ok r.
Proof.
  intros Hwf. apply arp_wf_inv in Hwf. destruct Hwf as (Hop & H1 & H2 & H3 & H4).
  destruct r as [op sha spa tha tpa]; cbn [arp_oper arp_sha arp_spa arp_tha arp_tpa] in *.
  cells H1. cells H2. cells H3. cells H4.
  transitivity (Ok (mkArp (be_dec (be_enc2 op)) [c; c0; c1; c2; c3; c4] [c5; c6; c7; c8]
                          [c9; c10; c11; c12; c13; c14] [c15; c16; c17; c18])); [reflexivity|].
  rewrite be_dec_enc2 by lia. reflexivity.
Qed.

Lemma arp_roundtrip r b : arp_wf r = true -> blen b = arp_buffer_len r ->
  exists bs, arp_emit r b = Ok bs /\ blen bs = arp_buffer_len r /\ arp_parse bs = Ok r.
Proof.
  intros Hwf Hb. exists (arp_bytes r). split; [apply arp_emit_spec; assumption|].
  split; [apply arp_bytes_len; assumption | apply arp_parse_bytes; assumption].
Qed.

(* ---------- C07 ---------- *)

Lemma arp_check_len_inv bs : bytes_ok bs = true -> arp_check_len bs = Ok tt ->
  exists hl pl, arp_hardware_len bs = Ok hl /\ arp_protocol_len bs = Ok pl /\
    0 <= hl < 256 /\ 0 <= pl < 256 /\ 8 + 2 * hl + 2 * pl <= blen bs.
Proof.
  intros Hb. unfold arp_check_len. zfold.
  destruct (blen bs <? 8) eqn:E; [discriminate|]. bsplit.
  unfold arp_hardware_len, arp_protocol_len. zfold.
  rewrite !wb_get_u8_ok by lia. cbn [obind].
  unfold arp_f_TPA, arp_f_THA, arp_f_SPA, arp_f_SHA; cbn [fst snd]. zfold.
  set (hl := nth 4%nat bs 0). set (pl := nth 5%nat bs 0).
  assert (0 <= hl < 256) by (apply bytes_ok_nth; [assumption | unfold blen in *; lia]).
  assert (0 <= pl < 256) by (apply bytes_ok_nth; [assumption | unfold blen in *; lia]).
  destruct (blen bs <? 8 + hl + pl + hl + pl) eqn:E2; [discriminate|]. bsplit.
  intros _. exists hl, pl. repeat split; try lia.
Qed.

Lemma arp_accessors_safe bs : bytes_ok bs = true -> arp_check_len bs = Ok tt ->
  arp_hardware_type bs <> Panic /\ arp_protocol_type bs <> Panic /\
  arp_hardware_len bs <> Panic /\ arp_protocol_len bs <> Panic /\ arp_operation bs <> Panic /\
  arp_source_hardware_addr bs <> Panic /\ arp_source_protocol_addr bs <> Panic /\
  arp_target_hardware_addr bs <> Panic /\ arp_target_protocol_addr bs <> Panic.
Proof.
  intros Hb H. destruct (arp_check_len_inv bs Hb H) as (hl & pl & Hhl & Hpl & R1 & R2 & L).
  unfold arp_hardware_type, arp_protocol_type, arp_operation, wb_get_u16,
    arp_source_hardware_addr, arp_source_protocol_addr, arp_target_hardware_addr,
    arp_target_protocol_addr, arp_var_field.
  rewrite Hhl, Hpl. cbn [obind].
  unfold wb_field, arp_f_TPA, arp_f_THA, arp_f_SPA, arp_f_SHA; cbn [fst snd]. zfold.
  repeat split; try discriminate;
    try (apply wb_get_be_nopanic; zfold; lia); apply wb_sub_nopanic; lia.
Qed.

Lemma arp_var_field_len bs hl pl f s :
  arp_hardware_len bs = Ok hl -> arp_protocol_len bs = Ok pl ->
  arp_var_field f bs = Ok s -> blen s = snd (f hl pl) - fst (f hl pl).
Proof.
  intros Hhl Hpl. unfold arp_var_field. rewrite Hhl, Hpl. cbn [obind]. unfold wb_field.
  intros H. apply wb_sub_inv in H. tauto.
Qed.

Lemma arp_parse_total bs : bytes_ok bs = true -> arp_parse bs <> Panic.
Proof.
  intros Hb. unfold arp_parse.
  destruct (arp_check_len bs) as [[]| |] eqn:E; cbn [obind]; try discriminate.
  - destruct (arp_accessors_safe bs Hb E) as (A1 & A2 & A3 & A4 & A5 & A6 & A7 & A8 & A9).
    destruct (arp_check_len_inv bs Hb E) as (hl & pl & Hhl & Hpl & _).
    destruct (arp_hardware_type bs) as [ht| |]; cbn [obind]; try discriminate; [|congruence].
    destruct (arp_protocol_type bs) as [pt| |]; cbn [obind]; try discriminate; [|congruence].
    rewrite Hhl, Hpl. cbn [obind].
    destruct ((ht =? arp_HTYPE_ETHERNET) && (pt =? arp_PTYPE_IPV4) && (hl =? 6) && (pl =? 4)) eqn:C;
      [|discriminate].
    bsplit. subst hl pl.
    destruct (arp_operation bs) as [op| |]; cbn [obind]; try discriminate; [|congruence].
    destruct (arp_source_hardware_addr bs) as [s1| |] eqn:E1; cbn [obind]; try discriminate; [|congruence].
    apply (arp_var_field_len _ _ _ _ _ Hhl Hpl) in E1. revert E1. unfold arp_f_SHA; cbn [fst snd]; zfold.
    intros E1. unfold wb_arr at 1. rewrite E1. zfold. cbn [obind].
    destruct (arp_source_protocol_addr bs) as [s2| |] eqn:E2; cbn [obind]; try discriminate; [|congruence].
    apply (arp_var_field_len _ _ _ _ _ Hhl Hpl) in E2. revert E2.
    unfold arp_f_SPA, arp_f_SHA; cbn [fst snd]; zfold.
    intros E2. unfold wb_arr at 1. rewrite E2. zfold. cbn [obind].
    destruct (arp_target_hardware_addr bs) as [s3| |] eqn:E3; cbn [obind]; try discriminate; [|congruence].
    apply (arp_var_field_len _ _ _ _ _ Hhl Hpl) in E3. revert E3.
    unfold arp_f_THA, arp_f_SPA, arp_f_SHA; cbn [fst snd]; zfold.
    intros E3. unfold wb_arr at 1. rewrite E3. zfold. cbn [obind].
    destruct (arp_target_protocol_addr bs) as [s4| |] eqn:E4; cbn [obind]; try discriminate; [|congruence].
    apply (arp_var_field_len _ _ _ _ _ Hhl Hpl) in E4. revert E4.
    unfold arp_f_TPA, arp_f_THA, arp_f_SPA, arp_f_SHA; cbn [fst snd]; zfold.
    intros E4. unfold wb_arr at 1. rewrite E4. zfold. cbn [obind]. discriminate.
  - exfalso. revert E. unfold arp_check_len. zfold.
    destruct (blen bs <? 8) eqn:L; [discriminate|]. bsplit.
    unfold arp_hardware_len, arp_protocol_len. zfold. rewrite !wb_get_u8_ok by lia. cbn [obind].
    case_if; discriminate.
Qed.

(* parse produces well-formed representations *)
Lemma arp_parse_wf bs r : bytes_ok bs = true -> arp_parse bs = Ok r -> arp_wf r = true.
Proof.
  intros Hb H. unfold arp_parse in H.
  destruct (arp_check_len bs) as [[]| |] eqn:E; cbn [obind] in H; try discriminate.
  destruct (arp_check_len_inv bs Hb E) as (hl & pl & Hhl & Hpl & _).
  obind_inv H. rewrite Hhl in E2. rewrite Hpl in E3. injection E2 as <-. injection E3 as <-.
  destruct ((v =? arp_HTYPE_ETHERNET) && (v0 =? arp_PTYPE_IPV4) && (hl =? 6) && (pl =? 4)) eqn:C;
    [|discriminate].
  obind_inv H. injection H as <-.
  unfold arp_wf; cbn [arp_oper arp_sha arp_spa arp_tha arp_tpa].
  assert (Harr : forall n s s', wb_arr n s = Ok s' -> s' = s /\ blen s = n).
  { intros n s s'. unfold wb_arr. destruct (blen s =? n) eqn:L; [|discriminate].
    intros X; injection X as <-. bsplit. auto. }
  repeat match goal with
  | X : wb_arr _ _ = Ok _ |- _ => apply Harr in X; destruct X as (-> & ?)
  end.
  assert (Hf : forall f s, arp_var_field f bs = Ok s -> bytes_ok s = true).
  { intros f s. unfold arp_var_field. rewrite Hhl, Hpl. cbn [obind]. unfold wb_field.
    apply wb_sub_bytes; assumption. }
  repeat match goal with
  | X : arp_source_hardware_addr bs = Ok _ |- _ => apply Hf in X
  | X : arp_source_protocol_addr bs = Ok _ |- _ => apply Hf in X
  | X : arp_target_hardware_addr bs = Ok _ |- _ => apply Hf in X
  | X : arp_target_protocol_addr bs = Ok _ |- _ => apply Hf in X
  end.
  unfold is_arr.
  repeat match goal with
  | X : blen _ = _ |- _ => rewrite X; clear X
  | X : bytes_ok _ = true |- _ => rewrite X; clear X
  end.
  zfold. cbn [andb]. rewrite !andb_true_r.
  match goal with X : arp_operation bs = Ok _ |- _ => rename X into Eop end.
  assert (Hb' : bytes_ok bs = true) by (destruct (bytes_ok bs); [reflexivity | discriminate]).
  unfold arp_operation, wb_get_u16, wb_get_be in Eop. obind_inv Eop.
  match goal with X : wb_sub bs _ _ = Ok _ |- _ =>
    pose proof (wb_sub_bytes _ _ _ _ Hb' X) as Hv; apply wb_sub_inv in X; destruct X as (_ & _ & _ & L) end.
  zfold_in L. apply (blen_length _ 2) in L. cells L.
  revert Eop. unfold blen; cbn [length firstn]. zfold. cbn [firstn]. intros X; injection X as <-.
  cbn [bytes_ok forallb] in Hv. bsplit. unfold is_u16. rewrite be_dec2. zbool. reflexivity.
Qed.

Lemma arp_reparse bs r : bytes_ok bs = true -> arp_parse bs = Ok r ->
  arp_wf r = true /\
  forall b, blen b = arp_buffer_len r ->
    exists bs', arp_emit r b = Ok bs' /\ arp_parse bs' = Ok r.
Proof.
  intros Hb H. pose proof (arp_parse_wf _ _ Hb H) as Hwf. split; [assumption|].
  intros b Hl. destruct (arp_roundtrip r b Hwf Hl) as (bs' & He & _ & Hp). eauto.
Qed.
