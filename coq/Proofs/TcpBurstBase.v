(* C03, "fail to return" clause for the TCP socket, layer 0: definitions and arithmetic.

   Interface::poll calls socket_egress again and again while some socket emitted a frame, with the
   clock fixed.  For one TCP socket this is the iteration of [tcp_dispatch cx . true] (Model/Tcp.v
   [iface_poll_egress]).  This file defines

     - the extra socket invariant [sinv] the termination argument needs beyond the C02 invariant
       [tcp_live_inv] and the C05 sender invariant [inv]  (probe timer only with octets queued and a
       positive back-off; remote MSS >= MIN_REMOTE_MSS; syn_unacked_in_fin_wait only in FIN-WAIT-1),
       the receive-side arithmetic fact [rx_ok] and the user-settable hypothesis [ka_pos];
     - the measure [mu cx s] (a natural number under the invariants) that strictly decreases on
       every emitting dispatch at a fixed instant, and its closed upper bound [burst_bound cx s];
     - the pure arithmetic behind the data part of the measure ([phi_data_step]).

   No socket-level proof here. *)
From SV Require Import Lib.Base Gen.Consts.
From SV Require Import Model.Seq32 Model.Assembler Model.TcpBuf Model.TcpTypes Model.Tcp.
From SV Require Import Proofs.TcpSendBase Proofs.TcpSendInv Proofs.TcpSendDisp.
From SV Require Import Proofs.TcpLiveBase.

(* ------------------------------------------------------------------------------------------ *)
(* hypotheses on the socket and the context                                                     *)
(* ------------------------------------------------------------------------------------------ *)

(* S1: a zero-window-probe timer is armed only while octets are queued (repair 1789dc0, D19) and its
       back-off delay is positive (it is an RTO);
   S2: the remote MSS is never below MIN_REMOTE_MSS (the clamp in process, DEFAULT_MSS after reset);
   S3: the "SYN|ACK still unacknowledged" flag of close()-in-SYN-RECEIVED survives only in FIN-WAIT-1
       (any acceptable ACK clears it) or in a dead CLOSED socket. *)
Definition zwp_ok (s : socket) : Prop :=
  match s_timer s with
  | TZeroWindowProbe _ d => 0 < d /\ 0 < rb_len (s_tx_buffer s)
  | _ => True
  end.
Definition rmss_ok (s : socket) : Prop := tcp_MIN_REMOTE_MSS <= s_remote_mss s.
Definition synfw_ok (s : socket) : Prop :=
  s_syn_unacked_in_fin_wait s = true -> s_state s = FinWait1 \/ s_state s = Closed.

Definition sinv (s : socket) : Prop := zwp_ok s /\ rmss_ok s /\ synfw_ok s.

(* receive side: the window shift is a shift and the free space of the receive buffer is a 31-bit
   number (Socket::new refuses more than 2^30), so that the window just advertised never looks
   "more than doubled" again *)
Definition rx_ok (s : socket) : Prop :=
  0 <= s_remote_win_shift s /\ 0 <= rb_window (s_rx_buffer s) < 2 ^ 31.

(* the user-settable keep-alive interval is not zero (set_keep_alive(Some(0)) makes every dispatch
   send a keep-alive: [burst_keep_alive_zero_refuted] in TcpBurstProofs.v) *)
Definition ka_pos (s : socket) : Prop :=
  match s_keep_alive s with Some k => 0 < k | None => True end.

(* the interface MTU leaves room for at least one payload octet next to the timestamp option *)
Definition mtu_ok (cx : ctx) : Prop :=
  wipv4_HEADER_LEN + wtcp_HEADER_LEN + 12 < cx_ip_mtu cx.

(* ------------------------------------------------------------------------------------------ *)
(* the measure                                                                                  *)
(* ------------------------------------------------------------------------------------------ *)
Definition fl (s : socket) : Z := match tcp_flight_size s with Ok f => f | _ => 0 end.
Definition emss (cx : ctx) (s : socket) : Z :=
  eff_mss (cx_ip_mtu cx) (s_remote_mss s) (ts_opt s).
Definition cwnd (s : socket) : Z := cc_window (s_congestion_controller s).

(* keep-alive or probe timer due *)
Definition m_D (cx : ctx) (s : socket) : Z :=
  b2z (timer_should_keep_alive (s_timer s) (cx_now cx)
       || timer_should_zero_window_probe (s_timer s) (cx_now cx)).
(* an acknowledgement or a window update is owed *)
Definition wtu_on (s : socket) : bool :=
  match tcp_window_to_update s with Ok false => false | _ => true end.
Definition m_B (s : socket) : Z := b2z (tcp_ack_to_transmit s || wtu_on s).
(* a fast retransmission is pending and the window lets it out *)
Definition m_P (s : socket) : Z :=
  b2z (s_pending_fast_retransmit s && (s_remote_win_len s >? 0)).

(* segments still needed for the octets that may be sent now: what fits the peer's window, the
   transmit queue and the congestion window, minus what is in flight, in units of the effective
   MSS (rounded up); one more when the ring wraps ahead of SND.NXT; one more for the FIN *)
Definition phi_data (win len cw mss ra cap : Z) (fin : bool) (f : Z) : Z :=
  div_ceil (Z.max 0 (Z.min (Z.min win len) cw - f)) mss
  + b2z ((ra + f <? cap) && (cap <? ra + len))
  + b2z (fin && (f <=? len)).

Definition m_Phi (cx : ctx) (s : socket) : Z :=
  if tcp_sent_syn s then b2z (fl s =? 0)
  else if data_state (s_state s) then
    phi_data (s_remote_win_len s) (rb_len (s_tx_buffer s)) (cwnd s) (emss cx s)
             (rb_read_at (s_tx_buffer s)) (rb_cap (s_tx_buffer s)) (fin_state (s_state s)) (fl s)
  else 0.

(* the measure of a socket whose retransmission timer is not due *)
Definition nu (cx : ctx) (s : socket) : Z := 1 + m_D cx s + m_B s + m_P s + m_Phi cx s.

(* the measure: the timer-driven part of dispatch (RTO rewind, fast retransmit) runs first *)
Definition mu (cx : ctx) (s : socket) : Z :=
  match s_tuple s with
  | None => 0
  | Some t =>
      if negb (tu_local_addr t =? cx_addr cx) then 0 else
      match tcp_dispatch_timers cx s with Ok (s1, _) => nu cx s1 | _ => 0 end
  end.

(* closed upper bound: depends only on the octets queued, the peer's window, the effective MSS *)
Definition burst_bound (cx : ctx) (s : socket) : Z :=
  6 + div_ceil (Z.max 0 (Z.min (s_remote_win_len s) (rb_len (s_tx_buffer s)))) (emss cx s).

(* ------------------------------------------------------------------------------------------ *)
(* div_ceil                                                                                     *)
(* ------------------------------------------------------------------------------------------ *)
Lemma div_ceil_0 : forall b, div_ceil 0 b = 0.
Proof. intros. unfold div_ceil. reflexivity. Qed.

Lemma div_ceil_spec : forall a b, 0 <= a -> 0 < b ->
  b * (div_ceil a b - 1) < a <= b * div_ceil a b \/ (a = 0 /\ div_ceil a b = 0).
Proof.
  intros a b Ha Hb. unfold div_ceil.
  pose proof (Z.div_mod a b ltac:(lia)) as E. pose proof (Z.mod_pos_bound a b Hb) as M.
  destruct (Z.gtb_spec (a mod b) 0).
  - left. nia.
  - assert (a mod b = 0) by lia. destruct (Z.eq_dec a 0).
    + right. split; [assumption|]. subst a. rewrite Z.div_0_l by lia. reflexivity.
    + left. nia.
Qed.

Lemma div_ceil_nonneg : forall a b, 0 <= a -> 0 < b -> 0 <= div_ceil a b.
Proof. intros a b Ha Hb. destruct (div_ceil_spec a b Ha Hb) as [H|(_ & ->)]; [nia|lia]. Qed.

Lemma div_ceil_pos : forall a b, 0 < a -> 0 < b -> 1 <= div_ceil a b.
Proof.
  intros a b Ha Hb. destruct (div_ceil_spec a b ltac:(lia) Hb) as [H|(H & _)]; [|lia].
  destruct (Z.le_gt_cases 1 (div_ceil a b)); [assumption|].
  assert (b * div_ceil a b <= 0) by nia. lia.
Qed.

Lemma div_ceil_mono : forall a a' b, 0 <= a <= a' -> 0 < b -> div_ceil a b <= div_ceil a' b.
Proof.
  intros a a' b Ha Hb.
  destruct (div_ceil_spec a b ltac:(lia) Hb) as [H|(_ & ->)];
    [|apply div_ceil_nonneg; lia].
  destruct (div_ceil_spec a' b ltac:(lia) Hb) as [H'|(H' & E')].
  - destruct (Z.le_gt_cases (div_ceil a b) (div_ceil a' b)); [assumption|].
    assert (b * div_ceil a' b <= b * (div_ceil a b - 1)) by nia. lia.
  - rewrite E'. assert (a = 0) by lia. subst a.
    destruct (Z.le_gt_cases (div_ceil 0 b) 0); [assumption|].
    assert (0 <= b * (div_ceil 0 b - 1)) by nia. lia.
Qed.

Lemma div_ceil_sub : forall a b, 0 < b <= a -> div_ceil (a - b) b <= div_ceil a b - 1.
Proof.
  intros a b H.
  destruct (div_ceil_spec a b ltac:(lia) ltac:(lia)) as [H1|(H1 & _)]; [|lia].
  destruct (div_ceil_spec (a - b) b ltac:(lia) ltac:(lia)) as [H2|(_ & ->)].
  - destruct (Z.le_gt_cases (div_ceil (a - b) b) (div_ceil a b - 1)); [assumption|].
    assert (b * div_ceil a b <= b * (div_ceil (a - b) b - 1)) by nia. lia.
  - pose proof (div_ceil_pos a b ltac:(lia) ltac:(lia)). lia.
Qed.

Lemma div_ceil_le : forall a b, 0 <= a -> 0 < b -> div_ceil a b <= a.
Proof.
  intros a b Ha Hb. destruct (div_ceil_spec a b Ha Hb) as [H|(_ & ->)]; [nia|lia].
Qed.

(* ------------------------------------------------------------------------------------------ *)
(* the data part of the measure                                                                 *)
(* ------------------------------------------------------------------------------------------ *)
Lemma b2z_01 : forall b, 0 <= b2z b <= 1.
Proof. intros []; cbn; lia. Qed.

Lemma phi_data_nonneg : forall win len cw mss ra cap fin f, 0 < mss ->
  0 <= phi_data win len cw mss ra cap fin f.
Proof.
  intros. unfold phi_data.
  pose proof (div_ceil_nonneg (Z.max 0 (Z.min (Z.min win len) cw - f)) mss ltac:(lia) H).
  pose proof (b2z_01 ((ra + f <? cap) && (cap <? ra + len))).
  pose proof (b2z_01 (fin && (f <=? len))). lia.
Qed.

(* more in flight never needs more segments *)
Lemma phi_data_mono : forall win len cw mss ra cap fin f f', 0 < mss -> f <= f' ->
  phi_data win len cw mss ra cap fin f' <= phi_data win len cw mss ra cap fin f.
Proof.
  intros win len cw mss ra cap fin f f' Hm Hf. unfold phi_data.
  pose proof (div_ceil_mono (Z.max 0 (Z.min (Z.min win len) cw - f'))
                            (Z.max 0 (Z.min (Z.min win len) cw - f)) mss ltac:(lia) Hm).
  assert (b2z ((ra + f' <? cap) && (cap <? ra + len)) <= b2z ((ra + f <? cap) && (cap <? ra + len))).
  { destruct (Z.ltb_spec (ra + f') cap); destruct (Z.ltb_spec (ra + f) cap);
    destruct (cap <? ra + len); cbn; lia. }
  assert (b2z (fin && (f' <=? len)) <= b2z (fin && (f <=? len))).
  { destruct fin; destruct (Z.leb_spec f' len); destruct (Z.leb_spec f len); cbn; lia. }
  lia.
Qed.

Lemma phi_data_bound : forall win len cw mss ra cap fin f, 0 < mss -> 0 <= f ->
  phi_data win len cw mss ra cap fin f <= div_ceil (Z.max 0 (Z.min win len)) mss + 2.
Proof.
  intros win len cw mss ra cap fin f Hm Hf. unfold phi_data.
  pose proof (div_ceil_mono (Z.max 0 (Z.min (Z.min win len) cw - f)) (Z.max 0 (Z.min win len)) mss
                            ltac:(lia) Hm).
  pose proof (b2z_01 ((ra + f <? cap) && (cap <? ra + len))).
  pose proof (b2z_01 (fin && (f <=? len))). lia.
Qed.

(* how many octets the normal transmission path takes, by which bound is tight *)
Lemma step_n_cases : forall win len cw mss ra cap f idx size n Q,
  0 < mss -> 0 <= f <= len -> len <= cap -> 0 <= ra -> (cap = 0 \/ ra < cap) ->
  idx = (if ra + f <? cap then ra + f else ra + f - cap) ->
  size = Z.min (Z.min (Z.max 0 (win - f)) mss) (Z.max 0 (cw - f)) ->
  n = Z.max 0 (Z.min (Z.min size (len - f)) (cap - idx)) ->
  Q = Z.max 0 (Z.min (Z.min win len) cw - f) ->
  (n = mss /\ mss <= Q) \/ (n = Q /\ Q < mss) \/
  (n = cap - ra - f /\ ra + f < cap /\ cap < ra + len /\ 0 < n <= Q).
Proof.
  intros win len cw mss ra cap f idx size n Q Hm Hf Hlc Hra Hcap Hidx Hsize Hn HQ.
  assert (Hm' : Z.min size (len - f) = Z.min Q mss) by (clear - Hf Hsize HQ; subst size Q; lia).
  rewrite Hm' in Hn. clear Hm' Hsize size.
  assert (HQ0 : 0 <= Q) by (subst Q; lia).
  assert (HQl : Q <= len - f) by (subst Q; lia).
  clear HQ win cw.
  destruct (Z.ltb_spec (ra + f) cap) as [Hlt|Hge]; subst idx.
  - destruct (Z.le_gt_cases (Z.min Q mss) (cap - (ra + f))).
    + destruct (Z.le_gt_cases mss Q); [left|right; left]; lia.
    + right; right. lia.
  - destruct (Z.le_gt_cases mss Q); [left|right; left]; lia.
Qed.

Lemma sendable_after : forall a f n c, 0 <= n -> 0 <= c ->
  Z.max 0 (a - (f + n + c)) <= Z.max 0 (Z.max 0 (a - f) - n).
Proof. intros. lia. Qed.

Lemma sendable_le : forall win len cw f, Z.max 0 (Z.min (Z.min win len) cw - f) <= Z.max 0 (len - f).
Proof. intros. lia. Qed.

(* The normal transmission path of dispatch: with [f] in flight it takes
     n = min (window left, MSS, congestion window left, octets queued beyond f, contiguous part of
              the ring from f)
   octets and the FIN when that exhausts the queue in a FIN state.  If that segment occupies any
   sequence space, the data measure strictly decreases. *)
Lemma phi_data_step : forall win len cw mss ra cap fin f idx size n c,
  0 < mss -> 0 <= f <= len -> len <= cap -> 0 <= ra -> (cap = 0 \/ ra < cap) ->
  idx = (if ra + f <? cap then ra + f else ra + f - cap) ->
  size = Z.min (Z.min (Z.max 0 (win - f)) mss) (Z.max 0 (cw - f)) ->
  n = Z.max 0 (Z.min (Z.min size (len - f)) (cap - idx)) ->
  c = b2z (fin && (f + n =? len)) ->
  0 < n + c ->
  phi_data win len cw mss ra cap fin (f + n + c) < phi_data win len cw mss ra cap fin f.
Proof.
  intros win len cw mss ra cap fin f idx size n c Hm Hf Hlc Hra Hcap Hidx Hsize Hn Hc Hpos.
  remember (Z.max 0 (Z.min (Z.min win len) cw - f)) as Q eqn:HQ.
  pose proof (step_n_cases win len cw mss ra cap f idx size n Q Hm Hf Hlc Hra Hcap Hidx Hsize Hn HQ)
    as Hcases.
  assert (Hc01 : 0 <= c <= 1) by (rewrite Hc; apply b2z_01).
  assert (Hn0 : 0 <= n) by (rewrite Hn; apply Z.le_max_l).
  assert (Hff : f <= f + n + c) by (clear - Hc01 Hn0; lia).
  assert (Hmono := phi_data_mono win len cw mss ra cap fin f (f + n + c) Hm Hff).
  unfold phi_data in *. rewrite <- HQ in *.
  remember (Z.max 0 (Z.min (Z.min win len) cw - (f + n + c))) as Q' eqn:HQ'.
  assert (HQ'le : Q' <= Z.max 0 (Q - n)) by (subst Q Q'; apply sendable_after; lia).
  assert (HQ0 : 0 <= Q) by (subst Q; apply Z.le_max_l).
  assert (HQ'0 : 0 <= Q') by (subst Q'; apply Z.le_max_l).
  assert (HQl : Q <= len - f).
  { subst Q. pose proof (sendable_le win len cw f) as X.
    rewrite (Z.max_r 0 (len - f)) in X by (clear - Hf; lia). exact X. }
  clear HQ HQ' Hidx Hsize Hn idx size win cw.
  assert (Hdc : div_ceil Q' mss <= div_ceil Q mss) by (apply div_ceil_mono; lia).
  assert (Hw : b2z ((ra + (f + n + c) <? cap) && (cap <? ra + len))
               <= b2z ((ra + f <? cap) && (cap <? ra + len))).
  { destruct (Z.ltb_spec (ra + (f + n + c)) cap); destruct (Z.ltb_spec (ra + f) cap);
    destruct (cap <? ra + len); cbn; lia. }
  assert (Hfin : b2z (fin && (f + n + c <=? len)) <= b2z (fin && (f <=? len))).
  { destruct fin; destruct (Z.leb_spec (f + n + c) len); destruct (Z.leb_spec f len); cbn; lia. }
  destruct Hcases as [(En & Hfull)|[(En & Hshort)|(En & Hlt & Hwrap & Hnq)]].
  - (* a full segment *)
    pose proof (div_ceil_sub Q mss ltac:(lia)) as Hs.
    assert (div_ceil Q' mss <= div_ceil (Q - mss) mss) by (apply div_ceil_mono; lia). lia.
  - destruct (Z.eq_dec Q 0) as [HQz|HQnz].
    + (* no octet: the segment is the FIN *)
      assert (n = 0) by lia. assert (c = 1) by lia.
      assert (Hfl : fin = true /\ f = len).
      { rewrite Hc in H0. destruct fin; [|cbn in H0; lia].
        destruct (Z.eqb_spec (f + n) len); [split; [reflexivity|lia]|cbn in H0; lia]. }
      destruct Hfl as (-> & ->).
      assert (b2z (true && (len + n + c <=? len)) = 0)
        by (destruct (Z.leb_spec (len + n + c) len); [lia|reflexivity]).
      assert (b2z (true && (len <=? len)) = 1)
        by (destruct (Z.leb_spec len len); [reflexivity|lia]).
      lia.
    + (* the last octets that fit *)
      assert (Q' = 0) by lia.
      pose proof (div_ceil_pos Q mss ltac:(lia) Hm).
      rewrite H, div_ceil_0 in *. lia.
  - (* the ring wraps inside the segment: the wrap flag drops *)
    assert (b2z ((ra + f <? cap) && (cap <? ra + len)) = 1).
    { destruct (Z.ltb_spec (ra + f) cap); [|lia]. destruct (Z.ltb_spec cap (ra + len)); [reflexivity|lia]. }
    assert (b2z ((ra + (f + n + c) <? cap) && (cap <? ra + len)) = 0).
    { destruct (Z.ltb_spec (ra + (f + n + c)) cap); [lia|reflexivity]. }
    lia.
Qed.
