(* C02 (liveness half), the handshake after losses, SERVER side - socket level.
   The client is ESTABLISHED, the server still in SYN-RECEIVED and the client's ACK of the SYN|ACK is
   lost: the server retransmits its SYN|ACK (retransmission timer, bounded by RTTE_MAX_RTO), the client
   answers a duplicate SYN|ACK with a challenge ACK - at most one per second (challenge_ack_timer) -
   and that ACK establishes the server.
     chf / dispatch_nothing_chf   the challenge-ACK rate limiter is written by nothing but a challenge ACK:
                                  a dispatch that transmits nothing, send, recv leave it alone
     dispatch_est_nothing         an ESTABLISHED socket with nothing in flight that is polled and
                                  transmits nothing: SND.UNA / SND.NXT stay
     process_est_dupsyn           an ESTABLISHED socket receives a duplicate SYN|ACK (sequence number
                                  RCV.NXT - 1, no payload, acknowledging SND.UNA): if the rate limiter
                                  has expired a challenge ACK is replied; if nothing is replied the
                                  socket is unchanged *)
From SV Require Import Lib.Base Gen.Consts.
From SV Require Import Model.Seq32 Model.Assembler Model.TcpBuf Model.TcpTypes Model.Tcp Model.TcpNet.
From SV Require Import Proofs.TcpSendBase Proofs.TcpLiveBase Proofs.TcpLiveProofs Proofs.TcpLiveMore
  Proofs.TcpLiveProgress.
From SV Require Proofs.TcpRecvBase Proofs.TcpRecvWindow Proofs.TcpRecvInv Proofs.TcpRecvProcess Proofs.TcpRecvDispatch.
From SV Require Import Proofs.TcpProgressFrame Proofs.TcpProgressCtl Proofs.TcpProgressRecv Proofs.TcpProgressSend
  Proofs.TcpProgressHs Proofs.TcpProgressHsD Proofs.TcpProgressHs2.

(* ---------------------------------------------------------------------------------------- *)
(* the challenge-ACK rate limiter is left alone                                               *)
(* ---------------------------------------------------------------------------------------- *)
Definition chf (s' s : socket) : Prop := s_challenge_ack_timer s' = s_challenge_ack_timer s.

Lemma chf_refl s : chf s s.
Proof. reflexivity. Qed.
Lemma chf_trans a b c : chf a b -> chf b c -> chf a c.
Proof. unfold chf. congruence. Qed.

Ltac chf_solve := unfold chf; sproj; reflexivity.

Lemma dispatch_timers_chf cx s s1 t : tcp_dispatch_timers cx s = Ok (s1, t) -> chf s1 s.
Proof.
  unfold tcp_dispatch_timers. intros H.
  set (s0 := if is_some (s_remote_last_ts s) then s else upd_remote_last_ts s (Some (cx_now cx))) in *.
  assert (H0 : chf s0 s) by (unfold s0; destruct (is_some (s_remote_last_ts s)); chf_solve).
  apply (chf_trans _ s0); [|exact H0]. clear H0. clearbody s0.
  destruct (tcp_timed_out s0 (cx_now cx)); [inversion H; subst; chf_solve|].
  destruct (timer_should_retransmit (s_timer s0) (cx_now cx)); [|inversion H; subst; chf_solve].
  apply obind_ok in H. destruct H as (fl & _ & H).
  destruct (s_timer s0); cbv beta iota zeta in H; sproj; TcpRecvProcess.des_all H; inversion H; subst; chf_solve.
Qed.

Lemma dispatch_decide_chf cx s s2 go t : tcp_dispatch_decide cx s = Ok (s2, go, t) -> chf s2 s.
Proof.
  unfold tcp_dispatch_decide. intros H.
  apply obind_ok in H. destruct H as (stt & _ & H).
  destruct stt; [inversion H; subst; chf_solve|].
  destruct (tcp_ack_to_transmit s && tcp_delayed_ack_expired s (cx_now cx)); [inversion H; subst; chf_solve|].
  apply obind_ok in H. destruct H as (wtu & _ & H).
  TcpRecvProcess.des_all H; inversion H; subst; chf_solve.
Qed.

Lemma build_data_chf cx s repr s' orepr zwp tg :
  tcp_dispatch_build_data cx s repr = Ok (s', orepr, zwp, tg) -> chf s' s.
Proof.
  unfold tcp_dispatch_build_data. intros H.
  apply obind_ok in H. destruct H as (ol & _ & H).
  apply obind_ok in H. destruct H as (lm & _ & H).
  apply obind_ok in H. destruct H as (((((s1 & r1) & off) & zw) & tg1) & H1 & H).
  assert (Hr1 : chf s1 s).
  { TcpRecvProcess.des1 H1.
    - inversion H1; subst. chf_solve.
    - repeat (apply obind_ok in H1; destruct H1 as (? & _ & H1)). inversion H1; subst. apply chf_refl. }
  cbv beta iota zeta in H. inversion H; subst. exact Hr1.
Qed.

Lemma dispatch_build_chf cx s t s' orepr zwp ka tg :
  tcp_dispatch_build cx s t = Ok (s', orepr, zwp, ka, tg) -> chf s' s.
Proof.
  unfold tcp_dispatch_build. intros H.
  apply obind_ok in H. destruct H as ((((s1 & or1) & zw1) & tg1) & H1 & H).
  assert (Hb : chf s1 s).
  { destruct (s_state s); try (inversion H1; subst; apply chf_refl);
      try (apply build_data_chf in H1; exact H1).
    destruct (s_syn_unacked_in_fin_wait s); [inversion H1; subst; apply chf_refl|].
    apply build_data_chf in H1; exact H1. }
  destruct or1 as [repr|]; [|inversion H; subst; exact Hb].
  apply obind_ok in H. destruct H as (repr' & _ & H). inversion H; subst. exact Hb.
Qed.

(* a dispatch that transmits nothing leaves the rate limiter alone *)
Theorem dispatch_nothing_chf cx s ok s' tags t :
  s_tuple s = Some t -> tu_local_addr t = cx_addr cx ->
  tcp_dispatch cx s ok = Ok (s', DNothing, tags) -> chf s' s.
Proof.
  unfold tcp_dispatch. intros Ht Ha H. rewrite Ht, Ha, Z.eqb_refl in H. cbn [negb] in H.
  apply obind_ok in H. destruct H as ((s1 & t1) & H1 & H).
  pose proof (dispatch_timers_chf _ _ _ _ H1) as P1.
  apply obind_ok in H. destruct H as (((s2 & go) & t2) & H2 & H).
  pose proof (dispatch_decide_chf _ _ _ _ _ H2) as P2.
  pose proof (chf_trans _ _ _ P2 P1) as P12.
  destruct (negb go); [inversion H; subst; exact P12|].
  apply obind_ok in H. destruct H as (((((s3 & orepr) & zwp) & ka) & t3) & H3 & H).
  pose proof (chf_trans _ _ _ (dispatch_build_chf _ _ _ _ _ _ _ _ H3) P12) as P3.
  destruct orepr as [repr|]; [|inversion H; subst; exact P3].
  destruct (negb ok); [inversion H|].
  destruct (tcp_dispatch_finish cx s3 repr zwp ka) as (s4, t4). inversion H.
Qed.

Lemma send_slice_chf s data s' n : tcp_send_slice s data = Ok (s', n) -> chf s' s.
Proof.
  unfold tcp_send_slice. intros H. destruct (negb (tcp_may_send s)); [discriminate|].
  destruct (rb_enqueue_slice (s_tx_buffer s) data) as (tx, size).
  TcpRecvProcess.des_all H; inversion H; subst; chf_solve.
Qed.

Lemma recv_slice_chf s n s' b : tcp_recv_slice s n = Ok (s', b) -> chf s' s.
Proof.
  unfold tcp_recv_slice. intros H. apply obind_ok in H. destruct H as (u & _ & H).
  destruct (rb_dequeue_slice (s_rx_buffer s) n) as (rx, bytes). inversion H; subst. chf_solve.
Qed.

(* send / recv *)
Theorem quiet_chf cx s ev s' out tags :
  ((exists d, ev = EvSend d) \/ (exists n, ev = EvRecv n)) ->
  tcp_step cx s ev = Ok (s', out, tags) -> chf s' s.
Proof.
  intros [(d & ->) | (n & ->)] H; cbn [tcp_step] in H.
  - destruct (tcp_send_slice s d) as [(s1, k)|e|] eqn:E; [| |discriminate].
    + inversion H; subst. exact (send_slice_chf _ _ _ _ E).
    + inversion H; subst. apply chf_refl.
  - destruct (tcp_recv_slice s n) as [(s1, b)|e|] eqn:E; [| |discriminate].
    + inversion H; subst. exact (recv_slice_chf _ _ _ _ E).
    + inversion H; subst. apply chf_refl.
Qed.

(* ---------------------------------------------------------------------------------------- *)
(* an ESTABLISHED socket with nothing in flight is polled and transmits nothing               *)
(* ---------------------------------------------------------------------------------------- *)
Theorem dispatch_est_nothing : forall cx s t ok s' tags,
  tcp_live_inv s -> s_state s = Established -> s_timeout s = None ->
  s_tuple s = Some t -> tu_local_addr t = cx_addr cx ->
  s_remote_last_seq s = s_local_seq_no s -> tcp_send_next_seq s = s_local_seq_no s ->
  tcp_dispatch cx s ok = Ok (s', DNothing, tags) ->
  s_local_seq_no s' = s_local_seq_no s /\ s_remote_last_seq s' = s_local_seq_no s /\
  tcp_send_next_seq s' = s_local_seq_no s.
Proof.
  intros cx s t ok s' tags I Hst Hto Htu Haddr Hrl Hnx H.
  assert (Hhs : hs_state (s_state s)) by (right; right; exact Hst).
  destruct (dispatch_keeps _ _ _ _ _ _ _ I Hhs Hto Htu Haddr H) as (Kst & _). rewrite Hst in Kst.
  unfold tcp_dispatch in H. rewrite Htu, Haddr, Z.eqb_refl in H. cbn [negb] in H.
  obind_inv H. destruct a as (s1, t1). rename E into Edt.
  pose proof (dispatch_timers_msx _ _ _ _ Edt) as M1.
  pose proof (dt_pre_core cx s) as (Q1 & _ & _ & _ & Q5 & Q6 & _).
  pose proof (not_timed_out (dt_pre cx s) (cx_now cx) ltac:(rewrite dt_pre_timeout; exact Hto)) as Hnto.
  assert (D : s_local_seq_no s1 = s_local_seq_no s /\ s_state s1 = s_state s /\ s_remote_last_seq s1 = s_local_seq_no s).
  { destruct (dt_spec _ _ _ _ Edt) as [(X & _) | [(_ & _ & ->) | (_ & _ & D1 & _ & _ & D4 & _ & _ & _ & _ & _ & _ & D13 & _)]].
    - rewrite Hnto in X. discriminate.
    - rewrite Q1, Q5, Q6. auto.
    - rewrite D1, D4, Q1, Q5. split; [reflexivity|]. split; [reflexivity|].
      destruct D13 as [X | X]; rewrite X; [rewrite Q6; exact Hrl | exact Q5]. }
  destruct D as (D1 & D3 & D6).
  assert (Hnx1 : tcp_send_next_seq s1 = s_local_seq_no s).
  { rewrite <- Hnx. apply send_next_fn; [exact M1 | rewrite D6, Hrl; reflexivity]. }
  obind_inv H. destruct a as ((s2, go), t2). rename E into Edd.
  destruct (dispatch_decide_cases _ _ _ _ _ Edd) as [-> | (-> & Hc2)].
  2:{ cbn [negb] in H. inversion H; subst. rewrite Hc2 in Kst. discriminate. }
  destruct (negb go); [inversion H; subst; auto|].
  obind_inv H. destruct a as ((((s3, o), z), k), t3). rename E into Ebd.
  exfalso.
  unfold tcp_dispatch_build in Ebd. rewrite D3, Hst in Ebd.
  obind_inv Ebd. destruct a as (((sb, ob), zb), tb). rename E into Eb.
  assert (Est1 : s_state s1 = Established) by (rewrite D3; exact Hst).
  destruct (build_data_est _ _ _ _ _ _ _ Eb Est1 eq_refl eq_refl)
    as (_ & Bn & Bt & repr1 & -> & _ & _ & P3 & _).
  destruct (_ && _) in Ebd.
  - obind_inv Ebd. inversion Ebd; subst. destruct (negb ok); [inversion H|].
    destruct (tcp_dispatch_finish _ _ _ _ _). inversion H.
  - obind_inv Ebd. inversion Ebd; subst. destruct (negb ok); [inversion H|].
    destruct (tcp_dispatch_finish _ _ _ _ _). inversion H.
Qed.

(* ---------------------------------------------------------------------------------------- *)
(* a duplicate SYN|ACK at an ESTABLISHED socket                                               *)
(* ---------------------------------------------------------------------------------------- *)
Theorem process_est_dupsyn cx s ip r s' rep tags :
  tcp_live_inv s -> s_state s = Established -> r_control r = CSyn -> r_payload r = [] ->
  r_ack_number r = Some (s_local_seq_no s) -> rb_len (s_tx_buffer s) < 2 ^ 31 ->
  u32 (r_seq_number r) -> r_seq_number r = seq_subn (tcp_window_start s) 1 ->
  tcp_process cx s ip r = Ok (s', rep, tags) ->
  (rep = None -> s' = s) /\ (s_challenge_ack_timer s <= cx_now cx -> rep <> None).
Proof.
  intros Il Hst Hc Hp Ha Hl Hu Hsq H.
  pose proof (li_una _ Il) as Hul. pose proof (li_tx _ Il) as (Hl0 & _).
  assert (Hr : r_control r <> CRst) by (rewrite Hc; discriminate).
  unfold tcp_process in H. destruct (negb (tcp_accepts s ip r)); [discriminate|].
  rewrite (ack_check_est_cont cx s ip r Hst Hr Hul ltac:(lia) Ha) in H. cbn [obind] in H.
  apply obind_ok in H. destruct H as (p2 & H2 & H).
  assert (Hw : tcp_process_window cx s ip r =
               let '(s1, p) := tcp_challenge_ack_reply cx s ip r in Ok (Ret (120 + 3000) s1 p)).
  { unfold tcp_process_window. rewrite Hst. unfold tcp_segment_in_window.
    rewrite Hp. change (l_len []) with 0. rewrite (seq_add_zero _ Hu), Z.eqb_refl.
    rewrite <- Hsq, Z.eqb_refl. cbn [andb]. rewrite Hc. cbn [control_eqb tcp_state_eqb andb]. reflexivity. }
  rewrite Hw in H2. unfold tcp_challenge_ack_reply in H2.
  destruct (cx_now cx <? s_challenge_ack_timer s) eqn:Elt.
  - inversion H2; subst p2. inversion H; subst. split; [reflexivity|].
    intros Hle. apply Z.ltb_lt in Elt. lia.
  - destruct (tcp_ack_reply cx (upd_challenge_ack_timer s (cx_now cx + 1000000)) ip r) as (s1, p).
    inversion H2; subst p2. inversion H; subst. split; [discriminate | intros _; discriminate].
Qed.
