(* C02 (liveness half): THE COMPOSITIONS WITH THE SHORTEST LIST OF PREMISES.  qstatic'' is qstatic' without
   "syn_unacked_in_fin_wait = false" and "RTO >= RTTE_MIN_RTO": both hold in every state of every run without close()
   from net_init (Proofs/TcpProgressSr.v, SrNet.v), so qregime'' gives qregime' along the quiet part and the theorems of
   Proofs/TcpProgressCl21.v apply.  What is left of the premise about the states of the quiet part:
     zx_zwp (every state), and in the drained states: no fast retransmit pending, the timers idle, a delayed-ACK timer
     only while an ACK is owed and never at A, the last ACK sent is RCV.NXT when none is owed. *)
From SV Require Import Lib.Base Gen.Consts.
From SV Require Import Model.Seq32 Model.Assembler Model.TcpBuf Model.TcpTypes Model.Tcp Model.TcpNet.
From SV Require Import Proofs.TcpSendBase Proofs.TcpLiveBase Proofs.TcpLiveProofs Proofs.TcpLiveMore
  Proofs.TcpLiveProgress.
From SV Require Import Proofs.TcpNetBase.
From SV Require Proofs.TcpNetInv.
From SV Require Import Proofs.TcpProgressBase Proofs.TcpProgressFrame Proofs.TcpProgressCtl Proofs.TcpProgressRecv
  Proofs.TcpProgressSend Proofs.TcpProgressNet Proofs.TcpProgressData Proofs.TcpProgressAck
  Proofs.TcpProgressAll Proofs.TcpProgressSafe Proofs.TcpProgressHs Proofs.TcpProgressHsD
  Proofs.TcpProgressHsNet Proofs.TcpProgressHsInit Proofs.TcpProgressHsLive Proofs.TcpProgressHsLive2
  Proofs.TcpProgressZwp Proofs.TcpProgressExample Proofs.TcpProgressWitness Proofs.TcpProgressSafeWitness Proofs.TcpProgressZwDup
  Proofs.TcpProgressZw1 Proofs.TcpProgressZw1b Proofs.TcpProgressZw2 Proofs.TcpProgressZw3 Proofs.TcpProgressZwWitness
  Proofs.TcpProgressZw4 Proofs.TcpProgressZw5 Proofs.TcpProgressZw6 Proofs.TcpProgressZw7
  Proofs.TcpProgressCl1 Proofs.TcpProgressCl2 Proofs.TcpProgressCl3 Proofs.TcpProgressCl4 Proofs.TcpProgressCl5
  Proofs.TcpProgressCl6 Proofs.TcpProgressCl7 Proofs.TcpProgressCl8 Proofs.TcpProgressCl9
  Proofs.TcpProgressCl10 Proofs.TcpProgressCl11 Proofs.TcpProgressCl12 Proofs.TcpProgressCl13
  Proofs.TcpProgressHsRtx Proofs.TcpProgressHsAll Proofs.TcpProgressHsSrv1 Proofs.TcpProgressHsSrv2
  Proofs.TcpProgressCl15 Proofs.TcpProgressCap Proofs.TcpProgressCapNet
  Proofs.TcpProgressCl19 Proofs.TcpProgressSynWin Proofs.TcpProgressSynWinNet Proofs.TcpProgressSr Proofs.TcpProgressSrNet Proofs.TcpProgressCl21.

Module NV := TcpNetInv.
Notation sz st z := (net_sock st z).

(* qstatic' without two more facts that hold in every state of a run without close(): syn_unacked_in_fin_wait false,
   RTO >= RTTE_MIN_RTO *)
Definition qstatic'' (st : net) : Prop :=
  (forall z, s_pending_fast_retransmit (sz st z) = false /\
             s_timer (sz st z) = TIdle None /\
             (s_ack_delay_timer (sz st z) = ADIdle \/ tcp_ack_to_transmit (sz st z) = true) /\
             (tcp_ack_to_transmit (sz st z) = false ->
              s_remote_last_ack (sz st z) = Some (tcp_window_start (sz st z)))) /\
  s_ack_delay_timer (sz st SA) = ADIdle.

Definition qregime'' (st : net) : Prop := zx_zwp st /\ (drained st -> qstatic'' st).

Lemma qregime_weaken' st : qregime' st -> qregime'' st.
Proof.
  intros (Hz & Hq). split; [exact Hz|]. intros HD. destruct (Hq HD) as (H1 & H3).
  split; [|exact H3]. intros z. destruct (H1 z) as (A & B & C & D & F & G). auto 10.
Qed.

Lemma qregime_strengthen st : srst st -> qregime'' st -> qregime' st.
Proof.
  intros Hs (Hz & Hq). split; [exact Hz|]. intros HD. destruct (Hq HD) as (H1 & H3).
  split; [|exact H3]. intros z. destruct (H1 z) as (A & C & F & G). destruct (Hs z) as (B & D). auto 10.
Qed.

Lemma qev_noclose ev : qev ev -> noclose ev.
Proof. destruct ev; cbn; auto. Qed.
Lemma script_noclose ev : script_ev SA ev -> noclose ev.
Proof. destruct ev; cbn; auto. Qed.
Lemma Forall_impl' {A} (P Q : A -> Prop) l : (forall x, P x -> Q x) -> Forall P l -> Forall Q l.
Proof. intros H F. apply Forall_forall. intros x Hx. rewrite Forall_forall in F. auto. Qed.

(* along a run without close() the weaker premise gives the stronger one *)
Lemma run_all_sr evs : forall st, Forall noclose evs -> srst st -> run_all qregime'' st evs -> run_all qregime' st evs.
Proof.
  induction evs as [|ev r IH]; intros st Hn Hs H; cbn [run_all] in *.
  - destruct H as (H & _). split; [exact (qregime_strengthen st Hs H) | exact I].
  - destruct H as (H & H1). split; [exact (qregime_strengthen st Hs H)|].
    inversion Hn as [|? ? Hn1 Hn2]; subst. destruct (net_step st ev) as [st1|e|] eqn:Es; try exact I.
    exact (IH st1 Hn2 (srst_step _ _ _ Hn1 Es Hs) H1).
Qed.
Theorem quiesce_close_from_reg'' Dt Da Dack (n : nat) :
  forall fa st evsD evsQ evs1 evs2 stD stQ stC st_m st',
  0 <= Dt -> 0 <= Da -> 2 * Dt < tcp_RTTE_MIN_RTO * 1000 -> 0 <= Dack ->
  reach st -> reg SA Dack st -> opts_ok st -> capst st -> srst st -> dl_sync Da fa st -> dlb Dt fa st ->
  fair_run Dt Da fa st (evsD ++ evsQ ++ NClose SA :: evs1 ++ NClose SB :: evs2) ->
  once_run Dt Da fa st (evsD ++ evsQ ++ NClose SA :: evs1 ++ NClose SB :: evs2) ->
  Forall (app_ev SA) evsD -> net_run st evsD = Ok stD ->
  Forall qev evsQ -> net_run stD evsQ = Ok stQ ->
  (forall z, l_len (ep_written (net_get stQ z)) < 2 ^ 30) ->
  run_all qregime'' stD evsQ ->
  (l_len (ep_written (net_get stD SA)) - una_off (net_get stD SA)) +
  (l_len (ep_written (net_get stD SA)) - read_off (net_get stD SB)) <= Z.of_nat n ->
  net_now stD SA + Z.of_nat n * Wz Dt Da + 2 * Dt + Dack < net_now stQ SA ->
  net_step stQ (NClose SA) = Ok stC ->
  Forall (cl_ev SA false) evs1 -> net_run stC evs1 = Ok st_m -> net_now stQ SA + 2 * Dt < net_now st_m SA ->
  net_run st_m (NClose SB :: evs2) = Ok st' ->
  net_now st_m SA + 3 * Dt + tcp_CLOSE_DELAY < net_now st' SA ->
  (exists p1 p2 sta,
     evsQ = p1 ++ p2 /\ net_run stD p1 = Ok sta /\ net_run sta p2 = Ok stQ /\
     una_off (net_get sta SA) = l_len (ep_written (net_get stD SA)) /\
     read_off (net_get sta SB) = l_len (ep_written (net_get stD SA))) /\
  (exists pre2 post st_c,
     evs2 = pre2 ++ post /\ net_run st_m (NClose SB :: pre2) = Ok st_c /\ net_run st_c post = Ok st' /\
     both_closed st_c).
Proof.
  intros fa st evsD evsQ evs1 evs2 stD stQ stC st_m st' HDt HDa HDt2 HDack Hre HG Ho0 Hcap Hsr Hsy Hb Hfall Hoall HappD HrD HEQ HrQ Hsz HqQ.
  assert (HnD : Forall noclose evsD) by (apply (Forall_impl' (app_ev SA)); [intros x Hx; apply script_noclose, app_ev_script, Hx | exact HappD]).
  assert (HnQ : Forall noclose evsQ) by (apply (Forall_impl' qev); [exact qev_noclose | exact HEQ]).
  exact (quiesce_close_from_reg' Dt Da Dack n fa st evsD evsQ evs1 evs2 stD stQ stC st_m st' HDt HDa HDt2 HDack Hre HG Ho0 Hcap Hsy Hb
           Hfall Hoall HappD HrD HEQ HrQ Hsz (run_all_sr evsQ stD HnQ (srst_run _ _ _ HnD HrD Hsr) HqQ)).
Qed.

Theorem transfer_quiesce_close_from_net_init_min Dt Da Dack ca cb st0 (n : nat) :
  forall evsD evsQ evs1 evs2 stD stQ stC st_m st',
  start_ok Dack ca cb st0 -> cfg_rx ca cb -> 2 * Dt < tcp_RTTE_MIN_RTO * 1000 -> 0 <= Dack ->
  reliable_schedule Dt Da st0 (evsD ++ evsQ ++ NClose SA :: evs1 ++ NClose SB :: evs2) ->
  Forall (app_ev SA) evsD -> net_run st0 evsD = Ok stD ->
  net_now st0 SA + 3 * Dt < net_now stD SA ->
  Forall qev evsQ -> net_run stD evsQ = Ok stQ ->
  (forall z, l_len (ep_written (net_get stQ z)) < 2 ^ 30) ->
  run_all qregime'' stD evsQ ->
  (l_len (ep_written (net_get stD SA)) - una_off (net_get stD SA)) +
  (l_len (ep_written (net_get stD SA)) - read_off (net_get stD SB)) <= Z.of_nat n ->
  net_now stD SA + Z.of_nat n * Wz Dt Da + 2 * Dt + Dack < net_now stQ SA ->
  net_step stQ (NClose SA) = Ok stC ->
  Forall (cl_ev SA false) evs1 -> net_run stC evs1 = Ok st_m -> net_now stQ SA + 2 * Dt < net_now st_m SA ->
  net_run st_m (NClose SB :: evs2) = Ok st' ->
  net_now st_m SA + 3 * Dt + tcp_CLOSE_DELAY < net_now st' SA ->
  (exists p1 p2 sta,
     evsQ = p1 ++ p2 /\ net_run stD p1 = Ok sta /\ net_run sta p2 = Ok stQ /\
     una_off (net_get sta SA) = l_len (ep_written (net_get stD SA)) /\
     read_off (net_get sta SB) = l_len (ep_written (net_get stD SA))) /\
  (exists pre post st_c,
     evs2 = pre ++ post /\ net_run st_m (NClose SB :: pre) = Ok st_c /\ net_run st_c post = Ok st' /\
     both_closed st_c).
Proof.
  intros evsD evsQ evs1 evs2 stD stQ stC st_m st' Hstart Hcfg HDt2 HDack Hrel HappD HrD HlD HEQ HrQ Hsz HqQ.
  assert (HnQ : Forall noclose evsQ) by (apply (Forall_impl' qev); [exact qev_noclose | exact HEQ]).
  assert (HnD : Forall noclose evsD) by (apply (Forall_impl' (app_ev SA)); [intros x Hx; apply script_noclose, app_ev_script, Hx | exact HappD]).
  exact (transfer_quiesce_close_from_net_init_cfg Dt Da Dack ca cb st0 n evsD evsQ evs1 evs2 stD stQ stC st_m st' Hstart Hcfg HDt2 HDack
           Hrel HappD HrD HlD HEQ HrQ Hsz (run_all_sr evsQ stD HnQ (srst_run _ _ _ HnD HrD (srst_init ca cb st0 (proj1 Hstart))) HqQ)).
Qed.

Theorem handshake_quiesce_close_after_fault_prefix_min Dt Da Dack ca cb st0 (n : nat) :
  forall pre st evsH evsQ evs1 evs2 stD stQ stC st_m st',
  start_ok Dack ca cb st0 -> cfg_rx ca cb -> 2 * Dt < tcp_RTTE_MIN_RTO * 1000 -> 0 <= Dack ->
  (* the fault prefix: the SYN or the SYN|ACK lost, duplicated, late - A is still in SYN-SENT *)
  net_run st0 pre = Ok st -> Forall (script_ev SA) pre ->
  s_state (net_sock st SA) = SynSent ->
  reliable_schedule Dt Da st (evsH ++ evsQ ++ NClose SA :: evs1 ++ NClose SB :: evs2) ->
  (* the handshake completes; A writes, B reads *)
  Forall (app_ev SA) evsH -> net_run st evsH = Ok stD ->
  net_now st SA + max_rto_us + 3 * Dt < net_now stD SA ->
  (* the applications neither write nor close *)
  Forall qev evsQ -> net_run stD evsQ = Ok stQ ->
  (forall z, l_len (ep_written (net_get stQ z)) < 2 ^ 30) ->
  run_all qregime'' stD evsQ ->
  (l_len (ep_written (net_get stD SA)) - una_off (net_get stD SA)) +
  (l_len (ep_written (net_get stD SA)) - read_off (net_get stD SB)) <= Z.of_nat n ->
  net_now stD SA + Z.of_nat n * Wz Dt Da + 2 * Dt + Dack < net_now stQ SA ->
  (* A closes; B closes in CLOSE-WAIT *)
  net_step stQ (NClose SA) = Ok stC ->
  Forall (cl_ev SA false) evs1 -> net_run stC evs1 = Ok st_m -> net_now stQ SA + 2 * Dt < net_now st_m SA ->
  net_run st_m (NClose SB :: evs2) = Ok st' ->
  net_now st_m SA + 3 * Dt + tcp_CLOSE_DELAY < net_now st' SA ->
  (exists h1 h2 sth,
     evsH = h1 ++ h2 /\ net_run st h1 = Ok sth /\ net_run sth h2 = Ok stD /\
     (forall z, s_state (net_sock sth z) = Established) /\
     net_now sth SA <= net_now st SA + max_rto_us + 3 * Dt) /\
  (exists p1 p2 sta,
     evsQ = p1 ++ p2 /\ net_run stD p1 = Ok sta /\ net_run sta p2 = Ok stQ /\
     una_off (net_get sta SA) = l_len (ep_written (net_get stD SA)) /\
     read_off (net_get sta SB) = l_len (ep_written (net_get stD SA))) /\
  (exists pre2 post st_c,
     evs2 = pre2 ++ post /\ net_run st_m (NClose SB :: pre2) = Ok st_c /\ net_run st_c post = Ok st' /\
     both_closed st_c).
Proof.
  intros pre st evsH evsQ evs1 evs2 stD stQ stC st_m st' Hstart Hcfg HDt2 HDack Hpre Hscp Hsa Hrel HappH HrH HlH HEQ HrQ Hsz HqQ.
  assert (HnQ : Forall noclose evsQ) by (apply (Forall_impl' qev); [exact qev_noclose | exact HEQ]).
  assert (HnH : Forall noclose evsH) by (apply (Forall_impl' (app_ev SA)); [intros x Hx; apply script_noclose, app_ev_script, Hx | exact HappH]).
  assert (Hnp : Forall noclose pre) by (apply (Forall_impl' (script_ev SA)); [exact script_noclose | exact Hscp]).
  exact (handshake_quiesce_close_after_fault_prefix_cfg Dt Da Dack ca cb st0 n pre st evsH evsQ evs1 evs2 stD stQ stC st_m st' Hstart Hcfg
           HDt2 HDack Hpre Hscp Hsa Hrel HappH HrH HlH HEQ HrQ Hsz
           (run_all_sr evsQ stD HnQ (srst_run _ _ _ HnH HrH (srst_run _ _ _ Hnp Hpre (srst_init ca cb st0 (proj1 Hstart)))) HqQ)).
Qed.

Theorem server_quiesce_close_after_fault_prefix_min Dt Da Dack ca cb st0 (n : nat) :
  forall pre st evsH evsQ evs1 evs2 stD stQ stC st_m st',
  start_ok Dack ca cb st0 -> cfg_rx ca cb -> 2 * Dt < tcp_RTTE_MIN_RTO * 1000 -> 0 <= Dack ->
  (* the fault prefix: everything A transmitted since its SYN is lost *)
  net_run st0 pre = Ok st -> Forall (script_ev SA) pre ->
  s_state (net_sock st SA) = Established -> s_state (net_sock st SB) = SynReceived ->
  fresh (cx_isn (ep_cx (n_a st0))) st ->
  reliable_schedule Dt Da st (evsH ++ evsQ ++ NClose SA :: evs1 ++ NClose SB :: evs2) ->
  (* the handshake completes; A writes, B reads *)
  Forall (app_ev SA) evsH -> net_run st evsH = Ok stD ->
  Z.max (net_now st SA) (cA st) + max_rto_us + 2 * Dt < net_now stD SA ->
  (* the applications neither write nor close *)
  Forall qev evsQ -> net_run stD evsQ = Ok stQ ->
  (forall z, l_len (ep_written (net_get stQ z)) < 2 ^ 30) ->
  run_all qregime'' stD evsQ ->
  (l_len (ep_written (net_get stD SA)) - una_off (net_get stD SA)) +
  (l_len (ep_written (net_get stD SA)) - read_off (net_get stD SB)) <= Z.of_nat n ->
  net_now stD SA + Z.of_nat n * Wz Dt Da + 2 * Dt + Dack < net_now stQ SA ->
  (* A closes; B closes in CLOSE-WAIT *)
  net_step stQ (NClose SA) = Ok stC ->
  Forall (cl_ev SA false) evs1 -> net_run stC evs1 = Ok st_m -> net_now stQ SA + 2 * Dt < net_now st_m SA ->
  net_run st_m (NClose SB :: evs2) = Ok st' ->
  net_now st_m SA + 3 * Dt + tcp_CLOSE_DELAY < net_now st' SA ->
  (exists h1 h2 sth,
     evsH = h1 ++ h2 /\ net_run st h1 = Ok sth /\ net_run sth h2 = Ok stD /\
     (forall z, s_state (net_sock sth z) = Established) /\
     net_now sth SA <= Z.max (net_now st SA) (cA st) + max_rto_us + 2 * Dt) /\
  (exists p1 p2 sta,
     evsQ = p1 ++ p2 /\ net_run stD p1 = Ok sta /\ net_run sta p2 = Ok stQ /\
     una_off (net_get sta SA) = l_len (ep_written (net_get stD SA)) /\
     read_off (net_get sta SB) = l_len (ep_written (net_get stD SA))) /\
  (exists pre2 post st_c,
     evs2 = pre2 ++ post /\ net_run st_m (NClose SB :: pre2) = Ok st_c /\ net_run st_c post = Ok st' /\
     both_closed st_c).
Proof.
  intros pre st evsH evsQ evs1 evs2 stD stQ stC st_m st' Hstart Hcfg HDt2 HDack Hpre Hscp Hsa Hsb Hfr Hrel HappH HrH HlH HEQ HrQ Hsz HqQ.
  assert (HnQ : Forall noclose evsQ) by (apply (Forall_impl' qev); [exact qev_noclose | exact HEQ]).
  assert (HnH : Forall noclose evsH) by (apply (Forall_impl' (app_ev SA)); [intros x Hx; apply script_noclose, app_ev_script, Hx | exact HappH]).
  assert (Hnp : Forall noclose pre) by (apply (Forall_impl' (script_ev SA)); [exact script_noclose | exact Hscp]).
  exact (server_quiesce_close_after_fault_prefix_cfg Dt Da Dack ca cb st0 n pre st evsH evsQ evs1 evs2 stD stQ stC st_m st' Hstart Hcfg
           HDt2 HDack Hpre Hscp Hsa Hsb Hfr Hrel HappH HrH HlH HEQ HrQ Hsz
           (run_all_sr evsQ stD HnQ (srst_run _ _ _ HnH HrH (srst_run _ _ _ Hnp Hpre (srst_init ca cb st0 (proj1 Hstart)))) HqQ)).
Qed.

Theorem quiesce_close_after_fault_prefix_min Dt Da Dack ca cb st0 (n : nat) :
  forall pre st evsD evsQ evs1 evs2 stD stQ stC st_m st',
  start_ok Dack ca cb st0 -> cfg_rx ca cb -> 2 * Dt < tcp_RTTE_MIN_RTO * 1000 -> 0 <= Dack ->
  (* the fault prefix: any run of the one-way workload - drops, duplicates, reordering, any clock - that ends
     with both sockets ESTABLISHED *)
  net_run st0 pre = Ok st -> Forall (script_ev SA) pre ->
  (forall z, s_state (net_sock st z) = Established) ->
  (* from there on delivery is reliable *)
  reliable_schedule Dt Da st (evsD ++ evsQ ++ NClose SA :: evs1 ++ NClose SB :: evs2) ->
  (* A may go on writing, B reads *)
  Forall (app_ev SA) evsD -> net_run st evsD = Ok stD ->
  (* the applications neither write nor close *)
  Forall qev evsQ -> net_run stD evsQ = Ok stQ ->
  (forall z, l_len (ep_written (net_get stQ z)) < 2 ^ 30) ->
  run_all qregime'' stD evsQ ->
  (l_len (ep_written (net_get stD SA)) - una_off (net_get stD SA)) +
  (l_len (ep_written (net_get stD SA)) - read_off (net_get stD SB)) <= Z.of_nat n ->
  net_now stD SA + Z.of_nat n * Wz Dt Da + 2 * Dt + Dack < net_now stQ SA ->
  (* A closes; B closes in CLOSE-WAIT *)
  net_step stQ (NClose SA) = Ok stC ->
  Forall (cl_ev SA false) evs1 -> net_run stC evs1 = Ok st_m -> net_now stQ SA + 2 * Dt < net_now st_m SA ->
  net_run st_m (NClose SB :: evs2) = Ok st' ->
  net_now st_m SA + 3 * Dt + tcp_CLOSE_DELAY < net_now st' SA ->
  (exists p1 p2 sta,
     evsQ = p1 ++ p2 /\ net_run stD p1 = Ok sta /\ net_run sta p2 = Ok stQ /\
     una_off (net_get sta SA) = l_len (ep_written (net_get stD SA)) /\
     read_off (net_get sta SB) = l_len (ep_written (net_get stD SA))) /\
  (exists pre2 post st_c,
     evs2 = pre2 ++ post /\ net_run st_m (NClose SB :: pre2) = Ok st_c /\ net_run st_c post = Ok st' /\
     both_closed st_c).
Proof.
  intros pre st evsD evsQ evs1 evs2 stD stQ stC st_m st' Hstart Hcfg HDt2 HDack Hpre Hscp Hest Hrel HappD HrD HEQ HrQ Hsz HqQ.
  assert (HnQ : Forall noclose evsQ) by (apply (Forall_impl' qev); [exact qev_noclose | exact HEQ]).
  assert (HnD : Forall noclose evsD) by (apply (Forall_impl' (app_ev SA)); [intros x Hx; apply script_noclose, app_ev_script, Hx | exact HappD]).
  assert (Hnp : Forall noclose pre) by (apply (Forall_impl' (script_ev SA)); [exact script_noclose | exact Hscp]).
  exact (quiesce_close_after_fault_prefix' Dt Da Dack ca cb st0 n pre st evsD evsQ evs1 evs2 stD stQ stC st_m st' Hstart Hcfg
           HDt2 HDack Hpre Hscp Hest Hrel HappD HrD HEQ HrQ Hsz
           (run_all_sr evsQ stD HnQ (srst_run _ _ _ HnD HrD (srst_run _ _ _ Hnp Hpre (srst_init ca cb st0 (proj1 Hstart)))) HqQ)).
Qed.
