(* Lemmas about Model/WireNhcExt.v (property C06, 6LoWPAN NHC extension header):
   ExtHeaderRepr::emit writes a closed-form header whatever the buffer contained, leaves the octets
   behind the header alone, never panics on a buffer of the declared length, and
   ExtHeaderRepr::parse inverts it when the `length` octets the header announces are present.
   Bit-field identities over octets are proved by exhaustive evaluation over the finite domain
   (by_range2 of Proofs/LowpanWireProofs.v). *)
From SV Require Import Lib.Base Gen.Consts Gen.WireFields Model.WireBase Model.WireNhc Model.WireNhcExt
  Proofs.WireBaseProofs Proofs.LowpanWireProofs Proofs.LowpanProofs.

(* the header octets for a representation *)
Definition nhc_ext_hdr_bytes (r : nhc_ext_repr) : list Z :=
  match ne_next r with
  | None => [224 + ne_eid r * 2 + 1; ne_length r]
  | Some p => [224 + ne_eid r * 2; p; ne_length r]
  end.

Lemma nhc_ext_hdr_bytes_len r : blen (nhc_ext_hdr_bytes r) = nhc_ext_buffer_len r.
Proof. unfold nhc_ext_hdr_bytes, nhc_ext_buffer_len. destruct (ne_next r); reflexivity. Qed.

Lemma nhc_ext_id_wf_range id : nhc_ext_id_wf id = true -> 0 <= id < 8.
Proof. unfold nhc_ext_id_wf. intros H. repeat (apply orb_prop in H; destruct H as [H|H]); apply Z.eqb_eq in H; lia. Qed.

Lemma nhc_ext_id_wf_canon id : nhc_ext_id_wf id = true -> nhc_ext_id_of_field id = id.
Proof.
  unfold nhc_ext_id_wf, nhc_ext_id_of_field. intros H.
  repeat (apply orb_prop in H; destruct H as [H|H]); apply Z.eqb_eq in H; subst; reflexivity.
Qed.

(* octet 0 after set_dispatch_field, set_eid_field, set_nh_field (closed subterms folded) *)
Lemma nhc_ext_b0_nh0 : forall c id, 0 <= c < 256 -> 0 <= id < 8 ->
  Z.lor (Z.land (Z.lor (Z.land (Z.lor (Z.land c 15) 224) 241) (Z.shiftl id 1 mod 256)) 254) 0 = 224 + id * 2.
Proof. by_range2 256%nat 8%nat. Qed.
Lemma nhc_ext_b0_nh1 : forall c id, 0 <= c < 256 -> 0 <= id < 8 ->
  Z.lor (Z.land (Z.lor (Z.land (Z.lor (Z.land c 15) 224) 241) (Z.shiftl id 1 mod 256)) 254) 1 = 224 + id * 2 + 1.
Proof. by_range2 256%nat 8%nat. Qed.

(* reading the fields of octet 0 back *)
Lemma nhc_ext_rd_nh0 : forall id, 0 <= id < 8 -> Z.land (Z.shiftr (224 + id * 2) 0) 1 = 0.
Proof. by_range1 8%nat. Qed.
Lemma nhc_ext_rd_nh1 : forall id, 0 <= id < 8 -> Z.land (Z.shiftr (224 + id * 2 + 1) 0) 1 = 1.
Proof. by_range1 8%nat. Qed.
Lemma nhc_ext_rd_eid0 : forall id, 0 <= id < 8 -> Z.land (Z.shiftr (224 + id * 2) 1) 7 = id.
Proof. by_range1 8%nat. Qed.
Lemma nhc_ext_rd_eid1 : forall id, 0 <= id < 8 -> Z.land (Z.shiftr (224 + id * 2 + 1) 1) 7 = id.
Proof. by_range1 8%nat. Qed.
Lemma nhc_ext_rd_disp0 : forall id, 0 <= id < 8 -> Z.land (Z.shiftr (224 + id * 2) 4) 15 = 14.
Proof. by_range1 8%nat. Qed.
Lemma nhc_ext_rd_disp1 : forall id, 0 <= id < 8 -> Z.land (Z.shiftr (224 + id * 2 + 1) 4) 15 = 14.
Proof. by_range1 8%nat. Qed.

Lemma nhc_ext_repr_wf_inv r : nhc_ext_repr_wf r = true ->
  0 <= ne_eid r < 8 /\ 0 <= ne_length r < 256 /\ match ne_next r with None => True | Some p => 0 <= p < 256 end.
Proof.
  unfold nhc_ext_repr_wf. intros H. apply andb_prop in H. destruct H as (H & H3). apply andb_prop in H. destruct H as (H1 & H2).
  apply nhc_ext_id_wf_range in H1. split; [assumption|]. split; [bsplit; lia|]. destruct (ne_next r); [bsplit; lia | exact I].
Qed.

Lemma nhc_ext_emit_exact r h t :
  nhc_ext_repr_wf r = true -> bytes_ok h = true -> blen h = nhc_ext_buffer_len r ->
  nhc_ext_emit r (h ++ t) = Ok (nhc_ext_hdr_bytes r ++ t).
Proof.
  intros Hwf Hb Hl. destruct (nhc_ext_repr_wf_inv r Hwf) as (Hid & Hlen & Hnx).
  destruct r as [id nx len]. cbn [ne_eid ne_next ne_length] in *.
  unfold nhc_ext_buffer_len in Hl. cbn [ne_next] in Hl. unfold nhc_ext_hdr_bytes. cbn [ne_eid ne_next ne_length].
  destruct nx as [p|].
  - zfold_in Hl. apply (blen_length h 3%nat) in Hl. cells Hl. cbn [bytes_ok forallb] in Hb. bsplit.
    unfold nhc_ext_emit, nhc_ext_set_dispatch_field, nhc_ext_set_extension_header_id, nhc_ext_set_eid_field,
      nhc_ext_set_next_header, nhc_ext_set_nh_field, nhc_ext_set_length, nhc_ext_next_header_size, nhc_ext_nh_field,
      nhc_set_field, nhc_get_field, wsix_DISPATCH_EXT_HEADER.
    cbn [ne_eid ne_next ne_length].
    remember (Z.shiftl id 1 mod 256) as x1 eqn:Ex1.
    cfold. repeat hstep. subst x1.
    rewrite nhc_ext_b0_nh0 by lia. rewrite nhc_ext_rd_nh0 by lia. zbool. zfold. hstep. reflexivity.
  - zfold_in Hl. apply (blen_length h 2%nat) in Hl. cells Hl. cbn [bytes_ok forallb] in Hb. bsplit.
    unfold nhc_ext_emit, nhc_ext_set_dispatch_field, nhc_ext_set_extension_header_id, nhc_ext_set_eid_field,
      nhc_ext_set_next_header, nhc_ext_set_nh_field, nhc_ext_set_length, nhc_ext_next_header_size, nhc_ext_nh_field,
      nhc_set_field, nhc_get_field, wsix_DISPATCH_EXT_HEADER.
    cbn [ne_eid ne_next ne_length].
    remember (Z.shiftl id 1 mod 256) as x1 eqn:Ex1.
    cfold. repeat hstep. subst x1.
    rewrite nhc_ext_b0_nh1 by lia. rewrite nhc_ext_rd_nh1 by lia. zbool. zfold. hstep. reflexivity.
Qed.

(* parsing the closed-form header followed by at least `length` octets *)
Lemma nhc_ext_parse_bytes r t :
  nhc_ext_repr_wf r = true -> ne_length r <= blen t ->
  nhc_ext_check_len (nhc_ext_hdr_bytes r ++ t) = Ok tt /\
  nhc_ext_new_checked (nhc_ext_hdr_bytes r ++ t) = Ok tt /\
  nhc_ext_repr_parse (nhc_ext_hdr_bytes r ++ t) = Ok r /\
  nhc_ext_payload (nhc_ext_hdr_bytes r ++ t) = Ok (firstn (Z.to_nat (ne_length r)) t).
Proof.
  intros Hwf Ht. destruct (nhc_ext_repr_wf_inv r Hwf) as (Hid & Hlen & Hnx).
  pose proof (nhc_ext_id_wf_canon (ne_eid r)) as Hc.
  assert (Hc' : nhc_ext_id_of_field (ne_eid r) = ne_eid r).
  { apply Hc. unfold nhc_ext_repr_wf in Hwf. bsplit. assumption. }
  clear Hc. destruct r as [id nx len]. cbn [ne_eid ne_next ne_length] in *.
  unfold nhc_ext_hdr_bytes. cbn [ne_eid ne_next ne_length].
  pose proof (blen_nonneg t) as Hbt.
  destruct nx as [p|].
  - unfold nhc_ext_new_checked, nhc_ext_repr_parse, nhc_ext_parse, nhc_ext_payload, nhc_ext_check_len, nhc_ext_length, nhc_ext_next_header,
      nhc_ext_next_header_size, nhc_ext_nh_field, nhc_ext_eid_field, nhc_ext_dispatch_field, nhc_get_field, wsix_DISPATCH_EXT_HEADER.
    remember (224 + id * 2) as x0 eqn:Ex0.
    repeat hstep. subst x0. rewrite ?nhc_ext_rd_nh0, ?nhc_ext_rd_eid0, ?nhc_ext_rd_disp0 by lia. cbn [obind].
    autorewrite with blen. zfold. zbool. zfold. remember (224 + id * 2) as x0 eqn:Ex0. repeat hstep. zbool. cbn [obind negb ne_eid ne_next ne_length].
    rewrite Hc'. repeat (split; [reflexivity|]).
    rewrite (wb_from_tail _ t) by reflexivity. cbn [obind]. unfold wb_upto. zbool. reflexivity.
  - unfold nhc_ext_new_checked, nhc_ext_repr_parse, nhc_ext_parse, nhc_ext_payload, nhc_ext_check_len, nhc_ext_length, nhc_ext_next_header,
      nhc_ext_next_header_size, nhc_ext_nh_field, nhc_ext_eid_field, nhc_ext_dispatch_field, nhc_get_field, wsix_DISPATCH_EXT_HEADER.
    remember (224 + id * 2 + 1) as x0 eqn:Ex0.
    repeat hstep. subst x0. rewrite ?nhc_ext_rd_nh1, ?nhc_ext_rd_eid1, ?nhc_ext_rd_disp1 by lia. cbn [obind].
    autorewrite with blen. zfold. zbool. zfold. remember (224 + id * 2 + 1) as x0 eqn:Ex0. repeat hstep. zbool. cbn [obind negb ne_eid ne_next ne_length].
    rewrite Hc'. repeat (split; [reflexivity|]).
    rewrite (wb_from_tail _ t) by reflexivity. cbn [obind]. unfold wb_upto. zbool. reflexivity.
Qed.

Lemma nhc_ext_field_id_wf : forall x, 0 <= x < 256 ->
  nhc_ext_id_wf (nhc_ext_id_of_field (Z.land (Z.shiftr x 1) 7)) = true.
Proof.
  assert (H : forallb (fun x => nhc_ext_id_wf (nhc_ext_id_of_field (Z.land (Z.shiftr x 1) 7))) (zrange 256) = true)
    by (vm_compute; reflexivity).
  intros x Hx. exact (zrange_forall _ 256 H x Hx).
Qed.

Lemma nhc_ext_parse_wf b r : bytes_ok b = true -> nhc_ext_repr_parse b = Ok r ->
  nhc_ext_repr_wf r = true /\ nhc_ext_buffer_len r + ne_length r <= blen b.
Proof.
  intros Hb H. unfold nhc_ext_repr_parse in H. apply obind_ok in H. destruct H as (r0 & Hp & H). injection H as <-.
  assert (Hc : nhc_ext_check_len b = Ok tt).
  { unfold nhc_ext_parse in Hp. destruct (nhc_ext_check_len b) as [[]| |]; cbn [obind] in Hp; try discriminate Hp. reflexivity. }
  destruct (nhc_ext_safe b Hb Hc) as (_ & _ & _ & _ & Hs). specialize (Hs r0 Hp).
  split; [|unfold nhc_ext_buffer_len in *; cbn [ne_next ne_length]; lia].
  destruct (nhc_ext_check_len_inv b Hc) as (x & len & Ex & Hlen & _). cbv zeta in Hlen.
  pose proof (wb_get_u8_byte b 0 x Hb Ex) as Hx.
  pose proof (wb_get_u8_byte b _ len Hb Hlen) as Hl.
  unfold nhc_ext_parse in Hp. rewrite Hc in Hp. cbn [obind] in Hp.
  unfold nhc_ext_dispatch_field, nhc_ext_eid_field, nhc_ext_next_header, nhc_ext_length, nhc_ext_next_header_size,
    nhc_ext_nh_field, nhc_get_field in Hp. rewrite Ex in Hp. cbn [obind] in Hp.
  destruct (negb _); [discriminate Hp|]. rewrite Hlen in Hp.
  unfold nhc_ext_repr_wf. cbn [ne_eid ne_next ne_length].
  destruct (Z.land (Z.shiftr x 0) 1 =? 1) eqn:E1; cbn [obind] in Hp.
  - injection Hp as <-. cbn [ne_eid ne_next ne_length]. rewrite nhc_ext_field_id_wf by lia.
    unfold is_u8. zbool. reflexivity.
  - destruct (wb_get_u8 b 1) as [p| |] eqn:Ep; cbn [obind] in Hp; try discriminate Hp.
    injection Hp as <-. cbn [ne_eid ne_next ne_length]. rewrite nhc_ext_field_id_wf by lia.
    pose proof (wb_get_u8_byte b 1 p Hb Ep). unfold is_u8. zbool. reflexivity.
Qed.

Lemma nhc_ext_roundtrip r b :
  nhc_ext_repr_wf r = true -> bytes_ok b = true -> nhc_ext_buffer_len r + ne_length r <= blen b ->
  exists bs,
    nhc_ext_emit r b = Ok bs /\
    bs = nhc_ext_hdr_bytes r ++ skipn (Z.to_nat (nhc_ext_buffer_len r)) b /\
    nhc_ext_new_checked bs = Ok tt /\
    nhc_ext_repr_parse bs = Ok r /\
    nhc_ext_payload bs = Ok (firstn (Z.to_nat (ne_length r)) (skipn (Z.to_nat (nhc_ext_buffer_len r)) b)).
Proof.
  intros Hwf Hb Hl. destruct (nhc_ext_repr_wf_inv r Hwf) as (_ & Hlen & _).
  assert (Hn : 0 <= nhc_ext_buffer_len r <= blen b).
  { unfold nhc_ext_buffer_len in *. destruct (ne_next r); lia. }
  destruct (split_hdr b (nhc_ext_buffer_len r) Hn) as (h & t & -> & Hh & Ht).
  rewrite bytes_ok_app in Hb. apply andb_prop in Hb. destruct Hb as (Hbh & Hbt).
  assert (Hbl : blen h = nhc_ext_buffer_len r) by (unfold blen; lia).
  assert (Hsk : skipn (Z.to_nat (nhc_ext_buffer_len r)) (h ++ t) = t).
  { rewrite <- Hh. rewrite skipn_app, skipn_all, Nat.sub_diag. reflexivity. }
  rewrite Hsk. exists (nhc_ext_hdr_bytes r ++ t).
  split; [apply nhc_ext_emit_exact; assumption|]. split; [reflexivity|].
  rewrite blen_app in *.
  destruct (nhc_ext_parse_bytes r t Hwf ltac:(lia)) as (_ & H1 & H2 & H3). auto.
Qed.

Lemma nhc_ext_emit_no_panic r b :
  nhc_ext_repr_wf r = true -> bytes_ok b = true -> nhc_ext_buffer_len r <= blen b ->
  nhc_ext_emit r b <> Panic /\ exists bs, nhc_ext_emit r b = Ok bs /\ blen bs = blen b.
Proof.
  intros Hwf Hb Hl.
  assert (Hn : 0 <= nhc_ext_buffer_len r <= blen b).
  { unfold nhc_ext_buffer_len in *. destruct (ne_next r); lia. }
  destruct (split_hdr b (nhc_ext_buffer_len r) Hn) as (h & t & -> & Hh & Ht).
  rewrite bytes_ok_app in Hb. apply andb_prop in Hb. destruct Hb as (Hbh & Hbt).
  assert (Hbl : blen h = nhc_ext_buffer_len r) by (unfold blen; lia).
  rewrite (nhc_ext_emit_exact r h t Hwf Hbh Hbl). split; [discriminate|].
  eexists. split; [reflexivity|]. rewrite !blen_app, nhc_ext_hdr_bytes_len. lia.
Qed.

Lemma nhc_ext_emit_ignores_old_bytes r b1 b2 :
  nhc_ext_repr_wf r = true -> bytes_ok b1 = true -> bytes_ok b2 = true ->
  blen b1 = nhc_ext_buffer_len r -> blen b2 = nhc_ext_buffer_len r ->
  nhc_ext_emit r b1 = nhc_ext_emit r b2 /\ nhc_ext_emit r b1 = Ok (nhc_ext_hdr_bytes r).
Proof.
  intros Hwf H1 H2 L1 L2.
  pose proof (nhc_ext_emit_exact r b1 [] Hwf H1 L1) as E1. pose proof (nhc_ext_emit_exact r b2 [] Hwf H2 L2) as E2.
  rewrite !app_nil_r in *. rewrite E1, E2. split; reflexivity.
Qed.

(* the octets behind the header are left alone *)
Lemma nhc_ext_emit_keeps_tail r b bs :
  nhc_ext_repr_wf r = true -> bytes_ok b = true -> nhc_ext_buffer_len r <= blen b ->
  nhc_ext_emit r b = Ok bs ->
  skipn (Z.to_nat (nhc_ext_buffer_len r)) bs = skipn (Z.to_nat (nhc_ext_buffer_len r)) b.
Proof.
  intros Hwf Hb Hl He.
  assert (Hn : 0 <= nhc_ext_buffer_len r <= blen b).
  { unfold nhc_ext_buffer_len in *. destruct (ne_next r); lia. }
  destruct (split_hdr b (nhc_ext_buffer_len r) Hn) as (h & t & -> & Hh & Ht).
  rewrite bytes_ok_app in Hb. apply andb_prop in Hb. destruct Hb as (Hbh & Hbt).
  assert (Hbl : blen h = nhc_ext_buffer_len r) by (unfold blen; lia).
  rewrite (nhc_ext_emit_exact r h t Hwf Hbh Hbl) in He. injection He as <-.
  pose proof (nhc_ext_hdr_bytes_len r) as Hhl.
  assert (X : forall (a : list Z) n, length a = n -> skipn n (a ++ t) = t).
  { intros a n <-. rewrite skipn_app, skipn_all, Nat.sub_diag. reflexivity. }
  rewrite (X h) by assumption. apply X. unfold blen in Hhl. lia.
Qed.

(* a representation obtained by parsing re-emits (over the same octets) and re-parses to itself *)
Lemma nhc_ext_reparse b r :
  bytes_ok b = true -> nhc_ext_repr_parse b = Ok r ->
  nhc_ext_repr_wf r = true /\
  exists bs, nhc_ext_emit r b = Ok bs /\ nhc_ext_repr_parse bs = Ok r /\ blen bs = blen b /\
    skipn (Z.to_nat (nhc_ext_buffer_len r)) bs = skipn (Z.to_nat (nhc_ext_buffer_len r)) b.
Proof.
  intros Hb Hp. destruct (nhc_ext_parse_wf b r Hb Hp) as (Hwf & Hl). split; [assumption|].
  destruct (nhc_ext_roundtrip r b Hwf Hb Hl) as (bs & He & Hbs & _ & Hrp & _).
  exists bs. split; [assumption|]. split; [assumption|].
  destruct (nhc_ext_repr_wf_inv r Hwf) as (_ & Hlen & _).
  destruct (nhc_ext_emit_no_panic r b Hwf Hb ltac:(lia)) as (_ & bs' & He' & Hlen').
  rewrite He in He'. injection He' as <-. split; [assumption|].
  apply (nhc_ext_emit_keeps_tail r b bs Hwf Hb); [lia | assumption].
Qed.

(* with the announced octets missing the parser refuses: the declared length of the header alone is not
   enough when length > 0 (repair 2b2776a) *)
Lemma nhc_ext_header_only_refused r b :
  nhc_ext_repr_wf r = true -> bytes_ok b = true -> blen b = nhc_ext_buffer_len r -> 0 < ne_length r ->
  exists bs, nhc_ext_emit r b = Ok bs /\ nhc_ext_repr_parse bs = Err 0.
Proof.
  intros Hwf Hb Hl Hpos. destruct (nhc_ext_repr_wf_inv r Hwf) as (Hid & Hlen & Hnx).
  pose proof (nhc_ext_emit_exact r b [] Hwf Hb Hl) as E. rewrite !app_nil_r in E.
  exists (nhc_ext_hdr_bytes r). split; [assumption|].
  destruct r as [id nx len]. cbn [ne_eid ne_next ne_length] in *. unfold nhc_ext_hdr_bytes. cbn [ne_eid ne_next ne_length].
  unfold nhc_ext_repr_parse, nhc_ext_parse, nhc_ext_check_len, nhc_ext_next_header_size, nhc_ext_nh_field, nhc_get_field.
  destruct nx as [p|].
  - remember (224 + id * 2) as x0 eqn:Ex0.
    replace (blen [x0; p; len]) with 3 by reflexivity. zfold.
    heval (wb_get_u8 [x0; p; len] 0). cbn [obind]. subst x0. rewrite nhc_ext_rd_nh0 by lia. zfold.
    remember (224 + id * 2) as x0 eqn:Ex0. heval (wb_get_u8 [x0; p; len] 2). cbn [obind]. zbool. reflexivity.
  - remember (224 + id * 2 + 1) as x0 eqn:Ex0.
    replace (blen [x0; len]) with 2 by reflexivity. zfold.
    heval (wb_get_u8 [x0; len] 0). cbn [obind]. subst x0. rewrite nhc_ext_rd_nh1 by lia. zfold.
    remember (224 + id * 2 + 1) as x0 eqn:Ex0. heval (wb_get_u8 [x0; len] 1). cbn [obind]. zbool. reflexivity.
Qed.

(* ExtHeaderRepr::parse never panics, whatever the octets *)
Lemma nhc_ext_repr_parse_total b : bytes_ok b = true -> nhc_ext_repr_parse b <> Panic.
Proof.
  intros Hb. unfold nhc_ext_repr_parse.
  destruct (nhc_ext_parse b) as [r0| |] eqn:E; cbn [obind]; try discriminate.
  exfalso. unfold nhc_ext_parse in E.
  destruct (nhc_ext_check_len b) as [[]| |] eqn:Ec; cbn [obind] in E; try discriminate E.
  - destruct (nhc_ext_safe b Hb Ec) as (_ & Hp & _). apply Hp. unfold nhc_ext_parse. rewrite Ec. exact E.
  - exact (nhc_ext_check_len_total b Ec).
Qed.
