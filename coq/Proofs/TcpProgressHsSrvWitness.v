(* C02 (liveness half): NON-VACUITY of server_established_after_ack_loss (Proofs/TcpProgressHsSrv2.v):
   from net_init the handshake runs until A is ESTABLISHED and has transmitted the ACK of the SYN|ACK; the
   prefix LOSES that ACK (and removes the old SYN / SYN|ACK from the channels).  On the fair suffix B's
   retransmission timer fires after RTO = 1 s, the SYN|ACK goes out again, A answers it with a challenge
   ACK, B is ESTABLISHED and the clock runs on for 100 s: every premise of the theorem holds, and it
   yields a state inside the suffix in which both sockets are ESTABLISHED. *)
From SV Require Import Lib.Base Gen.Consts.
From SV Require Import Model.Seq32 Model.Assembler Model.TcpBuf Model.TcpTypes Model.Tcp Model.TcpNet.
From SV Require Import Proofs.TcpSendBase Proofs.TcpLiveBase Proofs.TcpLiveProofs Proofs.TcpLiveMore
  Proofs.TcpLiveProgress.
From SV Require Import Proofs.TcpNetBase.
From SV Require Proofs.TcpNetInv.
From SV Require Import Proofs.TcpProgressBase Proofs.TcpProgressFrame Proofs.TcpProgressCtl Proofs.TcpProgressRecv
  Proofs.TcpProgressSend Proofs.TcpProgressNet Proofs.TcpProgressData Proofs.TcpProgressAck
  Proofs.TcpProgressAll Proofs.TcpProgressSafe Proofs.TcpProgressExample Proofs.TcpProgressWitness
  Proofs.TcpProgressHsNet Proofs.TcpProgressHsInit Proofs.TcpProgressHsLive Proofs.TcpProgressHsLive2
  Proofs.TcpProgressSafeWitness Proofs.TcpProgressFullWitness Proofs.TcpProgressHsRtx Proofs.TcpProgressRtxWitness
  Proofs.TcpProgressHsSrv1 Proofs.TcpProgressHsSrv2.

(* handshake up to A's ACK; the ACK is lost; the old SYN and SYN|ACK leave the channels *)
Definition srv_prefix : list net_event :=
  [NPoll SA true; NDeliver SB 0; NPoll SB true; NDeliver SA 0; NPoll SA true; NDrop SB 1; NDrop SB 0; NDrop SA 0].
(* B's retransmission timer (1 s), the SYN|ACK again, A's challenge ACK, B ESTABLISHED, 100 s *)
Definition srv_suffix : list net_event :=
  [NTick 1000000; NPoll SB true; NDeliver SA 0; NDeliver SB 0; NTick 100000000].

Definition freshb (isn : Z) (st : net) : bool :=
  (s_local_seq_no (net_sock st SA) =? seq_add isn 1) && (s_remote_last_seq (net_sock st SA) =? seq_add isn 1) &&
  (tcp_send_next_seq (net_sock st SA) =? seq_add isn 1) &&
  forallb (fun p => control_eqb (r_control (snd p)) CSyn) (chan_to st SB) &&
  forallb (fun p => control_eqb (r_control (snd p)) CSyn) (chan_to st SA).

Lemma freshb_sound isn st : freshb isn st = true -> fresh isn st.
Proof.
  unfold freshb. intros H.
  apply andb_true_iff in H. destruct H as (H & H5).
  apply andb_true_iff in H. destruct H as (H & H4).
  apply andb_true_iff in H. destruct H as (H & H3).
  apply andb_true_iff in H. destruct H as (H1 & H2).
  apply Z.eqb_eq in H1, H2, H3.
  split; [exact H1|]. split; [exact H2|]. split; [exact H3|].
  split; intros p Hp; apply control_eqb_eq.
  - exact (proj1 (forallb_forall _ _) H4 p Hp).
  - exact (proj1 (forallb_forall _ _) H5 p Hp).
Qed.

Lemma run_all_weaken (P Q : net -> Prop) : (forall st, P st -> Q st) ->
  forall evs st, run_all P st evs -> run_all Q st evs.
Proof.
  intros HPQ. induction evs as [|ev r IH]; intros st H; cbn [run_all] in *.
  - destruct H as (H & _). auto.
  - destruct H as (H & H1). split; [auto|]. destruct (net_step st ev); try exact I. apply IH. exact H1.
Qed.

Definition srv_check (ca cb : ep_config) (pre suf : list net_event) (Dt Da Dack : Z) : bool :=
  match net_init ca cb with
  | Ok st0 =>
      net_started st0 && forallb script_evb pre &&
      match net_run st0 pre with
      | Ok st =>
          tcp_state_eqb (s_state (net_sock st SA)) Established && tcp_state_eqb (s_state (net_sock st SB)) SynReceived &&
          freshb (cx_isn (ep_cx (n_a st0))) st && (0 <=? Dt) && (0 <=? Da) &&
          opts_okb st && fair_runb Dt Da (fa_init Dt Da st) st suf && forallb (app_evb SA) suf &&
          run_openb Dack st suf &&
          match net_run st suf with
          | Ok st' => (Z.max (net_now st SA) (cA st) + max_rto_us + 2 * Dt <? net_now st' SA) &&
                      (l_len (ep_written (n_a st')) <? 2147483647) && (l_len (ep_written (n_b st')) <? 2147483647)
          | _ => false
          end
      | _ => false
      end
  | _ => false
  end.

Lemma srv_package ca cb pre suf Dt Da Dack :
  cfg_good ca -> cfg_good cb -> cfg_plain ca -> cfg_plain cb -> c_addr ca <> 0 ->
  match c_ack_delay cb with Some d => 0 <= d <= Dack | None => True end ->
  srv_check ca cb pre suf Dt Da Dack = true ->
  exists st0 st st',
    start_ok Dack ca cb st0 /\ net_run st0 pre = Ok st /\
    s_state (net_sock st SA) = Established /\ s_state (net_sock st SB) = SynReceived /\
    fair_schedule Dt Da st suf /\ net_run st suf = Ok st' /\
    exists p1 p2 st1, suf = p1 ++ p2 /\ net_run st p1 = Ok st1 /\ net_run st1 p2 = Ok st' /\
                      (forall z, s_state (net_sock st1 z) = Established) /\
                      net_now st1 SA <= Z.max (net_now st SA) (cA st) + max_rto_us + 2 * Dt.
Proof.
  intros Ga Gb Pa Pb Haddr Hdel H. unfold srv_check in H.
  destruct (net_init ca cb) as [st0|e|] eqn:Ei; try discriminate.
  apply andb_true_iff in H. destruct H as (H & Hrest).
  apply andb_true_iff in H. destruct H as (Hst & Hsp).
  destruct (net_run st0 pre) as [st|e|] eqn:Ep; try discriminate.
  apply andb_true_iff in Hrest. destruct Hrest as (H & Hend).
  apply andb_true_iff in H. destruct H as (H & Hop).
  apply andb_true_iff in H. destruct H as (H & Hap).
  apply andb_true_iff in H. destruct H as (H & Hf).
  apply andb_true_iff in H. destruct H as (H & Ho).
  apply andb_true_iff in H. destruct H as (H & Hd2).
  apply andb_true_iff in H. destruct H as (H & Hd1).
  apply andb_true_iff in H. destruct H as (H & Hfr).
  apply andb_true_iff in H. destruct H as (Hsa & Hsb).
  destruct (net_run st suf) as [st'|e|] eqn:Es; try discriminate.
  apply andb_true_iff in Hend. destruct Hend as (Hend & Hwb).
  apply andb_true_iff in Hend. destruct Hend as (Hclk & Hwa).
  apply Z.leb_le in Hd1, Hd2. apply Z.ltb_lt in Hclk, Hwa, Hwb.
  apply tcp_state_eqb_eq in Hsa, Hsb.
  assert (Hstart : start_ok Dack ca cb st0) by (unfold start_ok; auto 10).
  assert (Hfs : fair_schedule Dt Da st suf).
  { split; [lia|]. split; [lia|]. split; [apply opts_okb_sound; exact Ho | apply fair_runb_sound; exact Hf]. }
  assert (Hwin : run_all syn_win_open st suf).
  { apply (run_all_weaken (open_regime Dack)); [intros s (X & _); exact X|]. apply run_openb_sound. exact Hop. }
  destruct (server_established_after_ack_loss Dt Da Dack ca cb st0 Hstart pre st suf st' Ep (script_evb_sound _ Hsp)
              Hsa Hsb (freshb_sound _ _ Hfr) Hfs (app_evb_sound SA _ Hap) Es ltac:(split; assumption) Hwin Hclk)
    as (p1 & p2 & fa1 & st1 & E & Hp1 & Hp2 & HG & _ & _ & _ & _ & Hc).
  exists st0, st, st'. split; [exact Hstart|]. split; [exact Ep|].
  split; [exact Hsa|]. split; [exact Hsb|]. split; [exact Hfs|]. split; [exact Es|].
  exists p1, p2, st1. split; [exact E|]. split; [exact Hp1|]. split; [exact Hp2|].
  split; [exact (rg_est _ _ _ HG) | exact Hc].
Qed.

Lemma srv_check_ok : srv_check ex_cfg_a ex_cfg_b srv_prefix srv_suffix 5000 5000 10000 = true.
Proof. vm_compute. reflexivity. Qed.

(* the client's ACK is lost in the prefix; the theorem applies to the fair suffix *)
Theorem server_established_after_ack_loss_applies :
  exists st0 st st',
    start_ok 10000 ex_cfg_a ex_cfg_b st0 /\ net_run st0 srv_prefix = Ok st /\
    s_state (net_sock st SA) = Established /\ s_state (net_sock st SB) = SynReceived /\
    fair_schedule 5000 5000 st srv_suffix /\ net_run st srv_suffix = Ok st' /\
    exists p1 p2 st1, srv_suffix = p1 ++ p2 /\ net_run st p1 = Ok st1 /\ net_run st1 p2 = Ok st' /\
                      (forall z, s_state (net_sock st1 z) = Established) /\
                      net_now st1 SA <= Z.max (net_now st SA) (cA st) + max_rto_us + 2 * 5000.
Proof.
  destruct ex_cfg_good as (Ga & Gb).
  apply (srv_package ex_cfg_a ex_cfg_b srv_prefix srv_suffix 5000 5000 10000 Ga Gb); try exact srv_check_ok.
  - split; reflexivity.
  - split; reflexivity.
  - cbn. lia.
  - cbn. unfold tcp_ACK_DELAY_DEFAULT. lia.
Qed.
