(* C17 - TCP sockets follow the RFC 9293 connection state diagram: specification ([allowed]),
   invariant and proofs over the executable model Model/Tcp.v.

   Layout:  1. specification: ghost bookkeeping, well-formed inputs, [allowed]
            2. frame lemmas for the helpers (replies, RTT estimator, timers)
            3. one lemma per phase of [tcp_process] / [tcp_dispatch]
            4. the invariant and its preservation, [step_allowed]
            5. RST and TIME-WAIT theorems, reachability *)
From SV Require Import Lib.Base Gen.Consts.
From SV Require Import Model.Seq32 Model.Assembler Model.TcpBuf Model.TcpTypes Model.Tcp.
From SV Require Import Proofs.Seq32Proofs.

#[local] Set Warnings "-unused-intro-pattern".

(* ================================================================== *)
(** * 1. Specification                                                 *)
(* ================================================================== *)

(* Ghost bookkeeping kept next to the socket, defined from the INPUTS only:
   [g_iss]  the initial sequence number handed to the socket when the current connection was
            opened (the value the random generator returned at connect / at the SYN in LISTEN);
   [g_sent] the number of octets the application's send calls were told have been accepted
            since then.  The socket's own FIN therefore has sequence number g_iss + 1 + g_sent. *)
Record ghost := mkGhost { g_iss : Z; g_sent : Z }.

Definition own_fin_seq (g : ghost) : Z := seq_add (g_iss g) (1 + g_sent g).

Definition ghost_step (cx : ctx) (s : socket) (g : ghost) (ev : event) (s' : socket) (out : step_out) : ghost :=
  match ev, out with
  | EvConnect _ _ _, OUnit => mkGhost (cx_isn cx) 0
  | EvSegment _ _, _ =>
      if tcp_state_eqb (s_state s) Listen && tcp_state_eqb (s_state s') SynReceived
      then mkGhost (cx_isn cx) 0 else g
  | EvSend _, OSize n => mkGhost (g_iss g) (g_sent g + n)
  | _, _ => g
  end.

(* Inputs are well formed: 32-bit sequence numbers, an IP datagram holds less than 2^16 octets. *)
Definition wf_ctx (cx : ctx) : Prop := seq_wf (cx_isn cx).
Definition wf_repr (r : tcp_repr) : Prop :=
  seq_wf (r_seq_number r) /\
  (forall a, r_ack_number r = Some a -> seq_wf a) /\
  0 <= l_len (r_payload r) < 65536.
Definition wf_event (ev : event) : Prop :=
  match ev with EvSegment _ r => wf_repr r | _ => True end.

(* RFC 9293 3.10.7.4, segment acceptability test, for a receive window [ws, we) in sequence space
   (comparisons are those of sequence space: sign of the 32-bit difference).  The RFC's
   "RCV.NXT =< SEG.SEQ+SEG.LEN-1 < RCV.NXT+RCV.WND" is written for the sequence number just past the
   segment: "RCV.NXT < SEG.SEQ+SEG.LEN =< RCV.NXT+RCV.WND". *)
Definition rfc_acceptable (ws we seq len : Z) : bool :=
  let seg_end := seq_add seq len in
  if len =? 0 then
    if ws =? we then seq =? ws else seq_le ws seq && seq_lt seq we
  else
    if ws =? we then false
    else (seq_le ws seq && seq_lt seq we) || (seq_lt ws seg_end && seq_le seg_end we).

Definition rcv_nxt (s : socket) : Z := tcp_window_start s.
Definition rcv_wnd_end (s : socket) : Z := tcp_window_end s.

(* The FIN of segment [r] is in order: no octet is missing in front of the segment, and every octet
   between RCV.NXT and the FIN lies inside the receive window, i.e. is taken in with this segment:
   the FIN's sequence number is RCV.NXT once the preceding data has been received. *)
Definition fin_in_order (s : socket) (r : tcp_repr) : Prop :=
  let fin_seq := seq_add (r_seq_number r) (l_len (r_payload r)) in
  r_control r = CFin /\
  seq_ge (rcv_nxt s) (r_seq_number r) = true /\
  seq_ge (rcv_wnd_end s) fin_seq = true /\
  rfc_acceptable (rcv_nxt s) (rcv_wnd_end s) (r_seq_number r) (l_len (r_payload r)) = true.

Definition acks_iss (g : ghost) (r : tcp_repr) : Prop :=
  r_ack_number r = Some (seq_add (g_iss g) 1).
Definition acks_own_fin (g : ghost) (r : tcp_repr) : Prop :=
  r_ack_number r = Some (seq_add (own_fin_seq g) 1).
Definition rst_acceptable (s : socket) (r : tcp_repr) : Prop :=
  r_control r = CRst /\
  rfc_acceptable (rcv_nxt s) (rcv_wnd_end s) (r_seq_number r) (l_len (r_payload r)) = true.

Definition synchronized (st : tcp_state) : Prop :=
  st <> Closed /\ st <> Listen /\ st <> SynSent.

(* edges a received segment may cause *)
Definition seg_allowed (s : socket) (g : ghost) (r : tcp_repr) (st st' : tcp_state) : Prop :=
  (st = Listen /\ st' = SynReceived /\ r_control r = CSyn /\ r_ack_number r = None) \/
  (st = SynSent /\ st' = Established /\ r_control r = CSyn /\ acks_iss g r) \/
  (st = SynSent /\ st' = SynReceived /\ r_control r = CSyn /\ r_ack_number r = None) \/
  (st = SynSent /\ st' = Closed /\ r_control r = CRst /\ acks_iss g r) \/
  (st = SynReceived /\ st' = Established /\ acks_iss g r /\ r_control r <> CSyn /\ r_control r <> CRst) \/
  (st = SynReceived /\ st' = CloseWait /\ acks_iss g r /\ fin_in_order s r) \/
  (st = SynReceived /\ st' = Listen /\ rst_acceptable s r /\ le_port (s_listen_endpoint s) <> 0) \/
  (st = Established /\ st' = CloseWait /\ fin_in_order s r) \/
  (st = FinWait1 /\ st' = FinWait2 /\ acks_own_fin g r /\ r_control r <> CRst) \/
  (st = FinWait1 /\ st' = Closing /\ fin_in_order s r) \/
  (st = FinWait1 /\ st' = TimeWait /\ fin_in_order s r /\ acks_own_fin g r) \/
  (st = FinWait2 /\ st' = TimeWait /\ fin_in_order s r) \/
  (st = Closing /\ st' = TimeWait /\ acks_own_fin g r /\ r_control r <> CRst) \/
  (st = LastAck /\ st' = Closed /\ acks_own_fin g r /\ r_control r <> CRst) \/
  (synchronized st /\ st' = Closed /\ rst_acceptable s r).

(* when may one `dispatch` change the state: only to CLOSED, and only for one of three reasons *)
Definition time_wait_expired (cx : ctx) (s : socket) : Prop :=
  s_state s = TimeWait /\ exists e, s_timer s = TClose e /\ e <= cx_now cx.
Definition user_timeout_expired (cx : ctx) (s : socket) : Prop :=
  exists timeout, s_timeout s = Some timeout /\
    match s_remote_last_ts s with Some t => t + timeout <= cx_now cx | None => timeout <= 0 end.
Definition address_removed (cx : ctx) (s : socket) : Prop :=
  exists t, s_tuple s = Some t /\ tu_local_addr t <> cx_addr cx.

(* [allowed s g cx ev st']: event [ev], arriving at socket [s] (ghost [g], context [cx]), may leave
   the socket in state [st'].  Staying in the same state is always allowed. *)
Definition allowed (s : socket) (g : ghost) (cx : ctx) (ev : event) (st' : tcp_state) : Prop :=
  let st := s_state s in
  st' = st \/
  match ev with
  | EvListen _ => (st = Closed \/ st = TimeWait) /\ st' = Listen        (* passive OPEN (after implicit abort) *)
  | EvConnect _ _ _ => (st = Closed \/ st = TimeWait) /\ st' = SynSent  (* active OPEN *)
  | EvClose =>
      (st = Listen /\ st' = Closed) \/ (st = SynSent /\ st' = Closed) \/
      (st = SynReceived /\ st' = FinWait1) \/ (st = Established /\ st' = FinWait1) \/
      (st = CloseWait /\ st' = LastAck)
  | EvAbort => st' = Closed
  | EvSegment _ r => seg_allowed s g r st st'
  | EvDispatch _ =>
      st' = Closed /\ (time_wait_expired cx s \/ user_timeout_expired cx s \/ address_removed cx s)
  | _ => False
  end.

(* ================================================================== *)
(** * 2. Frame lemmas for helpers                                      *)
(* ================================================================== *)

(* the part of the socket the state-machine theorems depend on *)
Definition core (s : socket) : tcp_state * timer * Z * ring * bool :=
  (s_state s, s_timer s, s_local_seq_no s, s_tx_buffer s, s_syn_unacked_in_fin_wait s).

Lemma ack_reply_frame : forall cx s ip r s' p,
  tcp_ack_reply cx s ip r = (s', p) ->
  core s' = core s /\ s_tuple s' = s_tuple s /\ s_listen_endpoint s' = s_listen_endpoint s
  /\ s_timeout s' = s_timeout s /\ s_remote_last_ts s' = s_remote_last_ts s.
Proof.
  intros cx s ip r s' p H. unfold tcp_ack_reply in H.
  destruct (tcp_reply ip r) as [ip' reply]. inversion H; subst; clear H.
  unfold core; simpl. auto.
Qed.

Lemma challenge_ack_reply_frame : forall cx s ip r s' p,
  tcp_challenge_ack_reply cx s ip r = (s', p) ->
  core s' = core s /\ s_tuple s' = s_tuple s /\ s_listen_endpoint s' = s_listen_endpoint s
  /\ s_timeout s' = s_timeout s /\ s_remote_last_ts s' = s_remote_last_ts s.
Proof.
  intros cx s ip r s' p H. unfold tcp_challenge_ack_reply in H.
  destruct (cx_now cx <? s_challenge_ack_timer s).
  - inversion H; subst. auto.
  - destruct (tcp_ack_reply cx (upd_challenge_ack_timer s (cx_now cx + 1000000)) ip r) as [s1 p1] eqn:E.
    inversion H; subst; clear H. apply ack_reply_frame in E. simpl in E. exact E.
Qed.

(* everything the theorems look at that a reply or a dropped segment leaves alone *)
Definition frame_eq (s' s : socket) : Prop :=
  core s' = core s /\ s_tuple s' = s_tuple s /\ s_listen_endpoint s' = s_listen_endpoint s
  /\ s_timeout s' = s_timeout s /\ s_remote_last_ts s' = s_remote_last_ts s.

Lemma frame_eq_refl : forall s, frame_eq s s.
Proof. intros. unfold frame_eq. auto. Qed.

(* destruct every match scrutinee in hypothesis H *)
Ltac break_hyp H :=
  repeat (match type of H with
          | context [match ?x with _ => _ end] => destruct x eqn:?
          end; try discriminate H).

Ltac inv H := inversion H; subst; clear H.

(* split conjunctions only (repeat split would also unfold <=) *)
Ltac isplit := repeat match goal with |- _ /\ _ => split end.

(* ================================================================== *)
(** * 3. The phases of process                                         *)
(* ================================================================== *)

(* --- ACK acceptability (tcp_process_ack_check) --- *)

Definition unacked_len (s : socket) : Z :=
  rb_len (s_tx_buffer s) + (b2z (tcp_sent_syn s) + b2z (tcp_sent_fin s)).

(* what a segment that passes the check satisfies *)
Definition ack_pre (s : socket) (r : tcp_repr) : Prop :=
  let iss1 := seq_add (s_local_seq_no s) 1 in
  match r_control r with
  | CRst => s_state s = SynSent -> r_ack_number r = Some iss1
  | c =>
      match s_state s with
      | Listen => r_ack_number r = None
      | SynSent => c = CSyn /\ (r_ack_number r = None \/ r_ack_number r = Some iss1)
      | SynReceived => r_ack_number r = Some iss1
      | _ => exists a, r_ack_number r = Some a /\
                       seq_lt a (seq_add (s_local_seq_no s) (b2z (tcp_sent_syn s))) = false /\
                       seq_gt a (seq_add (s_local_seq_no s) (unacked_len s)) = false
      end
  end.

Lemma ack_check_ret : forall cx s ip r t s' rep,
  tcp_process_ack_check cx s ip r = Ok (Ret t s' rep) -> frame_eq s' s.
Proof.
  intros cx s ip r t s' rep H. unfold tcp_process_ack_check in H.
  destruct (s_state s); destruct (r_control r); destruct (r_ack_number r);
    unfold obind in H; break_hyp H; inv H;
    try apply frame_eq_refl;
    match goal with
    | E : tcp_challenge_ack_reply _ _ _ _ = _ |- _ => apply challenge_ack_reply_frame in E; exact E
    end.
Qed.

Lemma ack_check_cont : forall cx s ip r t u,
  tcp_process_ack_check cx s ip r = Ok (Cont t u) -> ack_pre s r.
Proof.
  intros cx s ip r t u H. unfold tcp_process_ack_check in H. unfold ack_pre, unacked_len.
  destruct (s_state s) eqn:Est; destruct (r_control r) eqn:Ec; destruct (r_ack_number r) eqn:Ea;
    unfold obind in H; break_hyp H; inv H; simpl in *; try discriminate; auto;
    try (intros; discriminate);
    try (split; [reflexivity | auto]);
    repeat match goal with
    | E : negb (?a =? ?b) = false |- _ =>
        let E' := fresh in assert (E' : a = b) by (destruct (Z.eqb_spec a b); [assumption | discriminate]);
        clear E; try rewrite E'
    end; auto;
    try (eexists; split; [reflexivity | split; assumption]).
Qed.

(* --- segment acceptability and trimming (tcp_process_window) --- *)

Lemma seq_add_eq_self : forall a n, seq_wf a -> 0 <= n < 65536 -> (a =? seq_add a n) = (n =? 0).
Proof.
  intros a n Ha Hn. unfold seq_wf in Ha. seq_unfold.
  destruct (Z.eqb_spec a ((a + n) mod 4294967296)); destruct (Z.eqb_spec n 0); lia.
Qed.

Lemma in_window_acceptable : forall ws we ss len tg,
  seq_wf ss -> 0 <= len < 65536 ->
  tcp_segment_in_window ws we ss (seq_add ss len) = (true, tg) ->
  rfc_acceptable ws we ss len = true.
Proof.
  intros ws we ss len tg Hs Hl H. unfold tcp_segment_in_window in H. unfold rfc_acceptable.
  rewrite seq_add_eq_self in H by assumption.
  destruct (len =? 0) eqn:El; simpl in H.
  - destruct (seq_add ss len =? seq_subn ws 1); [discriminate|].
    destruct (ws =? we) eqn:Ew; simpl in H.
    + destruct (ws =? ss) eqn:E; inv H. rewrite Z.eqb_sym. assumption.
    + destruct (seq_le ws ss && seq_lt ss we); inv H. reflexivity.
  - destruct (ws =? we) eqn:Ew; simpl in H; [discriminate|].
    match type of H with (if ?c then _ else _) = _ => destruct c eqn:Ec end; inv H. reflexivity.
Qed.

(* fields that decide what the theorems talk about, other than the timer *)
Definition same_conn (s' s : socket) : Prop :=
  s_state s' = s_state s /\ s_local_seq_no s' = s_local_seq_no s /\
  s_tx_buffer s' = s_tx_buffer s /\
  s_syn_unacked_in_fin_wait s' = s_syn_unacked_in_fin_wait s /\
  s_tuple s' = s_tuple s /\ s_listen_endpoint s' = s_listen_endpoint s /\
  s_timeout s' = s_timeout s /\ s_remote_last_ts s' = s_remote_last_ts s.

Lemma same_conn_refl : forall s, same_conn s s.
Proof. unfold same_conn. auto 10. Qed.

Lemma same_conn_trans : forall a b c, same_conn a b -> same_conn b c -> same_conn a c.
Proof. unfold same_conn. intuition congruence. Qed.

Lemma frame_eq_same_conn : forall s' s, frame_eq s' s -> same_conn s' s /\ s_timer s' = s_timer s.
Proof.
  unfold frame_eq, same_conn, core. intros s' s (Hc & ? & ? & ? & ?). inversion Hc. auto 10.
Qed.

(* the TIME-WAIT refresh at the head of the "not in window" branch *)
Definition tw_refresh (cx : ctx) (s : socket) : socket :=
  if tcp_state_eqb (s_state s) TimeWait then upd_timer s (timer_set_for_close (cx_now cx)) else s.

Definition timer_same_or_refreshed (cx : ctx) (s' s : socket) : Prop :=
  s_timer s' = s_timer s \/
  (s_state s = TimeWait /\ s_timer s' = TClose (cx_now cx + tcp_CLOSE_DELAY)).

Lemma tw_refresh_spec : forall cx s,
  same_conn (tw_refresh cx s) s /\ timer_same_or_refreshed cx (tw_refresh cx s) s.
Proof.
  intros. unfold tw_refresh, timer_same_or_refreshed.
  destruct (s_state s) eqn:Es; simpl; split; try apply same_conn_refl; auto.
  unfold same_conn; simpl; auto 10.
Qed.

Lemma window_ret : forall cx s ip r t s' rep,
  tcp_process_window cx s ip r = Ok (Ret t s' rep) ->
  same_conn s' s /\ timer_same_or_refreshed cx s' s.
Proof.
  intros cx s ip r t s' rep H. unfold tcp_process_window in H.
  fold (tw_refresh cx s) in H.
  destruct (tcp_segment_in_window _ _ _ _) as [inw tg] in H.
  destruct (tw_refresh_spec cx s) as [Hc Ht].
  assert (Hnw :
    (if control_eqb (r_control r) CRst
      then Ok (@Ret (socket * list Z * Z) (tg + 1000) s None)
      else
       if match r_payload r with [] => false | _ :: _ => true end
          && match r_control r with CNone | CPsh | CFin => true | _ => false end
       then let '(s'0, p) := tcp_ack_reply cx (tw_refresh cx s) ip r in Ok (@Ret (socket * list Z * Z) (tg + 2000) s'0 (Some p))
       else let '(s'0, p) := tcp_challenge_ack_reply cx (tw_refresh cx s) ip r in Ok (@Ret (socket * list Z * Z) (tg + 3000) s'0 p))
      = Ok (Ret t s' rep) ->
    same_conn s' s /\ timer_same_or_refreshed cx s' s).
  { intro H1. destruct (control_eqb (r_control r) CRst).
    - inv H1. split; [apply same_conn_refl | left; reflexivity].
    - match type of H1 with (if ?c then _ else _) = _ => destruct c end.
      + destruct (tcp_ack_reply cx (tw_refresh cx s) ip r) as [s2 p] eqn:E. inv H1.
        apply ack_reply_frame in E. apply frame_eq_same_conn in E. destruct E as [Hc2 Ht2].
        split; [eapply same_conn_trans; eassumption |].
        unfold timer_same_or_refreshed in *. rewrite Ht2. exact Ht.
      + destruct (tcp_challenge_ack_reply cx (tw_refresh cx s) ip r) as [s2 p] eqn:E. inv H1.
        apply challenge_ack_reply_frame in E. apply frame_eq_same_conn in E. destruct E as [Hc2 Ht2].
        split; [eapply same_conn_trans; eassumption |].
        unfold timer_same_or_refreshed in *. rewrite Ht2. exact Ht. }
  destruct (s_state s) eqn:Es; try discriminate H;
    (destruct inw; [unfold obind in H; break_hyp H | apply Hnw; exact H]).
Qed.

Lemma window_cont : forall cx s ip r t s2 payload off,
  wf_repr r ->
  tcp_process_window cx s ip r = Ok (Cont t (s2, payload, off)) ->
  (s2 = s \/ s2 = upd_local_rx_last_seq s (Some (r_seq_number r))) /\
  (s_state s <> Listen -> s_state s <> SynSent ->
   rfc_acceptable (rcv_nxt s) (rcv_wnd_end s) (r_seq_number r) (l_len (r_payload r)) = true).
Proof.
  intros cx s ip r t s2 payload off (Hws & _ & Hlen) H. unfold tcp_process_window in H.
  fold (tw_refresh cx s) in H.
  destruct (tcp_segment_in_window _ _ _ _) as [inw tg] eqn:Ew in H.
  destruct (s_state s) eqn:Es;
    try (inv H; split; [left; reflexivity | intros; congruence]);
    (destruct inw;
     [ unfold obind in H; break_hyp H; inv H; split; [right; reflexivity |];
       intros _ _; unfold rcv_nxt, rcv_wnd_end; eapply in_window_acceptable; eassumption
     | exfalso; clear Ew;
       destruct (control_eqb (r_control r) CRst); [discriminate H|];
       match type of H with (if ?c then _ else _) = _ => destruct c end;
       [ destruct (tcp_ack_reply cx (tw_refresh cx s) ip r); discriminate H
       | destruct (tcp_challenge_ack_reply cx (tw_refresh cx s) ip r); discriminate H ] ]).
Qed.

(* --- ack_len / ack_of_fin (tcp_process_ack_len) --- *)

Lemma sent_fin_not_syn : forall s, tcp_sent_fin s = true -> tcp_sent_syn s = false.
Proof.
  intros s. unfold tcp_sent_fin, tcp_sent_syn. destruct (s_state s); try congruence.
  destruct (s_syn_unacked_in_fin_wait s); simpl; congruence.
Qed.

Lemma ack_len_spec : forall s r al aof aall,
  wf_repr r -> ack_pre s r ->
  tcp_process_ack_len s r = Ok (al, aof, aall) ->
  ((r_control r = CRst \/ r_ack_number r = None) -> al = 0 /\ aof = false) /\
  (r_control r <> CRst -> forall a, r_ack_number r = Some a ->
     a = seq_add (s_local_seq_no s) (b2z (tcp_sent_syn s) + al + b2z aof) /\
     (aof = true -> tcp_sent_fin s = true /\ al = rb_len (s_tx_buffer s)) /\
     (aof = false -> 0 <= al)).
Proof.
  intros s r al aof aall (_ & Hwa & _) Hpre H. unfold tcp_process_ack_len in H.
  destruct (r_ack_number r) as [a|] eqn:Ea.
  2:{ inv H. split; [auto | intros _ a0 Hc; discriminate]. }
  destruct (control_eqb (r_control r) CRst) eqn:Ec.
  { inv H. split; [auto|]. intros Hn. destruct (r_control r); simpl in Ec; congruence. }
  assert (Hnr : r_control r <> CRst) by (destruct (r_control r); simpl in Ec; congruence).
  assert (Hge : seq_ge a (seq_add (s_local_seq_no s) (b2z (tcp_sent_syn s))) = true).
  { unfold ack_pre in Hpre. rewrite Ea in Hpre. unfold tcp_sent_syn.
    destruct (r_control r) eqn:Ecr; try congruence;
    destruct (s_state s) eqn:Es; simpl;
      try discriminate Hpre;
      try (destruct Hpre as [_ Hp]; destruct Hp as [Hp|Hp]; [discriminate Hp | inv Hp; unfold seq_ge; rewrite seq_sdiff_self; reflexivity]);
      try (inv Hpre; unfold seq_ge; rewrite seq_sdiff_self; reflexivity);
      try (destruct Hpre as (a0 & Ha0 & Hlt & _); inv Ha0;
           unfold tcp_sent_syn in Hlt; rewrite Es in Hlt; simpl in Hlt;
           rewrite seq_ge_not_lt, Hlt; reflexivity);
      try (destruct Hpre as [Hp _]; discriminate Hp). }
  rewrite Hge in H. unfold obind in H.
  destruct (seq_sub a (seq_add (s_local_seq_no s) (b2z (tcp_sent_syn s)))) as [d| |] eqn:Ed;
    try discriminate H.
  pose proof (seq_sub_ok _ _ _ Ed) as [Hd0 _].
  apply seq_sub_ok_add in Ed; [| apply Hwa; reflexivity]. rewrite seq_add_add in Ed.
  split; [intros [Hc|Hc]; congruence |].
  intros _ a0 Ha0. inv Ha0.
  destruct (tcp_sent_fin s) eqn:Ef; simpl in H.
  - destruct (Z.eqb_spec (rb_len (s_tx_buffer s) + 1) d); inv H; simpl.
    + split; [f_equal; lia | split; [intros _; split; [reflexivity | lia] | intros Hc; discriminate]].
    + split; [f_equal; lia | split; [intros Hc; discriminate | intros _; lia]].
  - inv H. simpl. split; [f_equal; lia | split; [intros Hc; discriminate | intros _; lia]].
Qed.

(* --- control quashing --- *)
Lemma quash_spec : forall s r c,
  tcp_process_quash s r = c ->
  match c with
  | CNone => r_control r = CNone \/ r_control r = CPsh \/ r_control r = CFin
  | CPsh => False
  | CSyn => r_control r = CSyn
  | CRst => r_control r = CRst
  | CFin => r_control r = CFin /\
            seq_ge (tcp_window_start s) (r_seq_number r) = true /\
            seq_ge (tcp_window_end s) (seq_add (r_seq_number r) (l_len (r_payload r))) = true
  end.
Proof.
  intros s r c H. unfold tcp_process_quash in H.
  destruct (r_control r) eqn:Ec; simpl in H; subst; auto.
  rewrite !seq_ge_not_lt.
  destruct (seq_lt (tcp_window_start s) (r_seq_number r)); simpl; auto.
  destruct (seq_lt (tcp_window_end s) (seq_add (r_seq_number r) (l_len (r_payload r)))); simpl; auto.
Qed.

(* --- the transition table (tcp_process_transition) --- *)

(* what the table does to (state, timer, tuple) when it continues; [hasack] = the segment has ACK *)
Definition trans_rel (cx : ctx) (s s' : socket) (c : control) (hasack aof : bool) : Prop :=
  let st := s_state s in let st' := s_state s' in
  (st = Listen /\ c = CSyn /\ st' = SynReceived /\ s_local_seq_no s' = cx_isn cx /\ s_tuple s' <> None /\
   (exists k, s_timer s' = TIdle k)) \/
  (s_local_seq_no s' = s_local_seq_no s /\
   ((s_tuple s' = s_tuple s /\
     ((st' = st /\ s_timer s' = s_timer s /\ st <> Listen /\ st <> SynSent /\ st <> SynReceived /\
       (aof = true -> st <> FinWait1 /\ st <> Closing /\ st <> LastAck)) \/
      (st = SynReceived /\ c = CNone /\ st' = Established /\ s_timer s' = s_timer s) \/
      (st = SynReceived /\ c = CFin /\ st' = CloseWait /\ s_timer s' = s_timer s) \/
      (st = SynSent /\ c = CSyn /\ hasack = true /\ st' = Established /\ s_timer s' = s_timer s) \/
      (st = SynSent /\ c = CSyn /\ hasack = false /\ st' = SynReceived /\ s_timer s' = s_timer s) \/
      (st = Established /\ c = CFin /\ st' = CloseWait /\ s_timer s' = s_timer s) \/
      (st = FinWait1 /\ c = CNone /\ aof = true /\ st' = FinWait2 /\ s_timer s' = s_timer s) \/
      (st = FinWait1 /\ c = CFin /\ aof = false /\ st' = Closing /\ s_timer s' = s_timer s) \/
      (st = FinWait1 /\ c = CFin /\ aof = true /\ st' = TimeWait /\
         s_timer s' = TClose (cx_now cx + tcp_CLOSE_DELAY)) \/
      (st = FinWait2 /\ c = CFin /\ st' = TimeWait /\
         s_timer s' = TClose (cx_now cx + tcp_CLOSE_DELAY)) \/
      (st = Closing /\ c = CNone /\ aof = true /\ st' = TimeWait /\
         s_timer s' = TClose (cx_now cx + tcp_CLOSE_DELAY)))) \/
    (st = LastAck /\ c = CNone /\ aof = true /\ st' = Closed /\ s_tuple s' = None /\
       s_timer s' = s_timer s))).

Definition same_rest (s' s : socket) : Prop :=
  s_tx_buffer s' = s_tx_buffer s /\
  s_listen_endpoint s' = s_listen_endpoint s /\ s_timeout s' = s_timeout s /\
  s_syn_unacked_in_fin_wait s' = s_syn_unacked_in_fin_wait s.

Lemma apply_mss_frame : forall s r,
  same_conn (tcp_apply_mss s r) s /\ s_timer (tcp_apply_mss s r) = s_timer s /\
  s_tx_buffer (tcp_apply_mss s r) = s_tx_buffer s /\
  s_syn_unacked_in_fin_wait (tcp_apply_mss s r) = s_syn_unacked_in_fin_wait s.
Proof.
  intros. unfold tcp_apply_mss. destruct (r_max_seg_size r) as [z|]; [destruct (z =? 0)|];
    unfold same_conn; simpl; auto 12.
Qed.

Lemma transition_cont : forall cx s ip r c al aof t s',
  tcp_process_transition cx s ip r c al aof = Ok (Cont t s') ->
  trans_rel cx s s' c (is_some (r_ack_number r)) aof /\ same_rest s' s /\ c <> CRst.
Proof.
  intros cx s ip r c al aof t s' H.
  assert (Hnr : c <> CRst).
  { intro Hc. subst c. unfold tcp_process_transition in H.
    destruct (s_state s); try discriminate H.
    destruct (negb (le_port (s_listen_endpoint s) =? 0)); discriminate H. }
  cut (trans_rel cx s s' c (is_some (r_ack_number r)) aof /\ same_rest s' s); [tauto|]. clear Hnr.
  unfold tcp_process_transition in H.
  unfold trans_rel, same_rest.
  destruct (s_state s) eqn:Es; destruct c eqn:Ec; try discriminate H;
    try (match type of H with context [negb ?b] => destruct b end; discriminate H);
    try (inv H; simpl; rewrite ?Es; split; [right; split; [reflexivity|left; split; [reflexivity|]] | auto];
         intuition congruence).
  - (* Listen, Syn *)
    inv H.
    destruct (apply_mss_frame s r) as [(H1 & H2 & H3 & H3' & H4 & H5 & H6 & H7) (H8 & H9 & H10)].
    destruct (r_window_scale r); destruct (r_timestamp r); simpl;
      (split; [left; isplit; auto; try discriminate; eexists; reflexivity | auto]).
  - (* SynSent, Syn *)
    destruct (apply_mss_frame s r) as [(H1 & H2 & H3 & H3' & H4 & H5 & H6 & H7) (H8 & H9 & H10)].
    destruct (r_ack_number r) eqn:Ea; simpl in H; inv H;
      destruct (r_window_scale r); destruct (r_timestamp r); simpl;
      (split; [right; split; [assumption | left; split; [assumption|]] | auto]); rewrite ?Es; intuition congruence.
  - (* FinWait1, None *)
    destruct aof; inv H; simpl; rewrite ?Es;
      (split; [right; split; [reflexivity | left; split; [reflexivity|]] | auto]); intuition congruence.
  - (* FinWait1, Fin *)
    destruct aof; inv H; simpl; rewrite ?Es;
      (split; [right; split; [reflexivity | left; split; [reflexivity|]] | auto]); intuition congruence.
  - (* Closing, None *)
    destruct aof; inv H; simpl; rewrite ?Es;
      (split; [right; split; [reflexivity | left; split; [reflexivity|]] | auto]); intuition congruence.
  - (* LastAck, None *)
    destruct aof.
    + inv H. simpl. rewrite ?Es. split; [right; split; [reflexivity | right; intuition congruence] | auto].
    + destruct ((al =? 0) && rb_is_empty (s_tx_buffer s)).
      * destruct (tcp_challenge_ack_reply cx s ip r); discriminate H.
      * inv H. simpl. rewrite ?Es. split; [right; split; [reflexivity | left; split; [reflexivity|]] | auto]; intuition congruence.
Qed.

Lemma transition_ret : forall cx s ip r c al aof t s' rep,
  tcp_process_transition cx s ip r c al aof = Ok (Ret t s' rep) ->
  (same_conn s' s /\ s_timer s' = s_timer s /\
   s_syn_unacked_in_fin_wait s' = s_syn_unacked_in_fin_wait s) \/
  (c = CRst /\ s_state s <> Listen /\ s_timer s' = s_timer s /\
   s_local_seq_no s' = s_local_seq_no s /\ same_rest s' s /\ s_tuple s' = None /\
   s_state s' = Closed) \/
  (c = CRst /\ s_state s = SynReceived /\ le_port (s_listen_endpoint s) <> 0 /\
   s' = tcp_set_state (upd_listen_endpoint (tcp_reset s) (s_listen_endpoint s)) Listen).
Proof.
  intros cx s ip r c al aof t s' rep H. unfold tcp_process_transition in H. unfold same_rest.
  destruct (s_state s) eqn:Es; destruct c eqn:Ec; try discriminate H;
    try (inv H; left; split; [apply same_conn_refl | auto]);
    try (inv H; right; left; simpl; rewrite ?Es; repeat split; auto; congruence);
    try (destruct aof; discriminate H).
  - (* SynSent, Syn *)
    destruct (is_some (r_ack_number r)); discriminate H.
  - (* SynReceived, Rst *)
    destruct (Z.eqb_spec (le_port (s_listen_endpoint s)) 0); simpl in H; inv H.
    + right; left; simpl; rewrite ?Es; repeat split; auto; try congruence.
    + right; right; repeat split; auto.
  - (* LastAck, None *)
    destruct aof; [discriminate H|]. destruct ((al =? 0) && rb_is_empty (s_tx_buffer s)); [|discriminate H].
    destruct (tcp_challenge_ack_reply cx s ip r) as [s1 p] eqn:E. inv H.
    left. pose proof E as E2. apply challenge_ack_reply_frame in E. apply frame_eq_same_conn in E.
    destruct E as [E1 E3]. split; [exact E1|split; [exact E3|]].
    unfold tcp_challenge_ack_reply in E2. destruct (cx_now cx <? s_challenge_ack_timer s); [inv E2; reflexivity|].
    unfold tcp_ack_reply in E2. destruct (tcp_reply _ _) in E2. inv E2. reflexivity.
Qed.

(* --- the rest of process after the table --- *)

Lemma update_remote_spec : forall cx s r al s' iwu,
  tcp_process_update_remote cx s r al = Ok (s', iwu) ->
  s_state s' = s_state s /\ s_timer s' = s_timer s /\ s_local_seq_no s' = s_local_seq_no s /\
  s_tuple s' = s_tuple s /\ s_listen_endpoint s' = s_listen_endpoint s /\ s_timeout s' = s_timeout s /\
  s_syn_unacked_in_fin_wait s' = s_syn_unacked_in_fin_wait s /\
  rb_len (s_tx_buffer s') = rb_len (s_tx_buffer s) - (if al >? 0 then al else 0) /\
  rb_cap (s_tx_buffer s') = rb_cap (s_tx_buffer s) /\
  (al >? 0 = true -> al <= rb_len (s_tx_buffer s)).
Proof.
  intros cx s r al s' iwu H. unfold tcp_process_update_remote in H.
  destruct (al >? 0).
  - match type of H with (if ?c then _ else _) = _ => destruct c end; [discriminate H|].
    unfold obind in H. simpl in H.
    destruct (rb_dequeue_allocated (s_tx_buffer s) al) as [tx| |] eqn:E; try discriminate H.
    inv H. simpl. unfold rb_dequeue_allocated in E.
    destruct (Z.leb_spec al (rb_len (s_tx_buffer s))); inv E.
    simpl. repeat split; auto.
  - inv H. simpl. repeat split; auto; try lia; try (intros Hc; discriminate).
Qed.

Lemma dup_ack_spec : forall cx s r al iwu s' tg,
  tcp_process_dup_ack cx s r al iwu = Ok (s', tg) ->
  s_state s' = s_state s /\ s_tuple s' = s_tuple s /\ s_listen_endpoint s' = s_listen_endpoint s /\
  s_timeout s' = s_timeout s /\ s_tx_buffer s' = s_tx_buffer s /\
  s_local_seq_no s' = match r_ack_number r with Some a => a | None => s_local_seq_no s end /\
  s_syn_unacked_in_fin_wait s' =
    match r_ack_number r with Some _ => false | None => s_syn_unacked_in_fin_wait s end /\
  (s_timer s' = s_timer s \/ (s_timer s' = TFastRetransmit /\ rb_is_empty (s_tx_buffer s) = false)).
Proof.
  intros cx s r al iwu s' tg H. unfold tcp_process_dup_ack in H.
  destruct (r_ack_number r) as [a|]; [|inv H; repeat split; auto].
  unfold obind in H.
  match type of H with match (if ?c then _ else _) with _ => _ end = _ => destruct c end.
  - destruct (tcp_flight_size _) in H; try discriminate H.
    destruct (Z.eqb_spec (Z.min 255 (s_local_rx_dup_acks s + 1)) 3) as [E3|E3]; simpl in H.
    + destruct (rb_is_empty (s_tx_buffer s)) eqn:Ee; simpl in H;
        match type of H with context [seq_lt ?x ?y] => destruct (seq_lt x y) end; inv H; simpl;
        repeat split; auto.
    + match type of H with context [seq_lt ?x ?y] => destruct (seq_lt x y) end; inv H; simpl;
        repeat split; auto.
  - destruct (rtte_on_ack _ _ _) in H; try discriminate H.
    destruct (tcp_flight_size _) in H; try discriminate H.
    destruct (cc_on_ack _ _) in H; try discriminate H.
    destruct (s_local_rx_dup_acks s >? 0);
      match type of H with context [seq_lt ?x ?y] => destruct (seq_lt x y) end; inv H; simpl;
      repeat split; auto.
Qed.

Definition only_timer (s' s : socket) : Prop :=
  same_conn s' s /\ s_syn_unacked_in_fin_wait s' = s_syn_unacked_in_fin_wait s /\
  s_tx_buffer s' = s_tx_buffer s.

Lemma only_timer_upd : forall s t, only_timer (upd_timer s t) s.
Proof. intros. unfold only_timer, same_conn. simpl. auto 12. Qed.
Lemma only_timer_refl : forall s, only_timer s s.
Proof. intros. split; [apply same_conn_refl | split; reflexivity]. Qed.
Lemma only_timer_trans : forall a b c, only_timer a b -> only_timer b c -> only_timer a c.
Proof.
  unfold only_timer. intros a b c (A1 & A2 & A3) (B1 & B2 & B3).
  split; [eapply same_conn_trans; eassumption | split; congruence].
Qed.

Lemma timers_spec : forall cx s al aall s' tg,
  tcp_process_timers cx s al aall = (s', tg) ->
  only_timer s' s /\ (forall e, s_timer s = TClose e -> s_timer s' = TClose e) /\
  (forall e, s_timer s' = TClose e -> s_timer s = TClose e).
Proof.
  intros cx s al aall s' tg H. unfold tcp_process_timers in H.
  destruct (s_timer s) eqn:Et;
    try (destruct aall; [|destruct (al >? 0)]); inv H;
    (isplit; [try apply only_timer_upd; apply only_timer_refl
             | intros e He; try discriminate He; simpl; rewrite ?Et; simpl; congruence
             | intros e He; unfold timer_set_for_idle in He; simpl in He; rewrite ?Et in He; simpl in He;
               try discriminate He; congruence]).
Qed.

Lemma zwp_spec : forall cx s al s' tg,
  tcp_process_zwp cx s al = (s', tg) ->
  only_timer s' s /\
  (forall e, s_timer s = TClose e -> rb_len (s_tx_buffer s) = 0 -> s_timer s' = TClose e) /\
  (forall e, s_timer s' = TClose e -> s_timer s = TClose e).
Proof.
  intros cx s al s' tg H. unfold tcp_process_zwp in H.
  match type of H with (let '(_, _) := (if ?c then _ else _) in _) = _ => destruct c eqn:Ec end.
  - (* probe timer started: the transmit buffer is not empty *)
    assert (Hne : rb_is_empty (s_tx_buffer s) = false).
    { destruct (rb_is_empty (s_tx_buffer s)); [|reflexivity].
      rewrite andb_false_r in Ec. simpl in Ec. discriminate Ec. }
    simpl in H.
    match type of H with (if ?c then _ else _) = _ => destruct c end.
    + match type of H with (if ?c then _ else _) = _ => destruct c end; inv H;
        (isplit; [unfold only_timer, same_conn; simpl; auto 12
                 | intros e _ Hl; unfold rb_is_empty in Hne; rewrite Hl in Hne; discriminate Hne
                 | intros e He; simpl in He; discriminate He]).
    + inv H. isplit; [apply only_timer_upd
                     | intros e _ Hl; unfold rb_is_empty in Hne; rewrite Hl in Hne; discriminate Hne
                     | intros e He; simpl in He; discriminate He].
  - match type of H with (if ?c then _ else _) = _ => destruct c eqn:Ec2 end.
    + assert (Hz : timer_is_zero_window_probe (s_timer s) = true).
      { destruct (timer_is_zero_window_probe (s_timer s)); [reflexivity|].
        rewrite andb_false_r in Ec2. discriminate Ec2. }
      match type of H with (if ?c then _ else _) = _ => destruct c end; inv H;
        (isplit; [unfold only_timer, same_conn; simpl; auto 12
                 | intros e He; rewrite He in Hz; discriminate Hz
                 | intros e He; simpl in He; discriminate He]).
    + inv H. isplit; [apply only_timer_refl | auto | auto].
Qed.

Lemma payload_spec : forall cx s ip r payload off s' rep tg,
  tcp_process_payload cx s ip r payload off = Ok (s', rep, tg) ->
  only_timer s' s /\ s_timer s' = s_timer s.
Proof.
  intros cx s ip r payload off s' rep tg H. unfold tcp_process_payload in H.
  destruct (l_len payload =? 0); [inv H; split; [apply only_timer_refl | reflexivity]|].
  destruct (asm_atrf _ _ _ _) as [asm' res]. destruct res as [contig|];
    [|inv H; split; [apply only_timer_refl | reflexivity]].
  destruct (rb_write_unallocated _ _ _) as [rx lw].
  match type of H with (if ?c then _ else _) = _ => destruct c end; [discriminate H|].
  unfold obind in H.
  match type of H with match ?x with _ => _ end = _ => destruct x as [rx2| |]; try discriminate H end.
  set (s1 := upd_rx_buffer (upd_assembler s asm') rx2) in *.
  assert (H1 : only_timer s1 s /\ s_timer s1 = s_timer s).
  { unfold s1, only_timer, same_conn. simpl. auto 12. }
  match type of H with (let '(_, _) := ?e in _) = _ => destruct e as [s2 tg2] eqn:E2 end.
  assert (H2 : only_timer s2 s1 /\ s_timer s2 = s_timer s1).
  { destruct (s_ack_delay s1); [|inv E2; split; [apply only_timer_refl|reflexivity]].
    destruct (tcp_ack_to_transmit s1); [|inv E2; split; [apply only_timer_refl|reflexivity]].
    destruct (s_ack_delay_timer s1); try destruct (tcp_immediate_ack_to_transmit s1); inv E2;
      try (split; [apply only_timer_refl|reflexivity]);
      (split; [unfold only_timer, same_conn; simpl; auto 12 | reflexivity]). }
  assert (H3 : only_timer s2 s /\ s_timer s2 = s_timer s).
  { destruct H1 as [A1 A3]. destruct H2 as [B1 B3]. split; [|congruence].
    eapply only_timer_trans; eassumption. }
  match type of H with (if ?c then _ else _) = _ => destruct c end.
  - destruct (tcp_ack_reply cx s2 ip r) as [s3 p] eqn:E3.
    assert (Hs3 : s' = s3) by (inversion H; reflexivity). subst s'. clear H.
    assert (E5 : only_timer s3 s2 /\ s_timer s3 = s_timer s2).
    { pose proof E3 as E4. apply ack_reply_frame in E3. apply frame_eq_same_conn in E3.
      destruct E3 as [C1 C2]. split; [|exact C2]. split; [exact C1|].
      unfold tcp_ack_reply in E4. destruct (tcp_reply _ _) in E4. inv E4. simpl. auto. }
    destruct E5 as [E5 E6]. destruct H3 as [A1 A3]. split; [|congruence].
    eapply only_timer_trans; eassumption.
  - inv H. exact H3.
Qed.

(* ================================================================== *)
(** * 4. The invariant                                                 *)
(* ================================================================== *)

Definition tx_len (s : socket) : Z := rb_len (s_tx_buffer s).

(* SND.UNA and the transmit queue against the ghost: the queue always ends at the sequence number
   the FIN has / will have; before the SYN is acknowledged SND.UNA is the ISS *)
Definition J (s : socket) (g : ghost) : Prop :=
  match s_state s with
  | Closed => True
  | Listen => tx_len s = 0
  | SynSent | SynReceived => s_local_seq_no s = g_iss g /\ tx_len s = 0 /\ g_sent g = 0
  | FinWait1 =>
      if s_syn_unacked_in_fin_wait s
      then s_local_seq_no s = g_iss g /\ tx_len s = 0 /\ g_sent g = 0
      else seq_add (s_local_seq_no s) (tx_len s) = own_fin_seq g
  | Established | CloseWait | Closing | LastAck =>
      seq_add (s_local_seq_no s) (tx_len s) = own_fin_seq g
  | FinWait2 | TimeWait => tx_len s = 0 /\ s_local_seq_no s = seq_add (own_fin_seq g) 1
  end.

Definition inv (s : socket) (g : ghost) : Prop :=
  J s g /\ seq_wf (s_local_seq_no s) /\ seq_wf (g_iss g) /\
  0 <= tx_len s <= rb_cap (s_tx_buffer s) /\
  (s_state s = TimeWait -> exists e, s_timer s = TClose e) /\
  (s_state s <> Closed -> s_state s <> Listen -> s_tuple s <> None) /\
  (s_syn_unacked_in_fin_wait s = true -> s_state s = FinWait1 \/ s_state s = Closed) /\
  (forall e, s_timer s = TClose e -> s_state s = TimeWait \/ s_state s = Closed).

Lemma seq_add_cancel : forall l k al t, seq_add (seq_add l (k + al)) (t - al) = seq_add l (k + t).
Proof. intros. rewrite seq_add_add. f_equal. lia. Qed.

Lemma own_fin_seq_0 : forall g, g_sent g = 0 -> own_fin_seq g = seq_add (g_iss g) 1.
Proof. intros g H. unfold own_fin_seq. rewrite H. reflexivity. Qed.

(* what the rest of process (after the table) does, as far as the invariant cares *)
Definition tail_ok (r : tcp_repr) (al : Z) (s3 s8 : socket) : Prop :=
  s_state s8 = s_state s3 /\ s_tuple s8 = s_tuple s3 /\
  s_local_seq_no s8 = match r_ack_number r with Some a => a | None => s_local_seq_no s3 end /\
  s_syn_unacked_in_fin_wait s8 =
    match r_ack_number r with Some _ => false | None => s_syn_unacked_in_fin_wait s3 end /\
  tx_len s8 = tx_len s3 - (if al >? 0 then al else 0) /\
  rb_cap (s_tx_buffer s8) = rb_cap (s_tx_buffer s3) /\
  (al >? 0 = true -> al <= tx_len s3) /\
  (forall e, s_timer s3 = TClose e -> tx_len s8 = 0 -> s_timer s8 = TClose e) /\
  (forall e, s_timer s8 = TClose e -> s_timer s3 = TClose e).

Definition ghost_seg (cx : ctx) (s s' : socket) (g : ghost) : ghost :=
  if tcp_state_eqb (s_state s) Listen && tcp_state_eqb (s_state s') SynReceived
  then mkGhost (cx_isn cx) 0 else g.

(* the four things every segment-processing lemma establishes *)
Definition seg_post (cx : ctx) (s : socket) (g : ghost) (r : tcp_repr) (s' : socket) : Prop :=
  (s_state s' = s_state s \/ seg_allowed s g r (s_state s) (s_state s')) /\
  inv s' (ghost_seg cx s s' g) /\
  (s_state s' = TimeWait -> s_state s <> TimeWait ->
   s_timer s' = TClose (cx_now cx + tcp_CLOSE_DELAY)) /\
  (s_state s' = TimeWait -> s_state s = TimeWait ->
   s_timer s' = s_timer s \/ s_timer s' = TClose (cx_now cx + tcp_CLOSE_DELAY)).

Lemma ghost_seg_same : forall cx s s' g,
  (s_state s = Listen -> s_state s' <> SynReceived) -> ghost_seg cx s s' g = g.
Proof.
  intros cx s s' g H. unfold ghost_seg.
  destruct (s_state s) eqn:E1; simpl; try reflexivity.
  destruct (s_state s') eqn:E2; simpl; try reflexivity. exfalso. apply H; reflexivity.
Qed.

(* a segment that leaves everything but (possibly) the TIME-WAIT timer alone *)
Lemma inv_same_conn : forall s s' g,
  inv s g -> same_conn s' s ->
  (s_timer s' = s_timer s \/ (s_state s = TimeWait /\ exists e, s_timer s' = TClose e)) -> inv s' g.
Proof.
  intros s s' g (HJ & Hw & Hg & Htx & Htw & Htu & Hfl & Htc) (H1 & H2 & H3 & H4 & H5 & H6 & H7 & H8) Ht.
  unfold inv, J, tx_len in *. rewrite H1, H2, H3, H4, H5. isplit; auto; try lia.
  - intros E. destruct Ht as [Ht|[_ Ht]]; [rewrite Ht; auto | exact Ht].
  - intros e He. destruct Ht as [Ht|[Ht _]]; [rewrite Ht in He; eauto | auto].
Qed.

Lemma seg_post_unchanged : forall cx s g r s',
  inv s g -> same_conn s' s -> timer_same_or_refreshed cx s' s -> seg_post cx s g r s'.
Proof.
  intros cx s g r s' Hinv Hc Ht. pose proof Hc as (H1 & _).
  unfold seg_post. rewrite ghost_seg_same by (intros E; rewrite H1, E; discriminate).
  split; [left; exact H1|]. split.
  - apply inv_same_conn with s; auto.
    destruct Ht as [Ht|[Ht1 Ht]]; [left; exact Ht | right; split; [exact Ht1 | eauto]].
  - split; intros E1 E2; [rewrite H1 in E1; contradiction|].
    destruct Ht as [Ht|[_ Ht]]; auto.
Qed.

(* an acceptable RST (the two RST arms of the table) *)
Lemma seg_post_rst : forall cx s g r s',
  inv s g -> wf_repr r -> ack_pre s r -> r_control r = CRst ->
  (s_state s <> Listen -> s_state s <> SynSent ->
   rfc_acceptable (rcv_nxt s) (rcv_wnd_end s) (r_seq_number r) (l_len (r_payload r)) = true) ->
  s_state s <> Listen -> s_timer s' = s_timer s ->
  s_local_seq_no s' = s_local_seq_no s -> same_rest s' s -> s_tuple s' = None ->
  ((s_state s = SynReceived /\ le_port (s_listen_endpoint s) <> 0 /\ s_state s' = Listen) \/
   s_state s' = Closed) ->
  seg_post cx s g r s'.
Proof.
  intros cx s g r s' Hinv Hwf Hpre Hc Hacc Hnl Ht Hl (Hb & Hle & Hto & Hfl) Htu Hst.
  destruct Hinv as (HJ & Hw & Hg & Htx & Htw & Htup & Hflg & Htc).
  unfold seg_post.
  assert (Hg' : ghost_seg cx s s' g = g).
  { apply ghost_seg_same. intros E. contradiction. }
  rewrite Hg'.
  assert (Hinv' : inv s' g).
  { unfold inv, J, tx_len in *. rewrite Hl, Hb, Hfl, Ht.
    destruct Hst as [(E1 & E2 & E3)|E3]; rewrite E3; isplit; auto; try discriminate; try lia;
      try congruence.
    - rewrite E1 in HJ. tauto.
    - intros Hx. destruct (Hflg Hx); congruence.
    - intros e He. destruct (Htc e He); congruence. }
  split; [|split; [exact Hinv'|split; intros E1 E2]].
  - destruct (tcp_state_eqb (s_state s') (s_state s)) eqn:Ee.
    + left. destruct (s_state s'), (s_state s); simpl in Ee; congruence.
    + right. unfold seg_allowed.
      destruct (s_state s) eqn:Es.
      * (* Closed *) destruct Hst as [(E1&_)|E3]; [discriminate E1|]. rewrite E3 in Ee. discriminate Ee.
      * contradiction.
      * (* SynSent *)
        destruct Hst as [(E1&_)|E3]; [discriminate E1|]. rewrite E3.
        do 3 right. left. isplit; auto.
        unfold ack_pre in Hpre. rewrite Hc in Hpre. unfold acks_iss.
        unfold J in HJ. rewrite Es in HJ. destruct HJ as (HJ1 & _). rewrite <- HJ1. apply Hpre. exact Es.
      * (* SynReceived *)
        assert (Hr : rst_acceptable s r) by (split; [exact Hc | apply Hacc; congruence]).
        destruct Hst as [(E1 & E2 & E3)|E3]; rewrite E3.
        -- do 6 right. left. isplit; auto.
        -- do 14 right. unfold synchronized, rst_acceptable. isplit; auto; try discriminate; apply Hacc; congruence.
      * destruct Hst as [(E1&_)|E3]; [discriminate E1|]. rewrite E3.
        do 14 right. unfold synchronized, rst_acceptable. isplit; auto; try discriminate. apply Hacc; congruence.
      * destruct Hst as [(E1&_)|E3]; [discriminate E1|]. rewrite E3.
        do 14 right. unfold synchronized, rst_acceptable. isplit; auto; try discriminate. apply Hacc; congruence.
      * destruct Hst as [(E1&_)|E3]; [discriminate E1|]. rewrite E3.
        do 14 right. unfold synchronized, rst_acceptable. isplit; auto; try discriminate. apply Hacc; congruence.
      * destruct Hst as [(E1&_)|E3]; [discriminate E1|]. rewrite E3.
        do 14 right. unfold synchronized, rst_acceptable. isplit; auto; try discriminate. apply Hacc; congruence.
      * destruct Hst as [(E1&_)|E3]; [discriminate E1|]. rewrite E3.
        do 14 right. unfold synchronized, rst_acceptable. isplit; auto; try discriminate. apply Hacc; congruence.
      * destruct Hst as [(E1&_)|E3]; [discriminate E1|]. rewrite E3.
        do 14 right. unfold synchronized, rst_acceptable. isplit; auto; try discriminate. apply Hacc; congruence.
      * destruct Hst as [(E1&_)|E3]; [discriminate E1|]. rewrite E3.
        do 14 right. unfold synchronized, rst_acceptable. isplit; auto; try discriminate. apply Hacc; congruence.
  - destruct Hst as [(_&_&E3)|E3]; rewrite E3 in E1; discriminate E1.
  - destruct Hst as [(_&_&E3)|E3]; rewrite E3 in E1; discriminate E1.
Qed.

(* --- putting the table and the rest of process together --- *)

Definition ack_len_post (s : socket) (r : tcp_repr) (al : Z) (aof : bool) : Prop :=
  ((r_control r = CRst \/ r_ack_number r = None) -> al = 0 /\ aof = false) /\
  (r_control r <> CRst -> forall a, r_ack_number r = Some a ->
     a = seq_add (s_local_seq_no s) (b2z (tcp_sent_syn s) + al + b2z aof) /\
     (aof = true -> tcp_sent_fin s = true /\ al = rb_len (s_tx_buffer s)) /\
     (aof = false -> 0 <= al)).

Definition quash_post (s : socket) (r : tcp_repr) (c : control) : Prop :=
  match c with
  | CNone => r_control r = CNone \/ r_control r = CPsh \/ r_control r = CFin
  | CPsh => False
  | CSyn => r_control r = CSyn
  | CRst => r_control r = CRst
  | CFin => r_control r = CFin /\
            seq_ge (tcp_window_start s) (r_seq_number r) = true /\
            seq_ge (tcp_window_end s) (seq_add (r_seq_number r) (l_len (r_payload r))) = true
  end.

Lemma ack_pre_generic : forall s r,
  ack_pre s r -> r_control r <> CRst ->
  s_state s <> Listen -> s_state s <> SynSent -> s_state s <> SynReceived ->
  exists a, r_ack_number r = Some a /\
            seq_lt a (seq_add (s_local_seq_no s) (b2z (tcp_sent_syn s))) = false /\
            seq_gt a (seq_add (s_local_seq_no s) (unacked_len s)) = false.
Proof.
  intros s r H Hc H1 H2 H3. unfold ack_pre in H.
  destruct (r_control r); try congruence; destruct (s_state s); try congruence; exact H.
Qed.

Lemma ack_pre_syn_states : forall s r,
  ack_pre s r -> r_control r <> CRst ->
  (s_state s = SynReceived -> r_ack_number r = Some (seq_add (s_local_seq_no s) 1)) /\
  (s_state s = SynSent -> r_control r = CSyn /\
     (r_ack_number r = None \/ r_ack_number r = Some (seq_add (s_local_seq_no s) 1))) /\
  (s_state s = Listen -> r_ack_number r = None).
Proof.
  intros s r H Hc. unfold ack_pre in H.
  destruct (r_control r); try congruence; destruct (s_state s); isplit; intros E; try discriminate E;
    try exact H; try (destruct H as [H _]; discriminate H).
Qed.

Lemma pos_or_zero : forall al, 0 <= al -> (if al >? 0 then al else 0) = al.
Proof. intros. destruct (Z.gtb_spec al 0); lia. Qed.

(* reset() *)
Lemma reset_spec : forall s,
  s_state (tcp_reset s) = Closed /\ s_local_seq_no (tcp_reset s) = 0 /\
  rb_len (s_tx_buffer (tcp_reset s)) = 0 /\ rb_cap (s_tx_buffer (tcp_reset s)) = rb_cap (s_tx_buffer s) /\
  s_syn_unacked_in_fin_wait (tcp_reset s) = false /\ s_tuple (tcp_reset s) = None /\
  s_timer (tcp_reset s) = TIdle None.
Proof. intros. unfold tcp_reset. simpl. auto 10. Qed.

Lemma seq_wf_0 : seq_wf 0.
Proof. unfold seq_wf. rewrite seq_modulus_val. lia. Qed.

Lemma inv_reset : forall s g, inv s g -> inv (tcp_reset s) g.
Proof.
  intros s g (HJ & Hw & Hg & Htx & Htw & Htu & Hfl & Htc).
  destruct (reset_spec s) as (R1 & R2 & R3 & R4 & R5 & R6 & R7).
  unfold inv, J, tx_len. rewrite R1, R2, R3, R4, R5, R6, R7.
  unfold tx_len in Htx.
  isplit; auto; try discriminate; try lia; try apply seq_wf_0; try congruence.
Qed.

(* an acceptable RST in SYN-RECEIVED returns a listener to a pristine LISTEN *)
Lemma seg_post_rst_listen : forall cx s g r,
  inv s g -> r_control r = CRst ->
  (s_state s <> Listen -> s_state s <> SynSent ->
   rfc_acceptable (rcv_nxt s) (rcv_wnd_end s) (r_seq_number r) (l_len (r_payload r)) = true) ->
  s_state s = SynReceived -> le_port (s_listen_endpoint s) <> 0 ->
  seg_post cx s g r (tcp_set_state (upd_listen_endpoint (tcp_reset s) (s_listen_endpoint s)) Listen).
Proof.
  intros cx s g r Hinv Hc Hacc Es Hp.
  set (s' := tcp_set_state (upd_listen_endpoint (tcp_reset s) (s_listen_endpoint s)) Listen).
  assert (Hst : s_state s' = Listen) by reflexivity.
  unfold seg_post. rewrite ghost_seg_same by (intros E; congruence). rewrite Hst, Es.
  split; [|split; [|split; intros E; discriminate E]].
  - right. unfold seg_allowed. do 6 right. left. unfold rst_acceptable.
    isplit; auto. apply Hacc; congruence.
  - pose proof (inv_reset s g Hinv) as (HJ & Hw & Hg & Htx & Htw & Htu & Hfl & Htc).
    destruct (reset_spec s) as (R1 & R2 & R3 & R4 & R5 & R6 & R7).
    unfold inv, J, tx_len in *. unfold s'. simpl. rewrite R2, R3, R4, R5, R7 in *.
    isplit; auto; try discriminate; try lia; try congruence.
Qed.

Ltac flag_goal :=
  let Hx := fresh "Hx" in
  intros Hx;
  repeat match goal with
         | T : s_syn_unacked_in_fin_wait ?x = ?v |- _ =>
             lazymatch v with true => fail | _ => rewrite T in Hx end
         end;
  first [ discriminate Hx
        | match goal with
          | Hf : s_syn_unacked_in_fin_wait ?y = true -> _ |- _ => destruct (Hf Hx); congruence
          end ].

Ltac tclose_goal :=
  let e := fresh "e" in let He := fresh "He" in
  intros e He;
  first
    [ left; reflexivity
    | right; reflexivity
    | match goal with
      | T : forall e0, s_timer _ = TClose e0 -> s_timer _ = TClose e0 |- _ => apply T in He
      end;
      repeat match goal with
             | D : s_timer ?a = ?b |- _ =>
                 lazymatch b with TClose _ => fail | _ => rewrite D in He end
             end;
      first
        [ discriminate He
        | match goal with
          | Hc : forall e0, s_timer _ = TClose e0 -> _ \/ _ |- _ =>
              first [ exact (Hc _ He) | destruct (Hc _ He); congruence ]
          end ] ].

Lemma seg_post_cont : forall cx s g r c al aof s3 s8,
  inv s g -> wf_ctx cx -> wf_repr r -> ack_pre s r ->
  (s_state s <> Listen -> s_state s <> SynSent ->
   rfc_acceptable (rcv_nxt s) (rcv_wnd_end s) (r_seq_number r) (l_len (r_payload r)) = true) ->
  ack_len_post s r al aof -> quash_post s r c ->
  trans_rel cx s s3 c (is_some (r_ack_number r)) aof -> same_rest s3 s -> c <> CRst ->
  tail_ok r al s3 s8 ->
  seg_post cx s g r s8.
Proof.
  intros cx s g r c al aof s3 s8 Hinv Hcx Hwf Hpre Hacc [Hal0 Hal] Hq Htr (Sb & Sle & Sto & Sfl) Hnr
         (T1 & T2 & T3 & T4 & T5 & T6 & T7 & T8 & T9).
  pose proof Hinv as (HJ & Hw & Hg & Htx & Htw & Htup & Hflg & Htc).
  destruct Hwf as (Hws & Hwa & Hlen).
  assert (Hrc : r_control r <> CRst).
  { intro E. destruct c; simpl in Hq; try congruence; intuition congruence. }
  specialize (Hal Hrc).
  unfold tx_len in *. rewrite Sb in *.
  destruct Htr as [(E1 & E2 & E3 & E4 & E5 & E6) | (E4 & [(E5 & Hcases) | Hlast])].
  - (* LISTEN, SYN *)
    destruct E6 as [k E6]. subst c. simpl in Hq.
    assert (Han : r_ack_number r = None).
    { unfold ack_pre in Hpre. rewrite Hq, E1 in Hpre. exact Hpre. }
    destruct (Hal0 (or_intror Han)) as [-> ->]. rewrite Han in T3, T4.
    unfold seg_post, ghost_seg. rewrite T1, E1, E3. simpl.
    split; [right; left; auto|].
    split; [|split; intros; discriminate].
    unfold inv, J, tx_len. rewrite T1, E3, T3, E4, T5, T6, T2. simpl.
    unfold J in HJ. rewrite E1 in HJ. unfold tx_len in HJ.
    isplit; auto; try flag_goal; try tclose_goal; try lia; try discriminate.

  - (* table arms that keep the tuple *)
    destruct Hcases as [Hc|Hc].
    + (* no state change *)
      destruct Hc as (C1 & C2 & C3 & C4 & C5 & C6).
      destruct (ack_pre_generic s r Hpre Hrc C3 C4 C5) as (a & Ha & Hlo & Hhi).
      destruct (Hal a Ha) as (Haeq & Haof & Hal_nn).
      assert (Hf : aof = false).
      { destruct aof; [|reflexivity]. destruct (Haof eq_refl) as [Hsf _]. destruct (C6 eq_refl) as (D1 & D2 & D3).
        unfold tcp_sent_fin in Hsf. destruct (s_state s); congruence. }
      subst aof. specialize (Hal_nn eq_refl). rewrite (pos_or_zero al Hal_nn) in T5.
      rewrite Ha in T3, T4. simpl in Haeq.
      assert (Hgs : ghost_seg cx s s8 g = g) by (apply ghost_seg_same; intros E; congruence).
      assert (Hzero : rb_len (s_tx_buffer s) = 0 -> al = 0).
      { intros E. destruct (Z.gtb_spec al 0); [|lia]. specialize (T7 eq_refl). lia. }
      unfold seg_post. rewrite Hgs, T1, C1.
      split; [left; reflexivity|].
      assert (Htimer : forall e, s_timer s = TClose e -> rb_len (s_tx_buffer s8) = 0 -> s_timer s8 = TClose e).
      { intros e He Hz. apply T8; congruence. }
      assert (HJ8 : J s8 g /\ (s_state s = TimeWait -> rb_len (s_tx_buffer s8) = 0)).
      { unfold J, tx_len in *. rewrite T1, C1, T3, T4, T5.
        unfold tcp_sent_syn in Haeq.
        destruct (s_state s) eqn:Es; try congruence; simpl in Haeq; auto;
          try (split; [exact I | intros E; discriminate E]);
          try (split; [|intros E; discriminate E]; rewrite Haeq, <- HJ, seq_add_add; f_equal; lia).
        - (* FinWait1 *)
          split; [|intros E; discriminate E].
          destruct (s_syn_unacked_in_fin_wait s) eqn:Efl; simpl in Haeq; simpl in HJ.
          + destruct HJ as (J1 & J2 & J3). rewrite Haeq, own_fin_seq_0, seq_add_add, J1 by assumption.
            f_equal; lia.
          + rewrite Haeq, <- HJ, seq_add_add; f_equal; lia.
        - (* FinWait2 *)
          destruct HJ as (J1 & J2). rewrite (Hzero J1) in *.
          split; [|intros E; discriminate E]. split; [lia|].
          rewrite Haeq. simpl. replace (0 + 0 + 0) with 0 by lia. rewrite seq_add_0; assumption.
        - (* TimeWait *)
          destruct HJ as (J1 & J2). rewrite (Hzero J1) in *.
          split; [|intros _; lia]. split; [lia|].
          rewrite Haeq. simpl. replace (0 + 0 + 0) with 0 by lia. rewrite seq_add_0; assumption. }
      destruct HJ8 as [HJ8 Htw0].
      split.
      * unfold inv. isplit; auto.
        -- rewrite T3. apply Hwa. assumption.
        -- unfold tx_len. rewrite T5. destruct (Z.gtb_spec al 0); [specialize (T7 eq_refl)|]; lia.
        -- unfold tx_len. rewrite T5, T6. destruct (Z.gtb_spec al 0); [specialize (T7 eq_refl)|]; lia.
        -- rewrite T1, C1. intros E. destruct (Htw E) as [e He]. exists e. apply Htimer; auto.
        -- rewrite T1, C1, T2, E5. assumption.
        -- rewrite T4. intros Hx; discriminate Hx.
        -- rewrite T1, C1. intros e He. apply T9 in He. rewrite C2 in He. exact (Htc e He).
      * split; intros E E'; [congruence|]. left.
        destruct (Htw E') as [e He]. rewrite He. apply Htimer; auto.
    + (* state-changing arms *)
      assert (Hgs : ghost_seg cx s s8 g = g).
      { apply ghost_seg_same. intros E. rewrite E in Hc. intuition discriminate. }
      assert (Hzero : rb_len (s_tx_buffer s) = 0 -> 0 <= al -> al = 0).
      { intros E E'. destruct (Z.gtb_spec al 0); [|lia]. specialize (T7 eq_refl). lia. }
      unfold seg_post. rewrite Hgs, T1.
      destruct (ack_pre_syn_states s r Hpre Hrc) as (PSR & PSS & _).
      unfold J, tx_len in HJ.
      destruct Hc as [(D1 & D2 & D3 & D4) | [(D1 & D2 & D3 & D4) | [(D1 & D2 & D2' & D3 & D4) |
                     [(D1 & D2 & D2' & D3 & D4) | [(D1 & D2 & D3 & D4) | [(D1 & D2 & D2' & D3 & D4) |
                     [(D1 & D2 & D2' & D3 & D4) | [(D1 & D2 & D2' & D3 & D4) | [(D1 & D2 & D3 & D4) |
                      (D1 & D2 & D2' & D3 & D4)]]]]]]]]];
        rewrite D1 in HJ; rewrite D3; rewrite D1.
      * (* SYN-RECEIVED -> ESTABLISHED *)
        pose proof (PSR D1) as Ha. destruct (Hal _ Ha) as (Haeq & Haof & Hnn).
        assert (Hf : aof = false).
        { destruct aof; [|reflexivity]. destruct (Haof eq_refl) as [Hsf _].
          unfold tcp_sent_fin in Hsf. rewrite D1 in Hsf. discriminate Hsf. }
        subst aof. destruct HJ as (J1 & J2 & J3). specialize (Hnn eq_refl).
        pose proof (Hzero J2 Hnn) as Hal0'. subst al.
        rewrite Ha in T3, T4. simpl in T5. replace (rb_len (s_tx_buffer s) - 0) with 0 in T5 by lia.
        subst c. simpl in Hq.
        split; [right; do 4 right; left; unfold acks_iss; rewrite <- J1; isplit; auto; try flag_goal; try tclose_goal; intuition congruence|].
        split; [|split; intros E; discriminate E].
        unfold inv, J, tx_len. rewrite T1, D3, T3, T5, T6, T2, E5.
        isplit; auto; try flag_goal; try tclose_goal; try lia; try discriminate; try apply seq_add_wf;
          try (intros _ _; apply Htup; congruence).
        rewrite seq_add_add, own_fin_seq_0, J1 by assumption. reflexivity.
      * (* SYN-RECEIVED -> CLOSE-WAIT *)
        pose proof (PSR D1) as Ha. destruct (Hal _ Ha) as (Haeq & Haof & Hnn).
        assert (Hf : aof = false).
        { destruct aof; [|reflexivity]. destruct (Haof eq_refl) as [Hsf _].
          unfold tcp_sent_fin in Hsf. rewrite D1 in Hsf. discriminate Hsf. }
        subst aof. destruct HJ as (J1 & J2 & J3). specialize (Hnn eq_refl).
        pose proof (Hzero J2 Hnn) as Hal0'. subst al.
        rewrite Ha in T3, T4. simpl in T5. replace (rb_len (s_tx_buffer s) - 0) with 0 in T5 by lia.
        subst c. simpl in Hq. destruct Hq as (Q1 & Q2 & Q3).
        split; [right; do 5 right; left; unfold acks_iss, fin_in_order, rcv_nxt, rcv_wnd_end; rewrite <- J1;
                isplit; auto; try flag_goal; try tclose_goal; apply Hacc; congruence|].
        split; [|split; intros E; discriminate E].
        unfold inv, J, tx_len. rewrite T1, D3, T3, T5, T6, T2, E5.
        isplit; auto; try flag_goal; try tclose_goal; try lia; try discriminate; try apply seq_add_wf;
          try (intros _ _; apply Htup; congruence).
        rewrite seq_add_add, own_fin_seq_0, J1 by assumption. reflexivity.
      * (* SYN-SENT -> ESTABLISHED *)
        destruct (PSS D1) as [Hsyn [Ha|Ha]]; [rewrite Ha in D2'; discriminate D2'|].
        destruct (Hal _ Ha) as (Haeq & Haof & Hnn).
        assert (Hf : aof = false).
        { destruct aof; [|reflexivity]. destruct (Haof eq_refl) as [Hsf _].
          unfold tcp_sent_fin in Hsf. rewrite D1 in Hsf. discriminate Hsf. }
        subst aof. destruct HJ as (J1 & J2 & J3). specialize (Hnn eq_refl).
        pose proof (Hzero J2 Hnn) as Hal0'. subst al.
        rewrite Ha in T3, T4. simpl in T5. replace (rb_len (s_tx_buffer s) - 0) with 0 in T5 by lia.
        split; [right; right; left; unfold acks_iss; rewrite <- J1; isplit; auto|].
        split; [|split; intros E; discriminate E].
        unfold inv, J, tx_len. rewrite T1, D3, T3, T5, T6, T2, E5.
        isplit; auto; try flag_goal; try tclose_goal; try lia; try discriminate; try apply seq_add_wf;
          try (intros _ _; apply Htup; congruence).
        rewrite seq_add_add, own_fin_seq_0, J1 by assumption. reflexivity.
      * (* SYN-SENT -> SYN-RECEIVED (simultaneous open) *)
        destruct (PSS D1) as [Hsyn [Ha|Ha]]; [|rewrite Ha in D2'; discriminate D2'].
        destruct (Hal0 (or_intror Ha)) as [-> ->]. rewrite Ha in T3, T4.
        destruct HJ as (J1 & J2 & J3). simpl in T5.
        split; [right; right; right; left; isplit; auto|].
        split; [|split; intros E; discriminate E].
        unfold inv, J, tx_len. rewrite T1, D3, T3, E4, T5, T6, T2, E5.
        isplit; auto; try flag_goal; try tclose_goal; try lia; try discriminate; try (intros _ _; apply Htup; congruence).
      * (* ESTABLISHED -> CLOSE-WAIT *)
        destruct (ack_pre_generic s r Hpre Hrc) as (a & Ha & Hlo & Hhi); try (rewrite D1; discriminate).
        destruct (Hal a Ha) as (Haeq & Haof & Hnn).
        unfold tcp_sent_syn in Haeq. unfold tcp_sent_fin in Haof. rewrite D1 in Haeq, Haof.
        assert (Hf : aof = false) by (destruct aof; [destruct (Haof eq_refl) as [Hsf _]; discriminate Hsf|reflexivity]).
        subst aof. specialize (Hnn eq_refl). rewrite (pos_or_zero al Hnn) in T5. simpl in Haeq.
        rewrite Ha in T3, T4. subst c. simpl in Hq. destruct Hq as (Q1 & Q2 & Q3).
        split; [right; do 7 right; left; unfold fin_in_order, rcv_nxt, rcv_wnd_end; isplit; auto; try flag_goal; try tclose_goal; apply Hacc; congruence|].
        split; [|split; intros E; discriminate E].
        unfold inv, J, tx_len. rewrite T1, D3, T3, T5, T6, T2, E5.
        isplit; auto; try flag_goal; try tclose_goal; try discriminate; try (intros _ _; apply Htup; congruence);
          try (destruct (Z.gtb_spec al 0); [specialize (T7 eq_refl)|]; lia);
          try (apply Hwa; assumption).
        rewrite Haeq, <- HJ, seq_add_add. f_equal; lia.
      * (* FIN-WAIT-1 -> FIN-WAIT-2 *)
        destruct (ack_pre_generic s r Hpre Hrc) as (a & Ha & Hlo & Hhi); try (rewrite D1; discriminate).
        destruct (Hal a Ha) as (Haeq & Haof & Hnn). subst aof.
        destruct (Haof eq_refl) as [Hsf Hal'].
        unfold tcp_sent_syn in Haeq. unfold tcp_sent_fin in Hsf. rewrite D1 in Haeq, Hsf.
        destruct (s_syn_unacked_in_fin_wait s) eqn:Efl; [discriminate Hsf|]. simpl in Haeq.
        subst al. rewrite (pos_or_zero _ (proj1 Htx)) in T5. rewrite Ha in T3, T4.
        assert (Hfin : a = seq_add (own_fin_seq g) 1).
        { rewrite Haeq, <- HJ, seq_add_add. f_equal; lia. }
        split; [right; do 8 right; left; unfold acks_own_fin; isplit; auto; try flag_goal; try tclose_goal; congruence|].
        split; [|split; intros E; discriminate E].
        unfold inv, J, tx_len. rewrite T1, D3, T3, T5, T6, T2, E5.
        isplit; auto; try flag_goal; try tclose_goal; try lia; try discriminate; try (intros _ _; apply Htup; congruence);
          try (apply Hwa; assumption).
      * (* FIN-WAIT-1 -> CLOSING *)
        destruct (ack_pre_generic s r Hpre Hrc) as (a & Ha & Hlo & Hhi); try (rewrite D1; discriminate).
        destruct (Hal a Ha) as (Haeq & Haof & Hnn). subst aof.
        unfold tcp_sent_syn in Haeq. rewrite D1 in Haeq.
        specialize (Hnn eq_refl). rewrite (pos_or_zero al Hnn) in T5. rewrite Ha in T3, T4.
        subst c. simpl in Hq. destruct Hq as (Q1 & Q2 & Q3).
        split; [right; do 9 right; left; unfold fin_in_order, rcv_nxt, rcv_wnd_end; isplit; auto; try flag_goal; try tclose_goal; apply Hacc; congruence|].
        split; [|split; intros E; discriminate E].
        unfold inv, J, tx_len. rewrite T1, D3, T3, T5, T6, T2, E5.
        isplit; auto; try flag_goal; try tclose_goal; try discriminate; try (intros _ _; apply Htup; congruence);
          try (destruct (Z.gtb_spec al 0); [specialize (T7 eq_refl)|]; lia);
          try (apply Hwa; assumption).
        destruct (s_syn_unacked_in_fin_wait s) eqn:Efl; simpl in Haeq.
        -- destruct HJ as (J1 & J2 & J3). rewrite Haeq, own_fin_seq_0, seq_add_add, J1 by assumption.
           f_equal; lia.
        -- rewrite Haeq, <- HJ, seq_add_add. f_equal; lia.
      * (* FIN-WAIT-1 -> TIME-WAIT *)
        destruct (ack_pre_generic s r Hpre Hrc) as (a & Ha & Hlo & Hhi); try (rewrite D1; discriminate).
        destruct (Hal a Ha) as (Haeq & Haof & Hnn). subst aof.
        destruct (Haof eq_refl) as [Hsf Hal'].
        unfold tcp_sent_syn in Haeq. unfold tcp_sent_fin in Hsf. rewrite D1 in Haeq, Hsf.
        destruct (s_syn_unacked_in_fin_wait s) eqn:Efl; [discriminate Hsf|]. simpl in Haeq.
        subst al. rewrite (pos_or_zero _ (proj1 Htx)) in T5. rewrite Ha in T3, T4.
        assert (Hfin : a = seq_add (own_fin_seq g) 1).
        { rewrite Haeq, <- HJ, seq_add_add. f_equal; lia. }
        assert (Htm : s_timer s8 = TClose (cx_now cx + tcp_CLOSE_DELAY)) by (apply T8; [assumption|lia]).
        subst c. simpl in Hq. destruct Hq as (Q1 & Q2 & Q3).
        split; [right; do 10 right; left; unfold acks_own_fin, fin_in_order, rcv_nxt, rcv_wnd_end;
                isplit; auto; try flag_goal; try tclose_goal; try congruence; apply Hacc; congruence|].
        split; [|split; intros E E'; [exact Htm | discriminate E']].
        unfold inv, J, tx_len. rewrite T1, D3, T3, T5, T6, T2, E5.
        isplit; auto; try flag_goal; try tclose_goal; try lia; try discriminate; try (intros _ _; apply Htup; congruence); eauto;
          try (apply Hwa; assumption).
      * (* FIN-WAIT-2 -> TIME-WAIT *)
        destruct (ack_pre_generic s r Hpre Hrc) as (a & Ha & Hlo & Hhi); try (rewrite D1; discriminate).
        destruct (Hal a Ha) as (Haeq & Haof & Hnn).
        unfold tcp_sent_syn in Haeq. unfold tcp_sent_fin in Haof. rewrite D1 in Haeq, Haof.
        assert (Hf : aof = false) by (destruct aof; [destruct (Haof eq_refl) as [Hsf _]; discriminate Hsf|reflexivity]).
        subst aof. specialize (Hnn eq_refl). destruct HJ as (J1 & J2).
        pose proof (Hzero J1 Hnn) as Hal0'. subst al. simpl in Haeq. simpl in T5.
        replace (0 + 0 + 0) with 0 in Haeq by lia. rewrite seq_add_0 in Haeq by assumption.
        rewrite Ha in T3, T4.
        assert (Htm : s_timer s8 = TClose (cx_now cx + tcp_CLOSE_DELAY)) by (apply T8; [assumption|lia]).
        subst c. simpl in Hq. destruct Hq as (Q1 & Q2 & Q3).
        split; [right; do 11 right; left; unfold fin_in_order, rcv_nxt, rcv_wnd_end;
                isplit; auto; try flag_goal; try tclose_goal; apply Hacc; congruence|].
        split; [|split; intros E E'; [exact Htm | congruence]].
        unfold inv, J, tx_len. rewrite T1, D3, T3, T5, T6, T2, E5.
        isplit; auto; try flag_goal; try tclose_goal; try lia; try discriminate; try (intros _ _; apply Htup; congruence); eauto; try congruence.
      * (* CLOSING -> TIME-WAIT *)
        destruct (ack_pre_generic s r Hpre Hrc) as (a & Ha & Hlo & Hhi); try (rewrite D1; discriminate).
        destruct (Hal a Ha) as (Haeq & Haof & Hnn). subst aof.
        destruct (Haof eq_refl) as [Hsf Hal'].
        unfold tcp_sent_syn in Haeq. rewrite D1 in Haeq. simpl in Haeq.
        subst al. rewrite (pos_or_zero _ (proj1 Htx)) in T5. rewrite Ha in T3, T4.
        assert (Hfin : a = seq_add (own_fin_seq g) 1).
        { rewrite Haeq, <- HJ, seq_add_add. f_equal; lia. }
        assert (Htm : s_timer s8 = TClose (cx_now cx + tcp_CLOSE_DELAY)) by (apply T8; [assumption|lia]).
        split; [right; do 12 right; left; unfold acks_own_fin; isplit; auto; try flag_goal; try tclose_goal; congruence|].
        split; [|split; intros E E'; [exact Htm | discriminate E']].
        unfold inv, J, tx_len. rewrite T1, D3, T3, T5, T6, T2, E5.
        isplit; auto; try flag_goal; try tclose_goal; try lia; try discriminate; try (intros _ _; apply Htup; congruence); eauto;
          try (apply Hwa; assumption).
  - (* LAST-ACK -> CLOSED *)
    destruct Hlast as (D1 & D2 & D2' & D3 & D4 & D5).
    assert (Hgs : ghost_seg cx s s8 g = g) by (apply ghost_seg_same; intros E; congruence).
    unfold seg_post. rewrite Hgs, T1, D3, D1.
    destruct (ack_pre_generic s r Hpre Hrc) as (a & Ha & Hlo & Hhi); try (rewrite D1; discriminate).
    destruct (Hal a Ha) as (Haeq & Haof & Hnn). subst aof.
    destruct (Haof eq_refl) as [Hsf Hal'].
    unfold tcp_sent_syn in Haeq. rewrite D1 in Haeq. simpl in Haeq.
    unfold J, tx_len in HJ. rewrite D1 in HJ.
    subst al. rewrite (pos_or_zero _ (proj1 Htx)) in T5. rewrite Ha in T3, T4.
    assert (Hfin : a = seq_add (own_fin_seq g) 1).
    { rewrite Haeq, <- HJ, seq_add_add. f_equal; lia. }
    split; [right; do 13 right; left; unfold acks_own_fin; isplit; auto; try flag_goal; try tclose_goal; congruence|].
    split; [|split; intros E; discriminate E].
    unfold inv, J, tx_len. rewrite T1, D3, T3, T5, T6.
    isplit; auto; try flag_goal; try tclose_goal; try lia; try discriminate; try congruence; try (apply Hwa; assumption).
Qed.

Lemma tail_compose : forall cx s3 s4 s5 s6 s7 s8 ip r al iwu aall t5 t6 t7 t8 payload off rep,
  tcp_process_update_remote cx s3 r al = Ok (s4, iwu) ->
  tcp_process_dup_ack cx s4 r al iwu = Ok (s5, t5) ->
  tcp_process_timers cx
    (match r_timestamp r with Some (tsval, _) => upd_last_remote_tsval s5 tsval | None => s5 end)
    al aall = (s6, t6) ->
  tcp_process_zwp cx s6 al = (s7, t7) ->
  tcp_process_payload cx s7 ip r payload off = Ok (s8, rep, t8) ->
  tail_ok r al s3 s8.
Proof.
  intros cx s3 s4 s5 s6 s7 s8 ip r al iwu aall t5 t6 t7 t8 payload off rep E5 E6 E7 E8 E9.
  apply update_remote_spec in E5. destruct E5 as (A1 & A2 & A3 & A4 & A5 & A6 & A7 & A8 & A9 & A10).
  apply dup_ack_spec in E6. destruct E6 as (B1 & B2 & B3 & B4 & B5 & B6 & B7 & B8).
  set (s5' := match r_timestamp r with Some (tsval, _) => upd_last_remote_tsval s5 tsval | None => s5 end) in *.
  assert (C : only_timer s5' s5 /\ s_timer s5' = s_timer s5).
  { unfold s5'. destruct (r_timestamp r) as [[tv te]|]; [|split; [apply only_timer_refl|reflexivity]].
    split; [unfold only_timer, same_conn; simpl; auto 12 | reflexivity]. }
  destruct C as [C1 C2].
  apply timers_spec in E7. destruct E7 as (D1 & D2 & D3).
  apply zwp_spec in E8. destruct E8 as (F1 & F2 & F3).
  apply payload_spec in E9. destruct E9 as [G1 G2].
  pose proof (only_timer_trans _ _ _ G1 (only_timer_trans _ _ _ F1 (only_timer_trans _ _ _ D1 C1))) as K.
  destruct K as ((K1 & K2 & K3 & K4 & K5 & K6 & K7 & K8) & _ & _).
  destruct F1 as ((_ & _ & F1b & _) & _ & _). destruct G1 as ((_ & _ & G1b & _) & _ & _).
  destruct D1 as ((_ & _ & D1b & _) & _ & _). destruct C1 as ((_ & _ & C1b & _) & _ & _).
  unfold tail_ok, tx_len. rewrite K1, K2, K3, K4, K5, B1, B2, B5, B6, B7, A1, A3, A4, A7, A8, A9.
  isplit; auto.
  - intros e He Hz.
    assert (Ht5 : s_timer s5 = TClose e).
    { destruct B8 as [B8|[_ B8]]; [congruence|].
      exfalso. unfold rb_is_empty in B8. rewrite A8 in B8.
      destruct (Z.eqb_spec (rb_len (s_tx_buffer s3) - (if al >? 0 then al else 0)) 0); congruence. }
    rewrite G2. apply F2.
    + apply D2. congruence.
    + rewrite D1b, C1b, B5, A8. exact Hz.
  - intros e He. rewrite G2 in He. apply F3 in He. apply D3 in He. rewrite C2 in He.
    destruct B8 as [B8|[B8 _]]; [congruence | rewrite B8 in He; discriminate He].
Qed.

(* the trimmed segment is processed against [s] with only local_rx_last_seq touched *)
Lemma rx_last_seq_irrelevant : forall cx s g r v s2 s',
  (s2 = s \/ s2 = upd_local_rx_last_seq s v) ->
  (inv s g -> inv s2 g) /\ (ack_pre s r -> ack_pre s2 r) /\
  rcv_nxt s2 = rcv_nxt s /\ rcv_wnd_end s2 = rcv_wnd_end s /\ s_state s2 = s_state s /\
  (seg_post cx s2 g r s' -> seg_post cx s g r s').
Proof.
  intros cx s g r v s2 s' [->| ->]; [isplit; auto|].
  isplit; auto.
Qed.

Theorem process_step : forall cx s g ip r s' rep tags,
  inv s g -> wf_ctx cx -> wf_repr r ->
  tcp_process cx s ip r = Ok (s', rep, tags) -> seg_post cx s g r s'.
Proof.
  intros cx s g ip r s' rep tags Hinv Hcx Hwf H. unfold tcp_process in H.
  destruct (tcp_accepts s ip r); [|discriminate H]. simpl in H. unfold obind in H.
  destruct (tcp_process_ack_check cx s ip r) as [p1| |] eqn:E1; try discriminate H.
  destruct p1 as [t1 u | t1 s1 rep1].
  2:{ inv H. apply ack_check_ret in E1. apply frame_eq_same_conn in E1. destruct E1 as [E1 E1'].
      apply seg_post_unchanged; auto. left; exact E1'. }
  apply ack_check_cont in E1.
  destruct (tcp_process_window cx s ip r) as [p2| |] eqn:E2; try discriminate H.
  destruct p2 as [t2 [[s2 payload] off] | t2 s2 rep2].
  2:{ inv H. apply window_ret in E2. destruct E2 as [E2 E2']. apply seg_post_unchanged; auto. }
  apply window_cont in E2; [|exact Hwf]. destruct E2 as [Hs2 Hacc].
  destruct (rx_last_seq_irrelevant cx s g r (Some (r_seq_number r)) s2 s' Hs2)
    as (K1 & K2 & K3 & K4 & K5 & K6).
  apply K6. clear K6. specialize (K1 Hinv). specialize (K2 E1).
  rewrite <- K3, <- K4, <- K5 in Hacc. clear Hs2 K3 K4 K5 Hinv E1.
  destruct (tcp_process_ack_len s2 r) as [[[al aof] aall]| |] eqn:E3; try discriminate H.
  pose proof (ack_len_spec _ _ _ _ _ Hwf K2 E3) as Hal.
  pose proof (quash_spec s2 r _ eq_refl) as Hq.
  destruct (tcp_process_transition cx s2 ip r (tcp_process_quash s2 r) al aof) as [p3| |] eqn:E4;
    try discriminate H.
  destruct p3 as [t3 s3 | t3 s3 rep3].
  - destruct (tcp_process_update_remote cx s3 r al) as [[s4 iwu]| |] eqn:E5; try discriminate H.
    destruct (tcp_process_dup_ack cx s4 r al iwu) as [[s5 t5]| |] eqn:E6; try discriminate H.
    destruct (tcp_process_timers cx _ al aall) as [s6 t6] eqn:E7.
    destruct (tcp_process_zwp cx s6 al) as [s7 t7] eqn:E8.
    destruct (tcp_process_payload cx s7 ip r payload off) as [[[s8 rep8] t8]| |] eqn:E9; try discriminate H.
    inv H.
    apply transition_cont in E4. destruct E4 as (Htr & Hsr & Hnr).
    eapply seg_post_cont; eauto.
    eapply tail_compose; eauto.
  - inv H. apply transition_ret in E4.
    destruct E4 as [(F1 & F2 & F3) | [(F1 & F2 & F3 & F4 & F5 & F6 & F7) | (F1 & F2 & F3 & F4)]].
    + apply seg_post_unchanged; auto. left; exact F2.
    + eapply seg_post_rst; eauto.
      rewrite F1 in Hq. simpl in Hq. exact Hq.
    + rewrite F1 in Hq. simpl in Hq. rewrite F4. eapply seg_post_rst_listen; eauto.
Qed.

(* ================================================================== *)
(** * 4b. API calls, interface filter, dispatch                        *)
(* ================================================================== *)

Lemma l_len_acc_ge : forall l acc, acc <= l_len_acc l acc.
Proof. induction l; intros; simpl; [lia | specialize (IHl (acc + 1)); lia]. Qed.
Lemma l_len_nonneg : forall l, 0 <= l_len l.
Proof. intros. unfold l_len. apply l_len_acc_ge. Qed.

Lemma rb_get_idx_range : forall r i, 0 < rb_cap r -> 0 <= rb_get_idx r i < rb_cap r.
Proof.
  intros r i H. unfold rb_get_idx. destruct (Z.gtb_spec (rb_cap r) 0); [|lia].
  apply Z.mod_pos_bound. lia.
Qed.

Lemma rb_enqueue_pass_len : forall r data r' n rest,
  0 <= rb_len r <= rb_cap r -> rb_enqueue_pass r data = (r', n, rest) ->
  rb_len r' = rb_len r + n /\ rb_cap r' = rb_cap r /\ 0 <= n /\ 0 <= rb_len r' <= rb_cap r'.
Proof.
  intros r data r' n rest Hr H. unfold rb_enqueue_pass in H.
  set (r0 := if rb_len r =? 0 then mkRing (rb_cap r) (rb_store r) 0 (rb_len r) else r) in *.
  assert (H0 : rb_len r0 = rb_len r /\ rb_cap r0 = rb_cap r).
  { unfold r0. destruct (rb_len r =? 0); simpl; auto. }
  destruct H0 as [H1 H2]. inv H. simpl. rewrite H1, H2.
  pose proof (l_len_nonneg data) as Hd.
  unfold rb_contiguous_window, rb_window. rewrite H1, H2.
  assert (Hidx : 0 <= rb_cap r - rb_get_idx r0 (rb_len r)).
  { destruct (Z.eq_dec (rb_cap r) 0) as [E|E].
    - unfold rb_get_idx. rewrite H2, E. simpl. lia.
    - pose proof (rb_get_idx_range r0 (rb_len r)). rewrite H2 in H. lia. }
  lia.
Qed.

Lemma rb_enqueue_slice_len : forall r data r' n,
  0 <= rb_len r <= rb_cap r -> rb_enqueue_slice r data = (r', n) ->
  rb_len r' = rb_len r + n /\ rb_cap r' = rb_cap r /\ 0 <= rb_len r' <= rb_cap r'.
Proof.
  intros r data r' n Hr H. unfold rb_enqueue_slice in H.
  destruct (rb_enqueue_pass r data) as [[r1 n1] rest1] eqn:E1.
  destruct (rb_enqueue_pass r1 rest1) as [[r2 n2] rest2] eqn:E2. inv H.
  apply rb_enqueue_pass_len in E1; [|assumption]. destruct E1 as (A1 & A2 & A3 & A4).
  apply rb_enqueue_pass_len in E2; [|assumption]. destruct E2 as (B1 & B2 & B3 & B4).
  lia.
Qed.

(* invariant transported along a change that leaves the connection fields alone *)
Lemma inv_frame : forall s s' g,
  inv s g ->
  s_state s' = s_state s -> s_local_seq_no s' = s_local_seq_no s ->
  s_tx_buffer s' = s_tx_buffer s ->
  s_syn_unacked_in_fin_wait s' = s_syn_unacked_in_fin_wait s -> s_tuple s' = s_tuple s ->
  (s_timer s' = s_timer s \/
   (s_state s <> TimeWait /\ forall e, s_timer s' <> TClose e)) ->
  inv s' g.
Proof.
  intros s s' g (HJ & Hw & Hg & Htx & Htw & Htu & Hfl & Htc) H1 H2 H3 H4 H5 Ht.
  unfold inv, J, tx_len in *. rewrite H1, H2, H3, H4, H5. isplit; auto; try lia.
  - intros E. destruct Ht as [Ht|[Ht _]]; [rewrite Ht; auto | contradiction].
  - intros e He. destruct Ht as [Ht|[_ Ht]]; [rewrite Ht in He; eauto | exfalso; eapply Ht; eauto].
Qed.

(* --- dispatch --- *)

Definition tclose_iff (s' s : socket) : Prop :=
  forall e, s_timer s' = TClose e <-> s_timer s = TClose e.

Lemma tclose_iff_refl : forall s, tclose_iff s s.
Proof. unfold tclose_iff. tauto. Qed.
Lemma tclose_iff_trans : forall a b c, tclose_iff a b -> tclose_iff b c -> tclose_iff a c.
Proof. unfold tclose_iff. intros a b c H1 H2 e. rewrite H1. apply H2. Qed.

(* fields no part of dispatch touches *)
Definition disp_frame (s' s : socket) : Prop :=
  s_local_seq_no s' = s_local_seq_no s /\ s_tx_buffer s' = s_tx_buffer s /\
  s_syn_unacked_in_fin_wait s' = s_syn_unacked_in_fin_wait s.

Lemma dispatch_timers_spec : forall cx s s1 tg,
  tcp_dispatch_timers cx s = Ok (s1, tg) ->
  disp_frame s1 s /\ s_tuple s1 = s_tuple s /\ tclose_iff s1 s /\
  (s_state s1 = s_state s \/ (s_state s1 = Closed /\ user_timeout_expired cx s)).
Proof.
  intros cx s s1 tg H. unfold tcp_dispatch_timers in H.
  set (s0 := if is_some (s_remote_last_ts s) then s else upd_remote_last_ts s (Some (cx_now cx))) in *.
  assert (H0 : disp_frame s0 s /\ s_tuple s0 = s_tuple s /\ s_timer s0 = s_timer s /\ s_state s0 = s_state s /\
               s_timeout s0 = s_timeout s /\
               s_remote_last_ts s0 = match s_remote_last_ts s with Some t => Some t | None => Some (cx_now cx) end).
  { unfold s0, disp_frame. destruct (s_remote_last_ts s) eqn:E; simpl; rewrite ?E; auto 10. }
  destruct H0 as ((A1 & A2 & A3) & A4 & A5 & A6 & A7 & A8).
  destruct (tcp_timed_out s0 (cx_now cx)) eqn:Eto.
  - inv H. unfold disp_frame, tclose_iff. simpl. rewrite A1, A2, A3, A4, A5.
    isplit; auto; try tauto. right. split; [reflexivity|].
    unfold tcp_timed_out in Eto. rewrite A7, A8 in Eto. unfold user_timeout_expired.
    destruct (s_timeout s) as [to|]; [|destruct (s_remote_last_ts s); discriminate Eto].
    exists to. split; [reflexivity|]. destruct (s_remote_last_ts s); lia.
  - destruct (timer_should_retransmit (s_timer s0) (cx_now cx)) eqn:Er.
    + unfold obind in H. destruct (tcp_flight_size s0); try discriminate H.
      assert (Hnc : forall e, s_timer s <> TClose e).
      { intros e He. rewrite <- A5 in He. rewrite He in Er. discriminate Er. }
      destruct (s_timer s0) eqn:Et0; simpl in Er; try discriminate Er;
        match type of H with context [if ?c then _ else _] => destruct c end;
        try match type of H with context [if ?c then _ else _] => destruct c end;
        inv H; unfold disp_frame, tclose_iff; simpl; rewrite ?A1, ?A2, ?A3, ?A4, ?A6;
        (isplit; auto; intros e; split; intros He; try discriminate He; exfalso; eapply Hnc; eauto).
    + inv H. unfold disp_frame, tclose_iff. rewrite A1, A2, A3, A4, A5, A6. isplit; auto; tauto.
Qed.

Lemma dispatch_decide_spec : forall cx s s2 go tg,
  tcp_dispatch_decide cx s = Ok (s2, go, tg) ->
  s2 = s \/
  (go = false /\ s2 = upd_tuple (tcp_set_state s Closed) None /\
   timer_should_close (s_timer s) (cx_now cx) = true /\ s_state s <> Closed).
Proof.
  intros cx s s2 go tg H. unfold tcp_dispatch_decide in H. unfold obind in H.
  destruct (tcp_seq_to_transmit cx s) as [b| |]; try discriminate H.
  destruct b; [inv H; auto|].
  destruct (tcp_ack_to_transmit s && tcp_delayed_ack_expired s (cx_now cx)); [inv H; auto|].
  destruct (tcp_window_to_update s) as [b| |]; try discriminate H.
  destruct b; [inv H; auto|].
  destruct (tcp_state_eqb (s_state s) Closed) eqn:Ec; [inv H; auto|].
  destruct (timer_should_keep_alive (s_timer s) (cx_now cx)); [inv H; auto|].
  destruct (timer_should_zero_window_probe (s_timer s) (cx_now cx)); [inv H; auto|].
  destruct (timer_should_close (s_timer s) (cx_now cx)) eqn:Es; inv H; auto.
  right. isplit; auto. intros E. rewrite E in Ec. discriminate Ec.
Qed.

Lemma dispatch_build_data_spec : forall cx s repr s3 orepr zwp tg,
  tcp_dispatch_build_data cx s repr = Ok (s3, orepr, zwp, tg) ->
  s3 = s \/ s3 = upd_pending_fast_retransmit s false.
Proof.
  intros cx s repr s3 orepr zwp tg H. unfold tcp_dispatch_build_data in H. unfold obind in H.
  destruct (usub _ _); try discriminate H. destruct (tcp_local_mss cx); try discriminate H.
  destruct (s_pending_fast_retransmit s && (s_remote_win_len s >? 0)).
  - inv H. auto.
  - match type of H with match (match ?x with _ => _ end) with _ => _ end = _ => destruct x end;
      try discriminate H.
    match type of H with match (match ?x with _ => _ end) with _ => _ end = _ => destruct x end;
      try discriminate H.
    destruct (tcp_flight_size s); try discriminate H. inv H. auto.
Qed.

Lemma dispatch_build_spec : forall cx s t s3 orepr zwp ka tg,
  tcp_dispatch_build cx s t = Ok (s3, orepr, zwp, ka, tg) ->
  s3 = s \/ s3 = upd_pending_fast_retransmit s false.
Proof.
  intros cx s t s3 orepr zwp ka tg H. unfold tcp_dispatch_build in H. unfold obind in H.
  match type of H with match ?x with _ => _ end = _ => destruct x as [[[[s3' orepr'] zwp'] tg']| |] eqn:Eb end;
    try discriminate H.
  assert (Hs : s3' = s \/ s3' = upd_pending_fast_retransmit s false).
  { destruct (s_state s); try (inv Eb; auto; fail);
      try (eapply dispatch_build_data_spec; eassumption).
    destruct (s_syn_unacked_in_fin_wait s); [inv Eb; auto | eapply dispatch_build_data_spec; eassumption]. }
  destruct orepr' as [repr|]; [|inv H; exact Hs].
  match type of H with match ?x with _ => _ end = _ => destruct x end; try discriminate H.
  inv H. exact Hs.
Qed.

Lemma dispatch_finish_spec : forall cx s repr zwp ka s4 tg,
  tcp_dispatch_finish cx s repr zwp ka = (s4, tg) ->
  disp_frame s4 s /\ s_state s4 = s_state s /\ tclose_iff s4 s /\
  (s_tuple s4 = s_tuple s \/ (s_state s = Closed /\ s_tuple s4 = None)).
Proof.
  intros cx s repr zwp ka s4 tg H. unfold tcp_dispatch_finish in H.
  set (s1 := upd_ack_delay_timer (upd_timer s (timer_rewind_keep_alive (s_timer s) (cx_now cx) (s_keep_alive s))) ADIdle) in *.
  assert (H1 : disp_frame s1 s /\ s_state s1 = s_state s /\ tclose_iff s1 s /\ s_tuple s1 = s_tuple s).
  { unfold s1, disp_frame, tclose_iff. simpl. isplit; auto.
    intros e. destruct (s_timer s); simpl; split; intros He; try discriminate He; auto. }
  destruct H1 as ((A1 & A2 & A3) & A4 & A5 & A6).
  destruct zwp.
  { inv H. unfold disp_frame, tclose_iff in *. simpl. rewrite ?A1, ?A2, ?A3, ?A4, ?A6. isplit; auto.
    intros e. destruct (s_timer s); simpl; split; intros He; try discriminate He; auto. }
  destruct ka.
  { inv H. unfold disp_frame. isplit; auto. }
  set (s2 := upd_remote_last_win _ _) in H.
  assert (H2 : disp_frame s2 s1 /\ s_state s2 = s_state s1 /\ s_timer s2 = s_timer s1 /\ s_tuple s2 = s_tuple s1).
  { unfold s2, disp_frame. destruct (repr_segment_len repr >? 0); simpl; auto 10. }
  destruct H2 as ((B1 & B2 & B3) & B4 & B5 & B6).
  set (s3 := if repr_segment_len repr >? 0 then upd_rtte s2 _ else s2) in H.
  assert (H3 : disp_frame s3 s2 /\ s_state s3 = s_state s2 /\ s_timer s3 = s_timer s2 /\ s_tuple s3 = s_tuple s2).
  { unfold s3, disp_frame. destruct (repr_segment_len repr >? 0); simpl; auto 10. }
  destruct H3 as ((C1 & C2 & C3) & C4 & C5 & C6).
  assert (H123 : disp_frame s3 s /\ s_state s3 = s_state s /\ tclose_iff s3 s /\ s_tuple s3 = s_tuple s).
  { unfold disp_frame, tclose_iff in *. isplit; try congruence. intros e. rewrite C5, B5. apply A5. }
  clear A1 A2 A3 A4 A5 A6 B1 B2 B3 B4 B5 B6 C1 C2 C3 C4 C5 C6.
  destruct H123 as ((A1 & A2 & A3) & A4 & A5 & A6).
  match type of H with (let '(_, _) := ?e in _) = _ => destruct e as [s5 tg5] eqn:E5 end.
  assert (H5 : disp_frame s5 s3 /\ s_state s5 = s_state s3 /\ tclose_iff s5 s3 /\ s_tuple s5 = s_tuple s3).
  { match type of E5 with (if ?c then _ else _) = _ => destruct c end; inv E5.
    - unfold disp_frame, tclose_iff. simpl. isplit; auto.
      intros e. destruct (s_timer s3); simpl; split; intros He; try discriminate He; auto.
    - unfold disp_frame. isplit; auto. apply tclose_iff_refl. }
  destruct H5 as ((B1 & B2 & B3) & B4 & B5 & B6).
  destruct (tcp_state_eqb (s_state s5) Closed) eqn:Ecl; inv H.
  - unfold disp_frame in *. simpl. isplit; try congruence.
    + eapply tclose_iff_trans; [|exact A5]. intros e. simpl. apply B5.
    + right. split; [|reflexivity]. rewrite B4, A4 in Ecl. destruct (s_state s); simpl in Ecl; congruence.
  - unfold disp_frame in *. isplit; try congruence.
    + eapply tclose_iff_trans; eassumption.
    + left. congruence.
Qed.

(* summary of one dispatch *)
Definition disp_rel (cx : ctx) (s s' : socket) : Prop :=
  disp_frame s' s /\ tclose_iff s' s /\
  (s_state s' = s_state s \/
   (s_state s' = Closed /\ (time_wait_expired cx s \/ user_timeout_expired cx s))) /\
  (s_tuple s' = s_tuple s \/ (s_state s' = Closed /\ s_tuple s' = None)).

Lemma inv_disp_rel : forall cx s s' g, inv s g -> disp_rel cx s s' -> inv s' g.
Proof.
  intros cx s s' g (HJ & Hw & Hg & Htx & Htw & Htu & Hfl & Htc) ((F1 & F2 & F3) & Hti & Hst & Htp).
  unfold inv, J, tx_len in *. rewrite F1, F2, F3.
  assert (Hst' : s_state s' = s_state s \/ s_state s' = Closed) by tauto.
  isplit; auto; try lia.
  - destruct Hst' as [E|E]; rewrite E; auto.
  - intros E. destruct Hst' as [E'|E']; [|congruence].
    rewrite E' in E. destruct (Htw E) as [e He]. exists e. apply Hti. exact He.
  - intros N1 N2. destruct Htp as [E|[E _]]; [|contradiction].
    rewrite E. destruct Hst' as [E'|E']; [|contradiction]. rewrite E' in *. auto.
  - intros Hx. destruct (Hfl Hx) as [E|E]; destruct Hst' as [E'|E']; rewrite E'; auto.
  - intros e He. apply Hti in He. destruct (Htc e He) as [E|E]; destruct Hst' as [E'|E']; rewrite E'; auto.
Qed.

Lemma dispatch_step : forall cx s g emit_ok s' res tags,
  inv s g -> tcp_dispatch cx s emit_ok = Ok (s', res, tags) ->
  (s' = s \/ (s' = tcp_reset s /\ address_removed cx s) \/ disp_rel cx s s').
Proof.
  intros cx s g emit_ok s' res tags Hinv H. unfold tcp_dispatch in H.
  destruct (s_tuple s) as [t|] eqn:Etu; [|inv H; auto].
  destruct (Z.eqb_spec (tu_local_addr t) (cx_addr cx)) as [Ea|Ea]; simpl in H.
  2:{ inv H. right. left. split; [reflexivity|]. exists t. auto. }
  right. right.
  unfold obind in H.
  destruct (tcp_dispatch_timers cx s) as [[s1 t1]| |] eqn:E1; try discriminate H.
  apply dispatch_timers_spec in E1. destruct E1 as (A1 & A2 & A3 & A4).
  assert (R1 : disp_rel cx s s1).
  { unfold disp_rel. isplit; auto. destruct A4 as [A4|[A4 A4']]; [left; exact A4 | right; auto]. }
  destruct (tcp_dispatch_decide cx s1) as [[[s2 go] t2]| |] eqn:E2; try discriminate H.
  apply dispatch_decide_spec in E2.
  assert (R2 : disp_rel cx s s2).
  { destruct E2 as [->|(G1 & G2 & G3 & G4)]; [exact R1|]. subst s2.
    destruct R1 as ((F1 & F2 & F3) & Hti & Hst & Htp).
    unfold disp_rel, disp_frame, tclose_iff. simpl. isplit; auto.
    right. split; [reflexivity|]. left.
    destruct (s_timer s1) as [| | | |e] eqn:Et1; simpl in G3; try discriminate G3.
    assert (He : s_timer s = TClose e) by (apply Hti; exact Et1).
    destruct Hinv as (_ & _ & _ & _ & _ & _ & _ & Htc).
    assert (Hs1 : s_state s1 = s_state s) by (destruct Hst as [E|[E _]]; [exact E | contradiction]).
    destruct (Htc e He) as [E|E]; [|congruence].
    split; [exact E|]. exists e. split; [exact He | lia]. }
  destruct go; [|inv H; exact R2].
  destruct (tcp_dispatch_build cx s2 t) as [[[[[s3 orepr] zwp] ka] t3]| |] eqn:E3; try discriminate H.
  apply dispatch_build_spec in E3.
  assert (R3 : disp_rel cx s s3).
  { destruct E3 as [->| ->]; [exact R2|].
    destruct R2 as ((F1 & F2 & F3) & Hti & Hst & Htp). unfold disp_rel, disp_frame, tclose_iff. simpl.
    isplit; auto. }
  destruct orepr as [repr|]; [|inv H; exact R3].
  destruct emit_ok; simpl in H; [|inv H; exact R3].
  destruct (tcp_dispatch_finish cx s3 repr zwp ka) as [s4 t4] eqn:E4. inv H.
  apply dispatch_finish_spec in E4. destruct E4 as ((B1 & B2 & B3) & B4 & B5 & B6).
  destruct R3 as ((F1 & F2 & F3) & Hti & Hst & Htp).
  unfold disp_rel, disp_frame.
  split; [isplit; congruence|].
  split; [eapply tclose_iff_trans; eassumption|].
  split; [rewrite B4; exact Hst|].
  destruct B6 as [B6|[B6 B6']].
  - rewrite B6, B4. exact Htp.
  - right. split; [congruence | exact B6'].
Qed.

(* ================================================================== *)
(** * 5. Every event                                                   *)
(* ================================================================== *)

Lemma allowed_refl : forall s g cx ev, allowed s g cx ev (s_state s).
Proof. intros. unfold allowed. left. reflexivity. Qed.

Lemma listen_step : forall s g cx ep s1,
  inv s g -> tcp_listen s ep = Ok s1 ->
  allowed s g cx (EvListen ep) (s_state s1) /\ inv s1 g.
Proof.
  intros s g cx ep s1 Hinv H. unfold tcp_listen in H.
  destruct (le_port ep =? 0); [discriminate H|].
  destruct (tcp_is_open s) eqn:Eo.
  - destruct (tcp_state_eqb (s_state s) Listen && listen_endpoint_eqb (s_listen_endpoint s) ep);
      inv H. split; [apply allowed_refl | exact Hinv].
  - inv H. simpl.
    split.
    + unfold allowed. right. split; [|reflexivity].
      unfold tcp_is_open in Eo. destruct (s_state s); try discriminate Eo; auto.
    + pose proof (inv_reset s g Hinv) as (HJ & Hw & Hg & Htx & Htw & Htu & Hfl & Htc).
      destruct (reset_spec s) as (R1 & R2 & R3 & R4 & R5 & R6 & R7).
      unfold inv, J, tx_len in *. simpl. rewrite R2, R3, R4, R5, R7 in *.
      isplit; auto; try discriminate; try lia; try congruence.
Qed.

Lemma connect_step : forall s g cx ra rp local s1,
  inv s g -> wf_ctx cx -> tcp_connect cx s ra rp local = Ok s1 ->
  allowed s g cx (EvConnect ra rp local) (s_state s1) /\ inv s1 (mkGhost (cx_isn cx) 0).
Proof.
  intros s g cx ra rp local s1 Hinv Hcx H. unfold tcp_connect in H.
  destruct (tcp_is_open s) eqn:Eo; [discriminate H|].
  destruct ((rp =? 0) || (ra =? 0)); [discriminate H|].
  destruct (le_port local =? 0); [discriminate H|].
  unfold obind in H.
  match type of H with match ?x with _ => _ end = _ => destruct x as [la| |]; try discriminate H end.
  inv H. simpl. split.
  - unfold allowed. right. split; [|reflexivity].
    unfold tcp_is_open in Eo. destruct (s_state s); try discriminate Eo; auto.
  - pose proof (inv_reset s g Hinv) as (HJ & Hw & Hg & Htx & Htw & Htu & Hfl & Htc).
    destruct (reset_spec s) as (R1 & R2 & R3 & R4 & R5 & R6 & R7).
    unfold inv, J, tx_len in *. simpl. rewrite R3, R4, R5, R7 in *.
    isplit; auto; try discriminate; try lia; try congruence.
Qed.

Lemma close_step : forall s g cx,
  inv s g -> allowed s g cx EvClose (s_state (tcp_close s)) /\ inv (tcp_close s) g.
Proof.
  intros s g cx (HJ & Hw & Hg & Htx & Htw & Htu & Hfl & Htc). unfold tcp_close.
  assert (Hnf : s_state s <> FinWait1 -> s_state s <> Closed -> s_syn_unacked_in_fin_wait s = false).
  { intros N1 N2. destruct (s_syn_unacked_in_fin_wait s); [|reflexivity]. destruct (Hfl eq_refl); contradiction. }
  unfold allowed, inv, J, tx_len in *.
  destruct (s_state s) eqn:Es; simpl; rewrite ?Es;
    try (split; [left; reflexivity | isplit; auto; try lia]);
    (split; [right; auto 10 | ]);
    isplit; auto; try lia; try discriminate; try congruence;
    try (rewrite Hnf by discriminate; assumption);
    try (intros e He; destruct (Htc e He); discriminate);
    try (intros _ _; apply Htu; discriminate);
    try (intros Hx; rewrite Hnf in Hx by discriminate; discriminate Hx).
Qed.

Lemma abort_step : forall s g cx,
  inv s g -> allowed s g cx EvAbort (s_state (tcp_abort s)) /\ inv (tcp_abort s) g.
Proof.
  intros s g cx (HJ & Hw & Hg & Htx & Htw & Htu & Hfl & Htc). unfold tcp_abort.
  unfold allowed, inv, J, tx_len in *. simpl.
  split; [right; reflexivity|]. isplit; auto; try lia; try discriminate; try congruence.
Qed.

Lemma send_step : forall s g data s1 n,
  inv s g -> tcp_send_slice s data = Ok (s1, n) ->
  s_state s1 = s_state s /\ inv s1 (mkGhost (g_iss g) (g_sent g + n)).
Proof.
  intros s g data s1 n (HJ & Hw & Hg & Htx & Htw & Htu & Hfl & Htc) H. unfold tcp_send_slice in H.
  destruct (tcp_may_send s) eqn:Em; [|discriminate H]. cbn [negb] in H. cbv iota in H.
  destruct (rb_enqueue_slice (s_tx_buffer s) data) as [tx n'] eqn:Ee.
  apply rb_enqueue_slice_len in Ee; [|exact Htx]. destruct Ee as (L1 & L2 & L3).
  assert (Hst : s_state s = Established \/ s_state s = CloseWait).
  { unfold tcp_may_send in Em. destruct (s_state s); try discriminate Em; auto. }
  assert (Hflag : s_syn_unacked_in_fin_wait s = false).
  { destruct (s_syn_unacked_in_fin_wait s); [|reflexivity]. destruct (Hfl eq_refl) as [E|E]; destruct Hst; congruence. }
  assert (K : forall s2, s_state s2 = s_state s -> s_local_seq_no s2 = s_local_seq_no s ->
              s_tx_buffer s2 = tx -> s_syn_unacked_in_fin_wait s2 = s_syn_unacked_in_fin_wait s ->
              s_tuple s2 = s_tuple s ->
              (s_timer s2 = s_timer s \/ exists a b, s_timer s2 = TZeroWindowProbe a b) ->
              inv s2 (mkGhost (g_iss g) (g_sent g + n'))).
  { intros s2 K1 K2 K3 K4 K5 K6. unfold inv, J, tx_len in *. rewrite K1, K2, K3, K4, K5.
    unfold own_fin_seq in *. simpl.
    isplit; auto; try lia.
    - destruct Hst as [E|E]; rewrite E in *; rewrite L1, <- seq_add_add, HJ, seq_add_add; f_equal; lia.
    - intros E. destruct Hst; congruence.
    - intros e He. destruct K6 as [K6|(a & b & K6)]; [rewrite K6 in He; eauto | rewrite K6 in He; discriminate He]. }
  destruct (n' >? 0).
  - repeat match type of H with context [if ?c then _ else _] => destruct c end;
      inv H; (split; [reflexivity|]); apply K; simpl; auto; right; unfold timer_set_for_zero_window_probe; eauto.
  - inv H. split; [reflexivity|]. apply K; auto.
Qed.

Lemma ingress_step : forall cx s g ip r s' rep tags,
  inv s g -> wf_ctx cx -> wf_repr r ->
  iface_tcp_ingress cx s ip r = Ok (s', rep, tags) -> seg_post cx s g r s'.
Proof.
  intros cx s g ip r s' rep tags Hinv Hcx Hwf H. unfold iface_tcp_ingress in H.
  assert (Hsame : seg_post cx s g r s).
  { apply seg_post_unchanged; [exact Hinv | apply same_conn_refl | left; reflexivity]. }
  destruct ((ip_src ip =? 0) || (ip_dst ip =? 0)); [inv H; exact Hsame|].
  destruct ((r_src_port r =? 0) || (r_dst_port r =? 0)); [inv H; exact Hsame|].
  destruct (tcp_accepts s ip r).
  - eapply process_step; eassumption.
  - destruct (control_eqb (r_control r) CRst); [inv H; exact Hsame|].
    unfold obind in H. destruct (tcp_rst_reply ip r); inv H. exact Hsame.
Qed.

(* THE step theorem: every event, from every state satisfying the invariant, moves the socket
   along an allowed edge, and the invariant holds again (with the ghost updated from the inputs). *)
Theorem step_ok : forall cx s g ev s' out tags,
  inv s g -> wf_ctx cx -> wf_event ev ->
  tcp_step cx s ev = Ok (s', out, tags) ->
  allowed s g cx ev (s_state s') /\ inv s' (ghost_step cx s g ev s' out).
Proof.
  intros cx s g ev s' out tags Hinv Hcx Hwf H.
  destruct ev; simpl in H.
  - (* listen *)
    destruct (tcp_listen s ep) eqn:E; inv H.
    + simpl. eapply listen_step; eassumption.
    + split; [apply allowed_refl | exact Hinv].
  - (* connect *)
    destruct (tcp_connect cx s remote_addr remote_port local) eqn:E; inv H.
    + simpl. eapply connect_step; eassumption.
    + split; [apply allowed_refl | exact Hinv].
  - inv H. simpl. apply close_step. exact Hinv.
  - inv H. simpl. apply abort_step. exact Hinv.
  - (* send *)
    destruct (tcp_send_slice s data) as [[s1 n]| |] eqn:E; inv H.
    + simpl. apply send_step with (g := g) in E; [|exact Hinv]. destruct E as [E1 E2].
      split; [unfold allowed; left; exact E1 | exact E2].
    + split; [apply allowed_refl | exact Hinv].
  - (* recv *)
    destruct (tcp_recv_slice s n) as [[s1 l]| |] eqn:E; inv H.
    + simpl. unfold tcp_recv_slice in E. unfold obind in E.
      destruct (tcp_recv_error_check s); try discriminate E.
      destruct (rb_dequeue_slice (s_rx_buffer s) n) as [rx bytes]. inv E.
      split; [unfold allowed; left; reflexivity|].
      eapply inv_frame; [exact Hinv | | | | | |]; simpl; auto.
    + split; [apply allowed_refl | exact Hinv].
  - destruct (tcp_peek s n); inv H; (split; [apply allowed_refl | exact Hinv]).
  - destruct (tcp_peek_slice s n); inv H; (split; [apply allowed_refl | exact Hinv]).
  - inv H. simpl. split; [unfold allowed; left; reflexivity|].
    eapply inv_frame; [exact Hinv | | | | | |]; simpl; auto.
  - (* set_keep_alive *)
    inv H. simpl. unfold tcp_set_keep_alive.
    assert (K : forall s2, s_state s2 = s_state s -> s_local_seq_no s2 = s_local_seq_no s ->
                s_tx_buffer s2 = s_tx_buffer s ->
                s_syn_unacked_in_fin_wait s2 = s_syn_unacked_in_fin_wait s -> s_tuple s2 = s_tuple s ->
                (s_timer s2 = s_timer s \/ (exists k, s_timer s = TIdle k /\ exists k', s_timer s2 = TIdle k')) ->
                allowed s g cx (EvSetKeepAlive d) (s_state s2) /\ inv s2 g).
    { intros s2 K1 K2 K3 K4 K5 K6. split; [unfold allowed; left; exact K1|].
      eapply inv_frame; [exact Hinv | | | | | |]; auto.
      destruct K6 as [K6|(k & K6 & k' & K7)]; [left; exact K6|].
      right. split.
      - intros E. destruct Hinv as (_ & _ & _ & _ & Htw & _). destruct (Htw E) as [e He]. congruence.
      - intros e He. congruence. }
    destruct (is_some d); apply K; simpl; auto.
    destruct (s_timer s) as [[k|]| | | |]; simpl; auto. right. eauto.
  - inv H. simpl. split; [unfold allowed; left; reflexivity|].
    eapply inv_frame; [exact Hinv | | | | | |]; simpl; auto.
  - inv H. simpl. split; [unfold allowed; left; reflexivity|].
    eapply inv_frame; [exact Hinv | | | | | |]; simpl; auto.
  - unfold obind in H. destruct (tcp_set_hop_limit s h) as [s1| |] eqn:E; inv H.
    unfold tcp_set_hop_limit in E. destruct h as [[|p|p]|]; inv E; simpl;
      (split; [unfold allowed; left; reflexivity|]);
      (eapply inv_frame; [exact Hinv | | | | | |]; simpl; auto).
  - (* segment *)
    unfold obind in H. destruct (iface_tcp_ingress cx s ip r) as [[[s1 reply] tg]| |] eqn:E; inv H.
    eapply ingress_step in E; eauto. destruct E as (E1 & E2 & _).
    split; [|exact E2]. unfold allowed. destruct E1 as [E1|E1]; [left; exact E1 | right; exact E1].
  - (* dispatch *)
    unfold obind in H. destruct (tcp_dispatch cx s emit_ok) as [[[s1 res] tg]| |] eqn:E; inv H.
    simpl. eapply dispatch_step in E; [|exact Hinv].
    destruct E as [->|[[-> Ha]|Hr]].
    + split; [apply allowed_refl | exact Hinv].
    + split; [|apply inv_reset; exact Hinv].
      unfold allowed. right. split; [apply reset_spec|]. right. right. exact Ha.
    + split; [|eapply inv_disp_rel; eassumption].
      destruct Hr as (_ & _ & [Hs|[Hs Hw']] & _); unfold allowed; [left; exact Hs|].
      right. split; [exact Hs|]. destruct Hw' as [Hw'|Hw']; auto.
Qed.

(* ================================================================== *)
(** * 6. RST, TIME-WAIT, reachability                                  *)
(* ================================================================== *)

(* Only an acceptable RST (in the window; during the handshake: acknowledging exactly ISS+1) resets. *)
Theorem blind_rst_ignored : forall cx s g ip r s' out tags,
  inv s g -> wf_ctx cx -> wf_repr r ->
  tcp_step cx s (EvSegment ip r) = Ok (s', out, tags) ->
  r_control r = CRst ->
  ~ (synchronized (s_state s) /\ rst_acceptable s r) ->
  ~ (s_state s = SynSent /\ acks_iss g r) ->
  s_state s' = s_state s.
Proof.
  intros cx s g ip r s' out tags Hinv Hcx Hwf H Hc Hn1 Hn2.
  destruct (step_ok cx s g (EvSegment ip r) s' out tags Hinv Hcx Hwf H) as [Ha _].
  unfold allowed in Ha. destruct Ha as [Ha|Ha]; [exact Ha|]. exfalso.
  unfold seg_allowed, fin_in_order in Ha.
  repeat match goal with
         | Hd : _ \/ _ |- _ => destruct Hd as [Hd|Hd]
         end;
    repeat match goal with Hd : _ /\ _ |- _ => destruct Hd end; try congruence.
  - apply Hn2. split; assumption.
  - apply Hn1. split; [|assumption].
    match goal with E : s_state s = SynReceived |- _ => rewrite E end.
    unfold synchronized. isplit; discriminate.
  - apply Hn1. split; assumption.
Qed.

(* --- TIME-WAIT --- *)

(* the constant of the source: 10 s (in microseconds); a change of CLOSE_DELAY in tcp.rs breaks this *)
Lemma close_delay_is_10s : tcp_CLOSE_DELAY = 10 * 1000000.
Proof. reflexivity. Qed.

(* TIME-WAIT is entered only by a segment, and the timer is then set to now + CLOSE_DELAY *)
Theorem time_wait_entry : forall cx s g ev s' out tags,
  inv s g -> wf_ctx cx -> wf_event ev ->
  tcp_step cx s ev = Ok (s', out, tags) ->
  s_state s <> TimeWait -> s_state s' = TimeWait ->
  (exists ip r, ev = EvSegment ip r) /\ s_timer s' = TClose (cx_now cx + 10 * 1000000).
Proof.
  intros cx s g ev s' out tags Hinv Hcx Hwf H Hn Ht. rewrite <- close_delay_is_10s.
  destruct (step_ok cx s g ev s' out tags Hinv Hcx Hwf H) as [Ha _].
  unfold allowed in Ha. rewrite Ht in Ha. destruct Ha as [Ha|Ha]; [congruence|].
  destruct ev; try contradiction; try (intuition discriminate).
  split; [eauto|].
  simpl in H. unfold obind in H.
  destruct (iface_tcp_ingress cx s ip r) as [[[s1 reply] tg]| |] eqn:E; inv H.
  eapply ingress_step in E; eauto. destruct E as (_ & _ & E3 & _). auto.
Qed.

Lemma decide_nothing : forall cx s s2 tg,
  tcp_dispatch_decide cx s = Ok (s2, false, tg) ->
  (s2 = upd_tuple (tcp_set_state s Closed) None) \/
  (s2 = s /\ timer_should_close (s_timer s) (cx_now cx) = false /\ s_state s <> Closed).
Proof.
  intros cx s s2 tg H. unfold tcp_dispatch_decide in H. unfold obind in H.
  destruct (tcp_seq_to_transmit cx s) as [b| |]; try discriminate H.
  destruct b; [inv H|].
  destruct (tcp_ack_to_transmit s && tcp_delayed_ack_expired s (cx_now cx)); [inv H|].
  destruct (tcp_window_to_update s) as [b| |]; try discriminate H.
  destruct b; [inv H|].
  destruct (tcp_state_eqb (s_state s) Closed) eqn:Ec; [inv H|].
  destruct (timer_should_keep_alive (s_timer s) (cx_now cx)); [inv H|].
  destruct (timer_should_zero_window_probe (s_timer s) (cx_now cx)); [inv H|].
  destruct (timer_should_close (s_timer s) (cx_now cx)) eqn:Es; inv H; auto.
  right. isplit; auto. intros E. rewrite E in Ec. discriminate Ec.
Qed.

(* a dispatch that sends nothing from an expired TIME-WAIT (or from CLOSED) ends in CLOSED *)
Lemma dispatch_nothing_closes : forall cx s g s' tags e,
  inv s g -> tcp_dispatch cx s true = Ok (s', DNothing, tags) ->
  (s_state s = Closed \/ (s_state s = TimeWait /\ s_timer s = TClose e /\ e <= cx_now cx)) ->
  s_state s' = Closed.
Proof.
  intros cx s g s' tags e Hinv H Hst.
  assert (Hc : s_state s = Closed -> s_state s' = Closed).
  { intros Ec. eapply dispatch_step in H; [|exact Hinv].
    destruct H as [->|[[-> _]|(_ & _ & [Hs|[Hs _]] & _)]]; try congruence. apply reset_spec. }
  destruct Hst as [Ec|(Et & Htm & Hle)]; [auto|].
  unfold tcp_dispatch in H.
  destruct (s_tuple s) as [t|] eqn:Etu.
  2:{ destruct Hinv as (_ & _ & _ & _ & _ & Htu & _). exfalso. apply Htu; congruence. }
  destruct (Z.eqb_spec (tu_local_addr t) (cx_addr cx)) as [Ea|Ea]; simpl in H;
    [|inv H; apply reset_spec].
  unfold obind in H.
  destruct (tcp_dispatch_timers cx s) as [[s1 t1]| |] eqn:E1; try discriminate H.
  apply dispatch_timers_spec in E1. destruct E1 as (A1 & A2 & A3 & A4).
  destruct (tcp_dispatch_decide cx s1) as [[[s2 go] t2]| |] eqn:E2; try discriminate H.
  destruct go.
  - (* something is sent or LISTEN: not DNothing unless the build returns None *)
    destruct (tcp_dispatch_build cx s2 t) as [[[[[s3 orepr] zwp] ka] t3]| |] eqn:E3; try discriminate H.
    destruct orepr as [repr|].
    + simpl in H. destruct (tcp_dispatch_finish cx s3 repr zwp ka). inv H.
    + (* only LISTEN builds nothing *)
      exfalso. apply dispatch_decide_spec in E2. destruct E2 as [->|(G & _)]; [|discriminate G].
      unfold tcp_dispatch_build in E3. unfold obind in E3.
      assert (Hs1 : s_state s1 = TimeWait \/ s_state s1 = Closed).
      { destruct A4 as [A4|[A4 _]]; [left; congruence | right; exact A4]. }
      destruct Hs1 as [Hs1|Hs1]; rewrite Hs1 in E3; simpl in E3;
        match type of E3 with context [if ?c then _ else _] => destruct c end;
        try match type of E3 with context [if ?c then _ else _] => destruct c end;
        try (unfold obind in E3; destruct (tcp_local_mss cx)); inv E3.
  - inv H. apply decide_nothing in E2. destruct E2 as [->|(-> & G2 & G3)]; [reflexivity|].
    destruct A4 as [A4|[A4 _]]; [|exact A4].
    exfalso. assert (Ht1 : s_timer s1 = TClose e) by (apply A3; exact Htm).
    rewrite Ht1 in G2. simpl in G2. lia.
Qed.

(* TIME-WAIT ends by itself: a poll (egress loop of Interface::poll, device not exhausted) at or
   after the deadline leaves the socket CLOSED *)
Theorem time_wait_expires : forall fuel cx s g e sent tags0 s' ps tags,
  inv s g ->
  (s_state s = Closed \/ (s_state s = TimeWait /\ s_timer s = TClose e /\ e <= cx_now cx)) ->
  iface_poll_egress_acc fuel cx s None sent tags0 = Ok (s', ps, tags, true) ->
  s_state s' = Closed.
Proof.
  induction fuel; intros cx s g e sent tags0 s' ps tags Hinv Hst H; simpl in H; [inv H|].
  unfold obind in H.
  destruct (tcp_dispatch cx s true) as [[[s1 res] tg]| |] eqn:E; try discriminate H.
  destruct res as [|p|p].
  - inv H. eapply dispatch_nothing_closes; eassumption.
  - pose proof E as E'. eapply dispatch_step in E'; [|exact Hinv].
    assert (Hinv1 : inv s1 g /\
      (s_state s1 = Closed \/ (s_state s1 = TimeWait /\ s_timer s1 = TClose e /\ e <= cx_now cx))).
    { destruct E' as [->|[[-> _]|Hr]].
      - auto.
      - split; [apply inv_reset; exact Hinv | left; apply reset_spec].
      - split; [eapply inv_disp_rel; eassumption|].
        destruct Hr as (_ & Hti & [Hs|[Hs _]] & _); [|left; exact Hs].
        destruct Hst as [Hc|(Ht & Htm & Hle)]; [left; congruence|].
        right. isplit; [congruence | apply Hti; exact Htm | exact Hle]. }
    destruct Hinv1 as [Hi1 Hs1]. eapply IHfuel; eassumption.
  - (* emit_ok = true never fails *)
    unfold tcp_dispatch in E. destruct (s_tuple s); [|inv E].
    destruct (negb (tu_local_addr t =? cx_addr cx)); [inv E|]. unfold obind in E.
    destruct (tcp_dispatch_timers cx s) as [[? ?]| |]; try discriminate E.
    destruct (tcp_dispatch_decide cx s0) as [[[? go] ?]| |]; try discriminate E.
    destruct go; [|inv E].
    destruct (tcp_dispatch_build cx s2 t) as [[[[[? orepr] ?] ?] ?]| |]; try discriminate E.
    destruct orepr; [|inv E]. simpl in E. destruct (tcp_dispatch_finish cx s3 t0 b b0). inv E.
Qed.

(* while in TIME-WAIT the deadline is kept or restarted, never moved earlier *)
Theorem time_wait_timer_kept : forall cx s g ev s' out tags e,
  inv s g -> wf_ctx cx -> wf_event ev ->
  tcp_step cx s ev = Ok (s', out, tags) ->
  s_state s = TimeWait -> s_timer s = TClose e -> s_state s' = TimeWait ->
  s_timer s' = TClose e \/ s_timer s' = TClose (cx_now cx + 10 * 1000000).
Proof.
  intros cx s g ev s' out tags e Hinv Hcx Hwf H Hs Ht Hs'. rewrite <- close_delay_is_10s.
  destruct ev; simpl in H.
  - destruct (tcp_listen s ep) eqn:E; inv H; auto.
    unfold tcp_listen in E. destruct (le_port ep =? 0); [discriminate E|].
    unfold tcp_is_open in E. rewrite Hs in E. inv E. simpl in Hs'. discriminate Hs'.
  - destruct (tcp_connect cx s remote_addr remote_port local) eqn:E; inv H; auto.
    unfold tcp_connect in E. unfold tcp_is_open in E. rewrite Hs in E.
    destruct ((remote_port =? 0) || (remote_addr =? 0)); [discriminate E|].
    destruct (le_port local =? 0); [discriminate E|]. unfold obind in E.
    match type of E with match ?x with _ => _ end = _ => destruct x; try discriminate E end.
    inv E. simpl in Hs'. discriminate Hs'.
  - inv H. unfold tcp_close. rewrite Hs. auto.
  - inv H. simpl in Hs'. discriminate Hs'.
  - destruct (tcp_send_slice s data) as [[s1 n]| |] eqn:E; inv H; auto.
    unfold tcp_send_slice, tcp_may_send in E. rewrite Hs in E. discriminate E.
  - destruct (tcp_recv_slice s n) as [[s1 l]| |] eqn:E; inv H; auto.
    unfold tcp_recv_slice in E. unfold obind in E. destruct (tcp_recv_error_check s); try discriminate E.
    destruct (rb_dequeue_slice (s_rx_buffer s) n). inv E. simpl. auto.
  - destruct (tcp_peek s n); inv H; auto.
  - destruct (tcp_peek_slice s n); inv H; auto.
  - inv H. simpl. auto.
  - inv H. unfold tcp_set_keep_alive. destruct (is_some d); simpl; rewrite ?Ht; simpl; auto.
  - inv H. simpl. auto.
  - inv H. simpl. auto.
  - unfold obind in H. destruct (tcp_set_hop_limit s h) as [s1| |] eqn:E; inv H.
    unfold tcp_set_hop_limit in E. destruct h as [[|p|p]|]; inv E; simpl; auto.
  - unfold obind in H. destruct (iface_tcp_ingress cx s ip r) as [[[s1 reply] tg]| |] eqn:E; inv H.
    eapply ingress_step in E; eauto. destruct E as (_ & _ & _ & E4).
    destruct (E4 Hs' Hs) as [E|E]; [left; congruence | right; exact E].
  - unfold obind in H. destruct (tcp_dispatch cx s emit_ok) as [[[s1 res] tg]| |] eqn:E; inv H.
    eapply dispatch_step in E; [|exact Hinv].
    destruct E as [->|[[-> _]|(_ & Hti & _)]]; auto.
    + exfalso. destruct (reset_spec s) as (R1 & _). congruence.
    + left. apply Hti. exact Ht.
Qed.

(* TIME-WAIT does not end early: leaving it needs an abort/re-open call, an acceptable RST, or a
   dispatch at/after the deadline (or the user timeout / the address being removed) *)
Theorem time_wait_not_before : forall cx s g ev s' out tags e,
  inv s g -> wf_ctx cx -> wf_event ev ->
  tcp_step cx s ev = Ok (s', out, tags) ->
  s_state s = TimeWait -> s_timer s = TClose e -> s_state s' <> TimeWait ->
  match ev with
  | EvAbort | EvListen _ | EvConnect _ _ _ => True
  | EvSegment _ r => rst_acceptable s r
  | EvDispatch _ => e <= cx_now cx \/ user_timeout_expired cx s \/ address_removed cx s
  | _ => False
  end.
Proof.
  intros cx s g ev s' out tags e Hinv Hcx Hwf H Hs Ht Hs'.
  destruct (step_ok cx s g ev s' out tags Hinv Hcx Hwf H) as [Ha _].
  unfold allowed in Ha. rewrite Hs in Ha. destruct Ha as [Ha|Ha]; [contradiction|].
  destruct ev; auto; try (intuition discriminate).
  - unfold seg_allowed in Ha.
    repeat match goal with Hd : _ \/ _ |- _ => destruct Hd as [Hd|Hd] end;
      repeat match goal with Hd : _ /\ _ |- _ => destruct Hd end; try discriminate; assumption.
  - destruct Ha as [_ [(_ & e' & He' & Hle)|[Hu|Hr]]]; auto.
    left. congruence.
Qed.

(* --- every event sequence --- *)

Definition ghost0 : ghost := mkGhost 0 0.

(* run a list of (context, event) pairs; None if some step panics *)
Fixpoint run (s : socket) (g : ghost) (evs : list (ctx * event)) : option (socket * ghost) :=
  match evs with
  | [] => Some (s, g)
  | (cx, ev) :: rest =>
      match tcp_step cx s ev with
      | Ok (s', out, _) => run s' (ghost_step cx s g ev s' out) rest
      | _ => None
      end
  end.

Definition wf_input (ce : ctx * event) : Prop := wf_ctx (fst ce) /\ wf_event (snd ce).

Lemma l_len_eq : forall l, l_len l = Z.of_nat (length l).
Proof.
  intros. unfold l_len.
  assert (H : forall l acc, l_len_acc l acc = acc + Z.of_nat (length l)).
  { induction l0; intros; simpl; [lia | rewrite IHl0; lia]. }
  rewrite H. lia.
Qed.

Lemma inv_new : forall rx tx cc ts s0, tcp_new rx tx cc ts = Ok s0 -> inv s0 ghost0.
Proof.
  intros rx tx cc ts s0 H. unfold tcp_new in H.
  destruct (rb_cap (rb_new rx) >? 2 ^ 30); inv H.
  unfold inv, J, tx_len, ghost0. simpl.
  pose proof (l_len_nonneg tx).
  isplit; auto; try discriminate; try lia; try apply seq_wf_0.
Qed.

(* the invariant holds after every sequence of well-formed events from a fresh socket *)
Theorem inv_all_sequences : forall evs s g s' g',
  inv s g -> Forall wf_input evs -> run s g evs = Some (s', g') -> inv s' g'.
Proof.
  induction evs as [|[cx ev] rest IH]; intros s g s' g' Hinv Hwf H; simpl in H.
  - inv H. exact Hinv.
  - inversion Hwf as [|? ? [Hc He] Hr]; subst. simpl in Hc, He.
    destruct (tcp_step cx s ev) as [[[s1 out] tg]| |] eqn:E; try discriminate H.
    destruct (step_ok cx s g ev s1 out tg Hinv Hc He E) as [_ Hi].
    eapply IH; eassumption.
Qed.

(* ... and every single transition along the way is allowed *)
Theorem all_transitions_allowed : forall pre cx ev s0 g0 s g s' out tags,
  inv s0 g0 -> Forall wf_input pre -> wf_ctx cx -> wf_event ev ->
  run s0 g0 pre = Some (s, g) ->
  tcp_step cx s ev = Ok (s', out, tags) ->
  allowed s g cx ev (s_state s').
Proof.
  intros pre cx ev s0 g0 s g s' out tags Hinv Hpre Hcx Hev Hrun Hstep.
  pose proof (inv_all_sequences pre s0 g0 s g Hinv Hpre Hrun) as Hi.
  exact (proj1 (step_ok cx s g ev s' out tags Hi Hcx Hev Hstep)).
Qed.

(* non-vacuity: a fresh 4-byte socket that listens, receives a SYN and the handshake ACK is
   ESTABLISHED, and the invariant (hence every theorem above) applies to that state *)
Definition ex_cx (now : Z) : ctx := mkCtx now 1500 167772161 0 1000.
Definition ex_ip : ip_repr := mkIp 167772162 167772161 64 20.
Definition ex_syn : tcp_repr := mkRepr 4000 80 CSyn 500 None 1000 None None false [None; None; None] None [].
Definition ex_ack : tcp_repr := mkRepr 4000 80 CNone 501 (Some 1001) 1000 None None false [None; None; None] None [].
Definition ex_events : list (ctx * event) :=
  [ (ex_cx 0, EvListen (mkListenEp None 80));
    (ex_cx 0, EvSegment ex_ip ex_syn);
    (ex_cx 0, EvDispatch true);
    (ex_cx 1000, EvSegment ex_ip ex_ack) ].

Example established_reachable :
  exists s0 s g,
    tcp_new [0;0;0;0] [0;0;0;0] CcNone false = Ok s0 /\
    Forall wf_input ex_events /\
    run s0 ghost0 ex_events = Some (s, g) /\
    s_state s = Established /\ inv s g.
Proof.
  destruct (tcp_new [0;0;0;0] [0;0;0;0] CcNone false) as [s0| |] eqn:E0; try (vm_compute in E0; discriminate E0).
  destruct (run s0 ghost0 ex_events) as [[s g]|] eqn:E1.
  2:{ vm_compute in E0. inv E0. vm_compute in E1. discriminate E1. }
  exists s0, s, g.
  assert (Hwf : Forall wf_input ex_events).
  { unfold ex_events, wf_input, wf_ctx, wf_event, wf_repr, seq_wf. rewrite seq_modulus_val. simpl.
    repeat constructor; simpl; unfold l_len; simpl; try lia;
      match goal with
      | Hx : r_ack_number _ = Some _ |- _ => simpl in Hx; first [discriminate Hx | inv Hx; lia]
      end. }
  isplit; auto.
  - vm_compute in E0. inv E0. vm_compute in E1. inv E1. reflexivity.
  - eapply inv_all_sequences; [eapply inv_new; exact E0 | exact Hwf | exact E1].
Qed.

(* TIME-WAIT ends by itself 10 s after it was entered: the step that enters TIME-WAIT at time t0,
   then (nothing else happening) a poll at any time >= t0 + 10 s leaves the socket CLOSED *)
Theorem time_wait_10s : forall cx0 s0 g ev s out tags fuel cx s' ps tags',
  inv s0 g -> wf_ctx cx0 -> wf_event ev ->
  tcp_step cx0 s0 ev = Ok (s, out, tags) ->
  s_state s0 <> TimeWait -> s_state s = TimeWait ->
  cx_now cx0 + 10 * 1000000 <= cx_now cx ->
  iface_poll_egress fuel cx s None = Ok (s', ps, tags', true) ->
  s_state s' = Closed.
Proof.
  intros cx0 s0 g ev s out tags fuel cx s' ps tags' Hinv Hcx Hev Hstep Hn Ht Hle Hpoll.
  destruct (time_wait_entry cx0 s0 g ev s out tags Hinv Hcx Hev Hstep Hn Ht) as [_ Htm].
  destruct (step_ok cx0 s0 g ev s out tags Hinv Hcx Hev Hstep) as [_ Hi].
  unfold iface_poll_egress in Hpoll.
  eapply time_wait_expires; [exact Hi | | exact Hpoll].
  right. isplit; [exact Ht | exact Htm | exact Hle].
Qed.

(* ================================================================== *)
(** * 7. The rest of the public API: predicates, error arms, closure send/recv *)
(* ================================================================== *)

(* the predicates are the functions of the state that RFC 9293 / the documentation name *)
Theorem predicates_spec : forall s,
  (tcp_is_open s = true <-> s_state s <> Closed /\ s_state s <> TimeWait) /\
  (tcp_is_active s = true <-> s_state s <> Closed /\ s_state s <> TimeWait /\ s_state s <> Listen) /\
  (tcp_is_listening s = true <-> s_state s = Listen) /\
  (tcp_may_send s = true <-> s_state s = Established \/ s_state s = CloseWait) /\
  (tcp_can_recv s = true <-> rb_len (s_rx_buffer s) <> 0) /\
  (tcp_may_recv s = true <->
     s_state s = Established \/ s_state s = FinWait1 \/ s_state s = FinWait2 \/ rb_len (s_rx_buffer s) <> 0) /\
  (tcp_can_send s = true <->
     (s_state s = Established \/ s_state s = CloseWait) /\ rb_len (s_tx_buffer s) <> rb_cap (s_tx_buffer s)).
Proof.
  intros s.
  unfold tcp_is_open, tcp_is_active, tcp_is_listening, tcp_can_send, tcp_may_send, tcp_may_recv, tcp_can_recv,
         rb_is_empty, rb_is_full, rb_window.
  destruct (Z.eqb_spec (rb_len (s_rx_buffer s)) 0) as [Er|Er];
  destruct (Z.eqb_spec (rb_cap (s_tx_buffer s) - rb_len (s_tx_buffer s)) 0) as [Et|Et];
  destruct (s_state s); simpl; isplit; split; intros H;
    try discriminate H; try reflexivity; try tauto; try lia;
    try (isplit; discriminate); try (isplit; auto; try lia; discriminate);
    try (destruct H as [H|[H|[H|H]]]; try discriminate H; contradiction);
    try (destruct H as [H|H]; discriminate H);
    try (destruct H as [[H|H] H']; try discriminate H; lia);
    try (destruct H as (H1 & H2 & H3); congruence); try (destruct H as (H1 & H2); congruence).
Qed.

(* a call that returns an error leaves the socket exactly as it was *)
Theorem failed_call_unchanged : forall cx s ev s' e tags,
  tcp_step_x cx s ev = Ok (s', XOut (OErr e), tags) -> s' = s.
Proof.
  intros cx s ev s' e tags H. destruct ev as [ev|v6 ra rp local|data|k]; simpl in H.
  - unfold obind in H. destruct (tcp_step cx s ev) as [[[s1 o] tg]| |] eqn:E; try discriminate H.
    inv H. destruct ev; simpl in E; unfold obind in E;
      repeat match type of E with
             | context [match ?x with _ => _ end] => destruct x
             end; try discriminate E; inv E; reflexivity.
  - destruct (tcp_connect_af cx s v6 ra rp local); inv H. reflexivity.
  - destruct (tcp_send_with s data) as [[[? ?] ?]| |]; inv H. reflexivity.
  - destruct (tcp_recv_with s k) as [[[? ?] ?]| |]; inv H. reflexivity.
Qed.

(* connect: exactly when each error is returned; a successful call is the IPv4 [tcp_connect] *)
Theorem connect_af_spec : forall cx s v6 ra rp local,
  match tcp_connect_af cx s v6 ra rp local with
  | Err 1 => tcp_is_open s = true
  | Err _ => tcp_is_open s = false /\
             (rp = 0 \/ ra = 0 \/ le_port local = 0 \/ le_addr local = Some 0 \/
              (v6 = true /\ le_addr local <> None))
  | Ok s' => tcp_is_open s = false /\ rp <> 0 /\ ra <> 0 /\ le_port local <> 0 /\
             tcp_connect cx s ra rp local = Ok s' /\ s_state s' = SynSent
  | Panic => False
  end.
Proof.
  intros. unfold tcp_connect_af.
  destruct (tcp_is_open s) eqn:Eo; [reflexivity|].
  destruct (Z.eqb_spec rp 0) as [E1|E1]; simpl; [auto|].
  destruct (Z.eqb_spec ra 0) as [E2|E2]; simpl; [auto|].
  destruct (Z.eqb_spec (le_port local) 0) as [E3|E3]; [auto 6|].
  assert (K : match tcp_connect cx s ra rp local with
              | Ok s' => s_state s' = SynSent /\ (le_addr local <> Some 0)
              | Err _ => le_addr local = Some 0
              | Panic => False end).
  { unfold tcp_connect. rewrite Eo.
    destruct (Z.eqb_spec rp 0); [contradiction|]. destruct (Z.eqb_spec ra 0); [contradiction|]. simpl.
    destruct (Z.eqb_spec (le_port local) 0); [contradiction|].
    destruct (le_addr local) as [a|]; simpl.
    - destruct (Z.eqb_spec a 0); simpl; [congruence|]. split; [reflexivity | congruence].
    - split; [reflexivity | discriminate]. }
  destruct (le_addr local) as [a|] eqn:Ea.
  - destruct (Z.eqb_spec a 0) as [E4|E4]; [subst; auto 8|].
    destruct v6; [split; [reflexivity|]; do 4 right; split; [reflexivity | discriminate]|].
    destruct (tcp_connect cx s ra rp local) as [s'|e|]; [|congruence|contradiction].
    destruct K as [K1 K2]. isplit; auto.
  - destruct (tcp_connect cx s ra rp local) as [s'|e|]; [|discriminate K|contradiction].
    destruct K as [K1 K2]. isplit; auto.
Qed.

Lemma send_with_step : forall s g data s1 n sl,
  inv s g -> tcp_send_with s data = Ok (s1, n, sl) ->
  s_state s1 = s_state s /\ inv s1 (mkGhost (g_iss g) (g_sent g + n)) /\
  0 <= n <= sl.
Proof.
  intros s g data s1 n sl (HJ & Hw & Hg & Htx & Htw & Htu & Hfl & Htc) H. unfold tcp_send_with in H.
  destruct (tcp_may_send s) eqn:Em; [|discriminate H]. cbn [negb] in H. cbv iota in H.
  destruct (rb_enqueue_pass (s_tx_buffer s) data) as [[tx n'] rest] eqn:Ee.
  assert (Hsl : n' <= rb_enqueue_window (s_tx_buffer s)).
  { unfold rb_enqueue_pass in Ee. unfold rb_enqueue_window. inv Ee. lia. }
  apply rb_enqueue_pass_len in Ee; [|exact Htx]. destruct Ee as (L1 & L2 & L0 & L3).
  assert (Hst : s_state s = Established \/ s_state s = CloseWait).
  { unfold tcp_may_send in Em. destruct (s_state s); try discriminate Em; auto. }
  assert (K : forall s2, s_state s2 = s_state s -> s_local_seq_no s2 = s_local_seq_no s ->
              s_tx_buffer s2 = tx -> s_syn_unacked_in_fin_wait s2 = s_syn_unacked_in_fin_wait s ->
              s_tuple s2 = s_tuple s ->
              (s_timer s2 = s_timer s \/ exists a b, s_timer s2 = TZeroWindowProbe a b) ->
              inv s2 (mkGhost (g_iss g) (g_sent g + n'))).
  { intros s2 K1 K2 K3 K4 K5 K6. unfold inv, J, tx_len in *. rewrite K1, K2, K3, K4, K5.
    unfold own_fin_seq in *. simpl.
    isplit; auto; try lia.
    - destruct Hst as [E|E]; rewrite E in *; rewrite L1, <- seq_add_add, HJ, seq_add_add; f_equal; lia.
    - intros E. destruct Hst; congruence.
    - intros e He. destruct K6 as [K6|(a & b & K6)]; [rewrite K6 in He; eauto | rewrite K6 in He; discriminate He]. }
  inv H. unfold tcp_send_impl_post.
  destruct (n >? 0).
  - repeat match goal with |- context [if ?c then _ else _] => destruct c end;
      (isplit; [reflexivity | apply K; simpl; auto; right; unfold timer_set_for_zero_window_probe; eauto | lia | exact Hsl]).
  - isplit; [reflexivity | apply K; auto | lia | exact Hsl].
Qed.

Definition ghost_step_x (cx : ctx) (s : socket) (g : ghost) (ev : event_x) (s' : socket) (out : step_out_x) : ghost :=
  match ev, out with
  | XEv e, XOut o => ghost_step cx s g e s' o
  | XConnectAf _ _ _ _, XOut OUnit => mkGhost (cx_isn cx) 0
  | XSendWith _, XSizeSlice n _ => mkGhost (g_iss g) (g_sent g + n)
  | _, _ => g
  end.

Definition wf_event_x (ev : event_x) : Prop :=
  match ev with XEv e => wf_event e | _ => True end.

(* allowed edges for the extended events: the closure calls never change the state, connect with
   explicit address families is connect *)
Definition allowed_x (s : socket) (g : ghost) (cx : ctx) (ev : event_x) (st' : tcp_state) : Prop :=
  match ev with
  | XEv e => allowed s g cx e st'
  | XConnectAf _ ra rp local => allowed s g cx (EvConnect ra rp local) st'
  | XSendWith _ | XRecvWith _ => st' = s_state s
  end.

Theorem step_x_ok : forall cx s g ev s' out tags,
  inv s g -> wf_ctx cx -> wf_event_x ev ->
  tcp_step_x cx s ev = Ok (s', out, tags) ->
  allowed_x s g cx ev (s_state s') /\ inv s' (ghost_step_x cx s g ev s' out).
Proof.
  intros cx s g ev s' out tags Hinv Hcx Hwf H. destruct ev as [ev|v6 ra rp local|data|k]; simpl in H.
  - unfold obind in H. destruct (tcp_step cx s ev) as [[[s1 o] tg]| |] eqn:E; inv H.
    simpl. eapply step_ok; eassumption.
  - pose proof (connect_af_spec cx s v6 ra rp local) as K.
    destruct (tcp_connect_af cx s v6 ra rp local) as [s1|e|]; inv H; simpl.
    + destruct K as (_ & _ & _ & _ & K & _). eapply connect_step; eassumption.
    + split; [apply allowed_refl | exact Hinv].
  - destruct (tcp_send_with s data) as [[[s1 n] sl]| |] eqn:E; inv H; simpl.
    + destruct (send_with_step s g data _ _ _ Hinv E) as (E1 & E2 & _). auto.
    + split; [reflexivity | exact Hinv].
  - destruct (tcp_recv_with s k) as [[[s1 l] sl]| |] eqn:E; inv H; simpl.
    + unfold tcp_recv_with in E. unfold obind in E. destruct (tcp_recv_error_check s); try discriminate E.
      destruct (rb_dequeue_pass (s_rx_buffer s) k) as [rx bytes]. inv E.
      split; [reflexivity|]. eapply inv_frame; [exact Hinv | | | | | |]; simpl; auto.
    + split; [reflexivity | exact Hinv].
Qed.

(* ================================================================== *)
(** * 8. The listen endpoint (bound address) *)
(* ================================================================== *)

(* listen() records exactly the endpoint it was given *)
Theorem listen_sets_endpoint : forall s ep s',
  tcp_listen s ep = Ok s' -> s_listen_endpoint s' = ep /\ s_state s' = Listen.
Proof.
  intros s ep s' H. unfold tcp_listen in H.
  destruct (le_port ep =? 0); [discriminate H|].
  destruct (tcp_is_open s).
  - destruct (tcp_state_eqb (s_state s) Listen) eqn:E1; simpl in H; [|discriminate H].
    destruct (listen_endpoint_eqb (s_listen_endpoint s) ep) eqn:E2; inv H.
    split; [|destruct (s_state s'); simpl in E1; congruence].
    unfold listen_endpoint_eqb, opt_eqb in E2.
    destruct (s_listen_endpoint s') as [a p], ep as [a' p']; simpl in *.
    apply andb_prop in E2. destruct E2 as [Ea Ep].
    apply Z.eqb_eq in Ep. subst.
    destruct a, a'; try discriminate Ea; try reflexivity. apply Z.eqb_eq in Ea. subst. reflexivity.
  - inv H. simpl. auto.
Qed.

(* processing a segment never changes the listen endpoint: in particular the RST that returns a
   half-open connection to LISTEN restores exactly the endpoint (address AND port) given to listen(),
   and leaves no tuple behind *)
Lemma process_keeps_listen_endpoint : forall cx s ip r s' rep tags,
  wf_repr r -> tcp_process cx s ip r = Ok (s', rep, tags) ->
  s_listen_endpoint s' = s_listen_endpoint s /\
  (s_state s = SynReceived -> s_state s' = Listen -> s_tuple s' = None).
Proof.
  intros cx s ip r s' rep tags Hwf H. unfold tcp_process in H.
  destruct (tcp_accepts s ip r); [|discriminate H]. simpl in H. unfold obind in H.
  destruct (tcp_process_ack_check cx s ip r) as [p1| |] eqn:E1; try discriminate H.
  destruct p1 as [t1 u | t1 s1 rep1].
  2:{ inv H. apply ack_check_ret in E1. destruct E1 as (Hc & _ & E & _). unfold core in Hc. inversion Hc.
      split; [exact E | intros; congruence]. }
  destruct (tcp_process_window cx s ip r) as [p2| |] eqn:E2; try discriminate H.
  destruct p2 as [t2 [[s2 payload] off] | t2 s2 rep2].
  2:{ inv H. apply window_ret in E2. destruct E2 as [(A1 & _ & _ & _ & _ & A6 & _) _].
      split; [exact A6 | intros; congruence]. }
  apply window_cont in E2; [|exact Hwf]. destruct E2 as [Hs2 _].
  assert (K : s_listen_endpoint s2 = s_listen_endpoint s /\ s_state s2 = s_state s /\
              tcp_reset s2 = tcp_reset s2).
  { destruct Hs2 as [->| ->]; simpl; auto. }
  destruct K as (K1 & K2 & _).
  destruct (tcp_process_ack_len s2 r) as [[[al aof] aall]| |] eqn:E3; try discriminate H.
  destruct (tcp_process_transition cx s2 ip r (tcp_process_quash s2 r) al aof) as [p3| |] eqn:E4;
    try discriminate H.
  destruct p3 as [t3 s3 | t3 s3 rep3].
  - destruct (tcp_process_update_remote cx s3 r al) as [[s4 iwu]| |] eqn:E5; try discriminate H.
    destruct (tcp_process_dup_ack cx s4 r al iwu) as [[s5 t5]| |] eqn:E6; try discriminate H.
    destruct (tcp_process_timers cx _ al aall) as [s6 t6] eqn:E7.
    destruct (tcp_process_zwp cx s6 al) as [s7 t7] eqn:E8.
    destruct (tcp_process_payload cx s7 ip r payload off) as [[[s8 rep8] t8]| |] eqn:E9; try discriminate H.
    inv H.
    apply transition_cont in E4. destruct E4 as (Htr & (_ & B2 & _ & _) & _).
    apply update_remote_spec in E5. destruct E5 as (C1 & _ & _ & _ & C5 & _).
    apply dup_ack_spec in E6. destruct E6 as (D1 & _ & D3 & _).
    apply timers_spec in E7. destruct E7 as (((F1 & _ & _ & _ & _ & F6 & _) & _) & _).
    apply zwp_spec in E8. destruct E8 as (((G1 & _ & _ & _ & _ & G6 & _) & _) & _).
    apply payload_spec in E9. destruct E9 as (((I1 & _ & _ & _ & _ & I6 & _) & _) & _).
    assert (Hts : forall sx, s_listen_endpoint
                    (match r_timestamp r with Some (tsval, _) => upd_last_remote_tsval sx tsval | None => sx end)
                    = s_listen_endpoint sx /\
                  s_state (match r_timestamp r with Some (tsval, _) => upd_last_remote_tsval sx tsval | None => sx end)
                    = s_state sx).
    { intros sx. destruct (r_timestamp r) as [[a b]|]; simpl; auto. }
    destruct (Hts s5) as [T1 T2].
    split; [congruence|].
    intros Es Es'. exfalso.
    assert (E8s : s_state s' = s_state s3) by congruence.
    unfold trans_rel in Htr. rewrite K2, Es in Htr. rewrite E8s in Es'. rewrite Es' in Htr.
    intuition congruence.
  - inv H. apply transition_ret in E4.
    destruct E4 as [((A1 & _ & _ & _ & _ & A6 & _) & _) | [(_ & _ & _ & _ & (_ & B2 & _) & B3 & B4) | (_ & _ & _ & ->)]].
    + split; [congruence | intros; congruence].
    + split; [congruence | intros _ E; congruence].
    + simpl. split; [exact K1 | intros _ _; destruct (reset_spec s2) as (_ & _ & _ & _ & _ & R6 & _); exact R6].
Qed.

Theorem segment_keeps_listen_endpoint : forall cx s ip r s' out tags,
  wf_repr r -> tcp_step cx s (EvSegment ip r) = Ok (s', out, tags) ->
  s_listen_endpoint s' = s_listen_endpoint s /\
  (s_state s = SynReceived -> s_state s' = Listen -> s_tuple s' = None).
Proof.
  intros cx s ip r s' out tags Hwf H. simpl in H. unfold obind in H.
  destruct (iface_tcp_ingress cx s ip r) as [[[s1 reply] tg]| |] eqn:E; inv H.
  unfold iface_tcp_ingress in E.
  destruct ((ip_src ip =? 0) || (ip_dst ip =? 0)); [inv E; split; [reflexivity | intros; congruence]|].
  destruct ((r_src_port r =? 0) || (r_dst_port r =? 0)); [inv E; split; [reflexivity | intros; congruence]|].
  destruct (tcp_accepts s ip r).
  - eapply process_keeps_listen_endpoint; eassumption.
  - destruct (control_eqb (r_control r) CRst); [inv E; split; [reflexivity | intros; congruence]|].
    unfold obind in E. destruct (tcp_rst_reply ip r); inv E. split; [reflexivity | intros; congruence].
Qed.

(* a listener bound to address a is blind to segments addressed elsewhere: the socket is untouched
   (the interface answers a non-RST segment with an RST from the address it was sent to) *)
Theorem bound_listener_ignores_other_address : forall cx s ip r a s' out tags,
  s_state s = Listen -> s_tuple s = None -> le_addr (s_listen_endpoint s) = Some a ->
  ip_dst ip <> a ->
  tcp_step cx s (EvSegment ip r) = Ok (s', out, tags) -> s' = s.
Proof.
  intros cx s ip r a s' out tags Es Et Ea Hd H. simpl in H. unfold obind in H.
  destruct (iface_tcp_ingress cx s ip r) as [[[s1 reply] tg]| |] eqn:E; inv H.
  unfold iface_tcp_ingress in E.
  destruct ((ip_src ip =? 0) || (ip_dst ip =? 0)); [inv E; reflexivity|].
  destruct ((r_src_port r =? 0) || (r_dst_port r =? 0)); [inv E; reflexivity|].
  assert (Hacc : tcp_accepts s ip r = false).
  { unfold tcp_accepts. rewrite Es, Et, Ea. simpl.
    destruct (is_some (r_ack_number r) || control_eqb (r_control r) CRst); [reflexivity|].
    destruct (Z.eqb_spec (ip_dst ip) a); [contradiction | reflexivity]. }
  rewrite Hacc in E.
  destruct (control_eqb (r_control r) CRst); [inv E; reflexivity|].
  unfold obind in E. destruct (tcp_rst_reply ip r); inv E. reflexivity.
Qed.
