(* C02 (liveness half), step 4 (zero window): the socket-level halves of the two ways a closed window
   reopens - PARTIAL: the composition over fair schedules (the analogue of Proofs/TcpProgressAck.v for
   the regime "remote window believed closed") is not done; what is proved here are the reactions it
   would be built from, each for every socket state satisfying the stated conditions:
     window_update_due        reader side: once tcp_window_to_update holds (the application has read
                              enough), poll_at is Now - a fair schedule dispatches before time passes
     window_update_learned    sender side: an empty segment at RCV.NXT carrying a window w > 0 and
                              acknowledging d >= 0 queued octets is accepted and the learned remote
                              window becomes w << scale > 0
     zero_window_probe_sent   sender side: the probe timer is due, the window is believed closed,
                              nothing is in flight: the dispatch sends exactly one octet from
                              SND.UNA and re-arms the probe timer within (now, now + RTTE_MAX_RTO]
   (the receiver's answer to the probe is Proofs/TcpProgressRecv.v: process_in_order /
   process_data_below / process_stale_data - an ACK carrying RCV.NXT and the current window is sent
   at once or owed). *)
From SV Require Import Lib.Base Gen.Consts.
From SV Require Import Model.Seq32 Model.Assembler Model.TcpBuf Model.TcpTypes Model.Tcp.
From SV Require Import Proofs.TcpSendBase Proofs.TcpLiveBase Proofs.TcpLiveProofs Proofs.TcpLiveMore
  Proofs.TcpLiveProgress.
From SV Require Import Proofs.TcpProgressSend.

(* ---------------------------------------------------------------------------------------- *)
(* reader side                                                                               *)
(* ---------------------------------------------------------------------------------------- *)
Theorem window_update_due : forall cx s,
  s_tuple s <> None -> tcp_window_to_update s = Ok true ->
  match tcp_poll_at cx s with Ok PNow => True | Ok _ => False | _ => True end.
Proof.
  intros cx s Htu Hw. unfold tcp_poll_at.
  destruct (s_tuple s); [|congruence]. cbn [is_some negb].
  destruct (is_some (s_remote_last_ts s)); cbn [negb]; [|exact I].
  destruct (tcp_state_eqb (s_state s) Closed); [exact I|].
  destruct (tcp_seq_to_transmit cx s) as [[|]|e|]; cbn [obind]; try exact I.
  rewrite Hw. cbn [obind]. exact I.
Qed.

(* ---------------------------------------------------------------------------------------- *)
(* sender side: the window update is learned                                                 *)
(* ---------------------------------------------------------------------------------------- *)
Definition win_scale_of (s : socket) (r : tcp_repr) : Z :=
  match r_control r with
  | CSyn => 0
  | _ => match s_remote_win_scale s with Some x => x | None => 0 end
  end.

Lemma update_remote_win : forall cx s r al s4 wu,
  tcp_process_update_remote cx s r al = Ok (s4, wu) ->
  s_remote_win_len s4 = shl (r_window_len r) (win_scale_of s r).
Proof.
  intros cx s r al s4 wu H. unfold tcp_process_update_remote in H. sproj in H.
  destruct (al >? 0).
  - destruct (negb (rb_len (s_tx_buffer s) >=? al)); [discriminate|].
    obind_inv H. inversion H; subst. sproj. reflexivity.
  - inversion H; subst. sproj. reflexivity.
Qed.

Theorem window_update_learned : forall cx s ip r s' reply tags d W,
  ctx_ok cx -> seg_ok r -> tcp_live_inv s -> s_state s = Established ->
  r_control r = CNone -> r_payload r = [] ->
  r_seq_number r = tcp_window_start s ->
  tcp_window_end s = seq_norm (tcp_window_start s + W) -> 0 <= W <= 2 ^ 30 ->
  r_ack_number r = Some (sq (s_local_seq_no s + d)) ->
  0 <= d <= rb_len (s_tx_buffer s) -> rb_len (s_tx_buffer s) < 2 ^ 30 ->
  0 < r_window_len r ->
  tcp_process cx s ip r = Ok (s', reply, tags) ->
  s_remote_win_len s' = shl (r_window_len r) (win_scale_of s r) /\ 0 < s_remote_win_len s' /\
  rb_len (s_tx_buffer s') = rb_len (s_tx_buffer s) - d.
Proof.
  intros cx s ip r s' reply tags d W Hcx Hseg I Hst Hc Hp Hsq Hwe HW Hack Hd Hl Hwin H.
  unfold tcp_process in H.
  destruct (negb (tcp_accepts s ip r)); [discriminate|].
  rewrite (ack_check_in_range cx s ip r d Hst Hc (li_una s I) Hd Hl Hack) in H. cbn [obind] in H.
  obind_inv H. rename a into p2. rename E into H2.
  pose proof (process_window_spec _ _ _ _ _ H2 I) as P2.
  destruct p2 as [t2 ((s2, payload), off)|t2 s2r rep2].
  2:{ exfalso. unfold tcp_process_window in H2. rewrite Hst in H2. rewrite Hsq, Hwe, Hp in H2.
      change (l_len []) with 0 in H2.
      assert (Hws : tcp_window_start s = sq (tcp_window_start s + 0)).
      { rewrite Z.add_0_r. unfold tcp_window_start. rewrite seq_add_raw. unfold sq.
        rewrite Z.mod_mod by (change (2 ^ 32) with 4294967296; lia). reflexivity. }
      pose proof (in_window_empty_sq (tcp_window_start s) W HW) as Hin.
      rewrite <- Hws in Hin.
      assert (Hz : seq_add (tcp_window_start s) 0 = tcp_window_start s).
      { rewrite seq_add_raw. symmetry. exact Hws. }
      rewrite Hz in H2.
      change (seq_norm (tcp_window_start s + W)) with (sq (tcp_window_start s + W)) in H2.
      destruct (tcp_segment_in_window _ _ _ _) as (inw, tg). cbn [fst] in Hin. subst inw.
      destruct (negb (seq_le _ _)); [discriminate|].
      repeat match type of H2 with
             | (do _ <- ?m; _) = _ => destruct m; cbn [obind] in H2; try discriminate
             end. }
  pose proof (inv_core_eq _ _ P2 I) as I2.
  pose proof P2 as (C1 & C2 & C3 & C4 & C5 & C6 & C7 & C8 & C9 & C10 & C11).
  obind_inv H. destruct a as ((al, aof), aall). rename E into Hal.
  assert (Hnr : r_control r <> CRst) by (rewrite Hc; discriminate).
  assert (Hst2 : s_state s2 = Established) by congruence.
  destruct (ack_len_established s2 r al aof aall d Hst2 ltac:(rewrite C5; apply (li_una s I))
              ltac:(change (2 ^ 31) with 2147483648; change (2 ^ 30) with 1073741824 in Hl; lia)
              ltac:(rewrite C5; exact Hack) Hnr Hal) as (-> & Ed).
  subst al.
  assert (Hq : tcp_process_quash s2 r = CNone) by (unfold tcp_process_quash; rewrite Hc; reflexivity).
  rewrite Hq in H. unfold tcp_process_transition in H. rewrite Hst2 in H. cbn [obind] in H.
  pose proof (inv_weak _ I2) as W3.
  obind_inv H. destruct a as (s4, wu). rename E into H4.
  destruct (update_remote_spec _ _ _ _ _ _ H4 W3 Hseg) as (W4 & S4 & T4 & U4 & N4 & _ & L4).
  pose proof (update_remote_win _ _ _ _ _ _ H4) as Hw4.
  obind_inv H. destruct a as (s5, t5). rename E into H5.
  destruct (dup_ack_spec _ _ _ _ _ _ _ H5 W4 Hseg) as (W5 & S5 & B5 & Wn5 & _).
  set (q5 := match r_timestamp r with
             | Some (tsval, _) => upd_last_remote_tsval s5 tsval
             | None => s5
             end) in *.
  assert (D52 : s_tx_buffer q5 = s_tx_buffer s5 /\ s_remote_win_len q5 = s_remote_win_len s5)
    by (unfold q5; destruct (r_timestamp r) as [(tv, te)|]; sproj; auto).
  destruct D52 as (D52 & D53). clearbody q5.
  pose proof (timers_spec cx q5 d aall) as P6.
  destruct (tcp_process_timers cx q5 d aall) as (s6, t6). cbn [fst] in P6.
  destruct P6 as ((_ & _ & F3 & _ & _ & F6 & _) & _).
  pose proof (zwp_spec cx s6 d) as P7.
  destruct (tcp_process_zwp cx s6 d) as (s7, t7). cbn [fst] in P7.
  destruct P7 as ((_ & _ & G3 & _ & _ & G6 & _) & _).
  obind_inv H. destruct a as ((s8, rep8), t8). rename E into H8.
  destruct (payload_core _ _ _ _ _ _ _ _ _ H8) as (_ & _ & _ & P4 & _ & _ & P7' & _).
  inversion H; subst s' reply tags; clear H.
  assert (Ew : s_remote_win_len s8 = shl (r_window_len r) (win_scale_of s r)).
  { rewrite P7', G6, F6, D53, Wn5, Hw4. unfold win_scale_of. rewrite C8. reflexivity. }
  split; [exact Ew|]. split.
  - rewrite Ew. unfold shl, win_scale_of.
    pose proof (li_scale s I) as Hs.
    assert (0 < 2 ^ (match r_control r with CSyn => 0 | _ => match s_remote_win_scale s with Some x => x | None => 0 end end)).
    { apply Z.pow_pos_nonneg; [lia|]. destruct (r_control r); destruct (s_remote_win_scale s); lia. }
    nia.
  - rewrite P4, G3, F3, D52, B5, L4, C4. destruct (Z.gtb_spec d 0); lia.
Qed.

(* ---------------------------------------------------------------------------------------- *)
(* sender side: the zero-window probe                                                        *)
(* ---------------------------------------------------------------------------------------- *)
Lemma zwp_not_retransmit : forall e d now, timer_should_retransmit (TZeroWindowProbe e d) now = false.
Proof. reflexivity. Qed.

Theorem zero_window_probe_sent : forall cx s e d0 s' res tags,
  tcp_live_inv s -> s_state s = Established ->
  s_timer s = TZeroWindowProbe e d0 -> e <= cx_now cx -> 0 < d0 ->
  s_remote_win_len s = 0 -> 0 < rb_len (s_tx_buffer s) ->
  s_remote_last_seq s = s_local_seq_no s ->
  s_timeout s = None ->
  (forall t, s_tuple s = Some t -> tu_local_addr t = cx_addr cx) ->
  mss_ok cx s ->
  tcp_dispatch cx s true = Ok (s', res, tags) ->
  exists ip repr,
    res = DSent (ip, repr) /\
    r_seq_number repr = s_local_seq_no s /\ l_len (r_payload repr) = 1 /\
    (exists e' d', s_timer s' = TZeroWindowProbe e' d' /\ cx_now cx < e' <= cx_now cx + max_rto_us) /\
    s_local_seq_no s' = s_local_seq_no s /\ s_state s' = s_state s.
Proof.
  intros cx s e d0 s' res tags I Hst Ht He Hd0 Hwin Hlen Hfl Hto Haddr Hmss H. unfold tcp_dispatch in H.
  assert (L : st_live (s_state s) = true) by (rewrite Hst; reflexivity).
  pose proof (li_tuple s I (live_conn _ L)) as Htu.
  destruct (s_tuple s) as [t|] eqn:Etu; [|congruence].
  rewrite (Haddr t eq_refl), Z.eqb_refl in H. cbn [negb] in H.
  obind_inv H. destruct a as (s1, t1). rename E into Edt.
  pose proof (dispatch_timers_inv _ _ _ _ I Edt) as I1.
  pose proof (dt_pre_core cx s) as C. pose proof C as (Q1 & Q2 & Q3 & Q4 & Q5 & Q6 & Q7 & Q8 & Q9 & Q10 & Q11).
  pose proof (not_timed_out (dt_pre cx s) (cx_now cx) ltac:(rewrite dt_pre_timeout; exact Hto)) as Hnto.
  assert (Cg : s_tsval_generator (dt_pre cx s) = s_tsval_generator s /\
               s_pending_fast_retransmit (dt_pre cx s) = s_pending_fast_retransmit s /\
               s_keep_alive (dt_pre cx s) = s_keep_alive s).
  { unfold dt_pre. destruct (is_some (s_remote_last_ts s)); sproj; auto. }
  assert (E1 : s1 = dt_pre cx s).
  { destruct (dt_spec _ _ _ _ Edt) as [(X & _) | [(_ & _ & ->) | (_ & X & _)]]; [|reflexivity|].
    - rewrite Hnto in X. discriminate.
    - rewrite Q2, Ht in X. discriminate. }
  subst s1.
  assert (Hz1 : timer_should_zero_window_probe (s_timer (dt_pre cx s)) (cx_now cx) = true).
  { rewrite Q2, Ht. cbn. lia. }
  assert (Hmss1 : mss_ok cx (dt_pre cx s)) by (unfold mss_ok in *; rewrite Q11; exact Hmss).
  revert Edt I1 H Q1 Q2 Q4 Q5 Q6 Q7 Q11 Cg Hz1 Hmss1. generalize (dt_pre cx s).
  intros s1 Edt I1 H Q1 Q2 Q4 Q5 Q6 Q7 Q11 Cg Hz1 Hmss1.
  obind_inv H. destruct a as ((s2, go), t2). rename E into Edd.
  assert (Hgo : s2 = s1 /\ go = true).
  { unfold tcp_dispatch_decide in Edd.
    destruct (tcp_seq_to_transmit cx s1) as [[|]|e0|]; cbn [obind] in Edd; try discriminate; [inversion Edd; auto|].
    destruct (tcp_ack_to_transmit s1 && tcp_delayed_ack_expired s1 (cx_now cx)); [inversion Edd; auto|].
    destruct (tcp_window_to_update s1) as [[|]|e0|]; cbn [obind] in Edd; try discriminate; [inversion Edd; auto|].
    destruct (tcp_state_eqb (s_state s1) Closed); [inversion Edd; auto|].
    destruct (timer_should_keep_alive (s_timer s1) (cx_now cx)); [inversion Edd; auto|].
    rewrite Hz1 in Edd. inversion Edd; auto. }
  destruct Hgo as (-> & ->). cbn [negb] in H.
  obind_inv H. destruct a as ((((s3, o), z), k), t3). rename E into Ebd.
  destruct (build_core _ _ _ _ _ _ _ _ Ebd) as (C3 & _).
  (* the segment built: one octet from SND.UNA, is_zero_window_probe *)
  assert (Hb : exists repr, o = Some repr /\ z = true /\ k = false /\
                            r_seq_number repr = s_local_seq_no s /\ l_len (r_payload repr) = 1).
  { unfold tcp_dispatch_build in Ebd.
    change (mkRepr (tu_local_port t) (tu_remote_port t) CNone (s_remote_last_seq s1)
              (Some (tcp_window_start s1)) (tcp_scaled_window s1) None None false no_sack
              (if s_tsval_generator s1 then Some (cx_tsval cx, s_last_remote_tsval s1) else None) [])
      with (base_repr cx s1 t) in Ebd.
    obind_inv Ebd. destruct a as (((sb, ob), zb), tb). rewrite Q1, Hst in E.
    unfold tcp_dispatch_build_data in E.
    rewrite base_repr_options, (local_mss_ok cx s1 Hmss1) in E. cbn [obind] in E.
    set (emss := sat_sub (Z.min (cx_ip_mtu cx - wipv4_HEADER_LEN - wtcp_HEADER_LEN) (s_remote_mss s1))
                         (if s_tsval_generator s1 then 12 else 0)) in *.
    assert (Hem : 0 < emss).
    { unfold emss, sat_sub. destruct Hmss1 as (_ & Hm). destruct (s_tsval_generator s1); lia. }
    rewrite Q7, Hwin in E. replace (0 >? 0) with false in E by reflexivity. rewrite andb_false_r in E.
    pose proof (li_una s1 I1) as Hu1.
    rewrite (seq_add_zero _ Hu1), Q6, Hfl, <- Q5 in E.
    rewrite (seq_lt_false_ge _ _ (seq_lt_irrefl _)), seq_sub_self in E. cbn [obind] in E.
    rewrite Hz1 in E. cbn [Z.eqb andb] in E. change (0 =? 0) with true in E. cbn [andb obind] in E.
    unfold tcp_flight_size in E. rewrite Q6, Hfl, <- Q5, seq_sub_self in E. cbn [obind] in E.
    replace (Z.min 1 emss) with 1 in E by lia.
    pose proof (li_tx s1 I1) as Hwf1.
    assert (Hp1 : l_len (rb_get_allocated (s_tx_buffer s1) 0 1) = 1).
    { pose proof (ga_nonempty (s_tx_buffer s1) 1 Hwf1 ltac:(rewrite Q4; exact Hlen) ltac:(lia)).
      pose proof (rb_get_allocated_len (s_tx_buffer s1) 0 1 Hwf1 ltac:(lia)). lia. }
    cbv zeta beta iota in E.
    cbn [r_payload repr_set_payload base_repr] in E.
    assert (Hfin : forall rr, r_payload rr = rb_get_allocated (s_tx_buffer s1) 0 1 ->
                              r_seq_number rr = s_remote_last_seq s1 -> r_control rr <> CSyn ->
              ob = Some rr -> zb = true ->
              exists repr, o = Some repr /\ z = true /\ k = false /\
                           r_seq_number repr = s_local_seq_no s /\ l_len (r_payload repr) = 1).
    { intros rr Hpr Hsr Hcr -> ->. cbv zeta in Ebd.
      assert (Hne : repr_is_empty rr = false).
      { unfold repr_is_empty. rewrite Hpr. destruct (rb_get_allocated (s_tx_buffer s1) 0 1); [cbn in Hp1; lia | reflexivity]. }
      rewrite Hne in Ebd. cbn [andb] in Ebd. rewrite ?Hne, ?andb_false_r in Ebd.
      assert (Hcs : control_eqb (r_control rr) CSyn = false) by (destruct (r_control rr); try reflexivity; congruence).
      rewrite Hcs in Ebd. cbn [obind] in Ebd. inversion Ebd; subst. exists rr.
      split; [reflexivity|]. split; [reflexivity|]. split; [reflexivity|].
      split; [rewrite Hsr, Q6, Hfl; reflexivity | rewrite Hpr; exact Hp1]. }
    match type of E with context [if ?b then _ else _] => destruct b end.
    - rewrite Q1, Hst in E.
      destruct (rb_get_allocated (s_tx_buffer s1) 0 1) eqn:Ega; [cbn in Hp1; lia|].
      inversion E; subst sb ob zb tb.
      eapply Hfin; [| | |reflexivity|reflexivity];
        cbn [r_payload r_seq_number r_control repr_set_control repr_set_payload base_repr];
        try reflexivity; try discriminate; try (rewrite Ega; reflexivity).
    - inversion E; subst sb ob zb tb.
      eapply Hfin; [| | |reflexivity|reflexivity];
        cbn [r_payload r_seq_number r_control repr_set_control repr_set_payload base_repr];
        try reflexivity; try discriminate. }
  destruct Hb as (repr & -> & -> & -> & Hseq & Hpl).
  cbn [negb] in H.
  destruct C3 as (C31 & C32 & _ & _ & C35 & _).
  (* finish: the probe timer is rewound *)
  unfold tcp_dispatch_finish in H. sproj in H. rewrite C32, Q2, Ht in H.
  cbn [timer_rewind_keep_alive timer_rewind_zero_window_probe] in H.
  inversion H; subst s' res tags; clear H. sproj.
  eexists. exists repr. split; [reflexivity|]. split; [exact Hseq|]. split; [exact Hpl|].
  split.
  - eexists. eexists. split; [reflexivity|]. pose proof max_rto_us_pos as Hm. unfold max_rto_us in *. lia.
  - split; congruence.
Qed.
