(* C04, layer 5: the lift over event lists.  A ghost state (connection epoch, the peer's initial
   sequence number, octets consumed, their concatenation, offsets that arrived) is updated along
   every finite sequence of events of Model/Tcp.v's [tcp_step]; the receiver invariant holds in
   every reachable state, and the C04 theorems follow.

   The peer of connection epoch e has stream [S e] and FIN position [F e]; a new epoch starts
   whenever the socket accepts a SYN. *)
From SV Require Import Lib.Base Gen.Consts.
From SV Require Import Model.Seq32 Model.Assembler Model.TcpBuf Model.TcpTypes Model.Tcp.
From SV Require Import Proofs.AssemblerProofs Proofs.TcpRecvBase Proofs.TcpRecvWindow
  Proofs.TcpRecvPayload Proofs.TcpRecvInv Proofs.TcpRecvProcess Proofs.TcpRecvStep
  Proofs.TcpRecvSync Proofs.TcpRecvDispatch.

Record ghost := mkGhost {
  g_epoch : nat;            (* number of SYNs accepted so far *)
  g_irs : option Z;         (* Some irs: synchronised, the peer's SYN carried sequence number irs *)
  g_consumed : Z;           (* octets handed to the application in this connection *)
  g_delivered : list Z;     (* concatenation of everything recv returned in this connection *)
  g_have : Z -> Prop        (* stream offsets that arrived in some segment of this connection *)
}.

Definition g_init : ghost := mkGhost 0 None 0 [] (fun _ => False).
Definition g_unsync (g : ghost) : ghost := mkGhost (g_epoch g) None 0 [] (fun _ => False).

Definition is_state (s : socket) (st : tcp_state) : bool := tcp_state_eqb (s_state s) st.

Lemma is_state_true s st : is_state s st = true -> s_state s = st.
Proof. apply tcp_state_eqb_true. Qed.
Lemma is_state_false s st : is_state s st = false -> s_state s <> st.
Proof. unfold is_state. intros H E. rewrite E in H. destruct st; discriminate. Qed.

(* the ghost after one step; [s] is the socket before, [s'] after *)
Definition ghost_step (cx : ctx) (g : ghost) (s : socket) (ev : event) (s' : socket) (out : step_out)
  : ghost :=
  match ev with
  | EvRecv _ =>
      match out with
      | OBytes b => mkGhost (g_epoch g) (g_irs g) (g_consumed g + l_len b) (g_delivered g ++ b) (g_have g)
      | _ => g
      end
  | EvListen _ | EvConnect _ _ _ =>
      match out with OUnit => g_unsync g | _ => g end
  | EvSegment ip r =>
      match g_irs g with
      | Some irs =>
          if is_state s' Listen then g_unsync g
          else mkGhost (g_epoch g) (Some irs) (g_consumed g) (g_delivered g)
                       (have_seg (g_have g) (g_consumed g) s r)
      | None =>
          if is_state s' SynReceived || is_state s' Established
          then mkGhost (Datatypes.S (g_epoch g)) (Some (r_seq_number r)) 0 [] (fun _ => False)
          else g
      end
  | EvDispatch _ => if dispatch_resets cx s then g_unsync g else g
  | _ => g
  end.

(* what a step sends *)
Definition emitted (out : step_out) : option packet :=
  match out with
  | OReply (Some p) => Some p
  | ODispatch (DSent p) | ODispatch (DEmitFailed p) => Some p
  | _ => None
  end.

Lemma rx_synced_sent (St : Z -> Z) (Ft : option Z) have irs c s' s :
  rxv_rest s' s -> s_remote_last_ack s' = Some (tcp_window_start s) ->
  0 <= s_remote_last_win s' ->
  shl (s_remote_last_win s') (s_remote_win_shift s) <= rb_window (s_rx_buffer s) ->
  st_ok c s' ->
  rx_synced St Ft have irs c s -> rx_synced St Ft have irs c s'.
Proof.
  intros (E1 & E2 & E3 & E4 & E7) E5 Hlw0 Hlw1 Hst Hinv.
  pose proof (synced_window_start _ _ _ _ _ _ Hinv) as Hws.
  destruct Hinv as (Hb & Hs & (Hm1 & Hm2 & Hm3) & Hw & _).
  pose proof Hb as (Hwf & Hcap & _ & _ & Hc & _). pose proof Hwf as (Hl & _).
  unfold rx_synced, seq_ok, misc_ok, win_ok, lwb, wsq, finz, rb_window in *.
  rewrite E1, E2, E3, E4, E5, E7, Hws.
  split; [exact Hb|]. split; [exact Hs|]. split; [lia|]. split; [|exact Hst].
  exists (c + rb_len (s_rx_buffer s) + b2z (s_rx_fin_received s)).
  split; [reflexivity|]. pose proof (b2z_range (s_rx_fin_received s)). unfold wsq, finz. lia.
Qed.

Definition tcp_state_of_close (st : tcp_state) : tcp_state :=
  match st with
  | Listen | SynSent => Closed
  | SynReceived | Established => FinWait1
  | CloseWait => LastAck
  | x => x
  end.

Lemma close_state s : s_state (tcp_close s) = tcp_state_of_close (s_state s).
Proof. unfold tcp_close, tcp_state_of_close. destruct (s_state s) eqn:E; rproj; try rewrite E; reflexivity. Qed.

Section Trace.
  Variable S : nat -> Z -> Z.
  Variable F : nat -> option Z.

  Definition delivered_ok (g : ghost) : Prop :=
    l_len (g_delivered g) = g_consumed g /\
    forall j, 0 <= j < g_consumed g -> znth (g_delivered g) j = S (g_epoch g) j.

  (* the invariant I1-I6 with its ghost *)
  Definition ginv (g : ghost) (s : socket) : Prop :=
    match g_irs g with
    | Some irs => rx_synced (S (g_epoch g)) (F (g_epoch g)) (g_have g) irs (g_consumed g) s /\
                  delivered_ok g
    | None => rx_unsynced s /\ g_consumed g = 0 /\ g_delivered g = []
    end.

  (* admissible events: a segment of a synchronised connection is consistent with the peer's
     stream; sizes are non-negative (usize) and sequence numbers are 32-bit values *)
  Definition ev_ok (g : ghost) (s : socket) (ev : event) : Prop :=
    match ev with
    | EvSegment ip r =>
        0 <= r_seq_number r < 4294967296 /\
        match g_irs g with
        | Some _ => seg_ok (S (g_epoch g)) (F (g_epoch g)) (g_consumed g) s r
        | None => True
        end
    | EvRecv n => 0 <= n
    | _ => True
    end.

  (* number of sequence numbers of the peer acknowledged by RCV.NXT *)
  Definition rcv_count (g : ghost) (s : socket) : Z := g_consumed g + rb_len (s_rx_buffer s).

  (* what an emitted ACK number may be *)
  Definition ack_ok (g : ghost) (s : socket) (p : packet) : Prop :=
    r_control (snd p) = CRst \/ r_ack_number (snd p) = None \/
    exists irs, g_irs g = Some irs /\
      r_ack_number (snd p) =
        Some (seq_norm (irs + 1 + rcv_count g s + b2z (s_rx_fin_received s))) /\
      (forall k, 0 <= k < rcv_count g s -> g_have g k) /\
      (s_rx_fin_received s = true -> F (g_epoch g) = Some (rcv_count g s)).

  Lemma ginv_wf g s : ginv g s ->
    rb_wf (s_rx_buffer s) /\ rb_cap (s_rx_buffer s) <= p30 /\ 0 <= s_remote_win_shift s.
  Proof.
    unfold ginv. destruct (g_irs g).
    - intros (((Hwf & Hcap & _) & _ & (_ & Hs & _) & _) & _).
      split; [exact Hwf|]. split; [exact Hcap | exact Hs].
    - intros ((Hwf & Hcap & _ & _ & _ & (_ & Hs & _) & _) & _).
      split; [exact Hwf|]. split; [exact Hcap | exact Hs].
  Qed.

  Lemma synced_ack_ok g s irs p :
    g_irs g = Some irs ->
    rx_synced (S (g_epoch g)) (F (g_epoch g)) (g_have g) irs (g_consumed g) s ->
    r_ack_number (snd p) = Some (tcp_window_start s) -> ack_ok g s p.
  Proof.
    intros Hg Hinv Hp. right. right. exists irs. split; [exact Hg|].
    rewrite Hp, (synced_window_start _ _ _ _ _ _ Hinv).
    destruct Hinv as (Hb & (_ & Hfin) & _).
    destruct Hb as (_ & _ & _ & _ & _ & _ & _ & Hhave & _).
    unfold rcv_count, wsq, finz. split; [f_equal; f_equal; lia|]. split; [exact Hhave | exact Hfin].
  Qed.


  (* ------------------------------------------------------------------------------------ *)
  (* one event                                                                             *)
  (* ------------------------------------------------------------------------------------ *)

  Lemma delivered_ok_app g b :
    delivered_ok g -> (forall j, 0 <= j < l_len b -> znth b j = S (g_epoch g) (g_consumed g + j)) ->
    delivered_ok (mkGhost (g_epoch g) (g_irs g) (g_consumed g + l_len b) (g_delivered g ++ b) (g_have g)).
  Proof.
    intros (Hl & Hd) Hb. unfold delivered_ok. cbn [g_epoch g_consumed g_delivered].
    pose proof (l_len_nonneg b) as Hb0. pose proof (l_len_nonneg (g_delivered g)) as Hd0.
    split.
    - rewrite !l_len_spec, app_length, Nat2Z.inj_add, <- !l_len_spec. lia.
    - intros j Hj. rewrite znth_app by lia. rewrite Hl.
      destruct (Z.ltb_spec j (g_consumed g)); [apply Hd; lia|].
      rewrite Hb by lia. f_equal. lia.
  Qed.

  Lemma recv_err2 s n :
    tcp_recv_slice s n = Err 2 -> s_rx_fin_received s = true /\ rb_len (s_rx_buffer s) = 0.
  Proof.
    unfold tcp_recv_slice, tcp_recv_error_check. intros H.
    destruct (tcp_may_recv s) eqn:Hm; cbn [negb obind] in H.
    - destruct (rb_dequeue_slice (s_rx_buffer s) n). discriminate.
    - destruct (s_rx_fin_received s); [|discriminate]. split; [reflexivity|].
      unfold tcp_may_recv, tcp_can_recv, rb_is_empty in Hm.
      destruct (s_state s); try discriminate;
        destruct (Z.eqb_spec (rb_len (s_rx_buffer s)) 0); try discriminate; assumption.
  Qed.

  Lemma recv_unsynced s n : rx_unsynced s -> tcp_recv_slice s n = Err 1.
  Proof.
    intros (_ & _ & Hlen & _ & Hfin & _ & Hst). unfold tcp_recv_slice, tcp_recv_error_check.
    unfold tcp_may_recv, tcp_can_recv, rb_is_empty. rewrite Hlen, Hfin.
    destruct (s_state s); try contradiction; reflexivity.
  Qed.

  Definition step_post (g : ghost) (s : socket) (ev : event) (g' : ghost) (s' : socket)
             (out : step_out) : Prop :=
    ginv g' s' /\
    (forall p, emitted out = Some p -> ack_ok g' s' p) /\
    (forall n, ev = EvRecv n -> out = OErr 2 ->
       exists irs, g_irs g = Some irs /\ F (g_epoch g) = Some (g_consumed g)) /\
    (forall ip r, ev = EvSegment ip r -> beyond_untouched s' s).

  Lemma step_segment (F_nonneg : forall e f, F e = Some f -> 0 <= f) cx g s ip r s' rep tags :
    ginv g s -> ev_ok g s (EvSegment ip r) ->
    iface_tcp_ingress cx s ip r = Ok (s', rep, tags) ->
    let g' := ghost_step cx g s (EvSegment ip r) s' (OReply rep) in
    ginv g' s' /\ (forall p, rep = Some p -> ack_ok g' s' p) /\ beyond_untouched s' s.
  Proof.
    intros Hinv (Hsq & Hseg) Hi. cbn [ghost_step]. unfold ginv in Hinv.
    destruct (ingress_cases cx s ip r s' rep tags Hi) as [(-> & Hrep) | Hp].
    - (* not for this socket: unchanged, at most an RST *)
      assert (Hb : beyond_untouched s s) by (intros i _; reflexivity).
      destruct (g_irs g) as [irs|] eqn:Eg.
      + destruct Hinv as (Hs & Hd).
        assert (Hnl : is_state s Listen = false).
        { destruct Hs as (_ & _ & _ & _ & Hst). unfold st_ok, is_state in *.
          destruct (s_state s); try contradiction; reflexivity. }
        rewrite Hnl. split; [|split; [|exact Hb]].
        * unfold ginv. cbn [g_irs g_epoch g_consumed g_have]. split; [|exact Hd].
          eapply rx_synced_mono; [|exact Hs]. intros k Hk. left. exact Hk.
        * intros p ->. left. exact Hrep.
      + destruct Hinv as (Hu & Hc & Hd).
        assert (Hns : is_state s SynReceived || is_state s Established = false).
        { destruct Hu as (_ & _ & _ & _ & _ & _ & Hst). unfold is_state.
          destruct (s_state s); try contradiction; reflexivity. }
        rewrite Hns. split; [|split; [|exact Hb]].
        * unfold ginv. rewrite ?Eg. split; [exact Hu|]. split; assumption.
        * intros p ->. left. exact Hrep.
    - destruct (g_irs g) as [irs|] eqn:Eg.
      + destruct Hinv as (Hs & Hd).
        destruct (process_synced _ _ _ _ _ _ _ _ _ _ _ _ Hs Hseg Hp) as (Hrep & Hpost & Hb & _).
        destruct Hpost as [Hs' | (Hu' & Hl & -> & _)].
        * assert (Hnl : is_state s' Listen = false).
          { destruct Hs' as (_ & _ & _ & _ & Hst). unfold st_ok, is_state in *.
            destruct (s_state s'); try contradiction; reflexivity. }
          rewrite Hnl. split; [|split; [|exact Hb]].
          -- unfold ginv. cbn [g_irs g_epoch g_consumed g_have]. split; [exact Hs' | exact Hd].
          -- intros p ->. unfold reply_ok in Hrep. destruct Hrep as [Hr | (_ & Hr & _)]; [left; exact Hr|].
             eapply synced_ack_ok; [reflexivity | exact Hs' | exact Hr].
        * assert (Hil : is_state s' Listen = true) by (unfold is_state; rewrite Hl; reflexivity).
          rewrite Hil. split; [|split; [|exact Hb]].
          -- unfold ginv, g_unsync. cbn [g_irs g_consumed g_delivered]. split; [exact Hu'|]. split; reflexivity.
          -- intros p Hp'. discriminate.
      + destruct Hinv as (Hu & Hc & Hd).
        destruct (process_unsynced (S (Datatypes.S (g_epoch g))) (F (Datatypes.S (g_epoch g)))
                    (F_nonneg _) s cx ip r s' rep tags Hu Hsq Hp) as (Hrep & Hrx & _ & Hpost).
        assert (Hb : beyond_untouched s' s) by (intros i _; rewrite Hrx; reflexivity).
        destruct Hpost as [(Hu' & Hst') | (Hsyn & Hst' & Hs')].
        * assert (Hns : is_state s' SynReceived || is_state s' Established = false).
          { unfold is_state. destruct (s_state s'); try contradiction; reflexivity. }
          rewrite Hns. split; [|split; [|exact Hb]].
          -- unfold ginv. rewrite ?Eg. split; [exact Hu'|]. split; assumption.
          -- intros p ->. left. exact Hrep.
        * assert (Hns : is_state s' SynReceived || is_state s' Established = true).
          { unfold is_state. destruct Hst' as [-> | ->]; reflexivity. }
          rewrite Hns. split; [|split; [|exact Hb]].
          -- unfold ginv, delivered_ok. cbn [g_irs g_epoch g_consumed g_have g_delivered].
             split; [exact Hs'|]. split; [reflexivity|]. intros j Hj. lia.
          -- intros p ->. left. exact Hrep.
  Qed.

  Lemma step_recv g s n s' out tags cx :
    ginv g s -> 0 <= n -> tcp_step cx s (EvRecv n) = Ok (s', out, tags) ->
    let g' := ghost_step cx g s (EvRecv n) s' out in
    ginv g' s' /\ emitted out = None /\
    (out = OErr 2 -> exists irs, g_irs g = Some irs /\ F (g_epoch g) = Some (g_consumed g)).
  Proof.
    intros Hinv Hn H. cbn [tcp_step ghost_step] in *. unfold ginv in Hinv.
    destruct (g_irs g) as [irs|] eqn:Eg.
    - destruct Hinv as (Hs & Hd).
      destruct (tcp_recv_slice s n) as [(s1, b)|e|] eqn:Hr; [| |discriminate]; inversion H; subst; clear H.
      + destruct (recv_slice_synced _ _ _ _ _ _ _ _ _ Hs Hn Hr) as (Hb & Hk & Hs' & _).
        split; [|split; [reflexivity | discriminate]].
        unfold ginv. cbn [g_irs g_epoch g_consumed g_have]. rewrite ?Eg. split; [exact Hs'|].
        pose proof (delivered_ok_app g b Hd Hb) as Hda. rewrite ?Eg in Hda. exact Hda.
      + split; [unfold ginv; rewrite ?Eg; split; assumption|]. split; [reflexivity|].
        intros He. inversion He; subst e. destruct (recv_err2 _ _ Hr) as (Hf & Hl).
        exists irs. split; [reflexivity|]. destruct Hs as (_ & (_ & Hfin) & _).
        rewrite (Hfin Hf), Hl. f_equal. lia.
    - destruct Hinv as (Hu & Hc & Hd). rewrite (recv_unsynced s n Hu) in H.
      inversion H; subst. split; [unfold ginv; rewrite ?Eg; split; [exact Hu|]; split; assumption|].
      split; [reflexivity | discriminate].
  Qed.

  Lemma st_ok_closed c s' : s_state s' = Closed -> st_ok c s'.
  Proof. intros H. unfold st_ok. rewrite H. exact I. Qed.

  Lemma step_dispatch cx g s emit_ok s' res tags :
    ginv g s -> tcp_dispatch cx s emit_ok = Ok (s', res, tags) ->
    let g' := ghost_step cx g s (EvDispatch emit_ok) s' (ODispatch res) in
    ginv g' s' /\ (forall p, emitted (ODispatch res) = Some p -> ack_ok g' s' p).
  Proof.
    intros Hinv H. destruct (ginv_wf _ _ Hinv) as (Hwf & Hcap & Hsh).
    cbn [ghost_step]. unfold ginv in Hinv.
    destruct (dispatch_spec cx s emit_ok s' res tags Hwf Hsh H)
      as [(Hr & -> & ->) | (Hr & Hv & Hst & Hla & Hpk)]; rewrite Hr.
    - split; [|intros p Hp; discriminate].
      unfold ginv, g_unsync. cbn [g_irs g_consumed g_delivered].
      split; [apply reset_unsynced; assumption|]. split; reflexivity.
    - pose proof Hv as (V1 & V2 & V3 & V4 & V7).
      assert (Hws : tcp_window_start s' = tcp_window_start s)
        by (unfold tcp_window_start; rewrite V2, V4; reflexivity).
      destruct (g_irs g) as [irs|] eqn:Eg.
      + destruct Hinv as (Hs & Hd).
        assert (Hsto : st_ok (g_consumed g) s').
        { destruct Hst as [Hst|Hst]; [|apply st_ok_closed; exact Hst].
          pose proof Hs as (_ & _ & _ & _ & Hso). unfold st_ok in *. rewrite Hst, V1, V2, V3. exact Hso. }
        assert (Hns : s_state s <> SynSent /\ s_state s <> Listen).
        { destruct Hs as (_ & _ & _ & _ & Hso). unfold st_ok in Hso.
          destruct (s_state s); try contradiction; split; discriminate. }
        assert (Hs' : rx_synced (S (g_epoch g)) (F (g_epoch g)) (g_have g) irs (g_consumed g) s').
        { destruct Hla as [(L1 & L2) | (_ & Hack & Hlw0 & Hlw1)].
          - eapply rx_synced_view; [|exact Hsto | exact Hs]. unfold rxv_eq. tauto.
          - destruct Hack as [(_ & Hss) | Hack]; [destruct Hns; congruence|].
            eapply rx_synced_sent; eassumption. }
        split; [unfold ginv; rewrite ?Eg; split; assumption|].
        intros p Hp.
        assert (Hpp : packet_rx_ok s p) by (destruct res; inversion Hp; subst; exact Hpk).
        destruct Hpp as [Hc | [Hn | (Ha & _)]]; [left; exact Hc | right; left; exact Hn|].
        eapply synced_ack_ok; [exact Eg | exact Hs' | rewrite Hws; exact Ha].
      + destruct Hinv as (Hu & Hc & Hd).
        pose proof Hu as (U1 & U2 & U3 & U4 & U5 & (U6 & U7 & U8) & U9).
        split.
        * unfold ginv. rewrite ?Eg. split; [|split; assumption].
          unfold rx_unsynced, misc_ok, lwb. rewrite V1, V2, V3, V7.
          repeat (split; [assumption|]). split.
          -- destruct Hla as [(_ & L2) | (_ & _ & Hlw0 & Hlw1)].
             ++ rewrite L2. repeat split; assumption.
             ++ unfold rb_window in Hlw1. repeat split; try assumption. lia.
          -- destruct Hst as [-> | ->]; [exact U9 | exact I].
        * intros p Hp.
          assert (Hpp : packet_rx_ok s p) by (destruct res; inversion Hp; subst; exact Hpk).
          destruct Hpp as [Hc' | [Hn | (_ & N1 & N2 & N3)]]; [left; exact Hc' | right; left; exact Hn|].
          exfalso. destruct (s_state s); try contradiction; congruence.
  Qed.

  (* API calls other than recv *)
  Lemma step_view g s s' :
    ginv g s -> rxv_eq s' s ->
    (s_state s' = s_state s \/ s_state s' = Closed \/
     (s_state s' = tcp_state_of_close (s_state s))) ->
    ginv g s'.
  Proof.
    intros Hinv He Hst. unfold ginv in *. destruct (g_irs g) as [irs|].
    - destruct Hinv as (Hs & Hd). split; [|exact Hd].
      eapply rx_synced_view; [exact He| |exact Hs].
      pose proof Hs as (_ & _ & _ & _ & Hso). destruct He as (E1 & E2 & E3 & _).
      unfold st_ok in *. rewrite E1, E2, E3.
      destruct Hst as [-> | [-> | ->]]; [exact Hso | exact I|].
      unfold tcp_state_of_close. destruct (s_state s); tauto.
    - destruct Hinv as (Hu & Hc). split; [|exact Hc].
      eapply unsynced_state_change; [exact He| |exact Hu].
      destruct Hu as (_ & _ & _ & _ & _ & _ & Hso).
      destruct Hst as [-> | [-> | ->]]; [exact Hso | exact I|].
      unfold tcp_state_of_close. destruct (s_state s); tauto.
  Qed.
End Trace.
