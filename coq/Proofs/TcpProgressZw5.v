(* C02 (liveness half), steps 4 + 5: the run hypothesis [zsafe2] of Proofs/TcpProgressZw4.v DERIVED from the
   regime invariant and C01's network invariant, and the delivery theorem WITHOUT "the window is open":
   oneway_delivery_zw - from a state reached from net_init in which both sockets are ESTABLISHED, on every
   reliable schedule (fair_run + once_run) of the one-way workload every octet written is handed to the
   peer application within n * (3 RTTE_MAX_RTO + 3 Dt + Da), n = octets unacknowledged + octets unread.
   The only premise about the states of the run is [zextra] (Proofs/TcpProgressZw3.v). *)
From SV Require Import Lib.Base Gen.Consts.
From SV Require Import Model.Seq32 Model.Assembler Model.TcpBuf Model.TcpTypes Model.Tcp Model.TcpNet.
From SV Require Import Proofs.TcpSendBase Proofs.TcpLiveBase Proofs.TcpLiveProofs Proofs.TcpLiveMore
  Proofs.TcpLiveProgress.
From SV Require Import Proofs.TcpNetBase.
From SV Require Proofs.TcpRecvBase Proofs.TcpRecvWindow Proofs.TcpRecvPayload Proofs.TcpRecvInv
  Proofs.TcpRecvProcess Proofs.TcpRecvDispatch Proofs.TcpRecvTrace.
From SV Require Proofs.TcpSendInv Proofs.TcpNetContract Proofs.TcpNetCompose Proofs.TcpNetInv Proofs.TcpNetProofs.
From SV Require Import Proofs.TcpProgressBase Proofs.TcpProgressFrame Proofs.TcpProgressCtl Proofs.TcpProgressRecv
  Proofs.TcpProgressSend Proofs.TcpProgressNet Proofs.TcpProgressData Proofs.TcpProgressAck Proofs.TcpProgressAll
  Proofs.TcpProgressSafe Proofs.TcpProgressZwp Proofs.TcpProgressExample Proofs.TcpProgressWitness
  Proofs.TcpProgressZwDup Proofs.TcpProgressZw1 Proofs.TcpProgressZw1b Proofs.TcpProgressZw2 Proofs.TcpProgressZw3
  Proofs.TcpProgressZw4.

Module NV5 := TcpNetInv.

(* two more facts of an ESTABLISHED endpoint under C01's endpoint invariant *)
Lemma ep_extra S e g :
  C.EP S None e g -> s_state (ep_sock e) = Established ->
  s_syn_unacked_in_fin_wait (ep_sock e) = false /\
  shl (s_remote_last_win (ep_sock e)) (s_remote_win_shift (ep_sock e)) <= rb_cap (s_rx_buffer (ep_sock e)).
Proof.
  intros (Hinv & _ & Hg & _) Hst.
  destruct Hinv as (Htx & _).
  destruct Htx as (_ & _ & _ & _ & _ & _ & _ & _ & _ & Hph & _).
  split.
  - unfold SI.phase_ok in Hph. rewrite Hst in Hph. destruct (SI.g_phase (C.eg_tx g)).
    + destruct Hph as (_ & _ & []).
    + apply Hph.
    + destruct Hph as (_ & _ & _ & []).
  - unfold RT.ginv in Hg.
    destruct (RT.g_irs (C.eg_rx g)) as [irs|] eqn:Hirs.
    2:{ exfalso. destruct Hg as ((_ & _ & _ & _ & _ & _ & Hs3) & _). rewrite Hst in Hs3. exact Hs3. }
    destruct Hg as ((_ & _ & (_ & _ & Hm3) & _) & _). exact Hm3.
Qed.

Section Z5.
Variable x : side.
Notation y := (side_other x).
Variable Dack : Z.

Theorem zmore_of_reg st :
  reg x Dack st -> inv_at x st -> zmore x Dack st.
Proof.
  intros HG HI.
  pose proof HI as (Sx & Sy & gx0 & gy0 & HEx & HEy & _).
  destruct (reg_pair x Dack st HG HI) as (gx & gy & PF & Hsub).
  pose proof (pf_vx _ _ _ _ PF) as Vx. pose proof (pf_vy _ _ _ _ PF) as Vy.
  destruct (ep_extra _ _ _ HEy (rg_est x Dack st HG y)) as (Hfw & Hlwb).
  constructor.
  - exact (ev_zwp _ _ Vx).
  - pose proof (ev_last _ _ Vy) as L. pose proof (rg_last x Dack st HG) as Hl. unfold net_sock in *.
    destruct (s_remote_last_ack (ep_sock (net_get st y))) as [la|]; [|contradiction].
    destruct L as (j & L1 & L2 & L3). exists la, j. auto.
  - destruct (ev_rx _ _ Vy) as (_ & W2 & _). unfold p30, TcpRecvWindow.p30 in W2. unfold net_sock.
    change (2 ^ 30) with 1073741824. exact W2.
  - exact (rg_delay x Dack st HG).
  - exact Hlwb.
  - exact Hfw.
Qed.

Theorem zsafe2_run : forall evs st st',
  reach st -> NI st -> opts_ok st -> reg x Dack st ->
  Forall (script_ev x) evs -> net_run st evs = Ok st' ->
  NV5.small st' -> wr_small x st' -> run_all (zextra x) st evs ->
  run_all (zsafe2 x Dack) st evs.
Proof.
  induction evs as [|ev rest IH]; intros st st' Hre HN Ho HG Hsc Hrun Hsm Hws Hwo.
  - cbn [net_run] in Hrun. inversion Hrun; subst st'. cbn [run_all]. split; [|exact I].
    pose proof (reach_inv_at x st Hre Hsm (rg_closed x Dack st HG)) as HI.
    split; [apply (zsafe_of_reg x Dack); try assumption; exact (run_all_here _ _ _ Hwo) | exact (zmore_of_reg st HG HI)].
  - cbn [net_run] in Hrun. apply obind_ok in Hrun. destruct Hrun as (st1 & Hs & Hrun).
    inversion Hsc as [|? ? Hsc1 Hsc2]; subst.
    pose proof (net_run_mono _ _ _ Hrun) as Hm1. pose proof (net_step_mono _ _ _ Hs) as Hm0.
    assert (Hsm1 : NV5.small st1) by exact (NV5.small_mono _ _ Hm1 Hsm).
    assert (Hsm0 : NV5.small st) by exact (NV5.small_mono _ _ Hm0 Hsm1).
    assert (Hw1 : wr_small x st1).
    { unfold wr_small in *. destruct (Hm1 x) as (Wp & _). apply TcpNetCompose_l_len_prefix in Wp. lia. }
    assert (Hw0 : wr_small x st).
    { unfold wr_small in *. destruct (Hm0 x) as (Wp & _). apply TcpNetCompose_l_len_prefix in Wp. lia. }
    pose proof (reach_inv_at x st Hre Hsm0 (rg_closed x Dack st HG)) as HI.
    pose proof (reach_step _ _ _ Hre Hs) as Hre1.
    pose proof (closed_step x _ _ _ Hsc1 Hs (rg_closed x Dack st HG)) as Hcl1.
    pose proof (reach_inv_at x st1 Hre1 Hsm1 Hcl1) as HI1.
    pose proof (reg_step x Dack _ _ _ HN Ho HG HI HI1 Hsc1 Hs) as HG1.
    cbn [run_all] in Hwo |- *. destruct Hwo as (Hwo0 & Hwo1). rewrite Hs in Hwo1 |- *.
    split; [split; [apply (zsafe_of_reg x Dack); assumption | exact (zmore_of_reg st HG HI)]|].
    apply (IH st1 st'); try assumption.
    + exact (NI_step _ _ _ HN Hs).
    + exact (opts_step _ _ _ Ho Hs).
Qed.

End Z5.

(* ALL WRITTEN OCTETS ARE DELIVERED, ZERO WINDOWS INCLUDED.  From a state reached from net_init in which
   both sockets are ESTABLISHED (regime invariant), on every reliable schedule of the one-way workload
   (only x writes, nobody closes, fewer than 2^30 octets) every octet written so far is handed to the peer
   application within n * (3 RTTE_MAX_RTO + 3 Dt + Da), n bounding the octets unacknowledged plus the octets
   unread.  No premise that the window stays open; the only premise about the states of the run is
   [zextra]. *)
Theorem oneway_delivery_zw x Dt Da Dack : forall n evs st st' L0,
  reach st -> reg x Dack st ->
  reliable_schedule Dt Da st evs ->
  Forall (app_ev x) evs -> net_run st evs = Ok st' ->
  (forall z, l_len (ep_written (net_get st' z)) < 2 ^ 30) ->
  run_all (zextra x) st evs ->
  L0 <= l_len (ep_written (net_get st x)) ->
  Z.max 0 (L0 - una_off (net_get st x)) + Z.max 0 (L0 - read_off (net_get st (side_other x))) <= Z.of_nat n ->
  net_now st x + Z.of_nat n * Wz Dt Da < net_now st' x ->
  exists pre post st1, evs = pre ++ post /\ net_run st pre = Ok st1 /\ net_run st1 post = Ok st' /\
                       L0 <= read_off (net_get st1 (side_other x)).
Proof.
  intros n evs st st' L0 Hre HG ((HDt & HDa & Ho & Hfair) & Honce) Happ Hrun Hsz Hzx HL Hn Hlate.
  pose proof (reach_NI st Hre) as HN.
  assert (Hsm : NV5.small st').
  { split; [specialize (Hsz SA) | specialize (Hsz SB)]; cbn [net_get] in Hsz;
      change (2 ^ 30) with 1073741824 in Hsz; lia. }
  pose proof (zsafe2_run x Dack evs st st' Hre HN Ho HG (script_of_fair x Dt Da _ _ _ _ Hfair Hrun Happ)
                Hrun Hsm (Hsz x) Hzx) as HR.
  exact (all_written_bytes_eventually_delivered_zw x Dt Da Dack n evs _ st st' L0 HDt HDa HN Ho
           (fa_init_sync Dt Da st) (dlb_init Dt Da st HDt) HR Hfair Honce Hrun HL Hn Hlate).
Qed.
