(* C02 (liveness half), close, layer 2: THE CLOSING HANDSHAKE AT SOCKET LEVEL - what `dispatch` does at a
   socket of a closing connection whose transmit queue is empty:
     ctl_stt          seq_to_transmit = "the state wants a FIN and none is in flight (SND.NXT = SND.UNA)"
     fresh_wtu        after an ACK was sent, window_to_update is false
     disp_fin         FIN-WAIT-1 / LAST-ACK with the FIN unsent, or its retransmission timer due: the FIN goes
                      out (sequence number SND.UNA, acknowledging RCV.NXT), SND.NXT = SND.UNA + 1, the
                      retransmission timer is armed at least RTTE_MIN_RTO ahead
     disp_ack         CLOSE-WAIT / TIME-WAIT owing an ACK: a bare ACK of RCV.NXT goes out, numbered SND.NXT
     disp_quiet       nothing is due: nothing is sent, nothing changes (remote_last_ts apart)
     disp_tw_expire   TIME-WAIT, the 10 s timer has expired: CLOSED, the tuple released
     fin_poll_now / close_poll_le   poll_at of these situations
   All statements are about Model/Tcp.v only. *)
From SV Require Import Lib.Base Gen.Consts.
From SV Require Import Model.Seq32 Model.Assembler Model.TcpBuf Model.TcpTypes Model.Tcp.
From SV Require Import Proofs.AssemblerProofs Proofs.TcpRecvBase Proofs.TcpRecvWindow
  Proofs.TcpRecvPayload Proofs.TcpRecvInv Proofs.TcpRecvProcess.
From SV Require Proofs.TcpSendBase Proofs.TcpRecvDispatch.
From SV Require Proofs.TcpLiveBase Proofs.TcpLiveProofs.
From SV Require Import Proofs.TcpProgressFrame Proofs.TcpProgressCtl Proofs.TcpProgressHs Proofs.TcpProgressHsD
  Proofs.TcpProgressCl1.

Module SB := TcpSendBase.

(* ---------------------------------------------------------------------------------------- *)
(* a socket of a closing connection, as far as dispatch is concerned                         *)
(* ---------------------------------------------------------------------------------------- *)
Record ctl_sock (cx : ctx) (s : socket) (t : tuple) : Prop := mkCtlSock {
  k_tuple : s_tuple s = Some t;
  k_addr : tu_local_addr t = cx_addr cx;
  k_to : s_timeout s = None;
  k_ka : s_keep_alive s = None;
  k_pfr : s_pending_fast_retransmit s = false;
  k_suf : s_syn_unacked_in_fin_wait s = false;
  k_tx : rb_len (s_tx_buffer s) = 0;
  k_txwf : SB.rb_wf (s_tx_buffer s);
  k_win : 0 <= s_remote_win_len s;
  k_mtu : 52 < cx_ip_mtu cx;
  k_una : 0 <= s_local_seq_no s < 4294967296;
  k_shift : 0 <= s_remote_win_shift s <= 14;
  k_rxwf : rb_wf (s_rx_buffer s);
  k_rto : tcp_RTTE_MIN_RTO <= rt_rto (s_rtte s)
}.

(* the states in which a FIN is to be sent *)
Definition want_fin (st : tcp_state) : bool :=
  match st with FinWait1 | Closing | LastAck => true | _ => false end.

Lemma ctl_stt cx s t :
  ctl_sock cx s t -> st_sync (s_state s) ->
  (s_remote_last_seq s = s_local_seq_no s \/ s_remote_last_seq s = seq_add (s_local_seq_no s) 1) ->
  tcp_seq_to_transmit cx s = Ok (want_fin (s_state s) && (s_remote_last_seq s =? s_local_seq_no s)).
Proof.
  intros K Hst Hfl. unfold tcp_seq_to_transmit.
  rewrite (k_pfr _ _ _ K). cbn [andb]. rewrite (k_tuple _ _ _ K).
  destruct (local_mss_ok cx (k_mtu _ _ _ K)) as (m & ->). cbn [obind].
  rewrite (k_suf _ _ _ K), (k_tx _ _ _ K).
  assert (Hns : (match s_state s with SynSent | SynReceived => true | _ => false end) = false)
    by (destruct (s_state s); try contradiction; reflexivity).
  rewrite Hns. cbn [orb andb].
  rewrite Z.min_r by (apply (k_win _ _ _ K)).
  rewrite (seq_add_0_u32 _ (k_una _ _ _ K)).
  pose proof (k_una _ _ _ K) as Hu.
  assert (Hwf : want_fin (s_state s) = match s_state s with FinWait1 | Closing | LastAck => true | _ => false end)
    by reflexivity.
  destruct Hfl as [E | E]; rewrite E.
  - unfold seq_ge, tcp_cwnd_remaining, tcp_flight_size. rewrite E, seq_sdiff_refl. cbn [Z.geb Z.compare].
    rewrite seq_sub_refl. cbn [obind]. rewrite Z.eqb_refl. cbn [negb andb].
    assert (Hm : Z.min 0 (sat_sub (cc_window (s_congestion_controller s)) 0) = 0) by (unfold sat_sub; lia).
    change (0 >=? 0) with true. cbn iota. cbn [obind].
    rewrite Hm. cbn [Z.eqb negb]. rewrite andb_false_r. cbn [andb orb]. rewrite <- Hwf. reflexivity.
  - assert (Hge : seq_ge (s_local_seq_no s) (seq_add (s_local_seq_no s) 1) = false).
    { rewrite SB.seq_add_raw. rewrite (u32_as_sq _ Hu) at 1.
      rewrite SB.seq_ge_sq by (change (2 ^ 31) with 2147483648; lia). reflexivity. }
    rewrite Hge. cbn [obind].
    assert (Hfs : tcp_flight_size s = Ok 1).
    { unfold tcp_flight_size. rewrite E. rewrite SB.seq_add_raw. rewrite (u32_as_sq _ Hu) at 2.
      rewrite SB.seq_sub_sq by (change (2 ^ 31) with 2147483648; lia). reflexivity. }
    unfold tcp_cwnd_remaining. rewrite Hfs. cbn [obind].
    assert (Hm : Z.min 0 (sat_sub (cc_window (s_congestion_controller s)) 1) = 0) by (unfold sat_sub; lia).
    rewrite Hm. cbn [Z.eqb negb].
    assert (Hne : (seq_add (s_local_seq_no s) 1 =? s_local_seq_no s) = false).
    { apply Z.eqb_neq. intros X. pose proof (seq_lt_succ' _ Hu) as Y. rewrite X, seq_lt_refl in Y. discriminate. }
    rewrite Hne. rewrite !andb_false_r. cbn [orb].
    match goal with |- context [if ?b then false else _] => destruct b end; reflexivity.
Qed.

(* ---------------------------------------------------------------------------------------- *)
(* window_to_update after an ACK                                                             *)
(* ---------------------------------------------------------------------------------------- *)
Lemma scaled_window_bounds s : rb_wf (s_rx_buffer s) -> 0 <= s_remote_win_shift s -> 0 <= tcp_scaled_window s <= 65535.
Proof.
  intros Hwf Hsh. unfold tcp_scaled_window.
  assert (Hw : 0 <= rb_window (s_rx_buffer s)) by (destruct Hwf as (? & _); unfold rb_window; lia).
  pose proof (shr_nonneg _ _ Hw Hsh) as Hn. unfold u16_try, u16_max.
  destruct (Z.leb_spec (shr (rb_window (s_rx_buffer s)) (s_remote_win_shift s)) 65535); lia.
Qed.

Lemma fresh_wtu s :
  s_remote_last_ack s = Some (tcp_window_start s) -> s_remote_last_win s = tcp_scaled_window s ->
  0 <= s_remote_win_shift s <= 14 -> rb_wf (s_rx_buffer s) ->
  tcp_window_to_update s = Ok false.
Proof.
  intros Hla Hlw Hsh Hwf. unfold tcp_window_to_update.
  destruct (s_syn_unacked_in_fin_wait s); [reflexivity|].
  assert (Hl : tcp_last_scaled_window s = Ok (Some (tcp_scaled_window s))).
  { unfold tcp_last_scaled_window. rewrite Hla, Hlw. fold (tcp_window_start s).
    pose proof (scaled_window_bounds s Hwf ltac:(lia)) as HW.
    set (W := tcp_scaled_window s) in *. set (k := s_remote_win_shift s) in *.
    assert (Hp : 0 < 2 ^ k <= 2 ^ 14) by (split; [apply Z.pow_pos_nonneg; lia | apply Z.pow_le_mono_r; lia]).
    assert (HL : 0 <= shl W k < 2 ^ 30).
    { unfold shl. change (2 ^ 14) with 16384 in Hp. change (2 ^ 30) with 1073741824. nia. }
    rewrite SB.seq_add_raw. pose proof (u32_as_sq _ (window_start_u32 s)) as Ews.
    set (ws := tcp_window_start s) in *.
    replace (seq_lt (sq (ws + shl W k)) ws) with (seq_lt (sq (ws + shl W k)) (sq (ws + 0))) by (rewrite <- Ews; reflexivity).
    replace (seq_sub (sq (ws + shl W k)) ws) with (seq_sub (sq (ws + shl W k)) (sq (ws + 0))) by (rewrite <- Ews; reflexivity).
    rewrite SB.seq_lt_sq by (change (2 ^ 31) with 2147483648; change (2 ^ 30) with 1073741824 in HL; lia).
    replace (shl W k <? 0) with false by (symmetry; apply Z.ltb_ge; lia).
    rewrite SB.seq_sub_sq by (change (2 ^ 31) with 2147483648; change (2 ^ 30) with 1073741824 in HL; lia).
    replace (shl W k <? 0) with false by (symmetry; apply Z.ltb_ge; lia). cbn [obind].
    rewrite Z.sub_0_r. unfold shl, shr. rewrite Z.div_mul by lia.
    unfold u16_try, u16_max. replace (W <=? 65535) with true by (symmetry; apply Z.leb_le; lia). reflexivity. }
  rewrite Hl. cbn [obind].
  pose proof (scaled_window_bounds s Hwf ltac:(lia)) as HW.
  assert (Hf : (tcp_scaled_window s >? 0) && (tcp_scaled_window s / 2 >=? tcp_scaled_window s) = false).
  { destruct (Z.gtb_spec (tcp_scaled_window s) 0) as [G | G]; [|reflexivity]. cbn [andb].
    pose proof (Z.div_lt (tcp_scaled_window s) 2 ltac:(lia) ltac:(lia)) as Hd.
    destruct (Z.geb_spec (tcp_scaled_window s / 2) (tcp_scaled_window s)); [lia | reflexivity]. }
  rewrite Hf. destruct (s_state s); reflexivity.
Qed.

(* ---------------------------------------------------------------------------------------- *)
(* the fields of the close; dispatch_timers                                                  *)
(* ---------------------------------------------------------------------------------------- *)
(* [s'] and [s] agree on everything the close reads (remote_last_ts, which dispatch initialises, apart) *)
Definition cveq (s' s : socket) : Prop :=
  s_state s' = s_state s /\ s_timer s' = s_timer s /\ s_tuple s' = s_tuple s /\ s_tx_buffer s' = s_tx_buffer s /\
  s_local_seq_no s' = s_local_seq_no s /\ s_remote_last_seq s' = s_remote_last_seq s /\
  s_remote_win_len s' = s_remote_win_len s /\ s_rtte s' = s_rtte s /\
  rxv_eq s' s /\ auxf s' s /\
  s_pending_fast_retransmit s' = s_pending_fast_retransmit s /\
  s_syn_unacked_in_fin_wait s' = s_syn_unacked_in_fin_wait s.

Lemma cveq_refl s : cveq s s.
Proof. unfold cveq. repeat split; try reflexivity. Qed.

Lemma dt_pre_cveq cx s : cveq (LP.dt_pre cx s) s.
Proof.
  unfold LP.dt_pre. destruct (is_some (s_remote_last_ts s)); [apply cveq_refl|].
  unfold cveq, rxv_eq, auxf, cfgf. rproj. repeat split; reflexivity.
Qed.

Lemma cveq_ctl_sock cx s' s t : cveq s' s -> ctl_sock cx s t -> ctl_sock cx s' t.
Proof.
  intros (E1 & E2 & E3 & E4 & E5 & E6 & E7 & E8 & (_ & R2 & _ & _ & _ & _ & R7) & ((A1 & A2 & A3) & _) & E11 & E12) K.
  destruct K. constructor; rewrite ?E3, ?E4, ?E5, ?E7, ?E8, ?R2, ?R7, ?A2, ?A3, ?E11, ?E12; assumption.
Qed.

Lemma dt_notdue cx s s1 tg :
  s_timeout s = None -> timer_should_retransmit (s_timer s) (cx_now cx) = false ->
  tcp_dispatch_timers cx s = Ok (s1, tg) -> s1 = LP.dt_pre cx s.
Proof.
  intros Hto Hnd H.
  pose proof (LP.dt_pre_core cx s) as (_ & C2 & _). pose proof (LP.dt_pre_misc cx s) as (M1 & _).
  destruct (LP.dt_spec _ _ _ _ H) as [(X & _) | [(_ & _ & ->) | (_ & X & _)]].
  - exfalso. unfold tcp_timed_out in X. rewrite M1, Hto in X. destruct (s_remote_last_ts (LP.dt_pre cx s)); discriminate.
  - reflexivity.
  - rewrite C2, Hnd in X. discriminate.
Qed.

(* the retransmission timer of a socket with an empty transmit queue is due *)
Lemma dt_due cx s s1 tg e :
  s_timeout s = None -> s_keep_alive s = None -> rb_len (s_tx_buffer s) = 0 ->
  s_timer s = TRetransmit e -> e <= cx_now cx ->
  tcp_dispatch_timers cx s = Ok (s1, tg) ->
  s_state s1 = s_state s /\ s_timer s1 = TIdle None /\ s_tuple s1 = s_tuple s /\ s_tx_buffer s1 = s_tx_buffer s /\
  s_local_seq_no s1 = s_local_seq_no s /\ s_remote_last_seq s1 = s_local_seq_no s /\
  s_remote_win_len s1 = s_remote_win_len s /\ rxv_eq s1 s /\ auxf s1 s /\
  s_pending_fast_retransmit s1 = false /\ s_syn_unacked_in_fin_wait s1 = s_syn_unacked_in_fin_wait s /\
  rt_max_seq_sent (s_rtte s1) = rt_max_seq_sent (s_rtte s) /\
  (tcp_RTTE_MIN_RTO <= rt_rto (s_rtte s) -> tcp_RTTE_MIN_RTO <= rt_rto (s_rtte s1)).
Proof.
  intros Hto Hka Htx Ht He H. unfold tcp_dispatch_timers in H. fold (LP.dt_pre cx s) in H.
  destruct (dt_pre_cveq cx s) as (E1 & E2 & E3 & E4 & E5 & E6 & E7 & E8 & E9 & E10 & E11 & E12).
  pose proof (LP.dt_pre_misc cx s) as (M1 & M2 & _).
  revert H E1 E2 E3 E4 E5 E6 E7 E8 E9 E10 E11 E12 M1 M2. generalize (LP.dt_pre cx s).
  intros q H E1 E2 E3 E4 E5 E6 E7 E8 E9 E10 E11 E12 M1 M2.
  assert (Hnto : tcp_timed_out q (cx_now cx) = false).
  { unfold tcp_timed_out. rewrite M1, Hto. destruct (s_remote_last_ts q); reflexivity. }
  rewrite Hnto, E2, Ht in H. cbn [timer_should_retransmit] in H.
  destruct (Z.geb_spec (cx_now cx) e); [|lia].
  apply obind_ok_inv in H. destruct H as (fl & _ & H). revert H. rproj. cbn [andb negb].
  assert (Hemp : rb_is_empty (s_tx_buffer q) = true) by (unfold rb_is_empty; rewrite E4, Htx; reflexivity).
  rewrite Hemp. cbn [negb]. rewrite andb_false_r. intros H. inversion H; subst s1 tg; clear H. rproj.
  rewrite M2, Hka. cbn [timer_set_for_idle opt_add].
  split; [exact E1|]. split; [reflexivity|]. split; [exact E3|]. split; [exact E4|]. split; [exact E5|].
  split; [exact E5|]. split; [exact E7|].
  split; [unfold rxv_eq in *; rproj; exact E9|]. split; [unfold auxf, cfgf in *; rproj; exact E10|].
  split; [reflexivity|]. split; [exact E12|].
  rewrite E8. unfold rtte_on_retransmit, rtte_on_rto. split.
  - destruct (rt_rto_count (s_rtte s) + 1 >=? 3); reflexivity.
  - intros Hlb. destruct (rt_rto_count (s_rtte s) + 1 >=? 3); cbn [rt_rto];
      unfold tcp_RTTE_MIN_RTO, tcp_RTTE_MAX_RTO in *; lia.
Qed.

(* ---------------------------------------------------------------------------------------- *)
(* build and finish                                                                          *)
(* ---------------------------------------------------------------------------------------- *)
Lemma build_data_ctl cx s repr s' orepr zwp tg :
  tcp_dispatch_build_data cx s repr = Ok (s', orepr, zwp, tg) ->
  s_pending_fast_retransmit s = false -> rb_len (s_tx_buffer s) = 0 -> SB.rb_wf (s_tx_buffer s) ->
  s_remote_last_seq s = s_local_seq_no s ->
  timer_should_zero_window_probe (s_timer s) (cx_now cx) = false ->
  s' = s /\ zwp = false /\
  orepr = Some (if want_fin (s_state s) then repr_set_control (repr_set_payload repr []) CFin
                else repr_set_payload repr []).
Proof.
  unfold tcp_dispatch_build_data. intros H Hpfr Htx Hwf Hfl Hz.
  apply obind_ok_inv in H. destruct H as (ol & _ & H).
  apply obind_ok_inv in H. destruct H as (lm & _ & H).
  rewrite Hpfr in H. cbn [andb] in H.
  apply obind_ok_inv in H. destruct H as (((((s1 & r1) & off) & zw) & tg1) & H1 & H).
  apply obind_ok_inv in H1. destruct H1 as (wl & _ & H1).
  rewrite Hz, andb_false_r in H1.
  apply obind_ok_inv in H1. destruct H1 as (sz & _ & H1).
  apply obind_ok_inv in H1. destruct H1 as (offs & Hoff & H1).
  unfold tcp_flight_size in Hoff. rewrite Hfl, seq_sub_refl in Hoff. inversion Hoff; subst offs.
  rewrite (get_allocated_empty _ 0 sz Hwf Htx ltac:(lia)) in H1.
  inversion H1; subst s1 r1 off zw tg1; clear H1.
  cbv beta iota zeta in H.
  assert (Hp : r_payload (repr_set_payload repr []) = []) by reflexivity.
  rewrite Hp in H. change (l_len []) with 0 in H. rewrite Htx in H. cbn [Z.add Z.eqb] in H.
  inversion H; subst s' orepr zwp tg; clear H.
  split; [reflexivity|]. split; [reflexivity|].
  unfold want_fin. destruct (s_state s); reflexivity.
Qed.

Lemma finish_ctl cx s repr :
  s_state s <> Closed -> s_keep_alive s = None -> r_control repr <> CSyn ->
  let s' := fst (tcp_dispatch_finish cx s repr false false) in
  let t0 := timer_rewind_keep_alive (s_timer s) (cx_now cx) None in
  let seg_end := seq_add (r_seq_number repr) (repr_segment_len repr) in
  s_state s' = s_state s /\ s_tuple s' = s_tuple s /\ s_tx_buffer s' = s_tx_buffer s /\
  s_local_seq_no s' = s_local_seq_no s /\ s_remote_win_len s' = s_remote_win_len s /\
  TcpRecvDispatch.rxv_rest s' s /\ s_remote_last_ack s' = r_ack_number repr /\ s_remote_last_win s' = r_window_len repr /\
  s_ack_delay_timer s' = ADIdle /\ cfgf s' s /\
  s_pending_fast_retransmit s' = s_pending_fast_retransmit s /\
  s_syn_unacked_in_fin_wait s' = s_syn_unacked_in_fin_wait s /\
  (repr_segment_len repr = 0 ->
   s_remote_last_seq s' = s_remote_last_seq s /\ s_rtte s' = s_rtte s /\ s_timer s' = t0) /\
  (0 < repr_segment_len repr ->
   s_remote_last_seq s' = seq_max (s_remote_last_seq s) seg_end /\
   s_rtte s' = rtte_on_send (s_rtte s) (cx_now cx) seg_end /\
   s_timer s' = if timer_is_retransmit t0 then t0
                else timer_set_for_retransmit t0 (cx_now cx)
                       (rtte_retransmission_timeout (rtte_on_send (s_rtte s) (cx_now cx) seg_end))).
Proof.
  intros Hnc Hka Hns. cbv zeta. unfold tcp_dispatch_finish. rewrite Hka.
  assert (Hcs : control_eqb (r_control repr) CSyn = false) by (destruct (r_control repr); try reflexivity; congruence).
  assert (Hcl : forall q, s_state q = s_state s -> tcp_state_eqb (s_state q) Closed = false).
  { intros q ->. destruct (s_state s); try reflexivity. congruence. }
  rproj. rewrite Hcs.
  destruct (Z.gtb_spec (repr_segment_len repr) 0) as [G | G]; cbn [andb]; rproj.
  - destruct (negb (timer_is_retransmit (timer_rewind_keep_alive (s_timer s) (cx_now cx) None))) eqn:En; rproj;
      rewrite Hcl by (rproj; reflexivity); cbn [fst]; unfold TcpRecvDispatch.rxv_rest, cfgf; rproj;
      repeat (split; [first [reflexivity | repeat split; reflexivity]|]); (split; [intros; lia|]); intros _;
      (split; [reflexivity|]); (split; [reflexivity|]);
      [apply Bool.negb_true_iff in En | apply Bool.negb_false_iff in En]; rewrite En; reflexivity.
  - rewrite Hcl by (rproj; reflexivity). cbn [fst]. unfold TcpRecvDispatch.rxv_rest, cfgf. rproj.
    repeat (split; [first [reflexivity | repeat split; reflexivity]|]). intros; lia.
Qed.

(* the states of the close in which dispatch may have something to send *)
Definition cl_state (st : tcp_state) : Prop :=
  st = FinWait1 \/ st = LastAck \/ st = CloseWait \/ st = TimeWait \/ st = FinWait2 \/ st = Established.

Lemma build_ctl cx s t s3 o z k tg :
  tcp_dispatch_build cx s t = Ok (s3, o, z, k, tg) ->
  ctl_sock cx s t -> cl_state (s_state s) ->
  s_remote_last_seq s = s_local_seq_no s \/ s_state s = TimeWait \/ s_state s = FinWait2 ->
  timer_should_keep_alive (s_timer s) (cx_now cx) = false ->
  timer_should_zero_window_probe (s_timer s) (cx_now cx) = false ->
  s3 = s /\ z = false /\ k = false /\ exists repr, o = Some repr /\
    r_src_port repr = tu_local_port t /\ r_dst_port repr = tu_remote_port t /\
    r_control repr = (if want_fin (s_state s) then CFin else CNone) /\ r_payload repr = [] /\
    r_seq_number repr = (if want_fin (s_state s) then s_remote_last_seq s else tcp_send_next_seq s) /\
    r_ack_number repr = Some (tcp_window_start s) /\ r_window_len repr = tcp_scaled_window s.
Proof.
  intros H K Hst Hfl Hnk Hnz. unfold tcp_dispatch_build in H.
  apply obind_ok_inv in H. destruct H as ((((sb & ob) & zb) & tb) & Hb & H).
  set (ts := if s_tsval_generator s then Some (cx_tsval cx, s_last_remote_tsval s) else None) in *.
  set (repr0 := mkRepr (tu_local_port t) (tu_remote_port t) CNone (s_remote_last_seq s)
                       (Some (tcp_window_start s)) (tcp_scaled_window s) None None false no_sack ts []) in *.
  assert (Hbuilt : sb = s /\ zb = false /\
                   ob = Some (if want_fin (s_state s) then repr_set_control (repr_set_payload repr0 []) CFin
                              else repr_set_payload repr0 [])).
  { destruct Hst as [E | [E | [E | [E | [E | E]]]]]; rewrite E in Hb |- *; cbn [want_fin].
    - rewrite (k_suf _ _ _ K) in Hb.
      destruct Hfl as [Hfl | [X | X]]; [|congruence|congruence].
      destruct (build_data_ctl _ _ _ _ _ _ _ Hb (k_pfr _ _ _ K) (k_tx _ _ _ K) (k_txwf _ _ _ K) Hfl Hnz) as (A & B & C).
      rewrite E in C. auto.
    - destruct Hfl as [Hfl | [X | X]]; [|congruence|congruence].
      destruct (build_data_ctl _ _ _ _ _ _ _ Hb (k_pfr _ _ _ K) (k_tx _ _ _ K) (k_txwf _ _ _ K) Hfl Hnz) as (A & B & C).
      rewrite E in C. auto.
    - destruct Hfl as [Hfl | [X | X]]; [|congruence|congruence].
      destruct (build_data_ctl _ _ _ _ _ _ _ Hb (k_pfr _ _ _ K) (k_tx _ _ _ K) (k_txwf _ _ _ K) Hfl Hnz) as (A & B & C).
      rewrite E in C. auto.
    - inversion Hb; subst. auto.
    - inversion Hb; subst. auto.
    - destruct Hfl as [Hfl | [X | X]]; [|congruence|congruence].
      destruct (build_data_ctl _ _ _ _ _ _ _ Hb (k_pfr _ _ _ K) (k_tx _ _ _ K) (k_txwf _ _ _ K) Hfl Hnz) as (A & B & C).
      rewrite E in C. auto. }
  destruct Hbuilt as (-> & -> & ->).
  rewrite Hnk in H. cbn [andb] in H.
  destruct (want_fin (s_state s)).
  - cbn [repr_set_control repr_set_payload repr_is_empty r_payload r_control control_eqb andb obind] in H.
    inversion H; subst s3 o z k tg; clear H.
    split; [reflexivity|]. split; [reflexivity|]. split; [reflexivity|]. eexists. split; [reflexivity|].
    unfold repr0. cbn. repeat split; reflexivity.
  - cbn [repr_set_payload repr_is_empty r_payload r_control control_eqb andb repr_set_seq obind] in H.
    unfold repr0 in H. cbn [r_control control_eqb andb obind repr_set_seq] in H.
    inversion H; subst s3 o z k tg; clear H.
    split; [reflexivity|]. split; [reflexivity|]. split; [reflexivity|]. eexists. split; [reflexivity|].
    cbn. repeat split; reflexivity.
Qed.

(* ---------------------------------------------------------------------------------------- *)
(* dispatch after its timer phase                                                            *)
(* ---------------------------------------------------------------------------------------- *)
Definition disp_rest (cx : ctx) (s : socket) (t : tuple) (emit_ok : bool) (t1 : Z)
  : outcome (socket * dispatch_result * list Z) :=
  do d2 <- tcp_dispatch_decide cx s;
  let '(s, go, t2) := d2 in
  if negb go then Ok (s, DNothing, [t1; t2]) else
  do d3 <- tcp_dispatch_build cx s t;
  let '(s, orepr, zwp, ka, t3) := d3 in
  match orepr with
  | None => Ok (s, DNothing, [t1; t2; t3])
  | Some repr =>
      let hop := match s_hop_limit s with Some h => h | None => 64 end in
      let p := with_payload_len (mkIp (tu_local_addr t) (tu_remote_addr t) hop 0) repr in
      if negb emit_ok then Ok (s, DEmitFailed p, [t1; t2; t3; 244]) else
      let '(s, t4) := tcp_dispatch_finish cx s repr zwp ka in
      Ok (s, DSent p, [t1; t2; t3; t4; if ka then 245 else 246])
  end.

Lemma dispatch_unfold cx s t emit_ok :
  s_tuple s = Some t -> tu_local_addr t = cx_addr cx ->
  tcp_dispatch cx s emit_ok =
    do d1 <- tcp_dispatch_timers cx s; let '(s1, t1) := d1 in disp_rest cx s1 t emit_ok t1.
Proof. intros Htu Ha. unfold tcp_dispatch, disp_rest. rewrite Htu, Ha, Z.eqb_refl. reflexivity. Qed.

(* what the emitted segment and the socket look like after a FIN was sent *)
Record fin_sent (cx : ctx) (s s' : socket) (t : tuple) (p : packet) : Prop := mkFinSent {
  fs_src : ip_src (fst p) = tu_local_addr t;
  fs_dst : ip_dst (fst p) = tu_remote_addr t;
  fs_sport : r_src_port (snd p) = tu_local_port t;
  fs_dport : r_dst_port (snd p) = tu_remote_port t;
  fs_ctl : r_control (snd p) = CFin;
  fs_pl : r_payload (snd p) = [];
  fs_seq : r_seq_number (snd p) = s_local_seq_no s;
  fs_ack : r_ack_number (snd p) = Some (tcp_window_start s);
  fs_state : s_state s' = s_state s;
  fs_tuple : s_tuple s' = s_tuple s;
  fs_tx : s_tx_buffer s' = s_tx_buffer s;
  fs_una : s_local_seq_no s' = s_local_seq_no s;
  fs_nxt : s_remote_last_seq s' = seq_add (s_local_seq_no s) 1;
  fs_timer : exists e', s_timer s' = TRetransmit e' /\ cx_now cx + tcp_RTTE_MIN_RTO * 1000 <= e';
  fs_rx : TcpRecvDispatch.rxv_rest s' s;
  fs_la : s_remote_last_ack s' = Some (tcp_window_start s);
  fs_lw : s_remote_last_win s' = tcp_scaled_window s;
  fs_adt : s_ack_delay_timer s' = ADIdle;
  fs_cfg : cfgf s' s;
  fs_pfr : s_pending_fast_retransmit s' = s_pending_fast_retransmit s;
  fs_suf : s_syn_unacked_in_fin_wait s' = s_syn_unacked_in_fin_wait s;
  fs_win : s_remote_win_len s' = s_remote_win_len s;
  fs_rto : tcp_RTTE_MIN_RTO <= rt_rto (s_rtte s');
  fs_msx : match rt_max_seq_sent (s_rtte s) with
           | Some m => m = seq_add (s_local_seq_no s) 1 \/ seq_gt (seq_add (s_local_seq_no s) 1) m = true
           | None => True
           end -> rt_max_seq_sent (s_rtte s') = Some (seq_add (s_local_seq_no s) 1)
}.

Lemma seq_max_succ a : 0 <= a < 4294967296 -> seq_max a (seq_add a 1) = seq_add a 1.
Proof.
  intros H. unfold seq_max.
  assert (E : seq_gt a (seq_add a 1) = false).
  { rewrite SB.seq_add_raw. rewrite (u32_as_sq a H) at 1.
    rewrite SB.seq_gt_sq by (change (2 ^ 31) with 2147483648; lia). reflexivity. }
  rewrite E. reflexivity.
Qed.

Lemma emit_fin cx s t t1 s' res tags :
  ctl_sock cx s t -> (s_state s = FinWait1 \/ s_state s = LastAck) ->
  s_remote_last_seq s = s_local_seq_no s -> s_timer s = TIdle None ->
  disp_rest cx s t true t1 = Ok (s', res, tags) ->
  exists p, res = DSent p /\ fin_sent cx s s' t p.
Proof.
  intros K Hst Hfl Htm H. unfold disp_rest in H.
  assert (Hsync : st_sync (s_state s)) by (destruct Hst as [-> | ->]; exact I).
  assert (Hwf : want_fin (s_state s) = true) by (destruct Hst as [-> | ->]; reflexivity).
  assert (Hstt : tcp_seq_to_transmit cx s = Ok true).
  { rewrite (ctl_stt cx s t K Hsync (or_introl Hfl)), Hwf, Hfl, Z.eqb_refl. reflexivity. }
  unfold tcp_dispatch_decide in H. rewrite Hstt in H. cbn [obind negb] in H.
  apply obind_ok_inv in H. destruct H as (((((s3 & o) & z) & k) & t3) & Hb & H).
  destruct (build_ctl _ _ _ _ _ _ _ _ Hb K) as (-> & -> & -> & repr & -> & B1 & B2 & B3 & B4 & B5 & B6 & B7).
  { destruct Hst as [-> | ->]; [left | right; left]; reflexivity. }
  { left. exact Hfl. }
  { rewrite Htm. reflexivity. }
  { rewrite Htm. reflexivity. }
  rewrite Hwf in B3, B5. cbn [negb] in H.
  assert (Hsl : repr_segment_len repr = 1) by (unfold repr_segment_len; rewrite B3, B4; reflexivity).
  pose proof (finish_ctl cx s repr) as F. cbv zeta in F.
  destruct (tcp_dispatch_finish cx s repr false false) as (s4, t4). cbn [fst] in F.
  inversion H; subst s' res tags; clear H.
  destruct F as (F1 & F2 & F3 & F4 & F5 & F6 & F7 & F8 & F9 & F10 & F11 & F12 & _ & F14).
  { destruct Hst as [-> | ->]; discriminate. } { exact (k_ka _ _ _ K). } { rewrite B3. discriminate. }
  destruct (F14 ltac:(lia)) as (G1 & G2 & G3).
  rewrite Hsl, B5, Hfl in G1, G2, G3. rewrite (seq_max_succ _ (k_una _ _ _ K)) in G1.
  rewrite Htm in G3. cbn [timer_rewind_keep_alive opt_add timer_is_retransmit timer_set_for_retransmit] in G3.
  eexists. split; [reflexivity|].
  constructor; unfold with_payload_len; cbn [fst snd ip_src ip_dst]; try assumption; try reflexivity.
  - rewrite B5. exact Hfl.
  - eexists. split; [exact G3|]. unfold rtte_retransmission_timeout.
    assert (Hr : rt_rto (rtte_on_send (s_rtte s) (cx_now cx) (seq_add (s_local_seq_no s) 1)) = rt_rto (s_rtte s))
      by (unfold rtte_on_send; destruct (match rt_max_seq_sent (s_rtte s) with Some m => _ | None => true end); reflexivity).
    rewrite Hr. pose proof (k_rto _ _ _ K). lia.
  - rewrite F7. exact B6.
  - rewrite F8. exact B7.
  - rewrite G2. unfold rtte_on_send.
    destruct (match rt_max_seq_sent (s_rtte s) with Some m => _ | None => true end); exact (k_rto _ _ _ K).
  - intros Hm. rewrite G2. unfold rtte_on_send.
    destruct (rt_max_seq_sent (s_rtte s)) as [m|] eqn:Em; [|reflexivity].
    destruct Hm as [-> | Hg]; [rewrite seq_gt_refl; exact Em | rewrite Hg; reflexivity].
Qed.

Lemma rxv_rest_eq_trans s' s1 s : TcpRecvDispatch.rxv_rest s' s1 -> rxv_eq s1 s -> TcpRecvDispatch.rxv_rest s' s.
Proof.
  unfold TcpRecvDispatch.rxv_rest, rxv_eq. intros (A1 & A2 & A3 & A4 & A5) (B1 & B2 & B3 & B4 & _ & _ & B7).
  repeat split; congruence.
Qed.

Lemma fin_sent_transfer cx s1 s s' t p :
  fin_sent cx s1 s' t p ->
  s_state s1 = s_state s -> s_tuple s1 = s_tuple s -> s_tx_buffer s1 = s_tx_buffer s ->
  s_local_seq_no s1 = s_local_seq_no s -> s_remote_win_len s1 = s_remote_win_len s ->
  rxv_eq s1 s -> cfgf s1 s ->
  s_pending_fast_retransmit s1 = s_pending_fast_retransmit s ->
  s_syn_unacked_in_fin_wait s1 = s_syn_unacked_in_fin_wait s ->
  rt_max_seq_sent (s_rtte s1) = rt_max_seq_sent (s_rtte s) ->
  fin_sent cx s s' t p.
Proof.
  intros F E1 E2 E3 E4 E5 R C E6 E7 E8. destruct F.
  pose proof (rxv_eq_window_start _ _ R) as Hws. pose proof (rxv_eq_scaled_window _ _ R) as Hsw.
  constructor; try assumption; try congruence.
  - exact (rxv_rest_eq_trans _ _ _ fs_rx0 R).
  - exact (cfgf_trans _ _ _ fs_cfg0 C).
  - rewrite <- E8, <- E4. exact fs_msx0.
Qed.

(* FIN-WAIT-1 / LAST-ACK: the FIN is unsent, or its retransmission timer is due *)
Theorem disp_fin cx s t s' res tags :
  ctl_sock cx s t -> (s_state s = FinWait1 \/ s_state s = LastAck) ->
  ((s_remote_last_seq s = s_local_seq_no s /\ s_timer s = TIdle None) \/
   (exists e, s_timer s = TRetransmit e /\ e <= cx_now cx)) ->
  tcp_dispatch cx s true = Ok (s', res, tags) ->
  exists p, res = DSent p /\ fin_sent cx s s' t p.
Proof.
  intros K Hst Hcase H.
  rewrite (dispatch_unfold cx s t true (k_tuple _ _ _ K) (k_addr _ _ _ K)) in H.
  apply obind_ok_inv in H. destruct H as ((s1 & t1) & H1 & H).
  destruct Hcase as [(Hfl & Htm) | (e & Htm & He)].
  - assert (E : s1 = LP.dt_pre cx s).
    { apply (dt_notdue cx s s1 t1 (k_to _ _ _ K)); [rewrite Htm; reflexivity | exact H1]. }
    subst s1. pose proof (dt_pre_cveq cx s) as V.
    pose proof V as (E1 & E2 & E3 & E4 & E5 & E6 & E7 & E8 & E9 & E10 & E11 & E12).
    destruct (emit_fin cx _ t t1 s' res tags (cveq_ctl_sock _ _ _ _ V K)) as (p & Hp & F); try exact H.
    { rewrite E1. exact Hst. } { rewrite E6, E5. exact Hfl. } { rewrite E2. exact Htm. }
    exists p. split; [exact Hp|].
    apply (fin_sent_transfer cx _ s s' t p F); try assumption; [apply E10 | rewrite E8; reflexivity].
  - destruct (dt_due cx s s1 t1 e (k_to _ _ _ K) (k_ka _ _ _ K) (k_tx _ _ _ K) Htm He H1)
      as (D1 & D2 & D3 & D4 & D5 & D6 & D7 & D8 & D9 & D10 & D11 & D12 & D13).
    assert (K1 : ctl_sock cx s1 t).
    { destruct K. destruct D8 as (_ & R2 & _ & _ & _ & _ & R7). destruct D9 as ((A1 & A2 & A3) & _).
      constructor; rewrite ?D3, ?D4, ?D5, ?D7, ?R2, ?R7, ?A2, ?A3, ?D11; auto. }
    destruct (emit_fin cx s1 t t1 s' res tags K1) as (p & Hp & F); try exact H.
    { rewrite D1. exact Hst. } { rewrite D6, D5. reflexivity. } { exact D2. }
    exists p. split; [exact Hp|].
    apply (fin_sent_transfer cx s1 s s' t p F); try assumption; [apply D9 | rewrite D10; symmetry; exact (k_pfr _ _ _ K)].
Qed.

(* what the emitted segment and the socket look like after a bare ACK was sent *)
Record ack_sent (cx : ctx) (s s' : socket) (t : tuple) (p : packet) : Prop := mkAckSent {
  as_src : ip_src (fst p) = tu_local_addr t;
  as_dst : ip_dst (fst p) = tu_remote_addr t;
  as_sport : r_src_port (snd p) = tu_local_port t;
  as_dport : r_dst_port (snd p) = tu_remote_port t;
  as_ctl : r_control (snd p) = CNone;
  as_pl : r_payload (snd p) = [];
  as_seq : r_seq_number (snd p) = tcp_send_next_seq s;
  as_ack : r_ack_number (snd p) = Some (tcp_window_start s);
  as_state : s_state s' = s_state s;
  as_tuple : s_tuple s' = s_tuple s;
  as_tx : s_tx_buffer s' = s_tx_buffer s;
  as_una : s_local_seq_no s' = s_local_seq_no s;
  as_nxt : s_remote_last_seq s' = s_remote_last_seq s;
  as_timer : s_timer s' = s_timer s;
  as_rx : TcpRecvDispatch.rxv_rest s' s;
  as_la : s_remote_last_ack s' = Some (tcp_window_start s);
  as_lw : s_remote_last_win s' = tcp_scaled_window s;
  as_adt : s_ack_delay_timer s' = ADIdle;
  as_cfg : cfgf s' s;
  as_pfr : s_pending_fast_retransmit s' = s_pending_fast_retransmit s;
  as_suf : s_syn_unacked_in_fin_wait s' = s_syn_unacked_in_fin_wait s;
  as_win : s_remote_win_len s' = s_remote_win_len s;
  as_rtte : s_rtte s' = s_rtte s
}.

(* CLOSE-WAIT / TIME-WAIT: the ACK of the FIN is owed and not delayed *)
Theorem disp_ack cx s t s' res tags :
  ctl_sock cx s t -> (s_state s = CloseWait \/ s_state s = TimeWait) ->
  s_remote_last_seq s = s_local_seq_no s ->
  (s_timer s = TIdle None \/ exists e, s_timer s = TClose e) ->
  tcp_ack_to_transmit s = true -> tcp_delayed_ack_expired s (cx_now cx) = true ->
  tcp_dispatch cx s true = Ok (s', res, tags) ->
  exists p, res = DSent p /\ ack_sent cx s s' t p.
Proof.
  intros K Hst Hfl Htm Hack Hexp H.
  rewrite (dispatch_unfold cx s t true (k_tuple _ _ _ K) (k_addr _ _ _ K)) in H.
  apply obind_ok_inv in H. destruct H as ((s1 & t1) & H1 & H).
  assert (E : s1 = LP.dt_pre cx s).
  { apply (dt_notdue cx s s1 t1 (k_to _ _ _ K)); [|exact H1]. destruct Htm as [-> | (e & ->)]; reflexivity. }
  subst s1. pose proof (dt_pre_cveq cx s) as V.
  pose proof V as (E1 & E2 & E3 & E4 & E5 & E6 & E7 & E8 & E9 & E10 & E11 & E12).
  pose proof (cveq_ctl_sock _ _ _ _ V K) as K1.
  revert H K1 E1 E2 E3 E4 E5 E6 E7 E8 E9 E10 E11 E12. generalize (LP.dt_pre cx s).
  intros q H K1 E1 E2 E3 E4 E5 E6 E7 E8 E9 E10 E11 E12.
  pose proof (rxv_eq_window_start _ _ E9) as Hws. pose proof (rxv_eq_scaled_window _ _ E9) as Hsw.
  assert (Hsync : st_sync (s_state q)) by (rewrite E1; destruct Hst as [-> | ->]; exact I).
  assert (Hwf : want_fin (s_state q) = false) by (rewrite E1; destruct Hst as [-> | ->]; reflexivity).
  assert (Hflq : s_remote_last_seq q = s_local_seq_no q) by (rewrite E6, E5; exact Hfl).
  assert (Hstt : tcp_seq_to_transmit cx q = Ok false).
  { rewrite (ctl_stt cx q t K1 Hsync (or_introl Hflq)), Hwf. reflexivity. }
  assert (Hackq : tcp_ack_to_transmit q && tcp_delayed_ack_expired q (cx_now cx) = true).
  { unfold tcp_ack_to_transmit, tcp_delayed_ack_expired in *. destruct E9 as (_ & _ & _ & _ & R5 & _).
    destruct E10 as (_ & A). rewrite R5, Hws, A, Hack, Hexp. reflexivity. }
  unfold disp_rest, tcp_dispatch_decide in H. rewrite Hstt in H. cbn [obind] in H. rewrite Hackq in H. cbn [obind negb] in H.
  apply obind_ok_inv in H. destruct H as (((((s3 & o) & z) & k) & t3) & Hb & H).
  assert (Htq : s_timer q = TIdle None \/ exists e, s_timer q = TClose e) by (rewrite E2; exact Htm).
  destruct (build_ctl _ _ _ _ _ _ _ _ Hb K1) as (-> & -> & -> & repr & -> & B1 & B2 & B3 & B4 & B5 & B6 & B7).
  { rewrite E1. destruct Hst as [-> | ->]; [right; right; left | right; right; right; left]; reflexivity. }
  { left. exact Hflq. }
  { destruct Htq as [-> | (e & ->)]; reflexivity. }
  { destruct Htq as [-> | (e & ->)]; reflexivity. }
  rewrite Hwf in B3, B5. cbn [negb] in H.
  assert (Hsl : repr_segment_len repr = 0) by (unfold repr_segment_len; rewrite B3, B4; reflexivity).
  pose proof (finish_ctl cx q repr) as F. cbv zeta in F.
  destruct (tcp_dispatch_finish cx q repr false false) as (s4, t4). cbn [fst] in F.
  inversion H; subst s' res tags; clear H.
  destruct F as (F1 & F2 & F3 & F4 & F5 & F6 & F7 & F8 & F9 & F10 & F11 & F12 & F13 & _).
  { rewrite E1. destruct Hst as [-> | ->]; discriminate. } { exact (k_ka _ _ _ K1). } { rewrite B3. discriminate. }
  destruct (F13 Hsl) as (G1 & G2 & G3).
  assert (Hnx : tcp_send_next_seq q = tcp_send_next_seq s) by (unfold tcp_send_next_seq; rewrite E8, E6; reflexivity).
  eexists. split; [reflexivity|].
  constructor; unfold with_payload_len; cbn [fst snd ip_src ip_dst]; try assumption; try reflexivity; try congruence.
  - rewrite G3, E2. destruct Htm as [-> | (e & ->)]; reflexivity.
  - exact (rxv_rest_eq_trans _ _ _ F6 E9).
  - exact (cfgf_trans _ _ _ F10 (proj1 E10)).
Qed.

(* nothing is due *)
Theorem disp_quiet cx s t ok s' res tags :
  ctl_sock cx s t -> st_sync (s_state s) ->
  (s_remote_last_seq s = s_local_seq_no s \/ s_remote_last_seq s = seq_add (s_local_seq_no s) 1) ->
  want_fin (s_state s) && (s_remote_last_seq s =? s_local_seq_no s) = false ->
  timer_should_retransmit (s_timer s) (cx_now cx) = false ->
  timer_should_keep_alive (s_timer s) (cx_now cx) = false ->
  timer_should_zero_window_probe (s_timer s) (cx_now cx) = false ->
  tcp_ack_to_transmit s = false -> tcp_window_to_update s = Ok false ->
  tcp_dispatch cx s ok = Ok (s', res, tags) ->
  res = DNothing /\
  ((timer_should_close (s_timer s) (cx_now cx) = false /\ s' = LP.dt_pre cx s) \/
   (timer_should_close (s_timer s) (cx_now cx) = true /\
    s' = upd_tuple (tcp_set_state (LP.dt_pre cx s) Closed) None)).
Proof.
  intros K Hsync Hfl Hnf Hnr Hnk Hnz Hack Hwtu H.
  rewrite (dispatch_unfold cx s t ok (k_tuple _ _ _ K) (k_addr _ _ _ K)) in H.
  apply obind_ok_inv in H. destruct H as ((s1 & t1) & H1 & H).
  assert (E : s1 = LP.dt_pre cx s) by exact (dt_notdue cx s s1 t1 (k_to _ _ _ K) Hnr H1).
  subst s1. pose proof (dt_pre_cveq cx s) as V.
  pose proof V as (E1 & E2 & E3 & E4 & E5 & E6 & E7 & E8 & E9 & E10 & E11 & E12).
  pose proof (cveq_ctl_sock _ _ _ _ V K) as K1.
  revert H K1 E1 E2 E3 E4 E5 E6 E7 E8 E9 E10 E11 E12. generalize (LP.dt_pre cx s).
  intros q H K1 E1 E2 E3 E4 E5 E6 E7 E8 E9 E10 E11 E12.
  pose proof (rxv_eq_window_start _ _ E9) as Hws.
  assert (Hstt : tcp_seq_to_transmit cx q = Ok false).
  { rewrite (ctl_stt cx q t K1); [rewrite E1, E6, E5, Hnf; reflexivity | rewrite E1; exact Hsync | rewrite E6, E5; exact Hfl]. }
  assert (Hackq : tcp_ack_to_transmit q = false).
  { unfold tcp_ack_to_transmit in *. destruct E9 as (_ & _ & _ & _ & R5 & _). rewrite R5, Hws. exact Hack. }
  assert (Hwq : tcp_window_to_update q = Ok false).
  { unfold tcp_window_to_update, tcp_last_scaled_window, tcp_scaled_window in *.
    destruct E9 as (_ & R2 & _ & R4 & R5 & R6 & R7). rewrite E12, E1, R2, R4, R5, R6, R7. exact Hwtu. }
  assert (Hncl : tcp_state_eqb (s_state q) Closed = false)
    by (rewrite E1; destruct (s_state s); try contradiction; reflexivity).
  unfold disp_rest, tcp_dispatch_decide in H. rewrite Hstt in H. cbn [obind] in H.
  rewrite Hackq in H. cbn [andb] in H. rewrite Hwq in H. cbn [obind] in H.
  rewrite Hncl, E2, Hnk, Hnz in H.
  destruct (timer_should_close (s_timer s) (cx_now cx)); cbn [negb] in H; inversion H; subst; auto.
Qed.

(* ---------------------------------------------------------------------------------------- *)
(* poll_at                                                                                   *)
(* ---------------------------------------------------------------------------------------- *)
Lemma fin_poll_now cx s t :
  ctl_sock cx s t -> (s_state s = FinWait1 \/ s_state s = LastAck) ->
  s_remote_last_seq s = s_local_seq_no s -> tcp_poll_at cx s = Ok PNow.
Proof.
  intros K Hst Hfl. unfold tcp_poll_at. rewrite (k_tuple _ _ _ K). cbn [is_some negb].
  destruct (is_some (s_remote_last_ts s)); cbn [negb]; [|reflexivity].
  assert (Hnc : tcp_state_eqb (s_state s) Closed = false) by (destruct Hst as [-> | ->]; reflexivity).
  rewrite Hnc.
  rewrite (ctl_stt cx s t K ltac:(destruct Hst as [-> | ->]; exact I) (or_introl Hfl)).
  rewrite Hfl, Z.eqb_refl. destruct Hst as [-> | ->]; reflexivity.
Qed.

(* a retransmission or TIME-WAIT timer bounds poll_at *)
Lemma timer_poll_le cx s e :
  s_tuple s <> None -> (s_timer s = TRetransmit e \/ s_timer s = TClose e) ->
  match tcp_poll_at cx s with
  | Ok PNow => True
  | Ok (PTime t) => t <= e
  | Ok PIngress => False
  | _ => True
  end.
Proof.
  intros Htu Htm. unfold tcp_poll_at. destruct (s_tuple s); [|congruence]. cbn [is_some negb].
  destruct (is_some (s_remote_last_ts s)); cbn [negb]; [|exact I].
  destruct (tcp_state_eqb (s_state s) Closed); [exact I|].
  destruct (tcp_seq_to_transmit cx s) as [[|]|?|]; cbn [obind]; try exact I.
  destruct (tcp_window_to_update s) as [[|]|?|]; cbn [obind]; try exact I.
  assert (Ht : timer_poll_at (s_timer s) = PTime e) by (destruct Htm as [-> | ->]; reflexivity).
  rewrite Ht.
  destruct (match s_remote_last_ts s, s_timeout s with
            | Some remote_last_ts, Some timeout => PTime (remote_last_ts + timeout)
            | _, _ => PIngress
            end) as [|x|]; cbn [poll_at_min];
    destruct (if negb (tcp_ack_to_transmit s) then PIngress
              else match s_ack_delay_timer s with ADIdle => PNow | ADWaiting t0 => PTime t0 | ADImmediate => PNow end)
      as [|y|]; cbn [poll_at_min]; try exact I; try lia;
    repeat match goal with |- context [if ?a <=? ?b then _ else _] => destruct (Z.leb_spec a b) end;
    cbn [poll_at_min]; try lia;
    repeat match goal with |- context [if ?a <=? ?b then _ else _] => destruct (Z.leb_spec a b) end; lia.
Qed.
